import ArgoVerif.Model.Affinity
import ArgoVerif.Proofs.Atoi
/-
Proofs.AffinityLex — the character-level functions of the affinity parser
(`consume_int`, `consume_pint`, `consume_symbol`): exact characterisation, relation
to the token relation `Lex`, no signed overflow, no read outside the object, no
dependence on the bytes behind the NUL.
-/
namespace ArgoVerif.Proofs.AffinityLex
open ArgoVerif.Model.Affinity
open ArgoVerif.Gen.EnvTable
open ArgoVerif.Props.C20Spec (isWs isSign decVal negative intVal symTok Tok Lex)
open ArgoVerif.Proofs.Atoi (beq_false_of_toNat_ne mem_dropWhile_of_false dropWhile_head_false takeWhile_all hstep
  foldl_hstep_mono)

abbrev SisDigit := ArgoVerif.Props.C20Spec.isDigit

/-! ### character classes -/

theorem isWhitespace_eq (c : Byte) : isWhitespace c = isWs c := rfl

theorem isDigit_eq (c : Byte) : isDigit c = SisDigit c := by
  unfold isDigit SisDigit ArgoVerif.Props.C20Spec.isDigit
  by_cases h1 : 48 ≤ c.toNat <;> by_cases h2 : c.toNat ≤ 57 <;> simp [h1, h2]

theorem ws_facts (c : Byte) (h : isWs c = true) :
    (c == 45) = false ∧ (c == 43) = false ∧ isDigit c = false ∧ c ≠ 0 ∧ symTok c = none := by
  have : ((c = 32 ∨ c = 9) ∨ c = 13) ∨ c = 10 := by simpa [isWs] using h
  rcases this with ((rfl | rfl) | rfl) | rfl <;> decide

theorem sign_facts (c : Byte) (h : isSign c = true) :
    (c = 43 ∨ c = 45) ∧ isWs c = false ∧ isDigit c = false ∧ c ≠ 0 ∧ symTok c = none := by
  have : c = 43 ∨ c = 45 := by simpa [isSign] using h
  refine ⟨this, ?_⟩
  rcases this with rfl | rfl <;> decide

theorem digit_facts (c : Byte) (h : SisDigit c = true) :
    (c == 45) = false ∧ (c == 43) = false ∧ isWs c = false ∧ isDigit c = true ∧ c.toNat - 48 ≤ 9 ∧ c ≠ 0 ∧
      isSign c = false ∧ symTok c = none := by
  have hd : 48 ≤ c.toNat ∧ c.toNat ≤ 57 := by simpa [SisDigit, ArgoVerif.Props.C20Spec.isDigit] using h
  have ne : ∀ k : Byte, c.toNat ≠ k.toNat → (c == k) = false := beq_false_of_toNat_ne c
  refine ⟨ne 45 (by simp; omega), ne 43 (by simp; omega), ?_, by rw [isDigit_eq]; exact h, by omega, ?_, ?_, ?_⟩
  · unfold isWs
    rw [ne 32 (by simp; omega), ne 9 (by simp; omega), ne 13 (by simp; omega), ne 10 (by simp; omega)]; rfl
  · intro h0; subst h0; simp at hd
  · unfold isSign; rw [ne 43 (by simp; omega), ne 45 (by simp; omega)]; rfl
  · unfold symTok
    rw [ne 123 (by simp; omega), ne 125 (by simp; omega), ne 58 (by simp; omega), ne 44 (by simp; omega)]; rfl

theorem sym_facts (c : Byte) (t : Tok) (h : symTok c = some t) :
    (c == 45) = false ∧ (c == 43) = false ∧ isWs c = false ∧ isDigit c = false ∧ c ≠ 0 ∧ isSign c = false := by
  have : c = 123 ∨ c = 125 ∨ c = 58 ∨ c = 44 := by
    unfold symTok at h
    by_cases h1 : c = 123; · exact Or.inl h1
    by_cases h2 : c = 125; · exact Or.inr (Or.inl h2)
    by_cases h3 : c = 58; · exact Or.inr (Or.inr (Or.inl h3))
    by_cases h4 : c = 44; · exact Or.inr (Or.inr (Or.inr h4))
    simp [h1, h2, h3, h4] at h
  rcases this with rfl | rfl | rfl | rfl <;> decide

theorem nul_facts : ((0 : Byte) == 45) = false ∧ ((0 : Byte) == 43) = false ∧ isWs 0 = false ∧
    isDigit 0 = false ∧ isSign 0 = false ∧ symTok 0 = none := by decide

/-! ### consume_symbol -/

theorem consumeSymbol_ws (sym : Byte) (hs : isWs sym = false) (w rest : List Byte)
    (hw : ∀ c ∈ w, isWs c = true) : consumeSymbol sym (w ++ rest) = consumeSymbol sym rest := by
  induction w with
  | nil => rfl
  | cons c w ih =>
    have hc : isWs c = true := hw c (by simp)
    have hne : (c == sym) = false := by
      cases h : c == sym
      · rfl
      · rw [eq_of_beq h] at hc; rw [hc] at hs; cases hs
    simp only [List.cons_append, consumeSymbol, hne, Bool.false_eq_true, if_false, isWhitespace_eq, hc, if_true]
    exact ih (fun c hc => hw c (by simp [hc]))

theorem consumeSymbol_hit (sym : Byte) (rest : List Byte) : consumeSymbol sym (sym :: rest) = .ok () rest := by
  simp [consumeSymbol]

theorem consumeSymbol_miss (sym c : Byte) (rest : List Byte) (h1 : c ≠ sym) (h2 : isWs c = false) :
    consumeSymbol sym (c :: rest) = .fail := by
  have : (c == sym) = false := by
    cases h : c == sym
    · rfl
    · exact absurd (eq_of_beq h) h1
  simp [consumeSymbol, this, isWhitespace_eq, h2]

/-- inversion: a successful `consume_symbol` skipped white space and ate the symbol -/
theorem consumeSymbol_inv (sym : Byte) (b b' : List Byte) (h : consumeSymbol sym b = .ok () b') :
    ∃ w, (∀ c ∈ w, isWs c = true) ∧ b = w ++ sym :: b' := by
  induction b with
  | nil => simp [consumeSymbol] at h
  | cons c b ih =>
    simp only [consumeSymbol] at h
    by_cases h1 : (c == sym) = true
    · rw [if_pos h1] at h
      injection h with _ hb
      exact ⟨[], by simp, by rw [eq_of_beq h1, hb]; rfl⟩
    · rw [if_neg h1] at h
      by_cases h2 : isWhitespace c = true
      · rw [if_pos h2] at h
        obtain ⟨w, hw, e⟩ := ih h
        refine ⟨c :: w, ?_, by rw [e]; rfl⟩
        intro x hx
        rcases List.mem_cons.mp hx with rfl | hx
        · exact h2
        · exact hw x hx
      · rw [if_neg h2] at h; cases h

theorem consumeSymbol_outcomes (sym : Byte) (b : List Byte) :
    consumeSymbol sym b ≠ .ub ∧ consumeSymbol sym b ≠ .fuel := by
  induction b with
  | nil => simp [consumeSymbol]
  | cons c b ih =>
    simp only [consumeSymbol]
    split
    · simp
    · split
      · exact ih
      · simp

theorem consumeSymbol_no_oob (sym : Byte) (b : List Byte) (h0 : (0 : Byte) ∈ b) :
    consumeSymbol sym b ≠ .oob := by
  induction b with
  | nil => cases h0
  | cons c b ih =>
    simp only [consumeSymbol]
    split
    · simp
    · split
      · rename_i _ hw
        apply ih
        rcases List.mem_cons.mp h0 with h | h
        · subst h; exact absurd hw (by decide)
        · exact h
      · simp

/-! ### consume_int: the three phases -/

theorem loop_ws (w l : List Byte) (hw : ∀ c ∈ w, isWs c = true) (val sg : Int) :
    consumeIntLoop (w ++ l) val sg .n = consumeIntLoop l val sg .n := by
  induction w with
  | nil => rfl
  | cons c w ih =>
    obtain ⟨h45, h43, _, _, _⟩ := ws_facts c (hw c (by simp))
    have hc : isWhitespace c = true := hw c (by simp)
    simp only [List.cons_append, consumeIntLoop, h45, h43, Bool.and_false, Bool.false_eq_true, if_false, hc]
    simp only [beq_self_eq_true, Bool.and_self, if_true]
    exact ih (fun c hc => hw c (by simp [hc]))

/-- sign of a sign run as a factor -/
def signOf (sg : List Byte) : Int := if negative sg then -1 else 1

theorem signOf_nil : signOf [] = 1 := by simp [signOf, negative]
theorem signOf_plus (sg : List Byte) : signOf (43 :: sg) = signOf sg := by
  unfold signOf; rw [ArgoVerif.Proofs.Atoi.negative_cons_plus]
theorem signOf_minus (sg : List Byte) : signOf (45 :: sg) = -signOf sg := by
  unfold signOf; rw [ArgoVerif.Proofs.Atoi.negative_cons_minus]
  cases negative sg <;> simp
theorem signOf_cases (sg : List Byte) : signOf sg = 1 ∨ signOf sg = -1 := by
  unfold signOf; cases negative sg <;> simp

theorem inInt_pm (s : Int) (h : s = 1 ∨ s = -1) : inInt (-s) = true := by
  rcases h with rfl | rfl <;> decide

theorem loop_signs (sgs l : List Byte) (hs : ∀ c ∈ sgs, isSign c = true) (val s : Int) (f : Flag)
    (hf : f ≠ .v) (hs1 : s = 1 ∨ s = -1) :
    consumeIntLoop (sgs ++ l) val s f =
      consumeIntLoop l val (s * signOf sgs) (if sgs = [] then f else .s) := by
  induction sgs generalizing s f with
  | nil => simp [signOf_nil]
  | cons c sgs ih =>
    have hfv : (f != Flag.v) = true := by cases f <;> simp at hf ⊢
    have hs' : ∀ c ∈ sgs, isSign c = true := fun c hc => hs c (by simp [hc])
    rcases (sign_facts c (hs c (by simp))).1 with rfl | rfl
    · have : ((43 : Byte) == 45) = false := by decide
      simp only [List.cons_append, consumeIntLoop, hfv, this, Bool.and_false, Bool.false_eq_true, if_false]
      simp only [beq_self_eq_true, Bool.and_self, if_true]
      rw [ih hs' s .s (by simp) hs1, signOf_plus]
      simp
    · simp only [List.cons_append, consumeIntLoop, hfv, beq_self_eq_true, Bool.and_self, if_true, inInt_pm s hs1]
      rw [ih hs' (-s) .s (by simp) (by omega), signOf_minus]
      simp only [reduceCtorEq, if_false]
      congr 1
      · rw [Int.neg_mul, Int.mul_neg]
      · simp

theorem guard_iff (val : Int) (d : Nat) (hv : 0 ≤ val) (hd : d ≤ 9) :
    (val > (cIntMax - (d : Int)) / 10) ↔ val * 10 + d > 2147483647 := by
  unfold cIntMax; omega

theorem loop_digits (ds : List Byte) (hds : ∀ c ∈ ds, SisDigit c = true) (c0 : Byte) (r : List Byte)
    (hc0 : isDigit c0 = false) (val : Nat) (hval : val ≤ 2147483647) (s : Int) (hs1 : s = 1 ∨ s = -1)
    (f : Flag) (hnil : ds = [] → f = .v) :
    consumeIntLoop (ds ++ c0 :: r) val s f =
      if ds.foldl hstep val ≤ 2147483647 then .ok ((ds.foldl hstep val : Nat) * s) (c0 :: r) else .fail := by
  induction ds generalizing val f with
  | nil =>
    have := hnil rfl; subst this
    have hin : inInt ((val : Int) * s) = true := by
      unfold inInt cIntMin cIntMax; rcases hs1 with rfl | rfl <;> simp <;> omega
    simp [consumeIntLoop, hc0, hval, hin]
  | cons d ds ih =>
    obtain ⟨h45, h43, hws, hd, hv, _⟩ := digit_facts d (hds d (by simp))
    have hds' : ∀ c ∈ ds, SisDigit c = true := fun c hc => hds c (by simp [hc])
    have hws' : isWhitespace d = false := hws
    simp only [List.cons_append, consumeIntLoop, h45, h43, hws', hd, Bool.and_false, Bool.false_eq_true,
      if_false, if_true, List.foldl_cons]
    have hg := guard_iff (val : Int) (d.toNat - 48) (by omega) hv
    by_cases hov : (val : Int) * 10 + ((d.toNat - 48 : Nat) : Int) > 2147483647
    · have hm := foldl_hstep_mono ds (hstep val d)
      have : ¬ (List.foldl hstep (hstep val d) ds ≤ 2147483647) := by
        unfold hstep at hm ⊢; omega
      rw [if_pos (hg.mpr hov)]; simp [this]
    · rw [if_neg (fun h => hov (hg.mp h))]
      have h1 : inInt ((val : Int) * 10) = true := by unfold inInt cIntMin cIntMax; simp; omega
      have h2 : inInt ((val : Int) * 10 + ((d.toNat - 48 : Nat) : Int)) = true := by
        unfold inInt cIntMin cIntMax; simp; omega
      simp only [h1, h2, Bool.and_self, if_true]
      have e : (val : Int) * 10 + ((d.toNat - 48 : Nat) : Int) = ((hstep val d : Nat) : Int) := by
        unfold hstep; push_cast; omega
      rw [e]
      exact ih hds' (hstep val d) (by unfold hstep; omega) .v (fun _ => rfl)

theorem loop_stop (c0 : Byte) (r : List Byte) (val s : Int) (f : Flag) (hf : f ≠ .v)
    (h45 : (c0 == 45) = false) (h43 : (c0 == 43) = false) (hd : isDigit c0 = false)
    (hw : f = .n → isWs c0 = false) : consumeIntLoop (c0 :: r) val s f = .fail := by
  have h3 : (f == Flag.n && isWhitespace c0) = false := by
    cases f
    · simp [isWhitespace_eq, hw rfl]
    · rfl
    · exact absurd rfl hf
  have h4 : (f == Flag.v) = false := by cases f <;> simp at hf ⊢
  simp [consumeIntLoop, h45, h43, h3, hd, h4]

/-- `consume_int` on `white* sign* digit* c …` where `c` ends the digit run and the
runs are maximal -/
theorem consumeInt_phases (w sg ds : List Byte) (c0 : Byte) (r : List Byte)
    (hw : ∀ c ∈ w, isWs c = true) (hsg : ∀ c ∈ sg, isSign c = true) (hds : ∀ c ∈ ds, SisDigit c = true)
    (hc0 : isDigit c0 = false)
    (hmax : ds = [] → isSign c0 = false ∧ (sg = [] → isWs c0 = false)) :
    consumeInt (w ++ sg ++ ds ++ c0 :: r) =
      if ds = [] then .fail
      else if decVal ds ≤ 2147483647 then .ok (intVal sg ds) (c0 :: r) else .fail := by
  unfold consumeInt
  rw [List.append_assoc, List.append_assoc, loop_ws w _ hw, loop_signs sg _ hsg 0 1 .n (by simp) (Or.inl rfl)]
  by_cases hd : ds = []
  · subst hd
    obtain ⟨hns, hnw⟩ := hmax rfl
    have h2 : (c0 == 43) = false ∧ (c0 == 45) = false := by
      simp only [isSign, Bool.or_eq_false_iff] at hns; exact hns
    simp only [List.nil_append, if_true]
    apply loop_stop c0 r _ _ _ _ h2.2 h2.1 hc0
    · intro h; split at h
      · rename_i hsg'; exact hnw hsg'
      · cases h
    · split <;> simp
  · rw [if_neg hd]
    have := loop_digits ds hds c0 r hc0 0 (by omega) (1 * signOf sg) (by have := signOf_cases sg; omega)
      (if sg = [] then Flag.n else Flag.s) (fun h => absurd h hd)
    simp only [Int.natCast_zero] at this
    rw [this]
    have e : List.foldl hstep 0 ds = decVal ds := rfl
    rw [e]
    split
    · congr 1
      unfold intVal signOf
      cases negative sg <;> simp
    · rfl

/-! ### consume_int: total characterisation on NUL-terminated memory -/

/-- decomposition of a buffer as the lexer sees it -/
structure Split (b : List Byte) where
  w : List Byte
  sg : List Byte
  ds : List Byte
  c0 : Byte
  r : List Byte
  eq : b = w ++ sg ++ ds ++ c0 :: r
  hw : ∀ c ∈ w, isWs c = true
  hsg : ∀ c ∈ sg, isSign c = true
  hds : ∀ c ∈ ds, SisDigit c = true
  hc0 : isDigit c0 = false
  hmax : ds = [] → isSign c0 = false ∧ (sg = [] → isWs c0 = false)
  h0 : (0 : Byte) ∈ c0 :: r

theorem split_exists (b : List Byte) (h0 : (0 : Byte) ∈ b) : Nonempty (Split b) := by
  have ha0 : (0 : Byte) ∈ b.dropWhile isWs := mem_dropWhile_of_false 0 (by decide) b h0
  have hb0 : (0 : Byte) ∈ (b.dropWhile isWs).dropWhile isSign := mem_dropWhile_of_false 0 (by decide) _ ha0
  have hr0 : (0 : Byte) ∈ ((b.dropWhile isWs).dropWhile isSign).dropWhile SisDigit :=
    mem_dropWhile_of_false 0 (by decide) _ hb0
  generalize hA : b.dropWhile isWs = a at *
  generalize hB : a.dropWhile isSign = d at *
  generalize hR : d.dropWhile SisDigit = rest at *
  have e1 : b = b.takeWhile isWs ++ a := by rw [← hA]; exact (List.takeWhile_append_dropWhile).symm
  have e2 : a = a.takeWhile isSign ++ d := by rw [← hB]; exact (List.takeWhile_append_dropWhile).symm
  have e3 : d = d.takeWhile SisDigit ++ rest := by rw [← hR]; exact (List.takeWhile_append_dropWhile).symm
  cases rest with
  | nil => cases hr0
  | cons c0 r =>
    have hc0 : SisDigit c0 = false := dropWhile_head_false d c0 r hR
    refine ⟨⟨b.takeWhile isWs, a.takeWhile isSign, d.takeWhile SisDigit, c0, r, ?_, takeWhile_all b, takeWhile_all a,
      takeWhile_all d, by rw [isDigit_eq]; exact hc0, ?_, hr0⟩⟩
    · rw [List.append_assoc, List.append_assoc, ← e3, ← e2, ← e1]
    · intro hds
      have hd : d = c0 :: r := by rw [e3, hds]; rfl
      refine ⟨dropWhile_head_false a c0 r (by rw [hB, hd]), ?_⟩
      intro hsg
      have ha : a = c0 :: r := by rw [e2, hsg, hd]; rfl
      exact dropWhile_head_false b c0 r (by rw [hA, ha])

theorem consumeInt_split (b : List Byte) (sp : Split b) :
    consumeInt b = if sp.ds = [] then .fail
      else if decVal sp.ds ≤ 2147483647 then .ok (intVal sp.sg sp.ds) (sp.c0 :: sp.r) else .fail := by
  have := consumeInt_phases sp.w sp.sg sp.ds sp.c0 sp.r sp.hw sp.hsg sp.hds sp.hc0 sp.hmax
  rw [← sp.eq] at this
  exact this

/-- `consume_int` never overflows `int`, never leaves a NUL-terminated object -/
theorem consumeInt_outcomes (b : List Byte) (h0 : (0 : Byte) ∈ b) :
    consumeInt b ≠ .ub ∧ consumeInt b ≠ .oob ∧ consumeInt b ≠ .fuel := by
  obtain ⟨sp⟩ := split_exists b h0
  rw [consumeInt_split b sp]
  split
  · simp
  · split <;> simp

theorem intVal_abs (sg ds : List Byte) : intVal sg ds = decVal ds ∨ intVal sg ds = -(decVal ds : Int) := by
  unfold intVal; cases negative sg <;> simp

/-- inversion: what a successful `consume_int` has read -/
theorem consumeInt_inv (b b' : List Byte) (v : Int) (h0 : (0 : Byte) ∈ b) (h : consumeInt b = .ok v b') :
    ∃ w sg ds, b = w ++ sg ++ ds ++ b' ∧ (∀ c ∈ w, isWs c = true) ∧ (∀ c ∈ sg, isSign c = true) ∧ ds ≠ [] ∧
      (∀ c ∈ ds, SisDigit c = true) ∧ (∀ c r, b' = c :: r → SisDigit c = false) ∧ v = intVal sg ds ∧
      decVal ds ≤ 2147483647 ∧ (0 : Byte) ∈ b' := by
  obtain ⟨sp⟩ := split_exists b h0
  rw [consumeInt_split b sp] at h
  by_cases hd : sp.ds = []
  · rw [if_pos hd] at h; cases h
  · rw [if_neg hd] at h
    by_cases hle : decVal sp.ds ≤ 2147483647
    · rw [if_pos hle] at h
      injection h with hv hb
      refine ⟨sp.w, sp.sg, sp.ds, by rw [← hb]; exact sp.eq, sp.hw, sp.hsg, hd, sp.hds, ?_, hv.symm, hle, by rw [← hb]; exact sp.h0⟩
      intro c r hcr
      rw [← hb] at hcr
      injection hcr with hc _
      rw [← hc, ← isDigit_eq]; exact sp.hc0
    · rw [if_neg hle] at h; cases h

/-- the repaired guard: on *every* input (NUL-terminated or not) every `int`
operation of `consume_int` stays inside `[INT_MIN, INT_MAX]` -/
theorem intLoop_no_ub (b : List Byte) : ∀ (val s : Int) (f : Flag), 0 ≤ val → val ≤ 2147483647 → (s = 1 ∨ s = -1) →
    consumeIntLoop b val s f ≠ .ub := by
  induction b with
  | nil => intro val s f _ _ _; simp [consumeIntLoop]
  | cons c b ih =>
    intro val s f h0 h1 hs
    simp only [consumeIntLoop]
    split
    · rw [inInt_pm s hs]; simp only [if_true]
      exact ih val (-s) .s h0 h1 (by omega)
    · split
      · exact ih val s .s h0 h1 hs
      · split
        · exact ih val s f h0 h1 hs
        · split
          · rename_i _ _ _ hd
            have hd9 : c.toNat - 48 ≤ 9 := by
              simp only [isDigit, Bool.and_eq_true, decide_eq_true_eq] at hd; omega
            have hg := guard_iff val (c.toNat - 48) h0 hd9
            by_cases hov : val * 10 + ((c.toNat - 48 : Nat) : Int) > 2147483647
            · rw [if_pos (hg.mpr hov)]; simp
            · rw [if_neg (fun h => hov (hg.mp h))]
              have e1 : inInt (val * 10) = true := by unfold inInt cIntMin cIntMax; simp; omega
              have e2 : inInt (val * 10 + ((c.toNat - 48 : Nat) : Int)) = true := by
                unfold inInt cIntMin cIntMax; simp; omega
              simp only [e1, e2, Bool.and_self, if_true]
              exact ih _ s .v (by omega) (by omega) hs
          · split
            · have : inInt (val * s) = true := by
                unfold inInt cIntMin cIntMax; rcases hs with rfl | rfl <;> simp <;> omega
              rw [this]; simp
            · simp

theorem consumeInt_no_ub (b : List Byte) : consumeInt b ≠ .ub :=
  intLoop_no_ub b 0 1 .n (by omega) (by omega) (Or.inl rfl)

/-! ### the consume functions against the token relation `Lex` -/

theorem lex_has_nul {b : List Byte} {ts : List Tok} (h : Lex b ts) : (0 : Byte) ∈ b := by
  induction h with
  | eos w post _ => simp
  | sym w c t rest ts _ _ _ ih => simp [ih]
  | int w sg ds rest ts _ _ _ _ _ _ ih => simp [ih]

theorem symTok_cases (c : Byte) (t : Tok) (h : symTok c = some t) :
    (c = 123 ∧ t = .lbrace) ∨ (c = 125 ∧ t = .rbrace) ∨ (c = 58 ∧ t = .colon) ∨ (c = 44 ∧ t = .comma) := by
  unfold symTok at h
  by_cases h1 : c = 123
  · simp [h1] at h; exact Or.inl ⟨h1, h.symm⟩
  by_cases h2 : c = 125
  · simp [h2] at h; exact Or.inr (Or.inl ⟨h2, h.symm⟩)
  by_cases h3 : c = 58
  · simp [h3] at h; exact Or.inr (Or.inr (Or.inl ⟨h3, h.symm⟩))
  by_cases h4 : c = 44
  · simp [h4] at h; exact Or.inr (Or.inr (Or.inr ⟨h4, h.symm⟩))
  simp [h1, h2, h3, h4] at h

theorem symTok_inj (c c' : Byte) (t : Tok) (h : symTok c = some t) (h' : symTok c' = some t) : c = c' := by
  rcases symTok_cases c t h with ⟨rfl, rfl⟩ | ⟨rfl, rfl⟩ | ⟨rfl, rfl⟩ | ⟨rfl, rfl⟩ <;>
  rcases symTok_cases c' _ h' with ⟨rfl, h2⟩ | ⟨rfl, h2⟩ | ⟨rfl, h2⟩ | ⟨rfl, h2⟩ <;>
  first | rfl | cases h2

theorem symTok_not_int (c : Byte) (v : Int) : symTok c ≠ some (.int v) := by
  unfold symTok; split <;> (try split) <;> (try split) <;> (try split) <;> simp

theorem intOk_iff (sg ds : List Byte) :
    (-2147483647 ≤ intVal sg ds ∧ intVal sg ds ≤ 2147483647) ↔ decVal ds ≤ 2147483647 := by
  rcases intVal_abs sg ds with h | h <;> rw [h] <;> omega

/-- an integer token is next: `consume_int` takes exactly it (or rejects it when its
magnitude exceeds INT_MAX) -/
theorem int_hit (b : List Byte) (ts : List Tok) (v : Int) (h : Lex b (.int v :: ts)) :
    ∃ b', consumeInt b = (if -2147483647 ≤ v ∧ v ≤ 2147483647 then .ok v b' else .fail) ∧ Lex b' ts ∧
      b'.length < b.length := by
  cases h with
  | sym w c _ rest _ _ hc _ => exact absurd hc (symTok_not_int c v)
  | int w sg ds rest _ hw hsg hne hds hmax hrest =>
    have h0 := lex_has_nul hrest
    cases rest with
    | nil => cases h0
    | cons c0 r =>
      have hc0 : isDigit c0 = false := by rw [isDigit_eq]; exact hmax c0 r rfl
      refine ⟨c0 :: r, ?_, hrest, ?_⟩
      · rw [consumeInt_phases w sg ds c0 r hw hsg hds hc0 (fun h => absurd h hne), if_neg hne]
        by_cases hle : decVal ds ≤ 2147483647
        · rw [if_pos hle, if_pos ((intOk_iff sg ds).mpr hle)]
        · rw [if_neg hle, if_neg (fun h => hle ((intOk_iff sg ds).mp h))]
      · have : 0 < ds.length := List.length_pos_iff.mpr hne
        simp only [List.length_append, List.length_cons]; omega

/-- no integer token is next: `consume_int` fails (and `*p_index` is unchanged) -/
theorem int_miss (b : List Byte) (ts : List Tok) (h : Lex b ts) (hne : ∀ v ts', ts ≠ .int v :: ts') :
    consumeInt b = .fail := by
  cases h with
  | eos w post hw =>
    obtain ⟨_, _, hws, hd, hs, _⟩ := nul_facts
    have := consumeInt_phases w [] [] 0 post hw (by simp) (by simp) hd (fun _ => ⟨hs, fun _ => hws⟩)
    simpa using this
  | sym w c t rest ts' hw hc _ =>
    obtain ⟨_, _, hws, hd, _, hs⟩ := sym_facts c t hc
    have := consumeInt_phases w [] [] c rest hw (by simp) (by simp) hd (fun _ => ⟨hs, fun _ => hws⟩)
    simpa using this
  | int w sg ds rest ts' _ _ _ _ _ _ => exact absurd rfl (hne _ _)

theorem sym_hit (b : List Byte) (ts : List Tok) (c : Byte) (t : Tok) (hc : symTok c = some t)
    (h : Lex b (t :: ts)) :
    ∃ b', consumeSymbol c b = .ok () b' ∧ Lex b' ts ∧ b'.length < b.length := by
  have hcw := (sym_facts c t hc).2.2.1
  cases h with
  | sym w c' _ rest _ hw hc' hrest =>
    have : c = c' := symTok_inj c c' t hc hc'
    subst this
    refine ⟨rest, ?_, hrest, by simp only [List.length_append, List.length_cons]; omega⟩
    rw [consumeSymbol_ws c hcw w _ hw, consumeSymbol_hit]
  | int w sg ds rest _ _ _ _ _ _ _ => exact absurd hc (symTok_not_int c _)

/-- first character of `sign* digit+` -/
theorem head_sign_digit (sg ds rest : List Byte) (hsg : ∀ c ∈ sg, isSign c = true) (hne : ds ≠ [])
    (hds : ∀ c ∈ ds, SisDigit c = true) :
    ∃ x l, sg ++ ds ++ rest = x :: l ∧ isWs x = false ∧ x ≠ 0 ∧ symTok x = none := by
  cases sg with
  | cons x sg' =>
    obtain ⟨_, h1, _, h2, h3⟩ := sign_facts x (hsg x (by simp))
    exact ⟨x, _, rfl, h1, h2, h3⟩
  | nil =>
    cases ds with
    | nil => exact absurd rfl hne
    | cons x ds' =>
      obtain ⟨_, _, h1, _, _, h2, _, h3⟩ := digit_facts x (hds x (by simp))
      exact ⟨x, _, rfl, h1, h2, h3⟩

/-- another token (or the end) is next: `consume_symbol(c)` fails -/
theorem sym_miss (b : List Byte) (ts : List Tok) (c : Byte) (t : Tok) (hc : symTok c = some t)
    (h : Lex b ts) (hne : ∀ ts', ts ≠ t :: ts') : consumeSymbol c b = .fail := by
  obtain ⟨_, _, hcw, _, hc0, _⟩ := sym_facts c t hc
  cases h with
  | eos w post hw =>
    rw [consumeSymbol_ws c hcw w _ hw]
    exact consumeSymbol_miss c 0 post (fun h => hc0 h.symm) (by decide)
  | sym w c' t' rest ts' hw hc' _ =>
    rw [consumeSymbol_ws c hcw w _ hw]
    apply consumeSymbol_miss c c' rest _ (sym_facts c' t' hc').2.2.1
    intro h; subst h
    rw [hc] at hc'; injection hc' with e
    exact hne ts' (by rw [e])
  | int w sg ds rest ts' hw hsg hds0 hds _ _ =>
    obtain ⟨x, l, e, h1, _, h3⟩ := head_sign_digit sg ds rest hsg hds0 hds
    rw [List.append_assoc, List.append_assoc, consumeSymbol_ws c hcw w _ hw, ← List.append_assoc, e]
    apply consumeSymbol_miss c x l _ h1
    intro h; subst h; rw [hc] at h3; cases h3

theorem eos_hit (b : List Byte) (h : Lex b []) : ∃ b', consumeSymbol 0 b = .ok () b' := by
  cases h with
  | eos w post hw => exact ⟨post, by rw [consumeSymbol_ws 0 (by decide) w _ hw, consumeSymbol_hit]⟩

theorem eos_miss (b : List Byte) (t : Tok) (ts : List Tok) (h : Lex b (t :: ts)) :
    consumeSymbol 0 b = .fail := by
  cases h with
  | sym w c' _ rest _ hw hc' _ =>
    rw [consumeSymbol_ws 0 (by decide) w _ hw]
    exact consumeSymbol_miss 0 c' rest (sym_facts c' t hc').2.2.2.2.1 (sym_facts c' t hc').2.2.1
  | int w sg ds rest _ hw hsg hds0 hds _ _ =>
    obtain ⟨x, l, e, h1, h2, _⟩ := head_sign_digit sg ds rest hsg hds0 hds
    rw [List.append_assoc, List.append_assoc, consumeSymbol_ws 0 (by decide) w _ hw, ← List.append_assoc, e]
    exact consumeSymbol_miss 0 x l h2 h1

/-! soundness direction: what was consumed is a token -/

theorem int_sound (b b' : List Byte) (v : Int) (h0 : (0 : Byte) ∈ b) (h : consumeInt b = .ok v b') :
    (∀ ts, Lex b' ts → Lex b (.int v :: ts)) ∧ (-2147483647 ≤ v ∧ v ≤ 2147483647) ∧
      b'.length < b.length ∧ (0 : Byte) ∈ b' := by
  obtain ⟨w, sg, ds, e, hw, hsg, hne, hds, hmax, hv, hle, h0'⟩ := consumeInt_inv b b' v h0 h
  refine ⟨?_, ?_, ?_, h0'⟩
  · intro ts hts
    rw [e, hv]
    exact Lex.int w sg ds b' ts hw hsg hne hds hmax hts
  · rw [hv]; exact (intOk_iff sg ds).mpr hle
  · have : 0 < ds.length := List.length_pos_iff.mpr hne
    rw [e]; simp only [List.length_append]; omega

theorem sym_sound (b b' : List Byte) (c : Byte) (t : Tok) (hc : symTok c = some t)
    (h : consumeSymbol c b = .ok () b') :
    (∀ ts, Lex b' ts → Lex b (t :: ts)) ∧ b'.length < b.length ∧ ((0 : Byte) ∈ b → (0 : Byte) ∈ b') := by
  obtain ⟨w, hw, e⟩ := consumeSymbol_inv c b b' h
  refine ⟨fun ts hts => by rw [e]; exact Lex.sym w c t b' ts hw hc hts,
    by rw [e]; simp only [List.length_append, List.length_cons]; omega, ?_⟩
  intro h0
  rw [e] at h0
  rcases List.mem_append.mp h0 with h | h
  · exact absurd (hw 0 h) (by decide)
  · rcases List.mem_cons.mp h with h | h
    · exact absurd h.symm (sym_facts c t hc).2.2.2.2.1
    · exact h

theorem eos_sound (b b' : List Byte) (h : consumeSymbol 0 b = .ok () b') : Lex b [] := by
  obtain ⟨w, hw, e⟩ := consumeSymbol_inv 0 b b' h
  rw [e]; exact Lex.eos w b' hw

end ArgoVerif.Proofs.AffinityLex
