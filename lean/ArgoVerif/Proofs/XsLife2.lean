import ArgoVerif.Proofs.XsLife
/-
Proofs.XsLife2 — `Inv` is preserved by every step of stream.c / thread.c that leaves the native-thread context alone
(the life-cycle caller outside abtd_stream.c, cancel / get_state / push, the native thread inside thread_f).
-/
namespace ArgoVerif.Model.XsLife
open ArgoVerif ArgoVerif.Model.XsCtx

macro "inv_defs" : tactic => `(tactic| simp_all [npcOk, preOk, endedOk, rel, joinOk, quietOk, reviveOk])

/-- close the nine clauses of `Inv` for a step that leaves the context alone -/
macro "inv_close" s:ident : tactic => `(tactic| (
  constructor <;>
    first
    | (inv_defs; done)
    | (cases hl : St.lpc $s <;> inv_defs; done)
    | (cases hn : St.npc $s <;> inv_defs; done)
    | (cases hl : St.lpc $s <;> cases hn : St.npc $s <;> inv_defs; done)
    | (cases hl : St.lpc $s <;> cases hn : St.npc $s <;> inv_defs <;> grind)))

/-- one guarded step: the guard becomes a hypothesis, `s'` the updated record, then the clauses -/
macro "inv_event" s:ident hi:ident hs:ident : tactic => `(tactic| (
  simp only [step] at $hs:ident
  split at $hs:ident <;> simp only [Option.some.injEq, reduceCtorEq] at $hs:ident
  subst $hs:ident
  have hf := facts_of $hi
  obtain ⟨h1, h2, h3, h4, h5, h6, h7, h8, h9⟩ := $hi
  inv_close $s))

theorem inv_callJoin {s s' : St} (hi : Inv s) (hs : step s (.call .join) = some s') : Inv s' := by
  inv_event s hi hs

theorem inv_callFree {s s' : St} (hi : Inv s) (hs : step s (.call .free) = some s') : Inv s' := by
  inv_event s hi hs

theorem inv_jFin {s s' : St} (hi : Inv s) (hs : step s (.jFin) = some s') : Inv s' := by
  inv_event s hi hs

theorem inv_jSetJ {s s' : St} (hi : Inv s) (hs : step s (.jSetJ) = some s') : Inv s' := by
  inv_event s hi hs

theorem inv_retJoin {s s' : St} (hi : Inv s) (hs : step s (.ret .join) = some s') : Inv s' := by
  inv_event s hi hs

theorem inv_rReset {s s' : St} (hi : Inv s) (hs : step s (.rReset) = some s') : Inv s' := by
  inv_event s hi hs

theorem inv_rReady {s s' : St} (hi : Inv s) (hs : step s (.rReady) = some s') : Inv s' := by
  inv_event s hi hs

theorem inv_rClear {s s' : St} (hi : Inv s) (hs : step s (.rClear) = some s') : Inv s' := by
  inv_event s hi hs

theorem inv_rPush {s s' : St} (hi : Inv s) (hs : step s (.rPush) = some s') : Inv s' := by
  inv_event s hi hs

theorem inv_rPub {s s' : St} (hi : Inv s) (hs : step s (.rPub) = some s') : Inv s' := by
  inv_event s hi hs

theorem inv_retRevive {s s' : St} (hi : Inv s) (hs : step s (.ret .revive) = some s') : Inv s' := by
  inv_event s hi hs

theorem inv_retFree {s s' : St} (hi : Inv s) (hs : step s (.ret .free) = some s') : Inv s' := by
  inv_event s hi hs

theorem inv_cancel {s s' : St} (hi : Inv s) (hs : step s (.cancel) = some s') : Inv s' := by
  inv_event s hi hs

theorem inv_push {s s' : St} (hi : Inv s) (hs : step s (.push) = some s') : Inv s' := by
  inv_event s hi hs

theorem inv_nRun {s s' : St} (hi : Inv s) (hs : step s (.nRun) = some s') : Inv s' := by
  inv_event s hi hs

theorem inv_nRunExit {s s' : St} (hi : Inv s) (hs : step s (.nRunExit) = some s') : Inv s' := by
  inv_event s hi hs

theorem inv_nStop {s s' : St} (hi : Inv s) (hs : step s (.nStop) = some s') : Inv s' := by
  inv_event s hi hs

theorem inv_nMTerm {s s' : St} (hi : Inv s) (hs : step s (.nMTerm) = some s') : Inv s' := by
  inv_event s hi hs

theorem inv_nPubTerm {s s' : St} (hi : Inv s) (hs : step s (.nPubTerm) = some s') : Inv s' := by
  inv_event s hi hs

theorem inv_callRevive {s s' : St} (hi : Inv s) (hs : step s (.call .revive) = some s') : Inv s' := by
  simp only [step] at hs
  split at hs <;> simp only [Option.some.injEq, reduceCtorEq] at hs
  subst hs
  rename_i hg
  have hc : ccl s.x.cpc = .idleT := by rw [hg.2]; rfl
  have hf := facts_of hi
  obtain ⟨h1, h2, h3, h4, h5, h6, h7, h8, h9⟩ := hi
  inv_close s

theorem inv_jLoadM {s s' : St} {t : Bool} (hi : Inv s) (hs : step s (.jLoadM t) = some s') : Inv s' := by
  have hf := facts_of hi
  obtain ⟨h1, h2, h3, h4, h5, h6, h7, h8, h9⟩ := hi
  cases t <;> cases hm : s.mterm <;> cases hl : s.lpc <;> simp [step, hm, hl] at hs <;> subst hs <;> inv_close s

theorem inv_jPub {s s' : St} (hi : Inv s) (hs : step s .jPub = some s') : Inv s' := by
  have hf := facts_of hi
  obtain ⟨h1, h2, h3, h4, h5, h6, h7, h8, h9⟩ := hi
  cases hfree : s.inFree <;> cases hl : s.lpc <;> simp [step, hfree, hl] at hs <;> subst hs <;> inv_close s

theorem inv_rLoadM {s s' : St} {t : Bool} (hi : Inv s) (hs : step s (.rLoadM t) = some s') : Inv s' := by
  have hf := facts_of hi
  obtain ⟨h1, h2, h3, h4, h5, h6, h7, h8, h9⟩ := hi
  cases t <;> cases hm : s.mterm <;> cases hl : s.lpc <;> simp [step, hm, hl] at hs <;> subst hs <;> inv_close s

theorem inv_getState {s s' : St} {t : Bool} (hi : Inv s) (hs : step s (.getState t) = some s') : Inv s' := by
  simp only [step] at hs
  split at hs <;> simp only [Option.some.injEq, reduceCtorEq] at hs
  subst hs
  exact hi

theorem inv_nLoadReq {s s' : St} {j c : Bool} (hi : Inv s) (hs : step s (.nLoadReq j c) = some s') : Inv s' := by
  have hf := facts_of hi
  obtain ⟨h1, h2, h3, h4, h5, h6, h7, h8, h9⟩ := hi
  cases j <;> cases c <;> cases hn : s.npc <;> simp [step, hn] at hs <;> obtain ⟨⟨hj, hc⟩, hs⟩ := hs <;> subst hs <;>
    inv_close s

theorem inv_nRoot {s s' : St} {c : Bool} (hi : Inv s) (hs : step s (.nRoot c) = some s') : Inv s' := by
  have hf := facts_of hi
  obtain ⟨h1, h2, h3, h4, h5, h6, h7, h8, h9⟩ := hi
  cases c <;> cases hn : s.npc <;> simp [step, hn] at hs <;> obtain ⟨hg, hs⟩ := hs <;> subst hs <;> inv_close s

theorem inv_nSetFin {s s' : St} (hi : Inv s) (hs : step s .nSetFin = some s') : Inv s' := by
  have hf := facts_of hi
  obtain ⟨h1, h2, h3, h4, h5, h6, h7, h8, h9⟩ := hi
  cases hn : s.npc <;> simp [step, hn] at hs
  rename_i j c
  cases j <;> cases c <;> simp at hs <;> subst hs <;> inv_close s

theorem inv_nSetExit {s s' : St} (hi : Inv s) (hs : step s .nSetExit = some s') : Inv s' := by
  have hf := facts_of hi
  obtain ⟨h1, h2, h3, h4, h5, h6, h7, h8, h9⟩ := hi
  cases hn : s.npc <;> simp [step, hn] at hs
  rename_i j c
  cases j <;> cases c <;> simp at hs <;> subst hs <;> inv_close s

theorem inv_nMsf {s s' : St} {b : Bool} (hi : Inv s) (hs : step s (.nMsf b) = some s') : Inv s' := by
  have hf := facts_of hi
  obtain ⟨h1, h2, h3, h4, h5, h6, h7, h8, h9⟩ := hi
  cases b <;> cases hn : s.npc <;> simp [step, hn] at hs <;> obtain ⟨hg, hs⟩ := hs <;> subst hs <;> inv_close s

end ArgoVerif.Model.XsLife
