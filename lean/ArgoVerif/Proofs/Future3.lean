import ArgoVerif.Proofs.Future
/- Proofs.Future3 — invariant preservation: lock acquisition by set / wait / reset (split for build parallelism). -/
namespace ArgoVerif.Model.Future
open ArgoVerif
set_option maxHeartbeats 4000000

theorem inv_stepAcq_t (s s' : St) (a : Actor) (h : Inv s) (hs : stepAcq s a true = some s') : Inv s' := by
  unfold stepAcq at hs
  simp only [if_true] at hs
  (repeat' (split at hs)) <;> first | (cases hs; done) | (cases hs; exact h)

theorem acq_f_free (s s' : St) (a : Actor) (hs : stepAcq s a false = some s') : s.lock = none := by
  unfold stepAcq at hs
  split at hs
  · cases hs
  · cases hl : s.lock <;> simp_all

theorem inv_stepAcq_f_a (s s' : St) (a : Actor) (h : Inv s) (hs : stepAcq s a false = some s')
    (hp : s.pc a = .setCalled ∨ s.pc a = .waitCalled ∨ s.pc a = .resetCalled) : Inv s' := by
  have hl := acq_f_free s s' a hs
  unfold stepAcq at hs
  simp only [Bool.false_eq_true, if_false] at hs
  split at hs
  · cases hs
  · rcases hp with hp | hp | hp <;> simp only [hp] at hs <;> close_tac h hs

end ArgoVerif.Model.Future
