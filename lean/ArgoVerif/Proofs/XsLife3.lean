import ArgoVerif.Proofs.XsLife2
/-
Proofs.XsLife3 — `Inv` is preserved by the steps of abtd_stream.c (either actor), through the tables of Proofs.XsLife;
`inv_step`, `inv_run`.
-/
set_option maxHeartbeats 1000000
namespace ArgoVerif.Model.XsLife
open ArgoVerif ArgoVerif.Model.XsCtx

theorem restart_not_ret {c : Ctl} : restartEv c .ret = false := by
  simp [restartEv]

/-- the phase table, one implication per row -/
theorem ctx_nph {c c' : Ctl} {e : XsCtx.Ev} {eff : Eff} (hc : c ∈ reach) (hs : cstep c e = some (c', eff)) :
    (restartEv c e = true → nph c = .pre ∧ nph c' = .inF) ∧
    (e = .ret → nph c = .inF ∧ nph c' = .ended) ∧
    (restartEv c e = false → e ≠ .ret →
      nph c' = nph c ∨ (nph c = .ended ∧ nph c' = .pre ∧ ccl c.cpc = .rPre ∧ ccl c'.cpc = .rPost)) := by
  have h := (tab_step hc hs).2.1
  unfold tabN at h
  refine ⟨?_, ?_, ?_⟩
  · intro hr
    simpa [hr] using h
  · intro he
    subst he
    simpa [restart_not_ret] using h
  · intro hr he
    simpa [hr, he, and_assoc] using h

/-- the caller-class table for the events that do not return from a context call -/
theorem ctx_ccl_same {c c' : Ctl} {e : XsCtx.Ev} {eff : Eff} (hc : c ∈ reach) (hs : cstep c e = some (c', eff))
    (h1 : ∀ op, e ≠ .call op) (h2 : e ≠ .pjoin) (h3 : e ≠ .unlock .C) :
    ccl c'.cpc = ccl c.cpc ∨ (ccl c.cpc = .rPre ∧ ccl c'.cpc = .rPost ∧ nph c = .ended ∧ nph c' = .pre) ∨
      (ccl c.cpc = .fPre ∧ ccl c'.cpc = .fPost) := by
  have h := (tab_step hc hs).2.2
  unfold tabC at h
  cases e with
  | call op => exact absurd rfl (h1 op)
  | pjoin => exact absurd rfl h2
  | unlock a =>
    cases a with
    | C => exact absurd rfl h3
    | T => simpa [and_assoc, or_assoc] using h
  | _ => simpa [and_assoc, or_assoc] using h

/-- ... and for the events that do -/
theorem ctx_ccl_ret {c c' : Ctl} {e : XsCtx.Ev} {eff : Eff} (hc : c ∈ reach) (hs : cstep c e = some (c', eff)) :
    (e = .call .join → (ccl c.cpc = .idleF ∨ ccl c.cpc = .idleT) ∧ ccl c'.cpc = .inJ) ∧
    (e = .call .revive → ccl c.cpc = .idleT ∧ ccl c'.cpc = .rPre) ∧
    (e = .call .free → ccl c.cpc = .idleT ∧ ccl c'.cpc = .fPre) ∧
    (e = .pjoin → ccl c.cpc = .fPost ∧ ccl c'.cpc = .freed) ∧
    (e = .unlock .C → (c.cpc = .jUnlock → ccl c'.cpc = .idleT) ∧ (c.cpc = .rUnlock → ccl c'.cpc = .idleF) ∧
      (c.cpc ≠ .jUnlock → c.cpc ≠ .rUnlock → ccl c'.cpc = ccl c.cpc)) := by
  have h := (tab_step hc hs).2.2
  unfold tabC at h
  refine ⟨?_, ?_, ?_, ?_, ?_⟩ <;> intro he <;> subst he
  · simpa using h
  · simpa using h
  · simpa using h
  · simpa using h
  · refine ⟨?_, ?_, ?_⟩
    · intro hp; simpa [hp] using h
    · intro hp; simpa [hp] using h
    · intro h1 h2
      cases hp : c.cpc <;> simp_all

/-! `Inv` uses the context part of a state only through `nph` and `ccl` -/

/-- after `generalize`-ing the four abstractions: close the nine clauses -/
macro "ctx_close" s:ident hr:ident h9:ident : tactic => `(tactic| (
  constructor
  · exact $hr
  · cases hn : St.npc $s <;> simp_all [npcOk, preOk]
  · cases hl : St.lpc $s <;> simp_all [npcOk, preOk, endedOk, rel]
  · cases hl : St.lpc $s <;> simp_all [npcOk, preOk, endedOk, rel]
  · cases hl : St.lpc $s <;> simp_all [rel]
  · cases hl : St.lpc $s <;> simp_all [joinOk, rel]
  · cases hl : St.lpc $s <;> simp_all [quietOk, rel] <;> grind
  · cases hl : St.lpc $s <;> simp_all [reviveOk, rel]
  · exact $h9))

/-- thread_f is neither entered nor left; the caller's class stays, or the revive / terminate store happens -/
theorem inv_plain {s : St} {c' : Ctl} (hi : Inv s) (hr : c' ∈ reach)
    (hn : nph c' = nph s.x ∨ (nph s.x = .ended ∧ nph c' = .pre ∧ ccl s.x.cpc = .rPre ∧ ccl c'.cpc = .rPost))
    (hc : ccl c'.cpc = ccl s.x.cpc ∨ (ccl s.x.cpc = .rPre ∧ ccl c'.cpc = .rPost ∧ nph s.x = .ended ∧ nph c' = .pre) ∨
      (ccl s.x.cpc = .fPre ∧ ccl c'.cpc = .fPost)) :
    Inv { s with x := c' } := by
  have hf := facts_of hi
  have hf' := tab_of hr
  obtain ⟨h1, h2, h3, h4, h5, h6, h7, h8, h9⟩ := hi
  unfold factsB at hf'
  generalize hA : nph s.x = a at *
  generalize hA' : nph c' = a' at *
  generalize hB : ccl s.x.cpc = b at *
  generalize hB' : ccl c'.cpc = b' at *
  rcases hc with hc | ⟨hc1, hc2, hc3, hc4⟩ | ⟨hc1, hc2⟩
  · subst hc
    rcases hn with hn | ⟨hn1, hn2, hn3, hn4⟩
    · subst hn
      ctx_close s hr h9
    · subst hn1 hn2 hn3
      simp at hn4
  · subst hc1 hc2 hc3 hc4
    ctx_close s hr h9
  · subst hc1 hc2
    rcases hn with hn | ⟨hn1, hn2, hn3, hn4⟩
    · subst hn
      ctx_close s hr h9
    · simp at hn3

/-- a context call starts (`call`) or returns (`l'` is where stream.c continues) -/
theorem inv_callret {s : St} {c' : Ctl} {l' : LPc} (hi : Inv s) (hr : c' ∈ reach) (hn : nph c' = nph s.x)
    (hcl : (l' = s.lpc ∧ s.lpc = .jCtx ∧ (ccl s.x.cpc = .idleF ∨ ccl s.x.cpc = .idleT) ∧ ccl c'.cpc = .inJ) ∨
           (l' = s.lpc ∧ s.lpc = .rCtx ∧ ccl s.x.cpc = .idleT ∧ ccl c'.cpc = .rPre) ∨
           (l' = s.lpc ∧ s.lpc = .fCtx ∧ ccl s.x.cpc = .idleT ∧ ccl c'.cpc = .fPre) ∨
           (l' = .jPub ∧ ccl s.x.cpc = .inJ ∧ ccl c'.cpc = .idleT) ∨
           (l' = .rRet ∧ ccl s.x.cpc = .rPost ∧ ccl c'.cpc = .idleF) ∨
           (l' = .fRet ∧ ccl s.x.cpc = .fPost ∧ ccl c'.cpc = .freed)) :
    Inv { s with x := c', lpc := l' } := by
  have hf := facts_of hi
  have hf' := tab_of hr
  obtain ⟨h1, h2, h3, h4, h5, h6, h7, h8, h9⟩ := hi
  unfold factsB at hf'
  generalize hA : nph s.x = a at *
  generalize hA' : nph c' = a' at *
  generalize hB : ccl s.x.cpc = b at *
  generalize hB' : ccl c'.cpc = b' at *
  subst hn
  rcases hcl with ⟨rfl, hl, hb | hb, hb'⟩ | ⟨rfl, hl, hb, hb'⟩ | ⟨rfl, hl, hb, hb'⟩ | ⟨rfl, hb, hb'⟩ | ⟨rfl, hb, hb'⟩ |
      ⟨rfl, hb, hb'⟩ <;> subst hb hb' <;> ctx_close s hr h9

/-- thread_f is (re)entered -/
theorem inv_restart {s : St} {c' : Ctl} (hi : Inv s) (hr : c' ∈ reach) (hn : nph s.x = .pre ∧ nph c' = .inF)
    (hc : ccl c'.cpc = ccl s.x.cpc ∨ (ccl s.x.cpc = .fPre ∧ ccl c'.cpc = .fPost)) :
    Inv { s with x := c', npc := .root } := by
  have hf := facts_of hi
  have hf' := tab_of hr
  obtain ⟨h1, h2, h3, h4, h5, h6, h7, h8, h9⟩ := hi
  unfold factsB at hf'
  generalize hA : nph s.x = a at *
  generalize hA' : nph c' = a' at *
  generalize hB : ccl s.x.cpc = b at *
  generalize hB' : ccl c'.cpc = b' at *
  obtain ⟨hn1, hn2⟩ := hn
  subst hn1 hn2
  rcases hc with hc | ⟨hc1, hc2⟩
  · subst hc
    ctx_close s hr h9
  · subst hc1 hc2
    ctx_close s hr h9

/-- thread_f returns -/
theorem inv_leave {s : St} {c' : Ctl} (hi : Inv s) (hr : c' ∈ reach) (hp : s.npc = .fin)
    (hn : nph s.x = .inF ∧ nph c' = .ended)
    (hc : ccl c'.cpc = ccl s.x.cpc ∨ (ccl s.x.cpc = .fPre ∧ ccl c'.cpc = .fPost)) :
    Inv { s with x := c', npc := .out } := by
  have hf := facts_of hi
  have hf' := tab_of hr
  obtain ⟨h1, h2, h3, h4, h5, h6, h7, h8, h9⟩ := hi
  unfold factsB at hf'
  generalize hA : nph s.x = a at *
  generalize hA' : nph c' = a' at *
  generalize hB : ccl s.x.cpc = b at *
  generalize hB' : ccl c'.cpc = b' at *
  obtain ⟨hn1, hn2⟩ := hn
  subst hn1 hn2
  rcases hc with hc | ⟨hc1, hc2⟩
  · subst hc
    ctx_close s hr h9
  · subst hc1 hc2
    ctx_close s hr h9

end ArgoVerif.Model.XsLife
