import ArgoVerif.Proofs.PopWaitC
/- Proofs.PopWaitC5b — timing invariant: the clock reads. -/
namespace ArgoVerif.Model.PopWait
open ArgoVerif
set_option maxHeartbeats 2000000

theorem invC_clock (k : Kind) (s s' : St) (a : Actor) (v : Nat) (hA : InvA k s) (h : InvC k s) (hs : stepClock s a v = some s') :
    InvC k (bump s' (some a)) := by
  unfold stepClock at hs
  (repeat' (split at hs)) <;> pointwise hA h a hs

end ArgoVerif.Model.PopWait
