import ArgoVerif.Model.Mutex
/-
Proofs.Mutex — inductive invariant of the mutex model.
-/
namespace ArgoVerif.Model.Mutex
open ArgoVerif
set_option maxHeartbeats 4000000

/-- program counters at which the actor holds the mutex -/
def Holding : Pc → Prop
  | .cs | .lDone | .lGotRelW | .tOk | .tTryHeld | .tFailHeld | .rNest | .rUnnest | .uAcqW | .uRelLock => True
  | _ => False

/-- program counters at which the actor holds the waiter lock `W` -/
def HasW : Pc → Prop
  | .lRetry | .lGotRelW | .lEnq | .lSusp | .lRelW | .xCheck | .xSleepRelW | .xReadyRelW
  | .uRelLock | .uBcast | .uStore | .uRelW => True
  | _ => False

/-- program counters of an enqueued waiter -/
def Waiting : Pc → Prop
  | .lSusp | .lRelW | .lWait | .xCheck | .xSleepRelW | .xSleep | .xReacqW | .xReadyRelW => True
  | _ => False

def Bcasting (o : Option Actor) (pc : Actor → Pc) : Prop :=
  o ≠ none ∧ ∀ b, o = some b → (pc b = .uBcast ∨ pc b = .uStore)

structure Inv (s : St) : Prop where
  holderIff : ∀ a, s.holder = some a ↔ Holding (s.pc a)
  lockIff : s.lockW = true ↔ s.holder ≠ none
  wlIff : ∀ a, s.wlOwner = some a ↔ HasW (s.pc a)
  wlBool : s.wl = true ↔ s.wlOwner ≠ none
  inQ : ∀ a, a ∈ s.q → Waiting (s.pc a) ∧ s.ready a = false
  nodup : s.q.Nodup
  noLost : s.q ≠ [] → s.lockW = false → Bcasting s.wlOwner s.pc
  pendIff : ∀ b, s.pc b = .uStore ↔ (s.wlOwner = some b ∧ s.pending ≠ none)
  pendWait : ∀ n, s.pending = some n → Waiting (s.pc n) ∧ n ∉ s.q ∧ s.ready n = false
  ultWait : ∀ a, s.pc a = .lWait → a ∈ s.q ∨ s.pending = some a
  ultPc : ∀ a, s.isUlt a = true → Waiting (s.pc a) → (s.pc a = .lSusp ∨ s.pc a = .lRelW ∨ s.pc a = .lWait)
  relNest : ∀ a, (s.pc a = .uAcqW ∨ s.pc a = .uRelLock) → s.nest = 0
  enqHeld : ∀ a, s.pc a = .lEnq → s.lockW = true
  nonrecNest : s.recursive = false → s.nest = 0
  readyPc : ∀ a, s.pc a = .xReadyRelW → s.ready a = true
  ultOnly : ∀ a, (s.pc a = .lSusp ∨ s.pc a = .lRelW ∨ s.pc a = .lWait) → s.isUlt a = true
  pendOwner : s.pending ≠ none → s.wlOwner ≠ none
  suspInQ : ∀ a, (s.pc a = .lSusp ∨ s.pc a = .lRelW) → a ∈ s.q
  recPc : ∀ a, (s.pc a = .rNest ∨ s.pc a = .rUnnest) → s.recursive = true

theorem inv_init (r : Bool) (u : Actor → Bool) : Inv (init r u) := by
  constructor <;> simp [init, Holding, HasW, Waiting, Bcasting]

macro "inv_tac" h:ident : tactic => `(tactic|
  (have := ($h).holderIff; have := ($h).lockIff; have := ($h).wlIff; have := ($h).wlBool
   have := ($h).inQ; have := ($h).nodup; have := ($h).noLost; have := ($h).pendIff
   have := ($h).pendWait; have := ($h).ultWait; have := ($h).ultPc; have := ($h).relNest
   have := ($h).enqHeld; have := ($h).nonrecNest; have := ($h).readyPc; have := ($h).ultOnly; have := ($h).pendOwner; have := ($h).suspInQ; have := ($h).recPc
   try simp only [setPc, acquire, takeW, dropW] at *
   grind [upd, Holding, HasW, Waiting, Bcasting]))

macro "close_tac" h:ident hs:ident : tactic => `(tactic|
  first
  | (cases $hs:ident; done)
  | (cases $hs:ident; constructor <;> inv_tac $h))

theorem inv_stepStoreBlocked (s s' : St) (a : Actor) (h : Inv s) (hs : stepStoreBlocked s a = some s') : Inv s' := by
  unfold stepStoreBlocked at hs
  split at hs <;> close_tac h hs

theorem inv_stepClearLock (s s' : St) (a : Actor) (h : Inv s) (hs : stepClearLock s a = some s') : Inv s' := by
  unfold stepClearLock at hs
  split at hs <;> close_tac h hs

theorem inv_stepEnq (s s' : St) (a : Actor) (h : Inv s) (hs : stepEnq s a = some s') : Inv s' := by
  unfold stepEnq at hs
  split at hs <;> close_tac h hs

theorem inv_stepCall_lock (s s' : St) (a : Actor) (h : Inv s) (hs : stepCall s a .lock = some s') : Inv s' := by
  unfold stepCall at hs
  (repeat' (split at hs)) <;> close_tac h hs

theorem inv_stepCall_trylock (s s' : St) (a : Actor) (h : Inv s) (hs : stepCall s a .trylock = some s') : Inv s' := by
  unfold stepCall at hs
  (repeat' (split at hs)) <;> close_tac h hs

theorem inv_stepCall_spinlock (s s' : St) (a : Actor) (h : Inv s) (hs : stepCall s a .spinlock = some s') : Inv s' := by
  unfold stepCall at hs
  (repeat' (split at hs)) <;> close_tac h hs

theorem inv_stepCall_unlock (s s' : St) (a : Actor) (h : Inv s) (hs : stepCall s a .unlock = some s') : Inv s' := by
  unfold stepCall at hs
  (repeat' (split at hs)) <;> close_tac h hs

theorem inv_stepCall (s s' : St) (a : Actor) (op : Op) (h : Inv s) (hs : stepCall s a op = some s') : Inv s' := by
  cases op
  · exact inv_stepCall_lock s s' a h hs
  · exact inv_stepCall_trylock s s' a h hs
  · exact inv_stepCall_spinlock s s' a h hs
  · exact inv_stepCall_unlock s s' a h hs

theorem inv_stepRet (s s' : St) (a : Actor) (op : Op) (ok : Bool) (h : Inv s) (hs : stepRet s a op ok = some s') : Inv s' := by
  unfold stepRet at hs
  split at hs <;> close_tac h hs

end ArgoVerif.Model.Mutex
