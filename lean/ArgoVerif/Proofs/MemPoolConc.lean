import ArgoVerif.Model.MemPoolConc
/-
Proofs.MemPoolConc — the ownership invariant of Model.MemPoolConc: every header is at exactly one
place (ghost `own` agrees with the real lists), preserved by every transition.
-/
namespace ArgoVerif.Model.MemPoolConc
open ArgoVerif

/-- headers of a local pool -/
def locHdrs : Option LPool → List Hdr
  | none => []
  | some l => l.full.flatten ++ l.cur

theorem mem_carved (p u np : Nat) (x : Hdr) : x ∈ carved p u np ↔ x.1 = p ∧ u ≤ x.2 ∧ x.2 < u + np := by
  induction np with
  | zero => simp [carved]
  | succ n ih =>
    simp only [carved, List.mem_cons, ih]
    obtain ⟨a, b⟩ := x
    simp only [Prod.mk.injEq]
    omega

theorem carved_length (p u np : Nat) : (carved p u np).length = np := by
  induction np with
  | zero => rfl
  | succ n ih => simp [carved, ih]

theorem carved_nodup (p u np : Nat) : (carved p u np).Nodup := by
  induction np with
  | zero => simp [carved]
  | succ n ih =>
    simp only [carved, List.nodup_cons, ih, and_true, mem_carved]
    omega

theorem setOwn_apply (own : Hdr → Place) (B : List Hdr) (w : Place) (x : Hdr) :
    setOwn own B w x = if x ∈ B then w else own x := rfl

theorem upd_apply {α β : Type} [DecidableEq α] (f : α → β) (a : α) (v : β) (x : α) :
    upd f a v x = if x = a then v else f x := rfl

theorem setOwn_eq (own : Hdr → Place) (B : List Hdr) (w w' : Place) (x : Hdr) :
    setOwn own B w x = w' ↔ (x ∈ B ∧ w = w') ∨ (x ∉ B ∧ own x = w') := by
  simp only [setOwn]; split <;> simp_all

/-- the ownership invariant: the ghost map `own` says where every header is, and agrees with the real lists -/
structure HInv (s : St) : Prop where
  lifo : ∀ h, h ∈ s.bucketLifo.flatten ↔ s.own h = .lifo
  lifoNd : s.bucketLifo.flatten.Nodup
  part : ∀ h, h ∈ s.part ↔ s.own h = .part
  partNd : s.part.Nodup
  loc : ∀ a h, h ∈ locHdrs (s.loc a) ↔ s.own h = .loc a
  locNd : ∀ a, (locHdrs (s.loc a)).Nodup
  held : ∀ a h, h ∈ heldHdrs (s.pc a) ↔ s.own h = .held a
  heldNd : ∀ a, (heldHdrs (s.pc a)).Nodup
  out : ∀ h, h ∈ s.out ↔ s.own h = .out
  outNd : s.out.Nodup
  unc : ∀ h, s.own h = .uncarved ↔ ¬ (h.1 < s.npages ∧ h.2 < s.used h.1)

theorem hinv_init : HInv init := by
  constructor <;> simp [init, locHdrs, heldHdrs]

@[simp] theorem heldHdrs_dnext (P : Params) (f : List Bucket) (c : Bucket) :
    heldHdrs (dnext P f c) = f.flatten ++ c := by
  simp only [dnext]; split
  · next h => simp [heldHdrs, h.1]
  · simp [heldHdrs]

@[simp] theorem heldPage_dnext (P : Params) (f : List Bucket) (c : Bucket) : heldPage (dnext P f c) = none := by
  simp only [dnext]; split <;> simp [heldPage]

@[simp] theorem heldHdrs_afterCarve (P : Params) (pu : Purpose) (acc : Bucket) :
    heldHdrs (afterCarve P pu acc) = acc := by
  simp only [afterCarve]; split <;> simp [heldHdrs]

@[simp] theorem heldPage_afterCarve (P : Params) (pu : Purpose) (acc : Bucket) : heldPage (afterCarve P pu acc) = none := by
  simp only [afterCarve]; split <;> simp [heldPage]

@[simp] theorem heldHdrs_contPc (k : Cont) : heldHdrs (contPc k) = [] := by cases k <;> simp [contPc, heldHdrs]
@[simp] theorem heldPage_contPc (k : Cont) : heldPage (contPc k) = none := by cases k <;> simp [contPc, heldPage]

theorem loc_facts {s : St} (h : HInv s) {a : Actor} {l : LPool} (hl : s.loc a = some l) :
    (∀ x, x ∈ l.full.flatten ++ l.cur ↔ s.own x = .loc a) ∧ (l.full.flatten ++ l.cur).Nodup := by
  have k5 := h.loc a; have k6 := h.locNd a
  rw [hl] at k5 k6
  exact ⟨k5, k6⟩

theorem held_facts {s : St} (h : HInv s) {a : Actor} {pc : Pc} (hp : s.pc a = pc) :
    (∀ x, x ∈ heldHdrs pc ↔ s.own x = .held a) ∧ (heldHdrs pc).Nodup := by
  have k7 := h.held a; have k8 := h.heldNd a
  rw [hp] at k7 k8
  exact ⟨k7, k8⟩

theorem lifo_facts {s : St} (h : HInv s) {b : Bucket} {rest : List Bucket} (hl : s.bucketLifo = b :: rest) :
    (∀ x, x ∈ b ++ rest.flatten ↔ s.own x = .lifo) ∧ (b ++ rest.flatten).Nodup := by
  have k1 := h.lifo; have k2 := h.lifoNd
  rw [hl] at k1 k2
  exact ⟨k1, k2⟩

theorem part_split {s : St} (h : HInv s) (n : Nat) :
    (∀ x, (x ∈ s.part.take n ∨ x ∈ s.part.drop n) ↔ s.own x = .part) ∧ (s.part.take n).Nodup ∧
    (s.part.drop n).Nodup ∧ ∀ x, x ∈ s.part.take n → x ∉ s.part.drop n := by
  have k3 := h.part; have k4 := h.partNd
  have e := List.take_append_drop n s.part
  rw [← e] at k4
  rw [List.nodup_append] at k4
  refine ⟨fun x => ?_, k4.1, k4.2.1, fun x hx hd => k4.2.2 x hx x hd rfl⟩
  rw [← k3 x, ← List.mem_append, e]

theorem hh_idle  : heldHdrs .idle = [] := rfl
theorem hh_take (pu : Purpose) : heldHdrs (.take pu) = [] := rfl
theorem hh_carving (pu : Purpose) (acc : Bucket) : heldHdrs (.carving pu acc) = acc := rfl
theorem hh_needPage (pu : Purpose) (acc : Bucket) : heldHdrs (.needPage pu acc) = acc := rfl
theorem hh_havePage (pu : Purpose) (acc : Bucket) (p : Nat) : heldHdrs (.havePage pu acc p) = acc := rfl
theorem hh_got (pu : Purpose) (b : Bucket) : heldHdrs (.got pu b) = b := rfl
theorem hh_takeFailed (pu : Purpose) : heldHdrs (.takeFailed pu) = [] := rfl
theorem hh_retPart (k : Cont) (b : Bucket) : heldHdrs (.retPart k b) = b := rfl
theorem hh_partPush (k : Cont) (b : Bucket) : heldHdrs (.partPush k b) = b := rfl
theorem hh_partUnlock (k : Cont) : heldHdrs (.partUnlock k) = [] := rfl
theorem hh_freeRet (b : Bucket) : heldHdrs (.freeRet b) = b := rfl
theorem hh_destroying (f : List Bucket) (c : Bucket) : heldHdrs (.destroying f c) = f.flatten ++ c := rfl
theorem hh_doneAlloc (h : Hdr) : heldHdrs (.doneAlloc h) = [] := rfl
theorem hh_doneFree  : heldHdrs .doneFree = [] := rfl
theorem hh_doneDestroy  : heldHdrs .doneDestroy = [] := rfl
theorem lh_none : locHdrs none = [] := rfl
theorem lh_some (f : List Bucket) (c : Bucket) : locHdrs (some ⟨f, c⟩) = f.flatten ++ c := rfl

/-- normal form of an instantiated invariant clause -/
macro "knorm" "at" h:ident : tactic => `(tactic| try simp only [hh_idle, hh_take, hh_carving, hh_needPage, hh_havePage, hh_got, hh_takeFailed, hh_retPart, hh_partPush, hh_partUnlock, hh_freeRet, hh_destroying, hh_doneAlloc, hh_doneFree, hh_doneDestroy, lh_none, lh_some, List.flatten_append, List.flatten_cons,
  List.flatten_nil, List.append_nil, List.nil_append, List.mem_append, List.mem_cons, List.nodup_append, List.nodup_cons,
  List.not_mem_nil, List.nodup_nil, false_iff, iff_false, false_or, or_false, reduceCtorEq, false_implies, implies_true, and_true,
  true_and, not_false_eq_true, ne_eq, List.mem_singleton, forall_eq'] at $h:ident)

/-- unfold the updated fields of the post-state, then let `grind` do the set reasoning -/
macro "hfin" : tactic => `(tactic| (intros; (try simp only [upd_apply, setOwn_apply, apply_ite locHdrs, apply_ite heldHdrs,
  hh_idle, hh_take, hh_carving, hh_needPage, hh_havePage, hh_got, hh_takeFailed, hh_retPart, hh_partPush, hh_partUnlock, hh_freeRet, hh_destroying, hh_doneAlloc, hh_doneFree, hh_doneDestroy, lh_none, lh_some, heldHdrs_dnext, heldHdrs_afterCarve, heldHdrs_contPc, List.flatten_append, List.flatten_cons,
  List.flatten_nil, List.append_nil, List.nil_append, List.mem_singleton]); grind))

macro "hfinC" : tactic => `(tactic| (intros; (try simp only [upd_apply, setOwn_apply, apply_ite locHdrs, apply_ite heldHdrs,
  hh_idle, hh_take, hh_carving, hh_needPage, hh_havePage, hh_got, hh_takeFailed, hh_retPart, hh_partPush, hh_partUnlock, hh_freeRet, hh_destroying, hh_doneAlloc, hh_doneFree, hh_doneDestroy, lh_none, lh_some, heldHdrs_dnext, heldHdrs_afterCarve, heldHdrs_contPc, List.flatten_append, List.flatten_cons,
  List.flatten_nil, List.append_nil, List.nil_append, List.mem_singleton]); grind [mem_carved, carved_nodup]))

theorem hstep_lifo (P : Params) (s : St) (e : Ev) (s' : St) (h : HInv s)
    (hpg : ∀ a p, heldPage (s.pc a) = some p → p < s.npages) (hs : Step P s e s') : ∀ h, h ∈ s'.bucketLifo.flatten ↔ s'.own h = .lifo := by
  have c1 := h.lifo; have c2 := h.lifoNd; have c3 := h.part; have c4 := h.partNd; have c5 := h.loc; have c6 := h.locNd
  have c7 := h.held; have c8 := h.heldNd; have c9 := h.out; have c10 := h.outNd; have c11 := h.unc
  cases hs with
  | @callInit a p1 p2 p3 =>
    have kh := held_facts h p2; knorm at kh
    first | assumption | hfin
  | @retInitOk a b p1 p2 =>
    have kh := held_facts h p1; knorm at kh
    have kn := c5 a; rw [p2] at kn; knorm at kn
    first | assumption | hfin
  | @retInitFail a p1 =>
    have kh := held_facts h p1; knorm at kh
    first | assumption | hfin
  | @callAllocPop a f x x2 c p1 p2 p3 =>
    have kh := held_facts h p2; knorm at kh
    have kl := loc_facts h p3
    knorm at kl; clear p3
    first | assumption | hfin
  | @callAllocPrev a f b x p1 p2 p3 =>
    have kh := held_facts h p2; knorm at kh
    have kl := loc_facts h p3
    knorm at kl; clear p3
    first | assumption | hfin
  | @callAllocTake a x p1 p2 p3 =>
    have kh := held_facts h p2; knorm at kh
    have kl := loc_facts h p3
    knorm at kl; clear p3
    first | assumption | hfin
  | @retAllocTake a b x p1 p2 =>
    have kh := held_facts h p1; knorm at kh
    have kl := loc_facts h p2
    knorm at kl; clear p2
    first | assumption | hfin
  | @retAllocFail a p1 =>
    have kh := held_facts h p1; knorm at kh
    first | assumption | hfin
  | @retAllocDone a x p1 =>
    have kh := held_facts h p1; knorm at kh
    first | assumption | hfin
  | @popBucketSome a pu b rest p1 p2 =>
    have kh := held_facts h p1; knorm at kh
    have kf := lifo_facts h p2; knorm at kf
    first | assumption | hfin
  | @popBucketNone a pu p1 p2 =>
    have kh := held_facts h p1; knorm at kh
    first | assumption | hfin
  | @popPageSome a pu acc p rest p1 p2 =>
    have kh := held_facts h p1; knorm at kh
    first | assumption | hfin
  | @popPageNone a pu acc p1 p2 =>
    have kh := held_facts h p1; knorm at kh
    first | assumption | hfin
  | @allocOk a pu acc p1 =>
    have kh := held_facts h p1; knorm at kh
    first | assumption | hfin
  | @allocFailEmpty a pu p1 =>
    have kh := held_facts h p1; knorm at kh
    first | assumption | hfin
  | @allocFailPart a pu x acc p1 =>
    have kh := held_facts h p1; knorm at kh
    first | assumption | hfin
  | @carveLifo a pu acc p p1 p2 p3 =>
    have kh := held_facts h p1; knorm at kh
    have kg := hpg a p (by rw [p1]; rfl)
    first | assumption | hfinC
  | @carveEmpty a pu acc p p1 p2 p3 =>
    have kh := held_facts h p1; knorm at kh
    have kg := hpg a p (by rw [p1]; rfl)
    first | assumption | hfinC
  | @lockPartEmpty a k b p1 p2 p3 =>
    have kh := held_facts h p1; knorm at kh
    first | assumption | hfin
  | @lockPartSmall a k b p1 p2 p3 p4 =>
    have kh := held_facts h p1; knorm at kh
    first | assumption | hfin
  | @lockPartFull a k b p1 p2 p3 p4 =>
    have kh := held_facts h p1; knorm at kh
    have kp := part_split h (P.perBucket - b.length)
    first | assumption | hfin
  | @pushBucketPart a k b p1 =>
    have kh := held_facts h p1; knorm at kh
    first | assumption | hfin
  | @unlockPart a k p1 =>
    have kh := held_facts h p1; knorm at kh
    first | assumption | hfin
  | @callFreePush a x f c p1 p2 p3 p4 p5 =>
    have kh := held_facts h p2; knorm at kh
    have kl := loc_facts h p4
    knorm at kl; clear p4
    first | assumption | hfin
  | @callFreeNew a x f c p1 p2 p3 p4 p5 p6 =>
    have kh := held_facts h p2; knorm at kh
    have kl := loc_facts h p4
    knorm at kl; clear p4
    first | assumption | hfin
  | @callFreeRet a x f c b0 rest p1 p2 p3 p4 p5 p6 p7 =>
    have kh := held_facts h p2; knorm at kh
    have kl := loc_facts h p4
    have kk : f.flatten ++ c = b0 ++ rest.flatten := by have := congrArg List.flatten p7; simpa using this
    simp only [kk] at kl; clear kk p7
    knorm at kl; clear p4
    first | assumption | hfin
  | @pushBucketFree a b p1 =>
    have kh := held_facts h p1; knorm at kh
    first | assumption | hfin
  | @retFree a p1 =>
    have kh := held_facts h p1; knorm at kh
    first | assumption | hfin
  | @callDestroy a f c p1 p2 p3 =>
    have kh := held_facts h p2; knorm at kh
    have kl := loc_facts h p3
    knorm at kl; clear p3
    first | assumption | hfin
  | @pushBucketDestroy a b f c p1 =>
    have kh := held_facts h p1; knorm at kh
    first | assumption | hfin
  | @pushBucketLast a c p1 =>
    have kh := held_facts h p1; knorm at kh
    first | assumption | hfin
  | @retDestroy a p1 =>
    have kh := held_facts h p1; knorm at kh
    first | assumption | hfin
  | @destroyStart  p1 p2 p3 =>
    first | assumption | hfin
  | @relLifo p rest p1 p2 =>
    first | assumption | hfin
  | @lifoEmpty  p1 p2 =>
    first | assumption | hfin
  | @relEmpty p rest p1 p2 =>
    first | assumption | hfin
  | @destroyEnd  p1 p2 =>
    first | assumption | hfin

theorem hstep_lifoNd (P : Params) (s : St) (e : Ev) (s' : St) (h : HInv s)
    (hpg : ∀ a p, heldPage (s.pc a) = some p → p < s.npages) (hs : Step P s e s') : s'.bucketLifo.flatten.Nodup := by
  have c1 := h.lifo; have c2 := h.lifoNd; have c3 := h.part; have c4 := h.partNd; have c5 := h.loc; have c6 := h.locNd
  have c7 := h.held; have c8 := h.heldNd; have c9 := h.out; have c10 := h.outNd; have c11 := h.unc
  cases hs with
  | @callInit a p1 p2 p3 =>
    have kh := held_facts h p2; knorm at kh
    first | assumption | hfin
  | @retInitOk a b p1 p2 =>
    have kh := held_facts h p1; knorm at kh
    have kn := c5 a; rw [p2] at kn; knorm at kn
    first | assumption | hfin
  | @retInitFail a p1 =>
    have kh := held_facts h p1; knorm at kh
    first | assumption | hfin
  | @callAllocPop a f x x2 c p1 p2 p3 =>
    have kh := held_facts h p2; knorm at kh
    have kl := loc_facts h p3
    knorm at kl; clear p3
    first | assumption | hfin
  | @callAllocPrev a f b x p1 p2 p3 =>
    have kh := held_facts h p2; knorm at kh
    have kl := loc_facts h p3
    knorm at kl; clear p3
    first | assumption | hfin
  | @callAllocTake a x p1 p2 p3 =>
    have kh := held_facts h p2; knorm at kh
    have kl := loc_facts h p3
    knorm at kl; clear p3
    first | assumption | hfin
  | @retAllocTake a b x p1 p2 =>
    have kh := held_facts h p1; knorm at kh
    have kl := loc_facts h p2
    knorm at kl; clear p2
    first | assumption | hfin
  | @retAllocFail a p1 =>
    have kh := held_facts h p1; knorm at kh
    first | assumption | hfin
  | @retAllocDone a x p1 =>
    have kh := held_facts h p1; knorm at kh
    first | assumption | hfin
  | @popBucketSome a pu b rest p1 p2 =>
    have kh := held_facts h p1; knorm at kh
    have kf := lifo_facts h p2; knorm at kf
    first | assumption | hfin
  | @popBucketNone a pu p1 p2 =>
    have kh := held_facts h p1; knorm at kh
    first | assumption | hfin
  | @popPageSome a pu acc p rest p1 p2 =>
    have kh := held_facts h p1; knorm at kh
    first | assumption | hfin
  | @popPageNone a pu acc p1 p2 =>
    have kh := held_facts h p1; knorm at kh
    first | assumption | hfin
  | @allocOk a pu acc p1 =>
    have kh := held_facts h p1; knorm at kh
    first | assumption | hfin
  | @allocFailEmpty a pu p1 =>
    have kh := held_facts h p1; knorm at kh
    first | assumption | hfin
  | @allocFailPart a pu x acc p1 =>
    have kh := held_facts h p1; knorm at kh
    first | assumption | hfin
  | @carveLifo a pu acc p p1 p2 p3 =>
    have kh := held_facts h p1; knorm at kh
    have kg := hpg a p (by rw [p1]; rfl)
    first | assumption | hfinC
  | @carveEmpty a pu acc p p1 p2 p3 =>
    have kh := held_facts h p1; knorm at kh
    have kg := hpg a p (by rw [p1]; rfl)
    first | assumption | hfinC
  | @lockPartEmpty a k b p1 p2 p3 =>
    have kh := held_facts h p1; knorm at kh
    first | assumption | hfin
  | @lockPartSmall a k b p1 p2 p3 p4 =>
    have kh := held_facts h p1; knorm at kh
    first | assumption | hfin
  | @lockPartFull a k b p1 p2 p3 p4 =>
    have kh := held_facts h p1; knorm at kh
    have kp := part_split h (P.perBucket - b.length)
    first | assumption | hfin
  | @pushBucketPart a k b p1 =>
    have kh := held_facts h p1; knorm at kh
    first | assumption | hfin
  | @unlockPart a k p1 =>
    have kh := held_facts h p1; knorm at kh
    first | assumption | hfin
  | @callFreePush a x f c p1 p2 p3 p4 p5 =>
    have kh := held_facts h p2; knorm at kh
    have kl := loc_facts h p4
    knorm at kl; clear p4
    first | assumption | hfin
  | @callFreeNew a x f c p1 p2 p3 p4 p5 p6 =>
    have kh := held_facts h p2; knorm at kh
    have kl := loc_facts h p4
    knorm at kl; clear p4
    first | assumption | hfin
  | @callFreeRet a x f c b0 rest p1 p2 p3 p4 p5 p6 p7 =>
    have kh := held_facts h p2; knorm at kh
    have kl := loc_facts h p4
    have kk : f.flatten ++ c = b0 ++ rest.flatten := by have := congrArg List.flatten p7; simpa using this
    simp only [kk] at kl; clear kk p7
    knorm at kl; clear p4
    first | assumption | hfin
  | @pushBucketFree a b p1 =>
    have kh := held_facts h p1; knorm at kh
    first | assumption | hfin
  | @retFree a p1 =>
    have kh := held_facts h p1; knorm at kh
    first | assumption | hfin
  | @callDestroy a f c p1 p2 p3 =>
    have kh := held_facts h p2; knorm at kh
    have kl := loc_facts h p3
    knorm at kl; clear p3
    first | assumption | hfin
  | @pushBucketDestroy a b f c p1 =>
    have kh := held_facts h p1; knorm at kh
    first | assumption | hfin
  | @pushBucketLast a c p1 =>
    have kh := held_facts h p1; knorm at kh
    first | assumption | hfin
  | @retDestroy a p1 =>
    have kh := held_facts h p1; knorm at kh
    first | assumption | hfin
  | @destroyStart  p1 p2 p3 =>
    first | assumption | hfin
  | @relLifo p rest p1 p2 =>
    first | assumption | hfin
  | @lifoEmpty  p1 p2 =>
    first | assumption | hfin
  | @relEmpty p rest p1 p2 =>
    first | assumption | hfin
  | @destroyEnd  p1 p2 =>
    first | assumption | hfin

theorem hstep_part (P : Params) (s : St) (e : Ev) (s' : St) (h : HInv s)
    (hpg : ∀ a p, heldPage (s.pc a) = some p → p < s.npages) (hs : Step P s e s') : ∀ h, h ∈ s'.part ↔ s'.own h = .part := by
  have c1 := h.lifo; have c2 := h.lifoNd; have c3 := h.part; have c4 := h.partNd; have c5 := h.loc; have c6 := h.locNd
  have c7 := h.held; have c8 := h.heldNd; have c9 := h.out; have c10 := h.outNd; have c11 := h.unc
  cases hs with
  | @callInit a p1 p2 p3 =>
    have kh := held_facts h p2; knorm at kh
    first | assumption | hfin
  | @retInitOk a b p1 p2 =>
    have kh := held_facts h p1; knorm at kh
    have kn := c5 a; rw [p2] at kn; knorm at kn
    first | assumption | hfin
  | @retInitFail a p1 =>
    have kh := held_facts h p1; knorm at kh
    first | assumption | hfin
  | @callAllocPop a f x x2 c p1 p2 p3 =>
    have kh := held_facts h p2; knorm at kh
    have kl := loc_facts h p3
    knorm at kl; clear p3
    first | assumption | hfin
  | @callAllocPrev a f b x p1 p2 p3 =>
    have kh := held_facts h p2; knorm at kh
    have kl := loc_facts h p3
    knorm at kl; clear p3
    first | assumption | hfin
  | @callAllocTake a x p1 p2 p3 =>
    have kh := held_facts h p2; knorm at kh
    have kl := loc_facts h p3
    knorm at kl; clear p3
    first | assumption | hfin
  | @retAllocTake a b x p1 p2 =>
    have kh := held_facts h p1; knorm at kh
    have kl := loc_facts h p2
    knorm at kl; clear p2
    first | assumption | hfin
  | @retAllocFail a p1 =>
    have kh := held_facts h p1; knorm at kh
    first | assumption | hfin
  | @retAllocDone a x p1 =>
    have kh := held_facts h p1; knorm at kh
    first | assumption | hfin
  | @popBucketSome a pu b rest p1 p2 =>
    have kh := held_facts h p1; knorm at kh
    have kf := lifo_facts h p2; knorm at kf
    first | assumption | hfin
  | @popBucketNone a pu p1 p2 =>
    have kh := held_facts h p1; knorm at kh
    first | assumption | hfin
  | @popPageSome a pu acc p rest p1 p2 =>
    have kh := held_facts h p1; knorm at kh
    first | assumption | hfin
  | @popPageNone a pu acc p1 p2 =>
    have kh := held_facts h p1; knorm at kh
    first | assumption | hfin
  | @allocOk a pu acc p1 =>
    have kh := held_facts h p1; knorm at kh
    first | assumption | hfin
  | @allocFailEmpty a pu p1 =>
    have kh := held_facts h p1; knorm at kh
    first | assumption | hfin
  | @allocFailPart a pu x acc p1 =>
    have kh := held_facts h p1; knorm at kh
    first | assumption | hfin
  | @carveLifo a pu acc p p1 p2 p3 =>
    have kh := held_facts h p1; knorm at kh
    have kg := hpg a p (by rw [p1]; rfl)
    first | assumption | hfinC
  | @carveEmpty a pu acc p p1 p2 p3 =>
    have kh := held_facts h p1; knorm at kh
    have kg := hpg a p (by rw [p1]; rfl)
    first | assumption | hfinC
  | @lockPartEmpty a k b p1 p2 p3 =>
    have kh := held_facts h p1; knorm at kh
    first | assumption | hfin
  | @lockPartSmall a k b p1 p2 p3 p4 =>
    have kh := held_facts h p1; knorm at kh
    first | assumption | hfin
  | @lockPartFull a k b p1 p2 p3 p4 =>
    have kh := held_facts h p1; knorm at kh
    have kp := part_split h (P.perBucket - b.length)
    first | assumption | hfin
  | @pushBucketPart a k b p1 =>
    have kh := held_facts h p1; knorm at kh
    first | assumption | hfin
  | @unlockPart a k p1 =>
    have kh := held_facts h p1; knorm at kh
    first | assumption | hfin
  | @callFreePush a x f c p1 p2 p3 p4 p5 =>
    have kh := held_facts h p2; knorm at kh
    have kl := loc_facts h p4
    knorm at kl; clear p4
    first | assumption | hfin
  | @callFreeNew a x f c p1 p2 p3 p4 p5 p6 =>
    have kh := held_facts h p2; knorm at kh
    have kl := loc_facts h p4
    knorm at kl; clear p4
    first | assumption | hfin
  | @callFreeRet a x f c b0 rest p1 p2 p3 p4 p5 p6 p7 =>
    have kh := held_facts h p2; knorm at kh
    have kl := loc_facts h p4
    have kk : f.flatten ++ c = b0 ++ rest.flatten := by have := congrArg List.flatten p7; simpa using this
    simp only [kk] at kl; clear kk p7
    knorm at kl; clear p4
    first | assumption | hfin
  | @pushBucketFree a b p1 =>
    have kh := held_facts h p1; knorm at kh
    first | assumption | hfin
  | @retFree a p1 =>
    have kh := held_facts h p1; knorm at kh
    first | assumption | hfin
  | @callDestroy a f c p1 p2 p3 =>
    have kh := held_facts h p2; knorm at kh
    have kl := loc_facts h p3
    knorm at kl; clear p3
    first | assumption | hfin
  | @pushBucketDestroy a b f c p1 =>
    have kh := held_facts h p1; knorm at kh
    first | assumption | hfin
  | @pushBucketLast a c p1 =>
    have kh := held_facts h p1; knorm at kh
    first | assumption | hfin
  | @retDestroy a p1 =>
    have kh := held_facts h p1; knorm at kh
    first | assumption | hfin
  | @destroyStart  p1 p2 p3 =>
    first | assumption | hfin
  | @relLifo p rest p1 p2 =>
    first | assumption | hfin
  | @lifoEmpty  p1 p2 =>
    first | assumption | hfin
  | @relEmpty p rest p1 p2 =>
    first | assumption | hfin
  | @destroyEnd  p1 p2 =>
    first | assumption | hfin

theorem hstep_partNd (P : Params) (s : St) (e : Ev) (s' : St) (h : HInv s)
    (hpg : ∀ a p, heldPage (s.pc a) = some p → p < s.npages) (hs : Step P s e s') : s'.part.Nodup := by
  have c1 := h.lifo; have c2 := h.lifoNd; have c3 := h.part; have c4 := h.partNd; have c5 := h.loc; have c6 := h.locNd
  have c7 := h.held; have c8 := h.heldNd; have c9 := h.out; have c10 := h.outNd; have c11 := h.unc
  cases hs with
  | @callInit a p1 p2 p3 =>
    have kh := held_facts h p2; knorm at kh
    first | assumption | hfin
  | @retInitOk a b p1 p2 =>
    have kh := held_facts h p1; knorm at kh
    have kn := c5 a; rw [p2] at kn; knorm at kn
    first | assumption | hfin
  | @retInitFail a p1 =>
    have kh := held_facts h p1; knorm at kh
    first | assumption | hfin
  | @callAllocPop a f x x2 c p1 p2 p3 =>
    have kh := held_facts h p2; knorm at kh
    have kl := loc_facts h p3
    knorm at kl; clear p3
    first | assumption | hfin
  | @callAllocPrev a f b x p1 p2 p3 =>
    have kh := held_facts h p2; knorm at kh
    have kl := loc_facts h p3
    knorm at kl; clear p3
    first | assumption | hfin
  | @callAllocTake a x p1 p2 p3 =>
    have kh := held_facts h p2; knorm at kh
    have kl := loc_facts h p3
    knorm at kl; clear p3
    first | assumption | hfin
  | @retAllocTake a b x p1 p2 =>
    have kh := held_facts h p1; knorm at kh
    have kl := loc_facts h p2
    knorm at kl; clear p2
    first | assumption | hfin
  | @retAllocFail a p1 =>
    have kh := held_facts h p1; knorm at kh
    first | assumption | hfin
  | @retAllocDone a x p1 =>
    have kh := held_facts h p1; knorm at kh
    first | assumption | hfin
  | @popBucketSome a pu b rest p1 p2 =>
    have kh := held_facts h p1; knorm at kh
    have kf := lifo_facts h p2; knorm at kf
    first | assumption | hfin
  | @popBucketNone a pu p1 p2 =>
    have kh := held_facts h p1; knorm at kh
    first | assumption | hfin
  | @popPageSome a pu acc p rest p1 p2 =>
    have kh := held_facts h p1; knorm at kh
    first | assumption | hfin
  | @popPageNone a pu acc p1 p2 =>
    have kh := held_facts h p1; knorm at kh
    first | assumption | hfin
  | @allocOk a pu acc p1 =>
    have kh := held_facts h p1; knorm at kh
    first | assumption | hfin
  | @allocFailEmpty a pu p1 =>
    have kh := held_facts h p1; knorm at kh
    first | assumption | hfin
  | @allocFailPart a pu x acc p1 =>
    have kh := held_facts h p1; knorm at kh
    first | assumption | hfin
  | @carveLifo a pu acc p p1 p2 p3 =>
    have kh := held_facts h p1; knorm at kh
    have kg := hpg a p (by rw [p1]; rfl)
    first | assumption | hfinC
  | @carveEmpty a pu acc p p1 p2 p3 =>
    have kh := held_facts h p1; knorm at kh
    have kg := hpg a p (by rw [p1]; rfl)
    first | assumption | hfinC
  | @lockPartEmpty a k b p1 p2 p3 =>
    have kh := held_facts h p1; knorm at kh
    first | assumption | hfin
  | @lockPartSmall a k b p1 p2 p3 p4 =>
    have kh := held_facts h p1; knorm at kh
    first | assumption | hfin
  | @lockPartFull a k b p1 p2 p3 p4 =>
    have kh := held_facts h p1; knorm at kh
    have kp := part_split h (P.perBucket - b.length)
    first | assumption | hfin
  | @pushBucketPart a k b p1 =>
    have kh := held_facts h p1; knorm at kh
    first | assumption | hfin
  | @unlockPart a k p1 =>
    have kh := held_facts h p1; knorm at kh
    first | assumption | hfin
  | @callFreePush a x f c p1 p2 p3 p4 p5 =>
    have kh := held_facts h p2; knorm at kh
    have kl := loc_facts h p4
    knorm at kl; clear p4
    first | assumption | hfin
  | @callFreeNew a x f c p1 p2 p3 p4 p5 p6 =>
    have kh := held_facts h p2; knorm at kh
    have kl := loc_facts h p4
    knorm at kl; clear p4
    first | assumption | hfin
  | @callFreeRet a x f c b0 rest p1 p2 p3 p4 p5 p6 p7 =>
    have kh := held_facts h p2; knorm at kh
    have kl := loc_facts h p4
    have kk : f.flatten ++ c = b0 ++ rest.flatten := by have := congrArg List.flatten p7; simpa using this
    simp only [kk] at kl; clear kk p7
    knorm at kl; clear p4
    first | assumption | hfin
  | @pushBucketFree a b p1 =>
    have kh := held_facts h p1; knorm at kh
    first | assumption | hfin
  | @retFree a p1 =>
    have kh := held_facts h p1; knorm at kh
    first | assumption | hfin
  | @callDestroy a f c p1 p2 p3 =>
    have kh := held_facts h p2; knorm at kh
    have kl := loc_facts h p3
    knorm at kl; clear p3
    first | assumption | hfin
  | @pushBucketDestroy a b f c p1 =>
    have kh := held_facts h p1; knorm at kh
    first | assumption | hfin
  | @pushBucketLast a c p1 =>
    have kh := held_facts h p1; knorm at kh
    first | assumption | hfin
  | @retDestroy a p1 =>
    have kh := held_facts h p1; knorm at kh
    first | assumption | hfin
  | @destroyStart  p1 p2 p3 =>
    first | assumption | hfin
  | @relLifo p rest p1 p2 =>
    first | assumption | hfin
  | @lifoEmpty  p1 p2 =>
    first | assumption | hfin
  | @relEmpty p rest p1 p2 =>
    first | assumption | hfin
  | @destroyEnd  p1 p2 =>
    first | assumption | hfin

theorem hstep_loc (P : Params) (s : St) (e : Ev) (s' : St) (h : HInv s)
    (hpg : ∀ a p, heldPage (s.pc a) = some p → p < s.npages) (hs : Step P s e s') : ∀ a h, h ∈ locHdrs (s'.loc a) ↔ s'.own h = .loc a := by
  have c1 := h.lifo; have c2 := h.lifoNd; have c3 := h.part; have c4 := h.partNd; have c5 := h.loc; have c6 := h.locNd
  have c7 := h.held; have c8 := h.heldNd; have c9 := h.out; have c10 := h.outNd; have c11 := h.unc
  cases hs with
  | @callInit a p1 p2 p3 =>
    have kh := held_facts h p2; knorm at kh
    first | assumption | hfin
  | @retInitOk a b p1 p2 =>
    have kh := held_facts h p1; knorm at kh
    have kn := c5 a; rw [p2] at kn; knorm at kn
    first | assumption | hfin
  | @retInitFail a p1 =>
    have kh := held_facts h p1; knorm at kh
    first | assumption | hfin
  | @callAllocPop a f x x2 c p1 p2 p3 =>
    have kh := held_facts h p2; knorm at kh
    have kl := loc_facts h p3
    knorm at kl; clear p3
    first | assumption | hfin
  | @callAllocPrev a f b x p1 p2 p3 =>
    have kh := held_facts h p2; knorm at kh
    have kl := loc_facts h p3
    knorm at kl; clear p3
    first | assumption | hfin
  | @callAllocTake a x p1 p2 p3 =>
    have kh := held_facts h p2; knorm at kh
    have kl := loc_facts h p3
    knorm at kl; clear p3
    first | assumption | hfin
  | @retAllocTake a b x p1 p2 =>
    have kh := held_facts h p1; knorm at kh
    have kl := loc_facts h p2
    knorm at kl; clear p2
    first | assumption | hfin
  | @retAllocFail a p1 =>
    have kh := held_facts h p1; knorm at kh
    first | assumption | hfin
  | @retAllocDone a x p1 =>
    have kh := held_facts h p1; knorm at kh
    first | assumption | hfin
  | @popBucketSome a pu b rest p1 p2 =>
    have kh := held_facts h p1; knorm at kh
    have kf := lifo_facts h p2; knorm at kf
    first | assumption | hfin
  | @popBucketNone a pu p1 p2 =>
    have kh := held_facts h p1; knorm at kh
    first | assumption | hfin
  | @popPageSome a pu acc p rest p1 p2 =>
    have kh := held_facts h p1; knorm at kh
    first | assumption | hfin
  | @popPageNone a pu acc p1 p2 =>
    have kh := held_facts h p1; knorm at kh
    first | assumption | hfin
  | @allocOk a pu acc p1 =>
    have kh := held_facts h p1; knorm at kh
    first | assumption | hfin
  | @allocFailEmpty a pu p1 =>
    have kh := held_facts h p1; knorm at kh
    first | assumption | hfin
  | @allocFailPart a pu x acc p1 =>
    have kh := held_facts h p1; knorm at kh
    first | assumption | hfin
  | @carveLifo a pu acc p p1 p2 p3 =>
    have kh := held_facts h p1; knorm at kh
    have kg := hpg a p (by rw [p1]; rfl)
    first | assumption | hfinC
  | @carveEmpty a pu acc p p1 p2 p3 =>
    have kh := held_facts h p1; knorm at kh
    have kg := hpg a p (by rw [p1]; rfl)
    first | assumption | hfinC
  | @lockPartEmpty a k b p1 p2 p3 =>
    have kh := held_facts h p1; knorm at kh
    first | assumption | hfin
  | @lockPartSmall a k b p1 p2 p3 p4 =>
    have kh := held_facts h p1; knorm at kh
    first | assumption | hfin
  | @lockPartFull a k b p1 p2 p3 p4 =>
    have kh := held_facts h p1; knorm at kh
    have kp := part_split h (P.perBucket - b.length)
    first | assumption | hfin
  | @pushBucketPart a k b p1 =>
    have kh := held_facts h p1; knorm at kh
    first | assumption | hfin
  | @unlockPart a k p1 =>
    have kh := held_facts h p1; knorm at kh
    first | assumption | hfin
  | @callFreePush a x f c p1 p2 p3 p4 p5 =>
    have kh := held_facts h p2; knorm at kh
    have kl := loc_facts h p4
    knorm at kl; clear p4
    first | assumption | hfin
  | @callFreeNew a x f c p1 p2 p3 p4 p5 p6 =>
    have kh := held_facts h p2; knorm at kh
    have kl := loc_facts h p4
    knorm at kl; clear p4
    first | assumption | hfin
  | @callFreeRet a x f c b0 rest p1 p2 p3 p4 p5 p6 p7 =>
    have kh := held_facts h p2; knorm at kh
    have kl := loc_facts h p4
    have kk : f.flatten ++ c = b0 ++ rest.flatten := by have := congrArg List.flatten p7; simpa using this
    simp only [kk] at kl; clear kk p7
    knorm at kl; clear p4
    first | assumption | hfin
  | @pushBucketFree a b p1 =>
    have kh := held_facts h p1; knorm at kh
    first | assumption | hfin
  | @retFree a p1 =>
    have kh := held_facts h p1; knorm at kh
    first | assumption | hfin
  | @callDestroy a f c p1 p2 p3 =>
    have kh := held_facts h p2; knorm at kh
    have kl := loc_facts h p3
    knorm at kl; clear p3
    first | assumption | hfin
  | @pushBucketDestroy a b f c p1 =>
    have kh := held_facts h p1; knorm at kh
    first | assumption | hfin
  | @pushBucketLast a c p1 =>
    have kh := held_facts h p1; knorm at kh
    first | assumption | hfin
  | @retDestroy a p1 =>
    have kh := held_facts h p1; knorm at kh
    first | assumption | hfin
  | @destroyStart  p1 p2 p3 =>
    first | assumption | hfin
  | @relLifo p rest p1 p2 =>
    first | assumption | hfin
  | @lifoEmpty  p1 p2 =>
    first | assumption | hfin
  | @relEmpty p rest p1 p2 =>
    first | assumption | hfin
  | @destroyEnd  p1 p2 =>
    first | assumption | hfin

theorem hstep_locNd (P : Params) (s : St) (e : Ev) (s' : St) (h : HInv s)
    (hpg : ∀ a p, heldPage (s.pc a) = some p → p < s.npages) (hs : Step P s e s') : ∀ a, (locHdrs (s'.loc a)).Nodup := by
  have c1 := h.lifo; have c2 := h.lifoNd; have c3 := h.part; have c4 := h.partNd; have c5 := h.loc; have c6 := h.locNd
  have c7 := h.held; have c8 := h.heldNd; have c9 := h.out; have c10 := h.outNd; have c11 := h.unc
  cases hs with
  | @callInit a p1 p2 p3 =>
    have kh := held_facts h p2; knorm at kh
    first | assumption | hfin
  | @retInitOk a b p1 p2 =>
    have kh := held_facts h p1; knorm at kh
    have kn := c5 a; rw [p2] at kn; knorm at kn
    first | assumption | hfin
  | @retInitFail a p1 =>
    have kh := held_facts h p1; knorm at kh
    first | assumption | hfin
  | @callAllocPop a f x x2 c p1 p2 p3 =>
    have kh := held_facts h p2; knorm at kh
    have kl := loc_facts h p3
    knorm at kl; clear p3
    first | assumption | hfin
  | @callAllocPrev a f b x p1 p2 p3 =>
    have kh := held_facts h p2; knorm at kh
    have kl := loc_facts h p3
    knorm at kl; clear p3
    first | assumption | hfin
  | @callAllocTake a x p1 p2 p3 =>
    have kh := held_facts h p2; knorm at kh
    have kl := loc_facts h p3
    knorm at kl; clear p3
    first | assumption | hfin
  | @retAllocTake a b x p1 p2 =>
    have kh := held_facts h p1; knorm at kh
    have kl := loc_facts h p2
    knorm at kl; clear p2
    first | assumption | hfin
  | @retAllocFail a p1 =>
    have kh := held_facts h p1; knorm at kh
    first | assumption | hfin
  | @retAllocDone a x p1 =>
    have kh := held_facts h p1; knorm at kh
    first | assumption | hfin
  | @popBucketSome a pu b rest p1 p2 =>
    have kh := held_facts h p1; knorm at kh
    have kf := lifo_facts h p2; knorm at kf
    first | assumption | hfin
  | @popBucketNone a pu p1 p2 =>
    have kh := held_facts h p1; knorm at kh
    first | assumption | hfin
  | @popPageSome a pu acc p rest p1 p2 =>
    have kh := held_facts h p1; knorm at kh
    first | assumption | hfin
  | @popPageNone a pu acc p1 p2 =>
    have kh := held_facts h p1; knorm at kh
    first | assumption | hfin
  | @allocOk a pu acc p1 =>
    have kh := held_facts h p1; knorm at kh
    first | assumption | hfin
  | @allocFailEmpty a pu p1 =>
    have kh := held_facts h p1; knorm at kh
    first | assumption | hfin
  | @allocFailPart a pu x acc p1 =>
    have kh := held_facts h p1; knorm at kh
    first | assumption | hfin
  | @carveLifo a pu acc p p1 p2 p3 =>
    have kh := held_facts h p1; knorm at kh
    have kg := hpg a p (by rw [p1]; rfl)
    first | assumption | hfinC
  | @carveEmpty a pu acc p p1 p2 p3 =>
    have kh := held_facts h p1; knorm at kh
    have kg := hpg a p (by rw [p1]; rfl)
    first | assumption | hfinC
  | @lockPartEmpty a k b p1 p2 p3 =>
    have kh := held_facts h p1; knorm at kh
    first | assumption | hfin
  | @lockPartSmall a k b p1 p2 p3 p4 =>
    have kh := held_facts h p1; knorm at kh
    first | assumption | hfin
  | @lockPartFull a k b p1 p2 p3 p4 =>
    have kh := held_facts h p1; knorm at kh
    have kp := part_split h (P.perBucket - b.length)
    first | assumption | hfin
  | @pushBucketPart a k b p1 =>
    have kh := held_facts h p1; knorm at kh
    first | assumption | hfin
  | @unlockPart a k p1 =>
    have kh := held_facts h p1; knorm at kh
    first | assumption | hfin
  | @callFreePush a x f c p1 p2 p3 p4 p5 =>
    have kh := held_facts h p2; knorm at kh
    have kl := loc_facts h p4
    knorm at kl; clear p4
    first | assumption | hfin
  | @callFreeNew a x f c p1 p2 p3 p4 p5 p6 =>
    have kh := held_facts h p2; knorm at kh
    have kl := loc_facts h p4
    knorm at kl; clear p4
    first | assumption | hfin
  | @callFreeRet a x f c b0 rest p1 p2 p3 p4 p5 p6 p7 =>
    have kh := held_facts h p2; knorm at kh
    have kl := loc_facts h p4
    have kk : f.flatten ++ c = b0 ++ rest.flatten := by have := congrArg List.flatten p7; simpa using this
    simp only [kk] at kl; clear kk p7
    knorm at kl; clear p4
    first | assumption | hfin
  | @pushBucketFree a b p1 =>
    have kh := held_facts h p1; knorm at kh
    first | assumption | hfin
  | @retFree a p1 =>
    have kh := held_facts h p1; knorm at kh
    first | assumption | hfin
  | @callDestroy a f c p1 p2 p3 =>
    have kh := held_facts h p2; knorm at kh
    have kl := loc_facts h p3
    knorm at kl; clear p3
    first | assumption | hfin
  | @pushBucketDestroy a b f c p1 =>
    have kh := held_facts h p1; knorm at kh
    first | assumption | hfin
  | @pushBucketLast a c p1 =>
    have kh := held_facts h p1; knorm at kh
    first | assumption | hfin
  | @retDestroy a p1 =>
    have kh := held_facts h p1; knorm at kh
    first | assumption | hfin
  | @destroyStart  p1 p2 p3 =>
    first | assumption | hfin
  | @relLifo p rest p1 p2 =>
    first | assumption | hfin
  | @lifoEmpty  p1 p2 =>
    first | assumption | hfin
  | @relEmpty p rest p1 p2 =>
    first | assumption | hfin
  | @destroyEnd  p1 p2 =>
    first | assumption | hfin

theorem hstep_held (P : Params) (s : St) (e : Ev) (s' : St) (h : HInv s)
    (hpg : ∀ a p, heldPage (s.pc a) = some p → p < s.npages) (hs : Step P s e s') : ∀ a h, h ∈ heldHdrs (s'.pc a) ↔ s'.own h = .held a := by
  have c1 := h.lifo; have c2 := h.lifoNd; have c3 := h.part; have c4 := h.partNd; have c5 := h.loc; have c6 := h.locNd
  have c7 := h.held; have c8 := h.heldNd; have c9 := h.out; have c10 := h.outNd; have c11 := h.unc
  cases hs with
  | @callInit a p1 p2 p3 =>
    have kh := held_facts h p2; knorm at kh
    first | assumption | hfin
  | @retInitOk a b p1 p2 =>
    have kh := held_facts h p1; knorm at kh
    have kn := c5 a; rw [p2] at kn; knorm at kn
    first | assumption | hfin
  | @retInitFail a p1 =>
    have kh := held_facts h p1; knorm at kh
    first | assumption | hfin
  | @callAllocPop a f x x2 c p1 p2 p3 =>
    have kh := held_facts h p2; knorm at kh
    have kl := loc_facts h p3
    knorm at kl; clear p3
    first | assumption | hfin
  | @callAllocPrev a f b x p1 p2 p3 =>
    have kh := held_facts h p2; knorm at kh
    have kl := loc_facts h p3
    knorm at kl; clear p3
    first | assumption | hfin
  | @callAllocTake a x p1 p2 p3 =>
    have kh := held_facts h p2; knorm at kh
    have kl := loc_facts h p3
    knorm at kl; clear p3
    first | assumption | hfin
  | @retAllocTake a b x p1 p2 =>
    have kh := held_facts h p1; knorm at kh
    have kl := loc_facts h p2
    knorm at kl; clear p2
    first | assumption | hfin
  | @retAllocFail a p1 =>
    have kh := held_facts h p1; knorm at kh
    first | assumption | hfin
  | @retAllocDone a x p1 =>
    have kh := held_facts h p1; knorm at kh
    first | assumption | hfin
  | @popBucketSome a pu b rest p1 p2 =>
    have kh := held_facts h p1; knorm at kh
    have kf := lifo_facts h p2; knorm at kf
    first | assumption | hfin
  | @popBucketNone a pu p1 p2 =>
    have kh := held_facts h p1; knorm at kh
    first | assumption | hfin
  | @popPageSome a pu acc p rest p1 p2 =>
    have kh := held_facts h p1; knorm at kh
    first | assumption | hfin
  | @popPageNone a pu acc p1 p2 =>
    have kh := held_facts h p1; knorm at kh
    first | assumption | hfin
  | @allocOk a pu acc p1 =>
    have kh := held_facts h p1; knorm at kh
    first | assumption | hfin
  | @allocFailEmpty a pu p1 =>
    have kh := held_facts h p1; knorm at kh
    first | assumption | hfin
  | @allocFailPart a pu x acc p1 =>
    have kh := held_facts h p1; knorm at kh
    first | assumption | hfin
  | @carveLifo a pu acc p p1 p2 p3 =>
    have kh := held_facts h p1; knorm at kh
    have kg := hpg a p (by rw [p1]; rfl)
    first | assumption | hfinC
  | @carveEmpty a pu acc p p1 p2 p3 =>
    have kh := held_facts h p1; knorm at kh
    have kg := hpg a p (by rw [p1]; rfl)
    first | assumption | hfinC
  | @lockPartEmpty a k b p1 p2 p3 =>
    have kh := held_facts h p1; knorm at kh
    first | assumption | hfin
  | @lockPartSmall a k b p1 p2 p3 p4 =>
    have kh := held_facts h p1; knorm at kh
    first | assumption | hfin
  | @lockPartFull a k b p1 p2 p3 p4 =>
    have kh := held_facts h p1; knorm at kh
    have kp := part_split h (P.perBucket - b.length)
    first | assumption | hfin
  | @pushBucketPart a k b p1 =>
    have kh := held_facts h p1; knorm at kh
    first | assumption | hfin
  | @unlockPart a k p1 =>
    have kh := held_facts h p1; knorm at kh
    first | assumption | hfin
  | @callFreePush a x f c p1 p2 p3 p4 p5 =>
    have kh := held_facts h p2; knorm at kh
    have kl := loc_facts h p4
    knorm at kl; clear p4
    first | assumption | hfin
  | @callFreeNew a x f c p1 p2 p3 p4 p5 p6 =>
    have kh := held_facts h p2; knorm at kh
    have kl := loc_facts h p4
    knorm at kl; clear p4
    first | assumption | hfin
  | @callFreeRet a x f c b0 rest p1 p2 p3 p4 p5 p6 p7 =>
    have kh := held_facts h p2; knorm at kh
    have kl := loc_facts h p4
    have kk : f.flatten ++ c = b0 ++ rest.flatten := by have := congrArg List.flatten p7; simpa using this
    simp only [kk] at kl; clear kk p7
    knorm at kl; clear p4
    first | assumption | hfin
  | @pushBucketFree a b p1 =>
    have kh := held_facts h p1; knorm at kh
    first | assumption | hfin
  | @retFree a p1 =>
    have kh := held_facts h p1; knorm at kh
    first | assumption | hfin
  | @callDestroy a f c p1 p2 p3 =>
    have kh := held_facts h p2; knorm at kh
    have kl := loc_facts h p3
    knorm at kl; clear p3
    first | assumption | hfin
  | @pushBucketDestroy a b f c p1 =>
    have kh := held_facts h p1; knorm at kh
    first | assumption | hfin
  | @pushBucketLast a c p1 =>
    have kh := held_facts h p1; knorm at kh
    first | assumption | hfin
  | @retDestroy a p1 =>
    have kh := held_facts h p1; knorm at kh
    first | assumption | hfin
  | @destroyStart  p1 p2 p3 =>
    first | assumption | hfin
  | @relLifo p rest p1 p2 =>
    first | assumption | hfin
  | @lifoEmpty  p1 p2 =>
    first | assumption | hfin
  | @relEmpty p rest p1 p2 =>
    first | assumption | hfin
  | @destroyEnd  p1 p2 =>
    first | assumption | hfin

theorem hstep_heldNd (P : Params) (s : St) (e : Ev) (s' : St) (h : HInv s)
    (hpg : ∀ a p, heldPage (s.pc a) = some p → p < s.npages) (hs : Step P s e s') : ∀ a, (heldHdrs (s'.pc a)).Nodup := by
  have c1 := h.lifo; have c2 := h.lifoNd; have c3 := h.part; have c4 := h.partNd; have c5 := h.loc; have c6 := h.locNd
  have c7 := h.held; have c8 := h.heldNd; have c9 := h.out; have c10 := h.outNd; have c11 := h.unc
  cases hs with
  | @callInit a p1 p2 p3 =>
    have kh := held_facts h p2; knorm at kh
    first | assumption | hfin
  | @retInitOk a b p1 p2 =>
    have kh := held_facts h p1; knorm at kh
    have kn := c5 a; rw [p2] at kn; knorm at kn
    first | assumption | hfin
  | @retInitFail a p1 =>
    have kh := held_facts h p1; knorm at kh
    first | assumption | hfin
  | @callAllocPop a f x x2 c p1 p2 p3 =>
    have kh := held_facts h p2; knorm at kh
    have kl := loc_facts h p3
    knorm at kl; clear p3
    first | assumption | hfin
  | @callAllocPrev a f b x p1 p2 p3 =>
    have kh := held_facts h p2; knorm at kh
    have kl := loc_facts h p3
    knorm at kl; clear p3
    first | assumption | hfin
  | @callAllocTake a x p1 p2 p3 =>
    have kh := held_facts h p2; knorm at kh
    have kl := loc_facts h p3
    knorm at kl; clear p3
    first | assumption | hfin
  | @retAllocTake a b x p1 p2 =>
    have kh := held_facts h p1; knorm at kh
    have kl := loc_facts h p2
    knorm at kl; clear p2
    first | assumption | hfin
  | @retAllocFail a p1 =>
    have kh := held_facts h p1; knorm at kh
    first | assumption | hfin
  | @retAllocDone a x p1 =>
    have kh := held_facts h p1; knorm at kh
    first | assumption | hfin
  | @popBucketSome a pu b rest p1 p2 =>
    have kh := held_facts h p1; knorm at kh
    have kf := lifo_facts h p2; knorm at kf
    first | assumption | hfin
  | @popBucketNone a pu p1 p2 =>
    have kh := held_facts h p1; knorm at kh
    first | assumption | hfin
  | @popPageSome a pu acc p rest p1 p2 =>
    have kh := held_facts h p1; knorm at kh
    first | assumption | hfin
  | @popPageNone a pu acc p1 p2 =>
    have kh := held_facts h p1; knorm at kh
    first | assumption | hfin
  | @allocOk a pu acc p1 =>
    have kh := held_facts h p1; knorm at kh
    first | assumption | hfin
  | @allocFailEmpty a pu p1 =>
    have kh := held_facts h p1; knorm at kh
    first | assumption | hfin
  | @allocFailPart a pu x acc p1 =>
    have kh := held_facts h p1; knorm at kh
    first | assumption | hfin
  | @carveLifo a pu acc p p1 p2 p3 =>
    have kh := held_facts h p1; knorm at kh
    have kg := hpg a p (by rw [p1]; rfl)
    first | assumption | hfinC
  | @carveEmpty a pu acc p p1 p2 p3 =>
    have kh := held_facts h p1; knorm at kh
    have kg := hpg a p (by rw [p1]; rfl)
    first | assumption | hfinC
  | @lockPartEmpty a k b p1 p2 p3 =>
    have kh := held_facts h p1; knorm at kh
    first | assumption | hfin
  | @lockPartSmall a k b p1 p2 p3 p4 =>
    have kh := held_facts h p1; knorm at kh
    first | assumption | hfin
  | @lockPartFull a k b p1 p2 p3 p4 =>
    have kh := held_facts h p1; knorm at kh
    have kp := part_split h (P.perBucket - b.length)
    first | assumption | hfin
  | @pushBucketPart a k b p1 =>
    have kh := held_facts h p1; knorm at kh
    first | assumption | hfin
  | @unlockPart a k p1 =>
    have kh := held_facts h p1; knorm at kh
    first | assumption | hfin
  | @callFreePush a x f c p1 p2 p3 p4 p5 =>
    have kh := held_facts h p2; knorm at kh
    have kl := loc_facts h p4
    knorm at kl; clear p4
    first | assumption | hfin
  | @callFreeNew a x f c p1 p2 p3 p4 p5 p6 =>
    have kh := held_facts h p2; knorm at kh
    have kl := loc_facts h p4
    knorm at kl; clear p4
    first | assumption | hfin
  | @callFreeRet a x f c b0 rest p1 p2 p3 p4 p5 p6 p7 =>
    have kh := held_facts h p2; knorm at kh
    have kl := loc_facts h p4
    have kk : f.flatten ++ c = b0 ++ rest.flatten := by have := congrArg List.flatten p7; simpa using this
    simp only [kk] at kl; clear kk p7
    knorm at kl; clear p4
    first | assumption | hfin
  | @pushBucketFree a b p1 =>
    have kh := held_facts h p1; knorm at kh
    first | assumption | hfin
  | @retFree a p1 =>
    have kh := held_facts h p1; knorm at kh
    first | assumption | hfin
  | @callDestroy a f c p1 p2 p3 =>
    have kh := held_facts h p2; knorm at kh
    have kl := loc_facts h p3
    knorm at kl; clear p3
    first | assumption | hfin
  | @pushBucketDestroy a b f c p1 =>
    have kh := held_facts h p1; knorm at kh
    first | assumption | hfin
  | @pushBucketLast a c p1 =>
    have kh := held_facts h p1; knorm at kh
    first | assumption | hfin
  | @retDestroy a p1 =>
    have kh := held_facts h p1; knorm at kh
    first | assumption | hfin
  | @destroyStart  p1 p2 p3 =>
    first | assumption | hfin
  | @relLifo p rest p1 p2 =>
    first | assumption | hfin
  | @lifoEmpty  p1 p2 =>
    first | assumption | hfin
  | @relEmpty p rest p1 p2 =>
    first | assumption | hfin
  | @destroyEnd  p1 p2 =>
    first | assumption | hfin

theorem hstep_out (P : Params) (s : St) (e : Ev) (s' : St) (h : HInv s)
    (hpg : ∀ a p, heldPage (s.pc a) = some p → p < s.npages) (hs : Step P s e s') : ∀ h, h ∈ s'.out ↔ s'.own h = .out := by
  have c1 := h.lifo; have c2 := h.lifoNd; have c3 := h.part; have c4 := h.partNd; have c5 := h.loc; have c6 := h.locNd
  have c7 := h.held; have c8 := h.heldNd; have c9 := h.out; have c10 := h.outNd; have c11 := h.unc
  cases hs with
  | @callInit a p1 p2 p3 =>
    have kh := held_facts h p2; knorm at kh
    first | assumption | hfin
  | @retInitOk a b p1 p2 =>
    have kh := held_facts h p1; knorm at kh
    have kn := c5 a; rw [p2] at kn; knorm at kn
    first | assumption | hfin
  | @retInitFail a p1 =>
    have kh := held_facts h p1; knorm at kh
    first | assumption | hfin
  | @callAllocPop a f x x2 c p1 p2 p3 =>
    have kh := held_facts h p2; knorm at kh
    have kl := loc_facts h p3
    knorm at kl; clear p3
    first | assumption | hfin
  | @callAllocPrev a f b x p1 p2 p3 =>
    have kh := held_facts h p2; knorm at kh
    have kl := loc_facts h p3
    knorm at kl; clear p3
    first | assumption | hfin
  | @callAllocTake a x p1 p2 p3 =>
    have kh := held_facts h p2; knorm at kh
    have kl := loc_facts h p3
    knorm at kl; clear p3
    first | assumption | hfin
  | @retAllocTake a b x p1 p2 =>
    have kh := held_facts h p1; knorm at kh
    have kl := loc_facts h p2
    knorm at kl; clear p2
    first | assumption | hfin
  | @retAllocFail a p1 =>
    have kh := held_facts h p1; knorm at kh
    first | assumption | hfin
  | @retAllocDone a x p1 =>
    have kh := held_facts h p1; knorm at kh
    first | assumption | hfin
  | @popBucketSome a pu b rest p1 p2 =>
    have kh := held_facts h p1; knorm at kh
    have kf := lifo_facts h p2; knorm at kf
    first | assumption | hfin
  | @popBucketNone a pu p1 p2 =>
    have kh := held_facts h p1; knorm at kh
    first | assumption | hfin
  | @popPageSome a pu acc p rest p1 p2 =>
    have kh := held_facts h p1; knorm at kh
    first | assumption | hfin
  | @popPageNone a pu acc p1 p2 =>
    have kh := held_facts h p1; knorm at kh
    first | assumption | hfin
  | @allocOk a pu acc p1 =>
    have kh := held_facts h p1; knorm at kh
    first | assumption | hfin
  | @allocFailEmpty a pu p1 =>
    have kh := held_facts h p1; knorm at kh
    first | assumption | hfin
  | @allocFailPart a pu x acc p1 =>
    have kh := held_facts h p1; knorm at kh
    first | assumption | hfin
  | @carveLifo a pu acc p p1 p2 p3 =>
    have kh := held_facts h p1; knorm at kh
    have kg := hpg a p (by rw [p1]; rfl)
    first | assumption | hfinC
  | @carveEmpty a pu acc p p1 p2 p3 =>
    have kh := held_facts h p1; knorm at kh
    have kg := hpg a p (by rw [p1]; rfl)
    first | assumption | hfinC
  | @lockPartEmpty a k b p1 p2 p3 =>
    have kh := held_facts h p1; knorm at kh
    first | assumption | hfin
  | @lockPartSmall a k b p1 p2 p3 p4 =>
    have kh := held_facts h p1; knorm at kh
    first | assumption | hfin
  | @lockPartFull a k b p1 p2 p3 p4 =>
    have kh := held_facts h p1; knorm at kh
    have kp := part_split h (P.perBucket - b.length)
    first | assumption | hfin
  | @pushBucketPart a k b p1 =>
    have kh := held_facts h p1; knorm at kh
    first | assumption | hfin
  | @unlockPart a k p1 =>
    have kh := held_facts h p1; knorm at kh
    first | assumption | hfin
  | @callFreePush a x f c p1 p2 p3 p4 p5 =>
    have kh := held_facts h p2; knorm at kh
    have kl := loc_facts h p4
    knorm at kl; clear p4
    first | assumption | hfin
  | @callFreeNew a x f c p1 p2 p3 p4 p5 p6 =>
    have kh := held_facts h p2; knorm at kh
    have kl := loc_facts h p4
    knorm at kl; clear p4
    first | assumption | hfin
  | @callFreeRet a x f c b0 rest p1 p2 p3 p4 p5 p6 p7 =>
    have kh := held_facts h p2; knorm at kh
    have kl := loc_facts h p4
    have kk : f.flatten ++ c = b0 ++ rest.flatten := by have := congrArg List.flatten p7; simpa using this
    simp only [kk] at kl; clear kk p7
    knorm at kl; clear p4
    first | assumption | hfin
  | @pushBucketFree a b p1 =>
    have kh := held_facts h p1; knorm at kh
    first | assumption | hfin
  | @retFree a p1 =>
    have kh := held_facts h p1; knorm at kh
    first | assumption | hfin
  | @callDestroy a f c p1 p2 p3 =>
    have kh := held_facts h p2; knorm at kh
    have kl := loc_facts h p3
    knorm at kl; clear p3
    first | assumption | hfin
  | @pushBucketDestroy a b f c p1 =>
    have kh := held_facts h p1; knorm at kh
    first | assumption | hfin
  | @pushBucketLast a c p1 =>
    have kh := held_facts h p1; knorm at kh
    first | assumption | hfin
  | @retDestroy a p1 =>
    have kh := held_facts h p1; knorm at kh
    first | assumption | hfin
  | @destroyStart  p1 p2 p3 =>
    first | assumption | hfin
  | @relLifo p rest p1 p2 =>
    first | assumption | hfin
  | @lifoEmpty  p1 p2 =>
    first | assumption | hfin
  | @relEmpty p rest p1 p2 =>
    first | assumption | hfin
  | @destroyEnd  p1 p2 =>
    first | assumption | hfin

theorem hstep_outNd (P : Params) (s : St) (e : Ev) (s' : St) (h : HInv s)
    (hpg : ∀ a p, heldPage (s.pc a) = some p → p < s.npages) (hs : Step P s e s') : s'.out.Nodup := by
  have c1 := h.lifo; have c2 := h.lifoNd; have c3 := h.part; have c4 := h.partNd; have c5 := h.loc; have c6 := h.locNd
  have c7 := h.held; have c8 := h.heldNd; have c9 := h.out; have c10 := h.outNd; have c11 := h.unc
  cases hs with
  | @callInit a p1 p2 p3 =>
    have kh := held_facts h p2; knorm at kh
    first | assumption | hfin
  | @retInitOk a b p1 p2 =>
    have kh := held_facts h p1; knorm at kh
    have kn := c5 a; rw [p2] at kn; knorm at kn
    first | assumption | hfin
  | @retInitFail a p1 =>
    have kh := held_facts h p1; knorm at kh
    first | assumption | hfin
  | @callAllocPop a f x x2 c p1 p2 p3 =>
    have kh := held_facts h p2; knorm at kh
    have kl := loc_facts h p3
    knorm at kl; clear p3
    first | assumption | hfin
  | @callAllocPrev a f b x p1 p2 p3 =>
    have kh := held_facts h p2; knorm at kh
    have kl := loc_facts h p3
    knorm at kl; clear p3
    first | assumption | hfin
  | @callAllocTake a x p1 p2 p3 =>
    have kh := held_facts h p2; knorm at kh
    have kl := loc_facts h p3
    knorm at kl; clear p3
    first | assumption | hfin
  | @retAllocTake a b x p1 p2 =>
    have kh := held_facts h p1; knorm at kh
    have kl := loc_facts h p2
    knorm at kl; clear p2
    first | assumption | hfin
  | @retAllocFail a p1 =>
    have kh := held_facts h p1; knorm at kh
    first | assumption | hfin
  | @retAllocDone a x p1 =>
    have kh := held_facts h p1; knorm at kh
    first | assumption | hfin
  | @popBucketSome a pu b rest p1 p2 =>
    have kh := held_facts h p1; knorm at kh
    have kf := lifo_facts h p2; knorm at kf
    first | assumption | hfin
  | @popBucketNone a pu p1 p2 =>
    have kh := held_facts h p1; knorm at kh
    first | assumption | hfin
  | @popPageSome a pu acc p rest p1 p2 =>
    have kh := held_facts h p1; knorm at kh
    first | assumption | hfin
  | @popPageNone a pu acc p1 p2 =>
    have kh := held_facts h p1; knorm at kh
    first | assumption | hfin
  | @allocOk a pu acc p1 =>
    have kh := held_facts h p1; knorm at kh
    first | assumption | hfin
  | @allocFailEmpty a pu p1 =>
    have kh := held_facts h p1; knorm at kh
    first | assumption | hfin
  | @allocFailPart a pu x acc p1 =>
    have kh := held_facts h p1; knorm at kh
    first | assumption | hfin
  | @carveLifo a pu acc p p1 p2 p3 =>
    have kh := held_facts h p1; knorm at kh
    have kg := hpg a p (by rw [p1]; rfl)
    first | assumption | hfinC
  | @carveEmpty a pu acc p p1 p2 p3 =>
    have kh := held_facts h p1; knorm at kh
    have kg := hpg a p (by rw [p1]; rfl)
    first | assumption | hfinC
  | @lockPartEmpty a k b p1 p2 p3 =>
    have kh := held_facts h p1; knorm at kh
    first | assumption | hfin
  | @lockPartSmall a k b p1 p2 p3 p4 =>
    have kh := held_facts h p1; knorm at kh
    first | assumption | hfin
  | @lockPartFull a k b p1 p2 p3 p4 =>
    have kh := held_facts h p1; knorm at kh
    have kp := part_split h (P.perBucket - b.length)
    first | assumption | hfin
  | @pushBucketPart a k b p1 =>
    have kh := held_facts h p1; knorm at kh
    first | assumption | hfin
  | @unlockPart a k p1 =>
    have kh := held_facts h p1; knorm at kh
    first | assumption | hfin
  | @callFreePush a x f c p1 p2 p3 p4 p5 =>
    have kh := held_facts h p2; knorm at kh
    have kl := loc_facts h p4
    knorm at kl; clear p4
    first | assumption | hfin
  | @callFreeNew a x f c p1 p2 p3 p4 p5 p6 =>
    have kh := held_facts h p2; knorm at kh
    have kl := loc_facts h p4
    knorm at kl; clear p4
    first | assumption | hfin
  | @callFreeRet a x f c b0 rest p1 p2 p3 p4 p5 p6 p7 =>
    have kh := held_facts h p2; knorm at kh
    have kl := loc_facts h p4
    have kk : f.flatten ++ c = b0 ++ rest.flatten := by have := congrArg List.flatten p7; simpa using this
    simp only [kk] at kl; clear kk p7
    knorm at kl; clear p4
    first | assumption | hfin
  | @pushBucketFree a b p1 =>
    have kh := held_facts h p1; knorm at kh
    first | assumption | hfin
  | @retFree a p1 =>
    have kh := held_facts h p1; knorm at kh
    first | assumption | hfin
  | @callDestroy a f c p1 p2 p3 =>
    have kh := held_facts h p2; knorm at kh
    have kl := loc_facts h p3
    knorm at kl; clear p3
    first | assumption | hfin
  | @pushBucketDestroy a b f c p1 =>
    have kh := held_facts h p1; knorm at kh
    first | assumption | hfin
  | @pushBucketLast a c p1 =>
    have kh := held_facts h p1; knorm at kh
    first | assumption | hfin
  | @retDestroy a p1 =>
    have kh := held_facts h p1; knorm at kh
    first | assumption | hfin
  | @destroyStart  p1 p2 p3 =>
    first | assumption | hfin
  | @relLifo p rest p1 p2 =>
    first | assumption | hfin
  | @lifoEmpty  p1 p2 =>
    first | assumption | hfin
  | @relEmpty p rest p1 p2 =>
    first | assumption | hfin
  | @destroyEnd  p1 p2 =>
    first | assumption | hfin

theorem hstep_unc (P : Params) (s : St) (e : Ev) (s' : St) (h : HInv s)
    (hpg : ∀ a p, heldPage (s.pc a) = some p → p < s.npages) (hs : Step P s e s') : ∀ h, s'.own h = .uncarved ↔ ¬ (h.1 < s'.npages ∧ h.2 < s'.used h.1) := by
  have c1 := h.lifo; have c2 := h.lifoNd; have c3 := h.part; have c4 := h.partNd; have c5 := h.loc; have c6 := h.locNd
  have c7 := h.held; have c8 := h.heldNd; have c9 := h.out; have c10 := h.outNd; have c11 := h.unc
  cases hs with
  | @callInit a p1 p2 p3 =>
    have kh := held_facts h p2; knorm at kh
    first | assumption | hfin
  | @retInitOk a b p1 p2 =>
    have kh := held_facts h p1; knorm at kh
    have kn := c5 a; rw [p2] at kn; knorm at kn
    first | assumption | hfin
  | @retInitFail a p1 =>
    have kh := held_facts h p1; knorm at kh
    first | assumption | hfin
  | @callAllocPop a f x x2 c p1 p2 p3 =>
    have kh := held_facts h p2; knorm at kh
    have kl := loc_facts h p3
    knorm at kl; clear p3
    first | assumption | hfin
  | @callAllocPrev a f b x p1 p2 p3 =>
    have kh := held_facts h p2; knorm at kh
    have kl := loc_facts h p3
    knorm at kl; clear p3
    first | assumption | hfin
  | @callAllocTake a x p1 p2 p3 =>
    have kh := held_facts h p2; knorm at kh
    have kl := loc_facts h p3
    knorm at kl; clear p3
    first | assumption | hfin
  | @retAllocTake a b x p1 p2 =>
    have kh := held_facts h p1; knorm at kh
    have kl := loc_facts h p2
    knorm at kl; clear p2
    first | assumption | hfin
  | @retAllocFail a p1 =>
    have kh := held_facts h p1; knorm at kh
    first | assumption | hfin
  | @retAllocDone a x p1 =>
    have kh := held_facts h p1; knorm at kh
    first | assumption | hfin
  | @popBucketSome a pu b rest p1 p2 =>
    have kh := held_facts h p1; knorm at kh
    have kf := lifo_facts h p2; knorm at kf
    first | assumption | hfin
  | @popBucketNone a pu p1 p2 =>
    have kh := held_facts h p1; knorm at kh
    first | assumption | hfin
  | @popPageSome a pu acc p rest p1 p2 =>
    have kh := held_facts h p1; knorm at kh
    first | assumption | hfin
  | @popPageNone a pu acc p1 p2 =>
    have kh := held_facts h p1; knorm at kh
    first | assumption | hfin
  | @allocOk a pu acc p1 =>
    have kh := held_facts h p1; knorm at kh
    first | assumption | hfin
  | @allocFailEmpty a pu p1 =>
    have kh := held_facts h p1; knorm at kh
    first | assumption | hfin
  | @allocFailPart a pu x acc p1 =>
    have kh := held_facts h p1; knorm at kh
    first | assumption | hfin
  | @carveLifo a pu acc p p1 p2 p3 =>
    have kh := held_facts h p1; knorm at kh
    have kg := hpg a p (by rw [p1]; rfl)
    first | assumption | hfinC
  | @carveEmpty a pu acc p p1 p2 p3 =>
    have kh := held_facts h p1; knorm at kh
    have kg := hpg a p (by rw [p1]; rfl)
    first | assumption | hfinC
  | @lockPartEmpty a k b p1 p2 p3 =>
    have kh := held_facts h p1; knorm at kh
    first | assumption | hfin
  | @lockPartSmall a k b p1 p2 p3 p4 =>
    have kh := held_facts h p1; knorm at kh
    first | assumption | hfin
  | @lockPartFull a k b p1 p2 p3 p4 =>
    have kh := held_facts h p1; knorm at kh
    have kp := part_split h (P.perBucket - b.length)
    first | assumption | hfin
  | @pushBucketPart a k b p1 =>
    have kh := held_facts h p1; knorm at kh
    first | assumption | hfin
  | @unlockPart a k p1 =>
    have kh := held_facts h p1; knorm at kh
    first | assumption | hfin
  | @callFreePush a x f c p1 p2 p3 p4 p5 =>
    have kh := held_facts h p2; knorm at kh
    have kl := loc_facts h p4
    knorm at kl; clear p4
    first | assumption | hfin
  | @callFreeNew a x f c p1 p2 p3 p4 p5 p6 =>
    have kh := held_facts h p2; knorm at kh
    have kl := loc_facts h p4
    knorm at kl; clear p4
    first | assumption | hfin
  | @callFreeRet a x f c b0 rest p1 p2 p3 p4 p5 p6 p7 =>
    have kh := held_facts h p2; knorm at kh
    have kl := loc_facts h p4
    have kk : f.flatten ++ c = b0 ++ rest.flatten := by have := congrArg List.flatten p7; simpa using this
    simp only [kk] at kl; clear kk p7
    knorm at kl; clear p4
    first | assumption | hfin
  | @pushBucketFree a b p1 =>
    have kh := held_facts h p1; knorm at kh
    first | assumption | hfin
  | @retFree a p1 =>
    have kh := held_facts h p1; knorm at kh
    first | assumption | hfin
  | @callDestroy a f c p1 p2 p3 =>
    have kh := held_facts h p2; knorm at kh
    have kl := loc_facts h p3
    knorm at kl; clear p3
    first | assumption | hfin
  | @pushBucketDestroy a b f c p1 =>
    have kh := held_facts h p1; knorm at kh
    first | assumption | hfin
  | @pushBucketLast a c p1 =>
    have kh := held_facts h p1; knorm at kh
    first | assumption | hfin
  | @retDestroy a p1 =>
    have kh := held_facts h p1; knorm at kh
    first | assumption | hfin
  | @destroyStart  p1 p2 p3 =>
    first | assumption | hfin
  | @relLifo p rest p1 p2 =>
    first | assumption | hfin
  | @lifoEmpty  p1 p2 =>
    first | assumption | hfin
  | @relEmpty p rest p1 p2 =>
    first | assumption | hfin
  | @destroyEnd  p1 p2 =>
    first | assumption | hfin

theorem hinv_step (P : Params) (s : St) (e : Ev) (s' : St) (h : HInv s)
    (hpg : ∀ a p, heldPage (s.pc a) = some p → p < s.npages) (hs : Step P s e s') : HInv s' :=
  ⟨hstep_lifo P s e s' h hpg hs, hstep_lifoNd P s e s' h hpg hs, hstep_part P s e s' h hpg hs, hstep_partNd P s e s' h hpg hs,
   hstep_loc P s e s' h hpg hs, hstep_locNd P s e s' h hpg hs, hstep_held P s e s' h hpg hs, hstep_heldNd P s e s' h hpg hs,
   hstep_out P s e s' h hpg hs, hstep_outNd P s e s' h hpg hs, hstep_unc P s e s' h hpg hs⟩

end ArgoVerif.Model.MemPoolConc
