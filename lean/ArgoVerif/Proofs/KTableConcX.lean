import ArgoVerif.Proofs.KTableConcT3
/-
Proofs.KTableConcX — the executable step is sound for the relational model; runs of the
machine satisfy the invariants.
-/
namespace ArgoVerif.Model.KTableConc
open ArgoVerif ArgoVerif.Model.KTable

theorem all_idle_of_known (s : St) (hp : PInv s) (h : s.known.all (fun a' => s.pc a' = .idle) = true) :
    ∀ a, s.pc a = .idle := by
  intro a
  apply Classical.byContradiction
  intro hne
  have hk := hp.known a hne
  have := List.all_eq_true.mp h a hk
  simp at this
  exact hne this

theorem exec_sound (c : Cfg) (s : St) (e : Ev) (s' : St) (hp : PInv s) (h : exec c s e = some s') :
    Step c s e s' := by
  cases e with
  | startSet a k v sf =>
    cases sf with
    | true =>
      simp only [exec] at h
      split at h
      · next hc => simp only [Option.some.injEq] at h; subst h; exact Step.startSafe hc.1 hc.2.1 hc.2.2.1 hc.2.2.2
      · cases h
    | false =>
      simp only [exec] at h
      split at h
      · next hc =>
        simp only [Option.some.injEq] at h; subst h
        exact Step.startUnsafe (all_idle_of_known s hp hc.1) hc.2.1 hc.2.2.1 hc.2.2.2
      · cases h
  | load a b j nn =>
    simp only [exec] at h
    split at h
    · next k v sf j' hpc =>
      split at h
      · next hc =>
        obtain ⟨hb, hj⟩ := hc; subst hb; subst hj
        split at h
        · next =>
          split at h
          · next hk => simp only [Option.some.injEq] at h; subst h; exact Step.walkFound hpc (by assumption) hk
          · next hk => simp only [Option.some.injEq] at h; subst h; exact Step.walkNext hpc (by assumption) hk
        · next =>
          cases sf with
          | true => simp only [if_true, Option.some.injEq] at h; subst h; exact Step.walkEndSafe hpc (by assumption)
          | false => simp only [Bool.false_eq_true, if_false, Option.some.injEq] at h; subst h; exact Step.walkEndUnsafe hpc (by assumption)
        · cases h
      · cases h
    · next k v sf j' hpc =>
      split at h
      · next hc =>
        obtain ⟨hb, hj⟩ := hc; subst hb; subst hj
        split at h
        · next =>
          split at h
          · next hk =>
            cases sf with
            | true => simp only [if_true, Option.some.injEq] at h; subst h; exact Step.lwalkFoundSafe hpc (by assumption) hk
            | false =>
              simp only [Bool.false_eq_true, if_false, Option.some.injEq] at h; subst h
              exact Step.lwalkFoundUnsafe hpc (by assumption) hk
          · next hk => simp only [Option.some.injEq] at h; subst h; exact Step.lwalkNext hpc (by assumption) hk
        · next =>
          split at h
          · next => simp only [Option.some.injEq] at h; subst h; exact Step.lwalkEnd hpc (by assumption) (by assumption)
          · cases h
        · cases h
      · cases h
    · next kid h0 j' hpc =>
      split at h
      · next hc =>
        obtain ⟨hb, hj⟩ := hc; subst hb; subst hj
        split at h
        · next =>
          split at h
          · next hk => simp only [Option.some.injEq] at h; subst h; exact Step.gFound hpc (by assumption) hk
          · next hk => simp only [Option.some.injEq] at h; subst h; exact Step.gNext hpc (by assumption) hk
        · next => simp only [Option.some.injEq] at h; subst h; exact Step.gEnd hpc (by assumption)
        · cases h
      · cases h
    · cases h
  | storeVal a =>
    simp only [exec] at h
    split at h
    · next k v j hpc =>
      split at h
      · next => simp only [Option.some.injEq] at h; subst h; exact Step.storeVal hpc (by assumption)
      · cases h
    · cases h
  | acquire a =>
    simp only [exec] at h
    split at h
    · next k v j hpc hl => simp only [Option.some.injEq] at h; subst h; exact Step.acquire hpc hl
    · cases h
  | release a =>
    simp only [exec] at h
    split at h
    · next k v j hpc => simp only [Option.some.injEq] at h; subst h; exact Step.releaseFound hpc
    · next hpc => simp only [Option.some.injEq] at h; subst h; exact Step.releaseFail hpc
    · next hpc => simp only [Option.some.injEq] at h; subst h; exact Step.unlock hpc
    · cases h
  | allocFail a =>
    simp only [exec] at h
    split at h
    · next k v sf j hpc =>
      split at h
      · next =>
        cases sf with
        | true => simp only [if_true, Option.some.injEq] at h; subst h; exact Step.allocFailSafe hpc (by assumption) (by assumption)
        | false =>
          simp only [Bool.false_eq_true, if_false, Option.some.injEq] at h; subst h
          exact Step.allocFailUnsafe hpc (by assumption) (by assumption)
      · cases h
    · cases h
  | storeLink a b j =>
    simp only [exec] at h
    split at h
    · next k v sf j' blk hpc =>
      split at h
      · next hc =>
        obtain ⟨hb, hj, _⟩ := hc; subst hb; subst hj
        cases sf with
        | true => simp only [if_true, Option.some.injEq] at h; subst h; exact Step.publishSafe hpc
        | false => simp only [Bool.false_eq_true, if_false, Option.some.injEq] at h; subst h; exact Step.publishUnsafe hpc
      · cases h
    · cases h
  | endSet a ok =>
    simp only [exec] at h
    split at h
    · next hpc => simp only [Option.some.injEq] at h; subst h; exact Step.endSet hpc
    · cases h
  | startGet a kid =>
    simp only [exec] at h
    split at h
    · next hc => simp only [Option.some.injEq] at h; subst h; exact Step.startGet hc.1 hc.2.1 hc.2.2
    · cases h
  | readVal a =>
    simp only [exec] at h
    split at h
    · next kid h0 j hpc =>
      split at h
      · next => simp only [Option.some.injEq] at h; subst h; exact Step.readVal hpc (by assumption)
      · cases h
    · cases h
  | endGet a r =>
    simp only [exec] at h
    split at h
    · next kid h0 r' hr hpc =>
      split at h
      · next hr' => subst hr'; simp only [Option.some.injEq] at h; subst h; exact Step.endGet hpc
      · cases h
    · cases h
  | free =>
    simp only [exec] at h
    split at h
    · next hc => simp only [Option.some.injEq] at h; subst h; exact Step.free (all_idle_of_known s hp hc.1) hc.2
    · cases h

/-- every accepted run of the machine is a run of the relational model and satisfies both invariants -/
theorem run_inv (c : Cfg) (tr : List Ev) (s0 s : St) (hp0 : PInv s0) (ht0 : TInv c s0)
    (h : (machine c).run s0 tr = some s) : Star (Step c) s0 tr s ∧ PInv s ∧ TInv c s := by
  induction tr generalizing s0 with
  | nil => simp only [Machine.run, Option.some.injEq] at h; subst h; exact ⟨Star.refl _, hp0, ht0⟩
  | cons e es ih =>
    simp only [Machine.run] at h
    cases he : (machine c).step s0 e with
    | none => simp [he] at h
    | some s1 =>
      simp only [he] at h
      have hst : Step c s0 e s1 := exec_sound c s0 e s1 hp0 he
      have hp1 := pinv_step c s0 e s1 hp0 hst
      have ht1 := tinv_step c s0 e s1 hp0 ht0 hst
      obtain ⟨a1, a2, a3⟩ := ih s1 hp1 ht1 h
      exact ⟨Star.cons hst a1, a2, a3⟩

end ArgoVerif.Model.KTableConc

namespace ArgoVerif.Model.KTableConc
open ArgoVerif ArgoVerif.Model.KTable

/-- identity of an element: everything but `value` -/
def sameElem (e e' : Elem) : Prop := e'.keyId = e.keyId ∧ e'.dtor = e.dtor ∧ e'.blk = e.blk

/-- one step never unlinks, moves or replaces an element: position `i` of every chain keeps its
element (only `value` may change); chains only grow -/
theorem step_append_only (c : Cfg) (s : St) (e : Ev) (s' : St) (ht : TInv c s) (hs : Step c s e s') :
    ∀ (b i : Nat) (x : Elem), (s.tbl.b b)[i]? = some x → ∃ x', (s'.tbl.b b)[i]? = some x' ∧ sameElem x x' := by
  have hid : ∀ (b i : Nat) (x : Elem), (s.tbl.b b)[i]? = some x → ∃ x', (s.tbl.b b)[i]? = some x' ∧ sameElem x x' :=
    fun b i x hx => ⟨x, hx, rfl, rfl, rfl⟩
  cases hs with
  | @lwalkEnd a k v sf j tb blk hpc hj ha =>
    intro b i x hx
    have := (allocElem_b _ _ _ _ _ ha).1
    exact ⟨x, by show (tb.b b)[i]? = some x; rw [this]; exact hx, rfl, rfl, rfl⟩
  | @storeVal a k v j e0 hpc hj =>
    intro b i x hx
    simp only [setChain, updB]
    split
    · next hb =>
      subst hb
      rw [List.getElem?_set]
      by_cases hij : j = i
      · subst hij
        have hlt := lt_of_getElem?_some _ _ _ hx
        have : x = e0 := by
          have h1 : (chain c s k.id)[j]? = some x := hx
          rw [hj] at h1; exact (Option.some.inj h1).symm
        subst this
        simp only [if_true]
        have hlt' : j < (chain c s k.id).length := hlt
        simp only [hlt', if_true]
        exact ⟨_, rfl, rfl, rfl, rfl⟩
      · simp only [hij, if_false]; exact ⟨x, hx, rfl, rfl, rfl⟩
    · exact ⟨x, hx, rfl, rfl, rfl⟩
  | @publishSafe a k v j blk hpc =>
    intro b i x hx
    obtain ⟨hjl, _⟩ := ht.pubc a k.id j (by rw [hpc]; rfl)
    have htake : (chain c s k.id).take j = chain c s k.id := by
      apply List.take_of_length_le; rw [hjl, ks_chain, List.length_map]; exact Nat.le_refl _
    simp only [setChain, updB, htake]
    split
    · next hb =>
      subst hb
      have hlt : i < (chain c s k.id).length := lt_of_getElem?_some _ _ _ hx
      exact ⟨x, by rw [List.getElem?_append_left hlt]; exact hx, rfl, rfl, rfl⟩
    · exact ⟨x, hx, rfl, rfl, rfl⟩
  | @publishUnsafe a k v j blk hpc =>
    intro b i x hx
    obtain ⟨hjl, _⟩ := ht.pubc a k.id j (by rw [hpc]; rfl)
    have htake : (chain c s k.id).take j = chain c s k.id := by
      apply List.take_of_length_le; rw [hjl, ks_chain, List.length_map]; exact Nat.le_refl _
    simp only [setChain, updB, htake]
    split
    · next hb =>
      subst hb
      have hlt : i < (chain c s k.id).length := lt_of_getElem?_some _ _ _ hx
      exact ⟨x, by rw [List.getElem?_append_left hlt]; exact hx, rfl, rfl, rfl⟩
    · exact ⟨x, hx, rfl, rfl, rfl⟩
  | _ => exact hid

theorem star_append_only (c : Cfg) (tr : List Ev) (s s' : St) (hp : PInv s) (ht : TInv c s)
    (h : Star (Step c) s tr s') :
    ∀ (b i : Nat) (x : Elem), (s.tbl.b b)[i]? = some x → ∃ x', (s'.tbl.b b)[i]? = some x' ∧ sameElem x x' := by
  induction h with
  | refl => intro b i x hx; exact ⟨x, hx, rfl, rfl, rfl⟩
  | @cons s0 e s1 es s2 hst _ ih =>
    intro b i x hx
    obtain ⟨x1, h1, e1⟩ := step_append_only c s0 e s1 ht hst b i x hx
    obtain ⟨x2, h2, e2⟩ := ih (pinv_step c s0 e s1 hp hst) (tinv_step c s0 e s1 hp ht hst) b i x1 h1
    exact ⟨x2, h2, e2.1.trans e1.1, e2.2.1.trans e1.2.1, e2.2.2.trans e1.2.2⟩

/-- the table of a state satisfying the invariant is well formed in the sense of the sequential
proofs (Proofs.KTable.WF), with the configured destructor map -/
theorem tinv_wf (c : Cfg) (s : St) (hsz : 0 < c.size) (ht : TInv c s) : WF c.kd s.tbl :=
  ⟨by rw [ht.size]; exact hsz, fun i e he => by rw [ht.size]; exact ht.idx i e he, ht.nodup, ht.dtor⟩

/-- with no set in progress on key id `k`... in fact always: a lookup returns the last value stored -/
theorem tinv_tget (c : Cfg) (s : St) (ht : TInv c s) (k : Nat) : tget s.tbl k = absVal s k := by
  simp only [tget, absVal, ht.size]
  by_cases hm : k ∈ ks c s.tbl k
  · obtain ⟨e, he, hek, hget⟩ := chainGet_mem k _ hm
    rw [hget]
    have := ht.hval _ e he
    rw [hek] at this
    simp [this]
  · have h0 := ht.habs k hm
    rw [chainGet_absent k _ hm, h0]; rfl

end ArgoVerif.Model.KTableConc
