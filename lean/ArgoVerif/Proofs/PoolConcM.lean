import ArgoVerif.Proofs.PoolConcL
/- Proofs.PoolConcM — preservation of the second invariant at the linearisation steps; both invariants on every run. -/
namespace ArgoVerif.Model.PoolConc
open ArgoVerif ArgoVerif.Model.TQ
set_option maxHeartbeats 1000000

theorem take_split {q : List Nat} (hq : q ≠ []) (tl : Bool) :
    q = if tl then takeRest q tl ++ [takeUnit q tl] else takeUnit q tl :: takeRest q tl := by
  cases tl with
  | false =>
    cases q with
    | nil => exact absurd rfl hq
    | cons x r => simp [takeUnit, takeRest]
  | true =>
    have hl : q.getLast? = some (q.getLast hq) := List.getLast?_eq_some_getLast hq
    simp [takeUnit, takeRest, hl, List.dropLast_concat_getLast]

theorem inv2_storeIn {cfg : Cfg} {s s' : St} {a : Actor} {u : Nat} {v : Bool} (hi : Inv cfg s) (h : Inv2 s)
    (hs : stepStoreIn cfg s a u v = some s') : Inv2 s' := by
  unfold stepStoreIn at hs
  split at hs
  · simp at hs
  next hg =>
  have hown : s.owner = some a := by simp_all
  have hu : u = s.pu a := by simp_all
  split at hs <;> (try (simp at hs; done))
  next hpc =>
    split at hs
    · simp at hs
    simp only [Option.some.injEq] at hs; subst hs
    obtain ⟨hnp, hnr⟩ := (hi.typed a).1 (by simp [hpc, PushPc])
    have hp := pushlike_of_not hnp hnr
    have hb := h.batch a hp (by simp [hpc])
    have hc := h.contig a (by simp [hpc, InCS]) hp
    simp only [pending, hpc] at hb
    generalize hnx : (if s.todo a ≠ [] then Pc.csPush else
        match cfg.lk with
        | .mutex => Pc.sig
        | .spin => leave cfg (s.cur a)) = nx
    have hnxc : (nx = .csPush ∧ s.todo a ≠ []) ∨ ((nx = .sig ∨ nx = .rel ∨ nx = .retp) ∧ s.todo a = []) := by
      rw [← hnx]; split
      next ht => exact Or.inl ⟨rfl, ht⟩
      next ht =>
        refine Or.inr ⟨?_, by simpa using ht⟩
        cases cfg.lk
        · rcases leave_cases cfg (s.cur a) with e | e <;> simp [e]
        · simp
    apply inv2_update hi h (a := a)
    case opc | ocur | odone | obase | otodo | opu | ogot => intro b hb; simp [setPc, upd, hb]
    case hq => exact Or.inr hown
    all_goals simp only [setPc, upd, if_true, pending]
    case a1 =>
      intro _ _
      have : ¬ (nx = .pub ∨ nx = .setIn) := by rcases hnxc with e | e
                                               · simp [e.1]
                                               · rcases e.1 with e' | e' | e' <;> simp [e']
      simp only [this, if_false]
      rw [hb, ← hu]; simp
    case a2 =>
      intro _ _
      rw [hc]
      cases headOf (s.cur a)
      · simp
      · simp
    case a3 => intro _ hpl; simp [hnp] at hpl
    case a4 =>
      intro _ hc'
      rcases hnxc with e | e
      · simp [e.1] at hc'
      · exact e.2
    case a5 => rcases hnxc with e | e
               · simp [e.1, PrePush]
               · rcases e.1 with e' | e' | e' <;> simp [e', PrePush]
    case a6 => intro hpl; simp [hnp] at hpl
    case a7 => rcases hnxc with e | e
               · simp [e.1]
               · rcases e.1 with e' | e' | e' <;> simp [e']
    case a8 => rcases hnxc with e | e
               · simp [e.1]
               · rcases e.1 with e' | e' | e' <;> simp [e']
  next hpc =>
    split at hs
    · simp at hs
    simp only [Option.some.injEq] at hs; subst hs
    have hpre := h.pre a
    have hfin := h.fin a
    have hbt := h.batch a
    have hct := h.contig a (by simp [hpc, InCS])
    have htk := h.taken a (by simp [hpc, InCS])
    have hsp := h.spinPc a
    generalize hnx : (if isPopMany (s.cur a) = true ∧ s.cnt a ≠ 0 then Pc.csPop else leave cfg (s.cur a)) = nx
    have hnxc : (nx = .csPop ∧ isPopMany (s.cur a) = true) ∨ nx = .rel ∨ nx = .retp := by
      rw [← hnx]; split
      next hc => exact Or.inl ⟨rfl, hc.1⟩
      next hc => exact Or.inr (leave_cases cfg (s.cur a))
    have hnpush : isPushLike (s.cur a) = false := h.popSide a (Or.inr hpc)
    apply inv2_update hi h (a := a)
    case opc | ocur | odone | obase | otodo | opu | ogot => intro b hb; simp [setPc, upd, hb]
    case hq => exact Or.inl rfl
    all_goals simp only [setPc, upd, if_true, pending]
    case a1 => intro hp; simp [hnpush] at hp
    case a2 => intro _ hp; simp [hnpush] at hp
    case a3 =>
      intro hcs hpl
      exact htk hpl
    case a4 => intro hp; simp [hnpush] at hp
    case a5 => intro hp; simp [hnpush] at hp
    case a6 =>
      intro hpl hpg
      rcases hnxc with e | e | e <;> simp [e, PreGot] at hpg
    case a7 => rcases hnxc with e | e | e <;> simp [e]
    case a8 => rcases hnxc with e | e | e <;> simp [e]


theorem inv2_take {cfg : Cfg} {s s' : St} {a : Actor} {r : Nat} {hd : Bool} (hi : Inv cfg s) (h : Inv2 s)
    (hs : stepTake cfg s a r hd = some s') : Inv2 s' := by
  unfold stepTake at hs
  split at hs
  · simp at hs
  next hg =>
  have hpc : s.pc a = .csPop := by simp_all
  have hown : s.owner = some a := by simp_all
  have hpl : isPopLike (s.cur a) = true := (hi.typed a).2.1 (by simp [hpc, PopPc])
  have hnp := poplike_not_pushlike hpl
  have htk := h.taken a (by simp [hpc, InCS]) hpl
  split at hs
  next hq =>
    simp only [Option.some.injEq] at hs; subst hs
    apply inv2_update hi h (a := a)
    case opc | ocur | odone | obase | otodo | opu | ogot => intro b hb; simp [setPc, upd, hb]
    case hq => exact Or.inl rfl
    all_goals simp only [setPc, upd, if_true, pending]
    case a1 => intro hp; simp [hnp] at hp
    case a2 => intro _ hp; simp [hnp] at hp
    case a3 => intro _ _; exact htk
    case a4 => intro hp; simp [hnp] at hp
    case a5 => intro hp; simp [hnp] at hp
    case a6 => intro _ hpg; rcases leave_cases cfg (s.cur a) with e | e <;> simp [e, PreGot] at hpg
    case a7 => rcases leave_cases cfg (s.cur a) with e | e <;> simp [e]
    case a8 => intro _; exact hnp
  next hq =>
    simp only [Option.some.injEq] at hs; subst hs
    have hsplit := take_split hq (tailOf (s.cur a))
    apply inv2_update hi h (a := a)
    case opc | ocur | odone | obase | otodo | opu | ogot => intro b hb; simp [setPc, upd, hb]
    case hq => exact Or.inr hown
    all_goals simp only [setPc, upd, if_true, pending]
    case a1 => intro hp; simp [hnp] at hp
    case a2 => intro _ hp; simp [hnp] at hp
    case a3 =>
      intro _ _
      rw [htk]
      cases htl : tailOf (s.cur a)
      · simp only [htl] at hsplit ⊢
        conv => lhs; rw [hsplit]
        simp
      · simp only [htl] at hsplit ⊢
        conv => lhs; rw [hsplit]
        simp
    case a4 => intro hp; simp [hnp] at hp
    case a5 => intro hp; simp [hnp] at hp
    case a6 => intro _ hpg; by_cases hr : takeRest s.q (tailOf (s.cur a)) = [] <;> simp [hr, PreGot] at hpg
    case a7 => by_cases hr : takeRest s.q (tailOf (s.cur a)) = [] <;> simp [hr]
    case a8 => intro _; exact hnp

theorem inv2_unlink {cfg : Cfg} {s s' : St} {a : Actor} {u : Nat} (hi : Inv cfg s) (h : Inv2 s)
    (hs : stepUnlink s a u = some s') : Inv2 s' := by
  unfold stepUnlink at hs
  split at hs
  · simp at hs
  next hg =>
  simp only [Option.some.injEq] at hs; subst hs
  have hpc : s.pc a = .csRm := by simp_all
  have hown : s.owner = some a := by simp_all
  have hrm : isRemove (s.cur a) = true := (hi.typed a).2.2 (by simp [hpc, RmPc])
  have h1 := remove_not_pushlike hrm
  have h2 := remove_not_poplike hrm
  apply inv2_update hi h (a := a)
  case opc | ocur | odone | obase | otodo | opu | ogot => intro b hb; simp [setPc, upd, hb]
  case hq => exact Or.inr hown
  all_goals simp only [setPc, upd, if_true, pending]
  case a1 => intro hp; simp [h1] at hp
  case a2 => intro _ hp; simp [h1] at hp
  case a3 => intro _ hp; simp [h2] at hp
  case a4 => intro hp; simp [h1] at hp
  case a5 => intro hp; simp [h1] at hp
  case a6 => intro hp; simp [h2] at hp
  case a7 => intro _; exact h2
  case a8 => intro _; exact h1

theorem inv2_step {cfg : Cfg} {s s' : St} {e : Ev} (hi : Inv cfg s) (h : Inv2 s) (hs : step cfg s e = some s') :
    Inv2 s' := by
  cases e with
  | call a c => exact inv2_call hi h hs
  | ret a r => exact inv2_ret hi h hs
  | cbPushMany a n => exact inv2_cbPushMany hi h hs
  | tas a old => exact inv2_tas hi h hs
  | loadLock a v => exact inv2_loadLock hi h hs
  | loadEmpty a v => exact inv2_loadEmpty hi h hs
  | loadIn a u v => exact inv2_loadIn hi h hs
  | clear a => exact inv2_clear hi h hs
  | mlock a => exact inv2_mlock hi h hs
  | munlock a => exact inv2_munlock hi h hs
  | link a u hd => exact inv2_link hi h hs
  | take a r hd => exact inv2_take hi h hs
  | unlink a u => exact inv2_unlink hi h hs
  | rmFail a => exact inv2_rmFail hi h hs
  | storeEmpty a v => exact inv2_storeEmpty hi h hs
  | storeIn a u v => exact inv2_storeIn hi h hs
  | signal a => exact inv2_signal hi h hs
  | condWait a => exact inv2_condWait hi h hs
  | wake a => exact inv2_wake hi h hs

theorem bodyPc_ne_pmCb (cfg : Cfg) (c : Call) : bodyPc cfg c ≠ .pmCb := by
  rcases cfg with ⟨lk, sh⟩
  cases lk <;> cases sh <;> (cases c with
    | pushMany us h => cases us <;> simp [bodyPc, csEntry]
    | popMany m t => cases m <;> simp [bodyPc, csEntry]
    | _ => simp [bodyPc, csEntry])

theorem inv12_run {cfg : Cfg} {tr : List Ev} {s : St} (h : (machine cfg).run init tr = some s) : Inv cfg s ∧ Inv2 s :=
  Machine.invariant_run (machine cfg) (fun s => Inv cfg s ∧ Inv2 s)
    (fun _ _ _ hi hs => ⟨inv_step hi.1 hs, inv2_step hi.1 hi.2 hs⟩) tr init s ⟨inv_init cfg, inv2_init⟩ h

theorem inv2_reachable {cfg : Cfg} {s : St} (h : (machine cfg).Reachable s) : Inv2 s := by
  obtain ⟨tr, hr⟩ := h
  exact (inv12_run hr).2

end ArgoVerif.Model.PoolConc
