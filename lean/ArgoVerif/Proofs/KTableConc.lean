import ArgoVerif.Model.KTableConc
/-
Proofs.KTableConc — protocol invariant (table lock, private phase, known actors) of the
interleaving model of concurrent `ABTI_ktable_set` / `ABTI_ktable_get`.
-/
namespace ArgoVerif.Model.KTableConc
open ArgoVerif ArgoVerif.Model.KTable

def holdsLock : Pc → Bool
  | .lwalk _ _ sf _ => sf
  | .pub _ _ sf _ _ => sf
  | .lfound _ _ _ | .unlock | .failRel => true
  | _ => false

def usesPriv : Pc → Bool
  | .walk _ _ sf _ => !sf
  | .lwalk _ _ sf _ => !sf
  | .pub _ _ sf _ _ => !sf
  | _ => false

def isGet : Pc → Bool
  | .gwalk _ _ _ | .gread _ _ _ | .gret _ _ _ _ => true
  | _ => false

theorem mem_addKnown (l : List Actor) (a b : Actor) : b ∈ addKnown l a ↔ b = a ∨ b ∈ l := by
  simp only [addKnown]
  split
  · next h => constructor
              · exact Or.inr
              · rintro (h1 | h1)
                · rw [h1]; exact h
                · exact h1
  · simp

structure PInv (s : St) : Prop where
  known : ∀ a, s.pc a ≠ .idle → a ∈ s.known
  lock1 : ∀ a, holdsLock (s.pc a) = true → s.lock = some a
  lock2 : ∀ a, s.lock = some a → holdsLock (s.pc a) = true
  priv1 : ∀ a, usesPriv (s.pc a) = true → s.priv = some a
  priv2 : ∀ a a', s.priv = some a → a' ≠ a → s.pc a' = .idle
  priv3 : ∀ a, s.priv = some a → s.pc a ≠ .idle ∧ isGet (s.pc a) = false
  dead : s.live = false → ∀ a, s.pc a = .idle

theorem pinv_init (c : Cfg) : PInv (init c) := by
  constructor <;> simp [init, holdsLock, usesPriv, isGet]

theorem pinv_step (c : Cfg) (s : St) (e : Ev) (s' : St) (h : PInv s) (hs : Step c s e s') : PInv s' := by
  cases hs <;> constructor
  all_goals first
    | (have := h.known; have := h.lock1; have := h.lock2; have := h.priv1; have := h.priv2
       have := h.priv3; have := h.dead
       grind [upd, holdsLock, usesPriv, isGet, mem_addKnown])

end ArgoVerif.Model.KTableConc
