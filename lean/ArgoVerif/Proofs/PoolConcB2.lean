import ArgoVerif.Proofs.PoolConcA
/- Proofs.PoolConcB2 — invariant preservation: call and return. -/
namespace ArgoVerif.Model.PoolConc
open ArgoVerif ArgoVerif.Model.TQ
set_option maxHeartbeats 1000000

/-- everything the invariant needs to know about the first program counter of a call -/
theorem entryPc_facts (cfg : Cfg) (c : Call) :
    (InCS (entryPc cfg c) → cfg.shared = false) ∧
    entryPc cfg c ≠ .pubE ∧ entryPc cfg c ≠ .pub ∧ entryPc cfg c ≠ .setIn ∧ entryPc cfg c ≠ .clrIn ∧
    entryPc cfg c ≠ .rel ∧ entryPc cfg c ≠ .wIdle ∧ entryPc cfg c ≠ .idle ∧
    Typed (entryPc cfg c) c ∧
    (isPopLike c = true → Wanting (entryPc cfg c) → wants c ≠ 0) ∧
    (isPopLike c = true → entryPc cfg c = .retp → wants c = 0) ∧
    (isRemove c = true → entryPc cfg c ≠ .retp) := by
  rcases cfg with ⟨lk, sh⟩
  cases lk <;> cases sh <;> (cases c with
    | pushMany us h => cases us <;> simp [entryPc, bodyPc, csEntry, InCS, Wanting, Typed, PushPc, PopPc, RmPc, isPopLike, isRemove, wants]
    | popMany m t => cases m <;> simp [entryPc, bodyPc, csEntry, InCS, Wanting, Typed, PushPc, PopPc, RmPc, isPopLike, isRemove, wants]
    | _ => simp [entryPc, bodyPc, csEntry, InCS, Wanting, Typed, PushPc, PopPc, RmPc, isPopLike, isRemove, wants])

/-- the same for the first program counter of the pool callback -/
theorem bodyPc_facts (cfg : Cfg) (c : Call) :
    (InCS (bodyPc cfg c) → cfg.shared = false) ∧
    bodyPc cfg c ≠ .pubE ∧ bodyPc cfg c ≠ .pub ∧ bodyPc cfg c ≠ .setIn ∧ bodyPc cfg c ≠ .clrIn ∧
    bodyPc cfg c ≠ .rel ∧ bodyPc cfg c ≠ .wIdle ∧ bodyPc cfg c ≠ .idle ∧
    Typed (bodyPc cfg c) c ∧
    (isPopLike c = true → Wanting (bodyPc cfg c) → wants c ≠ 0) ∧
    (isPopLike c = true → bodyPc cfg c = .retp → wants c = 0) ∧
    (isRemove c = true → bodyPc cfg c ≠ .retp) := by
  rcases cfg with ⟨lk, sh⟩
  cases lk <;> cases sh <;> (cases c with
    | pushMany us h => cases us <;> simp [bodyPc, csEntry, InCS, Wanting, Typed, PushPc, PopPc, RmPc, isPopLike, isRemove, wants]
    | popMany m t => cases m <;> simp [bodyPc, csEntry, InCS, Wanting, Typed, PushPc, PopPc, RmPc, isPopLike, isRemove, wants]
    | _ => simp [bodyPc, csEntry, InCS, Wanting, Typed, PushPc, PopPc, RmPc, isPopLike, isRemove, wants])

/-- hook 23: ABT_pool_push_threads(_ex) invokes the pool's push_many callback -/
theorem inv_cbPushMany {cfg : Cfg} {s s' : St} {a : Actor} {n : Nat} (h : Inv cfg s)
    (hs : stepCbPushMany cfg s a n = some s') : Inv cfg s' := by
  unfold stepCbPushMany at hs
  split at hs
  · simp at hs
  next hg =>
  simp only [Option.some.injEq] at hs; subst hs
  have hpc : s.pc a = .pmCb := by simp_all
  have hidle : s.pc a ≠ .idle := by simp [hpc]
  obtain ⟨hnp, hnr⟩ := (h.typed a).1 (by simp [hpc, PushPc])
  have hlag : s.lagF ≠ some a := by
    intro e; have := h.lagPc a e; simp [hpc] at this
  obtain ⟨e1, e2, e3, e4, e5, e6, e7, e8, e9, e10, e11, e12⟩ := bodyPc_facts cfg (s.cur a)
  apply inv_frame h (a := a) (p := bodyPc cfg (s.cur a)) <;> first | rfl | (intro _ _; rfl) | skip
  case hnidle => exact hidle
  case c1 => intro hc; exact h.privOwner (e1 hc) a hidle
  case c2 => intro hc; exact absurd hc e2
  case c3 => intro hc; exact absurd hc hlag
  case c4 => intro hc; cases hc with
    | inl e => exact absurd e e3
    | inr e => exact absurd e e4
  case c5 => intro hc; cases hc with
    | inl e => exact absurd e e2
    | inr e => exact absurd e e5
  case c6 => exact e9
  case c7 => simp [hnp]
  case c8 => simp [hnp]
  case c9 => simp [hnp]
  case c10 => simp [hnr]
  case c11 => intro hc; exact absurd hc e4

theorem inv_call {cfg : Cfg} {s s' : St} {a : Actor} {c : Call} (h : Inv cfg s)
    (hs : stepCall cfg s a c = some s') : Inv cfg s' := by
  unfold stepCall at hs
  split at hs
  · simp at hs
  next hg =>
  split at hs
  · simp at hs
  next hpriv =>
  simp only [Option.some.injEq] at hs; subst hs
  have hidle : s.pc a = .idle := by simp_all
  have hok : callOk c = true := by simp_all
  have hlag : s.lagF ≠ some a := by
    intro e; have := h.lagPc a e; simp [hidle] at this
  obtain ⟨e1, e2, e3, e4, e5, e6, e7, e8, e9, e10, e11, e12⟩ := entryPc_facts cfg c
  apply inv_update h (a := a)
  case opc | ocur | ocnt | opu | ogot | orc | ose | osa => intro b hb; simp [setPc, upd, hb]
  case hown =>
    intro b hb e
    cases hsh : cfg.shared
    · simp [hsh] at hpriv; rw [hpriv] at e; simp at e
    · simpa [setPc, hsh] using e
  case hq => exact Or.inl rfl
  case hlag => exact Or.inl rfl
  case g1 => intro hsh; simpa [setPc, hsh] using h.lockOwner hsh
  case g2 => exact h.flagQ
  case g3 => exact h.lagQ
  case g4 => exact h.lin
  case g5 => exact h.inQ
  case a1 => intro hc; have := e1 (by simpa [setPc, upd] using hc); simp [setPc, this]
  case a2 => intro hsh _; simp [setPc, hsh]
  case a3 => simp [setPc, upd, e2]
  case a4 => simpa [setPc, upd] using fun e => absurd e hlag
  case a5 => simp [setPc, upd, e3, e4]
  case a6 => simp [setPc, upd, e2, e5]
  case a7 => cases c <;> simp_all [setPc, upd, isRemove, removeArg, callOk]
  case a8 => simpa [setPc, upd] using e9
  case a9 => simp [setPc, upd]
  case a10 => simpa [setPc, upd] using e10
  case a11 => simp [setPc, upd, e2, e5]
  case a12 =>
    simp only [setPc, upd, if_true, e6, e7, or_false]
    intro hpl hr; exact Or.inl (e11 hpl hr)
  case a13 =>
    simp only [setPc, upd, if_true, e6, e2, e5, or_false]
    intro hr hp; exact absurd hp (e12 hr)
  case a14 => simp [setPc, upd, e4]
  case hflag => exact Or.inl rfl

theorem inv_ret {cfg : Cfg} {s s' : St} {a : Actor} {r : Res} (h : Inv cfg s)
    (hs : stepRet cfg s a r = some s') : Inv cfg s' := by
  unfold stepRet at hs
  split at hs
  next hg =>
    simp only [Option.some.injEq] at hs; subst hs
    have hpc : s.pc a = .retp ∨ s.pc a = .wIdle := hg.1
    have hidle : s.pc a ≠ .idle := by cases hpc with
      | inl e => simp [e]
      | inr e => simp [e]
    have hlag : s.lagF ≠ some a := by
      intro e; have := h.lagPc a e
      cases hpc with
      | inl e' => simp [e'] at this
      | inr e' => simp [e'] at this
    apply inv_update h (a := a)
    case opc | ocur | ocnt | opu | ogot | orc | ose | osa => intro b hb; simp [setPc, upd, hb]
    case hown =>
      intro b hb e
      cases hsh : cfg.shared
      · have := h.privOwner hsh a hidle; rw [this] at e; exact absurd (Option.some.inj e).symm hb
      · simpa [setPc, hsh] using e
    case hq => exact Or.inl rfl
    case hlag => exact Or.inl rfl
    case g1 => intro hsh; simpa [setPc, hsh] using h.lockOwner hsh
    case g2 => exact h.flagQ
    case g3 => exact h.lagQ
    case g4 => exact h.lin
    case g5 => exact h.inQ
    case a7 => exact h.rmNZ a
    case a4 => simpa [setPc, upd] using fun e => absurd e hlag
    case hflag => exact Or.inl rfl
    all_goals simp [setPc, upd, InCS, Wanting, Typed, PushPc, PopPc, RmPc]
  · simp at hs

end ArgoVerif.Model.PoolConc
