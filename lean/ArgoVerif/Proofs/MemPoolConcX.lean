import ArgoVerif.Proofs.MemPoolConcS
/-
Proofs.MemPoolConcX — the executable step of Model.MemPoolConc is sound for the relational one; the
combined invariant along runs of the machine.
-/
namespace ArgoVerif.Model.MemPoolConc
open ArgoVerif

theorem getLast_split {α : Type} (l : List α) (b : α) (h : l.getLast? = some b) : l = l.dropLast ++ [b] := by
  obtain ⟨ys, rfl⟩ := List.getLast?_eq_some_iff.mp h
  simp

theorem all_of_known {s : St} (h : DInv s) (h1 : s.known.all (fun a => decide (s.pc a = .idle)) = true)
    (h2 : s.known.all (fun a => decide (s.loc a = none)) = true) : (∀ a, s.pc a = .idle) ∧ (∀ a, s.loc a = none) := by
  simp only [List.all_eq_true, decide_eq_true_eq] at h1 h2
  constructor <;> intro a <;> by_cases hk : a ∈ s.known
  · exact h1 a hk
  · exact (h.known a hk).1
  · exact h2 a hk
  · exact (h.known a hk).2

theorem exec_sound (P : Params) (s : St) (e : Ev) (s' : St) (hd : DInv s) (h : exec P s e = some s') : Step P s e s' := by
  cases e with
  | callInit a =>
    simp only [exec] at h
    split at h
    · next hc => cases h; exact Step.callInit hc.1 hc.2.1 hc.2.2
    · cases h
  | retInit a ok =>
    simp only [exec] at h
    split at h
    · next b hpc =>
      split at h
      · next hl => cases h; exact Step.retInitOk hpc hl
      · cases h
    · next hpc => cases h; exact Step.retInitFail hpc
    · cases h
  | callAlloc a =>
    simp only [exec] at h
    split at h
    · next hc =>
      split at h
      · next f x x2 c hl => cases h; exact Step.callAllocPop hc.1 hc.2 hl
      · next f x hl =>
        split at h
        · next b hb =>
          cases h
          have := getLast_split f b hb
          exact Step.callAllocPrev hc.1 hc.2 (by rw [hl]; congr 2)
        · next hb =>
          cases h
          have : f = [] := by simpa using hb
          subst this
          exact Step.callAllocTake hc.1 hc.2 hl
      · cases h
    · cases h
  | retAlloc a r =>
    simp only [exec] at h
    split at h
    · next b hpc =>
      split at h
      · next x hl =>
        split at h
        · next hr => cases h; subst hr; exact Step.retAllocTake hpc hl
        · cases h
      · cases h
    · next hpc =>
      split at h
      · next hr => cases h; subst hr; exact Step.retAllocFail hpc
      · cases h
    · next x hpc =>
      split at h
      · next hr => cases h; subst hr; exact Step.retAllocDone hpc
      · cases h
    · cases h
  | popBucket a r =>
    simp only [exec] at h
    split at h
    · next pu hpc =>
      split at h
      · next b rest hl =>
        split at h
        · next hr => cases h; subst hr; exact Step.popBucketSome hpc hl
        · cases h
      · next hl =>
        split at h
        · next hr => cases h; subst hr; exact Step.popBucketNone hpc hl
        · cases h
    · cases h
  | popPage a r =>
    simp only [exec] at h
    split at h
    · next pu acc hpc =>
      split at h
      · next p rest hl =>
        split at h
        · next hr => cases h; subst hr; exact Step.popPageSome hpc hl
        · cases h
      · next hl =>
        split at h
        · next hr => cases h; subst hr; exact Step.popPageNone hpc hl
        · cases h
    · cases h
  | allocPage a ok =>
    simp only [exec] at h
    split at h
    · next pu acc hpc =>
      split at h
      · next hok => cases h; subst hok; exact Step.allocOk hpc
      · next hok =>
        have : ok = false := by simpa using hok
        subst this
        split at h
        · cases h; exact Step.allocFailEmpty hpc
        · next x acc' => cases h; exact Step.allocFailPart hpc
    · cases h
  | pushPage a p =>
    simp only [exec] at h
    split at h
    · next pu acc p' hpc =>
      split at h
      · next hc => cases h; obtain ⟨rfl, h2, h3⟩ := hc; exact Step.carveLifo hpc h2 h3
      · cases h
    · cases h
  | pushEmpty a p =>
    simp only [exec] at h
    split at h
    · next pu acc p' hpc =>
      split at h
      · next hc => cases h; obtain ⟨rfl, h2, h3⟩ := hc; exact Step.carveEmpty hpc h2 h3
      · cases h
    · cases h
  | lockPart a =>
    simp only [exec] at h
    split at h
    · next k b hpc =>
      split at h
      · next hl =>
        split at h
        · next hp => cases h; exact Step.lockPartEmpty hpc hl hp
        · next hp =>
          split at h
          · next hlt => cases h; exact Step.lockPartSmall hpc hl hp hlt
          · next hlt => cases h; exact Step.lockPartFull hpc hl hp hlt
      · cases h
    · cases h
  | unlockPart a =>
    simp only [exec] at h
    split at h
    · next k hpc => cases h; exact Step.unlockPart hpc
    · cases h
  | pushBucket a hd =>
    simp only [exec] at h
    split at h
    · next k b hpc =>
      split at h
      · next hr => cases h; subst hr; exact Step.pushBucketPart hpc
      · cases h
    · next b hpc =>
      split at h
      · next hr => cases h; subst hr; exact Step.pushBucketFree hpc
      · cases h
    · next b f c hpc =>
      split at h
      · next hr => cases h; subst hr; exact Step.pushBucketDestroy hpc
      · cases h
    · next c hpc =>
      split at h
      · next hr => cases h; subst hr; exact Step.pushBucketLast hpc
      · cases h
    · cases h
  | callFree a x =>
    simp only [exec] at h
    split at h
    · next hc =>
      split at h
      · next f c hl =>
        split at h
        · next hn => cases h; exact Step.callFreePush hc.1 hc.2.1 hc.2.2 hl hn
        · next hn =>
          have hn' : c.length = P.perBucket := by simpa using hn
          split at h
          · next hm => cases h; exact Step.callFreeNew hc.1 hc.2.1 hc.2.2 hl hn' hm
          · next hm =>
            have hm' : f.length + 1 = P.maxLocal := by simpa using hm
            split at h
            · next b0 rest hb => cases h; exact Step.callFreeRet hc.1 hc.2.1 hc.2.2 hl hn' hm' hb
            · cases h
      · cases h
    · cases h
  | retFree a =>
    simp only [exec] at h
    split at h
    · next hpc => cases h; exact Step.retFree hpc
    · cases h
  | callDestroy a =>
    simp only [exec] at h
    split at h
    · next hc =>
      split at h
      · next f c hl => cases h; exact Step.callDestroy hc.1 hc.2 hl
      · cases h
    · cases h
  | retDestroy a =>
    simp only [exec] at h
    split at h
    · next hpc => cases h; exact Step.retDestroy hpc
    · cases h
  | destroyStart =>
    simp only [exec] at h
    split at h
    · next hc =>
      cases h
      obtain ⟨k1, k2⟩ := all_of_known hd hc.2.1 hc.2.2
      exact Step.destroyStart hc.1 k1 k2
    · cases h
  | relLifo p =>
    simp only [exec] at h
    split at h
    · next p' rest hph hl =>
      split at h
      · next hr => cases h; subst hr; exact Step.relLifo hph hl
      · cases h
    · cases h
  | lifoEmpty =>
    simp only [exec] at h
    split at h
    · next hph hl => cases h; exact Step.lifoEmpty hph hl
    · cases h
  | relEmpty p =>
    simp only [exec] at h
    split at h
    · next p' rest hph hl =>
      split at h
      · next hr => cases h; subst hr; exact Step.relEmpty hph hl
      · cases h
    · cases h
  | destroyEnd =>
    simp only [exec] at h
    split at h
    · next hph hl => cases h; exact Step.destroyEnd hph hl
    · cases h

theorem star_append {σ ε : Type} {St : σ → ε → σ → Prop} {s s1 s2 : σ} {t1 t2 : List ε}
    (h1 : Star St s t1 s1) (h2 : Star St s1 t2 s2) : Star St s (t1 ++ t2) s2 := by
  induction h1 with
  | refl => exact h2
  | cons hs _ ih => exact Star.cons hs (ih h2)

/-- all invariants together -/
structure Inv (P : Params) (s : St) : Prop where
  h : HInv s
  p : PInv P s
  d : DInv s
  z : SInv P s

theorem heldPage_lt {P : Params} {s : St} (hp : PInv P s) : ∀ a p, heldPage (s.pc a) = some p → p < s.npages := by
  intro a p hh
  have h1 := (hp.held a p).mp hh
  have h2 := hp.unalloc p
  rw [h1] at h2
  simp only [reduceCtorEq, false_iff, Nat.not_le] at h2
  exact h2

theorem inv_init (P : Params) (hP : P.OK) : Inv P init := ⟨hinv_init, pinv_init P, dinv_init, sinv_init P hP⟩

theorem inv_step (P : Params) (hP : P.OK) (s : St) (e : Ev) (s' : St) (h : Inv P s) (hs : Step P s e s') : Inv P s' :=
  ⟨hinv_step P s e s' h.h (heldPage_lt h.p) hs, pinv_step P hP s e s' h.p hs, dinv_step P s e s' h.d hs,
   sinv_step P hP s e s' h.z hs⟩

theorem inv_star (P : Params) (hP : P.OK) {s : St} {tr : List Ev} {s' : St} (h : Star (Step P) s tr s')
    (hi : Inv P s) : Inv P s' :=
  Star.invariant (Inv P) (inv_step P hP) h hi

/-- every trace the executable machine (the driver) accepts is a run of the relational system -/
theorem run_star (P : Params) (hP : P.OK) : ∀ (tr : List Ev) (s s' : St), Inv P s →
    (machine P).run s tr = some s' → Star (Step P) s tr s' := by
  intro tr
  induction tr with
  | nil => intro s s' _ h; simp [Machine.run] at h; subst h; exact Star.refl _
  | cons e es ih =>
    intro s s' hi h
    simp only [Machine.run] at h
    cases hst : (machine P).step s e with
    | none => simp [hst] at h
    | some s1 =>
      simp only [hst] at h
      have hs : Step P s e s1 := exec_sound P s e s1 hi.d hst
      exact Star.cons hs (ih s1 s' (inv_step P hP s e s1 hi hs) h)

/-- a header counts as carved once its page's `p_mem_extra` has moved past it -/
def Carved (s : St) (h : Hdr) : Prop := h.1 < s.npages ∧ h.2 < s.used h.1

theorem carved_mono (P : Params) {s : St} {e : Ev} {s' : St} (hp : PInv P s) (hs : Step P s e s') (h : Hdr)
    (hc : Carved s h) : Carved s' h := by
  have hl := heldPage_lt hp
  obtain ⟨h1, h2⟩ := hc
  cases hs
  all_goals first
    | exact ⟨h1, h2⟩
    | (simp only [Carved, upd_apply]; grind)

theorem carved_mono_star (P : Params) (hP : P.OK) {s : St} {tr : List Ev} {s' : St} (hs : Star (Step P) s tr s')
    (hi : Inv P s) (h : Hdr) (hc : Carved s h) : Carved s' h := by
  induction hs with
  | refl => exact hc
  | cons h1 _ ih => exact ih (inv_step P hP _ _ _ hi h1) (carved_mono P hi.p h1 h hc)

/-- where a carved header can be, read off the real state (no ghost field) -/
inductive CPlace
  | lifo                  -- in a bucket on `bucket_lifo`
  | part                  -- in `partial_bucket`
  | loc (a : Actor)       -- in the local pool of actor `a`
  | held (a : Actor)      -- in flight inside a call of actor `a` (bucket being taken, carved, returned)
  | out                   -- handed out (a live descriptor / stack)
deriving DecidableEq

def CAt (s : St) : CPlace → Hdr → Prop
  | .lifo, h => ∃ b, b ∈ s.bucketLifo ∧ h ∈ b
  | .part, h => h ∈ s.part
  | .loc a, h => ∃ l, s.loc a = some l ∧ ((∃ b, b ∈ l.full ∧ h ∈ b) ∨ h ∈ l.cur)
  | .held a, h => h ∈ heldHdrs (s.pc a)
  | .out, h => h ∈ s.out

/-- where a page can be -/
inductive GPlace
  | lifo | empty | held (a : Actor) | released
deriving DecidableEq

def PgAt (s : St) : GPlace → Nat → Prop
  | .lifo, p => p ∈ s.pageLifo
  | .empty, p => p ∈ s.emptyPages
  | .held a, p => heldPage (s.pc a) = some p
  | .released, p => p ∈ s.released

theorem cat_own {P : Params} {s : St} (hi : Inv P s) (w : CPlace) (h : Hdr) :
    CAt s w h ↔ s.own h = (match w with
      | .lifo => Place.lifo | .part => Place.part | .loc a => Place.loc a | .held a => Place.held a | .out => Place.out) := by
  cases w with
  | lifo => simp only [CAt, ← hi.h.lifo, List.mem_flatten]
  | part => simp only [CAt, ← hi.h.part]
  | loc a =>
    simp only [CAt, ← hi.h.loc]
    cases hl : s.loc a with
    | none => simp [locHdrs]
    | some l => simp [locHdrs, List.mem_flatten]
  | held a => simp only [CAt, ← hi.h.held]
  | out => simp only [CAt, ← hi.h.out]


end ArgoVerif.Model.MemPoolConc
