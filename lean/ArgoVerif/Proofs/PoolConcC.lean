import ArgoVerif.Proofs.PoolConcA
/- Proofs.PoolConcC — invariant preservation: the steps inside the critical section that touch the ring
(link, the two flag stores, is_in_pool stores, take, unlink). -/
namespace ArgoVerif.Model.PoolConc
open ArgoVerif ArgoVerif.Model.TQ
set_option maxHeartbeats 1000000

theorem inv_link {cfg : Cfg} {s s' : St} {a : Actor} {u : Nat} {hd : Bool} (h : Inv cfg s)
    (hs : stepLink s a u hd = some s') : Inv cfg s' := by
  unfold stepLink at hs
  split at hs
  next rest hpc htodo =>
    split at hs
    · simp at hs
    next hg =>
    simp only [Option.some.injEq] at hs; subst hs
    have hown : s.owner = some a := by simp_all
    have hu : u ≠ 0 ∧ u ∉ s.q := by simp_all
    have hty := h.typed a
    have hlag : s.lagF ≠ some a := by
      intro e; have := h.lagPc a e; simp [hpc] at this
    have hflag : s.q ≠ [] → s.flag = false := by
      intro hq; cases hf : s.flag
      · rfl
      · exact absurd (h.flagQ hf) hq
    apply inv_update h (a := a)
    case opc | ocur | ocnt | opu | ogot | orc | ose | osa => intro b hb; simp [setPc, upd, hb]
    case hown => intro b hb e; simpa [setPc] using e
    case hq => exact Or.inl rfl
    case hlag => exact Or.inl rfl
    case hflag => exact Or.inl rfl
    case g1 => simpa [setPc] using h.lockOwner
    case g2 => exact h.flagQ
    case g3 => exact h.lagQ
    case g4 => exact h.lin
    case g5 => exact h.inQ
    case a1 => intro _; simpa [setPc] using hown
    case a2 => intro hsh _; simpa [setPc] using hown
    case a3 => by_cases hq : s.q = [] <;> simp [setPc, upd, hq]
    case a4 => simpa [setPc, upd] using fun e => absurd e hlag
    case a5 => intro _; simpa [setPc, upd] using hu
    case a6 => by_cases hq : s.q = [] <;> simp [setPc, upd, hq]
    case a7 => exact h.rmNZ a
    case a8 =>
      have := hty.1 (by simp [hpc, PushPc])
      by_cases hq : s.q = [] <;> simp [setPc, upd, hq, Typed, PushPc, PopPc, RmPc, this]
    case a9 => intro hpl _; exact h.cntGot a hpl (by simp [hpc])
    case a10 => by_cases hq : s.q = [] <;> simp [setPc, upd, hq, Wanting]
    case a11 => by_cases hq : s.q = [] <;> simp [setPc, upd, hq]
    case a12 => by_cases hq : s.q = [] <;> simp [setPc, upd, hq]
    case a13 => by_cases hq : s.q = [] <;> simp [setPc, upd, hq]
    case a14 =>
      by_cases hq : s.q = []
      · simp [setPc, upd, hq]
      · simpa [setPc, upd, hq] using hflag hq
  · simp at hs

theorem inv_storeEmpty {cfg : Cfg} {s s' : St} {a : Actor} {v : Bool} (h : Inv cfg s)
    (hs : stepStoreEmpty s a v = some s') : Inv cfg s' := by
  unfold stepStoreEmpty at hs
  split at hs
  · simp at hs
  next hown' =>
  have hown : s.owner = some a := by simp_all
  have hidle : s.pc a ≠ .idle := by intro e; have := h.csOwner a; simp_all [InCS]
  split at hs <;> (try (simp at hs; done))
  next hpc =>
    -- push to the empty queue publishes `is_empty = 0`
    split at hs
    · simp at hs
    simp only [Option.some.injEq] at hs; subst hs
    have hty := h.typed a
    apply inv_update h (a := a)
    case opc | ocur | ocnt | opu | ogot | orc | ose | osa => intro b hb; simp [setPc, upd, hb]
    case hown => intro b hb e; simpa [setPc] using e
    case hq => exact Or.inl rfl
    case hlag => exact Or.inr ⟨hown, Or.inr rfl⟩
    case hflag => exact Or.inr hown
    case g1 => simpa [setPc] using h.lockOwner
    case g2 => simp [setPc]
    case g3 => simp [setPc]
    case g4 => exact h.lin
    case g5 => exact h.inQ
    case a1 => intro _; simpa [setPc] using hown
    case a2 => intro hsh _; simpa [setPc] using hown
    case a5 => intro _; simpa [setPc, upd] using h.pend a (Or.inl hpc)
    case a7 => exact h.rmNZ a
    case a8 =>
      have := hty.1 (by simp [hpc, PushPc])
      simp [setPc, upd, Typed, PushPc, PopPc, RmPc, this]
    case a9 => intro hpl _; exact h.cntGot a hpl hidle
    all_goals simp [setPc, upd, Wanting]
  next hpc =>
    -- the last unit left: publish `is_empty = 1`
    split at hs
    next hv =>
      simp only [Option.some.injEq] at hs; subst hs
      apply inv_update h (a := a)
      case opc | ocur | ocnt | opu | ogot | orc | ose | osa => intro b hb; simp [setPc, upd, hb]
      case hown => intro b hb e; simpa [setPc] using e
      case hq => exact Or.inl rfl
      case hlag => exact Or.inr ⟨hown, Or.inl rfl⟩
      case hflag => exact Or.inr hown
      case g1 => simpa [setPc] using h.lockOwner
      case g2 => intro _; exact h.pubEQ a hpc
      case g3 => simp [setPc]
      case g4 => exact h.lin
      case g5 => exact h.inQ
      case a1 => intro _; simpa [setPc] using hown
      case a2 => intro hsh _; simpa [setPc] using hown
      case a6 => intro _; simpa [setPc, upd] using h.outQ a (Or.inl hpc)
      case a7 => exact h.rmNZ a
      case a9 => intro hpl _; exact h.cntGot a hpl hidle
      case a11 => intro hpl _; simpa [setPc] using h.gotNE a hpl (Or.inl hpc)
      case a13 => intro hr _; simpa [setPc] using h.rmSeen a hr (by simp [hpc])
      all_goals simp [setPc, upd, Wanting, Typed, PushPc, PopPc, RmPc]
    · simp at hs

end ArgoVerif.Model.PoolConc
