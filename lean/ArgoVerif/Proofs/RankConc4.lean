import ArgoVerif.Proofs.RankConc3
/-
Proofs.RankConc4 — what the scan under the lock means in terms of the ranks of live streams, and
that an actor inside the critical section can always take its next step (no `ABTI_ASSERT` of the
list functions fails, no walk exceeds the list).
-/
namespace ArgoVerif.Model.RankConc
open ArgoVerif ArgoVerif.Model.Rank

theorem privInit_R {g : G} {p : Ptr} (hw : WF g) (hpx : p ∉ live g) : R (privInit g p) (live g) := by
  have hR : R g (live g) := hw
  exact hR.reset hpx

theorem findLoop_privInit (g : G) (p : Ptr) (r : Int) (hw : WF g) (hpx : p ∉ live g) :
    findLoop (privInit g p) r (fuel (privInit g p)) (privInit g p).head = some (decide (r ∈ ranks g)) := by
  have hR := privInit_R hw hpx
  have := findLoop_spec (privInit g p) r (live g) (privInit g p).head (fuel (privInit g p)) hR.dl.fwd hR.sorted
    (by unfold fuel; rw [hR.num]; simp)
  exact this

theorem findLoop_wf (g : G) (r : Int) (hw : WF g) :
    findLoop g r (fuel g) g.head = some (decide (r ∈ ranks g)) := by
  have hR : R g (live g) := hw
  exact findLoop_spec g r (live g) g.head (fuel g) hR.dl.fwd hR.sorted (by unfold fuel; rw [hR.num]; simp)

theorem mexLoop_privInit (g : G) (p : Ptr) (hw : WF g) (hpx : p ∉ live g) :
    ∃ r, mexLoop (privInit g p) (fuel (privInit g p)) 0 (privInit g p).head = some r ∧
      0 ≤ r ∧ r ∉ ranks g ∧ ∀ k, 0 ≤ k → k < r → k ∈ ranks g := by
  have hR := privInit_R hw hpx
  have hm := mexLoop_spec (privInit g p) (live g) (privInit g p).head (fuel (privInit g p)) 0 hR.dl.fwd
    (by unfold fuel; rw [hR.num]; simp)
  have hsp := mexFrom_spec ((live g).map (privInit g p).rank) 0 hR.ranks_pairwise hR.ranks_nonneg
  exact ⟨_, hm, hsp.1, hsp.2.1, hsp.2.2⟩

/-- a successful scan for an explicit rank: no live stream holds it -/
theorem chk_createw {g : G} {p : Ptr} {r loc : Int} (hw : WF g) (hpx : p ∉ live g)
    (hc : ChkFact g (.createWithRank p r) loc) : r ∉ ranks g ∧ loc = r := by
  simp only [ChkFact] at hc
  refine ⟨?_, hc.2⟩
  have := findLoop_privInit g p r hw hpx
  rw [hc.1] at this
  simpa using this

/-- the scan for `rank == -1`: the least non-negative rank no live stream holds -/
theorem chk_create {g : G} {p : Ptr} {loc : Int} (hw : WF g) (hpx : p ∉ live g)
    (hc : ChkFact g (.create p) loc) :
    0 ≤ loc ∧ loc ∉ ranks g ∧ ∀ k, 0 ≤ k → k < loc → k ∈ ranks g := by
  simp only [ChkFact] at hc
  obtain ⟨r, hm, h0, hnin, hall⟩ := mexLoop_privInit g p hw hpx
  rw [hc] at hm
  simp only [Option.some.injEq] at hm
  subst hm
  exact ⟨h0, hnin, hall⟩

theorem chk_setrank {g : G} {p : Ptr} {r loc : Int} (hw : WF g) (hc : ChkFact g (.setRank p r) loc) :
    r ∉ ranks g := by
  simp only [ChkFact] at hc
  have := findLoop_wf g r hw
  rw [hc] at this
  simpa using this

theorem pre_create {g : G} {p : Ptr} (h : Pre g (.create p) = true) : p ≠ 0 ∧ p ∉ live g := by
  simpa [Pre] using h

theorem pre_createw {g : G} {p : Ptr} {r : Int} (h : Pre g (.createWithRank p r) = true) : p ≠ 0 ∧ p ∉ live g := by
  simpa [Pre] using h

/-! ### progress inside the critical section -/

theorem insert_enabled_create (g : G) (p : Ptr) (loc : Int) (hw : WF g) (hp : Pre g (.create p) = true)
    (hc : ChkFact g (.create p) loc) : ∃ g', insertAt g p loc = some g' := by
  obtain ⟨hp0, hpx⟩ := pre_create hp
  obtain ⟨s', r, he, -⟩ := create_spec g p hw hp0 hpx
  cases hi : insertAt g p loc with
  | some g' => exact ⟨g', rfl⟩
  | none =>
    exfalso
    simp only [ChkFact] at hc
    have hh : (privInit g p).head = g.head := rfl
    rw [hh] at hc
    unfold insertAt at hi
    unfold apiStep xstreamCreate setNewRank at he
    simp only [if_true] at he
    have e : ({ ({ g with prev := upd g.prev p 0 } : G) with
        next := upd ({ g with prev := upd g.prev p 0 } : G).next p 0 } : G) = privInit g p := rfl
    rw [e, hc] at he
    simp only at he
    cases hg : grant (privInit g p) p loc with
    | none => simp [hg] at he
    | some x => obtain ⟨g2, b⟩ := x; simp [hg] at hi

theorem insert_enabled_createw (g : G) (p : Ptr) (r loc : Int) (hw : WF g)
    (hp : Pre g (.createWithRank p r) = true) (hr : ¬ r < 0)
    (hc : ChkFact g (.createWithRank p r) loc) : ∃ g', insertAt g p loc = some g' := by
  obtain ⟨hp0, hpx⟩ := pre_createw hp
  obtain ⟨hnin, hl⟩ := chk_createw hw hpx hc
  obtain ⟨s', he, -⟩ := (createw_spec g p r hw hp0 hpx (by omega)).2 hnin
  cases hi : insertAt g p loc with
  | some g' => exact ⟨g', rfl⟩
  | none =>
    exfalso
    simp only [ChkFact] at hc
    have hh : (privInit g p).head = g.head := rfl
    rw [hh] at hc
    rw [hl] at hi
    unfold insertAt at hi
    have hr1 : r ≠ -1 := by omega
    unfold apiStep xstreamCreate setNewRank at he
    simp only [hr, hr1, if_false] at he
    have e : ({ ({ g with prev := upd g.prev p 0 } : G) with
        next := upd ({ g with prev := upd g.prev p 0 } : G).next p 0 } : G) = privInit g p := rfl
    rw [e, hc.1] at he
    simp only at he
    cases hg : grant (privInit g p) p r with
    | none => simp [hg] at he
    | some x => obtain ⟨g2, b⟩ := x; simp [hg] at hi

theorem move_enabled (g : G) (p : Ptr) (r loc : Int) (hw : WF g) (hp : Pre g (.setRank p r) = true)
    (hlf : lockFree g (.setRank p r) = false) (hc : ChkFact g (.setRank p r) loc) :
    ∃ g', moveTo g p r = some g' := by
  have hnin := chk_setrank hw hc
  simp only [lockFree, Bool.or_eq_false_iff, decide_eq_false_iff_not] at hlf
  obtain ⟨⟨⟨h1, h2⟩, h3⟩, h4⟩ := hlf
  have hpl : p ∈ live g := by
    simp only [Pre, Bool.or_eq_true, decide_eq_true_eq, List.contains_eq_mem] at hp
    rcases hp with h | h
    · exact absurd h h1
    · simpa using h
  obtain ⟨s', he, -⟩ := (setrank_spec g p r hw hpl h2 (by omega)).2.2 h4 hnin
  cases hi : moveTo g p r with
  | some g' => exact ⟨g', rfl⟩
  | none =>
    exfalso
    simp only [ChkFact] at hc
    unfold moveTo at hi
    unfold apiStep changeRank at he
    simp only [h1, h2, h3, h4, if_false] at he
    rw [hc] at he
    simp only at he
    cases hrm : removeList g p with
    | none => simp [hrm] at he
    | some s1 =>
      simp only [hrm] at hi he
      simp [hi] at he

theorem remove_enabled (g : G) (p : Ptr) (hw : WF g) (hp : Pre g (.free p) = true)
    (hlf : lockFree g (.free p) = false) :
    ∃ g', returnRank { g with term := upd g.term p true } p = some g' := by
  simp only [lockFree, Bool.or_eq_false_iff, decide_eq_false_iff_not] at hlf
  have hpl : p ∈ live g := by
    simp only [Pre, Bool.or_eq_true, decide_eq_true_eq, List.contains_eq_mem] at hp
    rcases hp with h | h
    · exact absurd h hlf.1
    · simpa using h
  obtain ⟨s', he, -⟩ := free_spec g p hw hpl hlf.2
  unfold apiStep at he
  simp only [hlf.1, hlf.2, if_false] at he
  cases hi : returnRank { g with term := upd g.term p true } p with
  | some g' => exact ⟨g', rfl⟩
  | none => simp [hi] at he

end ArgoVerif.Model.RankConc
