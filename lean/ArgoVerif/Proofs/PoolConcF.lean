import ArgoVerif.Proofs.PoolConcB
import ArgoVerif.Proofs.PoolConcB2
import ArgoVerif.Proofs.PoolConcC
import ArgoVerif.Proofs.PoolConcE
/- Proofs.PoolConcF — the invariant holds in every reachable state; consequences used by Props.C07. -/
namespace ArgoVerif.Model.PoolConc
open ArgoVerif ArgoVerif.Model.TQ
set_option maxHeartbeats 1000000

theorem inv_step {cfg : Cfg} {s s' : St} {e : Ev} (h : Inv cfg s) (hs : step cfg s e = some s') : Inv cfg s' := by
  cases e with
  | call a c => exact inv_call h hs
  | ret a r => exact inv_ret h hs
  | cbPushMany a n => exact inv_cbPushMany h hs
  | tas a old => exact inv_tas h hs
  | loadLock a v => exact inv_loadLock h hs
  | loadEmpty a v => exact inv_loadEmpty h hs
  | loadIn a u v => exact inv_loadIn h hs
  | clear a => exact inv_clear h hs
  | mlock a => exact inv_mlock h hs
  | munlock a => exact inv_munlock h hs
  | link a u hd => exact inv_link h hs
  | take a r hd => exact inv_take h hs
  | unlink a u => exact inv_unlink h hs
  | rmFail a => exact inv_rmFail h hs
  | storeEmpty a v => exact inv_storeEmpty h hs
  | storeIn a u v => exact inv_storeIn h hs
  | signal a => exact inv_signal h hs
  | condWait a => exact inv_condWait h hs
  | wake a => exact inv_wake h hs

theorem inv_run {cfg : Cfg} {tr : List Ev} {s : St} (h : (machine cfg).run init tr = some s) : Inv cfg s :=
  Machine.invariant_run (machine cfg) (Inv cfg) (fun _ _ _ hi hs => inv_step hi hs) tr init s (inv_init cfg) h

theorem inv_reachable {cfg : Cfg} {s : St} (h : (machine cfg).Reachable s) : Inv cfg s := by
  obtain ⟨tr, hr⟩ := h
  exact inv_run hr

/-- a run ending with event `e`: the state before it -/
theorem run_snoc {cfg : Cfg} {tr : List Ev} {e : Ev} {s : St} (h : (machine cfg).run init (tr ++ [e]) = some s) :
    ∃ s0, (machine cfg).run init tr = some s0 ∧ step cfg s0 e = some s := by
  rw [Machine.run_append] at h
  cases h0 : (machine cfg).run init tr with
  | none => simp [h0] at h
  | some s0 =>
    refine ⟨s0, rfl, ?_⟩
    simp only [h0, Option.bind_some, Machine.run] at h
    cases h1 : (machine cfg).step s0 e with
    | none => simp [h1] at h
    | some s1 => simp only [h1, Option.some.injEq] at h; subst h; exact h1

end ArgoVerif.Model.PoolConc
