import ArgoVerif.Model.SyncLifo
/-
Proofs.SyncLifo — `ABTI_sync_lifo` (tagged-pointer branch): shape invariant, ABA freedom,
linearizability.  All theorems are for every interleaving of any number of threads
(induction over `Star Step init tr s` through the inductive invariant `Inv`).
-/
namespace ArgoVerif.Model.SyncLifo
open ArgoVerif

/-! ### chains -/

@[simp] theorem seg_nil {next : Elem → Option Elem} {a b : Option Elem} : Seg next a [] b ↔ a = b := Iff.rfl

@[simp] theorem seg_cons {next : Elem → Option Elem} {a b : Option Elem} {x : Elem} {xs : List Elem} :
    Seg next a (x :: xs) b ↔ a = some x ∧ Seg next (next x) xs b := Iff.rfl

/-- two heaps that agree on the nodes of `xs` have the same chains over `xs` -/
theorem seg_congr {next next' : Elem → Option Elem} {a b : Option Elem} {xs : List Elem}
    (hag : ∀ x ∈ xs, next' x = next x) : Seg next' a xs b ↔ Seg next a xs b := by
  induction xs generalizing a with
  | nil => simp
  | cons y ys ih =>
    have hy : next' y = next y := hag y (by simp)
    have ih' := @ih (next y) (fun x hx => hag x (by simp [hx]))
    simp only [seg_cons, hy, ih']

/-- **frame**: a write to `e->p_next` for an element outside the chain does not change the chain -/
theorem seg_frame {next : Elem → Option Elem} {a b v : Option Elem} {e : Elem} {xs : List Elem}
    (h : e ∉ xs) : Seg (upd next e v) a xs b ↔ Seg next a xs b := by
  apply seg_congr
  intro x hx
  have : x ≠ e := fun h' => h (h' ▸ hx)
  simp [upd, this]

/-- a NULL-terminated chain that starts at a non-NULL `c` has `c` as first node -/
theorem seg_top_some {next : Elem → Option Elem} {c : Elem} {xs : List Elem}
    (h : Seg next (some c) xs none) : ∃ rest, xs = c :: rest ∧ Seg next (next c) rest none := by
  cases xs with
  | nil => simp at h
  | cons x rest =>
    obtain ⟨h1, h2⟩ := h
    cases h1
    exact ⟨rest, rfl, h2⟩

/-- a NULL-terminated chain that starts at NULL is empty -/
theorem seg_top_none {next : Elem → Option Elem} {xs : List Elem}
    (h : Seg next none xs none) : xs = [] := by
  cases xs with
  | nil => rfl
  | cons x rest => simp at h

/-- the heap determines the NULL-terminated chain from a given start -/
theorem seg_unique {next : Elem → Option Elem} {a : Option Elem} {xs ys : List Elem}
    (hx : Seg next a xs none) (hy : Seg next a ys none) : xs = ys := by
  induction xs generalizing a ys with
  | nil =>
    cases hx
    exact (seg_top_none hy).symm
  | cons x r ih =>
    obtain ⟨rfl, hr⟩ := hx
    obtain ⟨r', rfl, hr'⟩ := seg_top_some hy
    rw [ih hr hr']

/-- the executable traversal recovers the chain (given enough fuel) -/
theorem seg_chain {next : Elem → Option Elem} {a : Option Elem} {xs : List Elem} {n : Nat}
    (h : Seg next a xs none) (hn : xs.length ≤ n) : chain next a n = xs := by
  induction xs generalizing a n with
  | nil => cases h; cases n <;> rfl
  | cons x r ih =>
    obtain ⟨rfl, hr⟩ := h
    cases n with
    | zero => simp at hn
    | succ n =>
      simp only [chain]
      rw [ih hr (by simpa using hn)]

/-! ### specification runs -/

theorem Spec.run_append (stk : List Elem) (a b : List LinOp) :
    Spec.run stk (a ++ b) = (Spec.run stk a).bind (fun m => Spec.run m b) := by
  induction a generalizing stk with
  | nil => simp [Spec.run]
  | cons op ops ih =>
    simp only [List.cons_append, Spec.run]
    cases Spec.apply stk op with
    | none => simp
    | some m => simpa using ih m

theorem Spec.run_snoc {stk0 stk : List Elem} {l : List LinOp} (op : LinOp)
    (h : Spec.run stk0 l = some stk) : Spec.run stk0 (l ++ [op]) = Spec.apply stk op := by
  rw [Spec.run_append, h]
  simp only [Option.bind_some, Spec.run]
  cases Spec.apply stk op <;> simp

/-! ### the inductive invariant -/

/-- everything that holds in every reachable state of the lifo -/
structure Inv (s : St) : Prop where
  /-- the real linked chain from `p_top` is exactly the ghost stack and ends in NULL -/
  seg : Seg s.next s.top s.stk none
  /-- no element is linked twice -/
  nodup : s.stk.Nodup
  /-- elements in the lifo are owned by nobody -/
  stkFree : ∀ e, e ∈ s.stk → s.owner e = none
  /-- a thread in the middle of `push(e)` owns `e` -/
  pushOwn : ∀ t e, (s.pc t).pushing = some e → s.owner e = some t
  /-- at its CAS the pusher's `e->p_next` still holds what it stored -/
  storedNext : ∀ t e ct cg, s.pc t = .pushStored e ct cg → s.next e = ct
  /-- a loaded tag is never ahead of the current tag -/
  tagLe : ∀ t g, (s.pc t).loadedTag = some g → g ≤ s.tag
  /-- tag unchanged since the load ⇒ top unchanged (push, before the store) -/
  pushLoadedCur : ∀ t e ct cg, s.pc t = .pushLoaded e ct cg → cg = s.tag → s.top = ct
  /-- tag unchanged since the load ⇒ top unchanged (push, at the CAS) -/
  pushStoredCur : ∀ t e ct cg, s.pc t = .pushStored e ct cg → cg = s.tag → s.top = ct
  /-- tag unchanged since the load ⇒ top unchanged (pop, before reading `p_next`) -/
  popLoadedCur : ∀ t c cg, s.pc t = .popLoaded c cg → cg = s.tag → s.top = some c
  /-- tag unchanged since the load ⇒ top unchanged and the `p_next` that was read is current -/
  popReadCur : ∀ t c cg n, s.pc t = .popRead c cg n → cg = s.tag → s.top = some c ∧ s.next c = n
  /-- the linearization log is a legal sequential LIFO history that ends in the ghost stack -/
  logOk : Spec.run [] s.log = some s.stk

theorem inv_init : Inv init := by
  constructor <;> simp [init, Pc.pushing, Pc.loadedTag, Spec.run]

theorem step_seg {s s' : St} {e : Ev} (h : Inv s) (hs : Step s e s') : Seg s'.next s'.top s'.stk none := by
  have hseg := h.seg
  cases hs with
  | scribble t e v hpc how =>
    have : e ∉ s.stk := fun hm => by have := h.stkFree e hm; simp [this] at how
    exact (seg_frame this).mpr hseg
  | pushStoreNext t e ct cg hpc =>
    have how := h.pushOwn t e (by simp [hpc, Pc.pushing])
    have : e ∉ s.stk := fun hm => by have := h.stkFree e hm; simp [this] at how
    exact (seg_frame this).mpr hseg
  | pushCasOk t e ct cg hpc htop htag =>
    have hn := h.storedNext t e ct cg hpc
    simp only [seg_cons, true_and]
    rw [hn, ← htop]; exact hseg
  | popCasOk t c cg n hpc htop htag =>
    have hcur := h.popReadCur t c cg n hpc htag.symm
    rw [htop] at hseg
    obtain ⟨rest, hr, hseg'⟩ := seg_top_some hseg
    simp only [hr, List.tail_cons]
    rw [← hcur.2]; exact hseg'
  | pushUnsafe t e hpc how =>
    have : e ∉ s.stk := fun hm => by have := h.stkFree e hm; simp [this] at how
    simp only [seg_cons, true_and, upd_same]
    exact (seg_frame this).mpr hseg
  | popUnsafeOk t c hpc htop =>
    rw [htop] at hseg
    obtain ⟨rest, hr, hseg'⟩ := seg_top_some hseg
    simp only [hr, List.tail_cons]
    exact hseg'
  | _ => exact hseg

/-- shape of the ghost stack when `p_top` is non-NULL -/
theorem Inv.top_some {s : St} (h : Inv s) {c : Elem} (ht : s.top = some c) :
    ∃ rest, s.stk = c :: rest ∧ c ∉ rest ∧ rest.Nodup ∧ Seg s.next (s.next c) rest none := by
  have hseg := h.seg
  rw [ht] at hseg
  obtain ⟨rest, hr, hs⟩ := seg_top_some hseg
  have hn := h.nodup
  rw [hr] at hn
  exact ⟨rest, hr, (List.nodup_cons.mp hn).1, (List.nodup_cons.mp hn).2, hs⟩

/-- `p_top` is NULL iff the ghost stack is empty -/
theorem Inv.top_none {s : St} (h : Inv s) (ht : s.top = none) : s.stk = [] := by
  have hseg := h.seg
  rw [ht] at hseg
  exact seg_top_none hseg

/-- the element `p_top` points to is in the ghost stack -/
theorem Inv.top_mem {s : St} (h : Inv s) : ∀ c, s.top = some c → c ∈ s.stk := by
  intro c ht
  obtain ⟨rest, hr, -⟩ := h.top_some ht
  simp [hr]

theorem step_log {s s' : St} {e : Ev} (h : Inv s) (hs : Step s e s') : Spec.run [] s'.log = some s'.stk := by
  have hl := h.logOk
  cases hs with
  | pushCasOk t e ct cg hpc htop htag => simp [Spec.run_snoc _ hl, Spec.apply, Spec.push]
  | pushUnsafe t e hpc how => simp [Spec.run_snoc _ hl, Spec.apply, Spec.push]
  | popLoadNull t hpc htop => simp [Spec.run_snoc _ hl, Spec.apply, Spec.pop, h.top_none htop]
  | popUnsafeNull t hpc htop => simp [Spec.run_snoc _ hl, Spec.apply, Spec.pop, h.top_none htop]
  | popCasOk t c cg n hpc htop htag =>
    obtain ⟨rest, hr, -⟩ := h.top_some htop
    simp [Spec.run_snoc _ hl, Spec.apply, Spec.pop, hr]
  | popUnsafeOk t c hpc htop =>
    obtain ⟨rest, hr, -⟩ := h.top_some htop
    simp [Spec.run_snoc _ hl, Spec.apply, Spec.pop, hr]
  | _ => exact hl

/-- an owned element is not in the lifo -/
theorem Inv.owned_not_mem {s : St} (h : Inv s) {e : Elem} {t : Tid} (ho : s.owner e = some t) : e ∉ s.stk := by
  intro hm
  have := h.stkFree e hm
  simp [this] at ho

theorem Inv.ownLoaded {s : St} (h : Inv s) :
    ∀ t e ct cg, s.pc t = .pushLoaded e ct cg → s.owner e = some t :=
  fun t e ct cg hp => h.pushOwn t e (by simp [hp, Pc.pushing])

theorem Inv.ownStored {s : St} (h : Inv s) :
    ∀ t e ct cg, s.pc t = .pushStored e ct cg → s.owner e = some t :=
  fun t e ct cg hp => h.pushOwn t e (by simp [hp, Pc.pushing])

theorem step_nodup {s s' : St} {e : Ev} (h : Inv s) (hs : Step s e s') : s'.stk.Nodup := by
  have hn := h.nodup
  cases hs with
  | pushCasOk t e ct cg hpc htop htag =>
    have how := h.pushOwn t e (by simp [hpc, Pc.pushing])
    exact List.nodup_cons.mpr ⟨h.owned_not_mem how, hn⟩
  | pushUnsafe t e hpc how => exact List.nodup_cons.mpr ⟨h.owned_not_mem how, hn⟩
  | popCasOk t c cg n hpc htop htag =>
    obtain ⟨rest, hr, -, hnd, -⟩ := h.top_some htop
    simpa [hr] using hnd
  | popUnsafeOk t c hpc htop =>
    obtain ⟨rest, hr, -, hnd, -⟩ := h.top_some htop
    simpa [hr] using hnd
  | _ => exact hn

theorem step_stkFree {s s' : St} {e : Ev} (h : Inv s) (hs : Step s e s') :
    ∀ x, x ∈ s'.stk → s'.owner x = none := by
  have h3 := h.stkFree
  cases hs with
  | popCasOk t c cg n hpc htop htag =>
    obtain ⟨rest, hr, hc, -⟩ := h.top_some htop
    grind [upd]
  | popUnsafeOk t c hpc htop =>
    obtain ⟨rest, hr, hc, -⟩ := h.top_some htop
    grind [upd]
  | _ => grind [upd]

theorem step_pushOwn {s s' : St} {e : Ev} (h : Inv s) (hs : Step s e s') :
    ∀ t x, (s'.pc t).pushing = some x → s'.owner x = some t := by
  have h3 := h.stkFree; have h4 := h.pushOwn; have h11 := h.top_mem
  cases hs <;> grind [upd, Pc.pushing]

theorem step_storedNext {s s' : St} {e : Ev} (h : Inv s) (hs : Step s e s') :
    ∀ t x ct cg, s'.pc t = .pushStored x ct cg → s'.next x = ct := by
  have h4 := h.ownLoaded; have h4' := h.ownStored; have h5 := h.storedNext
  cases hs <;> grind [upd]

theorem step_tagLe {s s' : St} {e : Ev} (h : Inv s) (hs : Step s e s') :
    ∀ t g, (s'.pc t).loadedTag = some g → g ≤ s'.tag := by
  have h6 := h.tagLe
  cases hs <;> grind [upd, Pc.loadedTag]

theorem step_pushLoadedCur {s s' : St} {e : Ev} (h : Inv s) (hs : Step s e s') :
    ∀ t x ct cg, s'.pc t = .pushLoaded x ct cg → cg = s'.tag → s'.top = ct := by
  have h6 := h.tagLe; have h7 := h.pushLoadedCur
  cases hs <;> grind [upd, Pc.loadedTag]

theorem step_pushStoredCur {s s' : St} {e : Ev} (h : Inv s) (hs : Step s e s') :
    ∀ t x ct cg, s'.pc t = .pushStored x ct cg → cg = s'.tag → s'.top = ct := by
  have h6 := h.tagLe; have h7 := h.pushLoadedCur; have h8 := h.pushStoredCur
  cases hs <;> grind [upd, Pc.loadedTag]

theorem step_popLoadedCur {s s' : St} {e : Ev} (h : Inv s) (hs : Step s e s') :
    ∀ t c cg, s'.pc t = .popLoaded c cg → cg = s'.tag → s'.top = some c := by
  have h6 := h.tagLe; have h9 := h.popLoadedCur
  cases hs <;> grind [upd, Pc.loadedTag]

theorem step_popReadCur {s s' : St} {e : Ev} (h : Inv s) (hs : Step s e s') :
    ∀ t c cg n, s'.pc t = .popRead c cg n → cg = s'.tag → s'.top = some c ∧ s'.next c = n := by
  have h3 := h.stkFree; have h4 := h.pushOwn
  have h6 := h.tagLe; have h9 := h.popLoadedCur; have h10 := h.popReadCur; have h11 := h.top_mem
  cases hs <;> grind [upd, Pc.loadedTag, Pc.pushing]

/-- `Inv` is inductive: every atomic step of every thread (and of the environment) preserves it -/
theorem inv_step {s s' : St} {e : Ev} (h : Inv s) (hs : Step s e s') : Inv s' :=
  { seg := step_seg h hs, nodup := step_nodup h hs, stkFree := step_stkFree h hs,
    pushOwn := step_pushOwn h hs, storedNext := step_storedNext h hs, tagLe := step_tagLe h hs,
    pushLoadedCur := step_pushLoadedCur h hs, pushStoredCur := step_pushStoredCur h hs,
    popLoadedCur := step_popLoadedCur h hs, popReadCur := step_popReadCur h hs,
    logOk := step_log h hs }

/-! ### 1. shape invariant -/

/-- **lifo_inv.**  In every state the C code can reach from `ABTI_sync_lifo_init` — whatever the
number of threads, however their loads, stores and CASes interleave, whatever the owners of popped
elements write into them — the invariant `Inv` holds: the `p_next` chain from `p_top` is exactly
the abstract stack and ends in NULL, no element is linked twice, linked elements have no private
owner, an element being pushed is owned by the pushing thread, its `p_next` is intact at the CAS,
and every thread that still carries the current tag also carries the current top (and `p_next`). -/
theorem lifo_inv {tr : List Ev} {s : St} (h : Star Step init tr s) : Inv s :=
  Star.invariant Inv (fun _ _ _ hi hs => inv_step hi hs) h inv_init

/-- **lifo_shape** (`lifo_inv` spelled out).  In every reachable state: the real chain from
`p_top` is the ghost stack (and is the *only* NULL-terminated chain from `p_top`, and the
executable traversal returns it); it has no cycle and no shared node; nobody owns a linked element;
a thread inside `push(e)` owns `e`, `e` is not linked, and no other thread is pushing the same
`e`. -/
theorem lifo_shape {tr : List Ev} {s : St} (h : Star Step init tr s) :
    Seg s.next s.top s.stk none ∧
    (∀ ys, Seg s.next s.top ys none → ys = s.stk) ∧
    chain s.next s.top s.stk.length = s.stk ∧
    s.stk.Nodup ∧
    (∀ e, e ∈ s.stk → s.owner e = none) ∧
    (∀ t e, (s.pc t).pushing = some e → s.owner e = some t ∧ e ∉ s.stk) ∧
    (∀ t u e, (s.pc t).pushing = some e → (s.pc u).pushing = some e → t = u) := by
  have hi := lifo_inv h
  refine ⟨hi.seg, fun ys hy => seg_unique hy hi.seg, seg_chain hi.seg (Nat.le_refl _), hi.nodup,
    hi.stkFree, fun t e hp => ⟨hi.pushOwn t e hp, hi.owned_not_mem (hi.pushOwn t e hp)⟩, ?_⟩
  intro t u e ht hu
  have h1 := hi.pushOwn t e ht
  have h2 := hi.pushOwn u e hu
  rw [h1] at h2
  exact Option.some.inj h2

/-! ### 2. no ABA -/

/-- the tag moves by exactly one on every successful CAS (and `_unsafe` store) and never otherwise -/
theorem tag_step {s s' : St} {e : Ev} (hs : Step s e s') :
    s'.tag = s.tag + (if e.isUpdate then 1 else 0) := by
  cases hs <;> simp_all [Ev.isUpdate]

theorem tag_star {s s' : St} {tr : List Ev} (h : Star Step s tr s') :
    s'.tag = s.tag + tr.countP Ev.isUpdate := by
  induction h with
  | refl => simp
  | cons hst _ ih =>
    rw [ih, tag_step hst, List.countP_cons]
    omega

/-- **lifo_tag_counts.**  The tag half of `p_top` equals the number of successful updates
(successful CASes and `_unsafe` stores) performed so far: it is a version number. -/
theorem lifo_tag_counts {tr : List Ev} {s : St} (h : Star Step init tr s) :
    s.tag = tr.countP Ev.isUpdate := by
  simpa [init] using tag_star h

theorem star_split {σ ε : Type} {St' : σ → ε → σ → Prop} {s s' : σ} {a b : List ε}
    (h : Star St' s (a ++ b) s') : ∃ m, Star St' s a m ∧ Star St' m b s' := by
  induction a generalizing s with
  | nil => exact ⟨s, Star.refl _, h⟩
  | cons e es ih =>
    cases h with
    | cons hst hrest =>
      obtain ⟨m, h1, h2⟩ := ih hrest
      exact ⟨m, Star.cons hst h1, h2⟩

/-- the tag thread `t` would present to a CAS, if it carries one, is `g0` -/
def Tracks (g0 : Nat) (p : Pc) : Prop := ∀ g, p.loadedTag = some g → g = g0

theorem tracks_load {s s' : St} {e : Ev} {t : Tid} (hs : Step s e s') (hl : e.isLoadOf t = true) :
    Tracks s'.tag (s'.pc t) := by
  cases hs <;> simp_all [Ev.isLoadOf, Tracks, Pc.loadedTag]

theorem tracks_step {s s' : St} {e : Ev} {t : Tid} {g0 : Nat} (hs : Step s e s')
    (hl : e.isLoadOf t = false) (ht : Tracks g0 (s.pc t)) : Tracks g0 (s'.pc t) := by
  cases hs <;> grind [Tracks, upd, Pc.loadedTag, Ev.isLoadOf]

theorem tracks_star {s s' : St} {tr : List Ev} {t : Tid} {g0 : Nat} (h : Star Step s tr s')
    (hl : ∀ ev ∈ tr, ev.isLoadOf t = false) (ht : Tracks g0 (s.pc t)) : Tracks g0 (s'.pc t) := by
  induction h with
  | refl => exact ht
  | cons hst _ ih =>
    exact ih (fun ev hm => hl ev (List.mem_cons_of_mem _ hm)) (tracks_step hst (hl _ (by simp)) ht)

theorem tracks_cas {s s' : St} {e : Ev} {t : Tid} {g0 : Nat} (hs : Step s e s')
    (hc : e.isCasOkOf t = true) (ht : Tracks g0 (s.pc t)) : s.tag = g0 := by
  cases hs <;> simp_all [Ev.isCasOkOf, Tracks, Pc.loadedTag]

/-- **lifo_no_aba.**  A CAS of `ABTI_sync_lifo_push`/`_pop` succeeds only if *nothing* replaced
`(p_top, tag)` between the load it is based on and the CAS itself.  In any execution
`tr1 ++ [ld] ++ tr2 ++ [cas]` (from any state) where `ld` is thread `t`'s load, `cas` is a
successful CAS by `t`, and `tr2` contains no later load by `t` (so `ld` is the load of the loop
iteration whose CAS succeeds), `tr2` contains no successful CAS (nor `_unsafe` store) by anybody.
The pointer half alone may well have left and come back (A-B-A: `example aba_tagged`); the tag half
cannot, under the assumption that it does not wrap. -/
theorem lifo_no_aba {tr1 tr2 : List Ev} {ld cas : Ev} {t : Tid} {s0 s : St}
    (h : Star Step s0 (tr1 ++ [ld] ++ tr2 ++ [cas]) s)
    (hld : ld.isLoadOf t = true) (hcas : cas.isCasOkOf t = true)
    (hlast : ∀ ev ∈ tr2, ev.isLoadOf t = false) :
    ∀ ev ∈ tr2, ev.isUpdate = false := by
  obtain ⟨s3, h123, h4⟩ := star_split h
  obtain ⟨s2, h12, h3⟩ := star_split h123
  obtain ⟨s1, _, h2⟩ := star_split h12
  cases h2 with
  | cons hl hnil =>
    cases hnil
    cases h4 with
    | cons hc hnil =>
      cases hnil
      have ht := tracks_star h3 hlast (tracks_load hl hld)
      have he := tracks_cas hc hcas ht
      have hcount := tag_star h3
      have hz : tr2.countP Ev.isUpdate = 0 := by omega
      intro ev hm
      have := List.countP_eq_zero.mp hz ev hm
      simpa using this

/-- **lifo_cas_sees_current** (the state half of ABA freedom).  In every reachable state, if
thread `t` is at its CAS and the tag it loaded is still the current tag (that is: its CAS can
succeed), then everything it observed since the load is still current —
push: `p_top` is still the `cur_top` it stored into `e->p_next`, `e->p_next` still holds it, and
`e` is not linked;
pop: `p_top` is still `cur_top`, `cur_top->p_next` is still the `p_next` it read (no owner
scribbled over it), and `cur_top` is the first element of the stack whose remainder is the chain
from `p_next`.  So a successful CAS installs a correct new top. -/
theorem lifo_cas_sees_current {tr : List Ev} {s : St} (h : Star Step init tr s) :
    (∀ t e ct cg, s.pc t = .pushStored e ct cg → s.tag = cg →
        s.top = ct ∧ s.next e = ct ∧ e ∉ s.stk ∧ Seg s.next (s.next e) s.stk none) ∧
    (∀ t c cg n, s.pc t = .popRead c cg n → s.tag = cg →
        s.top = some c ∧ s.next c = n ∧ ∃ rest, s.stk = c :: rest ∧ Seg s.next n rest none) := by
  have hi := lifo_inv h
  constructor
  · intro t e ct cg hpc htag
    have h1 := hi.pushStoredCur t e ct cg hpc htag.symm
    have h2 := hi.storedNext t e ct cg hpc
    refine ⟨h1, h2, hi.owned_not_mem (hi.ownStored t e ct cg hpc), ?_⟩
    rw [h2, ← h1]; exact hi.seg
  · intro t c cg n hpc htag
    obtain ⟨h1, h2⟩ := hi.popReadCur t c cg n hpc htag.symm
    obtain ⟨rest, hr, -, -, hs⟩ := hi.top_some h1
    exact ⟨h1, h2, rest, hr, h2 ▸ hs⟩

/-- **lifo_pop_cas_ok.**  Whenever a pop CAS succeeds in a reachable state, the element returned
is the top of the abstract stack, the new `p_top` is the real successor of that element, the new
stack is the old one minus its top, and the popping thread becomes the owner. -/
theorem lifo_pop_cas_ok {tr : List Ev} {s s' : St} {t : Tid} {c : Elem}
    (h : Star Step init tr s) (hs : Step s (.popCasOk t c) s') :
    ∃ rest, s.stk = c :: rest ∧ s.top = some c ∧ s'.top = s.next c ∧ s'.stk = rest ∧
      s'.owner c = some t ∧ s'.tag = s.tag + 1 ∧ Seg s'.next s'.top rest none := by
  have hi' := inv_step (lifo_inv h) hs
  have hseg' := hi'.seg
  cases hs with
  | popCasOk _ _ cg n hpc htop htag =>
    obtain ⟨_, h2, rest, hr, _⟩ := (lifo_cas_sees_current h).2 t c cg n hpc htag
    refine ⟨rest, hr, htop, h2.symm, by simp [hr], by simp, by simp [htag], ?_⟩
    simpa [hr] using hseg'

/-- a CAS presented with a stale tag fails, even when the pointer half matches -/
theorem stale_tag_cas_fails {s : St} {t : Tid} {c : Elem} {cg : Nat} {n : Option Elem}
    (hpc : s.pc t = .popRead c cg n) (hne : cg ≠ s.tag) : ∀ s', ¬ Step s (.popCasOk t c) s' := by
  intro s' hs
  cases hs with
  | popCasOk _ _ cg' n' hpc' htop htag =>
    rw [hpc] at hpc'
    cases hpc'
    exact hne htag.symm

/-! ### 3. linearizability -/

theorem log_step {s s' : St} {e : Ev} (hs : Step s e s') : s'.log = s.log ++ e.lin.toList := by
  cases hs <;> simp [Ev.lin]

theorem lin_cons (e : Ev) (es : List Ev) : lin (e :: es) = e.lin.toList ++ lin es := by
  simp only [lin, List.filterMap_cons]
  cases e.lin <;> simp

/-- the ghost log is exactly the sequence of linearization points of the trace -/
theorem log_star {s s' : St} {tr : List Ev} (h : Star Step s tr s') : s'.log = s.log ++ lin tr := by
  induction h with
  | refl => simp [lin]
  | cons hst _ ih => rw [ih, log_step hst, lin_cons, List.append_assoc]

/-- in a legal sequential history every recorded pop response is the specification's response
in the state reached by the operations before it -/
theorem Spec.run_pop_response {stk0 stk' : List Elem} {pre post : List LinOp} {r : Option Elem}
    (h : Spec.run stk0 (pre ++ .pop r :: post) = some stk') :
    ∃ m, Spec.run stk0 pre = some m ∧ r = (Spec.pop m).1 := by
  rw [Spec.run_append] at h
  cases hm : Spec.run stk0 pre with
  | none => simp [hm] at h
  | some m =>
    refine ⟨m, rfl, ?_⟩
    simp only [hm, Option.bind_some, Spec.run, Spec.apply] at h
    by_cases hr : (Spec.pop m).1 = r
    · exact hr.symm
    · simp [hr] at h

/-- **lifo_linearizable.**  Every finite execution of any number of threads running
`ABTI_sync_lifo_push` / `_pop` (and the `_unsafe` variants) has a sequential LIFO explanation.
Take the linearization points of the trace in trace order — a successful push CAS is `push e`, a
successful pop CAS is `pop` answering `cur_top`, a pop's load of NULL is `pop` answering NULL —
(`lin tr`).  Then the abstract stack specification run from the empty stack over that sequence is
defined, i.e. *every response the implementation gave is the response the specification gives at
that point* (`Spec.run` checks each one; see `Spec.run_pop_response`), and it ends in the ghost
stack, which is exactly the real `p_next` chain from `p_top`.  Each linearization point is a step
of the calling thread taken after its `…Call` event and at or before its return (the successful
CAS / NULL load *is* the return), so the order of non-overlapping operations is respected by
construction. -/
theorem lifo_linearizable {tr : List Ev} {s : St} (h : Star Step init tr s) :
    Spec.run [] (lin tr) = some s.stk ∧ Seg s.next s.top s.stk none ∧ s.log = lin tr := by
  have hi := lifo_inv h
  have hl : s.log = lin tr := by simpa [init] using log_star h
  exact ⟨hl ▸ hi.logOk, hi.seg, hl⟩

/-! ### examples: the ABA scenario, with and without the tag -/

/-- a trace the executable machine accepts is an execution of the relation -/
theorem run_exists {tr : List Ev} (h : (machine.run init tr).isSome = true) :
    ∃ s, Star Step init tr s := by
  cases hr : machine.run init tr with
  | none => simp [hr] at h
  | some s => exact ⟨s, run_star hr⟩

/-- Elements A = 10, B = 20.  Thread 2 builds the stack [A, B] (tag 2).  Thread 1 starts a pop:
loads `(A, 2)` and reads `A->p_next = B`.  Thread 2 pops A, pops B, overwrites `B->p_next` with
garbage 77 (it owns B now), and pushes A back.  `p_top` is A again — but with tag 5. -/
def abaTrace : List Ev :=
  [ .acquire 2 20, .pushCall 2 20, .pushLoad 2, .pushStoreNext 2, .pushCasOk 2 20,
    .acquire 2 10, .pushCall 2 10, .pushLoad 2, .pushStoreNext 2, .pushCasOk 2 10,
    .popCall 1, .popLoad 1, .popReadNext 1,
    .popCall 2, .popLoad 2, .popReadNext 2, .popCasOk 2 10,
    .popCall 2, .popLoad 2, .popReadNext 2, .popCasOk 2 20,
    .scribble 2 20 (some 77),
    .pushCall 2 10, .pushLoad 2, .pushStoreNext 2, .pushCasOk 2 10 ]

/-- the ABA situation is reachable: `p_top = A` as thread 1 saw it, thread 1 is at its CAS
holding `(A, tag 2, next B)`, the current tag is 5 and the stack is just [A] -/
example : (machine.run init abaTrace).map (fun s => (s.view, s.pc 1, s.owner 20)) =
    some ((some 10, 5, [10], [10]), .popRead 10 2 (some 20), some 2) := by decide

/-- **aba_tagged**: with the tagged CAS thread 1's CAS cannot succeed (the executable step rejects
the `popCasOk` event) … -/
example : machine.run init (abaTrace ++ [.popCasOk 1 10]) = none := by decide

/-- … it fails, reloads, and pops A correctly -/
example : (machine.run init (abaTrace ++ [.popCasFail 1, .popLoad 1, .popReadNext 1, .popCasOk 1 10])).map
    St.view = some (none, 6, [], []) := by decide

/-- **aba_untagged**: with a pointer-only CAS the same trace is accepted and corrupts the lifo:
`p_top` becomes B, which thread 2 owns and has scribbled over; the real chain is [B, 77] while the
abstract stack is empty.  (`stepNoTag` differs from `step` only in the two CAS guards, and
`abaTrace` is also a run of `machineNoTag` since every CAS in it has a matching tag.) -/
example : (machineNoTag.run init (abaTrace ++ [.popCasOk 1 10])).map St.view =
    some (some 20, 3, [20, 77], []) := by decide

example : (machineNoTag.run init (abaTrace ++ [.popCasOk 1 10])).map
    (fun s => (decide (Seg s.next s.top s.stk none), s.owner 20)) = some (false, some 2) := by decide

/-- the hypotheses of `lifo_no_aba` are satisfiable: thread 1's second attempt in the run above.
`tr2` (between its reload and its successful CAS) contains no update. -/
example : ∃ s, Star Step init
    ((abaTrace ++ [.popCasFail 1]) ++ [.popLoad 1] ++ [.popReadNext 1] ++ [.popCasOk 1 10]) s ∧
    (Ev.popLoad 1).isLoadOf 1 = true ∧ (Ev.popCasOk 1 10).isCasOkOf 1 = true ∧
    (∀ ev ∈ [Ev.popReadNext 1], ev.isLoadOf 1 = false) := by
  obtain ⟨s, hs⟩ := run_exists
    (tr := (abaTrace ++ [.popCasFail 1]) ++ [.popLoad 1] ++ [.popReadNext 1] ++ [.popCasOk 1 10]) (by decide)
  have := lifo_no_aba (t := 1) hs rfl rfl (by decide)   -- the theorem applies
  exact ⟨s, hs, rfl, rfl, by decide⟩

/-- `lifo_no_aba` at work on the relation (not just the executable step): NO execution extends
`abaTrace` by a successful CAS of thread 1, because between thread 1's load (event 12) and the
end of `abaTrace` there are successful CASes of thread 2 -/
example : ¬ ∃ s, Star Step init (abaTrace ++ [.popCasOk 1 10]) s := by
  rintro ⟨s, hs⟩
  have heq : abaTrace ++ [Ev.popCasOk 1 10] =
      abaTrace.take 11 ++ [.popLoad 1] ++ abaTrace.drop 12 ++ [.popCasOk 1 10] := by decide
  rw [heq] at hs
  have := lifo_no_aba (t := 1) hs rfl rfl (by decide) (.popCasOk 2 10) (by decide)
  simp [Ev.isUpdate] at this

/-! ### examples: non-vacuity -/

/-- three threads: 1 pushes 10 and 2 pushes 20 concurrently (2's first CAS really fails: the tag
moved), 3 pops concurrently (its first CAS really fails too), then gets 20 -/
def demoTrace : List Ev :=
  [ .acquire 1 10, .acquire 2 20, .pushCall 1 10, .pushCall 2 20,
    .pushLoad 1, .pushLoad 2, .pushStoreNext 1, .pushStoreNext 2,
    .pushCasOk 1 10,
    .pushCasFail 2, .pushLoad 2, .pushStoreNext 2,
    .popCall 3, .popLoad 3,
    .pushCasOk 2 20 ]

def demoTrace2 : List Ev :=
  demoTrace ++ [ .popReadNext 3, .popCasFail 3, .popLoad 3, .popReadNext 3, .popCasOk 3 20 ]

/-- after `demoTrace` the stack holds two elements and thread 3 is inside a pop with a stale tag -/
example : (machine.run init demoTrace).map (fun s => (s.view, s.pc 3)) =
    some ((some 20, 2, [20, 10], [20, 10]), .popLoaded 10 1) := by decide

/-- thread 2's first CAS (based on the tag-0 load) is not enabled after thread 1's success -/
example : machine.run init (demoTrace.take 9 ++ [.pushCasOk 2 20]) = none := by decide

/-- thread 3's CAS based on `(10, tag 1)` is not enabled after thread 2's success -/
example : machine.run init (demoTrace ++ [.popReadNext 3, .popCasOk 3 10]) = none := by decide

/-- the pop returns 20, ownership passes to thread 3, 10 stays -/
example : (machine.run init demoTrace2).map (fun s => (s.view, s.owner 20, s.log)) =
    some ((some 10, 3, [10], [10]), some 3, [.push 10, .push 20, .pop (some 20)]) := by decide

/-- `lifo_linearizable` applies to it (the run is a `Star Step` execution) and its sequential
history is push 10; push 20; pop → 20 -/
example : ∃ s, Star Step init demoTrace2 s ∧ s.stk = [10] ∧
    lin demoTrace2 = [.push 10, .push 20, .pop (some 20)] ∧ Spec.run [] (lin demoTrace2) = some [10] := by
  obtain ⟨s, hs⟩ := run_exists (tr := demoTrace2) (by decide)
  have hl := (lifo_linearizable hs).1
  have hrun : Spec.run [] (lin demoTrace2) = some [10] := by decide
  rw [hrun] at hl
  exact ⟨s, hs, (Option.some.inj hl).symm, by decide, hrun⟩

/-- a pop on the empty lifo returns NULL, and the `_unsafe` variants run -/
example : (machine.run init
    [.popCall 1, .popLoadNull 1, .acquire 1 5, .pushUnsafe 1 5, .acquire 1 6, .pushUnsafe 1 6,
     .popUnsafe 1 (some 6), .popUnsafe 1 (some 5), .popUnsafe 1 none]).map (fun s => (s.view, s.log)) =
    some ((none, 4, [], []),
          [.pop none, .push 5, .push 6, .pop (some 6), .pop (some 5), .pop none]) := by decide

/-- a wrong response is not accepted by the specification (it has teeth) -/
example : Spec.run [] [.push 10, .push 20, .pop (some 10)] = none := by decide

end ArgoVerif.Model.SyncLifo
