import ArgoVerif.Proofs.PoolConcJ
/- Proofs.PoolConcK — preservation of the second invariant: call, callback entry, lock acquisition, link, the
linearisation steps. -/
namespace ArgoVerif.Model.PoolConc
open ArgoVerif ArgoVerif.Model.TQ
set_option maxHeartbeats 1000000

theorem csEntry_kind (cfg : Cfg) (c : Call) :
    (isPushLike c = true → csEntry cfg c = .csPush) ∧
    (isPopLike c = true → (csEntry cfg c = .csPop ∨ csEntry cfg c = .wChk)) ∧
    (isPushLike c = false → isPopLike c = false → csEntry cfg c = .csRm) := by
  cases c <;> simp [csEntry, isPushLike, isPopLike]
  cases cfg.lk <;> simp

/-- the lock is taken: the content found is recorded; a push has pushed nothing yet, a pop has taken nothing yet -/
theorem inv2_acquire {cfg : Cfg} {s : St} {a : Actor} {p : Pc} (hi : Inv cfg s) (h : Inv2 s)
    (hnidle : s.pc a ≠ .idle)
    (hpush : isPushLike (s.cur a) = true → PrePush (s.pc a) ∧ p = .csPush)
    (hpop : isPopLike (s.cur a) = true → PreGot (s.pc a) ∧ (p = .csPop ∨ p = .wChk))
    (hrm : isPushLike (s.cur a) = false → isPopLike (s.cur a) = false → p = .csRm) :
    Inv2 (setPc (acquire s a) a p) := by
  apply inv2_update hi h (a := a)
  case opc | ocur | odone | obase | otodo | opu | ogot => intro b hb; simp [setPc, acquire, upd, hb]
  case hq => exact Or.inl rfl
  case a1 =>
    intro hp _
    have hp' : isPushLike (s.cur a) = true := by simpa [setPc, acquire] using hp
    obtain ⟨hpp, rfl⟩ := hpush hp'
    have hb := h.batch a hp' hnidle
    have : pending s a = [] := by
      simp only [pending]; cases hc : s.pc a <;> simp_all [PrePush]
    rw [this] at hb
    simpa [setPc, acquire, pending, upd] using hb
  case a2 =>
    intro _ hp
    have hp' : isPushLike (s.cur a) = true := by simpa [setPc, acquire] using hp
    obtain ⟨hpp, _⟩ := hpush hp'
    have := (h.pre a hp' hpp).1
    simp [setPc, acquire, upd, this]
  case a3 =>
    intro _ hp
    have hp' : isPopLike (s.cur a) = true := by simpa [setPc, acquire] using hp
    obtain ⟨hpp, _⟩ := hpop hp'
    have := h.preGot a hp' hpp
    simp [setPc, acquire, upd, this]
  case a4 =>
    intro hp
    have hp' : isPushLike (s.cur a) = true := by simpa [setPc, acquire] using hp
    obtain ⟨_, rfl⟩ := hpush hp'
    simp [setPc, upd]
  case a5 =>
    intro hp
    have hp' : isPushLike (s.cur a) = true := by simpa [setPc, acquire] using hp
    obtain ⟨_, rfl⟩ := hpush hp'
    simp [setPc, upd, PrePush]
  case a6 =>
    intro hp
    have hp' : isPopLike (s.cur a) = true := by simpa [setPc, acquire] using hp
    obtain ⟨hpp, _⟩ := hpop hp'
    intro _; simpa [setPc, acquire] using h.preGot a hp' hpp
  case a7 =>
    intro hc
    have : p ≠ .sAcq ∧ p ≠ .sSpin := by
      cases hpl : isPopLike (s.cur a)
      · cases hps : isPushLike (s.cur a)
        · simp [hrm hps hpl]
        · simp [(hpush hps).2]
      · rcases (hpop hpl).2 with e | e <;> simp [e]
    simp [setPc, upd, this.1, this.2] at hc
  case a8 =>
    intro hc
    have : p ≠ .pubE ∧ p ≠ .clrIn := by
      cases hpl : isPopLike (s.cur a)
      · cases hps : isPushLike (s.cur a)
        · simp [hrm hps hpl]
        · simp [(hpush hps).2]
      · rcases (hpop hpl).2 with e | e <;> simp [e]
    simp [setPc, upd, this.1, this.2] at hc

theorem inv2_tas {cfg : Cfg} {s s' : St} {a : Actor} {old : Bool} (hi : Inv cfg s) (h : Inv2 s)
    (hs : stepTas cfg s a old = some s') : Inv2 s' := by
  unfold stepTas at hs
  split at hs
  · simp at hs
  next hg =>
  obtain ⟨k1, k2, k3⟩ := csEntry_kind cfg (s.cur a)
  split at hs <;> (try (simp at hs; done)) <;> simp only [Option.some.injEq] at hs <;> subst hs <;> cases old
  case h_1.false hpc =>
    exact inv2_acquire hi h (by simp [hpc]) (fun hp => ⟨by simp [hpc, PrePush], k1 hp⟩)
      (fun hp => by have := h.spinPc a (Or.inl hpc); simp [hp] at this) k3
  case h_2.false hpc =>
    exact inv2_acquire hi h (by simp [hpc])
      (fun hp => by have := ((hi.typed a).2.1 (by simp [hpc, PopPc])); simp [pushlike_not_poplike hp] at this)
      (fun hp => ⟨by simp [hpc, PreGot], k2 hp⟩) k3
  all_goals (facts2 hi h a; (frame2 hi h a) <;> simp_all [setPc, InCS, PrePush, PreGot, Typed, PushPc, PopPc, RmPc])


theorem inv2_mlock {cfg : Cfg} {s s' : St} {a : Actor} (hi : Inv cfg s) (h : Inv2 s)
    (hs : stepMlock cfg s a = some s') : Inv2 s' := by
  unfold stepMlock at hs
  split at hs
  · simp at hs
  next hg =>
  obtain ⟨k1, k2, k3⟩ := csEntry_kind cfg (s.cur a)
  split at hs <;> (try (simp at hs; done)) <;> simp only [Option.some.injEq] at hs <;> subst hs
  case h_1 hpc =>
    exact inv2_acquire hi h (by simp [hpc]) (fun hp => ⟨by simp [hpc, PrePush], k1 hp⟩)
      (fun hp => ⟨by simp [hpc, PreGot], k2 hp⟩) k3
  case h_2 hpc =>
    have hpl : isPopLike (s.cur a) = true := (hi.typed a).2.1 (by simp [hpc, PopPc])
    exact inv2_acquire hi h (by simp [hpc]) (fun hp => by simp [pushlike_not_poplike hp] at hpl)
      (fun _ => ⟨by simp [hpc, PreGot], Or.inl rfl⟩) (fun _ hp => by simp [hpl] at hp)

theorem bodyPc_kind (cfg : Cfg) (c : Call) :
    (isPushLike c = true → (PrePush (bodyPc cfg c) ∨ bodyPc cfg c = .csPush ∨ (bodyPc cfg c = .retp ∧ unitsOf c = []))) ∧
    (isPopLike c = true → (PreGot (bodyPc cfg c) ∨ bodyPc cfg c = .csPop ∨ bodyPc cfg c = .retp)) ∧
    (isPushLike c = false → isPopLike c = false → (bodyPc cfg c = .sAcq ∨ bodyPc cfg c = .csRm ∨ bodyPc cfg c = .rChkE)) ∧
    bodyPc cfg c ≠ .idle ∧ bodyPc cfg c ≠ .pub ∧ bodyPc cfg c ≠ .setIn ∧ bodyPc cfg c ≠ .sig ∧ bodyPc cfg c ≠ .rel ∧ bodyPc cfg c ≠ .sSpin ∧
    bodyPc cfg c ≠ .pubE ∧ bodyPc cfg c ≠ .clrIn ∧
    (bodyPc cfg c = .sAcq → isPopLike c = false) ∧ (InCS (bodyPc cfg c) → cfg.shared = false) := by
  rcases cfg with ⟨lk, sh⟩
  cases lk <;> cases sh <;> (cases c with
    | pushMany us h => cases us <;> simp [bodyPc, csEntry, isPushLike, isPopLike, unitsOf, PrePush, PreGot, InCS]
    | popMany m t => cases m <;> simp [bodyPc, csEntry, isPushLike, isPopLike, unitsOf, PrePush, PreGot, InCS]
    | _ => simp [bodyPc, csEntry, isPushLike, isPopLike, unitsOf, PrePush, PreGot, InCS])

theorem entryPc_cases (cfg : Cfg) (c : Call) :
    (entryPc cfg c = .pmCb ∧ isPushLike c = true) ∨ entryPc cfg c = bodyPc cfg c := by
  cases c with
  | pushMany us h => cases us <;> simp [entryPc, isPushLike]
  | _ => simp [entryPc]

end ArgoVerif.Model.PoolConc
