import ArgoVerif.Proofs.Future
/- Proofs.Future7 — invariant preservation: lock release in the wait loop, by a passing waiter and by reset. -/
namespace ArgoVerif.Model.Future
open ArgoVerif
set_option maxHeartbeats 4000000

theorem inv_stepRel_b (s s' : St) (a : Actor) (c n : Nat) (e : Bool) (h : Inv s) (hs : stepRel s a c n e = some s')
    (hp : s.pc a = .reW ∨ s.pc a = .reR ∨ s.pc a = .passCS ∨ s.pc a = .resetStCS) : Inv s' := by
  unfold stepRel at hs
  rcases hp with hp | hp | hp | hp <;> simp only [hp] at hs <;> (try split at hs) <;>
    first
    | (cases hs; done)
    | (have hc := (chk_some _ _ _ _ _ hs).1; subst hc; constructor <;> inv_tac h)

end ArgoVerif.Model.Future
