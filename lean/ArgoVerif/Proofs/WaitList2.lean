import ArgoVerif.Proofs.WaitList
/- Proofs.WaitList2 — invariant preservation, remaining steps (split for build parallelism). -/
namespace ArgoVerif.Model.WaitList
open ArgoVerif
set_option maxHeartbeats 4000000

theorem tasL_cases (s : St) (a : Actor) (old : Bool) (s' : St) (hs : stepTasL s a old = some s') :
    old = s.l ∧ (s.pc a = .acq ∨ s.pc a = .xReacq ∨ s.pc a = .tuAcq ∨ s.pc a = .txReacq) := by
  unfold stepTasL at hs
  split at hs
  · cases hs
  · rename_i h
    refine ⟨by simpa using h, ?_⟩
    split at hs <;> simp_all

theorem inv_stepTasL (s s' : St) (a : Actor) (old : Bool) (h : Inv s) (hs : stepTasL s a old = some s') : Inv s' := by
  obtain ⟨ho, hp⟩ := tasL_cases s a old s' hs
  unfold stepTasL at hs
  rw [if_neg (by simp [ho])] at hs
  rcases hp with hp | hp | hp | hp <;> rw [hp] at hs <;> cases old <;>
    simp only [Bool.false_eq_true, if_false, if_true] at hs <;> close_tac h hs

theorem inv_stepClearL (s s' : St) (a : Actor) (h : Inv s) (hs : stepClearL s a = some s') : Inv s' := by
  unfold stepClearL at hs
  split at hs <;> close_tac h hs

theorem inv_stepDeq (s s' : St) (a n : Actor) (h : Inv s) (hs : stepDeq s a n = some s') : Inv s' := by
  unfold stepDeq at hs
  (repeat' (split at hs)) <;> close_tac h hs

theorem inv_stepStoreReady (s s' : St) (a n : Actor) (h : Inv s) (hs : stepStoreReady s a n = some s') : Inv s' := by
  unfold stepStoreReady at hs
  (repeat' (split at hs)) <;> close_tac h hs

end ArgoVerif.Model.WaitList
