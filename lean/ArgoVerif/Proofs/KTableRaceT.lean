import ArgoVerif.Proofs.KTableRace
/-
Proofs.KTableRaceT — table invariant of the concurrent-setters model and the
main race theorem.
-/
namespace ArgoVerif.Model.KTable
open ArgoVerif

/-! ### table invariant -/

structure TInv (P : Params) (s : CSt) : Prop where
  size : s.slot = .valid → s.tbl.size = P.size
  idx : ∀ i e, e ∈ s.tbl.b i → idx P.size e.keyId = i
  nodup : ∀ i, ((s.tbl.b i).map (·.keyId)).Nodup
  val : ∀ i e, e ∈ s.tbl.b i →
    e.val = P.val (s.lastw e.keyId) ∧ P.key (s.lastw e.keyId) = ⟨e.keyId, e.dtor⟩
  scan : ∀ t j, scanPos (s.pc t) = some j →
    j ≤ (s.ks P t).length ∧ ∀ i, i < j → (s.ks P t)[i]? ≠ some (P.key t).id
  pub : ∀ t, isPub (s.pc t) = true → (P.key t).id ∉ s.ks P t
  found : ∀ t j, foundPos (s.pc t) = some j → (s.ks P t)[j]? = some (P.key t).id
  present : ∀ t, present (s.pc t) = true → (P.key t).id ∈ s.ks P t

theorem tinv_init (P : Params) : TInv P CSt.init := by
  constructor <;> simp [CSt.init, emptyTable, scanPos, isPub, foundPos, present]

/-- steps that leave the table object and `lastw` alone and move only caller `t` -/
theorem tinv_frame (P : Params) (s : CSt) (t : Nat) (pc' : Pc) (slot' : SlotV) (created' : Nat) (lock' : Option Nat)
    (h : TInv P s)
    (hsz : slot' = .valid → s.slot = .valid)
    (hscan : ∀ j, scanPos pc' = some j →
      j ≤ (s.ks P t).length ∧ ∀ i, i < j → (s.ks P t)[i]? ≠ some (P.key t).id)
    (hpub : isPub pc' = true → (P.key t).id ∉ s.ks P t)
    (hfound : ∀ j, foundPos pc' = some j → (s.ks P t)[j]? = some (P.key t).id)
    (hpres : present pc' = true → (P.key t).id ∈ s.ks P t) :
    TInv P { s with slot := slot', created := created', lock := lock', pc := upd s.pc t pc' } := by
  constructor
  · intro hv; exact h.size (hsz hv)
  · exact h.idx
  · exact h.nodup
  · exact h.val
  · intro t' j
    by_cases ht : t' = t
    · subst ht; simp only [upd_same]; exact hscan j
    · simp only [upd, ht, if_false]; exact h.scan t' j
  · intro t'
    by_cases ht : t' = t
    · subst ht; simp only [upd_same]; exact hpub
    · simp only [upd, ht, if_false]; exact h.pub t'
  · intro t' j
    by_cases ht : t' = t
    · subst ht; simp only [upd_same]; exact hfound j
    · simp only [upd, ht, if_false]; exact h.found t' j
  · intro t'
    by_cases ht : t' = t
    · subst ht; simp only [upd_same]; exact hpres
    · simp only [upd, ht, if_false]; exact h.present t'

theorem getElem?_map_keyId (l : List Elem) (j : Nat) (e : Elem) (h : l[j]? = some e) :
    (l.map (·.keyId))[j]? = some e.keyId := by
  simp [List.getElem?_map, h]

theorem mem_of_getElem?_none_prefix (l : List Nat) (j : Nat) (k : Nat) (hn : l[j]? = none)
    (hp : ∀ i, i < j → l[i]? ≠ some k) : k ∉ l := by
  intro hm
  obtain ⟨i, hi⟩ := List.mem_iff_getElem?.mp hm
  have hlen : l.length ≤ j := by
    rcases Nat.lt_or_ge j l.length with h | h
    · have := List.getElem?_eq_getElem h; rw [this] at hn; cases hn
    · exact h
  have hil : i < l.length := by
    rcases Nat.lt_or_ge i l.length with h | h
    · exact h
    · have := List.getElem?_eq_none h; rw [this] at hi; cases hi
  exact hp i (by omega) hi

theorem set_val_keys (l : List Elem) (j : Nat) (e : Elem) (v : Val) (h : l[j]? = some e) :
    (l.set j { e with val := v }).map (·.keyId) = l.map (·.keyId) := by
  apply List.ext_getElem?
  intro i
  simp only [List.getElem?_map, List.getElem?_set]
  by_cases hij : j = i
  · subst hij
    simp only [if_true]
    split
    · simp [h]
    · next hlt =>
      have : l[j]? = none := List.getElem?_eq_none (by omega)
      rw [this] at h; cases h
  · simp [hij]

def ksOf (P : Params) (tb : Table) (t : Nat) : List Nat := (tb.b (idx P.size (P.key t).id)).map (·.keyId)

theorem ks_eq (P : Params) (s : CSt) (t : Nat) : s.ks P t = ksOf P s.tbl t := rfl

theorem ksOf_setCh (P : Params) (s : CSt) (t : Nat) (c : List Elem) (t' : Nat) :
    ksOf P (s.setCh P t c) t' =
      if idx P.size (P.key t').id = idx P.size (P.key t).id then c.map (·.keyId) else ksOf P s.tbl t' := by
  simp only [ksOf, CSt.setCh, updB]
  split <;> rfl

theorem usesTbl_of_scan (pc : Pc) (j : Nat) (h : scanPos pc = some j) : usesTbl pc = true := by
  cases pc <;> simp_all [scanPos, usesTbl]
theorem usesTbl_of_pub (pc : Pc) (h : isPub pc = true) : usesTbl pc = true := by
  cases pc <;> simp_all [isPub, usesTbl]
theorem usesTbl_of_found (pc : Pc) (j : Nat) (h : foundPos pc = some j) : usesTbl pc = true := by
  cases pc <;> simp_all [foundPos, usesTbl]
theorem usesTbl_of_present (pc : Pc) (h : present pc = true) : usesTbl pc = true := by
  cases pc with
  | done ok => cases ok <;> simp_all [present, usesTbl]
  | _ => simp_all [present, usesTbl]
theorem holds_of_pub (pc : Pc) (h : isPub pc = true) : holds pc = true := by
  cases pc <;> simp_all [isPub, holds]

/-- `create`: the fresh table replaces the placeholder; nobody else is inside the table yet -/
theorem tinv_create (P : Params) (s : CSt) (t : Nat) (hp : PInv P s) (h : TInv P s)
    (hpc : s.pc t = .creating) :
    TInv P { s with slot := .valid, tbl := createOk P.g P.size, created := s.created + 1,
                    pc := upd s.pc t (.walk 0) } := by
  have hl : s.slot = .locked := hp.creating t hpc
  have hno : ∀ t', t' ≠ t → usesTbl (s.pc t') = false := by
    intro t' _
    cases hu : usesTbl (s.pc t') with
    | false => rfl
    | true => have := hp.tbl t' hu; rw [hl] at this; cases this
  constructor
  · intro _; exact createOk_size _ _
  · intro i e he; simp [createOk_b] at he
  · intro i; simp [createOk_b]
  · intro i e he; simp [createOk_b] at he
  · intro t' j hsc
    by_cases ht : t' = t
    · subst ht
      simp only [upd_same, scanPos, Option.some.injEq] at hsc
      subst hsc
      exact ⟨Nat.zero_le _, fun i hi => absurd hi (Nat.not_lt_zero _)⟩
    · simp only [upd, ht, if_false] at hsc
      have := usesTbl_of_scan _ _ hsc
      rw [hno t' ht] at this; cases this
  · intro t' hpb
    by_cases ht : t' = t
    · subst ht; simp [isPub] at hpb
    · simp only [upd, ht, if_false] at hpb
      have := usesTbl_of_pub _ hpb
      rw [hno t' ht] at this; cases this
  · intro t' j hfd
    by_cases ht : t' = t
    · subst ht; simp [foundPos] at hfd
    · simp only [upd, ht, if_false] at hfd
      have := usesTbl_of_found _ _ hfd
      rw [hno t' ht] at this; cases this
  · intro t' hpr
    by_cases ht : t' = t
    · subst ht; simp [present] at hpr
    · simp only [upd, ht, if_false] at hpr
      have := usesTbl_of_present _ hpr
      rw [hno t' ht] at this; cases this

/-- `lwalkEnd`: storage for the element is taken; chains unchanged -/
theorem tinv_alloc (P : Params) (s : CSt) (t j : Nat) (tb : Table) (blk : Nat) (h : TInv P s)
    (hpc : s.pc t = .lwalk j) (hnone : (s.ch P t)[j]? = none)
    (ha : allocElem P.g s.tbl true = some (tb, blk)) :
    TInv P { s with tbl := tb, pc := upd s.pc t (.pub j blk) } := by
  obtain ⟨hb, hsz⟩ := allocElem_b _ _ _ _ _ ha
  have hks : ∀ t', ksOf P tb t' = ksOf P s.tbl t' := by intro t'; simp [ksOf, hb]
  have hsc := h.scan t j (by rw [hpc]; rfl)
  have hnone' : (s.ks P t)[j]? = none := by simp [CSt.ks, List.getElem?_map, hnone]
  have hnot : (P.key t).id ∉ s.ks P t := mem_of_getElem?_none_prefix _ j _ hnone' hsc.2
  constructor
  · intro hv; show tb.size = P.size; rw [hsz]; exact h.size hv
  · intro i e he; rw [show ({ s with tbl := tb, pc := upd s.pc t (.pub j blk) } : CSt).tbl.b = s.tbl.b from hb] at he
    exact h.idx i e he
  · intro i; rw [show ({ s with tbl := tb, pc := upd s.pc t (.pub j blk) } : CSt).tbl.b = s.tbl.b from hb]
    exact h.nodup i
  · intro i e he; rw [show ({ s with tbl := tb, pc := upd s.pc t (.pub j blk) } : CSt).tbl.b = s.tbl.b from hb] at he
    exact h.val i e he
  · intro t' j' hsc'
    rw [ks_eq]; show _ ≤ (ksOf P tb t').length ∧ ∀ i, i < j' → (ksOf P tb t')[i]? ≠ _
    rw [hks]
    by_cases ht : t' = t
    · subst ht; simp [scanPos] at hsc'
    · simp only [upd, ht, if_false] at hsc'; exact h.scan t' j' hsc'
  · intro t' hpb
    rw [ks_eq]; show _ ∉ ksOf P tb t'
    rw [hks]
    by_cases ht : t' = t
    · subst ht; exact hnot
    · simp only [upd, ht, if_false] at hpb; exact h.pub t' hpb
  · intro t' j' hfd
    rw [ks_eq]; show (ksOf P tb t')[j']? = _
    rw [hks]
    by_cases ht : t' = t
    · subst ht; simp [foundPos] at hfd
    · simp only [upd, ht, if_false] at hfd; exact h.found t' j' hfd
  · intro t' hpr
    rw [ks_eq]; show _ ∈ ksOf P tb t'
    rw [hks]
    by_cases ht : t' = t
    · subst ht; simp [present] at hpr
    · simp only [upd, ht, if_false] at hpr; exact h.present t' hpr

theorem mem_set_cases (l : List Elem) (j : Nat) (x a : Elem) (h : a ∈ l.set j x) :
    a = x ∨ ∃ i, i ≠ j ∧ l[i]? = some a := by
  obtain ⟨i, hi⟩ := List.mem_iff_getElem?.mp h
  rw [List.getElem?_set] at hi
  split at hi
  · next hji =>
    split at hi
    · left; simpa using hi.symm
    · cases hi
  · next hji => exact Or.inr ⟨i, fun x => hji x.symm, hi⟩

theorem nodup_getElem?_inj (l : List Nat) (hnd : l.Nodup) (i j : Nat) (a : Nat)
    (hi : l[i]? = some a) (hj : l[j]? = some a) : i = j := by
  induction l generalizing i j with
  | nil => simp at hi
  | cons x r ih =>
    simp only [List.nodup_cons] at hnd
    cases i with
    | zero =>
      cases j with
      | zero => rfl
      | succ j =>
        simp only [List.getElem?_cons_zero, Option.some.injEq] at hi
        simp only [List.getElem?_cons_succ] at hj
        subst hi
        exact absurd (List.mem_of_getElem? hj) hnd.1
    | succ i =>
      cases j with
      | zero =>
        simp only [List.getElem?_cons_zero, Option.some.injEq] at hj
        simp only [List.getElem?_cons_succ] at hi
        subst hj
        exact absurd (List.mem_of_getElem? hi) hnd.1
      | succ j =>
        simp only [List.getElem?_cons_succ] at hi hj
        rw [ih hnd.2 i j hi hj]

theorem nodup_keys_ne (l : List Elem) (hnd : (l.map (·.keyId)).Nodup) (i j : Nat) (a b : Elem)
    (hi : l[i]? = some a) (hj : l[j]? = some b) (hne : i ≠ j) : a.keyId ≠ b.keyId := by
  intro heq
  have h1 : (l.map (·.keyId))[i]? = some a.keyId := getElem?_map_keyId l i a hi
  have h2 : (l.map (·.keyId))[j]? = some a.keyId := by rw [heq]; exact getElem?_map_keyId l j b hj
  exact hne (nodup_getElem?_inj _ hnd i j _ h1 h2)

/-- `store`: overwrite `value` of element `j` (no lock held) -/
theorem tinv_store (P : Params) (hkey : ∀ a b, (P.key a).id = (P.key b).id → P.key a = P.key b)
    (s : CSt) (t j : Nat) (e : Elem) (h : TInv P s)
    (hpc : s.pc t = .store j) (hj : (s.ch P t)[j]? = some e) :
    TInv P { s with tbl := s.setCh P t ((s.ch P t).set j { e with val := P.val t }),
                    lastw := upd s.lastw (P.key t).id t, pc := upd s.pc t (.done true) } := by
  have hfd : (s.ks P t)[j]? = some (P.key t).id := h.found t j (by rw [hpc]; rfl)
  have hek : e.keyId = (P.key t).id := by
    have := getElem?_map_keyId _ j e hj
    simp only [CSt.ks] at hfd
    rw [this] at hfd; simpa using hfd
  have hkeys : ((s.ch P t).set j { e with val := P.val t }).map (·.keyId) = s.ks P t := set_val_keys _ j e _ hj
  have hks : ∀ t', ksOf P (s.setCh P t ((s.ch P t).set j { e with val := P.val t })) t' = ksOf P s.tbl t' := by
    intro t'
    rw [ksOf_setCh]
    split
    · next hb => rw [hkeys]; simp only [CSt.ks, CSt.ch, ksOf, hb]
    · rfl
  have hmem : (P.key t).id ∈ s.ks P t := List.mem_iff_getElem?.mpr ⟨j, hfd⟩
  -- elements of the new table
  have helem : ∀ i a, a ∈ (s.setCh P t ((s.ch P t).set j { e with val := P.val t })).b i →
      (a = { e with val := P.val t } ∧ i = idx P.size (P.key t).id) ∨ (a ∈ s.tbl.b i ∧ a.keyId ≠ (P.key t).id) := by
    intro i a ha
    simp only [CSt.setCh, updB] at ha
    split at ha
    · next hi =>
      rcases mem_set_cases _ _ _ _ ha with hx | ⟨i', hne, hi'⟩
      · exact Or.inl ⟨hx, hi⟩
      · right
        refine ⟨hi ▸ List.mem_of_getElem? hi', ?_⟩
        rw [← hek]
        exact nodup_keys_ne _ (h.nodup _) i' j a e hi' hj hne
    · next hi =>
      right
      refine ⟨ha, ?_⟩
      intro hk
      have := h.idx i a ha
      rw [hk] at this
      exact hi this.symm
  constructor
  · intro hv; exact h.size hv
  · intro i a ha
    rcases helem i a ha with ⟨hx, hi⟩ | ⟨hx, _⟩
    · subst hx; subst hi; simp only; rw [hek]
    · exact h.idx i a hx
  · intro i
    simp only [CSt.setCh, updB]
    split
    · next hi => rw [hkeys]; exact h.nodup _
    · exact h.nodup i
  · intro i a ha
    rcases helem i a ha with ⟨hx, hi⟩ | ⟨hx, hne⟩
    · subst hx
      simp only [hek, upd_same, true_and]
      have hv := (h.val _ e (List.mem_of_getElem? hj)).2
      have hid : (P.key (s.lastw e.keyId)).id = (P.key t).id := by rw [hv]; exact hek
      rw [← hkey _ _ hid, hv, hek]
    · simp only [upd, hne, if_false]
      exact h.val i a hx
  · intro t' j' hsc
    rw [ks_eq]
    show _ ≤ (ksOf P (s.setCh P t _) t').length ∧ ∀ i, i < j' → (ksOf P (s.setCh P t _) t')[i]? ≠ _
    rw [hks]
    by_cases ht : t' = t
    · subst ht; simp [scanPos] at hsc
    · simp only [upd, ht, if_false] at hsc; exact h.scan t' j' hsc
  · intro t' hpb
    rw [ks_eq]; show _ ∉ ksOf P (s.setCh P t _) t'
    rw [hks]
    by_cases ht : t' = t
    · subst ht; simp [isPub] at hpb
    · simp only [upd, ht, if_false] at hpb; exact h.pub t' hpb
  · intro t' j' hfd'
    rw [ks_eq]; show (ksOf P (s.setCh P t _) t')[j']? = _
    rw [hks]
    by_cases ht : t' = t
    · subst ht; simp [foundPos] at hfd'
    · simp only [upd, ht, if_false] at hfd'; exact h.found t' j' hfd'
  · intro t' hpr
    rw [ks_eq]; show _ ∈ ksOf P (s.setCh P t _) t'
    rw [hks]
    by_cases ht : t' = t
    · subst ht; exact hmem
    · simp only [upd, ht, if_false] at hpr; exact h.present t' hpr

/-- `publish`: the release-store that links the new element at the tail -/
theorem tinv_publish (P : Params) (s : CSt) (t j blk : Nat) (hp : PInv P s) (h : TInv P s)
    (hpc : s.pc t = .pub j blk) :
    TInv P { s with tbl := s.setCh P t (s.ch P t ++ [newElem P t blk]),
                    lastw := upd s.lastw (P.key t).id t, pc := upd s.pc t .unlock } := by
  have hnot : (P.key t).id ∉ s.ks P t := h.pub t (by rw [hpc]; rfl)
  have hlk : s.lock = some t := hp.lock1 t (by rw [hpc]; rfl)
  have hks : ∀ t', ksOf P (s.setCh P t (s.ch P t ++ [newElem P t blk])) t' =
      if idx P.size (P.key t').id = idx P.size (P.key t).id then s.ks P t' ++ [(P.key t).id] else s.ks P t' := by
    intro t'
    rw [ksOf_setCh]
    split
    · next hb => simp [CSt.ks, CSt.ch, newElem, hb]
    · rfl
  have helem : ∀ i a, a ∈ (s.setCh P t (s.ch P t ++ [newElem P t blk])).b i →
      (a = newElem P t blk ∧ i = idx P.size (P.key t).id) ∨ (a ∈ s.tbl.b i ∧ a.keyId ≠ (P.key t).id) := by
    intro i a ha
    simp only [CSt.setCh, updB] at ha
    split at ha
    · next hi =>
      simp only [List.mem_append, List.mem_singleton] at ha
      rcases ha with ha | ha
      · right
        refine ⟨hi ▸ ha, ?_⟩
        intro hk
        apply hnot
        simp only [CSt.ks, List.mem_map]
        exact ⟨a, ha, hk⟩
      · exact Or.inl ⟨ha, hi⟩
    · next hi =>
      right
      refine ⟨ha, ?_⟩
      intro hk
      have := h.idx i a ha
      rw [hk] at this
      exact hi this.symm
  constructor
  · intro hv; exact h.size hv
  · intro i a ha
    rcases helem i a ha with ⟨hx, hi⟩ | ⟨hx, _⟩
    · subst hx; subst hi; rfl
    · exact h.idx i a hx
  · intro i
    simp only [CSt.setCh, updB]
    split
    · next hi =>
      simp only [List.map_append, List.map_cons, List.map_nil]
      rw [List.nodup_append]
      refine ⟨h.nodup _, by simp, ?_⟩
      intro a ha b hb
      simp only [List.mem_singleton] at hb
      subst hb
      intro hab
      subst hab
      exact hnot ha
    · exact h.nodup i
  · intro i a ha
    rcases helem i a ha with ⟨hx, hi⟩ | ⟨hx, hne⟩
    · subst hx
      simp [newElem, upd_same]
    · simp only [upd, hne, if_false]
      exact h.val i a hx
  · intro t' j' hsc
    rw [ks_eq]
    show _ ≤ (ksOf P (s.setCh P t _) t').length ∧ ∀ i, i < j' → (ksOf P (s.setCh P t _) t')[i]? ≠ _
    rw [hks]
    by_cases ht : t' = t
    · subst ht; simp [scanPos] at hsc
    · simp only [upd, ht, if_false] at hsc
      have := h.scan t' j' hsc
      split
      · refine ⟨by simp; omega, ?_⟩
        intro i hi
        rw [List.getElem?_append_left (by omega)]
        exact this.2 i hi
      · exact this
  · intro t' hpb
    by_cases ht : t' = t
    · subst ht; simp [isPub] at hpb
    · simp only [upd, ht, if_false] at hpb
      have := hp.lock1 t' (holds_of_pub _ hpb)
      rw [hlk] at this
      exact absurd (Option.some.inj this).symm ht
  · intro t' j' hfd'
    rw [ks_eq]; show (ksOf P (s.setCh P t _) t')[j']? = _
    rw [hks]
    by_cases ht : t' = t
    · subst ht; simp [foundPos] at hfd'
    · simp only [upd, ht, if_false] at hfd'
      have := h.found t' j' hfd'
      split
      · have hlt : j' < (s.ks P t').length := by
          rcases Nat.lt_or_ge j' (s.ks P t').length with hh | hh
          · exact hh
          · rw [List.getElem?_eq_none hh] at this; cases this
        rw [List.getElem?_append_left hlt]; exact this
      · exact this
  · intro t' hpr
    rw [ks_eq]; show _ ∈ ksOf P (s.setCh P t _) t'
    rw [hks]
    by_cases ht : t' = t
    · subst ht; simp
    · simp only [upd, ht, if_false] at hpr
      have := h.present t' hpr
      split
      · simp [this]
      · exact this

theorem tinv_step (P : Params) (hkey : ∀ a b, (P.key a).id = (P.key b).id → P.key a = P.key b)
    (hf : P.faults = false) (s : CSt) (e : Nat × Act) (s' : CSt)
    (hp : PInv P s) (h : TInv P s) (hs : Step P s e s') : TInv P s' := by
  cases hs with
  | loadValid ht hpc hsl =>
    exact tinv_frame P s _ (.walk 0) s.slot s.created s.lock h id
      (by intro j hj; simp only [scanPos, Option.some.injEq] at hj; subst hj
          exact ⟨Nat.zero_le _, fun i hi => absurd hi (Nat.not_lt_zero _)⟩)
      (by simp [isPub]) (by simp [foundPos]) (by simp [present])
  | loadInvalid ht hpc hsl =>
    exact tinv_frame P s _ .cas s.slot s.created s.lock h id
      (by simp [scanPos]) (by simp [isPub]) (by simp [foundPos]) (by simp [present])
  | casOk ht hpc hsl =>
    exact tinv_frame P s _ .creating .locked s.created s.lock h (by intro hh; cases hh)
      (by simp [scanPos]) (by simp [isPub]) (by simp [foundPos]) (by simp [present])
  | casFail ht hpc =>
    exact tinv_frame P s _ .reload s.slot s.created s.lock h id
      (by simp [scanPos]) (by simp [isPub]) (by simp [foundPos]) (by simp [present])
  | create ht hpc => exact tinv_create P s _ hp h hpc
  | createFail ht hpc hfl => rw [hf] at hfl; cases hfl
  | reloadNull ht hpc hsl =>
    exact tinv_frame P s _ .cas s.slot s.created s.lock h id
      (by simp [scanPos]) (by simp [isPub]) (by simp [foundPos]) (by simp [present])
  | reloadLocked ht hpc hsl =>
    exact tinv_frame P s _ .spin s.slot s.created s.lock h id
      (by simp [scanPos]) (by simp [isPub]) (by simp [foundPos]) (by simp [present])
  | reloadValid ht hpc hsl =>
    exact tinv_frame P s _ (.walk 0) s.slot s.created s.lock h id
      (by intro j hj; simp only [scanPos, Option.some.injEq] at hj; subst hj
          exact ⟨Nat.zero_le _, fun i hi => absurd hi (Nat.not_lt_zero _)⟩)
      (by simp [isPub]) (by simp [foundPos]) (by simp [present])
  | spinLocked ht hpc hsl => exact h
  | spinValid ht hpc hsl =>
    exact tinv_frame P s _ (.walk 0) s.slot s.created s.lock h id
      (by intro j hj; simp only [scanPos, Option.some.injEq] at hj; subst hj
          exact ⟨Nat.zero_le _, fun i hi => absurd hi (Nat.not_lt_zero _)⟩)
      (by simp [isPub]) (by simp [foundPos]) (by simp [present])
  | spinNull ht hpc hsl => exact absurd hsl (hp.spin _ hpc)
  | @walkNext t j e ht hpc hj hne =>
    have hsc := h.scan t j (by rw [hpc]; rfl)
    have hkj : (s.ks P t)[j]? = some e.keyId := getElem?_map_keyId _ j e hj
    have hlt : j < (s.ks P t).length := by
      rcases Nat.lt_or_ge j (s.ks P t).length with hh | hh
      · exact hh
      · rw [List.getElem?_eq_none hh] at hkj; cases hkj
    exact tinv_frame P s t (.walk (j + 1)) s.slot s.created s.lock h id
      (by intro j' hj'; simp only [scanPos, Option.some.injEq] at hj'; subst hj'
          refine ⟨hlt, ?_⟩
          intro i hi
          rcases Nat.lt_or_ge i j with h1 | h1
          · exact hsc.2 i h1
          · have : i = j := by omega
            subst this; rw [hkj]; intro hx; exact hne (Option.some.inj hx))
      (by simp [isPub]) (by simp [foundPos]) (by simp [present])
  | @walkFound t j e ht hpc hj heq =>
    have hkj : (s.ks P t)[j]? = some e.keyId := getElem?_map_keyId _ j e hj
    exact tinv_frame P s t (.store j) s.slot s.created s.lock h id
      (by simp [scanPos]) (by simp [isPub])
      (by intro j' hj'; simp only [foundPos, Option.some.injEq] at hj'; subst hj'; rw [hkj, heq])
      (by simp [present])
  | @walkEnd t j ht hpc hj =>
    have hsc := h.scan t j (by rw [hpc]; rfl)
    exact tinv_frame P s t (.acq j) s.slot s.created s.lock h id
      (by intro j' hj'; simp only [scanPos, Option.some.injEq] at hj'; subst hj'; exact hsc)
      (by simp [isPub]) (by simp [foundPos]) (by simp [present])
  | @store t j e ht hpc hj => exact tinv_store P hkey s t j e h hpc hj
  | @acquire t j ht hpc hlk =>
    have hsc := h.scan t j (by rw [hpc]; rfl)
    exact tinv_frame P s t (.lwalk j) s.slot s.created (some t) h id
      (by intro j' hj'; simp only [scanPos, Option.some.injEq] at hj'; subst hj'; exact hsc)
      (by simp [isPub]) (by simp [foundPos]) (by simp [present])
  | @lwalkNext t j e ht hpc hj hne =>
    have hsc := h.scan t j (by rw [hpc]; rfl)
    have hkj : (s.ks P t)[j]? = some e.keyId := getElem?_map_keyId _ j e hj
    have hlt : j < (s.ks P t).length := by
      rcases Nat.lt_or_ge j (s.ks P t).length with hh | hh
      · exact hh
      · rw [List.getElem?_eq_none hh] at hkj; cases hkj
    exact tinv_frame P s t (.lwalk (j + 1)) s.slot s.created s.lock h id
      (by intro j' hj'; simp only [scanPos, Option.some.injEq] at hj'; subst hj'
          refine ⟨hlt, ?_⟩
          intro i hi
          rcases Nat.lt_or_ge i j with h1 | h1
          · exact hsc.2 i h1
          · have : i = j := by omega
            subst this; rw [hkj]; intro hx; exact hne (Option.some.inj hx))
      (by simp [isPub]) (by simp [foundPos]) (by simp [present])
  | @lwalkFound t j e ht hpc hj heq =>
    have hkj : (s.ks P t)[j]? = some e.keyId := getElem?_map_keyId _ j e hj
    exact tinv_frame P s t (.lrel j) s.slot s.created s.lock h id
      (by simp [scanPos]) (by simp [isPub])
      (by intro j' hj'; simp only [foundPos, Option.some.injEq] at hj'; subst hj'; rw [hkj, heq])
      (by simp [present])
  | @lwalkEnd t j tb blk ht hpc hj ha => exact tinv_alloc P s t j tb blk h hpc hj ha
  | lwalkEndFail ht hpc hj ha hfl => rw [hf] at hfl; cases hfl
  | @lrel t j ht hpc =>
    have hfd := h.found t j (by rw [hpc]; rfl)
    exact tinv_frame P s t (.store j) s.slot s.created none h id
      (by simp [scanPos]) (by simp [isPub])
      (by intro j' hj'; simp only [foundPos, Option.some.injEq] at hj'; subst hj'; exact hfd)
      (by simp [present])
  | @publish t j blk ht hpc => exact tinv_publish P s t j blk hp h hpc
  | @unlock t ht hpc =>
    have hpr := h.present t (by rw [hpc]; rfl)
    exact tinv_frame P s t (.done true) s.slot s.created none h id
      (by simp [scanPos]) (by simp [isPub]) (by simp [foundPos]) (fun _ => hpr)
  | @unlockFail t ht hpc => exact absurd hpc (hp.nofail t).2.2

theorem chainGet_mem (k : Nat) (c : List Elem) (h : k ∈ c.map (·.keyId)) :
    ∃ e ∈ c, e.keyId = k ∧ chainGet k c = e.val := by
  induction c with
  | nil => simp at h
  | cons a r ih =>
    by_cases ha : a.keyId = k
    · exact ⟨a, by simp, ha, by simp [chainGet, ha]⟩
    · simp only [List.map_cons, List.mem_cons] at h
      rcases h with h | h
      · exact absurd h.symm ha
      · obtain ⟨e, he, hk, hv⟩ := ih h
        exact ⟨e, by simp [he], hk, by simp [chainGet, ha, hv]⟩

theorem race_main (P : Params) (hsz : 0 < P.size) (hf : P.faults = false)
    (hkey : ∀ a b, (P.key a).id = (P.key b).id → P.key a = P.key b)
    (tr : List (Nat × Act)) (s : CSt) (h : Star (Step P) CSt.init tr s) :
    s.created ≤ 1 ∧ (s.slot = .valid → s.created = 1) ∧
    (∀ t, s.pc t ≠ .crashed ∧ s.pc t ≠ .done false) ∧
    (s.slot = .valid → WF (fun k => (P.key (s.lastw k)).dtor) s.tbl ∧ s.tbl.size = P.size) ∧
    (∀ t, s.pc t = .done true →
        s.slot = .valid ∧ (P.key (s.lastw (P.key t).id)).id = (P.key t).id ∧
        tget s.tbl (P.key t).id = P.val (s.lastw (P.key t).id) ∧
        ((∀ t', t' < P.n → (P.key t').id = (P.key t).id → t' = t) → tget s.tbl (P.key t).id = P.val t)) := by
  have hinv : PInv P s ∧ TInv P s ∧ (∀ k, s.lastw k < P.n ∨ s.lastw k = 0) := by
    refine Star.invariant (fun s => PInv P s ∧ TInv P s ∧ (∀ k, s.lastw k < P.n ∨ s.lastw k = 0)) ?_ h
      ⟨pinv_init P, tinv_init P, fun _ => Or.inr rfl⟩
    intro s e s' ⟨hp, ht, hl⟩ hs
    refine ⟨pinv_step P hf s e s' hp hs, tinv_step P hkey hf s e s' hp ht hs, ?_⟩
    cases hs <;> try exact hl
    all_goals
      intro k
      simp only [upd]
      split
      · left; assumption
      · exact hl k
  obtain ⟨hp, ht, hl⟩ := hinv
  refine ⟨?_, ?_, ?_, ?_, ?_⟩
  · rw [hp.created]; split <;> omega
  · intro hv; rw [hp.created]; simp [hv]
  · intro t; exact ⟨(hp.nofail t).1, (hp.nofail t).2.1⟩
  · intro hv
    have hs := ht.size hv
    refine ⟨⟨by rw [hs]; exact hsz, ?_, ht.nodup, ?_⟩, hs⟩
    · intro i e he; rw [hs]; exact ht.idx i e he
    · intro i e he; rw [(ht.val i e he).2]
  · intro t hd
    have hv : s.slot = .valid := hp.tbl t (by rw [hd]; rfl)
    have hpr : (P.key t).id ∈ s.ks P t := ht.present t (by rw [hd]; rfl)
    obtain ⟨e, he, hek, hget⟩ := chainGet_mem _ _ hpr
    have hval := ht.val _ e he
    have hs := ht.size hv
    have htg : tget s.tbl (P.key t).id = e.val := by
      simp only [tget, hs]; exact hget
    have hid : (P.key (s.lastw (P.key t).id)).id = (P.key t).id := by
      rw [← hek, hval.2]
    refine ⟨hv, hid, ?_, ?_⟩
    · rw [htg, hval.1, hek]
    · intro huniq
      rw [htg, hval.1, hek]
      rcases hl (P.key t).id with hlt | h0
      · rw [huniq _ hlt hid]
      · -- lastw = 0: thread 0 has the same key id; if 0 < n it is t by uniqueness; else derive from key equality
        have hk0 : P.key (s.lastw (P.key t).id) = P.key t := hkey _ _ hid
        rw [h0] at hk0 hid
        by_cases hn : 0 < P.n
        · rw [h0, huniq 0 hn hid]
        · -- no caller can have stored: P.n = 0 contradicts `done true` of t (t < n is needed for any step)
          rw [h0]
          exact absurd hd (by
            have : ∀ t, s.pc t = .start := by
              refine Star.invariant (fun s => ∀ t, s.pc t = .start) ?_ h (fun _ => rfl)
              intro s e s' hi hs
              cases hs <;> omega
            rw [this t]; intro hx; cases hx)

theorem exec_sound (P : Params) (s : CSt) (ev : Nat × Act) (s' : CSt) (h : exec P s ev = some s') :
    Step P s ev s' := by
  obtain ⟨t, a⟩ := ev
  simp only [exec] at h
  split at h
  · cases h
  · next hnt =>
    have ht : t < P.n := Decidable.not_not.mp hnt
    split at h
    all_goals first
      | (cases h; done)
      | (split at h
         all_goals first
           | (cases h; done)
           | (simp only [Option.some.injEq] at h; subst h; constructor <;> assumption)
           | (split at h
              all_goals first
                | (cases h; done)
                | (simp only [Option.some.injEq] at h; subst h; constructor <;> assumption)))
      | (simp only [Option.some.injEq] at h; subst h; constructor <;> assumption)

theorem execTrace_star (P : Params) (tr : List (Nat × Act)) (s s' : CSt) (h : execTrace P s tr = some s') :
    Star (Step P) s tr s' := by
  induction tr generalizing s with
  | nil => simp only [execTrace, Option.some.injEq] at h; subst h; exact Star.refl _
  | cons e es ih =>
    simp only [execTrace] at h
    cases he : exec P s e with
    | none => simp [he] at h
    | some s1 => simp only [he] at h; exact Star.cons (exec_sound P s e s1 he) (ih s1 h)

def exGeom : Geom := ⟨108, 32, 8, 16, 32⟩

def failTrace : List (Nat × Act) :=
  [(0, .loadInvalid), (0, .casOk), (1, .loadInvalid), (1, .casFail), (1, .reloadLocked),
   (0, .createFail), (1, .spinNull)]

def failP : Params := { g := ⟨108, 32, 8, 16, 32⟩, size := 4, n := 2, key := fun t => ⟨2 + t, 0⟩,
                        val := fun t => t + 1, faults := true }

theorem failTrace_ok : (execTrace failP CSt.init failTrace).isSome = true := by decide

theorem race_failure_example :
    ∃ tr s, Star (Step { g := ⟨108, 32, 8, 16, 32⟩, size := 4, n := 2, key := fun t => ⟨2 + t, 0⟩,
                         val := fun t => t + 1, faults := true }) CSt.init tr s ∧ s.pc 1 = .crashed :=
  ⟨failTrace, (execTrace failP CSt.init failTrace).get failTrace_ok,
   execTrace_star failP _ _ _ (Option.some_get failTrace_ok).symm, by decide⟩

def okTrace : List (Nat × Act) :=
  [(0, .loadInvalid), (0, .casOk), (1, .loadInvalid), (1, .casFail), (1, .reloadLocked), (1, .spinLocked),
   (0, .create), (1, .spinValid), (0, .walkEnd), (1, .walkEnd),
   (0, .acquire), (0, .lwalkEnd), (0, .publish), (0, .unlock),
   (1, .acquire), (1, .lwalkNext), (1, .lwalkEnd), (1, .publish), (1, .unlock)]

def okP : Params := { g := ⟨108, 32, 8, 16, 32⟩, size := 1, n := 2, key := fun t => ⟨2 + t, 0⟩,
                      val := fun t => t + 1, faults := false }

theorem okTrace_ok : (execTrace okP CSt.init okTrace).isSome = true := by decide

theorem race_success_example :
    ∃ tr s, Star (Step { g := ⟨108, 32, 8, 16, 32⟩, size := 1, n := 2, key := fun t => ⟨2 + t, 0⟩,
                         val := fun t => t + 1, faults := false }) CSt.init tr s ∧
    s.pc 0 = .done true ∧ s.pc 1 = .done true ∧ tget s.tbl 2 = 1 ∧ tget s.tbl 3 = 2 :=
  ⟨okTrace, (execTrace okP CSt.init okTrace).get okTrace_ok,
   execTrace_star okP _ _ _ (Option.some_get okTrace_ok).symm, by decide, by decide, by decide, by decide⟩

end ArgoVerif.Model.KTable
