import ArgoVerif.Proofs.PopWaitC
/- Proofs.PopWaitC6 — timing invariant: mutex and condition variable steps of FIFO_WAIT. -/
namespace ArgoVerif.Model.PopWait
open ArgoVerif
set_option maxHeartbeats 2000000

theorem invC_mlock (k : Kind) (s s' : St) (a : Actor) (hA : InvA k s) (h : InvC k s) (hs : stepMlock s a = some s') :
    InvC k (bump s' (some a)) := by
  unfold stepMlock at hs
  (repeat' (split at hs)) <;> pointwise hA h a hs

theorem invC_munlock (k : Kind) (s s' : St) (a : Actor) (hA : InvA k s) (h : InvC k s) (hs : stepMunlock s a = some s') :
    InvC k (bump s' (some a)) := by
  unfold stepMunlock at hs
  (repeat' (split at hs)) <;> pointwise hA h a hs

theorem invC_condWait (k : Kind) (s s' : St) (a : Actor) (dl : Nat) (hA : InvA k s) (h : InvC k s) (hs : stepCondWait s a dl = some s') :
    InvC k (bump s' (some a)) := by
  unfold stepCondWait at hs
  (repeat' (split at hs)) <;> pointwise hA h a hs

theorem invC_timeout (k : Kind) (s s' : St) (a : Actor) (hA : InvA k s) (h : InvC k s) (hs : stepTimeout s a = some s') :
    InvC k (bump s' (some a)) := by
  unfold stepTimeout at hs
  (repeat' (split at hs)) <;> pointwise hA h a hs

theorem invC_spurious (k : Kind) (s s' : St) (a : Actor) (hA : InvA k s) (h : InvC k s) (hs : stepSpurious s a = some s') :
    InvC k (bump s' (some a)) := by
  unfold stepSpurious at hs
  (repeat' (split at hs)) <;> pointwise hA h a hs

theorem invC_signal (k : Kind) (s s' : St) (a : Actor) (w : Option Actor) (hA : InvA k s) (h : InvC k s)
    (hs : stepSignal s a w = some s') : InvC k (bump s' (some a)) := by
  unfold stepSignal at hs
  split at hs
  · cases hs
  · rename_i hpc
    have hpc : s.pc a = .fpSig := by simpa using hpc
    split at hs
    · (repeat' (split at hs)) <;> pointwise hA h a hs
    · rename_i w
      split at hs
      · rename_i hw
        have hpw : s.pc w = .fwSleep := (hA.waitIff w).mp hw
        have hwa : w ≠ a := fun e => by subst e; rw [hpc] at hpw; cases hpw
        cases hs
        intro b
        by_cases hb : b = a
        · subst hb
          have hb0 := h b
          simp only [bump, setPc, upd, if_true, hwa.symm, if_false] at hb0 ⊢
          (have hkP := fun e => hA.kindP e b; have hkF := fun e => hA.kindF e b; tk hb0 hkP hkF)
        · by_cases hbw : b = w
          · subst hbw
            have hb0 := h b
            simp only [bump, setPc, upd, hb, if_false, if_true] at hb0 ⊢
            (have hkP := fun e => hA.kindP e b; have hkF := fun e => hA.kindF e b; tk hb0 hkP hkF)
          · have hb0 := h b
            simp only [bump, setPc, upd, hb, hbw, if_false] at hb0 ⊢
            exact hb0
      · cases hs

end ArgoVerif.Model.PopWait
