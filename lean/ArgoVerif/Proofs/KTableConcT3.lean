import ArgoVerif.Proofs.KTableConcT2
/-
Proofs.KTableConcT3 — every step preserves the invariants; soundness of the executable step;
consequences (tail append, monotone chains, linearizable get, last-writer map, destructors).
-/
namespace ArgoVerif.Model.KTableConc
open ArgoVerif ArgoVerif.Model.KTable

theorem ks_getElem? (c : Cfg) (s : St) (kid j : Nat) (e : Elem) (h : (chain c s kid)[j]? = some e) :
    (ks c s.tbl kid)[j]? = some e.keyId := by
  rw [ks_chain]; exact getElem?_map_keyId _ j e h

theorem ks_getElem?_none (c : Cfg) (s : St) (kid j : Nat) (h : (chain c s kid)[j]? = none) :
    (ks c s.tbl kid)[j]? = none := by
  simp [ks_chain, List.getElem?_map, h]

theorem tinv_step (c : Cfg) (s : St) (e : Ev) (s' : St) (hp : PInv s) (h : TInv c s) (hs : Step c s e s') :
    TInv c s' := by
  cases hs with
  | @startSafe a k v hpc hl hpr hk =>
    refine tinv_frame c s _ a (.walk k v true 0) h rfl rfl rfl ?_ ?_ ?_ ?_ ?_ ?_
    · intro k' hk'; simp only [keyOfPc, Option.some.injEq] at hk'; subst hk'; exact hk
    · intro kid j hj; simp only [scanOf, Option.some.injEq, Prod.mk.injEq] at hj
      obtain ⟨_, h2⟩ := hj; subst h2
      exact ⟨Nat.zero_le _, fun i hi => absurd hi (Nat.not_lt_zero _)⟩
    · simp [pubOf]
    · simp [foundOf]
    · simp [getH0]
    · simp
  | @startUnsafe a k v hall hl hpr hk =>
    refine tinv_frame c s _ a (.walk k v false 0) h rfl rfl rfl ?_ ?_ ?_ ?_ ?_ ?_
    · intro k' hk'; simp only [keyOfPc, Option.some.injEq] at hk'; subst hk'; exact hk
    · intro kid j hj; simp only [scanOf, Option.some.injEq, Prod.mk.injEq] at hj
      obtain ⟨_, h2⟩ := hj; subst h2
      exact ⟨Nat.zero_le _, fun i hi => absurd hi (Nat.not_lt_zero _)⟩
    · simp [pubOf]
    · simp [foundOf]
    · simp [getH0]
    · simp
  | @walkNext a k v sf j e hpc hj hne =>
    have hsc := h.scan a k.id j (by rw [hpc]; rfl)
    have hkd := h.kdt a k (by rw [hpc]; rfl)
    refine tinv_frame c s _ a (.walk k v sf (j + 1)) h rfl rfl rfl ?_ ?_ ?_ ?_ ?_ ?_
    · intro k' hk'; simp only [keyOfPc, Option.some.injEq] at hk'; subst hk'; exact hkd
    · intro kid j' hj'; simp only [scanOf, Option.some.injEq, Prod.mk.injEq] at hj'
      obtain ⟨h1, h2⟩ := hj'; subst h1; subst h2
      exact scan_next _ _ _ _ (ks_getElem? c s k.id j e hj) hne hsc
    · simp [pubOf]
    · simp [foundOf]
    · simp [getH0]
    · simp
  | @walkFound a k v sf j e hpc hj heq =>
    have hkd := h.kdt a k (by rw [hpc]; rfl)
    refine tinv_frame c s _ a (.found k v j) h rfl rfl rfl ?_ ?_ ?_ ?_ ?_ ?_
    · intro k' hk'; simp only [keyOfPc, Option.some.injEq] at hk'; subst hk'; exact hkd
    · simp [scanOf]
    · simp [pubOf]
    · intro kid j' hj'; simp only [foundOf, Option.some.injEq, Prod.mk.injEq] at hj'
      obtain ⟨h1, h2⟩ := hj'; subst h1; subst h2
      rw [ks_getElem? c s k.id j e hj, heq]
    · simp [getH0]
    · simp
  | @walkEndSafe a k v j hpc hj =>
    have hsc := h.scan a k.id j (by rw [hpc]; rfl)
    have hkd := h.kdt a k (by rw [hpc]; rfl)
    refine tinv_frame c s _ a (.acq k v j) h rfl rfl rfl ?_ ?_ ?_ ?_ ?_ ?_
    · intro k' hk'; simp only [keyOfPc, Option.some.injEq] at hk'; subst hk'; exact hkd
    · intro kid j' hj'; simp only [scanOf, Option.some.injEq, Prod.mk.injEq] at hj'
      obtain ⟨h1, h2⟩ := hj'; subst h1; subst h2; exact hsc
    · simp [pubOf]
    · simp [foundOf]
    · simp [getH0]
    · simp
  | @walkEndUnsafe a k v j hpc hj =>
    have hsc := h.scan a k.id j (by rw [hpc]; rfl)
    have hkd := h.kdt a k (by rw [hpc]; rfl)
    refine tinv_frame c s _ a (.lwalk k v false j) h rfl rfl rfl ?_ ?_ ?_ ?_ ?_ ?_
    · intro k' hk'; simp only [keyOfPc, Option.some.injEq] at hk'; subst hk'; exact hkd
    · intro kid j' hj'; simp only [scanOf, Option.some.injEq, Prod.mk.injEq] at hj'
      obtain ⟨h1, h2⟩ := hj'; subst h1; subst h2; exact hsc
    · simp [pubOf]
    · simp [foundOf]
    · simp [getH0]
    · simp
  | @acquire a k v j hpc hlk =>
    have hsc := h.scan a k.id j (by rw [hpc]; rfl)
    have hkd := h.kdt a k (by rw [hpc]; rfl)
    refine tinv_frame c s _ a (.lwalk k v true j) h rfl rfl rfl ?_ ?_ ?_ ?_ ?_ ?_
    · intro k' hk'; simp only [keyOfPc, Option.some.injEq] at hk'; subst hk'; exact hkd
    · intro kid j' hj'; simp only [scanOf, Option.some.injEq, Prod.mk.injEq] at hj'
      obtain ⟨h1, h2⟩ := hj'; subst h1; subst h2; exact hsc
    · simp [pubOf]
    · simp [foundOf]
    · simp [getH0]
    · simp
  | @lwalkNext a k v sf j e hpc hj hne =>
    have hsc := h.scan a k.id j (by rw [hpc]; rfl)
    have hkd := h.kdt a k (by rw [hpc]; rfl)
    refine tinv_frame c s _ a (.lwalk k v sf (j + 1)) h rfl rfl rfl ?_ ?_ ?_ ?_ ?_ ?_
    · intro k' hk'; simp only [keyOfPc, Option.some.injEq] at hk'; subst hk'; exact hkd
    · intro kid j' hj'; simp only [scanOf, Option.some.injEq, Prod.mk.injEq] at hj'
      obtain ⟨h1, h2⟩ := hj'; subst h1; subst h2
      exact scan_next _ _ _ _ (ks_getElem? c s k.id j e hj) hne hsc
    · simp [pubOf]
    · simp [foundOf]
    · simp [getH0]
    · simp
  | @lwalkFoundSafe a k v j e hpc hj heq =>
    have hkd := h.kdt a k (by rw [hpc]; rfl)
    refine tinv_frame c s _ a (.lfound k v j) h rfl rfl rfl ?_ ?_ ?_ ?_ ?_ ?_
    · intro k' hk'; simp only [keyOfPc, Option.some.injEq] at hk'; subst hk'; exact hkd
    · simp [scanOf]
    · simp [pubOf]
    · intro kid j' hj'; simp only [foundOf, Option.some.injEq, Prod.mk.injEq] at hj'
      obtain ⟨h1, h2⟩ := hj'; subst h1; subst h2
      rw [ks_getElem? c s k.id j e hj, heq]
    · simp [getH0]
    · simp
  | @lwalkFoundUnsafe a k v j e hpc hj heq =>
    have hkd := h.kdt a k (by rw [hpc]; rfl)
    refine tinv_frame c s _ a (.found k v j) h rfl rfl rfl ?_ ?_ ?_ ?_ ?_ ?_
    · intro k' hk'; simp only [keyOfPc, Option.some.injEq] at hk'; subst hk'; exact hkd
    · simp [scanOf]
    · simp [pubOf]
    · intro kid j' hj'; simp only [foundOf, Option.some.injEq, Prod.mk.injEq] at hj'
      obtain ⟨h1, h2⟩ := hj'; subst h1; subst h2
      rw [ks_getElem? c s k.id j e hj, heq]
    · simp [getH0]
    · simp
  | @lwalkEnd a k v sf j tb blk hpc hj ha => exact tinv_alloc c s a k v sf j tb blk h hpc hj ha
  | @allocFailSafe a k v j hpc hj ha =>
    refine tinv_frame c s _ a .failRel h rfl rfl rfl ?_ ?_ ?_ ?_ ?_ ?_ <;> simp [keyOfPc, scanOf, pubOf, foundOf, getH0]
  | @allocFailUnsafe a k v j hpc hj ha =>
    refine tinv_frame c s _ a (.setDone false) h rfl rfl rfl ?_ ?_ ?_ ?_ ?_ ?_ <;>
      simp [keyOfPc, scanOf, pubOf, foundOf, getH0]
  | @releaseFound a k v j hpc =>
    have hfd := h.found a k.id j (by rw [hpc]; rfl)
    have hkd := h.kdt a k (by rw [hpc]; rfl)
    refine tinv_frame c s _ a (.found k v j) h rfl rfl rfl ?_ ?_ ?_ ?_ ?_ ?_
    · intro k' hk'; simp only [keyOfPc, Option.some.injEq] at hk'; subst hk'; exact hkd
    · simp [scanOf]
    · simp [pubOf]
    · intro kid j' hj'; simp only [foundOf, Option.some.injEq, Prod.mk.injEq] at hj'
      obtain ⟨h1, h2⟩ := hj'; subst h1; subst h2; exact hfd
    · simp [getH0]
    · simp
  | @releaseFail a hpc =>
    refine tinv_frame c s _ a (.setDone false) h rfl rfl rfl ?_ ?_ ?_ ?_ ?_ ?_ <;>
      simp [keyOfPc, scanOf, pubOf, foundOf, getH0]
  | @publishSafe a k v j blk hpc => exact tinv_publish c s a k v true j blk .unlock hp h hpc (Or.inl rfl)
  | @publishUnsafe a k v j blk hpc => exact tinv_publish c s a k v false j blk (.setDone true) hp h hpc (Or.inr rfl)
  | @unlock a hpc =>
    refine tinv_frame c s _ a (.setDone true) h rfl rfl rfl ?_ ?_ ?_ ?_ ?_ ?_ <;>
      simp [keyOfPc, scanOf, pubOf, foundOf, getH0]
  | @storeVal a k v j e hpc hj => exact tinv_storeVal c s a k v j e h hpc hj
  | @endSet a ok hpc =>
    refine tinv_frame c s _ a .idle h rfl rfl rfl ?_ ?_ ?_ ?_ ?_ ?_ <;> simp [keyOfPc, scanOf, pubOf, foundOf, getH0]
  | @startGet a kid hpc hl hpr =>
    refine tinv_frame c s _ a (.gwalk kid (s.hist kid).length 0) h rfl rfl rfl ?_ ?_ ?_ ?_ ?_ ?_
    · simp [keyOfPc]
    · intro kid' j hj; simp only [scanOf, Option.some.injEq, Prod.mk.injEq] at hj
      obtain ⟨_, h2⟩ := hj; subst h2
      exact ⟨Nat.zero_le _, fun i hi => absurd hi (Nat.not_lt_zero _)⟩
    · simp [pubOf]
    · simp [foundOf]
    · intro kid' h0 hg; simp only [getH0, Option.some.injEq, Prod.mk.injEq] at hg
      obtain ⟨h1, h2⟩ := hg; subst h1; subst h2; exact Nat.le_refl _
    · simp
  | @gNext a kid h0 j e hpc hj hne =>
    have hsc := h.scan a kid j (by rw [hpc]; rfl)
    have hg := h.gh0 a kid h0 (by rw [hpc]; rfl)
    refine tinv_frame c s _ a (.gwalk kid h0 (j + 1)) h rfl rfl rfl ?_ ?_ ?_ ?_ ?_ ?_
    · simp [keyOfPc]
    · intro kid' j' hj'; simp only [scanOf, Option.some.injEq, Prod.mk.injEq] at hj'
      obtain ⟨h1, h2⟩ := hj'; subst h1; subst h2
      exact scan_next _ _ _ _ (ks_getElem? c s kid j e hj) hne hsc
    · simp [pubOf]
    · simp [foundOf]
    · intro kid' h0' hg'; simp only [getH0, Option.some.injEq, Prod.mk.injEq] at hg'
      obtain ⟨h1, h2⟩ := hg'; subst h1; subst h2; exact hg
    · simp
  | @gFound a kid h0 j e hpc hj heq =>
    have hg := h.gh0 a kid h0 (by rw [hpc]; rfl)
    refine tinv_frame c s _ a (.gread kid h0 j) h rfl rfl rfl ?_ ?_ ?_ ?_ ?_ ?_
    · simp [keyOfPc]
    · simp [scanOf]
    · simp [pubOf]
    · intro kid' j' hj'; simp only [foundOf, Option.some.injEq, Prod.mk.injEq] at hj'
      obtain ⟨h1, h2⟩ := hj'; subst h1; subst h2
      rw [ks_getElem? c s kid j e hj, heq]
    · intro kid' h0' hg'; simp only [getH0, Option.some.injEq, Prod.mk.injEq] at hg'
      obtain ⟨h1, h2⟩ := hg'; subst h1; subst h2; exact hg
    · simp
  | @gEnd a kid h0 j hpc hj =>
    have hsc := h.scan a kid j (by rw [hpc]; rfl)
    have hg := h.gh0 a kid h0 (by rw [hpc]; rfl)
    have hnot : kid ∉ ks c s.tbl kid := mem_of_getElem?_none_prefix _ j _ (ks_getElem?_none c s kid j hj) hsc.2
    have hh := h.habs kid hnot
    refine tinv_frame c s _ a (.gret kid h0 0 0) h rfl rfl rfl ?_ ?_ ?_ ?_ ?_ ?_
    · simp [keyOfPc]
    · simp [scanOf]
    · simp [pubOf]
    · simp [foundOf]
    · simp [getH0]
    · intro kid' h0' r hr hx
      simp only [Pc.gret.injEq] at hx
      obtain ⟨h1, h2, h3, h4⟩ := hx; subst h1; subst h2; subst h3; subst h4
      left; refine ⟨rfl, rfl, ?_⟩
      rw [hh] at hg; simpa using hg
  | @readVal a kid h0 j e hpc hj =>
    have hfd := h.found a kid j (by rw [hpc]; rfl)
    have hg := h.gh0 a kid h0 (by rw [hpc]; rfl)
    have hek : e.keyId = kid := by
      rw [ks_getElem? c s kid j e hj] at hfd; exact Option.some.inj hfd
    have hv := h.hval _ e (List.mem_of_getElem? hj)
    rw [hek] at hv
    refine tinv_frame c s _ a (.gret kid h0 e.val (s.hist kid).length) h rfl rfl rfl ?_ ?_ ?_ ?_ ?_ ?_
    · simp [keyOfPc]
    · simp [scanOf]
    · simp [pubOf]
    · simp [foundOf]
    · simp [getH0]
    · intro kid' h0' r hr hx
      simp only [Pc.gret.injEq] at hx
      obtain ⟨h1, h2, h3, h4⟩ := hx; subst h1; subst h2; subst h3; subst h4
      right
      rw [List.getLast?_eq_getElem?] at hv
      have hlt := lt_of_getElem?_some _ _ _ hv
      exact ⟨hg, by omega, hv⟩
  | @endGet a kid h0 r hr hpc =>
    refine tinv_frame c s _ a .idle h rfl rfl rfl ?_ ?_ ?_ ?_ ?_ ?_ <;> simp [keyOfPc, scanOf, pubOf, foundOf, getH0]
  | free hall hl =>
    exact ⟨h.size, h.idx, h.nodup, h.dtor, h.hval, h.habs, h.kdt, h.scan, h.pubc, h.found, h.gh0, h.gret⟩

/-- both invariants along any run of the relational model -/
theorem inv_star (c : Cfg) (tr : List Ev) (s : St) (h : Star (Step c) (init c) tr s) : PInv s ∧ TInv c s := by
  refine Star.invariant (fun s => PInv s ∧ TInv c s) ?_ h ⟨pinv_init c, tinv_init c⟩
  intro s e s' ⟨hp, ht⟩ hs
  exact ⟨pinv_step c s e s' hp hs, tinv_step c s e s' hp ht hs⟩

end ArgoVerif.Model.KTableConc
