import ArgoVerif.Proofs.MemPoolInv
/-
Proofs.MemPoolTake — `ABTI_mem_pool_take_bucket` preserves the invariant: popping the global
LIFO, carving fresh headers out of pages (no overlap, never outside the page, the
`ABTI_ASSERT(num_provided != 0)` never fires), and the allocation-failure path.
-/
namespace ArgoVerif.Model.MemPool
open ArgoVerif

/-- `s'` differs from `s` only at headers whose label is in `T` -/
structure Frame (T : Owner → Prop) (s s' : St) : Prop where
  own : ∀ x o, ¬ T o → (s'.own x = o ↔ s.own x = o)
  heap : ∀ x, ¬ T (s.own x) → s'.next x = s.next x ∧ s'.cnt x = s.cnt x

theorem Frame.bucket {T : Owner → Prop} {s s' : St} (f : Frame T s s') {a : Hdr} {n : Nat} {o : Owner}
    (hb : IsBucket s.next s.own a n o) (ho : ¬ T o) : IsBucket s'.next s'.own a n o :=
  hb.relabel (fun x hx => (f.heap x (by rw [hx]; exact ho)).1) (fun x => f.own x o ho)

theorem Frame.cnt {T : Owner → Prop} {s s' : St} (f : Frame T s s') {a : Hdr} {n : Nat} {o : Owner}
    (hb : IsBucket s.next s.own a n o) (hn : 0 < n) (ho : ¬ T o) : s'.cnt a = s.cnt a := by
  have := hb.head_own hn
  exact (f.heap a (by rw [this]; exact ho)).2

/-- generic frame for operations that leave local pools, the global LIFO and the handed-out
blocks alone -/
theorem InvG.frame {P : Params} {s s' : St} {th th' : Option Hdr} {tn tn' : Nat} {lo : Nat → Nat}
    {T : Owner → Prop} (h : InvG P s th tn lo) (f : Frame T s s')
    (hloc : ∀ i j, ¬ T (.loc i j)) (hlifo : ∀ b, ¬ T (.lifo b)) (hout : ¬ T .out)
    (hlp : s'.lp = s.lp) (hli : s'.lifo = s.lifo) (ho : s'.out = s.out)
    (hpartB : ∀ p, s'.part = some p →
          IsBucket s'.next s'.own p (s'.cnt p) .part ∧ 1 ≤ s'.cnt p ∧ s'.cnt p < P.perBucket)
    (hpartOwn : s'.part = none → ∀ x, s'.own x ≠ .part)
    (htmpB : ∀ b, th' = some b → IsBucket s'.next s'.own b tn' .tmp ∧ 1 ≤ tn' ∧ tn' ≤ P.perBucket)
    (htmpOwn : th' = none → ∀ x, s'.own x ≠ .tmp)
    (hcarvedOwn : ∀ x, x ∈ s'.carved ↔ s'.own x ≠ .unused) (hcarvedNd : s'.carved.Nodup)
    (hgeo : Geo P s') : InvG P s' th' tn' lo := by
  constructor
  · rw [hlp]; exact h.lpBidx
  · intro i lp j hlp' h1 h2
    rw [hlp] at hlp'
    obtain ⟨k1, k2, k3, k4⟩ := h.lpB i lp j hlp' h1 h2
    rw [f.cnt k1 k2 (hloc i j)]
    exact ⟨f.bucket k1 (hloc i j), k2, k3, k4⟩
  · intro x i j hx; rw [hlp]; exact h.locOwn x i j ((f.own x _ (hloc i j)).mp hx)
  · intro b hb; rw [hli] at hb; exact f.bucket (h.lifoB b hb) (hlifo b)
  · rw [hli]; exact h.lifoNd
  · intro x b hx; rw [hli]; exact h.lifoOwn x b ((f.own x _ (hlifo b)).mp hx)
  · exact hpartB
  · exact hpartOwn
  · exact htmpB
  · exact htmpOwn
  · intro x; rw [ho, h.outOwn]; exact (f.own x _ hout).symm
  · rw [ho]; exact h.outNd
  · exact hcarvedOwn
  · exact hcarvedNd
  · exact hgeo

/-- distinct headers of one carving run do not overlap -/
theorem hdrRun_disjoint {p hs k off : Nat} {x y : Hdr} (hx : x ∈ hdrRun p hs k off) (hy : y ∈ hdrRun p hs k off)
    (hne : x ≠ y) : x.2 + hs ≤ y.2 ∨ y.2 + hs ≤ x.2 := by
  induction k generalizing off with
  | zero => simp [hdrRun] at hx
  | succ k ih =>
    simp only [hdrRun, List.mem_cons] at hx hy
    rcases hx with rfl | hx <;> rcases hy with rfl | hy
    · exact absurd rfl hne
    · have := mem_hdrRun hy; left; simp; omega
    · have := mem_hdrRun hx; right; simp; omega
    · exact ih hx hy

/-- `pickPage`: the page chosen is a real page with room for a header, and is no longer on
`mem_page_lifo`; nothing else changes -/
theorem pickPage_inv {P : Params} {s s1 : St} {p : Nat} {th : Option Hdr} {tn : Nat} {lo : Nat → Nat} (hP : P.OK)
    (h : InvG P s th tn lo) (hpk : pickPage P s = some (s1, p)) :
    InvG P s1 th tn lo ∧ p < s1.npages ∧ P.headerSize ≤ (s1.pages p).extraSize ∧ p ∉ s1.pageLifo ∧
    s1.next = s.next ∧ s1.cnt = s.cnt ∧ s1.own = s.own ∧ s1.lp = s.lp ∧ s1.lifo = s.lifo ∧ s1.part = s.part ∧
    s1.out = s.out ∧ s1.carved = s.carved := by
  unfold pickPage at hpk
  cases hl : s.pageLifo with
  | cons q rest =>
    simp only [hl, Option.some.injEq, Prod.mk.injEq] at hpk
    obtain ⟨rfl, rfl⟩ := hpk
    have hnd : (q :: rest).Nodup := hl ▸ h.geo.pgLifoNd
    have hq := h.geo.pgLifo q (by rw [hl]; simp)
    refine ⟨{ h with geo := ?_ }, hq.1, hq.2, (List.nodup_cons.mp hnd).1, rfl, rfl, rfl, rfl, rfl, rfl, rfl, rfl⟩
    exact { h.geo with pgLifo := fun p hp => h.geo.pgLifo p (by rw [hl]; exact List.mem_cons_of_mem _ hp),
                       pgLifoNd := (List.nodup_cons.mp hnd).2 }
  | nil =>
    simp only [hl] at hpk
    split at hpk
    · cases hpk
    · simp only [Option.some.injEq, Prod.mk.injEq] at hpk
      obtain ⟨rfl, rfl⟩ := hpk
      refine ⟨{ h with geo := ?_ }, Nat.lt_succ_self _, ?_, by simp, rfl, rfl, rfl, rfl, rfl, rfl, rfl, rfl⟩
      · constructor
        · intro x hx
          have := h.geo.pgIn x hx
          have hne : x.1 ≠ s.npages := by omega
          simp only [upd, hne, if_false]
          exact ⟨by omega, this.2⟩
        · intro p hp
          by_cases e : p = s.npages
          · subst e; simp only [upd_same]; have := hP.fits; omega
          · simp only [upd, e, if_false]; exact h.geo.pgSum p (by simp at hp; omega)
        · intro p hp; simp at hp
        · simp
        · exact h.geo.sep
        · exact h.geo.offDvd
        · intro p hp
          by_cases e : p = s.npages
          · subst e; simp only [upd_same]; exact Nat.dvd_zero _
          · simp only [upd, e, if_false]; exact h.geo.pgDvd p (by simp at hp; omega)
      · simp only [upd_same]; have := hP.fits; omega

/-- the chain in flight as a list, whether or not it is empty -/
theorem InvG.tmp_list {P : Params} {s : St} {head : Option Hdr} {n : Nat} {lo : Nat → Nat}
    (h : InvG P s head n lo) (hhead : head = none → n = 0) :
    ∃ L, Seg s.next head L none ∧ L.length = n ∧ L.Nodup ∧ ∀ x, x ∈ L ↔ s.own x = .tmp := by
  cases head with
  | none =>
    refine ⟨[], rfl, (hhead rfl).symm, List.nodup_nil, fun x => ?_⟩
    simp [h.tmpOwn rfl x]
  | some h0 => exact (h.tmpB h0 rfl).1

/-- one carving step on page `p` (`np` headers), described by the fields of the state after it -/
theorem carve_core {P : Params} {s s' : St} {p np : Nat} {head : Option Hdr} {n : Nat} {lo : Nat → Nat} (hP : P.OK)
    (h : InvG P s head n lo) (hhead : head = none → n = 0)
    (hp : p < s.npages) (hpl : p ∉ s.pageLifo) (hnp1 : 1 ≤ np)
    (hfit : P.headerSize * np ≤ (s.pages p).extraSize) (hn : n + np ≤ P.perBucket)
    (r : (Hdr → Option Hdr) × Hdr)
    (hr : r = linkRun P.headerSize (np - 1) (upd s.next (p, (s.pages p).extraOff) head) (p, (s.pages p).extraOff))
    (e_next : s'.next = r.1) (e_cnt : s'.cnt = s.cnt)
    (e_own : s'.own = fun x => if x ∈ hdrRun p P.headerSize np (s.pages p).extraOff then Owner.tmp else s.own x)
    (e_carved : s'.carved = s.carved ++ hdrRun p P.headerSize np (s.pages p).extraOff)
    (e_pages : s'.pages = upd s.pages p
        ⟨(s.pages p).extraOff + P.headerSize * np, (s.pages p).extraSize - P.headerSize * np⟩)
    (e_np : s'.npages = s.npages) (e_lp : s'.lp = s.lp) (e_lifo : s'.lifo = s.lifo) (e_part : s'.part = s.part)
    (e_out : s'.out = s.out)
    (e_pl : (s'.pageLifo = p :: s.pageLifo ∧ P.headerSize ≤ (s.pages p).extraSize - P.headerSize * np) ∨
            s'.pageLifo = s.pageLifo) :
    InvG P s' (some r.2) (n + np) lo := by
  have hpos := hP.headerSize_pos
  generalize hoff : (s.pages p).extraOff = off at *
  generalize hhs : P.headerSize = hs at *
  obtain ⟨m, rfl⟩ : ∃ m, np = m + 1 := ⟨np - 1, by omega⟩
  have hnewsplit : hdrRun p hs (m + 1) off = (p, off) :: hdrRun p hs m (off + hs) := rfl
  simp only [Nat.add_sub_cancel] at hr
  obtain ⟨hr2, hragree, hrseg⟩ := linkRun_spec hs hpos m (upd s.next (p, off) head) p off
  rw [← hr] at hr2 hragree hrseg
  -- the new headers were unused
  have hnew_unused : ∀ x, x ∈ hdrRun p hs (m + 1) off → s.own x = .unused := by
    intro x hx
    by_cases hu : s.own x = .unused
    · exact hu
    · exfalso
      have h1 := h.geo.pgIn x hu
      have h2 := mem_hdrRun hx
      rw [h2.1, hoff, hhs] at h1
      omega
  have htail_new : (p, off) ∈ hdrRun p hs (m + 1) off := by rw [hnewsplit]; simp
  have hsub : ∀ x, x ∈ hdrRun p hs m (off + hs) → x ∈ hdrRun p hs (m + 1) off := by
    intro x hx; rw [hnewsplit]; exact List.mem_cons_of_mem _ hx
  -- frame
  have f : Frame (fun o => o = .unused ∨ o = .tmp) s s' := by
    constructor
    · intro x o ho
      rw [e_own]; simp only
      split
      · rename_i hx
        rw [hnew_unused x hx]
        constructor
        · intro e; exact absurd (Or.inr e.symm) ho
        · intro e; exact absurd (Or.inl e.symm) ho
      · rfl
    · intro x hx
      have hxn : x ∉ hdrRun p hs (m + 1) off := fun hm => hx (Or.inl (hnew_unused x hm))
      have hxt : x ≠ (p, off) := fun e => hxn (e ▸ htail_new)
      refine ⟨?_, by rw [e_cnt]⟩
      rw [e_next, hragree x (fun hm => hxn (hsub x hm))]
      simp [upd, hxt]
  obtain ⟨Lold, so, lo_, ndo, mo⟩ := h.tmp_list hhead
  refine h.frame f (by simp) (by simp) (by simp) e_lp e_lifo e_out ?_ ?_ ?_ ?_ ?_ ?_ ?_
  · intro q hq
    rw [e_part] at hq
    obtain ⟨k1, k2, k3⟩ := h.partB q hq
    rw [f.cnt k1 k2 (by simp)]
    exact ⟨f.bucket k1 (by simp), k2, k3⟩
  · intro hq x
    rw [e_part] at hq
    intro e
    exact h.partOwn hq x ((f.own x _ (by simp)).mp e)
  · intro b hb
    simp only [Option.some.injEq] at hb; subst hb
    refine ⟨⟨(hdrRun p hs (m + 1) off).reverse ++ Lold, ?_, ?_, ?_, ?_⟩, by omega, hn⟩
    · rw [e_next, hnewsplit, List.reverse_cons]
      refine seg_append (b := head) ?_ ?_
      · rw [seg_snoc_iff]
        refine ⟨hrseg, ?_⟩
        rw [hragree (p, off) (by intro hm; have := mem_hdrRun hm; simp at this; omega)]
        simp
      · refine (seg_congr ?_).mpr so
        intro x hx
        have hxt : s.own x = .tmp := (mo x).mp hx
        have hxn : x ∉ hdrRun p hs (m + 1) off := by
          intro hm; rw [hnew_unused x hm] at hxt; cases hxt
        have hxt' : x ≠ (p, off) := fun e => hxn (e ▸ htail_new)
        rw [hragree x (fun hm => hxn (hsub x hm))]
        simp [upd, hxt']
    · simp [hdrRun_length, lo_]; omega
    · refine List.nodup_append.mpr ⟨(List.reverse_perm _).nodup_iff.mpr (hdrRun_nodup hpos), ndo, ?_⟩
      intro a ha b hb e
      subst e
      have := hnew_unused a (List.mem_reverse.mp ha)
      rw [(mo a).mp hb] at this; cases this
    · intro x
      rw [List.mem_append, List.mem_reverse, mo, e_own]; simp only
      split
      · rename_i hx; simp [hx]
      · rename_i hx; simp [hx]
  · intro e; cases e
  · intro x
    rw [e_carved, List.mem_append, h.carvedOwn, e_own]; simp only
    split
    · rename_i hx; simp [hx]
    · rename_i hx; simp [hx]
  · rw [e_carved]
    refine List.nodup_append.mpr ⟨h.carvedNd, hdrRun_nodup hpos, ?_⟩
    intro a ha b hb e
    subst e
    exact (h.carvedOwn a).mp ha (hnew_unused a hb)
  · -- geometry
    subst hhs
    have hown_iff : ∀ x, s'.own x ≠ .unused ↔ (x ∈ hdrRun p P.headerSize (m + 1) off ∨ s.own x ≠ .unused) := by
      intro x; rw [e_own]; simp only
      split
      · rename_i hx; simp [hx]
      · rename_i hx; simp [hx]
    have hsum := h.geo.pgSum p hp
    rw [hoff] at hsum
    constructor
    · intro x hx
      rw [e_np, e_pages]
      rcases (hown_iff x).mp hx with hx | hx
      · have := mem_hdrRun hx
        rw [this.1]; simp only [upd_same]
        exact ⟨hp, this.2.2⟩
      · have := h.geo.pgIn x hx
        refine ⟨this.1, ?_⟩
        by_cases e : x.1 = p
        · rw [e] at this ⊢; simp only [upd_same]; rw [hoff] at this; omega
        · simp only [upd, e, if_false]; exact this.2
    · intro q hq
      rw [e_np] at hq; rw [e_pages]
      by_cases e : q = p
      · subst e; simp only [upd_same]; omega
      · simp only [upd, e, if_false]; exact h.geo.pgSum q hq
    · intro q hq
      rw [e_np, e_pages]
      have old : ∀ q, q ∈ s.pageLifo → q < s.npages ∧ P.headerSize ≤ (upd s.pages p
          ⟨off + P.headerSize * (m + 1), (s.pages p).extraSize - P.headerSize * (m + 1)⟩ q).extraSize := by
        intro q hq
        have hne : q ≠ p := fun e => hpl (e ▸ hq)
        simp only [upd, hne, if_false]
        exact h.geo.pgLifo q hq
      rcases e_pl with ⟨e1, e2⟩ | e1
      · rw [e1] at hq
        rcases List.mem_cons.mp hq with rfl | hq
        · simp only [upd_same]; exact ⟨hp, e2⟩
        · exact old q hq
      · rw [e1] at hq; exact old q hq
    · rcases e_pl with ⟨e1, _⟩ | e1
      · rw [e1]; exact List.nodup_cons.mpr ⟨hpl, h.geo.pgLifoNd⟩
      · rw [e1]; exact h.geo.pgLifoNd
    · intro x y hx hy hxy hne
      rcases (hown_iff x).mp hx with hx | hx <;> rcases (hown_iff y).mp hy with hy | hy
      · exact hdrRun_disjoint hx hy hne
      · have h1 := mem_hdrRun hx
        have h2 := h.geo.pgIn y hy
        rw [← hxy, h1.1, hoff] at h2
        right; omega
      · have h1 := mem_hdrRun hy
        have h2 := h.geo.pgIn x hx
        rw [hxy, h1.1, hoff] at h2
        left; omega
      · exact h.geo.sep x y hx hy hxy hne
    · intro x hx
      rcases (hown_iff x).mp hx with hx | hx
      · exact hdrRun_dvd (hoff ▸ h.geo.pgDvd p hp) hx
      · exact h.geo.offDvd x hx
    · intro q hq
      rw [e_np] at hq; rw [e_pages]
      by_cases e : q = p
      · subst e; simp only [upd_same]
        exact Nat.dvd_add (hoff ▸ h.geo.pgDvd q hp) (Nat.dvd_mul_right _ _)
      · simp only [upd, e, if_false]; exact h.geo.pgDvd q hq

/-- writing the count field of the first header of the bucket in flight -/
theorem setCntTmp_inv {P : Params} {s : St} {b : Hdr} {tn : Nat} {lo : Nat → Nat} (v : Nat)
    (h : InvG P s (some b) tn lo) : InvG P { s with cnt := upd s.cnt b v } (some b) tn lo := by
  have hb := h.tmp_head
  have f : Frame (fun o => o = .tmp) s { s with cnt := upd s.cnt b v } := by
    constructor
    · intro x o _; rfl
    · intro x hx
      have : x ≠ b := fun e => hx (e ▸ hb)
      exact ⟨rfl, by simp [upd, this]⟩
  refine h.frame f (by simp) (by simp) (by simp) rfl rfl rfl ?_ h.partOwn ?_ (fun e => by cases e)
    h.carvedOwn h.carvedNd (h.geo.congr (fun _ => Iff.rfl) rfl rfl rfl)
  · intro q hq
    obtain ⟨k1, k2, k3⟩ := h.partB q hq
    rw [f.cnt k1 k2 (by simp)]
    exact ⟨f.bucket k1 (by simp), k2, k3⟩
  · intro b' hb'
    obtain ⟨k1, k2, k3⟩ := h.tmpB b' hb'
    exact ⟨k1.relabel (fun _ _ => rfl) (fun _ => Iff.rfl), k2, k3⟩

theorem returnBucket_fields (s : St) (b : Hdr) :
    (returnBucket s b).lp = s.lp ∧ (returnBucket s b).out = s.out ∧ (returnBucket s b).next = s.next ∧
    (returnBucket s b).part = s.part ∧ (returnBucket s b).carved = s.carved ∧
    (returnBucket s b).pagesLeft = s.pagesLeft := ⟨rfl, rfl, rfl, rfl, rfl, rfl⟩

theorem returnPartial_fields (P : Params) (s : St) (b : Hdr) :
    (returnPartial P s b).lp = s.lp ∧ (returnPartial P s b).out = s.out ∧
    (returnPartial P s b).carved = s.carved := by
  unfold returnPartial
  split
  · exact ⟨rfl, rfl, rfl⟩
  · simp only; split <;> exact ⟨rfl, rfl, rfl⟩

theorem carvePage_inv {P : Params} {s : St} {p np : Nat} {head : Option Hdr} {n : Nat} {lo : Nat → Nat} (hP : P.OK)
    (h : InvG P s head n lo) (hhead : head = none → n = 0)
    (hp : p < s.npages) (hpl : p ∉ s.pageLifo) (hnp1 : 1 ≤ np)
    (hfit : P.headerSize * np ≤ (s.pages p).extraSize) (hn : n + np ≤ P.perBucket) :
    InvG P (carvePage P s p np head).1 (some (carvePage P s p np head).2) (n + np) lo ∧
    (carvePage P s p np head).1.lp = s.lp ∧ (carvePage P s p np head).1.out = s.out ∧
    (carvePage P s p np head).1.carved = s.carved ++ hdrRun p P.headerSize np (s.pages p).extraOff := by
  unfold carvePage
  simp only
  split
  · rename_i hroom
    refine ⟨carve_core hP h hhead hp hpl hnp1 hfit hn _ rfl rfl rfl rfl rfl rfl rfl rfl rfl rfl rfl
      (Or.inl ⟨rfl, hroom⟩), rfl, rfl, rfl⟩
  · refine ⟨carve_core hP h hhead hp hpl hnp1 hfit hn _ rfl rfl rfl rfl rfl rfl rfl rfl rfl rfl rfl
      (Or.inr rfl), rfl, rfl, rfl⟩

/-- what `take_bucket` promises its caller -/
def TakePost (P : Params) (lo : Nat → Nat) (s : St) (r : St × Option Hdr) : Prop :=
  (match r.2 with
    | some b => InvG P r.1 (some b) P.perBucket lo ∧ r.1.cnt b = P.perBucket
    | none => InvG P r.1 none 0 lo) ∧
  r.1.lp = s.lp ∧ r.1.out = s.out ∧ (∀ x, x ∈ s.carved → x ∈ r.1.carved)

/-- the carving loop: never trips `ABTI_ASSERT(num_provided != 0)`, ends with a full bucket in
flight or (allocation failure) with everything carved so far in the partial bucket -/
theorem carve_inv {P : Params} (hP : P.OK) {lo : Nat → Nat} (fuel : Nat) :
    ∀ (s : St) (head : Option Hdr) (n : Nat), InvG P s head n lo → (head = none → n = 0) →
      n < P.perBucket → P.perBucket - n ≤ fuel →
      ∃ r, carve P fuel s head n = some r ∧ TakePost P lo s r := by
  induction fuel with
  | zero => intro s head n _ _ h1 h2; omega
  | succ fuel ih =>
    intro s head n h hhead hlt hfuel
    unfold carve
    cases hpk : pickPage P s with
    | none =>
      have hpf : ∀ (s' : St), s'.lp = s.lp → s'.out = s.out → s'.carved = s.carved →
          (s'.lp = s.lp ∧ s'.out = s.out ∧ (∀ x, x ∈ s.carved → x ∈ s'.carved)) :=
        fun s' a b c => ⟨a, b, fun x hx => c ▸ hx⟩
      cases head with
      | none =>
        have := hhead rfl; subst this
        exact ⟨(s, none), rfl, h, rfl, rfl, fun x hx => hx⟩
      | some h0 =>
        refine ⟨_, rfl, ?_, ?_⟩
        · have h1 := setCntTmp_inv n h
          exact returnPartial_inv hP h1 (by simp) hlt
        · have := returnPartial_fields P { s with cnt := upd s.cnt h0 n } h0
          exact hpf _ this.1 this.2.1 this.2.2
    | some sp =>
      obtain ⟨s1, p⟩ := sp
      obtain ⟨h1, hp, hroom, hpl, _, _, _, elp, _, _, eout, ecar⟩ := pickPage_inv hP h hpk
      simp only
      have hdiv : 1 ≤ (s1.pages p).extraSize / P.headerSize :=
        (Nat.le_div_iff_mul_le hP.headerSize_pos).mpr (by simpa using hroom)
      generalize hnp : min ((s1.pages p).extraSize / P.headerSize) (P.perBucket - n) = np
      have hnp1 : 1 ≤ np := by rw [← hnp]; exact Nat.le_min.mpr ⟨hdiv, by omega⟩
      have hnple : np ≤ (s1.pages p).extraSize / P.headerSize := by rw [← hnp]; exact Nat.min_le_left _ _
      have hnpn : n + np ≤ P.perBucket := by
        have : np ≤ P.perBucket - n := by rw [← hnp]; exact Nat.min_le_right _ _
        omega
      have hfit : P.headerSize * np ≤ (s1.pages p).extraSize := by
        have := (Nat.le_div_iff_mul_le hP.headerSize_pos).mp hnple
        rw [Nat.mul_comm]; exact this
      have hne : np ≠ 0 := by omega
      simp only [hne, if_false]
      obtain ⟨h2, e1, e2, e3⟩ := carvePage_inv hP h1 hhead hp hpl hnp1 hfit hnpn
      split
      · rename_i heq
        refine ⟨_, rfl, ⟨?_, by simp⟩, by rw [← elp, ← e1], by rw [← eout, ← e2], ?_⟩
        · rw [heq] at h2; exact setCntTmp_inv _ h2
        · intro x hx; show x ∈ (carvePage P s1 p np head).1.carved
          rw [e3, ecar]; exact List.mem_append_left _ hx
      · rename_i hneq
        obtain ⟨r, hr, hpost, q1, q2, q3⟩ := ih _ _ _ h2 (by intro e; cases e) (by omega) (by omega)
        refine ⟨r, hr, hpost, by rw [q1, e1, elp], by rw [q2, e2, eout], ?_⟩
        intro x hx; apply q3; rw [e3, ecar]; exact List.mem_append_left _ hx

/-- **`ABTI_mem_pool_take_bucket`** -/
theorem takeBucket_inv {P : Params} (hP : P.OK) {s : St} {lo : Nat → Nat} (h : InvG P s none 0 lo) :
    ∃ r, takeBucket P s = some r ∧ TakePost P lo s r := by
  unfold takeBucket
  cases hl : s.lifo with
  | nil => exact carve_inv hP P.perBucket s none 0 h (fun _ => rfl) hP.perBucket_pos (by omega)
  | cons b rest =>
    refine ⟨_, rfl, ⟨?_, by simp⟩, rfl, rfl, fun x hx => hx⟩
    have hnd : (b :: rest).Nodup := hl ▸ h.lifoNd
    have hbm : b ∈ s.lifo := by rw [hl]; simp
    have hB := h.lifoB b hbm
    have hbo : s.own b = .lifo b := hB.head_own hP.perBucket_pos
    have f : Frame (fun o => o = .tmp ∨ o = .lifo b) s
        { s with lifo := rest, cnt := upd s.cnt b P.perBucket, own := relabel s.own (.lifo b) .tmp } := by
      constructor
      · intro x o ho; simp only [relabel]; split
        · rename_i hx; rw [hx]; constructor
          · intro e; exact absurd (Or.inl e.symm) ho
          · intro e; exact absurd (Or.inr e.symm) ho
        · rfl
      · intro x hx
        have : x ≠ b := fun e => hx (Or.inr (e ▸ hbo))
        exact ⟨rfl, by simp [upd, this]⟩
    have hown : ∀ x o, o ≠ .tmp → o ≠ .lifo b → ((relabel s.own (.lifo b) .tmp) x = o ↔ s.own x = o) :=
      fun x o h1 h2 => f.own x o (by simp [h1, h2])
    constructor
    · exact h.lpBidx
    · intro i lp j hlp h1 h2
      obtain ⟨k1, k2, k3, k4⟩ := h.lpB i lp j hlp h1 h2
      rw [f.cnt k1 k2 (by simp)]
      exact ⟨f.bucket k1 (by simp), k2, k3, k4⟩
    · intro x i j hx; exact h.locOwn x i j ((hown x _ (by simp) (by simp)).mp hx)
    · intro b' hb'
      have hne : b' ≠ b := fun e => (List.nodup_cons.mp hnd).1 (e ▸ hb')
      exact f.bucket (h.lifoB b' (by rw [hl]; exact List.mem_cons_of_mem _ hb')) (by simp [hne])
    · exact (List.nodup_cons.mp hnd).2
    · intro x b' hx
      have hne : b' ≠ b := by
        intro e; subst e
        simp only [relabel] at hx; split at hx
        · cases hx
        · rename_i hx'; exact hx' hx
      have := h.lifoOwn x b' ((hown x _ (by simp) (by simp [hne])).mp hx)
      rw [hl] at this
      rcases List.mem_cons.mp this with e | e
      · exact absurd e hne
      · exact e
    · intro q hq
      obtain ⟨k1, k2, k3⟩ := h.partB q hq
      rw [f.cnt k1 k2 (by simp)]
      exact ⟨f.bucket k1 (by simp), k2, k3⟩
    · intro hq x e; exact h.partOwn hq x ((hown x _ (by simp) (by simp)).mp e)
    · intro b' hb'
      simp only [Option.some.injEq] at hb'; subst hb'
      refine ⟨hB.relabel (fun _ _ => rfl) ?_, hP.perBucket_pos, Nat.le_refl _⟩
      intro x; simp only [relabel]; split
      · simp_all
      · rename_i hx
        constructor
        · intro e; exact absurd e (h.tmpOwn rfl x)
        · intro e; exact absurd e hx
    · intro e; cases e
    · intro x; show x ∈ s.out ↔ _; rw [h.outOwn]; exact (hown x _ (by simp) (by simp)).symm
    · exact h.outNd
    · intro x; show x ∈ s.carved ↔ _; rw [h.carvedOwn]; simp only [relabel]; split <;> simp_all
    · exact h.carvedNd
    · refine h.geo.congr ?_ rfl rfl rfl
      intro x; simp only [relabel]; split <;> simp_all

end ArgoVerif.Model.MemPool
