import ArgoVerif.Model.TQ
/-
Proofs.TQ — `thread_queue_t` refines a double-ended queue of distinct units.

Per-operation specifications are stated against a ghost list `xs` (`WFrel s xs`) together with
an exact description of what the operation wrote (`Frame`): only link fields of units in the
queue (before or after) and `is_in_pool` of the one touched unit.  That is the form the
concurrent pool model uses ("the body of a critical section is one of these operations") and
what makes queues over a shared set of units independent of each other.
-/
namespace ArgoVerif.Model.TQ
open ArgoVerif ArgoVerif.Heap

/-- pointer structure `s` represents the queue content `xs` (head first) -/
structure WFrel (s : St) (xs : List Nat) : Prop where
  circ : Circ s.prev s.next s.head s.tail xs
  num : s.num = xs.length
  empty : s.isEmpty = if xs = [] then 1 else 0
  inp : ∀ u ∈ xs, s.inPool u = 1

/-- what an operation may have written: link fields only of units in `fp`, `is_in_pool` only of `t` -/
structure Frame (s s' : St) (fp : List Nat) (t v : Nat) : Prop where
  prev : ∀ x, x ∉ fp → s'.prev x = s.prev x
  next : ∀ x, x ∉ fp → s'.next x = s.next x
  inPool : s'.inPool = upd s.inPool t v

theorem WFrel.members_eq {s : St} {xs : List Nat} (h : WFrel s xs) : members s = xs := by
  unfold members; rw [h.num]; exact circ_walk h.circ

theorem WFrel.membersBack_eq {s : St} {xs : List Nat} (h : WFrel s xs) : membersBack s = xs.reverse := by
  unfold membersBack; rw [h.num]; exact circ_walk_back h.circ

theorem WFrel.nodup {s : St} {xs : List Nat} (h : WFrel s xs) : xs.Nodup := h.circ.1

theorem WFrel.nonnull {s : St} {xs : List Nat} (h : WFrel s xs) : ∀ x ∈ xs, x ≠ 0 := circ_nonnull h.circ

theorem WFrel.unique {s : St} {xs ys : List Nat} (h : WFrel s xs) (h' : WFrel s ys) : xs = ys := by
  rw [← h.members_eq, ← h'.members_eq]

theorem WFrel.not_mem_of_pre {s : St} {xs : List Nat} {u : Nat} (h : WFrel s xs) (hp : PushPre s u) : u ∉ xs := by
  intro hm; have := h.inp u hm; have := hp.2; omega

theorem init_spec (s : St) : WFrel (init s) [] ∧ (init s).prev = s.prev ∧ (init s).next = s.next ∧ (init s).inPool = s.inPool := by
  refine ⟨⟨?_, rfl, rfl, by simp⟩, rfl, rfl, rfl⟩
  exact circ_nil

/-! ### push -/

theorem pushHead_spec {s : St} {xs : List Nat} {u : Nat} (h : WFrel s xs) (hp : PushPre s u) :
    ∃ s', pushHead s u = some s' ∧ WFrel s' (u :: xs) ∧ Frame s s' (u :: xs) u 1 := by
  have hu0 : u ≠ 0 := hp.1
  have hnm : u ∉ xs := h.not_mem_of_pre hp
  cases xs with
  | nil =>
    have hn : s.num = 0 := h.num
    refine ⟨_, by simp [pushHead, hp, hn, stPrev, stNext, stInPool, hu0]; rfl, ⟨?_, rfl, by simp, ?_⟩, ⟨?_, ?_, rfl⟩⟩
    · exact circ_singleton hu0 (by simp) (by simp)
    · intro v hv; simp at hv; subst hv; simp
    · intro x hx; simp at hx; simp [upd, hx]
    · intro x hx; simp at hx; simp [upd, hx]
  | cons y r =>
    have hn : s.num ≠ 0 := by rw [h.num]; simp
    have hh := circ_head h.circ
    have hh0 : s.head ≠ 0 := by rw [hh.1]; exact hh.2.2
    have ht0 : s.tail ≠ 0 := by
      obtain ⟨ini, l, hil⟩ := exists_snoc (xs := y :: r) (by simp)
      have hc := h.circ; rw [hil] at hc
      have := circ_last hc; rw [this.1]; exact this.2.2
    refine ⟨_, by simp [pushHead, hp, hn, stPrev, stNext, stInPool, hu0, hh0, ht0]; rfl, ⟨?_, ?_, by simpa using h.empty, ?_⟩, ⟨?_, ?_, rfl⟩⟩
    · exact circ_push_head h.circ (by simp) hu0 hnm
    · simp [h.num]
    · intro v hv
      rcases List.mem_cons.mp hv with rfl | hv
      · simp
      · have : v ≠ u := fun e => hnm (e ▸ hv)
        simp [upd, this, h.inp v hv]
    · intro x hx
      have hxu : x ≠ u := fun e => hx (by simp [e])
      have hxh : x ≠ s.head := fun e => hx (by simp [e, hh.1])
      simp [upd, hxu, hxh]
    · intro x hx
      have hxu : x ≠ u := fun e => hx (by simp [e])
      have hxt : x ≠ s.tail := by
        intro e; apply hx
        obtain ⟨ini, l, hil⟩ := exists_snoc (xs := y :: r) (by simp)
        have hc := h.circ; rw [hil] at hc
        have := (circ_last hc).1
        rw [e, this, hil]; simp
      simp [upd, hxu, hxt]

theorem WFrel.head_tail_ne {s : St} {y : Nat} {r : List Nat} (h : WFrel s (y :: r)) :
    s.head = y ∧ s.head ≠ 0 ∧ s.tail ≠ 0 ∧ s.tail ∈ y :: r ∧ s.prev s.head = s.tail ∧ s.next s.tail = s.head := by
  have hh := circ_head h.circ
  obtain ⟨ini, l, hil⟩ := exists_snoc (xs := y :: r) (by simp)
  have hc := h.circ; rw [hil] at hc
  have hl := circ_last hc
  refine ⟨hh.1, by rw [hh.1]; exact hh.2.2, by rw [hl.1]; exact hl.2.2, by rw [hl.1, hil]; simp, by rw [hh.1]; exact hh.2.1, ?_⟩
  rw [hl.1]; exact hl.2.1

theorem WFrel.tail_mem_rest {s : St} {x y : Nat} {r : List Nat} (h : WFrel s (x :: y :: r)) : s.tail ∈ y :: r := by
  obtain ⟨ini, l, hil⟩ := exists_snoc (xs := y :: r) (by simp)
  have hc := h.circ
  rw [hil, ← List.cons_append] at hc
  rw [(circ_last hc).1, hil]; simp

theorem pushTail_spec {s : St} {xs : List Nat} {u : Nat} (h : WFrel s xs) (hp : PushPre s u) :
    ∃ s', pushTail s u = some s' ∧ WFrel s' (xs ++ [u]) ∧ Frame s s' (u :: xs) u 1 := by
  have hu0 : u ≠ 0 := hp.1
  have hnm : u ∉ xs := h.not_mem_of_pre hp
  cases xs with
  | nil =>
    have hn : s.num = 0 := h.num
    refine ⟨_, by simp [pushTail, hp, hn, stPrev, stNext, stInPool, hu0]; rfl, ⟨?_, rfl, by simp, ?_⟩, ⟨?_, ?_, rfl⟩⟩
    · exact circ_singleton hu0 (by simp) (by simp)
    · intro v hv; simp at hv; subst hv; simp
    · intro x hx; simp at hx; simp [upd, hx]
    · intro x hx; simp at hx; simp [upd, hx]
  | cons y r =>
    have hn : s.num ≠ 0 := by rw [h.num]; simp
    obtain ⟨hhy, hh0, ht0, htm, _, _⟩ := h.head_tail_ne
    refine ⟨_, by simp [pushTail, hp, hn, stPrev, stNext, stInPool, hu0, hh0, ht0]; rfl, ⟨?_, ?_, by simpa using h.empty, ?_⟩, ⟨?_, ?_, rfl⟩⟩
    · exact circ_push_tail h.circ (by simp) hu0 hnm
    · simp [h.num]
    · intro v hv
      rcases List.mem_append.mp hv with hv | hv
      · have : v ≠ u := fun e => hnm (e ▸ hv)
        simp [upd, this, h.inp v hv]
      · simp at hv; subst hv; simp
    · intro x hx
      have hxu : x ≠ u := fun e => hx (by simp [e])
      have hxh : x ≠ s.head := fun e => hx (by simp [e, hhy])
      simp [upd, hxu, hxh]
    · intro x hx
      have hxu : x ≠ u := fun e => hx (by simp [e])
      have hxt : x ≠ s.tail := fun e => hx (List.mem_cons_of_mem _ (e ▸ htm))
      simp [upd, hxu, hxt]

/-! ### pop -/

theorem popHead_nil {s : St} (h : WFrel s []) : popHead s = some (s, 0) := by
  have hn : s.num = 0 := h.num
  simp [popHead, hn]

theorem popHead_cons {s : St} {x : Nat} {r : List Nat} (h : WFrel s (x :: r)) :
    ∃ s', popHead s = some (s', x) ∧ WFrel s' r ∧ Frame s s' (x :: r) x 0 ∧ s'.prev x = 0 ∧ s'.next x = 0 := by
  obtain ⟨hhx, hh0, ht0, htm, hpt, hnt⟩ := h.head_tail_ne
  have hx0 : x ≠ 0 := hhx ▸ hh0
  cases r with
  | nil =>
    have hn : s.num = 1 := h.num
    refine ⟨_, by simp [popHead, hn, hhx, stPrev, stNext, stInPool, hx0]; rfl, ⟨circ_nil, rfl, rfl, by simp⟩, ⟨?_, ?_, rfl⟩, by simp, by simp⟩
    · intro v hv; simp at hv; simp [upd, hv]
    · intro v hv; simp at hv; simp [upd, hv]
  | cons y r =>
    have hn1 : s.num ≠ 1 := by rw [h.num]; simp
    have hn0 : s.num > 0 := by rw [h.num]; simp
    have hnext : s.next x = y := h.circ.2.1.1.2.2.1
    have hy0 : y ≠ 0 := h.nonnull y (by simp)
    rw [hhx] at hpt
    have htr : s.tail ∈ y :: r := h.tail_mem_rest
    have hxt : x ≠ s.tail := fun e => (List.nodup_cons.mp h.nodup).1 (e ▸ htr)
    refine ⟨_, by simp [popHead, hn0, hn1, unlink, ldPrev, ldNext, stPrev, stNext, stInPool, hhx, hx0, hpt, hnext, ht0, hy0, upd, hxt]; rfl, ?_⟩
    have hxr : x ∉ y :: r := (List.nodup_cons.mp h.nodup).1
    refine ⟨⟨?_, ?_, ?_, ?_⟩, ⟨?_, ?_, rfl⟩, by simp, by simp⟩
    · have hc := circ_unlink_head h.circ (by simp) 0 0
      rw [hpt, hnext] at hc
      exact hc
    · show s.num - 1 = _
      rw [h.num]; simp
    · simpa using h.empty
    · intro v hv
      have : v ≠ x := fun e => hxr (e ▸ hv)
      simp [upd, this, h.inp v (List.mem_cons_of_mem _ hv)]
    · intro v hv
      have h1 : v ≠ x := fun e => hv (by simp [e])
      have h2 : v ≠ y := fun e => hv (by simp [e])
      simp [upd, h1, h2]
    · intro v hv
      have h1 : v ≠ x := fun e => hv (by simp [e])
      have h2 : v ≠ s.tail := fun e => hv (e ▸ htm)
      simp [upd, h1, h2]

/-- facts about the last node of a queue with at least two nodes -/
theorem WFrel.last_facts {s : St} {x : Nat} {r : List Nat} (h : WFrel s (r ++ [x])) (hr : r ≠ []) :
    s.tail = x ∧ x ≠ 0 ∧ s.next x = s.head ∧ s.prev x ∈ r ∧ s.head ∈ r ∧ x ∉ r := by
  have hl := circ_last h.circ
  have hxr : x ∉ r := (nodup_snoc.mp h.nodup).1
  refine ⟨hl.1, hl.2.2, hl.2.1, ?_, ?_, hxr⟩
  · have hb := h.circ.2.1.2
    rw [List.reverse_append] at hb
    obtain ⟨ini, p, rfl⟩ := exists_snoc hr
    rw [List.reverse_append] at hb
    have : s.prev x = p := hb.2.2.1
    rw [this]; simp
  · cases r with
    | nil => exact absurd rfl hr
    | cons y r' =>
      have := (circ_head (xs := r' ++ [x]) h.circ).1
      rw [this]; simp

theorem popTail_nil {s : St} (h : WFrel s []) : popTail s = some (s, 0) := by
  have hn : s.num = 0 := h.num
  simp [popTail, hn]

theorem popTail_snoc {s : St} {x : Nat} {r : List Nat} (h : WFrel s (r ++ [x])) :
    ∃ s', popTail s = some (s', x) ∧ WFrel s' r ∧ Frame s s' (x :: r) x 0 ∧ s'.prev x = 0 ∧ s'.next x = 0 := by
  by_cases hr : r = []
  · subst hr
    have h' : WFrel s [x] := h
    have hn : s.num = 1 := h'.num
    have hl := circ_last (xs := []) h'.circ
    have hx0 := hl.2.2
    refine ⟨_, by simp [popTail, hn, hl.1, stPrev, stNext, stInPool, hx0]; rfl, ⟨circ_nil, rfl, rfl, by simp⟩, ⟨?_, ?_, rfl⟩, by simp, by simp⟩
    · intro v hv; simp at hv; simp [upd, hv]
    · intro v hv; simp at hv; simp [upd, hv]
  · obtain ⟨htx, hx0, hnx, hpm, hhm, hxr⟩ := h.last_facts hr
    have hn1 : s.num ≠ 1 := by
      rw [h.num]; cases r with
      | nil => exact absurd rfl hr
      | cons y r' => simp
    have hn0 : s.num > 0 := by rw [h.num]; simp
    have hnn := h.nonnull
    have hp0 : s.prev x ≠ 0 := hnn _ (by simp [hpm])
    have hh0 : s.head ≠ 0 := hnn _ (by simp [hhm])
    have hxp : x ≠ s.prev x := fun e => hxr (e ▸ hpm)
    have hxh : x ≠ s.head := fun e => hxr (e ▸ hhm)
    refine ⟨_, by simp [popTail, hn0, hn1, unlink, ldPrev, ldNext, stPrev, stNext, stInPool, htx, hx0, hnx, hp0, hh0, upd, hxp, hxh]; rfl, ?_⟩
    refine ⟨⟨?_, ?_, ?_, ?_⟩, ⟨?_, ?_, rfl⟩, by simp, by simp⟩
    · have hc := circ_unlink_tail h.circ hr 0 0
      rw [hnx] at hc
      exact hc
    · show s.num - 1 = _
      rw [h.num]; simp
    · have := h.empty; simp at this; simp [this, hr]
    · intro v hv
      have : v ≠ x := fun e => hxr (e ▸ hv)
      simp [upd, this, h.inp v (by simp [hv])]
    · intro v hv
      have h1 : v ≠ x := fun e => hv (by simp [e])
      have h2 : v ≠ s.head := fun e => hv (List.mem_cons_of_mem _ (e ▸ hhm))
      simp [upd, h1, h2]
    · intro v hv
      have h1 : v ≠ x := fun e => hv (by simp [e])
      have h2 : v ≠ s.prev x := fun e => hv (List.mem_cons_of_mem _ (e ▸ hpm))
      simp [upd, h1, h2]

/-! ### remove -/

theorem remove_nil {s : St} (h : WFrel s []) (u : Nat) : remove s u = some (s, .errPool) := by
  have hn : s.num = 0 := h.num
  simp [remove, hn]

/-- second coded guard: the unit's `is_in_pool` flag is not 1 -/
theorem remove_not_in_pool {s : St} {xs : List Nat} (h : WFrel s xs) (hne : xs ≠ []) {u : Nat} (hu : u ≠ 0)
    (hf : s.inPool u ≠ 1) : remove s u = some (s, .errPool) := by
  have hn : s.num ≠ 0 := by rw [h.num]; simpa using hne
  simp [remove, hn, ldInPool, hu, hf]

/-- NULL unit on a non-empty queue: the flag load dereferences NULL -/
theorem remove_null {s : St} {xs : List Nat} (h : WFrel s xs) (hne : xs ≠ []) : remove s 0 = none := by
  have hn : s.num ≠ 0 := by rw [h.num]; simpa using hne
  simp [remove, hn, ldInPool]

/-- both coded guards pass but the unit is queued elsewhere: contract violation -/
theorem remove_foreign {s : St} {xs : List Nat} (h : WFrel s xs) (hne : xs ≠ []) {u : Nat} (hu : u ≠ 0)
    (hf : s.inPool u = 1) (hnm : u ∉ xs) : remove s u = none := by
  have hn : s.num ≠ 0 := by rw [h.num]; simpa using hne
  simp [remove, hn, ldInPool, hu, hf, h.members_eq, hnm]

/-- neighbours of a queued unit (queue of at least two) are other queued units -/
theorem WFrel.link_facts {s : St} {u : Nat} {as bs : List Nat} (h : WFrel s (as ++ u :: bs)) (hne : as ++ bs ≠ []) :
    s.prev u ∈ as ++ bs ∧ s.next u ∈ as ++ bs := by
  obtain ⟨hnd, ⟨hf, hb⟩, _⟩ := h.circ
  rw [seg_split] at hf
  have hrev : (as ++ u :: bs).reverse = bs.reverse ++ u :: as.reverse := by simp
  rw [hrev, seg_split] at hb
  constructor
  · cases has : as.reverse with
    | nil =>
      have has' : as = [] := by simpa using has
      subst has'
      -- prev u = tail, the last node of bs
      have hbne : bs ≠ [] := by simpa using hne
      have := (WFrel.tail_mem_rest (s := s) (x := u) (y := bs.head hbne) (r := bs.tail) (by simpa using h))
      have hpt : s.prev u = s.tail := (circ_head (xs := bs) h.circ).2.1
      rw [hpt]; simpa using this
    | cons p r =>
      rw [has] at hb
      have : s.prev u = p := hb.2.2.1
      have hp : p ∈ as := by rw [← List.mem_reverse, has]; simp
      rw [this]; simp [hp]
  · cases bs with
    | nil =>
      have hane : as ≠ [] := by simpa using hne
      have := h.last_facts hane
      rw [this.2.2.1]; simp [this.2.2.2.2.1]
    | cons n r =>
      have : s.next u = n := hf.2.2.1
      rw [this]; simp

theorem remove_mem {s : St} {u : Nat} {as bs : List Nat} (h : WFrel s (as ++ u :: bs)) :
    ∃ s', remove s u = some (s', .success) ∧ WFrel s' (as ++ bs) ∧ Frame s s' (as ++ u :: bs) u 0 ∧
      s'.prev u = 0 ∧ s'.next u = 0 := by
  have hu0 : u ≠ 0 := h.nonnull u (by simp)
  have hin : s.inPool u = 1 := h.inp u (by simp)
  have hmem : u ∈ members s := by rw [h.members_eq]; simp
  have hnd := h.nodup
  have hu_not : u ∉ as ++ bs := by
    rw [List.nodup_append, List.nodup_cons] at hnd
    intro hm
    rcases List.mem_append.mp hm with hx | hx
    · exact hnd.2.2 u hx u (by simp) rfl
    · exact hnd.2.1.1 hx
  have hinp' : ∀ v ∈ as ++ bs, (upd s.inPool u 0) v = 1 := by
    intro v hv
    have hvu : v ≠ u := fun e => hu_not (e ▸ hv)
    have : v ∈ as ++ u :: bs := by
      rcases List.mem_append.mp hv with hx | hx <;> simp [hx]
    simp [upd, hvu, h.inp v this]
  by_cases hne : as ++ bs = []
  · -- the only unit
    have has : as = [] := (List.append_eq_nil_iff.mp hne).1
    have hbs : bs = [] := (List.append_eq_nil_iff.mp hne).2
    subst has; subst hbs
    have hn : s.num = 1 := h.num
    refine ⟨_, by simp [remove, hn, ldInPool, hu0, hin, hmem, stPrev, stNext, stInPool]; rfl,
      ⟨circ_nil, rfl, rfl, by simp⟩, ⟨?_, ?_, rfl⟩, by simp, by simp⟩
    · intro v hv; simp at hv; simp [upd, hv]
    · intro v hv; simp at hv; simp [upd, hv]
  · obtain ⟨hpm, hnm⟩ := h.link_facts hne
    have hlen : (as ++ u :: bs).length = (as ++ bs).length + 1 := by simp; omega
    have hlen0 : (as ++ bs).length ≠ 0 := by simpa using hne
    have hn0 : s.num ≠ 0 := by rw [h.num]; omega
    have hn1 : s.num ≠ 1 := by rw [h.num]; omega
    have hnn : ∀ v ∈ as ++ bs, v ≠ 0 := fun v hv => h.nonnull v (by
      rcases List.mem_append.mp hv with hx | hx <;> simp [hx])
    have hp0 : s.prev u ≠ 0 := hnn _ hpm
    have hx0 : s.next u ≠ 0 := hnn _ hnm
    have hup : u ≠ s.prev u := fun e => hu_not (e ▸ hpm)
    have hun : u ≠ s.next u := fun e => hu_not (e ▸ hnm)
    have hfr_prev : ∀ v, v ∉ as ++ u :: bs → upd (upd s.prev (s.next u) (s.prev u)) u 0 v = s.prev v := by
      intro v hv
      have h1 : v ≠ u := fun e => hv (by simp [e])
      have h2 : v ≠ s.next u := by
        intro e; apply hv; rw [e]
        rcases List.mem_append.mp hnm with hx | hx <;> simp [hx]
      simp [upd, h1, h2]
    have hfr_next : ∀ v, v ∉ as ++ u :: bs → upd (upd s.next (s.prev u) (s.next u)) u 0 v = s.next v := by
      intro v hv
      have h1 : v ≠ u := fun e => hv (by simp [e])
      have h2 : v ≠ s.prev u := by
        intro e; apply hv; rw [e]
        rcases List.mem_append.mp hpm with hx | hx <;> simp [hx]
      simp [upd, h1, h2]
    have hnum : s.num - 1 = (as ++ bs).length := by rw [h.num]; omega
    have hemp : s.isEmpty = if as ++ bs = [] then 1 else 0 := by
      have := h.empty; simp at this; simp [this, hne]
    by_cases has : as = []
    · -- u is the head
      subst has
      have hbne : bs ≠ [] := by simpa using hne
      have hhd : s.head = u := (circ_head (xs := bs) h.circ).1
      refine ⟨_, by simp [remove, hn0, hn1, ldInPool, hu0, hin, hmem, unlink, ldPrev, ldNext, stPrev, stNext, stInPool,
        hp0, hx0, upd, hup, hun, hhd]; rfl, ?_⟩
      refine ⟨⟨?_, hnum, hemp, hinp'⟩, ⟨hfr_prev, hfr_next, rfl⟩, by simp, by simp⟩
      exact circ_unlink_head (bs := bs) h.circ hbne 0 0
    · by_cases hbs : bs = []
      · -- u is the tail (and not the head)
        subst hbs
        have hlf := h.last_facts has
        have htl : s.tail = u := hlf.1
        have huh : u ≠ s.head := fun e => hlf.2.2.2.2.2 (e ▸ hlf.2.2.2.2.1)
        refine ⟨_, by simp [remove, hn0, hn1, ldInPool, hu0, hin, hmem, unlink, ldPrev, ldNext, stPrev, stNext, stInPool,
          hp0, hx0, upd, hup, hun, huh, htl]; rfl, ?_⟩
        refine ⟨⟨?_, hnum, hemp, hinp'⟩, ⟨hfr_prev, hfr_next, rfl⟩, by simp, by simp⟩
        simpa using circ_unlink_tail h.circ has 0 0
      · -- u is in the middle
        obtain ⟨a0, as', rfl⟩ : ∃ a0 as', as = a0 :: as' := by
          cases as with
          | nil => exact absurd rfl has
          | cons a0 as' => exact ⟨a0, as', rfl⟩
        have hhd : s.head = a0 := (circ_head (xs := as' ++ u :: bs) h.circ).1
        have huh : u ≠ s.head := by
          rw [hhd]; intro e; apply hu_not; rw [e]; simp
        obtain ⟨bs', bl, rfl⟩ := exists_snoc hbs
        have htl : s.tail = bl := by
          have hc := h.circ
          rw [show a0 :: as' ++ u :: (bs' ++ [bl]) = (a0 :: as' ++ u :: bs') ++ [bl] by simp] at hc
          exact (circ_last hc).1
        have hut : u ≠ s.tail := by
          rw [htl]; intro e; apply hu_not; rw [e]; simp
        refine ⟨_, by simp [remove, hn0, hn1, ldInPool, hu0, hin, hmem, unlink, ldPrev, ldNext, stPrev, stNext, stInPool,
          hp0, hx0, upd, hup, hun, huh, hut]; rfl, ?_⟩
        refine ⟨⟨?_, hnum, hemp, hinp'⟩, ⟨hfr_prev, hfr_next, rfl⟩, by simp, by simp⟩
        exact circ_unlink_mid h.circ (by simp) hbs 0 0

/-! ### the specification: a double-ended queue of distinct non-null units -/

/-- abstraction function: the units reached from `p_head` in `num_threads` steps of `p_next` -/
def abs (s : St) : List Nat := members s

/-- one deque operation on the abstract content; `none` = outside the contract
(push of NULL or of a unit already queued; remove of NULL from a non-empty queue) -/
def specStep (xs : List Nat) : Op → Option (List Nat × Out)
  | .pushHead u => if u = 0 ∨ u ∈ xs then none else some (u :: xs, .unit)
  | .pushTail u => if u = 0 ∨ u ∈ xs then none else some (xs ++ [u], .unit)
  | .popHead => some (xs.tail, .popped (xs.head?.getD 0))
  | .popTail => some (xs.dropLast, .popped (xs.getLast?.getD 0))
  | .remove u =>
    if xs = [] then some (xs, .rc .errPool)
    else if u = 0 then none
    else if u ∈ xs then some (xs.erase u, .rc .success)
    else some (xs, .rc .errPool)
  | .size => some (xs, .size xs.length)
  | .isEmpty => some (xs, .empty xs.isEmpty)

def specRun (xs : List Nat) : List Op → Option (List Nat × List Out)
  | [] => some (xs, [])
  | op :: ops =>
    match specStep xs op with
    | none => none
    | some (xs1, o) =>
      match specRun xs1 ops with
      | none => none
      | some (xs2, os) => some (xs2, o :: os)

/-- units outside the queue are as `ABTI_unit_init_builtin` / pop / remove leave them -/
def Outside (s : St) (xs : List Nat) : Prop := ∀ u, u ∉ xs → s.inPool u = 0 ∧ s.prev u = 0 ∧ s.next u = 0

/-- the invariant of a queue that owns every queued unit (one pool in isolation):
well formed for its own abstraction, and every other unit is unlinked with `is_in_pool = 0` -/
structure Inv (s : St) : Prop where
  wf : WFrel s (abs s)
  out : Outside s (abs s)

theorem Inv.of {s : St} {xs : List Nat} (h : WFrel s xs) (ho : Outside s xs) : Inv s ∧ abs s = xs := by
  have : abs s = xs := h.members_eq
  exact ⟨⟨this ▸ h, this ▸ ho⟩, this⟩

theorem Inv.inPool_iff {s : St} (hi : Inv s) (u : Nat) : s.inPool u = 1 ↔ u ∈ abs s := by
  constructor
  · intro h1; apply Classical.byContradiction; intro hn; have := (hi.out u hn).1; omega
  · exact hi.wf.inp u

/-- all units clean (what `ABTI_unit_init_builtin` establishes for each) -/
def Clean (s : St) : Prop := ∀ u, s.inPool u = 0 ∧ s.prev u = 0 ∧ s.next u = 0

theorem init_inv {s : St} (hc : Clean s) : Inv (init s) ∧ abs (init s) = [] :=
  Inv.of (init_spec s).1 (fun u _ => hc u)

theorem fresh_clean : Clean St.fresh := fun _ => ⟨rfl, rfl, rfl⟩

theorem outside_push {s s' : St} {xs xs' : List Nat} {u : Nat} (ho : Outside s xs)
    (hf : Frame s s' (u :: xs) u 1) (hsub : ∀ v, v ∉ xs' → v ∉ u :: xs) : Outside s' xs' := by
  intro v hv
  have hv' := hsub v hv
  have hvu : v ≠ u := fun e => hv' (by simp [e])
  have hvx : v ∉ xs := fun hm => hv' (List.mem_cons_of_mem _ hm)
  rw [hf.prev v hv', hf.next v hv', hf.inPool]
  simp [upd, hvu, ho v hvx]

theorem outside_pop {s s' : St} {xs xs' : List Nat} {t : Nat} (ho : Outside s xs)
    (hf : Frame s s' xs t 0) (hp : s'.prev t = 0) (hn : s'.next t = 0)
    (hsub : ∀ v, v ∉ xs' → v = t ∨ v ∉ xs) : Outside s' xs' := by
  intro v hv
  rcases hsub v hv with rfl | hvx
  · rw [hf.inPool]; simp [hp, hn]
  · rw [hf.prev v hvx, hf.next v hvx, hf.inPool]
    have := ho v hvx
    by_cases e : v = t
    · subst e; simp [this]
    · simp [upd, e, this]

/-- **one step**: the pointer-level operation is defined exactly when the deque operation is,
returns the deque's result, and leaves a state whose abstraction is the deque's new content -/
theorem step_refines {s : St} (hi : Inv s) (op : Op) :
    match specStep (abs s) op with
    | none => step s op = none
    | some (xs', o) => ∃ s', step s op = some (s', o) ∧ Inv s' ∧ abs s' = xs' := by
  have hw := hi.wf
  have ho := hi.out
  generalize abs s = xs at hw ho
  cases op with
  | pushHead u =>
    by_cases hc : u = 0 ∨ u ∈ xs
    · have : ¬ PushPre s u := by
        rintro ⟨h0, hz⟩
        rcases hc with h | h
        · exact h0 h
        · have := hw.inp u h; omega
      simp [specStep, hc, step, pushHead, this]
    · have hp : PushPre s u := ⟨fun e => hc (Or.inl e), (ho u (fun hm => hc (Or.inr hm))).1⟩
      obtain ⟨s', he, hw', hf⟩ := pushHead_spec hw hp
      have := Inv.of hw' (outside_push ho hf (fun v hv => hv))
      simp only [specStep, hc, if_false, step, he, Option.map_some]
      exact ⟨s', rfl, this.1, this.2⟩
  | pushTail u =>
    by_cases hc : u = 0 ∨ u ∈ xs
    · have : ¬ PushPre s u := by
        rintro ⟨h0, hz⟩
        rcases hc with h | h
        · exact h0 h
        · have := hw.inp u h; omega
      simp [specStep, hc, step, pushTail, this]
    · have hp : PushPre s u := ⟨fun e => hc (Or.inl e), (ho u (fun hm => hc (Or.inr hm))).1⟩
      obtain ⟨s', he, hw', hf⟩ := pushTail_spec hw hp
      have := Inv.of hw' (outside_push ho hf (fun v hv => by simpa [or_comm] using hv))
      simp only [specStep, hc, if_false, step, he, Option.map_some]
      exact ⟨s', rfl, this.1, this.2⟩
  | popHead =>
    cases xs with
    | nil =>
      have := Inv.of hw ho
      simp only [specStep, step, popHead_nil hw, Option.map_some]
      exact ⟨s, rfl, this.1, this.2⟩
    | cons x r =>
      obtain ⟨s', he, hw', hf, hp, hn⟩ := popHead_cons hw
      have := Inv.of hw' (outside_pop ho hf hp hn (fun v hv => by
        by_cases e : v = x
        · exact Or.inl e
        · exact Or.inr (by simp [e, hv])))
      simp only [specStep, step, he, Option.map_some]
      exact ⟨s', rfl, this.1, this.2⟩
  | popTail =>
    by_cases hx : xs = []
    · subst hx
      have := Inv.of hw ho
      simp only [specStep, step, popTail_nil hw, Option.map_some]
      exact ⟨s, rfl, this.1, this.2⟩
    · obtain ⟨r, x, rfl⟩ := exists_snoc hx
      obtain ⟨s', he, hw', hf, hp, hn⟩ := popTail_snoc hw
      have hf' : Frame s s' (r ++ [x]) x 0 :=
        ⟨fun v hv => hf.prev v (by simpa [or_comm] using hv), fun v hv => hf.next v (by simpa [or_comm] using hv), hf.inPool⟩
      have := Inv.of hw' (outside_pop ho hf' hp hn (fun v hv => by
        by_cases e : v = x
        · exact Or.inl e
        · exact Or.inr (by simp [e, hv])))
      simp only [specStep, step, he, Option.map_some, List.dropLast_concat, List.getLast?_append,
        List.getLast?_singleton, Option.some_or, Option.getD_some]
      exact ⟨s', rfl, this.1, this.2⟩
  | remove u =>
    by_cases hx : xs = []
    · subst hx
      have := Inv.of hw ho
      simp only [specStep, step, remove_nil hw, Option.map_some, if_true]
      exact ⟨s, rfl, this.1, this.2⟩
    · by_cases hu : u = 0
      · subst hu
        simp [specStep, hx, step, remove_null hw hx]
      · by_cases hm : u ∈ xs
        · obtain ⟨as, bs, rfl⟩ := List.append_of_mem hm
          obtain ⟨s', he, hw', hf, hp, hn⟩ := remove_mem hw
          have hua : u ∉ as := by
            have := hw.nodup; rw [List.nodup_append] at this
            intro h; exact this.2.2 u h u (by simp) rfl
          have her : (as ++ u :: bs).erase u = as ++ bs := by
            rw [List.erase_append_right _ hua, List.erase_cons_head]
          have := Inv.of hw' (outside_pop ho hf hp hn (fun v hv => by
            by_cases e : v = u
            · exact Or.inl e
            · refine Or.inr ?_
              simp only [List.mem_append, List.mem_cons, not_or] at hv ⊢
              exact ⟨hv.1, e, hv.2⟩))
          simp only [specStep, hx, hu, hm, if_true, if_false, step, he, Option.map_some, her]
          exact ⟨s', rfl, this.1, this.2⟩
        · have hf : s.inPool u ≠ 1 := by have := (ho u hm).1; omega
          have := Inv.of hw ho
          simp only [specStep, hx, hu, hm, if_false, step, remove_not_in_pool hw hx hu hf, Option.map_some]
          exact ⟨s, rfl, this.1, this.2⟩
  | size =>
    have := Inv.of hw ho
    simp only [specStep, step, getSize, hw.num]
    exact ⟨s, rfl, this.1, this.2⟩
  | isEmpty =>
    have := Inv.of hw ho
    have he : isEmptyQ s = xs.isEmpty := by
      simp only [isEmptyQ, hw.empty]
      cases xs <;> simp
    simp only [specStep, step, he]
    exact ⟨s, rfl, this.1, this.2⟩

/-- **every operation sequence**: defined exactly when the deque run is defined, with the same
outputs; the final pointer structure is well formed and represents the deque's final content -/
theorem run_refines (ops : List Op) {s : St} (hi : Inv s) :
    match specRun (abs s) ops with
    | none => runOps s ops = none
    | some (xs', os) => ∃ s', runOps s ops = some (s', os) ∧ Inv s' ∧ abs s' = xs' := by
  induction ops generalizing s with
  | nil => simp [specRun, runOps, hi]
  | cons op ops ih =>
    have h1 := step_refines hi op
    simp only [specRun, runOps]
    cases hs : specStep (abs s) op with
    | none => rw [hs] at h1; simp [h1]
    | some p =>
      obtain ⟨xs1, o⟩ := p
      rw [hs] at h1
      obtain ⟨s1, he, hi1, ha1⟩ := h1
      have h2 := ih hi1
      rw [ha1] at h2
      simp only [he]
      cases hr : specRun xs1 ops with
      | none => rw [hr] at h2; simp [h2]
      | some q =>
        obtain ⟨xs2, os⟩ := q
        rw [hr] at h2
        obtain ⟨s2, he2, hi2, ha2⟩ := h2
        simp only [he2]
        exact ⟨s2, rfl, hi2, ha2⟩

/-! ### consequences on the specification level (pure lists) -/

/-- the unit an operation inserts -/
def pushedStep : Op → List Nat
  | .pushHead u => [u]
  | .pushTail u => [u]
  | _ => []

/-- the unit an operation hands out: a non-NULL pop result, or the unit of a successful remove -/
def leftStep : Op → Out → List Nat
  | .popHead, .popped u => if u = 0 then [] else [u]
  | .popTail, .popped u => if u = 0 then [] else [u]
  | .remove u, .rc .success => [u]
  | _, _ => []

def pushedOf (ops : List Op) : List Nat := ops.flatMap pushedStep

def leftOf : List Op → List Out → List Nat
  | op :: ops, o :: os => leftStep op o ++ leftOf ops os
  | _, _ => []

/-- deque contents stay duplicate-free and NULL-free -/
def Good (xs : List Nat) : Prop := xs.Nodup ∧ 0 ∉ xs

theorem specStep_good {xs xs' : List Nat} {op : Op} {o : Out} (hg : Good xs)
    (h : specStep xs op = some (xs', o)) : Good xs' := by
  obtain ⟨hnd, h0⟩ := hg
  cases op with
  | pushHead u =>
    simp only [specStep] at h
    split at h
    · simp at h
    · rename_i hc
      simp only [Option.some.injEq, Prod.mk.injEq] at h
      obtain ⟨rfl, _⟩ := h
      simp only [not_or] at hc
      exact ⟨List.nodup_cons.mpr ⟨hc.2, hnd⟩, by simp [h0, Ne.symm hc.1]⟩
  | pushTail u =>
    simp only [specStep] at h
    split at h
    · simp at h
    · rename_i hc
      simp only [Option.some.injEq, Prod.mk.injEq] at h
      obtain ⟨rfl, _⟩ := h
      simp only [not_or] at hc
      exact ⟨nodup_snoc.mpr ⟨hc.2, hnd⟩, by simp [h0, Ne.symm hc.1]⟩
  | popHead =>
    simp only [specStep, Option.some.injEq, Prod.mk.injEq] at h
    obtain ⟨rfl, _⟩ := h
    cases xs with
    | nil => exact ⟨by simp, by simp⟩
    | cons x r => exact ⟨(List.nodup_cons.mp hnd).2, fun hm => h0 (List.mem_cons_of_mem _ hm)⟩
  | popTail =>
    simp only [specStep, Option.some.injEq, Prod.mk.injEq] at h
    obtain ⟨rfl, _⟩ := h
    exact ⟨hnd.sublist (List.dropLast_sublist xs), fun hm => h0 ((List.dropLast_sublist xs).subset hm)⟩
  | remove u =>
    simp only [specStep] at h
    split at h
    · simp only [Option.some.injEq, Prod.mk.injEq] at h; obtain ⟨rfl, _⟩ := h; exact ⟨hnd, h0⟩
    · split at h
      · simp at h
      · split at h
        · simp only [Option.some.injEq, Prod.mk.injEq] at h
          obtain ⟨rfl, _⟩ := h
          exact ⟨hnd.erase u, fun hm => h0 (List.mem_of_mem_erase hm)⟩
        · simp only [Option.some.injEq, Prod.mk.injEq] at h; obtain ⟨rfl, _⟩ := h; exact ⟨hnd, h0⟩
  | size => simp only [specStep, Option.some.injEq, Prod.mk.injEq] at h; obtain ⟨rfl, _⟩ := h; exact ⟨hnd, h0⟩
  | isEmpty => simp only [specStep, Option.some.injEq, Prod.mk.injEq] at h; obtain ⟨rfl, _⟩ := h; exact ⟨hnd, h0⟩

/-- one step conserves every unit: before + inserted = handed out + after (as multisets) -/
theorem specStep_count {xs xs' : List Nat} {op : Op} {o : Out} (hg : Good xs)
    (h : specStep xs op = some (xs', o)) (a : Nat) :
    List.count a xs + List.count a (pushedStep op) = List.count a (leftStep op o) + List.count a xs' := by
  obtain ⟨hnd, h0⟩ := hg
  cases op with
  | pushHead u =>
    simp only [specStep] at h
    split at h
    · simp at h
    · simp only [Option.some.injEq, Prod.mk.injEq] at h
      obtain ⟨rfl, rfl⟩ := h
      simp [pushedStep, leftStep, List.count_cons]
  | pushTail u =>
    simp only [specStep] at h
    split at h
    · simp at h
    · simp only [Option.some.injEq, Prod.mk.injEq] at h
      obtain ⟨rfl, rfl⟩ := h
      simp [pushedStep, leftStep, List.count_cons, List.count_append]
  | popHead =>
    simp only [specStep, Option.some.injEq, Prod.mk.injEq] at h
    obtain ⟨rfl, rfl⟩ := h
    cases xs with
    | nil => simp [pushedStep, leftStep]
    | cons x r =>
      have hx : x ≠ 0 := fun e => h0 (by simp [e])
      simp [pushedStep, leftStep, hx, List.count_cons]; omega
  | popTail =>
    simp only [specStep, Option.some.injEq, Prod.mk.injEq] at h
    obtain ⟨rfl, rfl⟩ := h
    by_cases hx : xs = []
    · subst hx; simp [pushedStep, leftStep]
    · obtain ⟨r, x, rfl⟩ := exists_snoc hx
      have hx0 : x ≠ 0 := fun e => h0 (by simp [e])
      simp [pushedStep, leftStep, hx0, List.count_cons, List.count_append]; omega
  | remove u =>
    simp only [specStep] at h
    split at h
    · simp only [Option.some.injEq, Prod.mk.injEq] at h; obtain ⟨rfl, rfl⟩ := h; simp [pushedStep, leftStep]
    · split at h
      · simp at h
      · split at h
        · rename_i hm
          simp only [Option.some.injEq, Prod.mk.injEq] at h
          obtain ⟨rfl, rfl⟩ := h
          simp only [pushedStep, leftStep, List.count_nil, Nat.add_zero, List.count_cons, List.count_erase]
          by_cases e : u = a
          · subst e
            have : 0 < List.count u xs := List.count_pos_iff.mpr hm
            simp; omega
          · simp [e]
        · simp only [Option.some.injEq, Prod.mk.injEq] at h; obtain ⟨rfl, rfl⟩ := h; simp [pushedStep, leftStep]
  | size => simp only [specStep, Option.some.injEq, Prod.mk.injEq] at h; obtain ⟨rfl, rfl⟩ := h; simp [pushedStep, leftStep]
  | isEmpty => simp only [specStep, Option.some.injEq, Prod.mk.injEq] at h; obtain ⟨rfl, rfl⟩ := h; simp [pushedStep, leftStep]

theorem specRun_cons {xs xs2 : List Nat} {op : Op} {ops : List Op} {os : List Out}
    (h : specRun xs (op :: ops) = some (xs2, os)) :
    ∃ xs1 o os', specStep xs op = some (xs1, o) ∧ specRun xs1 ops = some (xs2, os') ∧ os = o :: os' := by
  simp only [specRun] at h
  cases hs : specStep xs op with
  | none => simp [hs] at h
  | some p =>
    obtain ⟨xs1, o⟩ := p
    simp only [hs] at h
    cases hr : specRun xs1 ops with
    | none => simp [hr] at h
    | some q =>
      obtain ⟨xs2', os'⟩ := q
      simp only [hr, Option.some.injEq, Prod.mk.injEq] at h
      obtain ⟨rfl, rfl⟩ := h
      exact ⟨xs1, o, os', rfl, hr, rfl⟩

theorem specRun_good {ops : List Op} {xs xs' : List Nat} {os : List Out} (hg : Good xs)
    (h : specRun xs ops = some (xs', os)) : Good xs' := by
  induction ops generalizing xs os with
  | nil => simp [specRun] at h; exact h.1 ▸ hg
  | cons op ops ih =>
    obtain ⟨xs1, o, os', h1, h2, rfl⟩ := specRun_cons h
    exact ih (specStep_good hg h1) h2

theorem specRun_count {ops : List Op} {xs xs' : List Nat} {os : List Out} (hg : Good xs)
    (h : specRun xs ops = some (xs', os)) (a : Nat) :
    List.count a xs + List.count a (pushedOf ops) = List.count a (leftOf ops os) + List.count a xs' := by
  induction ops generalizing xs os with
  | nil => simp [specRun] at h; obtain ⟨rfl, rfl⟩ := h; simp [pushedOf, leftOf]
  | cons op ops ih =>
    obtain ⟨xs1, o, os', h1, h2, rfl⟩ := specRun_cons h
    have e1 := specStep_count hg h1 a
    have e2 := ih (specStep_good hg h1) h2
    simp only [pushedOf, List.flatMap_cons, List.count_append, leftOf] at e2 ⊢
    omega

/-- operations of a FIFO client: enqueue at the tail, dequeue at the head (queries allowed) -/
def FifoOp : Op → Prop
  | .pushTail _ => True
  | .popHead => True
  | .size => True
  | .isEmpty => True
  | _ => False

theorem specRun_fifo {ops : List Op} {xs xs' : List Nat} {os : List Out} (hg : Good xs)
    (hf : ∀ op ∈ ops, FifoOp op) (h : specRun xs ops = some (xs', os)) :
    xs ++ pushedOf ops = leftOf ops os ++ xs' := by
  induction ops generalizing xs os with
  | nil => simp [specRun] at h; obtain ⟨rfl, rfl⟩ := h; simp [pushedOf, leftOf]
  | cons op ops ih =>
    obtain ⟨xs1, o, os', h1, h2, rfl⟩ := specRun_cons h
    have ih' := ih (specStep_good hg h1) (fun op hm => hf op (List.mem_cons_of_mem _ hm)) h2
    have hop := hf op (by simp)
    simp only [pushedOf, List.flatMap_cons, leftOf] at ih' ⊢
    cases op with
    | pushTail u =>
      simp only [specStep] at h1
      split at h1
      · simp at h1
      · simp only [Option.some.injEq, Prod.mk.injEq] at h1
        obtain ⟨rfl, rfl⟩ := h1
        simp only [pushedStep, leftStep, List.nil_append]
        rw [← ih']; simp
    | popHead =>
      simp only [specStep, Option.some.injEq, Prod.mk.injEq] at h1
      obtain ⟨rfl, rfl⟩ := h1
      cases xs with
      | nil => simpa [pushedStep, leftStep] using ih'
      | cons x r =>
        have hx : x ≠ 0 := fun e => hg.2 (by simp [e])
        simp only [pushedStep, leftStep, List.head?_cons, Option.getD_some, hx, if_false, List.nil_append,
          List.tail_cons, List.cons_append] at ih' ⊢
        rw [← ih']
    | size =>
      simp only [specStep, Option.some.injEq, Prod.mk.injEq] at h1
      obtain ⟨rfl, rfl⟩ := h1
      simpa [pushedStep, leftStep] using ih'
    | isEmpty =>
      simp only [specStep, Option.some.injEq, Prod.mk.injEq] at h1
      obtain ⟨rfl, rfl⟩ := h1
      simpa [pushedStep, leftStep] using ih'
    | pushHead u => exact absurd hop (by simp [FifoOp])
    | popTail => exact absurd hop (by simp [FifoOp])
    | remove u => exact absurd hop (by simp [FifoOp])

theorem Inv.good {s : St} (hi : Inv s) : Good (abs s) :=
  ⟨hi.wf.nodup, fun hm => hi.wf.nonnull 0 hm rfl⟩

/-- a defined model run is a defined deque run with the same outputs -/
theorem run_refines_some {ops : List Op} {s s' : St} {os : List Out} (hi : Inv s)
    (h : runOps s ops = some (s', os)) : specRun (abs s) ops = some (abs s', os) ∧ Inv s' := by
  have hr := run_refines ops hi
  cases hs : specRun (abs s) ops with
  | none => rw [hs] at hr; simp [hr] at h
  | some p =>
    obtain ⟨xs', os'⟩ := p
    rw [hs] at hr
    obtain ⟨s'', he, hi', ha⟩ := hr
    rw [he] at h
    simp only [Option.some.injEq, Prod.mk.injEq] at h
    obtain ⟨rfl, rfl⟩ := h
    exact ⟨by rw [ha], hi'⟩

end ArgoVerif.Model.TQ

/-! ### local form (no closed world) and several queues over one set of units -/
namespace ArgoVerif.Model.TQ
open ArgoVerif ArgoVerif.Heap

/-- what the caller of a queue function must guarantee, in terms of the queue it calls it on:
push: a valid unit whose `is_in_pool` flag is clear; remove from a non-empty queue: a valid unit
that, if its flag is set, is in *this* queue -/
def Contract (s : St) (xs : List Nat) : Op → Prop
  | .pushHead u => PushPre s u
  | .pushTail u => PushPre s u
  | .remove u => xs = [] ∨ (u ≠ 0 ∧ (s.inPool u = 1 → u ∈ xs))
  | _ => True

/-- the unit an operation brings in from outside the queue -/
def touched : Op → List Nat
  | .pushHead u => [u]
  | .pushTail u => [u]
  | _ => []

/-- everything one operation does, stated locally: result and new content are the deque's; only
fields of the queue's own units and of the pushed unit are written; a unit that leaves is left
unlinked with `is_in_pool = 0`.  (No assumption about units outside this queue: this is what
the multi-queue theorem and the concurrent model build on.) -/
structure LocalEffect (s s' : St) (xs xs' : List Nat) (op : Op) : Prop where
  wf : WFrel s' xs'
  frame : ∀ x, x ∉ touched op ++ xs → s'.prev x = s.prev x ∧ s'.next x = s.next x ∧ s'.inPool x = s.inPool x
  sub : ∀ x ∈ xs', x ∈ touched op ++ xs
  left : ∀ x ∈ xs, x ∉ xs' → s'.prev x = 0 ∧ s'.next x = 0 ∧ s'.inPool x = 0

theorem LocalEffect.refl {s : St} {xs : List Nat} {op : Op} (h : WFrel s xs) : LocalEffect s s xs xs op :=
  ⟨h, fun _ _ => ⟨rfl, rfl, rfl⟩, fun x hx => List.mem_append_right _ hx, fun x hx hn => absurd hx hn⟩

theorem frame_to_local {s s' : St} {fp : List Nat} {t v : Nat} (hf : Frame s s' fp t v) (ht : t ∈ fp) :
    ∀ x, x ∉ fp → s'.prev x = s.prev x ∧ s'.next x = s.next x ∧ s'.inPool x = s.inPool x := by
  intro x hx
  have hxt : x ≠ t := fun e => hx (e ▸ ht)
  refine ⟨hf.prev x hx, hf.next x hx, ?_⟩
  rw [hf.inPool]; simp [upd, hxt]

theorem step_local {s : St} {xs : List Nat} (h : WFrel s xs) (op : Op) :
    (Contract s xs op → ∃ s' xs' o, step s op = some (s', o) ∧ specStep xs op = some (xs', o) ∧ LocalEffect s s' xs xs' op) ∧
    (¬ Contract s xs op → step s op = none) := by
  cases op with
  | pushHead u =>
    refine ⟨fun hp => ?_, fun hn => by simp [step, pushHead, show ¬ PushPre s u from hn]⟩
    have hp' : PushPre s u := hp
    have hnm := h.not_mem_of_pre hp'
    obtain ⟨s', he, hw', hf⟩ := pushHead_spec h hp'
    refine ⟨s', u :: xs, .unit, by simp [step, he], by simp [specStep, hp'.1, hnm], hw', ?_, fun x hx => by simpa [touched] using hx, ?_⟩
    · simpa [touched] using frame_to_local hf (by simp)
    · intro x hx hn; exact absurd (List.mem_cons_of_mem _ hx) hn
  | pushTail u =>
    refine ⟨fun hp => ?_, fun hn => by simp [step, pushTail, show ¬ PushPre s u from hn]⟩
    have hp' : PushPre s u := hp
    have hnm := h.not_mem_of_pre hp'
    obtain ⟨s', he, hw', hf⟩ := pushTail_spec h hp'
    refine ⟨s', xs ++ [u], .unit, by simp [step, he], by simp [specStep, hp'.1, hnm], hw', ?_, fun x hx => by simpa [touched, or_comm] using hx, ?_⟩
    · simpa [touched] using frame_to_local hf (by simp)
    · intro x hx hn; exact absurd (List.mem_append_left _ hx) hn
  | popHead =>
    refine ⟨fun _ => ?_, fun hn => absurd trivial hn⟩
    cases xs with
    | nil => exact ⟨s, [], .popped 0, by simp [step, popHead_nil h], by simp [specStep], LocalEffect.refl h⟩
    | cons x r =>
      obtain ⟨s', he, hw', hf, hp, hn⟩ := popHead_cons h
      refine ⟨s', r, .popped x, by simp [step, he], by simp [specStep], hw', ?_, fun y hy => by simp [touched, hy], ?_⟩
      · simpa [touched] using frame_to_local hf (by simp)
      · intro y hy hny
        have : y = x := by
          rcases List.mem_cons.mp hy with e | e
          · exact e
          · exact absurd e hny
        subst this
        exact ⟨hp, hn, by rw [hf.inPool]; simp⟩
  | popTail =>
    refine ⟨fun _ => ?_, fun hn => absurd trivial hn⟩
    by_cases hx : xs = []
    · subst hx
      exact ⟨s, [], .popped 0, by simp [step, popTail_nil h], by simp [specStep], LocalEffect.refl h⟩
    · obtain ⟨r, x, rfl⟩ := exists_snoc hx
      obtain ⟨s', he, hw', hf, hp, hn⟩ := popTail_snoc h
      have hf' : Frame s s' (r ++ [x]) x 0 :=
        ⟨fun v hv => hf.prev v (by simpa [or_comm] using hv), fun v hv => hf.next v (by simpa [or_comm] using hv), hf.inPool⟩
      refine ⟨s', r, .popped x, by simp [step, he], by simp [specStep], hw', ?_, fun y hy => by simp [touched, hy], ?_⟩
      · simpa [touched] using frame_to_local hf' (by simp)
      · intro y hy hny
        have : y = x := by
          rcases List.mem_append.mp hy with e | e
          · exact absurd e hny
          · simpa using e
        subst this
        exact ⟨hp, hn, by rw [hf.inPool]; simp⟩
  | remove u =>
    constructor
    · intro hc
      by_cases hx : xs = []
      · subst hx
        exact ⟨s, [], .rc .errPool, by simp [step, remove_nil h], by simp [specStep], LocalEffect.refl h⟩
      · have hc' : u ≠ 0 ∧ (s.inPool u = 1 → u ∈ xs) := by
          rcases hc with e | e
          · exact absurd e hx
          · exact e
        by_cases hm : u ∈ xs
        · obtain ⟨as, bs, rfl⟩ := List.append_of_mem hm
          obtain ⟨s', he, hw', hf, hp, hn⟩ := remove_mem h
          have hua : u ∉ as := by
            have := h.nodup; rw [List.nodup_append] at this
            intro hh; exact this.2.2 u hh u (by simp) rfl
          have her : (as ++ u :: bs).erase u = as ++ bs := by
            rw [List.erase_append_right _ hua, List.erase_cons_head]
          refine ⟨s', as ++ bs, .rc .success, by simp [step, he], by simp [specStep, hc'.1, her], hw', ?_, ?_, ?_⟩
          · simpa [touched] using frame_to_local hf (by simp)
          · intro y hy
            simp only [touched, List.nil_append, List.mem_append, List.mem_cons] at hy ⊢
            rcases hy with e | e
            · exact Or.inl e
            · exact Or.inr (Or.inr e)
          · intro y hy hny
            have : y = u := by
              simp only [List.mem_append, List.mem_cons, not_or] at hy hny
              rcases hy with e | e | e
              · exact absurd e hny.1
              · exact e
              · exact absurd e hny.2
            subst this
            exact ⟨hp, hn, by rw [hf.inPool]; simp⟩
        · have hf : s.inPool u ≠ 1 := fun e => hm (hc'.2 e)
          exact ⟨s, xs, .rc .errPool, by simp [step, remove_not_in_pool h hx hc'.1 hf], by simp [specStep, hx, hc'.1, hm],
            LocalEffect.refl h⟩
    · intro hn
      simp only [Contract, not_or, not_and, Classical.not_imp] at hn
      obtain ⟨hx, hn⟩ := hn
      by_cases hu : u = 0
      · subst hu; simp [step, remove_null h hx]
      · obtain ⟨hf, hm⟩ := hn hu
        simp [step, remove_foreign h hx hu hf hm]
  | size =>
    exact ⟨fun _ => ⟨s, xs, .size xs.length, by simp [step, getSize, h.num], by simp [specStep], LocalEffect.refl h⟩,
      fun hn => absurd trivial hn⟩
  | isEmpty =>
    refine ⟨fun _ => ⟨s, xs, .empty xs.isEmpty, ?_, by simp [specStep], LocalEffect.refl h⟩, fun hn => absurd trivial hn⟩
    have he : isEmptyQ s = xs.isEmpty := by
      simp only [isEmptyQ, h.empty]
      cases xs <;> simp
    simp [step, he]

/-! #### several queues -/

def World.abs (w : World) (i : Nat) : List Nat := TQ.abs (w.get i)

/-- invariant of a process with many queues over one set of units: every queue is well formed,
a unit is in at most one queue, `is_in_pool` = 1 exactly for queued units, unqueued units are unlinked -/
structure WInv (w : World) : Prop where
  wf : ∀ i, WFrel (w.get i) (w.abs i)
  disj : ∀ i j u, u ∈ w.abs i → u ∈ w.abs j → i = j
  out : ∀ u, (∀ i, u ∉ w.abs i) → w.inPool u = 0 ∧ w.prev u = 0 ∧ w.next u = 0

theorem World.get_put_same (w : World) (i : Nat) (s : St) : (w.put i s).get i = s := by
  simp [World.get, World.put]

theorem World.get_put_other (w : World) {i j : Nat} (s : St) (h : j ≠ i) :
    (w.put i s).get j = { w.get j with prev := s.prev, next := s.next, inPool := s.inPool } := by
  simp [World.get, World.put, upd, h]

/-- a queue does not notice writes to units it does not hold -/
theorem WFrel.transfer {s s' : St} {ys : List Nat} (h : WFrel s ys)
    (hq : s'.num = s.num ∧ s'.head = s.head ∧ s'.tail = s.tail ∧ s'.isEmpty = s.isEmpty)
    (hag : ∀ x ∈ ys, s'.prev x = s.prev x ∧ s'.next x = s.next x ∧ s'.inPool x = s.inPool x) : WFrel s' ys := by
  refine ⟨?_, by rw [hq.1]; exact h.num, by rw [hq.2.2.2]; exact h.empty, fun u hu => by rw [(hag u hu).2.2]; exact h.inp u hu⟩
  rw [hq.2.1, hq.2.2.1]
  exact (circ_congr (fun x hx => (hag x hx).1) (fun x hx => (hag x hx).2.1)).mpr h.circ

theorem WInv.inPool_iff {w : World} (hi : WInv w) (u : Nat) : w.inPool u = 1 ↔ ∃ i, u ∈ w.abs i := by
  constructor
  · intro h1
    apply Classical.byContradiction
    intro hn
    have := (hi.out u (fun i hm => hn ⟨i, hm⟩)).1
    omega
  · rintro ⟨i, hm⟩; exact (hi.wf i).inp u hm

/-- the contract in terms of the abstract contents: a pushed unit is non-NULL and in no queue; a unit
removed from a non-empty queue is non-NULL and not in another queue -/
theorem WInv.contract_iff {w : World} (hi : WInv w) (i : Nat) (op : Op) :
    Contract (w.get i) (w.abs i) op ↔
      match op with
      | .pushHead u => u ≠ 0 ∧ ∀ j, u ∉ w.abs j
      | .pushTail u => u ≠ 0 ∧ ∀ j, u ∉ w.abs j
      | .remove u => w.abs i = [] ∨ (u ≠ 0 ∧ ∀ j, u ∈ w.abs j → j = i)
      | _ => True := by
  have hpush : ∀ u, PushPre (w.get i) u ↔ u ≠ 0 ∧ ∀ j, u ∉ w.abs j := by
    intro u
    constructor
    · rintro ⟨h0, hz⟩
      refine ⟨h0, fun j hm => ?_⟩
      have : w.inPool u = 1 := (hi.wf j).inp u hm
      have hz' : w.inPool u = 0 := hz
      omega
    · rintro ⟨h0, hn⟩; exact ⟨h0, (hi.out u hn).1⟩
  cases op with
  | pushHead u => exact hpush u
  | pushTail u => exact hpush u
  | remove u =>
    simp only [Contract]
    constructor
    · rintro (h | ⟨h0, himp⟩)
      · exact Or.inl h
      · refine Or.inr ⟨h0, fun j hm => ?_⟩
        have : w.inPool u = 1 := (hi.wf j).inp u hm
        exact hi.disj j i u hm (himp this)
    · rintro (h | ⟨h0, hall⟩)
      · exact Or.inl h
      · refine Or.inr ⟨h0, fun h1 => ?_⟩
        obtain ⟨j, hm⟩ := (hi.inPool_iff u).mp h1
        exact (hall j hm) ▸ hm
  | popHead => simp [Contract]
  | popTail => simp [Contract]
  | size => simp [Contract]
  | isEmpty => simp [Contract]

/-- **one operation on one of many queues**: defined exactly under the contract; acts on that queue's
content as the deque operation with the deque's result; every other queue keeps its content; the
whole-world invariant is preserved -/
theorem world_step {w : World} (hi : WInv w) (i : Nat) (op : Op) :
    (Contract (w.get i) (w.abs i) op →
      ∃ w' o, w.step i op = some (w', o) ∧ WInv w' ∧ specStep (w.abs i) op = some (w'.abs i, o) ∧
        ∀ j, j ≠ i → w'.abs j = w.abs j) ∧
    (¬ Contract (w.get i) (w.abs i) op → w.step i op = none) := by
  obtain ⟨hdef, hund⟩ := step_local (hi.wf i) op
  refine ⟨fun hc => ?_, fun hn => by simp [World.step, hund hn]⟩
  obtain ⟨s', xs', o, he, hs, hl⟩ := hdef hc
  -- units brought in are in no queue
  have htouch : ∀ x ∈ touched op, ∀ j, x ∉ w.abs j := by
    intro x hx j
    have hc' := (hi.contract_iff i op).mp hc
    cases op with
    | pushHead u => simp [touched] at hx; subst hx; exact hc'.2 j
    | pushTail u => simp [touched] at hx; subst hx; exact hc'.2 j
    | _ => simp [touched] at hx
  have hfoot : ∀ j, j ≠ i → ∀ x ∈ w.abs j, x ∉ touched op ++ w.abs i := by
    intro j hj x hx hm
    rcases List.mem_append.mp hm with h1 | h1
    · exact htouch x h1 j hx
    · exact hj (hi.disj j i x hx h1)
  have hwf_other : ∀ j, j ≠ i → WFrel ((w.put i s').get j) (w.abs j) := by
    intro j hj
    rw [World.get_put_other w s' hj]
    exact (hi.wf j).transfer ⟨rfl, rfl, rfl, rfl⟩ (fun x hx => hl.frame x (hfoot j hj x hx))
  have habs_i : (w.put i s').abs i = xs' := by
    simp only [World.abs, World.get_put_same]; exact hl.wf.members_eq
  have habs_o : ∀ j, j ≠ i → (w.put i s').abs j = w.abs j := fun j hj => (hwf_other j hj).members_eq
  refine ⟨w.put i s', o, by simp [World.step, he], ⟨?_, ?_, ?_⟩, by rw [habs_i]; exact hs, habs_o⟩
  · intro j
    by_cases hj : j = i
    · subst hj; rw [habs_i, World.get_put_same]; exact hl.wf
    · rw [habs_o j hj]; exact hwf_other j hj
  · intro j k u hj hk
    by_cases hji : j = i <;> by_cases hki : k = i
    · rw [hji, hki]
    · subst hji; rw [habs_i] at hj; rw [habs_o k hki] at hk
      exact absurd (hl.sub u hj) (hfoot k hki u hk)
    · subst hki; rw [habs_i] at hk; rw [habs_o j hji] at hj
      exact absurd (hl.sub u hk) (hfoot j hji u hj)
    · rw [habs_o j hji] at hj; rw [habs_o k hki] at hk; exact hi.disj j k u hj hk
  · intro u hu
    have hui : u ∉ xs' := habs_i ▸ hu i
    have huo : ∀ j, j ≠ i → u ∉ w.abs j := fun j hj => habs_o j hj ▸ hu j
    show s'.inPool u = 0 ∧ s'.prev u = 0 ∧ s'.next u = 0
    by_cases hold : u ∈ w.abs i
    · have := hl.left u hold hui; exact ⟨this.2.2, this.1, this.2.1⟩
    · by_cases ht : u ∈ touched op
      · -- a pushed unit is in the new content
        exfalso
        cases op with
        | pushHead v =>
          simp [touched] at ht; subst ht
          simp only [specStep] at hs; split at hs
          · simp at hs
          · simp only [Option.some.injEq, Prod.mk.injEq] at hs; exact hui (by rw [← hs.1]; simp)
        | pushTail v =>
          simp [touched] at ht; subst ht
          simp only [specStep] at hs; split at hs
          · simp at hs
          · simp only [Option.some.injEq, Prod.mk.injEq] at hs; exact hui (by rw [← hs.1]; simp)
        | _ => simp [touched] at ht
      · have hfr := hl.frame u (by simp [ht, hold])
        have hout := hi.out u (fun j => by
          by_cases hj : j = i
          · subst hj; exact hold
          · exact huo j hj)
        have e1 : (w.get i).prev = w.prev := rfl
        have e2 : (w.get i).next = w.next := rfl
        have e3 : (w.get i).inPool = w.inPool := rfl
        rw [e1, e2, e3] at hfr
        rw [hfr.1, hfr.2.1, hfr.2.2]; exact hout

/-- all queues initialised and empty, all units clean -/
def World.initial : World :=
  { q := fun _ => ⟨0, 0, 0, 1⟩, prev := fun _ => 0, next := fun _ => 0, inPool := fun _ => 0 }

theorem World.initial_abs (i : Nat) : World.initial.abs i = [] := rfl

theorem World.initial_inv : WInv World.initial := by
  refine ⟨fun i => ?_, fun i j u hu => by simp [World.initial_abs] at hu, fun u _ => ⟨rfl, rfl, rfl⟩⟩
  rw [World.initial_abs]
  exact ⟨circ_nil, rfl, rfl, by simp⟩

/-- runs of (queue index, operation) pairs -/
def World.run (w : World) : List (Nat × Op) → Option (World × List Out)
  | [] => some (w, [])
  | (i, op) :: r =>
    match w.step i op with
    | none => none
    | some (w1, o) =>
      match World.run w1 r with
      | none => none
      | some (w2, os) => some (w2, o :: os)

/-- the specification: independent deques, one per queue index -/
def specWorldRun (L : Nat → List Nat) : List (Nat × Op) → Option ((Nat → List Nat) × List Out)
  | [] => some (L, [])
  | (i, op) :: r =>
    match specStep (L i) op with
    | none => none
    | some (xs', o) =>
      match specWorldRun (upd L i xs') r with
      | none => none
      | some (L2, os) => some (L2, o :: os)

theorem world_run_refines (ops : List (Nat × Op)) {w w' : World} {os : List Out} (hi : WInv w)
    (h : w.run ops = some (w', os)) :
    WInv w' ∧ specWorldRun w.abs ops = some (w'.abs, os) := by
  induction ops generalizing w os with
  | nil =>
    simp only [World.run, Option.some.injEq, Prod.mk.injEq] at h
    obtain ⟨rfl, rfl⟩ := h
    exact ⟨hi, rfl⟩
  | cons p r ih =>
    obtain ⟨i, op⟩ := p
    simp only [World.run] at h
    cases hst : w.step i op with
    | none => simp [hst] at h
    | some q =>
      obtain ⟨w1, o⟩ := q
      simp only [hst] at h
      cases hr : World.run w1 r with
      | none => simp [hr] at h
      | some q2 =>
        obtain ⟨w2, os2⟩ := q2
        simp only [hr, Option.some.injEq, Prod.mk.injEq] at h
        obtain ⟨rfl, rfl⟩ := h
        obtain ⟨hdef, hund⟩ := world_step hi i op
        have hc : Contract (w.get i) (w.abs i) op := by
          apply Classical.byContradiction
          intro hn; have := hund hn; simp [hst] at this
        obtain ⟨w1', o', he, hi1, hs, hoth⟩ := hdef hc
        rw [hst] at he
        simp only [Option.some.injEq, Prod.mk.injEq] at he
        obtain ⟨rfl, rfl⟩ := he
        obtain ⟨hi2, hs2⟩ := ih hi1 hr
        refine ⟨hi2, ?_⟩
        have hupd : upd w.abs i (w1.abs i) = w1.abs := by
          funext j
          by_cases hj : j = i
          · subst hj; simp
          · simp [upd, hj, hoth j hj]
        simp only [specWorldRun, hs, hupd, hs2]

end ArgoVerif.Model.TQ

/-! ### interpretation of the generated pool table -/
namespace ArgoVerif.Model.Pool

/-- which queue function a pool operation calls under context `ctx`, for a RANDWS push-head mask `mh`
and pop-tail mask `mt` (FIFO / FIFO_WAIT ignore the context) -/
def specCallM (mh mt : Nat) (k : Kind) (sl : Slot) (ctx : Nat) : Call :=
  match sl with
  | .remove => .remove
  | .push | .pushMany => if k = .randws ∧ ctx &&& mh ≠ 0 then .pushHead else .pushTail
  | .pop | .popWait | .popMany => if k = .randws ∧ ctx &&& mt ≠ 0 then .popTail else .popHead
  | .popTimedwait => .popHead      -- no context parameter in this (deprecated) interface

/-- the same as a table shape: context tests and callee per call site -/
def expectedShapeM (mh mt : Nat) (k : Kind) (sl : Slot) : List (List Cond × Call) :=
  match sl with
  | .remove => [([], .remove)]
  | .push | .pushMany =>
    if k = .randws then [([⟨mh, true⟩], .pushHead), ([⟨mh, false⟩], .pushTail)] else [([], .pushTail)]
  | .pop | .popWait | .popMany =>
    if k = .randws then [([⟨mt, true⟩], .popTail), ([⟨mt, false⟩], .popHead)] else [([], .popHead)]
  | .popTimedwait => [([], .popHead)]

def shape (s : Site) : List Cond × Call := (s.conds, s.call)

def enabledShape (sh : List (List Cond × Call)) (ctx : Nat) : List Call :=
  (sh.filter fun p => p.1.all (·.holds ctx)).map (·.2)

theorem enabled_eq_shape (sites : List Site) (ctx : Nat) : enabled sites ctx = enabledShape (sites.map shape) ctx := by
  induction sites with
  | nil => rfl
  | cons s r ih =>
    simp only [enabled, enabledShape, List.filter_cons, List.map_cons, shape] at ih ⊢
    split <;> simp_all

theorem enabledShape_expected (mh mt : Nat) (k : Kind) (sl : Slot) (ctx : Nat) :
    enabledShape (expectedShapeM mh mt k sl) ctx = [specCallM mh mt k sl ctx] := by
  have huncond : ∀ c : Call, enabledShape [([], c)] ctx = [c] := fun c => by
    simp [enabledShape, List.filter_cons]
  have hmask : ∀ (m : Nat) (c1 c2 : Call),
      enabledShape [([⟨m, true⟩], c1), ([⟨m, false⟩], c2)] ctx = [if ctx &&& m ≠ 0 then c1 else c2] := by
    intro m c1 c2
    by_cases h : ctx &&& m = 0 <;> simp [enabledShape, List.filter_cons, Cond.holds, h]
  cases sl <;> cases k <;> simp only [expectedShapeM, specCallM, reduceCtorEq, if_false, if_true, false_and, true_and] <;>
    first | exact huncond _ | exact hmask _ _ _


/-! ### the multi-unit pool functions on the abstract content -/
open ArgoVerif.Model.TQ

theorem pushTail_of_step {s s' : St} {u : Nat} {o : Out} (h : step s (.pushTail u) = some (s', o)) : pushTail s u = some s' := by
  simp only [step, Option.map_eq_some_iff] at h
  obtain ⟨a, ha, he⟩ := h
  simp only [Prod.mk.injEq] at he
  rw [ha, he.1]

theorem pushHead_of_step {s s' : St} {u : Nat} {o : Out} (h : step s (.pushHead u) = some (s', o)) : pushHead s u = some s' := by
  simp only [step, Option.map_eq_some_iff] at h
  obtain ⟨a, ha, he⟩ := h
  simp only [Prod.mk.injEq] at he
  rw [ha, he.1]

/-- `push_many` at the tail: the units are appended in array order -/
theorem pushTail_many {s : St} (hi : Inv s) (us : List Nat) (hnd : us.Nodup) (hn : ∀ u ∈ us, u ≠ 0 ∧ u ∉ abs s) :
    ∃ s', us.foldlM (fun s u => pushWith .pushTail s u) s = some s' ∧ Inv s' ∧ abs s' = abs s ++ us := by
  induction us generalizing s with
  | nil => exact ⟨s, rfl, hi, by simp⟩
  | cons u r ih =>
    have hu := hn u (by simp)
    have h1 := step_refines hi (.pushTail u)
    simp only [specStep, hu.1, hu.2, or_self, if_false] at h1
    obtain ⟨s1, he, hi1, ha1⟩ := h1
    have hnd' := List.nodup_cons.mp hnd
    obtain ⟨s', hf, hi', ha'⟩ := ih hi1 hnd'.2 (fun v hv => by
      refine ⟨(hn v (List.mem_cons_of_mem _ hv)).1, ?_⟩
      rw [ha1]
      simp only [List.mem_append, List.mem_singleton, not_or]
      exact ⟨(hn v (List.mem_cons_of_mem _ hv)).2, fun e => hnd'.1 (e ▸ hv)⟩)
    refine ⟨s', ?_, hi', by rw [ha', ha1]; simp⟩
    simp only [List.foldlM_cons, pushWith, pushTail_of_step he, Option.bind_eq_bind, Option.bind_some]
    exact hf

/-- `push_many` at the head: each unit goes in front of the previous one -/
theorem pushHead_many {s : St} (hi : Inv s) (us : List Nat) (hnd : us.Nodup) (hn : ∀ u ∈ us, u ≠ 0 ∧ u ∉ abs s) :
    ∃ s', us.foldlM (fun s u => pushWith .pushHead s u) s = some s' ∧ Inv s' ∧ abs s' = us.reverse ++ abs s := by
  induction us generalizing s with
  | nil => exact ⟨s, rfl, hi, by simp⟩
  | cons u r ih =>
    have hu := hn u (by simp)
    have h1 := step_refines hi (.pushHead u)
    simp only [specStep, hu.1, hu.2, or_self, if_false] at h1
    obtain ⟨s1, he, hi1, ha1⟩ := h1
    have hnd' := List.nodup_cons.mp hnd
    obtain ⟨s', hf, hi', ha'⟩ := ih hi1 hnd'.2 (fun v hv => by
      refine ⟨(hn v (List.mem_cons_of_mem _ hv)).1, ?_⟩
      rw [ha1]
      simp only [List.mem_cons, not_or]
      exact ⟨fun e => hnd'.1 (e ▸ hv), (hn v (List.mem_cons_of_mem _ hv)).2⟩)
    refine ⟨s', ?_, hi', by rw [ha', ha1]; simp⟩
    simp only [List.foldlM_cons, pushWith, pushHead_of_step he, Option.bind_eq_bind, Option.bind_some]
    exact hf

theorem popHead_of_step {s s' : St} {r : Nat} (h : step s .popHead = some (s', .popped r)) : popHead s = some (s', r) := by
  simp only [step, Option.map_eq_some_iff] at h
  obtain ⟨a, ha, he⟩ := h
  obtain ⟨a1, a2⟩ := a
  simp only [Prod.mk.injEq, Out.popped.injEq] at he
  rw [ha, he.1, he.2]

theorem popTail_of_step {s s' : St} {r : Nat} (h : step s .popTail = some (s', .popped r)) : popTail s = some (s', r) := by
  simp only [step, Option.map_eq_some_iff] at h
  obtain ⟨a, ha, he⟩ := h
  obtain ⟨a1, a2⟩ := a
  simp only [Prod.mk.injEq, Out.popped.injEq] at he
  rw [ha, he.1, he.2]

/-- `pop_many(max)` from the head: the first `max` units in queue order (fewer if the queue runs empty) -/
theorem popLoop_head (n : Nat) {s : St} (hi : Inv s) (acc : List Nat) :
    ∃ s', popLoop .popHead n s acc = some (s', acc.reverse ++ (abs s).take n) ∧ Inv s' ∧ abs s' = (abs s).drop n := by
  induction n generalizing s acc with
  | zero => exact ⟨s, by simp [popLoop], hi, by simp⟩
  | succ n ih =>
    have h1 := step_refines hi .popHead
    simp only [specStep] at h1
    obtain ⟨s1, he, hi1, ha1⟩ := h1
    have hp := popHead_of_step he
    cases hx : abs s with
    | nil =>
      rw [hx] at hp ha1
      refine ⟨s1, ?_, hi1, by simpa using ha1⟩
      simp [popLoop, popWith, hp]
    | cons x t =>
      rw [hx] at hp ha1
      have hx0 : x ≠ 0 := hi.wf.nonnull x (by rw [hx]; simp)
      obtain ⟨s', hl, hi', ha'⟩ := ih hi1 (x :: acc)
      refine ⟨s', ?_, hi', by rw [ha', ha1]; simp⟩
      simp only [List.head?_cons, Option.getD_some] at hp
      obtain ⟨k, rfl⟩ : ∃ k, x = k + 1 := ⟨x - 1, by omega⟩
      simp only [popLoop, popWith, hp]
      rw [hl, ha1]; simp

/-- `pop_many(max)` from the tail: the last `max` units, last first -/
theorem popLoop_tail (n : Nat) {s : St} (hi : Inv s) (acc : List Nat) :
    ∃ s', popLoop .popTail n s acc = some (s', acc.reverse ++ (abs s).reverse.take n) ∧ Inv s' ∧
      abs s' = ((abs s).reverse.drop n).reverse := by
  induction n generalizing s acc with
  | zero => exact ⟨s, by simp [popLoop], hi, by simp⟩
  | succ n ih =>
    have h1 := step_refines hi .popTail
    simp only [specStep] at h1
    obtain ⟨s1, he, hi1, ha1⟩ := h1
    have hp := popTail_of_step he
    by_cases hx : abs s = []
    · rw [hx] at hp ha1
      refine ⟨s1, ?_, hi1, by simpa [hx] using ha1⟩
      simp [popLoop, popWith, hp, hx]
    · obtain ⟨r, x, hrx⟩ := ArgoVerif.Heap.exists_snoc hx
      rw [hrx] at hp ha1
      have hx0 : x ≠ 0 := hi.wf.nonnull x (by rw [hrx]; simp)
      obtain ⟨s', hl, hi', ha'⟩ := ih hi1 (x :: acc)
      simp only [List.dropLast_concat] at ha1
      refine ⟨s', ?_, hi', by rw [ha', ha1, hrx]; simp⟩
      simp only [List.getLast?_append, List.getLast?_singleton, Option.some_or, Option.getD_some] at hp
      obtain ⟨k, rfl⟩ : ∃ k, x = k + 1 := ⟨x - 1, by omega⟩
      simp only [popLoop, popWith, hp]
      rw [hl, ha1, hrx]; simp

end ArgoVerif.Model.Pool
