import ArgoVerif.Model.WLPtr
/- Proofs.WLPtr — every operation of the pointer-level wait-list preserves the representation. -/
namespace ArgoVerif.Model.WLPtr
open ArgoVerif ArgoVerif.Heap

/-! ### `lastD` -/

@[simp] theorem lastD_nil (p : Nat) : lastD p [] = p := rfl
@[simp] theorem lastD_cons (p x : Nat) (xs : List Nat) : lastD p (x :: xs) = lastD x xs := rfl

theorem lastD_append (p : Nat) (as bs : List Nat) : lastD p (as ++ bs) = lastD (lastD p as) bs := by
  induction as generalizing p with
  | nil => rfl
  | cons a as ih => simp [ih]

@[simp] theorem lastD_snoc (p l : Nat) (xs : List Nat) : lastD p (xs ++ [l]) = l := by
  simp [lastD_append]

theorem lastD_of_ne_nil {xs : List Nat} (h : xs ≠ []) (p q : Nat) : lastD p xs = lastD q xs := by
  cases xs with
  | nil => exact absurd rfl h
  | cons x r => rfl

theorem lastD_mem (p : Nat) (xs : List Nat) : lastD p xs = p ∧ xs = [] ∨ lastD p xs ∈ xs := by
  induction xs generalizing p with
  | nil => simp
  | cons x r ih =>
    right
    rcases ih x with ⟨h1, h2⟩ | h
    · simp [h1]
    · simp [h]

theorem lastD_eq_getLast? (p : Nat) (xs : List Nat) : lastD p xs = xs.getLast?.getD p := by
  induction xs generalizing p with
  | nil => rfl
  | cons x r ih => simp [ih, List.getLast?_cons]

/-! ### `Chain` -/

theorem chain_congr {prev prev' : Nat → Nat} {timed timed' : Nat → Bool} {p : Nat} {xs : List Nat}
    (h : ∀ x ∈ xs, prev' x = prev x ∧ timed' x = timed x) :
    Chain prev' timed' p xs ↔ Chain prev timed p xs := by
  induction xs generalizing p with
  | nil => simp [Chain]
  | cons y r ih =>
    have hy := h y (by simp)
    have := @ih y (fun x hx => h x (by simp [hx]))
    simp only [Chain, hy.1, hy.2, this]

theorem chain_append {prev : Nat → Nat} {timed : Nat → Bool} {p : Nat} {as bs : List Nat} :
    Chain prev timed p (as ++ bs) ↔ Chain prev timed p as ∧ Chain prev timed (lastD p as) bs := by
  induction as generalizing p with
  | nil => simp [Chain]
  | cons a r ih => simp only [List.cons_append, Chain, ih, lastD_cons, and_assoc]

/-- dropping the first node of a chain: whatever precedes the rest is fine (the new head's `prev` is
unconstrained) -/
theorem prevOk_of_chain {s : St} {p : Nat} {xs : List Nat} (h : Chain s.prev s.timed p xs) : PrevOk s xs := by
  cases xs with
  | nil => trivial
  | cons x r => exact h.2

theorem prevOk_congr {s s' : St} {xs : List Nat}
    (h : ∀ x ∈ xs, s'.prev x = s.prev x ∧ s'.timed x = s.timed x) : PrevOk s' xs ↔ PrevOk s xs := by
  cases xs with
  | nil => simp [PrevOk]
  | cons x r => exact chain_congr (fun y hy => h y (by simp [hy]))

/-! ### the operations -/

theorem rep_nil_iff {s : St} {xs : List Nat} (h : Rep s xs) : s.head = 0 ↔ xs = [] := sll_nil_iff h.1

theorem rep_init : Rep init [] := by simp [Rep, init, PrevOk]

/-- both enqueue functions: the node is appended; `prevNew` is what the timed variant stores in the new
node's `p_prev` -/
theorem rep_enq_gen {s : St} {xs : List Nat} {n : Nat} (tm : Bool) (prev' : Nat → Nat)
    (h : Rep s xs) (hn : n ≠ 0) (hm : n ∉ xs)
    (hp : ∀ x, x ≠ n → prev' x = s.prev x) (hpn : tm = true → prev' n = s.tail) :
    Rep { s with next := if s.head = 0 then upd s.next n 0 else upd (upd s.next n 0) s.tail n,
                 prev := prev', head := if s.head = 0 then n else s.head, tail := n,
                 timed := upd s.timed n tm } (xs ++ [n]) := by
  obtain ⟨hseg, htail, hnd, hpo⟩ := h
  have hnil := sll_nil_iff hseg
  by_cases hx : xs = []
  · subst hx
    have hh : s.head = 0 := hnil.mpr rfl
    simp [Rep, hh, hn, PrevOk, Chain]
  · have hh : s.head ≠ 0 := fun e => hx (hnil.mp e)
    obtain ⟨ini, l, rfl⟩ := exists_snoc hx
    have hl : s.tail = l := by simpa using htail
    have hln : l ≠ n := fun e => hm (by simp [e])
    refine ⟨?_, (lastD_snoc _ _ _).symm, nodup_snoc.mpr ⟨hm, hnd⟩, ?_⟩
    · simp only [hh, if_false, hl]
      rw [seg_snoc_iff]
      refine ⟨?_, hn, by simp [upd, hln.symm]⟩
      exact seg_set_last ((seg_frame hm).mpr hseg) (nodup_snoc.mp hnd).1
    · -- PrevOk of (ini ++ [l]) ++ [n]
      cases hini : ini ++ [l] with
      | nil => simp at hini
      | cons y r =>
        rw [hini] at hpo hm
        simp only [List.cons_append, PrevOk] at hpo ⊢
        rw [chain_append]
        constructor
        · refine (chain_congr ?_).mpr hpo
          intro x hxr
          have : x ≠ n := fun e => hm (by simp [← e, hxr])
          simp [upd, this, hp x this]
        · simp only [Chain, and_true]
          intro _
          have htm : tm = true := by simpa [upd] using ‹(upd s.timed n tm) n = true›
          have : lastD y r = l := by
            have : lastD 0 (y :: r) = l := by rw [← hini]; simp
            simpa using this
          rw [this, hpn htm, hl]

theorem rep_enqUntimed {s : St} {xs : List Nat} {n : Nat} (h : Rep s xs) (hn : n ≠ 0) (hm : n ∉ xs) :
    Rep (enqUntimed s n) (xs ++ [n]) := by
  have := rep_enq_gen (s := s) false s.prev h hn hm (fun _ _ => rfl) (by simp)
  unfold enqUntimed
  by_cases hh : s.head = 0 <;> simpa [hh] using this

theorem rep_enqTimed {s : St} {xs : List Nat} {n : Nat} (h : Rep s xs) (hn : n ≠ 0) (hm : n ∉ xs) :
    Rep (enqTimed s n) (xs ++ [n]) := by
  unfold enqTimed
  by_cases hh : s.head = 0
  · have ht : s.tail = 0 := by
      have := (rep_nil_iff h).mp hh
      subst this; simpa using h.2.1
    have := rep_enq_gen (s := s) true (upd s.prev n 0) h hn hm (fun x hx => by simp [upd, hx]) (by simp [ht])
    simpa [hh] using this
  · have := rep_enq_gen (s := s) true (upd s.prev n s.tail) h hn hm (fun x hx => by simp [upd, hx]) (by simp)
    simpa [hh] using this

theorem rep_popHead {s : St} {xs : List Nat} (h : Rep s xs) : Rep (popHead s) xs.tail := by
  unfold popHead
  cases xs with
  | nil =>
    have hh : s.head = 0 := (rep_nil_iff h).mpr rfl
    simpa [hh] using h
  | cons x r =>
    obtain ⟨hseg, htail, hnd, hpo⟩ := h
    obtain ⟨hhx, hx0, hr⟩ := hseg
    obtain ⟨hxr, hndr⟩ := List.nodup_cons.mp hnd
    have hh : s.head ≠ 0 := by rw [hhx]; exact hx0
    simp only [hh, if_false, List.tail_cons]
    rw [hhx]
    have hnil := sll_nil_iff (xs := r) hr
    refine ⟨(seg_frame hxr).mpr hr, ?_, hndr, ?_⟩
    · by_cases hr0 : r = []
      · subst hr0; simp [hnil.mpr rfl]
      · have : s.next x ≠ 0 := fun e => hr0 (hnil.mp e)
        simp only [this, if_false, htail, lastD_cons]
        exact lastD_of_ne_nil hr0 _ _
    · exact (prevOk_congr (s := s) (fun _ _ => ⟨rfl, rfl⟩)).mpr (prevOk_of_chain hpo)

/-- the broadcast loop visits exactly the nodes of the list, clears their links and stops at NULL
within `xs.length` iterations -/
theorem clearLoop_spec {next : Nat → Nat} {p : Nat} {xs : List Nat} (hseg : Seg next p xs 0) (hne : xs ≠ [])
    (hnd : xs.Nodup) :
    (clearLoop next p xs.length).2 = 0 ∧
    ∀ x, (clearLoop next p xs.length).1 x = if x ∈ xs then 0 else next x := by
  induction xs generalizing next p with
  | nil => exact absurd rfl hne
  | cons y r ih =>
    obtain ⟨rfl, hy0, hr⟩ := hseg
    obtain ⟨hyr, hndr⟩ := List.nodup_cons.mp hnd
    simp only [List.length_cons, clearLoop]
    by_cases hr0 : r = []
    · subst hr0
      have : next p = 0 := by simpa using hr
      simp [this, upd]
    · have hnx : next p ≠ 0 := fun e => hr0 ((sll_nil_iff (xs := r) hr).mp e)
      simp only [hnx, if_false]
      have hr' : Seg (upd next p 0) (next p) r 0 := (seg_frame hyr).mpr hr
      obtain ⟨h1, h2⟩ := ih hr' hr0 hndr
      refine ⟨h1, ?_⟩
      intro x
      rw [h2 x]
      by_cases hx : x ∈ r
      · simp [hx]
      · by_cases hxp : x = p
        · subst hxp; simp [hx]
        · simp [hx, hxp, upd]

theorem rep_broadcast {s : St} {xs : List Nat} (h : Rep s xs) : Rep (broadcast xs.length s) [] := by
  unfold broadcast
  by_cases hh : s.head = 0
  · have := (rep_nil_iff h).mp hh
    subst this; simpa [hh] using h
  · simp [hh, Rep, PrevOk]

/-- unlinking a non-first node of a segment by redirecting its predecessor's link -/
theorem seg_unlink {next : Nat → Nat} {a c n : Nat} {as bs : List Nat} (hne : as ≠ [])
    (hseg : Seg next a (as ++ n :: bs) c) (hnd : (as ++ n :: bs).Nodup) :
    Seg (upd next (lastD 0 as) (next n)) a (as ++ bs) c := by
  obtain ⟨ini, p, rfl⟩ := exists_snoc hne
  simp only [lastD_snoc]
  rw [seg_split] at hseg
  obtain ⟨h1, _, h2⟩ := hseg
  rw [List.nodup_append] at hnd
  obtain ⟨hndA, hndB, hAB⟩ := hnd
  have hp_ini : p ∉ ini := (nodup_snoc.mp hndA).1
  have hp_bs : p ∉ bs := fun hm => hAB p (by simp) p (List.mem_cons_of_mem _ hm) rfl
  exact seg_append (seg_set_last h1 hp_ini) ((seg_frame hp_bs).mpr h2)

theorem rep_removeTimed {s : St} {xs : List Nat} {n : Nat} (h : Rep s xs) (hm : n ∈ xs) (ht : s.timed n = true) :
    Rep (removeTimed s n) (xs.erase n) := by
  obtain ⟨hseg, htail, hnd, hpo⟩ := h
  obtain ⟨as, bs, rfl⟩ := List.append_of_mem hm
  have hnd' := hnd
  rw [List.nodup_append] at hnd'
  obtain ⟨hndA, hndB, hAB⟩ := hnd'
  obtain ⟨hn_bs, hndbs⟩ := List.nodup_cons.mp hndB
  have hn_as : n ∉ as := fun hx => hAB n hx n (by simp) rfl
  have herase : (as ++ n :: bs).erase n = as ++ bs := by
    rw [List.erase_append_right _ hn_as]; simp
  rw [herase]
  unfold removeTimed
  cases as with
  | nil =>
    -- the node is the head
    obtain ⟨hhn, hn0, hr⟩ := hseg
    simp only [List.nil_append, hhn, if_true] at *
    have hnil := sll_nil_iff (xs := bs) hr
    refine ⟨hr, ?_, hndbs, prevOk_of_chain hpo⟩
    by_cases hb0 : bs = []
    · subst hb0; simp [hnil.mpr rfl]
    · have : s.next n ≠ 0 := fun e => hb0 (hnil.mp e)
      simp only [this, if_false, htail, lastD_cons]
      exact lastD_of_ne_nil hb0 _ _
  | cons a0 as' =>
    have hha : s.head = a0 := hseg.1
    have hne : a0 ≠ n := fun e => hn_as (by simp [e])
    have hhn : s.head ≠ n := by rw [hha]; exact hne
    simp only [hhn, if_false]
    -- the predecessor, from PrevOk
    simp only [List.cons_append, PrevOk] at hpo
    rw [chain_append] at hpo
    obtain ⟨hpoA, hpoN⟩ := hpo
    have hprev : s.prev n = lastD a0 as' := hpoN.1 ht
    have hlast : lastD 0 (a0 :: as') = lastD a0 as' := rfl
    have hsegU := seg_unlink (as := a0 :: as') (by simp) hseg hnd
    rw [hlast, ← hprev] at hsegU
    have hsplit := hseg
    rw [seg_split] at hsplit
    obtain ⟨_, hn0, hsegB⟩ := hsplit
    have hnilB := sll_nil_iff (xs := bs) hsegB
    cases bs with
    | nil =>
      have hnx : s.next n = 0 := hnilB.mpr rfl
      simp only [hnx, ne_eq, not_true_eq_false, if_false, List.append_nil] at hsegU ⊢
      refine ⟨hsegU, ?_, by simpa using hndA, ?_⟩
      · simp [hprev]
      · simpa [PrevOk] using hpoA
    | cons m bs' =>
      have hnm : s.next n = m := hsegB.1
      have hm0 : m ≠ 0 := hsegB.2.1
      have hnx : s.next n ≠ 0 := by rw [hnm]; exact hm0
      simp only [hnx, ne_eq, not_false_eq_true, if_true]
      have hm_as : m ∉ a0 :: as' := fun hx => hAB m hx m (by simp) rfl
      have hm_bs' : m ∉ bs' := (List.nodup_cons.mp hndbs).1
      refine ⟨hsegU, ?_, ?_, ?_⟩
      · simp [htail, lastD_append]
      · rw [List.nodup_append]
        exact ⟨hndA, hndbs, fun x hx y hy => hAB x hx y (List.mem_cons_of_mem _ hy)⟩
      · simp only [List.cons_append, PrevOk]
        rw [chain_append]
        constructor
        · refine (chain_congr ?_).mpr hpoA
          intro x hx
          have : x ≠ m := fun e => hm_as (by simp [← e, hx])
          simp [upd, hnm, this]
        · simp only [Chain]
          refine ⟨fun _ => by simp [hnm, hprev], ?_⟩
          refine (chain_congr ?_).mpr hpoN.2.2
          intro x hx
          have : x ≠ m := fun e => hm_bs' (e ▸ hx)
          simp [upd, hnm, this]

/-! ### the machine -/

theorem step_rep {m m' : M} {op : Op} (h : Rep m.s m.xs) (hs : step m op = some m') : Rep m'.s m'.xs := by
  unfold step at hs
  cases op with
  | enqUntimed n =>
    by_cases hg : n ≠ 0 ∧ n ∉ m.xs
    · simp only [specStep, if_pos hg, Option.some.injEq] at hs; subst hs; exact rep_enqUntimed h hg.1 hg.2
    · simp [specStep, hg] at hs
  | enqTimed n =>
    by_cases hg : n ≠ 0 ∧ n ∉ m.xs
    · simp only [specStep, if_pos hg, Option.some.injEq] at hs; subst hs; exact rep_enqTimed h hg.1 hg.2
    · simp [specStep, hg] at hs
  | popHead => simp only [specStep] at hs; cases hs; exact rep_popHead h
  | broadcast => simp only [specStep] at hs; cases hs; exact rep_broadcast h
  | removeTimed n =>
    by_cases hg : n ∈ m.xs ∧ m.s.timed n = true
    · simp only [specStep, if_pos hg, Option.some.injEq] at hs; subst hs; exact rep_removeTimed h hg.1 hg.2
    · simp [specStep, hg] at hs

theorem rep_reachable (m : M) (h : machine.Reachable m) : Rep m.s m.xs :=
  Machine.invariant_reachable machine (fun m => Rep m.s m.xs) rep_init (fun _ _ _ hi hs => step_rep hi hs) m h

/-! ### vocabulary of the property statements (Props.C19) -/

/-- the abstract FIFO operation each wait-list function implements -/
def wlAbs (xs : List Nat) : Op → List Nat
  | .enqUntimed n => xs ++ [n]
  | .enqTimed n => xs ++ [n]
  | .popHead => xs.tail
  | .broadcast => []
  | .removeTimed n => xs.erase n

/-- the C code's preconditions: an enqueued node is a valid object that is not queued; only a node that is
still queued and was enqueued by the timed function runs the removal code -/
def wlPre (m : M) : Op → Prop
  | .enqUntimed n => n ≠ 0 ∧ n ∉ m.xs
  | .enqTimed n => n ≠ 0 ∧ n ∉ m.xs
  | .popHead => True
  | .broadcast => True
  | .removeTimed n => n ∈ m.xs ∧ m.s.timed n = true

/-- the pointer structure `s` represents the list `xs`: `p_head` leads through exactly `xs` to NULL, `p_tail` is the
last node or NULL, no node twice, every non-head timed node's `p_prev` is its predecessor -/
def WlRep (s : St) (xs : List Nat) : Prop :=
  Seg s.next s.head xs 0 ∧ s.tail = xs.getLast?.getD 0 ∧ xs.Nodup ∧ PrevOk s xs

theorem wlRep_iff (s : St) (xs : List Nat) : WlRep s xs ↔ Rep s xs := by
  simp [WlRep, Rep, lastD_eq_getLast?]

end ArgoVerif.Model.WLPtr
