import ArgoVerif.Model.XsCtx
/-
Proofs.XsCtx — the control part of Model.XsCtx is finite.  `reach` lists control states
closed under every event (`reach_closed`, checked exhaustively by the kernel), hence an
inductive invariant for runs of *any* length (any number of join / revive cycles, any
number of spurious wake-ups).  Properties of all reachable states are then Boolean checks
over the list.  The unbounded ghost counters are tied to the control bit `owed`.
-/
namespace ArgoVerif.Model.XsCtx

def mk (st : CS) (o : Option Actor) (t : TPc) (c : CPc) (owed : Bool) : Ctl :=
  { st := st, owner := o, tpc := t, cpc := c, owed := owed, fault := false }

/-- computed once with `closure 200 [init.c]` (Model.XsCtx); listed literally so that the
kernel does not redo the search.  Nothing below depends on the list being *exactly* the
reachable set: it contains the initial state and is closed under `cstep`. -/
def reach : List Ctl :=
  [mk .running none .start (.idle false) true,
   mk .running none .run (.idle false) false,
   mk .running none .lock (.idle false) false,
   mk .running none .run .jLock false,
   mk .running (some .T) .chk (.idle false) false,
   mk .running none .lock .jLock false,
   mk .running (some .C) .run .jChk false,
   mk .running (some .T) .set (.idle false) false,
   mk .running (some .T) .chk .jLock false,
   mk .running (some .C) .lock .jChk false,
   mk .running (some .C) .run .jStore false,
   mk .running (some .T) .set .jLock false,
   mk .waiting (some .T) .wait (.idle false) false,
   mk .running (some .C) .lock .jStore false,
   mk .reqJoin (some .C) .run .jWait false,
   mk .waiting (some .T) .wait .jLock false,
   mk .waiting none .blocked (.idle false) false,
   mk .reqJoin (some .C) .lock .jWait false,
   mk .reqJoin none .run .jBlocked false,
   mk .waiting none .blocked .jLock false,
   mk .waiting none .woken (.idle false) false,
   mk .reqJoin none .lock .jBlocked false,
   mk .reqJoin none .run .jWoken false,
   mk .waiting (some .C) .blocked .jChk false,
   mk .waiting none .woken .jLock false,
   mk .waiting (some .T) .loop (.idle false) false,
   mk .reqJoin (some .T) .chk .jBlocked false,
   mk .reqJoin none .lock .jWoken false,
   mk .reqJoin (some .C) .run .jLoop false,
   mk .waiting (some .C) .blocked .jAssert false,
   mk .waiting (some .C) .woken .jChk false,
   mk .waiting (some .T) .loop .jLock false,
   mk .reqJoin (some .T) .chk .jWoken false,
   mk .reqJoin (some .T) .set .jWoken false,
   mk .reqJoin (some .C) .lock .jLoop false,
   mk .waiting (some .C) .blocked .jUnlock false,
   mk .waiting (some .C) .woken .jAssert false,
   mk .waiting (some .T) .wait .jWoken false,
   mk .waiting none .blocked (.idle true) false,
   mk .waiting (some .C) .woken .jUnlock false,
   mk .waiting none .blocked .jWoken false,
   mk .waiting none .woken (.idle true) false,
   mk .waiting none .blocked .rLock false,
   mk .waiting none .blocked .fLock false,
   mk .waiting (some .C) .blocked .jLoop false,
   mk .waiting none .woken .jWoken false,
   mk .waiting (some .T) .loop (.idle true) false,
   mk .waiting none .woken .rLock false,
   mk .waiting none .woken .fLock false,
   mk .waiting (some .C) .blocked .rStore false,
   mk .waiting (some .C) .blocked .fStore false,
   mk .waiting (some .C) .woken .jLoop false,
   mk .waiting (some .T) .loop .jWoken false,
   mk .waiting (some .T) .wait (.idle true) false,
   mk .waiting (some .T) .loop .rLock false,
   mk .waiting (some .T) .loop .fLock false,
   mk .waiting (some .C) .woken .rStore false,
   mk .waiting (some .C) .woken .fStore false,
   mk .running (some .C) .blocked .rSig true,
   mk .reqTerminate (some .C) .blocked .fSig false,
   mk .waiting (some .T) .wait .rLock false,
   mk .waiting (some .T) .wait .fLock false,
   mk .running (some .C) .woken .rSig true,
   mk .reqTerminate (some .C) .woken .fSig false,
   mk .running (some .C) .woken .rUnlock true,
   mk .reqTerminate (some .C) .woken .fUnlock false,
   mk .running none .woken (.idle false) true,
   mk .reqTerminate none .woken .fJoin false,
   mk .running (some .T) .loop (.idle false) true,
   mk .running none .woken .jLock true,
   mk .reqTerminate (some .T) .loop .fJoin false,
   mk .running (some .T) (.unlock true) (.idle false) true,
   mk .running (some .T) .loop .jLock true,
   mk .running (some .C) .woken .jChk true,
   mk .reqTerminate (some .T) (.unlock false) .fJoin false,
   mk .running (some .T) (.unlock true) .jLock true,
   mk .running (some .C) .woken .jStore true,
   mk .reqTerminate none .done .fJoin false,
   mk .reqJoin (some .C) .woken .jWait true,
   mk .reqTerminate none .done .freed false,
   mk .reqJoin none .woken .jBlocked true,
   mk .reqJoin (some .T) .loop .jBlocked true,
   mk .reqJoin none .woken .jWoken true,
   mk .reqJoin (some .T) (.unlock true) .jBlocked true,
   mk .reqJoin (some .T) .loop .jWoken true,
   mk .reqJoin (some .C) .woken .jLoop true,
   mk .reqJoin (some .T) (.unlock true) .jWoken true]

/-- closedness + the ghost-bit discipline of every step out of a listed state -/
def closedB : Bool := reach.all fun c => allEv.all fun e =>
  match cstep c e with
  | some (c', .none) => reach.contains c' && (c'.owed == c.owed)
  | some (c', .run) => reach.contains c' && c.owed && !c'.owed
  | some (c', .revive) => reach.contains c' && !c.owed && c'.owed
  | none => true

set_option maxRecDepth 100000 in
theorem closedB_ok : closedB = true := by decide

theorem allEv_complete : ∀ e : Ev, e ∈ allEv := by
  intro e
  cases e with
  | tau a => cases a <;> decide
  | store a v => cases a <;> cases v <;> decide
  | ret => decide
  | lock a => cases a <;> decide
  | unlock a => cases a <;> decide
  | wait a => cases a <;> decide
  | relock a => cases a <;> decide
  | signal a w => cases a <;> cases w with
    | none => decide
    | some b => cases b <;> decide
  | spur a => cases a <;> decide
  | call op => cases op <;> decide
  | pjoin => decide

theorem reach_init : init.c ∈ reach := by decide

theorem reach_step {c c' : Ctl} {e : Ev} {eff : Eff} (hc : c ∈ reach) (hs : cstep c e = some (c', eff)) :
    c' ∈ reach ∧ (eff = .none → c'.owed = c.owed) ∧ (eff = .run → c.owed = true ∧ c'.owed = false) ∧
      (eff = .revive → c.owed = false ∧ c'.owed = true) := by
  have h := closedB_ok
  unfold closedB at h
  rw [List.all_eq_true] at h
  have h1 := h c hc
  rw [List.all_eq_true] at h1
  have h2 := h1 e (allEv_complete e)
  rw [hs] at h2
  cases eff <;> simp_all

/-- the invariant of the full state: listed control state, counters tied to `owed` -/
def Inv (s : St) : Prop := s.c ∈ reach ∧ s.runs + (if s.c.owed then 1 else 0) = s.revives + 1

theorem inv_init : Inv init := ⟨reach_init, by decide⟩

theorem inv_step (s : St) (e : Ev) (s' : St) (hi : Inv s) (hs : step s e = some s') : Inv s' := by
  unfold step at hs
  cases hc : cstep s.c e with
  | none => simp [hc] at hs
  | some r =>
    obtain ⟨c', eff⟩ := r
    have hr := reach_step hi.1 hc
    have hcnt := hi.2
    cases eff with
    | none =>
      simp only [hc, Option.some.injEq] at hs
      subst hs
      refine ⟨hr.1, ?_⟩
      show s.runs + (if c'.owed then 1 else 0) = s.revives + 1
      rw [hr.2.1 rfl]; exact hcnt
    | run =>
      simp only [hc, Option.some.injEq] at hs
      subst hs
      refine ⟨hr.1, ?_⟩
      have := hr.2.2.1 rfl
      show s.runs + 1 + (if c'.owed then 1 else 0) = s.revives + 1
      rw [this.2]; rw [this.1] at hcnt; simpa using hcnt
    | revive =>
      simp only [hc, Option.some.injEq] at hs
      subst hs
      refine ⟨hr.1, ?_⟩
      have := hr.2.2.2 rfl
      show s.runs + (if c'.owed then 1 else 0) = s.revives + 1 + 1
      rw [this.2]; rw [this.1] at hcnt; simp at hcnt ⊢; omega

theorem inv_run (tr : List Ev) (s : St) (h : machine.run init tr = some s) : Inv s :=
  Machine.invariant_run machine Inv (fun s e s' hi hs => inv_step s e s' hi hs) tr init s inv_init h

/-- a Boolean property checked on every listed control state holds in every reachable state -/
theorem all_reach {P : Ctl → Bool} (h : reach.all P = true) (tr : List Ev) (s : St)
    (hr : machine.run init tr = some s) : P s.c = true :=
  (List.all_eq_true.mp h) s.c (inv_run tr s hr).1

/-! ### the checks (each is a kernel evaluation over the whole list) -/

def tInWaitLoop (c : Ctl) : Bool := c.tpc = .wait || c.tpc = .blocked || c.tpc = .woken || c.tpc = .loop

/-- the caller is at a point after a join returned and before the next revive/terminate store -/
def cJoined (c : Ctl) : Bool :=
  c.cpc = .idle true || c.cpc = .jUnlock || c.cpc = .rLock || c.cpc = .rStore || c.cpc = .fLock || c.cpc = .fStore

def chkNoFault (c : Ctl) : Bool := !c.fault
def chkJoined (c : Ctl) : Bool := !cJoined c || (c.st = .waiting && tInWaitLoop c && !c.owed)
/-- T asleep with a state other than WAITING only while the storing caller still holds the
mutex and is about to signal -/
def chkTNoLostWake (c : Ctl) : Bool :=
  !(c.tpc = .blocked && c.st != .waiting) || ((c.cpc = .rSig || c.cpc = .fSig) && c.owner = some .C)
/-- C asleep in join only while T is still on its way to the REQ_JOIN test -/
def chkCNoLostWake (c : Ctl) : Bool :=
  !(c.cpc = .jBlocked) ||
    (c.st = .reqJoin && (c.tpc = .run || c.tpc = .lock || c.tpc = .chk || c.tpc = .woken || c.tpc = .loop ||
      c.tpc = .unlock true))
def chkNotBothBlocked (c : Ctl) : Bool := !(c.tpc = .blocked && c.cpc = .jBlocked)
def tCrit (c : Ctl) : Bool :=
  c.tpc = .chk || c.tpc = .set || c.tpc = .wait || c.tpc = .loop || c.tpc = .unlock true || c.tpc = .unlock false
def cCrit (c : Ctl) : Bool :=
  c.cpc = .jChk || c.cpc = .jStore || c.cpc = .jWait || c.cpc = .jLoop || c.cpc = .jAssert || c.cpc = .jUnlock ||
  c.cpc = .rStore || c.cpc = .rSig || c.cpc = .rUnlock || c.cpc = .fStore || c.cpc = .fSig || c.cpc = .fUnlock
def chkMutex (c : Ctl) : Bool :=
  (tCrit c == (c.owner == some .T)) && (cCrit c == (c.owner == some .C))
def chkFreed (c : Ctl) : Bool :=
  (!(c.cpc = .freed) || c.tpc = .done) && (!(c.tpc = .done) || c.st = .reqTerminate)
/-- while thread_f runs (or is about to), nothing is owed and the state is RUNNING or REQ_JOIN -/
def chkRunning (c : Ctl) : Bool :=
  !(c.tpc = .run) || (!c.owed && (c.st = .running || c.st = .reqJoin))
def isSpurOrCall : Ev → Bool
  | .spur _ => true | .call _ => true | _ => false
/-- whenever the caller is inside join / revive / free, some step other than a spurious
wake-up is enabled (no deadlock, no lost wake-up) -/
def cOutside : CPc → Bool
  | .idle _ => true
  | .freed => true
  | _ => false
def chkProgress (c : Ctl) : Bool :=
  cOutside c.cpc ||
    allEv.any fun e => !isSpurOrCall e && (cstep c e).isSome

set_option maxRecDepth 100000 in
theorem chk_all : reach.all (fun c => chkNoFault c && chkJoined c && chkTNoLostWake c && chkCNoLostWake c &&
    chkNotBothBlocked c && chkMutex c && chkFreed c && chkRunning c && chkProgress c) = true := by decide

end ArgoVerif.Model.XsCtx
