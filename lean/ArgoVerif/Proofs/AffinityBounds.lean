import ArgoVerif.Proofs.Affinity
/-
Proofs.AffinityBounds — nothing behind the terminating NUL is ever read: running
any parser function on `b ++ post` (with a NUL inside `b`) gives the result of
running it on `b` alone, with `post` appended to the unread remainder.
-/
namespace ArgoVerif.Proofs.AffinityBounds
open ArgoVerif.Model.Affinity
open ArgoVerif.Gen.EnvTable
open ArgoVerif.Props.C20Spec (Tok Lex symTok)
open ArgoVerif.Proofs.AffinityLex ArgoVerif.Proofs.Affinity

/-- the same outcome on a longer object: only the unread remainder grows -/
def ext {α : Type} (post : List Byte) : R α → R α
  | .ok v rest => .ok v (rest ++ post)
  | .fail => .fail
  | .oob => .oob
  | .ub => .ub
  | .fuel => .fuel

theorem ws_ne_nul (c : Byte) (h : isWhitespace c = true) : c ≠ 0 := (ws_facts c h).2.2.2.1

theorem mem_tail_of_ne (c : Byte) (b : List Byte) (h0 : (0 : Byte) ∈ c :: b) (hc : c ≠ 0) : (0 : Byte) ∈ b := by
  rcases List.mem_cons.mp h0 with h | h
  · exact absurd h.symm hc
  · exact h

theorem sym_ext (c : Byte) (b post : List Byte) (h0 : (0 : Byte) ∈ b) :
    consumeSymbol c (b ++ post) = ext post (consumeSymbol c b) := by
  induction b with
  | nil => cases h0
  | cons x b ih =>
    simp only [List.cons_append, consumeSymbol]
    split
    · rfl
    · split
      · rename_i _ hw
        exact ih (mem_tail_of_ne x b h0 (ws_ne_nul x hw))
      · rfl

theorem byte_ne_nul_of_beq (x k : Byte) (hk : k ≠ 0) (h : (x == k) = true) : x ≠ 0 := by
  rw [eq_of_beq h]; exact hk

theorem intLoop_ext (b post : List Byte) (h0 : (0 : Byte) ∈ b) (val sg : Int) (f : Flag) :
    consumeIntLoop (b ++ post) val sg f = ext post (consumeIntLoop b val sg f) := by
  induction b generalizing val sg f with
  | nil => cases h0
  | cons x b ih =>
    simp only [List.cons_append, consumeIntLoop]
    split
    · rename_i h
      have hx : x ≠ 0 := byte_ne_nul_of_beq x 45 (by decide) (by simp only [Bool.and_eq_true] at h; exact h.2)
      split
      · exact ih (mem_tail_of_ne x b h0 hx) _ _ _
      · rfl
    · split
      · rename_i _ h
        have hx : x ≠ 0 := byte_ne_nul_of_beq x 43 (by decide) (by simp only [Bool.and_eq_true] at h; exact h.2)
        exact ih (mem_tail_of_ne x b h0 hx) _ _ _
      · split
        · rename_i _ _ h
          have hx : x ≠ 0 := ws_ne_nul x (by simp only [Bool.and_eq_true] at h; exact h.2)
          exact ih (mem_tail_of_ne x b h0 hx) _ _ _
        · split
          · rename_i _ _ _ h
            have hx : x ≠ 0 := by
              intro hx; subst hx; revert h; decide
            split
            · rfl
            · split
              · exact ih (mem_tail_of_ne x b h0 hx) _ _ _
              · rfl
          · split
            · split <;> rfl
            · rfl

theorem int_ext (b post : List Byte) (h0 : (0 : Byte) ∈ b) : consumeInt (b ++ post) = ext post (consumeInt b) :=
  intLoop_ext b post h0 0 1 .n

theorem ext_fail {α : Type} (post : List Byte) : ext post (R.fail : R α) = .fail := rfl
theorem ext_ok {α : Type} (post : List Byte) (v : α) (r : List Byte) : ext post (R.ok v r) = .ok v (r ++ post) := rfl

theorem ns_ext (b post : List Byte) (h0 : (0 : Byte) ∈ b) :
    parseNumStride (b ++ post) = ext post (parseNumStride b) := by
  have hm1 : ¬ ((1 : Int) ≥ (maxNumElems : Int)) := by decide
  rcases sym_total 58 b h0 with hc | ⟨s1, hc⟩
  · have hc' := sym_ext 58 b post h0; rw [hc, ext_fail] at hc'
    simp only [parseNumStride, hc, hc', R.bind]; rw [if_neg hm1]; rfl
  · have hc' := sym_ext 58 b post h0; rw [hc, ext_ok] at hc'
    have h01 := (sym_sound b s1 58 .colon colon_tok hc).2.2 h0
    rcases int_total s1 h01 with hi | ⟨n, s2, hi⟩
    · have hi' := int_ext s1 post h01; rw [hi, ext_fail] at hi'
      simp only [parseNumStride, hc, hc', consumePint, hi, hi', R.bind]; rfl
    · have hi' := int_ext s1 post h01; rw [hi, ext_ok] at hi'
      have h02 := (int_sound s1 s2 n h01 hi).2.2.2
      by_cases hp : n > 0
      · rcases sym_total 58 s2 h02 with hc2 | ⟨s3, hc2⟩
        · have hc2' := sym_ext 58 s2 post h02; rw [hc2, ext_fail] at hc2'
          simp only [parseNumStride, hc, hc', consumePint, hi, hi', R.bind, hp, if_true, hc2, hc2']
          split <;> rfl
        · have hc2' := sym_ext 58 s2 post h02; rw [hc2, ext_ok] at hc2'
          have h03 := (sym_sound s2 s3 58 .colon colon_tok hc2).2.2 h02
          rcases int_total s3 h03 with hi2 | ⟨st, s4, hi2⟩
          · have hi2' := int_ext s3 post h03; rw [hi2, ext_fail] at hi2'
            simp only [parseNumStride, hc, hc', consumePint, hi, hi', R.bind, hp, if_true, hc2, hc2', hi2, hi2']; rfl
          · have hi2' := int_ext s3 post h03; rw [hi2, ext_ok] at hi2'
            simp only [parseNumStride, hc, hc', consumePint, hi, hi', R.bind, hp, if_true, hc2, hc2', hi2, hi2']
            split <;> rfl
      · simp only [parseNumStride, hc, hc', consumePint, hi, hi', R.bind, hp, if_false]; rfl

theorem idl_ext (f : Nat) : ∀ (b post : List Byte) (ids : List Int), (0 : Byte) ∈ b →
    parseIdIntervals f (b ++ post) ids = ext post (parseIdIntervals f b ids) := by
  induction f with
  | zero => intro b post ids _; rfl
  | succ f ih =>
    intro b post ids h0
    rcases int_total b h0 with hi | ⟨id, s1, hi⟩
    · have hi' := int_ext b post h0; rw [hi, ext_fail] at hi'
      simp only [parseIdIntervals, hi, hi', R.bind]; rfl
    · have hi' := int_ext b post h0; rw [hi, ext_ok] at hi'
      have h01 := (int_sound b s1 id h0 hi).2.2.2
      obtain ⟨g, hns⟩ := ns_sound s1 h01
      have hr' := ns_ext s1 post h01
      cases hr : parseNumStride s1 with
      | oob => exact absurd hr g.1
      | ub => exact absurd hr g.2.1
      | fuel => exact absurd hr g.2.2
      | fail =>
        rw [hr, ext_fail] at hr'
        simp only [parseIdIntervals, hi, hi', R.bind, hr, hr']; rfl
      | ok p s2 =>
        rw [hr, ext_ok] at hr'
        obtain ⟨ns, _, _, _, _, _, h02⟩ := hns p s2 hr
        rcases sym_total 44 s2 h02 with hc | ⟨s3, hc⟩
        · have hc' := sym_ext 44 s2 post h02; rw [hc, ext_fail] at hc'
          rcases sym_total 125 s2 h02 with hc2 | ⟨s4, hc2⟩
          · have hc2' := sym_ext 125 s2 post h02; rw [hc2, ext_fail] at hc2'
            simp only [parseIdIntervals, hi, hi', R.bind, hr, hr', hc, hc', hc2, hc2']; rfl
          · have hc2' := sym_ext 125 s2 post h02; rw [hc2, ext_ok] at hc2'
            simp only [parseIdIntervals, hi, hi', R.bind, hr, hr', hc, hc', hc2, hc2']; rfl
        · have hc' := sym_ext 44 s2 post h02; rw [hc, ext_ok] at hc'
          have h03 := (sym_sound s2 s3 44 .comma comma_tok hc).2.2 h02
          simp only [parseIdIntervals, hi, hi', R.bind, hr, hr', hc, hc']
          exact ih s3 post _ h03

theorem es_ext (f : Nat) (b post : List Byte) (h0 : (0 : Byte) ∈ b) :
    parseEsIdList f (b ++ post) = ext post (parseEsIdList f b) := by
  rcases int_total b h0 with hi | ⟨v, s1, hi⟩
  · have hi' := int_ext b post h0; rw [hi, ext_fail] at hi'
    rcases sym_total 123 b h0 with hc | ⟨s1, hc⟩
    · have hc' := sym_ext 123 b post h0; rw [hc, ext_fail] at hc'
      simp only [parseEsIdList, hi, hi', hc, hc', R.bind]; rfl
    · have hc' := sym_ext 123 b post h0; rw [hc, ext_ok] at hc'
      have h01 := (sym_sound b s1 123 .lbrace lbrace_tok hc).2.2 h0
      simp only [parseEsIdList, hi, hi', hc, hc', R.bind]
      exact idl_ext f s1 post [] h01
  · have hi' := int_ext b post h0; rw [hi, ext_ok] at hi'
    simp only [parseEsIdList, hi, hi']; rfl

theorem list_ext (f : Nat) : ∀ (b post : List Byte) (l : List (List Int)), (0 : Byte) ∈ b → b.length < f →
    parseIntervals f (b ++ post) l = ext post (parseIntervals f b l) := by
  induction f with
  | zero => intro b post l _ _; rfl
  | succ f ih =>
    intro b post l h0 hf
    obtain ⟨g1, hes⟩ := es_sound (f + 1) b h0 hf
    have he' := es_ext (f + 1) b post h0
    cases he : parseEsIdList (f + 1) b with
    | oob => exact absurd he g1.1
    | ub => exact absurd he g1.2.1
    | fuel => exact absurd he g1.2.2
    | fail =>
      rw [he, ext_fail] at he'
      simp only [parseIntervals, he, he', R.bind]; rfl
    | ok idl s1 =>
      rw [he, ext_ok] at he'
      obtain ⟨es, _, _, _, len1, h01⟩ := hes idl s1 he
      obtain ⟨g2, hns⟩ := ns_sound s1 h01
      have hr' := ns_ext s1 post h01
      cases hr : parseNumStride s1 with
      | oob => exact absurd hr g2.1
      | ub => exact absurd hr g2.2.1
      | fuel => exact absurd hr g2.2.2
      | fail =>
        rw [hr, ext_fail] at hr'
        simp only [parseIntervals, he, he', R.bind, hr, hr']; rfl
      | ok p s2 =>
        rw [hr, ext_ok] at hr'
        obtain ⟨ns, _, _, _, _, len2, h02⟩ := hns p s2 hr
        rcases sym_total 44 s2 h02 with hc | ⟨s3, hc⟩
        · have hc' := sym_ext 44 s2 post h02; rw [hc, ext_fail] at hc'
          rcases sym_total 0 s2 h02 with hc2 | ⟨s4, hc2⟩
          · have hc2' := sym_ext 0 s2 post h02; rw [hc2, ext_fail] at hc2'
            simp only [parseIntervals, he, he', R.bind, hr, hr', hc, hc', hc2, hc2']; rfl
          · have hc2' := sym_ext 0 s2 post h02; rw [hc2, ext_ok] at hc2'
            simp only [parseIntervals, he, he', R.bind, hr, hr', hc, hc', hc2, hc2']; rfl
        · have hc' := sym_ext 44 s2 post h02; rw [hc, ext_ok] at hc'
          obtain ⟨_, len3, n3⟩ := sym_sound s2 s3 44 .comma comma_tok hc
          simp only [parseIntervals, he, he', R.bind, hr, hr', hc, hc']
          exact ih s3 post _ (n3 h02) (by omega)

end ArgoVerif.Proofs.AffinityBounds
