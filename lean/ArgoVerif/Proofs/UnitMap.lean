import ArgoVerif.Model.UnitMap
/-
Proofs.UnitMap — the sequential unit→thread table refines a finite map on
distinct non-NULL units; tombstones are reused; chains never shrink.
-/
namespace ArgoVerif.Model.UnitMap

/-- non-NULL units stored in a chain, in link order -/
def units (z : UInt64) (c : List Entry) : List UInt64 := (c.filter (fun e => e.unit != z)).map (·.unit)

theorem mem_units (z : UInt64) (c : List Entry) (u : UInt64) : u ∈ units z c ↔ u ≠ z ∧ ∃ e ∈ c, e.unit = u := by
  simp only [units, List.mem_map, List.mem_filter, bne_iff_ne, ne_eq]
  constructor
  · rintro ⟨e, ⟨he, hne⟩, rfl⟩; exact ⟨hne, e, he, rfl⟩
  · rintro ⟨hne, e, he, rfl⟩; exact ⟨e, ⟨he, hne⟩, rfl⟩

theorem units_cons (z : UInt64) (e : Entry) (r : List Entry) :
    units z (e :: r) = if e.unit = z then units z r else e.unit :: units z r := by
  simp only [units, List.filter_cons]
  by_cases h : e.unit = z <;> simp [h]

theorem chainGet_none (z : UInt64) (u : UInt64) (c : List Entry) (hu : u ≠ z) : chainGet u c = none ↔ u ∉ units z c := by
  induction c with
  | nil => simp [chainGet, units]
  | cons e r ih =>
    rw [units_cons z]
    by_cases h : e.unit = u
    · subst h; simp [chainGet, hu]
    · have h' : ¬ u = e.unit := fun x => h x.symm
      simp only [chainGet, h, if_false]
      split <;> simp [ih, h']

/-- reuse succeeds iff there is a tombstone; it keeps the length -/
theorem chainReuse_none (z : UInt64) (u : UInt64) (th : Nat) (c : List Entry) :
    chainReuse z u th c = none ↔ ∀ e ∈ c, e.unit ≠ z := by
  induction c with
  | nil => simp [chainReuse]
  | cons e r ih =>
    by_cases h : e.unit = z
    · simp [chainReuse, h]
    · simp only [chainReuse, h, if_false, List.mem_cons, forall_eq_or_imp, ne_eq, not_false_eq_true, true_and]
      cases hr : chainReuse z u th r with
      | none => simp [← ih, hr]
      | some r' => simp only [reduceCtorEq, false_iff]; intro hx; rw [ih.mpr hx] at hr; cases hr

theorem chainReuse_length (z : UInt64) (u : UInt64) (th : Nat) (c c' : List Entry) (h : chainReuse z u th c = some c') :
    c'.length = c.length := by
  induction c generalizing c' with
  | nil => simp [chainReuse] at h
  | cons e r ih =>
    simp only [chainReuse] at h
    split at h
    · simp only [Option.some.injEq] at h; subst h; rfl
    · cases hr : chainReuse z u th r with
      | none => simp [hr] at h
      | some r' => simp only [hr, Option.some.injEq] at h; subst h; simp [ih r' hr]

theorem chainReuse_units (z : UInt64) (u : UInt64) (th : Nat) (c c' : List Entry) (hu : u ≠ z)
    (h : chainReuse z u th c = some c') : ∀ x, x ∈ units z c' ↔ x = u ∨ x ∈ units z c := by
  induction c generalizing c' with
  | nil => simp [chainReuse] at h
  | cons e r ih =>
    simp only [chainReuse] at h
    split at h
    · next he =>
      simp only [Option.some.injEq] at h; subst h
      intro x; rw [units_cons z, units_cons z]; simp [hu, he]
    · next he =>
      cases hr : chainReuse z u th r with
      | none => simp [hr] at h
      | some r' =>
        simp only [hr, Option.some.injEq] at h; subst h
        intro x; rw [units_cons z, units_cons z]; simp only [he, if_false, List.mem_cons]
        rw [ih r' hr]
        constructor
        · rintro (h1 | h1 | h1)
          · exact Or.inr (Or.inl h1)
          · exact Or.inl h1
          · exact Or.inr (Or.inr h1)
        · rintro (h1 | h1 | h1)
          · exact Or.inr (Or.inl h1)
          · exact Or.inl h1
          · exact Or.inr (Or.inr h1)

theorem chainReuse_nodup (z : UInt64) (u : UInt64) (th : Nat) (c c' : List Entry) (hu : u ≠ z) (hnd : (units z c).Nodup)
    (hnew : u ∉ units z c) (h : chainReuse z u th c = some c') : (units z c').Nodup := by
  induction c generalizing c' with
  | nil => simp [chainReuse] at h
  | cons e r ih =>
    simp only [chainReuse] at h
    rw [units_cons z] at hnd hnew
    split at h
    · next he =>
      simp only [Option.some.injEq] at h; subst h
      simp only [he, if_true] at hnd hnew
      rw [units_cons z]; simp only [hu, if_false, List.nodup_cons]; exact ⟨hnew, hnd⟩
    · next he =>
      simp only [he, if_false, List.nodup_cons, List.mem_cons, not_or] at hnd hnew
      cases hr : chainReuse z u th r with
      | none => simp [hr] at h
      | some r' =>
        simp only [hr, Option.some.injEq] at h; subst h
        rw [units_cons z]; simp only [he, if_false, List.nodup_cons]
        refine ⟨?_, ih r' hnd.2 hnew.2 hr⟩
        rw [chainReuse_units z u th r r' hu hr]
        intro hx
        rcases hx with hx | hx
        · exact hnew.1 hx.symm
        · exact hnd.1 hx

theorem chainReuse_get (z : UInt64) (u : UInt64) (th : Nat) (c c' : List Entry) (hu : u ≠ z) (hnew : u ∉ units z c)
    (h : chainReuse z u th c = some c') (x : UInt64) (hx : x ≠ z) :
    chainGet x c' = if x = u then some th else chainGet x c := by
  induction c generalizing c' with
  | nil => simp [chainReuse] at h
  | cons e r ih =>
    simp only [chainReuse] at h
    rw [units_cons z] at hnew
    split at h
    · next he =>
      simp only [Option.some.injEq] at h; subst h
      have h0 : ¬ z = x := fun y => hx y.symm
      by_cases hxu : x = u
      · subst hxu; simp [chainGet]
      · have : ¬ u = x := fun y => hxu y.symm
        simp [chainGet, he, hxu, this, h0]
    · next he =>
      simp only [he, if_false, List.mem_cons, not_or] at hnew
      cases hr : chainReuse z u th r with
      | none => simp [hr] at h
      | some r' =>
        simp only [hr, Option.some.injEq] at h; subst h
        simp only [chainGet]
        by_cases hex : e.unit = x
        · have : ¬ x = u := fun y => hnew.1 (by rw [← y, hex])
          simp [hex, this]
        · simp only [hex, if_false]; exact ih r' hnew.2 hr

theorem chainClear_none (z : UInt64) (u : UInt64) (c : List Entry) (hu : u ≠ z) : chainClear z u c = none ↔ u ∉ units z c := by
  induction c with
  | nil => simp [chainClear, units]
  | cons e r ih =>
    rw [units_cons z]
    by_cases h : e.unit = u
    · subst h; simp [chainClear, hu]
    · have h' : ¬ u = e.unit := fun x => h x.symm
      have hmem : (u ∈ if e.unit = z then units z r else e.unit :: units z r) ↔ u ∈ units z r := by
        by_cases he0 : e.unit = z <;> simp [he0, h']
      rw [hmem, ← ih]
      simp only [chainClear, h, if_false]
      cases hr : chainClear z u r <;> simp

theorem chainClear_length (z : UInt64) (u : UInt64) (c c' : List Entry) (h : chainClear z u c = some c') :
    c'.length = c.length := by
  induction c generalizing c' with
  | nil => simp [chainClear] at h
  | cons e r ih =>
    simp only [chainClear] at h
    split at h
    · simp only [Option.some.injEq] at h; subst h; rfl
    · cases hr : chainClear z u r with
      | none => simp [hr] at h
      | some r' => simp only [hr, Option.some.injEq] at h; subst h; simp [ih r' hr]

theorem chainClear_units (z : UInt64) (u : UInt64) (c c' : List Entry) (hu : u ≠ z) (hnd : (units z c).Nodup)
    (h : chainClear z u c = some c') : ∀ x, x ∈ units z c' ↔ x ≠ u ∧ x ∈ units z c := by
  induction c generalizing c' with
  | nil => simp [chainClear] at h
  | cons e r ih =>
    simp only [chainClear] at h
    rw [units_cons z] at hnd
    split at h
    · next he =>
      simp only [Option.some.injEq] at h; subst h
      have he0 : ¬ e.unit = z := by rw [he]; exact hu
      simp only [he0, if_false, List.nodup_cons] at hnd
      intro x; rw [units_cons z, units_cons z]; simp only [if_true, he0, if_false, List.mem_cons]
      constructor
      · intro hx; refine ⟨?_, Or.inr hx⟩; intro hxu; rw [hxu, ← he] at hx; exact hnd.1 hx
      · rintro ⟨hxu, hx | hx⟩
        · exact absurd (hx.trans he) hxu
        · exact hx
    · next he =>
      cases hr : chainClear z u r with
      | none => simp [hr] at h
      | some r' =>
        simp only [hr, Option.some.injEq] at h; subst h
        intro x; rw [units_cons z, units_cons z]
        by_cases he0 : e.unit = z
        · simp only [he0, if_true] at hnd ⊢
          exact ih r' hnd hr x
        · simp only [he0, if_false, List.nodup_cons, List.mem_cons] at hnd ⊢
          rw [ih r' hnd.2 hr x]
          constructor
          · rintro (hx | hx)
            · exact ⟨by rw [hx]; exact he, Or.inl hx⟩
            · exact ⟨hx.1, Or.inr hx.2⟩
          · rintro ⟨hxu, hx | hx⟩
            · exact Or.inl hx
            · exact Or.inr ⟨hxu, hx⟩

theorem chainClear_nodup (z : UInt64) (u : UInt64) (c c' : List Entry) (hu : u ≠ z) (hnd : (units z c).Nodup)
    (h : chainClear z u c = some c') : (units z c').Nodup := by
  induction c generalizing c' with
  | nil => simp [chainClear] at h
  | cons e r ih =>
    simp only [chainClear] at h
    rw [units_cons z] at hnd
    split at h
    · next he =>
      simp only [Option.some.injEq] at h; subst h
      have he0 : ¬ e.unit = z := by rw [he]; exact hu
      simp only [he0, if_false, List.nodup_cons] at hnd
      rw [units_cons z]; simp only [if_true]; exact hnd.2
    · next he =>
      cases hr : chainClear z u r with
      | none => simp [hr] at h
      | some r' =>
        simp only [hr, Option.some.injEq] at h; subst h
        rw [units_cons z]
        by_cases he0 : e.unit = z
        · simp only [he0, if_true] at hnd ⊢; exact ih r' hnd hr
        · simp only [he0, if_false, List.nodup_cons] at hnd ⊢
          refine ⟨?_, ih r' hnd.2 hr⟩
          rw [chainClear_units z u r r' hu hnd.2 hr]
          intro hx; exact hnd.1 hx.2

theorem chainClear_get (z : UInt64) (u : UInt64) (c c' : List Entry) (hu : u ≠ z) (hnd : (units z c).Nodup)
    (h : chainClear z u c = some c') (x : UInt64) (hx : x ≠ z) :
    chainGet x c' = if x = u then none else chainGet x c := by
  by_cases hxu : x = u
  · subst hxu
    simp only [if_true]
    rw [chainGet_none z x c' hx, chainClear_units z x c c' hx hnd h]
    simp
  · simp only [hxu, if_false]
    clear hnd
    induction c generalizing c' with
    | nil => simp [chainClear] at h
    | cons e r ih =>
      simp only [chainClear] at h
      split at h
      · next he =>
        simp only [Option.some.injEq] at h; subst h
        have h0 : ¬ z = x := fun y => hx y.symm
        have : ¬ e.unit = x := by rw [he]; exact fun y => hxu y.symm
        simp [chainGet, h0, this]
      · next he =>
        cases hr : chainClear z u r with
        | none => simp [hr] at h
        | some r' =>
          simp only [hr, Option.some.injEq] at h; subst h
          simp only [chainGet]
          split
          · rfl
          · exact ih r' hr

/-! ### mapping a unit that is already mapped (to the same work unit), then unmapping it once

`ABTI_thread_set_associated_pool`, user pool → other user pool, maps the new unit before it
unmaps the old one; both pools may hand out the same handle (e.g. the `ABT_thread` handle).
The table then holds the unit twice for a moment; the unmap removes the first occurrence. -/

theorem chainRemap_reuse (z : UInt64) (u : UInt64) (t : Nat) (c c1 c2 : List Entry) (hu : u ≠ z)
    (hnd : (units z c).Nodup) (hg : chainGet u c = some t)
    (h1 : chainReuse z u t c = some c1) (h2 : chainClear z u c1 = some c2) :
    (∀ x, x ≠ z → chainGet x c2 = chainGet x c) ∧ (∀ x, x ∈ units z c2 ↔ x ∈ units z c) ∧
    (units z c2).Nodup ∧ c2.length = c.length := by
  induction c generalizing c1 c2 with
  | nil => simp [chainReuse] at h1
  | cons e r ih =>
    simp only [chainReuse] at h1
    by_cases hez : e.unit = z
    · -- the head is a tombstone: it takes the unit, and is cleared again
      simp only [hez, if_true, Option.some.injEq] at h1; subst h1
      simp only [chainClear, if_true, Option.some.injEq] at h2; subst h2
      refine ⟨?_, ?_, ?_, rfl⟩
      · intro x hx
        have h0 : ¬ z = x := fun y => hx y.symm
        have h3 : ¬ e.unit = x := by rw [hez]; exact h0
        simp [chainGet, h0, h3]
      · intro x; rw [units_cons z, units_cons z]; simp [hez]
      · rw [units_cons z] at hnd ⊢; simpa [hez] using hnd
    · simp only [hez, if_false] at h1
      cases hr : chainReuse z u t r with
      | none => simp [hr] at h1
      | some r1 =>
        simp only [hr, Option.some.injEq] at h1; subst h1
        rw [units_cons z] at hnd
        simp only [hez, if_false, List.nodup_cons] at hnd
        by_cases heu : e.unit = u
        · -- the old element comes first: it is cleared, the reused tombstone keeps the unit
          simp only [chainClear, heu, if_true, Option.some.injEq] at h2; subst h2
          have hnr : u ∉ units z r := by rw [← heu]; exact hnd.1
          have het : e.thr = t := by simpa [chainGet, heu] using hg
          refine ⟨?_, ?_, ?_, ?_⟩
          · intro x hx
            have h0 : ¬ z = x := fun y => hx y.symm
            simp only [chainGet, h0, if_false]
            rw [chainReuse_get z u t r r1 hu hnr hr x hx]
            by_cases hxu : x = u
            · subst hxu; simp [heu, het]
            · have : ¬ e.unit = x := by rw [heu]; exact fun y => hxu y.symm
              simp [hxu, this]
          · intro x
            rw [units_cons z, units_cons z]
            simp only [if_true, hez, if_false, List.mem_cons]
            rw [chainReuse_units z u t r r1 hu hr x, heu]
          · rw [units_cons z]; simp only [if_true]
            exact chainReuse_nodup z u t r r1 hu hnd.2 hnr hr
          · simp [chainReuse_length z u t r r1 hr]
        · simp only [chainClear, heu, if_false] at h2
          cases hc : chainClear z u r1 with
          | none => simp [hc] at h2
          | some r2 =>
            simp only [hc, Option.some.injEq] at h2; subst h2
            have hg' : chainGet u r = some t := by simpa [chainGet, heu] using hg
            obtain ⟨a1, a2, a3, a4⟩ := ih r1 r2 hnd.2 hg' hr hc
            refine ⟨?_, ?_, ?_, by simp [a4]⟩
            · intro x hx
              simp only [chainGet]
              split
              · rfl
              · exact a1 x hx
            · intro x; rw [units_cons z, units_cons z]; simp only [hez, if_false, List.mem_cons, a2 x]
            · rw [units_cons z]; simp only [hez, if_false, List.nodup_cons]
              exact ⟨by rw [a2]; exact hnd.1, a3⟩

/-! ### table level -/

structure WF (m : UM) : Prop where
  hash_ok : ∀ i u, u ∈ units m.nul (m.b i) → hashIndex m.exp u = i
  nodup : ∀ i, (units m.nul (m.b i)).Nodup

/-- abstraction: the finite map a table represents (NULL is never a key) -/
def absMap (m : UM) (u : UInt64) : Option Nat := if u = m.nul then none else getThread m u

theorem empty_wf (exp : Nat) (z : UInt64) : WF (empty exp z) := by
  constructor <;> simp [empty, units]

theorem absMap_empty (exp : Nat) (z : UInt64) (u : UInt64) : absMap (empty exp z) u = none := by
  simp [absMap, getThread, empty, chainGet]

theorem absMap_none_iff (m : UM) (u : UInt64) (hu : u ≠ m.nul) :
    absMap m u = none ↔ u ∉ units m.nul (m.b (hashIndex m.exp u)) := by
  simp only [absMap, hu, if_false, getThread]; exact chainGet_none m.nul u _ hu

theorem absMap_other_bucket (m : UM) (hw : WF m) (x : UInt64) (hx : x ≠ m.nul) (i : Nat)
    (hi : hashIndex m.exp x ≠ i) : x ∉ units m.nul (m.b i) := fun h => hi (hw.hash_ok i x h)

/-- `unit_map_thread` on a unit that is not NULL and not mapped -/
theorem map_spec (m : UM) (u : UInt64) (th : Nat) (mem : Bool) (hw : WF m) (hu : u ≠ m.nul)
    (hnew : absMap m u = none) :
    (mem = true → (mapThread m u th mem).isSome = true) ∧
    ∀ m', mapThread m u th mem = some m' →
      WF m' ∧ (m'.exp = m.exp ∧ m'.nul = m.nul) ∧ (∀ x, absMap m' x = if x = u then some th else absMap m x) ∧
      (∀ i, (m.b i).length ≤ (m'.b i).length) ∧
      ((∃ e ∈ m.b (hashIndex m.exp u), e.unit = m.nul) → ∀ i, (m'.b i).length = (m.b i).length) := by
  have hnu := (absMap_none_iff m u hu).mp hnew
  simp only [mapThread]
  cases hr : chainReuse m.nul u th (m.b (hashIndex m.exp u)) with
  | some c =>
    refine ⟨fun _ => rfl, ?_⟩
    intro m' hm
    simp only [Option.some.injEq] at hm; subst hm
    refine ⟨⟨?_, ?_⟩, ⟨rfl, rfl⟩, ?_, ?_, ?_⟩
    · intro i x hx
      simp only [updB] at hx
      split at hx
      · next hi =>
        rw [chainReuse_units m.nul u th _ c hu hr] at hx
        rcases hx with hx | hx
        · rw [hx]; exact hi.symm
        · rw [hi]; exact hw.hash_ok _ x hx
      · exact hw.hash_ok i x hx
    · intro i
      simp only [updB]
      split
      · exact chainReuse_nodup m.nul u th _ c hu (hw.nodup _) hnu hr
      · exact hw.nodup i
    · intro x
      simp only [absMap, getThread, updB]
      by_cases hx0 : x = m.nul
      · subst hx0
        have : ¬ m.nul = u := fun y => hu y.symm
        simp [this]
      · simp only [hx0, if_false]
        by_cases hb : hashIndex m.exp x = hashIndex m.exp u
        · simp only [hb, if_true]
          exact chainReuse_get m.nul u th _ c hu hnu hr x hx0
        · have : ¬ x = u := fun y => hb (by rw [y])
          simp [hb, this]
    · intro i; simp only [updB]; split
      · next hi => rw [chainReuse_length m.nul u th _ c hr, hi]; exact Nat.le_refl _
      · exact Nat.le_refl _
    · intro _ i; simp only [updB]; split
      · next hi => rw [chainReuse_length m.nul u th _ c hr, hi]
      · rfl
  | none =>
    have hnt := (chainReuse_none m.nul u th _).mp hr
    cases mem with
    | false => simp
    | true =>
      refine ⟨fun _ => rfl, ?_⟩
      intro m' hm
      simp only [if_true, Option.some.injEq] at hm; subst hm
      refine ⟨⟨?_, ?_⟩, ⟨rfl, rfl⟩, ?_, ?_, ?_⟩
      · intro i x hx
        simp only [updB] at hx
        split at hx
        · next hi =>
          rw [units_cons m.nul] at hx
          simp only [hu, if_false, List.mem_cons] at hx
          rcases hx with hx | hx
          · rw [hx]; exact hi.symm
          · rw [hi]; exact hw.hash_ok _ x hx
        · exact hw.hash_ok i x hx
      · intro i
        simp only [updB]
        split
        · rw [units_cons m.nul]; simp only [hu, if_false, List.nodup_cons]; exact ⟨hnu, hw.nodup _⟩
        · exact hw.nodup i
      · intro x
        simp only [absMap, getThread, updB]
        by_cases hx0 : x = m.nul
        · subst hx0
          have : ¬ m.nul = u := fun y => hu y.symm
          simp [this]
        · simp only [hx0, if_false]
          by_cases hb : hashIndex m.exp x = hashIndex m.exp u
          · simp only [hb, if_true, chainGet]
            by_cases hxu : x = u
            · simp [hxu]
            · have : ¬ u = x := fun y => hxu y.symm
              simp [hxu, this]
          · have : ¬ x = u := fun y => hb (by rw [y])
            simp [hb, this]
      · intro i; simp only [updB]; split
        · next hi => rw [hi]; simp
        · exact Nat.le_refl _
      · rintro ⟨e, he, he0⟩; exact absurd he0 (hnt e he)

/-- `unit_unmap_thread` on a mapped unit -/
theorem unmap_spec (m : UM) (u : UInt64) (hw : WF m) (hu : u ≠ m.nul) (hm : absMap m u ≠ none) :
    ∃ m', unmapThread m u = some m' ∧ WF m' ∧ (m'.exp = m.exp ∧ m'.nul = m.nul) ∧
      (∀ x, absMap m' x = if x = u then none else absMap m x) ∧
      (∀ i, (m'.b i).length = (m.b i).length) := by
  have hin : u ∈ units m.nul (m.b (hashIndex m.exp u)) := by
    apply Classical.byContradiction; intro hx; exact hm ((absMap_none_iff m u hu).mpr hx)
  simp only [unmapThread]
  cases hr : chainClear m.nul u (m.b (hashIndex m.exp u)) with
  | none => exact absurd hin ((chainClear_none m.nul u _ hu).mp hr)
  | some c =>
    refine ⟨_, rfl, ⟨?_, ?_⟩, ⟨rfl, rfl⟩, ?_, ?_⟩
    · intro i x hx
      simp only [updB] at hx
      split at hx
      · next hi =>
        rw [chainClear_units m.nul u _ c hu (hw.nodup _) hr] at hx
        rw [hi]; exact hw.hash_ok _ x hx.2
      · exact hw.hash_ok i x hx
    · intro i
      simp only [updB]
      split
      · exact chainClear_nodup m.nul u _ c hu (hw.nodup _) hr
      · exact hw.nodup i
    · intro x
      simp only [absMap, getThread, updB]
      by_cases hx0 : x = m.nul
      · simp [hx0]
      · simp only [hx0, if_false]
        by_cases hb : hashIndex m.exp x = hashIndex m.exp u
        · simp only [hb, if_true]
          exact chainClear_get m.nul u _ c hu (hw.nodup _) hr x hx0
        · have : ¬ x = u := fun y => hb (by rw [y])
          simp [hb, this]
    · intro i; simp only [updB]; split
      · next hi => rw [chainClear_length m.nul u _ c hr, hi]
      · rfl

/-- `unit_map_thread(u, t)` while `u` is already mapped to the same work unit `t`, followed by one
`unit_unmap_thread(u)` (what a move between two user pools that share a handle does): the map
fails only for lack of memory (no tombstone in the bucket and `malloc` fails), otherwise the
unmap succeeds, the table is well formed again and represents the same finite map -/
theorem remap_spec (m : UM) (u : UInt64) (t : Nat) (mem : Bool) (hw : WF m) (hu : u ≠ m.nul)
    (hm : absMap m u = some t) :
    (mem = true → (mapThread m u t mem).isSome = true) ∧
    ∀ m1, mapThread m u t mem = some m1 →
      ∃ m2, unmapThread m1 u = some m2 ∧ WF m2 ∧ (m2.exp = m.exp ∧ m2.nul = m.nul) ∧
        (∀ x, absMap m2 x = absMap m x) ∧ (∀ i, (m.b i).length ≤ (m2.b i).length) := by
  have hg : chainGet u (m.b (hashIndex m.exp u)) = some t := by
    simpa [absMap, hu, getThread] using hm
  have habs : ∀ (m2 : UM), m2.exp = m.exp → m2.nul = m.nul →
      (∀ i, i ≠ hashIndex m.exp u → m2.b i = m.b i) →
      (∀ x, x ≠ m.nul → chainGet x (m2.b (hashIndex m.exp u)) = chainGet x (m.b (hashIndex m.exp u))) →
      ∀ x, absMap m2 x = absMap m x := by
    intro m2 he hn hb hc x
    simp only [absMap, getThread, he, hn]
    by_cases hx : x = m.nul
    · simp [hx]
    · simp only [hx, if_false]
      by_cases hi : hashIndex m.exp x = hashIndex m.exp u
      · rw [hi]; exact hc x hx
      · rw [hb _ hi]
  simp only [mapThread]
  cases hr : chainReuse m.nul u t (m.b (hashIndex m.exp u)) with
  | some c1 =>
    refine ⟨fun _ => rfl, ?_⟩
    intro m1 h1
    simp only [Option.some.injEq] at h1; subst h1
    have hin : u ∈ units m.nul c1 := by
      rw [chainReuse_units m.nul u t _ c1 hu hr]; exact Or.inl rfl
    simp only [unmapThread, updB, if_true]
    cases hc : chainClear m.nul u c1 with
    | none => exact absurd hin ((chainClear_none m.nul u c1 hu).mp hc)
    | some c2 =>
      obtain ⟨a1, a2, a3, a4⟩ := chainRemap_reuse m.nul u t _ c1 c2 hu (hw.nodup _) hg hr hc
      have hb2 : updB (updB m.b (hashIndex m.exp u) c1) (hashIndex m.exp u) c2 =
          fun j => if j = hashIndex m.exp u then c2 else m.b j := by
        funext j; simp only [updB]; split <;> simp_all
      simp only [hb2]
      refine ⟨_, rfl, ⟨?_, ?_⟩, ⟨rfl, rfl⟩, ?_, ?_⟩
      · intro i x hx
        simp only at hx
        split at hx
        · next hi => rw [a2] at hx; rw [hi]; exact hw.hash_ok _ x hx
        · exact hw.hash_ok i x hx
      · intro i
        simp only
        split
        · exact a3
        · exact hw.nodup i
      · apply habs { exp := m.exp, nul := m.nul, b := fun j => if j = hashIndex m.exp u then c2 else m.b j } rfl rfl
        · intro i hi; simp [hi]
        · intro x hx; simp only [if_true]; exact a1 x hx
      · intro i
        simp only
        split
        · next hi => rw [a4, hi]; exact Nat.le_refl _
        · exact Nat.le_refl _
  | none =>
    cases mem with
    | false => simp
    | true =>
      refine ⟨fun _ => rfl, ?_⟩
      intro m1 h1
      simp only [if_true, Option.some.injEq] at h1; subst h1
      simp only [unmapThread, updB, if_true, chainClear]
      have hb2 : updB (updB m.b (hashIndex m.exp u) (({ unit := u, thr := t } : Entry) :: m.b (hashIndex m.exp u)))
            (hashIndex m.exp u) (({ unit := m.nul, thr := t } : Entry) :: m.b (hashIndex m.exp u)) =
          fun j => if j = hashIndex m.exp u then
              ({ unit := m.nul, thr := t } : Entry) :: m.b (hashIndex m.exp u) else m.b j := by
        funext j; simp only [updB]; split <;> simp_all
      simp only [hb2]
      refine ⟨_, rfl, ⟨?_, ?_⟩, ⟨rfl, rfl⟩, ?_, ?_⟩
      · intro i x hx
        simp only at hx
        split at hx
        · next hi =>
          rw [units_cons m.nul] at hx; simp only [if_true] at hx
          rw [hi]; exact hw.hash_ok _ x hx
        · exact hw.hash_ok i x hx
      · intro i
        simp only
        split
        · rw [units_cons m.nul]; simp only [if_true]; exact hw.nodup _
        · exact hw.nodup i
      · apply habs { exp := m.exp, nul := m.nul, b := fun j => if j = hashIndex m.exp u then
              ({ unit := m.nul, thr := t } : Entry) :: m.b (hashIndex m.exp u) else m.b j } rfl rfl
        · intro i hi; simp [hi]
        · intro x hx
          have h0 : ¬ m.nul = x := fun y => hx y.symm
          simp [chainGet, h0]
      · intro i
        simp only
        split
        · next hi => rw [hi]; simp
        · exact Nat.le_refl _

end ArgoVerif.Model.UnitMap
