import ArgoVerif.Model.Eventual
/-
Proofs.Eventual — inductive invariant of the eventual model (one lemma per step function).
-/
namespace ArgoVerif.Model.Eventual
open ArgoVerif
set_option maxHeartbeats 4000000

/-- program counters at which the actor holds `p_eventual->lock` -/
def HoldsLock : Pc → Prop
  | .setOkCS | .setErrCS | .waitCS | .waitEnq | .reW | .reR | .passCS | .testCS0 | .testCS1 | .resetCS
  | .freeCS | .freed => True
  | .idle | .rejected | .bigRej | .setCalled | .setOkDone | .setErrDone | .waitCalled | .waiting | .woken
  | .waitDone | .testCalled | .testDone0 | .testDone1 | .resetCalled | .resetDone | .freeCalled => False

/-- program counters of an actor that is in the wait-list -/
def InQ : Pc → Prop
  | .waitEnq | .waiting | .reW => True
  | .idle | .rejected | .bigRej | .setCalled | .setOkCS | .setErrCS | .setOkDone | .setErrDone | .waitCalled
  | .waitCS | .woken | .reR | .passCS | .waitDone | .testCalled | .testCS0 | .testCS1 | .testDone0
  | .testDone1 | .resetCalled | .resetCS | .resetDone
  | .freeCalled | .freeCS | .freed => False

/-- a waiter that has been let through (found the eventual ready, or was woken) -/
def Through : Pc → Prop
  | .woken | .reR | .passCS | .waitDone => True
  | .idle | .rejected | .bigRej | .setCalled | .setOkCS | .setErrCS | .setOkDone | .setErrDone | .waitCalled
  | .waitCS | .waitEnq | .waiting | .reW | .testCalled | .testCS0 | .testCS1 | .testDone0 | .testDone1
  | .resetCalled | .resetCS | .resetDone
  | .freeCalled | .freeCS | .freed => False

/-- program counters inside ABT_eventual_wait past the tasklet check -/
def InWait : Pc → Prop
  | .waitCalled | .waitCS | .waitEnq | .waiting | .reW | .woken | .reR | .passCS | .waitDone => True
  | .idle | .rejected | .bigRej | .setCalled | .setOkCS | .setErrCS | .setOkDone | .setErrDone | .testCalled
  | .testCS0 | .testCS1 | .testDone0 | .testDone1 | .resetCalled | .resetCS | .resetDone
  | .freeCalled | .freeCS | .freed => False

/-- callers whose observation under the lock was "ready" -/
def SawReady : Pc → Prop
  | .setErrCS | .setErrDone | .woken | .reR | .passCS | .waitDone | .testCS1 | .testDone1 => True
  | .idle | .rejected | .bigRej | .setCalled | .setOkCS | .setOkDone | .waitCalled | .waitCS | .waitEnq
  | .waiting | .reW | .testCalled | .testCS0 | .testDone0 | .resetCalled | .resetCS | .resetDone
  | .freeCalled | .freeCS | .freed => False

structure Inv (s : St) : Prop where
  lockIff : ∀ a, s.lock = some a ↔ HoldsLock (s.pc a)
  nodup : s.q.Nodup
  inQ : ∀ a, a ∈ s.q ↔ InQ (s.pc a)
  noLost : s.q ≠ [] → s.ready = true → (s.lock ≠ none ∧ ∀ b, s.lock = some b → s.pc b = .setOkCS)
  taskPc : ∀ a, s.kind a = .task → ¬ InWait (s.pc a)
  ultPc : ∀ a, s.kind a = .ult → (s.pc a ≠ .reW ∧ s.pc a ≠ .reR)
  setsLe : s.sets s.epoch ≤ 1
  readyIff : s.ready = true ↔ s.sets s.epoch = 1
  setsFut : ∀ k, s.epoch < k → s.sets k = 0
  valOK : s.ready = true → s.nbytes ≠ 0 → s.value = s.setVal s.epoch
  sawOK : ∀ a, SawReady (s.pc a) → (s.sets (s.relEpoch a) = 1 ∧ s.relEpoch a ≤ s.epoch)
  okCS : ∀ a, s.pc a = .setOkCS → s.ready = true
  csNotReady : ∀ a, s.pc a = .waitCS → s.ready = false

theorem inQ_inWait (p : Pc) (h : InQ p) : InWait p := by cases p <;> simp_all [InQ, InWait]

theorem inv_init (k : Actor → Kind) (n : Nat) (v : Val) : Inv (init k n v) := by
  constructor <;> simp [init, HoldsLock, InQ, InWait, SawReady]

macro "inv_tac" h:ident : tactic => `(tactic|
  (have := ($h).lockIff; have := ($h).nodup; have := ($h).inQ; have := ($h).noLost
   have := ($h).taskPc; have := ($h).ultPc; have := ($h).setsLe; have := ($h).readyIff
   have := ($h).setsFut; have := ($h).valOK; have := ($h).sawOK; have := ($h).okCS; have := ($h).csNotReady
   try simp only [setPc, doSet, lockAs, unlockAs] at *
   grind [upd, HoldsLock, InQ, InWait, SawReady]))

macro "close_tac" h:ident hs:ident : tactic => `(tactic|
  first
  | (cases $hs:ident; done)
  | (cases $hs:ident; constructor <;> inv_tac $h))

theorem inv_stepCall (s s' : St) (a : Actor) (op : Op) (v : Val) (h : Inv s) (hs : stepCall s a op v = some s') : Inv s' := by
  unfold stepCall at hs
  cases op <;> (repeat' (split at hs)) <;> close_tac h hs

theorem inv_stepRet (s s' : St) (a : Actor) (op : Op) (rc : Rc) (r : Bool) (v : Val) (h : Inv s)
    (hs : stepRet s a op rc r v = some s') : Inv s' := by
  unfold stepRet at hs
  (repeat' (split at hs)) <;> close_tac h hs

theorem inv_stepEnq (s s' : St) (a : Actor) (h : Inv s) (hs : stepEnq s a = some s') : Inv s' := by
  unfold stepEnq at hs
  split at hs <;> close_tac h hs

theorem wake_cases (s s' : St) (a n : Actor) (hs : stepWake s a n = some s') :
    s.pc a = .setOkCS ∧ ∃ t, s.q = n :: t ∧ s' = setPc { s with q := t, relEpoch := upd s.relEpoch n s.epoch } n .woken := by
  unfold stepWake at hs
  split at hs
  · rename_i hd tl hpc hq
    split at hs
    · rename_i hn; subst hn; cases hs; exact ⟨hpc, tl, hq, rfl⟩
    · cases hs
  · cases hs

theorem inv_stepWake (s s' : St) (a n : Actor) (h : Inv s) (hs : stepWake s a n = some s') : Inv s' := by
  obtain ⟨hpc, t, hq, rfl⟩ := wake_cases s s' a n hs
  have hm : n ∈ s.q := by rw [hq]; simp
  have hin := (h.inQ n).mp hm
  have hiw := inQ_inWait _ hin
  have hnt : n ∉ t := by have := h.nodup; rw [hq] at this; exact (List.nodup_cons.mp this).1
  have htn : t.Nodup := by have := h.nodup; rw [hq] at this; exact (List.nodup_cons.mp this).2
  have hmem : ∀ b, b ∈ s.q ↔ (b = n ∨ b ∈ t) := by intro b; rw [hq]; simp
  constructor <;> inv_tac h

end ArgoVerif.Model.Eventual
