import ArgoVerif.Proofs.KTable
/-
Proofs.KTableRace — invariants of the interleaving model of concurrent
`ABTI_ktable_set` calls on one (initially NULL) slot.
-/
namespace ArgoVerif.Model.KTable
open ArgoVerif

/-! ### classification of program points -/

def scanPos : Pc → Option Nat
  | .walk j => some j
  | .acq j => some j
  | .lwalk j => some j
  | _ => none

def foundPos : Pc → Option Nat
  | .store j => some j
  | .lrel j => some j
  | _ => none

def isPub : Pc → Bool
  | .pub _ _ => true
  | _ => false

def present : Pc → Bool
  | .unlock => true
  | .done true => true
  | _ => false

def usesTbl : Pc → Bool
  | .walk _ | .store _ | .acq _ | .lwalk _ | .lrel _ | .pub _ _ | .unlock | .unlockFail | .done true => true
  | _ => false

def holds : Pc → Bool
  | .lwalk _ | .lrel _ | .pub _ _ | .unlock | .unlockFail => true
  | _ => false

/-- key ids of the chain caller `t` works on -/
def CSt.ks (P : Params) (s : CSt) (t : Nat) : List Nat := (s.ch P t).map (·.keyId)

/-! ### protocol invariant (slot word, creator, lock) -/

structure PInv (P : Params) (s : CSt) : Prop where
  created : s.created = if s.slot = .valid then 1 else 0
  creating : ∀ t, s.pc t = .creating → s.slot = .locked
  creator1 : ∀ t t', s.pc t = .creating → s.pc t' = .creating → t = t'
  spin : ∀ t, s.pc t = .spin → s.slot ≠ .null
  tbl : ∀ t, usesTbl (s.pc t) = true → s.slot = .valid
  nofail : ∀ t, s.pc t ≠ .crashed ∧ s.pc t ≠ .done false ∧ s.pc t ≠ .unlockFail
  lock1 : ∀ t, holds (s.pc t) = true → s.lock = some t
  lock2 : ∀ t, s.lock = some t → holds (s.pc t) = true

theorem pinv_init (P : Params) : PInv P CSt.init := by
  constructor <;> simp [CSt.init, usesTbl, holds]

theorem pinv_step (P : Params) (hf : P.faults = false) (s : CSt) (e : Nat × Act) (s' : CSt)
    (h : PInv P s) (hs : Step P s e s') : PInv P s' := by
  cases hs <;> constructor
  all_goals first
    | (have := h.created; have := h.creating; have := h.creator1; have := h.spin; have := h.tbl
       have := h.nofail; have := h.lock1; have := h.lock2
       grind [upd, usesTbl, holds])

end ArgoVerif.Model.KTable
