import ArgoVerif.Proofs.PopWaitC
/- Proofs.PopWaitC4b — timing invariant: the lock release. -/
namespace ArgoVerif.Model.PopWait
open ArgoVerif
set_option maxHeartbeats 2000000

theorem invC_clear (k : Kind) (s s' : St) (a : Actor) (hA : InvA k s) (h : InvC k s) (hs : stepClear s a = some s') :
    InvC k (bump s' (some a)) := by
  unfold stepClear at hs
  simp only [afterEmpty] at hs
  (repeat' (split at hs)) <;> pointwise hA h a hs

end ArgoVerif.Model.PopWait
