import ArgoVerif.Proofs.PopWaitC
/- Proofs.PopWaitC3b — timing invariant: sleep end, link. -/
namespace ArgoVerif.Model.PopWait
open ArgoVerif
set_option maxHeartbeats 2000000

theorem invC_sleepDone (k : Kind) (s s' : St) (a : Actor) (hA : InvA k s) (h : InvC k s) (hs : stepSleepDone s a = some s') :
    InvC k (bump s' (some a)) := by
  unfold stepSleepDone at hs
  (repeat' (split at hs)) <;> pointwise hA h a hs

theorem invC_link (k : Kind) (s s' : St) (a : Actor) (hA : InvA k s) (h : InvC k s) (hs : stepLink s a = some s') :
    InvC k (bump s' (some a)) := by
  unfold stepLink at hs
  (repeat' (split at hs)) <;> pointwise hA h a hs

end ArgoVerif.Model.PopWait
