import ArgoVerif.Model.RankConc
import ArgoVerif.Proofs.Rank
/-
Proofs.RankConc — sequential facts used by the interleaving proof (Proofs/RankConc2.lean):
what one atomic `Model.Rank` call leaves untouched (frame), and that the pieces a critical
section of `Model.RankConc` executes (scan, then update) compose to exactly the atomic call.
-/
namespace ArgoVerif.Model.RankConc
open ArgoVerif ArgoVerif.Model.Rank

theorem runOps_snoc : ∀ (ops : List Op) (s s1 s2 : G) (outs : List Out) (op : Op) (o : Out),
    runOps s ops = some (s1, outs) → Rank.step s1 op = some (s2, o) →
    runOps s (ops ++ [op]) = some (s2, outs ++ [o]) := by
  intro ops
  induction ops with
  | nil =>
    intro s s1 s2 outs op o h hs
    simp only [runOps, Option.some.injEq, Prod.mk.injEq] at h
    obtain ⟨rfl, rfl⟩ := h
    simp [runOps, hs]
  | cons x xs ih =>
    intro s s1 s2 outs op o h hs
    simp only [runOps] at h
    cases hx : Rank.step s x with
    | none => simp [hx] at h
    | some r =>
      obtain ⟨sa, oa⟩ := r
      simp only [hx] at h
      cases hr : runOps sa xs with
      | none => simp [hr] at h
      | some r2 =>
        obtain ⟨sb, os⟩ := r2
        simp only [hr, Option.some.injEq, Prod.mk.injEq] at h
        obtain ⟨rfl, rfl⟩ := h
        have := ih sa sb s2 os op o hr hs
        simp [runOps, hx, this]

/-- **frame of one atomic call**: the list stays well formed; membership and rank of every
descriptor other than the call's own target are unchanged -/
theorem step_frame (g g' : G) (op : Op) (o : Out) (hw : WF g) (hal : allowed op = true)
    (hs : Rank.step g op = some (g', o)) :
    WF g' ∧ (∀ q, q ≠ target op → (q ∈ live g' ↔ q ∈ live g)) ∧
      (∀ q, q ≠ target op → g'.rank q = g.rank q) := by
  unfold Rank.step at hs
  by_cases hpre : Pre g op = true
  · simp only [hpre, if_true] at hs
    cases op with
    | create p =>
      simp only [Pre, Bool.and_eq_true, decide_eq_true_eq, Bool.not_eq_true', List.contains_eq_mem,
        decide_eq_false_iff_not] at hpre
      obtain ⟨s1, r, he, hc, -, -, -⟩ := create_spec g p hw hpre.1 hpre.2
      rw [he] at hs
      simp only [Option.some.injEq, Prod.mk.injEq] at hs
      obtain ⟨rfl, -⟩ := hs
      refine ⟨hc.wf, ?_, ?_⟩
      · intro q hq; rw [hc.mem q]; simp only [target] at hq; simp [hq]
      · intro q hq; rw [hc.rank]; simp only [target] at hq; simp [upd, hq]
    | createWithRank p r =>
      simp only [Pre, Bool.and_eq_true, decide_eq_true_eq, Bool.not_eq_true', List.contains_eq_mem,
        decide_eq_false_iff_not] at hpre
      by_cases hr : r < 0
      · simp only [apiStep, hr, if_true, Option.some.injEq, Prod.mk.injEq] at hs
        obtain ⟨rfl, -⟩ := hs
        exact ⟨hw, fun _ _ => Iff.rfl, fun _ _ => rfl⟩
      · have hx := createw_spec g p r hw hpre.1 hpre.2 (by omega)
        by_cases hin : r ∈ ranks g
        · obtain ⟨s1, he, hl, hrk, -, -, hwf⟩ := hx.1 hin
          rw [he] at hs
          simp only [Option.some.injEq, Prod.mk.injEq] at hs
          obtain ⟨rfl, -⟩ := hs
          exact ⟨hwf, fun q _ => by rw [hl], fun q _ => by rw [hrk]⟩
        · obtain ⟨s1, he, hc⟩ := hx.2 hin
          rw [he] at hs
          simp only [Option.some.injEq, Prod.mk.injEq] at hs
          obtain ⟨rfl, -⟩ := hs
          refine ⟨hc.wf, ?_, ?_⟩
          · intro q hq; rw [hc.mem q]; simp only [target] at hq; simp [hq]
          · intro q hq; rw [hc.rank]; simp only [target] at hq; simp [upd, hq]
    | setRank p r =>
      simp only [Pre, Bool.or_eq_true, decide_eq_true_eq, List.contains_eq_mem] at hpre
      by_cases hp0 : p = 0
      · simp only [apiStep, hp0, if_true, Option.some.injEq, Prod.mk.injEq] at hs
        obtain ⟨rfl, -⟩ := hs
        exact ⟨hw, fun _ _ => Iff.rfl, fun _ _ => rfl⟩
      by_cases hpp : p = primaryId
      · simp only [apiStep, hp0, hpp, if_true, if_false, Option.some.injEq, Prod.mk.injEq] at hs
        have : (primaryId = 0) = False := by simp [primaryId]
        simp only [this, if_false, Option.some.injEq, Prod.mk.injEq] at hs
        obtain ⟨rfl, -⟩ := hs
        exact ⟨hw, fun _ _ => Iff.rfl, fun _ _ => rfl⟩
      by_cases hr : r < 0
      · simp only [apiStep, hp0, hpp, hr, if_true, if_false, Option.some.injEq, Prod.mk.injEq] at hs
        obtain ⟨rfl, -⟩ := hs
        exact ⟨hw, fun _ _ => Iff.rfl, fun _ _ => rfl⟩
      have hpl : p ∈ live g := by
        rcases hpre with h | h
        · exact absurd h hp0
        · simpa using h
      have hx := setrank_spec g p r hw hpl hpp (by omega)
      by_cases he : g.rank p = r
      · rw [hx.1 he] at hs
        simp only [Option.some.injEq, Prod.mk.injEq] at hs
        obtain ⟨rfl, -⟩ := hs
        exact ⟨hw, fun _ _ => Iff.rfl, fun _ _ => rfl⟩
      by_cases hin : r ∈ ranks g
      · rw [hx.2.1 he hin] at hs
        simp only [Option.some.injEq, Prod.mk.injEq] at hs
        obtain ⟨rfl, -⟩ := hs
        exact ⟨hw, fun _ _ => Iff.rfl, fun _ _ => rfl⟩
      · obtain ⟨s1, hst, hwf, hmem, hrk, -, -⟩ := hx.2.2 he hin
        rw [hst] at hs
        simp only [Option.some.injEq, Prod.mk.injEq] at hs
        obtain ⟨rfl, -⟩ := hs
        refine ⟨hwf, fun q _ => hmem q, ?_⟩
        intro q hq; rw [hrk]; simp only [target] at hq; simp [upd, hq]
    | free p =>
      simp only [Pre, Bool.or_eq_true, decide_eq_true_eq, List.contains_eq_mem] at hpre
      by_cases hp0 : p = 0
      · simp only [apiStep, hp0, if_true, Option.some.injEq, Prod.mk.injEq] at hs
        obtain ⟨rfl, -⟩ := hs
        exact ⟨hw, fun _ _ => Iff.rfl, fun _ _ => rfl⟩
      by_cases hpp : p = primaryId
      · simp only [apiStep, hp0, hpp, if_true, if_false, Option.some.injEq, Prod.mk.injEq] at hs
        have : (primaryId = 0) = False := by simp [primaryId]
        simp only [this, if_false, Option.some.injEq, Prod.mk.injEq] at hs
        obtain ⟨rfl, -⟩ := hs
        exact ⟨hw, fun _ _ => Iff.rfl, fun _ _ => rfl⟩
      have hpl : p ∈ live g := by
        rcases hpre with h | h
        · exact absurd h hp0
        · simpa using h
      obtain ⟨s1, hst, hwf, hmem, hrk, -⟩ := free_spec g p hw hpl hpp
      rw [hst] at hs
      simp only [Option.some.injEq, Prod.mk.injEq] at hs
      obtain ⟨rfl, -⟩ := hs
      refine ⟨hwf, ?_, fun q _ => by rw [hrk]⟩
      intro q hq; rw [hmem q]; simp only [target] at hq; simp [hq]
    | getNum =>
      simp only [apiStep, Option.some.injEq, Prod.mk.injEq] at hs
      obtain ⟨rfl, -⟩ := hs
      exact ⟨hw, fun _ _ => Iff.rfl, fun _ _ => rfl⟩
    | join p => simp [allowed] at hal
    | revive p => simp [allowed] at hal
    | getRank p => simp [allowed] at hal
  · simp [hpre] at hs

/-- a call that never takes the lock does not change the shared state -/
theorem lockFree_same (g g' : G) (op : Op) (o : Out) (hal : allowed op = true)
    (hlf : lockFree g op = true) (hs : apiStep g op = some (g', o)) : g' = g := by
  cases op with
  | create p => simp [lockFree] at hlf
  | createWithRank p r =>
    simp only [lockFree, decide_eq_true_eq] at hlf
    simp only [apiStep, hlf, if_true, Option.some.injEq, Prod.mk.injEq] at hs
    exact hs.1.symm
  | setRank p r =>
    simp only [lockFree, Bool.or_eq_true, decide_eq_true_eq] at hlf
    unfold apiStep at hs
    by_cases h1 : p = 0
    · simp only [h1, if_true, Option.some.injEq, Prod.mk.injEq] at hs; exact hs.1.symm
    by_cases h2 : p = primaryId
    · have hne : (primaryId = 0) = False := by simp [primaryId]
      simp only [h2, hne, if_true, if_false, Option.some.injEq, Prod.mk.injEq] at hs; exact hs.1.symm
    by_cases h3 : r < 0
    · simp only [h1, h2, h3, if_true, if_false, Option.some.injEq, Prod.mk.injEq] at hs; exact hs.1.symm
    have h4 : g.rank p = r := by
      rcases hlf with ((h | h) | h) | h
      · exact absurd h h1
      · exact absurd h h2
      · exact absurd h h3
      · exact h
    simp only [h1, h2, h3, if_false, changeRank, h4, if_true, Option.some.injEq, Prod.mk.injEq] at hs
    exact hs.1.symm
  | free p =>
    simp only [lockFree, Bool.or_eq_true, decide_eq_true_eq] at hlf
    unfold apiStep at hs
    by_cases h1 : p = 0
    · simp only [h1, if_true, Option.some.injEq, Prod.mk.injEq] at hs; exact hs.1.symm
    have h2 : p = primaryId := by
      rcases hlf with h | h
      · exact absurd h h1
      · exact h
    have hne : (primaryId = 0) = False := by simp [primaryId]
    simp only [h2, hne, if_true, if_false, Option.some.injEq, Prod.mk.injEq] at hs; exact hs.1.symm
  | getNum =>
    simp only [apiStep, Option.some.injEq, Prod.mk.injEq] at hs
    exact hs.1.symm
  | join p => simp [allowed] at hal
  | revive p => simp [allowed] at hal
  | getRank p => simp [allowed] at hal

/-! ### scan + update under one lock hold = the atomic call -/

/-- what the scan established (kept while the lock is held) -/
def ChkFact (g : G) : Op → Int → Prop
  | .create p, loc =>
    mexLoop (privInit g p) (fuel (privInit g p)) 0 (privInit g p).head = some loc
  | .createWithRank p r, loc =>
    findLoop (privInit g p) r (fuel (privInit g p)) (privInit g p).head = some false ∧ loc = r
  | .setRank _ r, _ => findLoop g r (fuel g) g.head = some false
  | _, _ => False

theorem grant_true {s : G} {p : Ptr} {r : Int} {g2 : G} {b : Bool} (h : grant s p r = some (g2, b)) :
    b = true := by
  unfold grant at h
  simp only at h
  split at h
  · simp at h
  · simp only [Option.some.injEq, Prod.mk.injEq] at h; exact h.2.symm

theorem lin_create (g g' : G) (p : Ptr) (loc : Int) (hc : ChkFact g (.create p) loc)
    (hi : insertAt g p loc = some g') : apiStep g (.create p) = some (g', .okRank (g'.rank p)) := by
  simp only [ChkFact] at hc
  have hh : (privInit g p).head = g.head := rfl
  rw [hh] at hc
  unfold insertAt at hi
  unfold apiStep xstreamCreate setNewRank
  simp only [if_true]
  have e : ({ ({ g with prev := upd g.prev p 0 } : G) with
      next := upd ({ g with prev := upd g.prev p 0 } : G).next p 0 } : G) = privInit g p := rfl
  rw [e, hc]
  simp only
  cases hg : grant (privInit g p) p loc with
  | none => simp [hg] at hi
  | some x =>
    obtain ⟨g2, b⟩ := x
    have hb := grant_true hg
    subst hb
    simp only [hg, Option.some.injEq] at hi
    subst hi
    rfl

theorem lin_createw_ok (g g' : G) (p : Ptr) (r loc : Int) (hr : ¬ r < 0)
    (hc : ChkFact g (.createWithRank p r) loc)
    (hi : insertAt g p loc = some g') :
    apiStep g (.createWithRank p r) = some (g', .okRank (g'.rank p)) := by
  simp only [ChkFact] at hc
  obtain ⟨hc, hl⟩ := hc
  rw [hl] at hi
  have hh : (privInit g p).head = g.head := rfl
  rw [hh] at hc
  unfold insertAt at hi
  have hr1 : r ≠ -1 := by omega
  unfold apiStep xstreamCreate setNewRank
  simp only [hr, hr1, if_false]
  have e : ({ ({ g with prev := upd g.prev p 0 } : G) with
      next := upd ({ g with prev := upd g.prev p 0 } : G).next p 0 } : G) = privInit g p := rfl
  rw [e, hc]
  simp only
  cases hg : grant (privInit g p) p r with
  | none => simp [hg] at hi
  | some x =>
    obtain ⟨g2, b⟩ := x
    have hb := grant_true hg
    subst hb
    simp only [hg, Option.some.injEq] at hi
    subst hi
    rfl

theorem lin_createw_fail (g : G) (p : Ptr) (r : Int) (hr : ¬ r < 0)
    (hf : findLoop (privInit g p) r (fuel (privInit g p)) (privInit g p).head = some true) :
    apiStep g (.createWithRank p r) = some (privInit g p, .errRank) := by
  have hr1 : r ≠ -1 := by omega
  have hh : (privInit g p).head = g.head := rfl
  rw [hh] at hf
  unfold apiStep xstreamCreate setNewRank
  simp only [hr, hr1, if_false]
  have e : ({ ({ g with prev := upd g.prev p 0 } : G) with
      next := upd ({ g with prev := upd g.prev p 0 } : G).next p 0 } : G) = privInit g p := rfl
  rw [e, hf]

theorem lin_setrank_fail (g : G) (p : Ptr) (r : Int) (hlf : lockFree g (.setRank p r) = false)
    (hf : findLoop g r (fuel g) g.head = some true) :
    apiStep g (.setRank p r) = some (g, .errRank) := by
  simp only [lockFree, Bool.or_eq_false_iff, decide_eq_false_iff_not] at hlf
  obtain ⟨⟨⟨h1, h2⟩, h3⟩, h4⟩ := hlf
  unfold apiStep changeRank
  simp only [h1, h2, h3, h4, if_false]
  rw [hf]

theorem lin_setrank_ok (g g' : G) (p : Ptr) (r : Int) (hlf : lockFree g (.setRank p r) = false)
    (hc : ChkFact g (.setRank p r) r) (hm : moveTo g p r = some g') :
    apiStep g (.setRank p r) = some (g', .ok) := by
  simp only [lockFree, Bool.or_eq_false_iff, decide_eq_false_iff_not] at hlf
  obtain ⟨⟨⟨h1, h2⟩, h3⟩, h4⟩ := hlf
  simp only [ChkFact] at hc
  unfold moveTo at hm
  unfold apiStep changeRank
  simp only [h1, h2, h3, h4, if_false]
  rw [hc]
  simp only
  cases hrm : removeList g p with
  | none => simp [hrm] at hm
  | some s1 =>
    simp only [hrm] at hm
    simp only [hm]

theorem lin_free (g g' : G) (p : Ptr) (hlf : lockFree g (.free p) = false)
    (hm : returnRank { g with term := upd g.term p true } p = some g') :
    apiStep g (.free p) = some (g', .ok) := by
  simp only [lockFree, Bool.or_eq_false_iff, decide_eq_false_iff_not] at hlf
  unfold apiStep
  simp only [hlf.1, hlf.2, if_false, hm]

theorem step_of_pre {g : G} {op : Op} {r : G × Out} (hp : Pre g op = true) (h : apiStep g op = some r) :
    Rank.step g op = some r := by
  unfold Rank.step; simp [hp, h]

end ArgoVerif.Model.RankConc
