import ArgoVerif.Proofs.UnitMapConc2
/-
Proofs.UnitMapConc3 — preservation of `Inv` by the steps that change locks, the
heap or the ghost map.
-/
namespace ArgoVerif.Model.UnitMap
open ArgoVerif

theorem opUnit_ne_of_pcok (h : Nat → Nat) (s : CSt) (hi : Inv h s) (t t' u : Nat) (ht : t' ≠ t)
    (ho : opUnit (s.pc t) = some u) : opUnit (s.pc t') ≠ some u :=
  fun h' => ht (hi.busy2 t' t u h' ho)

theorem step_startMap (h : Nat → Nat) (s : CSt) (t u th : Nat) (hi : Inv h s)
    (hpc : s.pc t = .idle) (hu : u ≠ 0) (ha : s.abs u = none) (hb : s.busy u = false) :
    Inv h { s with busy := upd s.busy u true, pc := upd s.pc t (.mAcq u th) } := by
  have hno : ∀ t', opUnit (s.pc t') ≠ some u := by
    intro t' ho
    have := (pcok_busy h s _ u (hi.pcs t') ho).1
    rw [hb] at this; cases this
  refine ⟨⟨hi.g.nid, hi.g.pub_lt, hi.g.head_pub, hi.g.head_max, hi.g.next_pub, hi.g.next_max, hi.g.wh_ok,
    hi.g.uniq, ?_, ?_⟩, ?_, ?_, ?_, ?_⟩
  · intro u' th' ha'
    have := hi.g.abs_ok u' th' ha'
    grind [upd]
  · intro u' ha' hb'
    have := hi.g.free_ok u'
    grind [upd]
  · intro t'
    by_cases ht : t' = t
    · subst ht
      have := hi.g.free_ok u ha hb
      simp [upd, PcOK, hu, ha, this]
    · have hp := hi.pcs t'
      simp only [upd, ht, if_false]
      cases hpc' : s.pc t' with
      | mRel u' th' ok => cases ok <;> (rw [hpc'] at hp; simp only [PcOK] at hp ⊢ <;> grind [upd])
      | _ => rw [hpc'] at hp; simp only [PcOK] at hp ⊢ <;> grind [upd]
  · intro t1 t2 u' h1 h2
    simp only [upd] at h1 h2
    by_cases e1 : t1 = t <;> by_cases e2 : t2 = t
    · rw [e1, e2]
    · simp only [e1, e2, if_true, if_false, opUnit, Option.some.injEq] at h1 h2
      subst h1; exact absurd h2 (hno t2)
    · simp only [e1, e2, if_true, if_false, opUnit, Option.some.injEq] at h1 h2
      subst h2; exact absurd h1 (hno t1)
    · simp only [e1, e2, if_false] at h1 h2; exact hi.busy2 t1 t2 u' h1 h2
  · intro t1 b h1
    simp only [upd] at h1
    by_cases e1 : t1 = t
    · simp [e1, holds] at h1
    · simp only [e1, if_false] at h1; exact hi.lock1 t1 b h1
  · intro t1 b h1
    have := hi.lock2 t1 b h1
    simp only [upd]
    by_cases e1 : t1 = t
    · subst e1; rw [hpc] at this; simp [holds] at this
    · simp only [e1, if_false]; exact this

/-- assemble `Inv` for a step of caller `t` that keeps the lock table, the unit it works on and
the lock it holds -/
theorem inv_mk (h : Nat → Nat) (s s' : CSt) (t : Nat) (pc' : Pc) (hi : Inv h s)
    (hpc : s'.pc = upd s.pc t pc') (hlock : s'.lock = s.lock)
    (hop : opUnit pc' = opUnit (s.pc t)) (hh : holds h pc' = holds h (s.pc t))
    (hg : GInv h s') (hpcs : ∀ t', PcOK h s' (s'.pc t')) : Inv h s' := by
  have eo : ∀ t1, opUnit (s'.pc t1) = opUnit (s.pc t1) := by
    intro t1; rw [hpc]
    by_cases ht : t1 = t
    · subst ht; simp only [upd_same]; exact hop
    · simp only [upd, ht, if_false]
  have eh : ∀ t1, holds h (s'.pc t1) = holds h (s.pc t1) := by
    intro t1; rw [hpc]
    by_cases ht : t1 = t
    · subst ht; simp only [upd_same]; exact hh
    · simp only [upd, ht, if_false]
  refine ⟨hg, hpcs, ?_, ?_, ?_⟩
  · intro t1 t2 u h1 h2; rw [eo] at h1 h2; exact hi.busy2 t1 t2 u h1 h2
  · intro t1 b h1; rw [eh] at h1; rw [hlock]; exact hi.lock1 t1 b h1
  · intro t1 b h1; rw [hlock] at h1; rw [eh]; exact hi.lock2 t1 b h1

theorem step_mSetUnit (h : Nat → Nat) (s : CSt) (t u th cur : Nat) (hi : Inv h s)
    (hpc : s.pc t = .mSetUnit u th cur) :
    Inv h { s with cell := upd s.cell cur { s.cell cur with unit := u }, wh := upd s.wh u cur,
                   pc := upd s.pc t (.mSetThr u th cur) } := by
  have hp := hi.pcs t; rw [hpc] at hp; simp only [PcOK] at hp
  obtain ⟨hu0, hbusy, habs, hwh, hpub, hbkt, hunit⟩ := hp
  have hcur := hi.g.pub_lt cur hpub
  have hlk := hi.lock1 t (h u) (by rw [hpc]; rfl)
  refine inv_mk h s _ t (.mSetThr u th cur) hi rfl rfl (by rw [hpc]; rfl) (by rw [hpc]; rfl) ?_ ?_
  · constructor
    · exact hi.g.nid
    · exact hi.g.pub_lt
    · exact hi.g.head_pub
    · exact hi.g.head_max
    · intro e; have := hi.g.next_pub e; grind [upd]
    · intro e e'; have := hi.g.next_max e e'; grind [upd]
    · intro u'; have := hi.g.wh_ok u'; grind [upd]
    · intro e; have := hi.g.uniq e; have := hi.g.pub_lt e; grind [upd]
    · intro u' th'; have := hi.g.abs_ok u' th'; have := hi.g.wh_ok u'; grind [upd]
    · intro u'; have := hi.g.free_ok u'; grind [upd]
  · intro t'
    by_cases ht : t' = t
    · subst ht; simp only [upd_same, PcOK]; grind [upd]
    · have hp' := hi.pcs t'
      have hne := opUnit_ne_of_pcok h s hi t t' u ht (by rw [hpc]; rfl)
      have hl' := hi.lock1 t'
      simp only [upd, ht, if_false]
      cases hpc' : s.pc t' with
      | mRel u' th' ok =>
        cases ok <;> (rw [hpc'] at hp' hne hl'; simp only [PcOK, opUnit, holds] at hp' hne hl' ⊢ <;>
          (have := hi.g.wh_ok u'; grind [upd]))
      | _ =>
        rw [hpc'] at hp' hne hl'; simp only [PcOK, opUnit, holds] at hp' hne hl' ⊢ <;>
          (first | done | (have := hi.g.wh_ok; grind [upd]))

theorem step_mSetThr (h : Nat → Nat) (s : CSt) (t u th cur : Nat) (hi : Inv h s)
    (hpc : s.pc t = .mSetThr u th cur) :
    Inv h { s with cell := upd s.cell cur { s.cell cur with thr := th }, pc := upd s.pc t (.mRel u th true) } := by
  have hp := hi.pcs t; rw [hpc] at hp; simp only [PcOK] at hp
  obtain ⟨hbusy, habs, hwh, hc0⟩ := hp
  have hw := hi.g.wh_ok u (by rw [hwh]; exact hc0)
  rw [hwh] at hw
  refine inv_mk h s _ t (.mRel u th true) hi rfl rfl (by rw [hpc]; rfl) (by rw [hpc]; rfl) ?_ ?_
  · constructor
    · exact hi.g.nid
    · exact hi.g.pub_lt
    · exact hi.g.head_pub
    · exact hi.g.head_max
    · intro e; have := hi.g.next_pub e; grind [upd]
    · intro e e'; have := hi.g.next_max e e'; grind [upd]
    · intro u'; have := hi.g.wh_ok u'; grind [upd]
    · intro e; have := hi.g.uniq e; grind [upd]
    · intro u' th'; have := hi.g.abs_ok u' th'; have := hi.g.wh_ok u'; grind [upd]
    · intro u'; have := hi.g.free_ok u'; grind [upd]
  · intro t'
    by_cases ht : t' = t
    · subst ht; simp only [upd_same, PcOK]; grind [upd]
    · have hp' := hi.pcs t'
      have hne := opUnit_ne_of_pcok h s hi t t' u ht (by rw [hpc]; rfl)
      simp only [upd, ht, if_false]
      cases hpc' : s.pc t' with
      | mRel u' th' ok =>
        cases ok <;> (rw [hpc'] at hp' hne; simp only [PcOK, opUnit] at hp' hne ⊢ <;>
          (have := hi.g.wh_ok u'; grind [upd]))
      | _ =>
        rw [hpc'] at hp' hne; simp only [PcOK, opUnit] at hp' hne ⊢ <;>
          (first | done | (have := hi.g.wh_ok; have := hi.g.abs_ok; grind [upd]))

theorem step_uClear (h : Nat → Nat) (s : CSt) (t u cur : Nat) (hi : Inv h s)
    (hpc : s.pc t = .uClear u cur) :
    Inv h { s with cell := upd s.cell cur { s.cell cur with unit := 0 }, wh := upd s.wh u 0,
                   pc := upd s.pc t (.uRel u) } := by
  have hp := hi.pcs t; rw [hpc] at hp; simp only [PcOK] at hp
  obtain ⟨hbusy, habs, hwh0, hwh⟩ := hp
  have hw := hi.g.wh_ok u hwh0
  rw [hwh] at hw
  have hlk := hi.lock1 t (h u) (by rw [hpc]; rfl)
  refine inv_mk h s _ t (.uRel u) hi rfl rfl (by rw [hpc]; rfl) (by rw [hpc]; rfl) ?_ ?_
  · constructor
    · exact hi.g.nid
    · exact hi.g.pub_lt
    · exact hi.g.head_pub
    · exact hi.g.head_max
    · intro e; have := hi.g.next_pub e; grind [upd]
    · intro e e'; have := hi.g.next_max e e'; grind [upd]
    · intro u'; have := hi.g.wh_ok u'; grind [upd]
    · intro e; have := hi.g.uniq e; grind [upd]
    · intro u' th'; have := hi.g.abs_ok u' th'; have := hi.g.wh_ok u'; grind [upd]
    · intro u'; have := hi.g.free_ok u'; grind [upd]
  · intro t'
    by_cases ht : t' = t
    · subst ht; simp only [upd_same, PcOK]; grind [upd]
    · have hp' := hi.pcs t'
      have hne := opUnit_ne_of_pcok h s hi t t' u ht (by rw [hpc]; rfl)
      have hl' := hi.lock1 t'
      simp only [upd, ht, if_false]
      cases hpc' : s.pc t' with
      | mRel u' th' ok =>
        cases ok <;> (rw [hpc'] at hp' hne hl'; simp only [PcOK, opUnit, holds] at hp' hne hl' ⊢ <;>
          (have := hi.g.wh_ok u'; grind [upd]))
      | _ =>
        rw [hpc'] at hp' hne hl'; simp only [PcOK, opUnit, holds] at hp' hne hl' ⊢ <;>
          (first | done | (have := hi.g.wh_ok; have := hi.g.abs_ok; grind [upd]))

theorem step_mAllocOk (h : Nat → Nat) (s : CSt) (t u th : Nat) (hi : Inv h s)
    (hpc : s.pc t = .mAlloc u th) :
    Inv h { s with cell := upd s.cell s.nextId ⟨u, th, s.head (h u)⟩, bkt := upd s.bkt s.nextId (h u),
                   nextId := s.nextId + 1, pc := upd s.pc t (.mPub u th s.nextId) } := by
  have hp := hi.pcs t; rw [hpc] at hp; simp only [PcOK] at hp
  obtain ⟨hu0, hbusy, habs, hwh⟩ := hp
  have hnid := hi.g.nid
  have hfresh : ∀ e, s.pub e = true → e ≠ s.nextId := by
    intro e he; have := hi.g.pub_lt e he; omega
  refine inv_mk h s _ t (.mPub u th s.nextId) hi rfl rfl (by rw [hpc]; rfl) (by rw [hpc]; rfl) ?_ ?_
  · constructor
    · show 1 ≤ s.nextId + 1; omega
    · intro e he; have := hi.g.pub_lt e he; show 1 ≤ e ∧ e < s.nextId + 1; omega
    · intro b; have := hi.g.head_pub b; grind [upd]
    · intro e; have := hi.g.head_max e; grind [upd]
    · intro e; have := hi.g.next_pub e; have := hi.g.pub_lt; grind [upd]
    · intro e e'; have := hi.g.next_max e e'; grind [upd]
    · intro u'; have := hi.g.wh_ok u'; grind [upd]
    · intro e; have := hi.g.uniq e; grind [upd]
    · intro u' th'; have := hi.g.abs_ok u' th'; have := hi.g.wh_ok u'; grind [upd]
    · intro u'; have := hi.g.free_ok u'; grind [upd]
  · intro t'
    by_cases ht : t' = t
    · subst ht
      simp only [upd_same, PcOK]
      refine ⟨hu0, hbusy, habs, hwh, ?_, hnid, ?_, ?_, ?_, ?_⟩
      · cases hp : s.pub s.nextId with
        | false => rfl
        | true => exact absurd rfl (hfresh _ hp)
      · show s.nextId < s.nextId + 1; omega
      · simp [upd]
      · simp [upd]
      · intro e he _; have := hi.g.pub_lt e he; omega
    · have hp' := hi.pcs t'
      simp only [upd, ht, if_false]
      cases hpc' : s.pc t' with
      | mRel u' th' ok =>
        cases ok <;> (rw [hpc'] at hp'; simp only [PcOK] at hp' ⊢ <;>
          (have := hi.g.wh_ok u'; grind [upd]))
      | _ =>
        rw [hpc'] at hp'; simp only [PcOK] at hp' ⊢ <;>
          (first | done | (have := hi.g.wh_ok; have := hi.g.pub_lt; grind [upd]))

theorem step_mPub (h : Nat → Nat) (s : CSt) (t u th new : Nat) (hi : Inv h s)
    (hpc : s.pc t = .mPub u th new) :
    Inv h { s with head := upd s.head (h u) new, pub := upd s.pub new true, wh := upd s.wh u new,
                   pc := upd s.pc t (.mRel u th true) } := by
  have hp := hi.pcs t; rw [hpc] at hp; simp only [PcOK] at hp
  obtain ⟨hu0, hbusy, habs, hwh, hnp, hn1, hnlt, hcell, hbkt, hall⟩ := hp
  have hlk := hi.lock1 t (h u) (by rw [hpc]; rfl)
  have hhp := hi.g.head_pub (h u)
  refine inv_mk h s _ t (.mRel u th true) hi rfl rfl (by rw [hpc]; rfl) (by rw [hpc]; rfl) ?_ ?_
  · constructor
    · exact hi.g.nid
    · intro e; have := hi.g.pub_lt e; grind [upd]
    · intro b; have := hi.g.head_pub b; grind [upd]
    · intro e; have := hi.g.head_max e; have := hall e; grind [upd]
    · intro e; have := hi.g.next_pub e; have := hall (s.head (h u)); grind [upd]
    · intro e e'; have := hi.g.next_max e e'; have := hi.g.head_max e'; have := hall e; grind [upd]
    · intro u'; have := hi.g.wh_ok u'; grind [upd]
    · intro e; have := hi.g.uniq e; have := hi.g.pub_lt e; grind [upd]
    · intro u' th'; have := hi.g.abs_ok u' th'; have := hi.g.wh_ok u'; grind [upd]
    · intro u'; have := hi.g.free_ok u'; grind [upd]
  · intro t'
    by_cases ht : t' = t
    · subst ht; simp only [upd_same, PcOK]; grind [upd]
    · have hp' := hi.pcs t'
      have hne := opUnit_ne_of_pcok h s hi t t' u ht (by rw [hpc]; rfl)
      have hl' := hi.lock1 t'
      simp only [upd, ht, if_false]
      cases hpc' : s.pc t' with
      | mRel u' th' ok =>
        cases ok <;> (rw [hpc'] at hp' hne hl'; simp only [PcOK, opUnit, holds] at hp' hne hl' ⊢ <;>
          (have := hi.g.wh_ok u'; grind [upd]))
      | mPub u' th' new' =>
        rw [hpc'] at hp' hne hl'; simp only [PcOK, opUnit, holds] at hp' hne hl' ⊢
        have := hl' (h u') rfl
        have hbne : h u' ≠ h u := by
          intro hx; rw [hx, hlk] at this; exact ht (Option.some.inj this).symm
        obtain ⟨a1, a2, a3, a4, a5, a6, a7, a8, a9, a10⟩ := hp'
        have hnn : new' ≠ new := by intro hx; rw [hx, hbkt] at a9; exact hbne a9.symm
        have hune : u' ≠ u := fun hx => hne (by rw [hx])
        refine ⟨a1, a2, a3, ?_, ?_, a6, a7, ?_, a9, ?_⟩
        · simp only [upd, hune, if_false]; exact a4
        · simp only [upd, hnn, if_false]; exact a5
        · simp only [upd, hbne, if_false]; exact a8
        · intro e he hbe
          by_cases hen : e = new
          · subst hen; rw [hbkt] at hbe; exact absurd hbe.symm hbne
          · simp only [upd, hen, if_false] at he; exact a10 e he hbe
      | _ =>
        rw [hpc'] at hp' hne hl'; simp only [PcOK, opUnit, holds] at hp' hne hl' ⊢ <;>
          (first | done | (have := hi.g.wh_ok; have := hi.g.abs_ok; grind [upd]))

theorem step_acq (h : Nat → Nat) (s : CSt) (t u : Nat) (pc' : Pc) (hi : Inv h s)
    (hlk : s.lock (h u) = none) (hop : opUnit pc' = opUnit (s.pc t)) (hh0 : holds h (s.pc t) = none)
    (hh : holds h pc' = some (h u)) (hok : PcOK h s pc') :
    Inv h { s with lock := upd s.lock (h u) (some t), pc := upd s.pc t pc' } := by
  refine ⟨⟨hi.g.nid, hi.g.pub_lt, hi.g.head_pub, hi.g.head_max, hi.g.next_pub, hi.g.next_max, hi.g.wh_ok,
    hi.g.uniq, hi.g.abs_ok, hi.g.free_ok⟩, ?_, ?_, ?_, ?_⟩
  · intro t'
    by_cases ht : t' = t
    · subst ht; simp only [upd_same]; exact hok
    · simp only [upd, ht, if_false]; exact hi.pcs t'
  · intro t1 t2 u' h1 h2
    have e1 : opUnit (upd s.pc t pc' t1) = opUnit (s.pc t1) := by
      by_cases ht : t1 = t
      · subst ht; simp only [upd_same]; exact hop
      · simp only [upd, ht, if_false]
    have e2 : opUnit (upd s.pc t pc' t2) = opUnit (s.pc t2) := by
      by_cases ht : t2 = t
      · subst ht; simp only [upd_same]; exact hop
      · simp only [upd, ht, if_false]
    simp only at h1 h2
    rw [e1] at h1; rw [e2] at h2
    exact hi.busy2 t1 t2 u' h1 h2
  · intro t1 b h1
    simp only [upd] at h1 ⊢
    by_cases e1 : t1 = t
    · subst e1
      simp only [if_true] at h1
      rw [hh] at h1
      have : h u = b := Option.some.inj h1
      simp [this]
    · simp only [e1, if_false] at h1
      have := hi.lock1 t1 b h1
      by_cases hb : b = h u
      · rw [hb, hlk] at this; cases this
      · simp only [hb, if_false]; exact this
  · intro t1 b h1
    simp only [upd] at h1 ⊢
    by_cases hb : b = h u
    · simp only [hb, if_true, Option.some.injEq] at h1
      subst h1; subst hb
      simp only [if_true]; exact hh
    · simp only [hb, if_false] at h1
      have := hi.lock2 t1 b h1
      by_cases e1 : t1 = t
      · subst e1; rw [hh0] at this; cases this
      · simp only [e1, if_false]; exact this

theorem step_rel (h : Nat → Nat) (s : CSt) (t u : Nat) (abs' : Nat → Option Nat) (hi : Inv h s)
    (ho : opUnit (s.pc t) = some u) (hh : holds h (s.pc t) = some (h u))
    (habs : ∀ u', u' ≠ u → abs' u' = s.abs u')
    (hnew : ∀ th, abs' u = some th → s.wh u ≠ 0 ∧ (s.cell (s.wh u)).thr = th)
    (hnone : abs' u = none → s.wh u = 0) :
    Inv h { s with lock := upd s.lock (h u) none, busy := upd s.busy u false, abs := abs',
                   pc := upd s.pc t .idle } := by
  have hlk := hi.lock1 t (h u) hh
  have hb := pcok_busy h s _ u (hi.pcs t) ho
  refine ⟨⟨hi.g.nid, hi.g.pub_lt, hi.g.head_pub, hi.g.head_max, hi.g.next_pub, hi.g.next_max, hi.g.wh_ok,
    hi.g.uniq, ?_, ?_⟩, ?_, ?_, ?_, ?_⟩
  · intro u' th' ha
    by_cases hu : u' = u
    · subst hu; simp only [upd_same]; exact ⟨(hnew th' ha).1, (hnew th' ha).2, trivial⟩
    · have := hi.g.abs_ok u' th' (by rw [← habs u' hu]; exact ha)
      simp only [upd, hu, if_false]; exact this
  · intro u' ha hbz
    by_cases hu : u' = u
    · subst hu; exact hnone ha
    · simp only [upd, hu, if_false] at hbz
      exact hi.g.free_ok u' (by rw [← habs u' hu]; exact ha) hbz
  · intro t'
    by_cases ht : t' = t
    · subst ht; simp only [upd_same, PcOK]
    · have hp' := hi.pcs t'
      have hne := opUnit_ne_of_pcok h s hi t t' u ht ho
      simp only [upd, ht, if_false]
      cases hpc' : s.pc t' with
      | mRel u' th' ok =>
        cases ok <;> (rw [hpc'] at hp' hne; simp only [PcOK, opUnit] at hp' hne ⊢ <;>
          (have := habs u'; grind [upd]))
      | _ =>
        rw [hpc'] at hp' hne; simp only [PcOK, opUnit] at hp' hne ⊢ <;>
          (first | done | (have := habs; grind [upd]))
  · intro t1 t2 u' h1 h2
    simp only [upd] at h1 h2
    by_cases e1 : t1 = t
    · simp [e1, opUnit] at h1
    · by_cases e2 : t2 = t
      · simp [e2, opUnit] at h2
      · simp only [e1, e2, if_false] at h1 h2; exact hi.busy2 t1 t2 u' h1 h2
  · intro t1 b h1
    simp only [upd] at h1 ⊢
    by_cases e1 : t1 = t
    · simp [e1, holds] at h1
    · simp only [e1, if_false] at h1
      have := hi.lock1 t1 b h1
      by_cases hbb : b = h u
      · rw [hbb, hlk] at this; exact absurd (Option.some.inj this).symm e1
      · simp only [hbb, if_false]; exact this
  · intro t1 b h1
    simp only [upd] at h1 ⊢
    by_cases hbb : b = h u
    · simp [hbb] at h1
    · simp only [hbb, if_false] at h1
      have := hi.lock2 t1 b h1
      by_cases e1 : t1 = t
      · subst e1; rw [hh] at this; exact absurd (Option.some.inj this).symm hbb
      · simp only [e1, if_false]; exact this

theorem step_startUnmap (h : Nat → Nat) (s : CSt) (t u th : Nat) (hi : Inv h s)
    (hpc : s.pc t = .idle) (ha : s.abs u = some th) (hb : s.busy u = false)
    (hng : ∀ t', getUnit (s.pc t') ≠ some u) :
    Inv h { s with abs := upd s.abs u none, busy := upd s.busy u true, pc := upd s.pc t (.uAcq u) } := by
  have hno : ∀ t', opUnit (s.pc t') ≠ some u := by
    intro t' ho
    have := (pcok_busy h s _ u (hi.pcs t') ho).1
    rw [hb] at this; cases this
  have hw := hi.g.abs_ok u th ha
  refine ⟨⟨hi.g.nid, hi.g.pub_lt, hi.g.head_pub, hi.g.head_max, hi.g.next_pub, hi.g.next_max, hi.g.wh_ok,
    hi.g.uniq, ?_, ?_⟩, ?_, ?_, ?_, ?_⟩
  · intro u' th' ha'
    have := hi.g.abs_ok u' th'
    grind [upd]
  · intro u' ha' hb'
    have := hi.g.free_ok u'
    grind [upd]
  · intro t'
    by_cases ht : t' = t
    · subst ht
      simp [upd, PcOK, hw.1]
    · have hp := hi.pcs t'
      have hn1 := hno t'
      have hn2 := hng t'
      simp only [upd, ht, if_false]
      cases hpc' : s.pc t' with
      | mRel u' th' ok =>
        cases ok <;> (rw [hpc'] at hp hn1 hn2; simp only [PcOK, opUnit, getUnit] at hp hn1 hn2 ⊢ <;> grind [upd])
      | _ => rw [hpc'] at hp hn1 hn2; simp only [PcOK, opUnit, getUnit] at hp hn1 hn2 ⊢ <;> grind [upd]
  · intro t1 t2 u' h1 h2
    simp only [upd] at h1 h2
    by_cases e1 : t1 = t <;> by_cases e2 : t2 = t
    · rw [e1, e2]
    · simp only [e1, e2, if_true, if_false, opUnit, Option.some.injEq] at h1 h2
      subst h1; exact absurd h2 (hno t2)
    · simp only [e1, e2, if_true, if_false, opUnit, Option.some.injEq] at h1 h2
      subst h2; exact absurd h1 (hno t1)
    · simp only [e1, e2, if_false] at h1 h2; exact hi.busy2 t1 t2 u' h1 h2
  · intro t1 b h1
    simp only [upd] at h1
    by_cases e1 : t1 = t
    · simp [e1, holds] at h1
    · simp only [e1, if_false] at h1; exact hi.lock1 t1 b h1
  · intro t1 b h1
    have := hi.lock2 t1 b h1
    simp only [upd]
    by_cases e1 : t1 = t
    · subst e1; rw [hpc] at this; simp [holds] at this
    · simp only [e1, if_false]; exact this

/-- every transition preserves the invariant -/
theorem inv_step (h : Nat → Nat) (s : CSt) (e : Nat × Act) (s' : CSt) (hi : Inv h s) (hs : Step h s e s') :
    Inv h s' := by
  cases hs with
  | startMap hpc hu ha hb => exact step_startMap h s _ _ _ hi hpc hu ha hb
  | @mAcq t u th hpc hlk =>
    have hp := hi.pcs t; rw [hpc] at hp
    exact step_acq h s t u (.mHead u th) hi hlk (by rw [hpc]; rfl) (by rw [hpc]; rfl) rfl hp
  | mSetUnit hpc => exact step_mSetUnit h s _ _ _ _ hi hpc
  | mSetThr hpc => exact step_mSetThr h s _ _ _ _ hi hpc
  | mAllocOk hpc => exact step_mAllocOk h s _ _ _ hi hpc
  | mPub hpc => exact step_mPub h s _ _ _ _ hi hpc
  | @mRel t u th ok hpc =>
    have hp := hi.pcs t; rw [hpc] at hp
    cases ok with
    | true =>
      simp only [PcOK] at hp
      exact step_rel h s t u (upd s.abs u (some th)) hi (by rw [hpc]; rfl) (by rw [hpc]; rfl)
        (fun u' hu => by simp [upd, hu]) (fun th' hx => by simp only [upd_same, Option.some.injEq] at hx; subst hx; exact ⟨hp.2.2.1, hp.2.2.2⟩)
        (fun hx => by simp at hx)
    | false =>
      simp only [PcOK] at hp
      exact step_rel h s t u s.abs hi (by rw [hpc]; rfl) (by rw [hpc]; rfl)
        (fun _ _ => rfl) (fun th' hx => by rw [hp.2.1] at hx; cases hx) (fun _ => hp.2.2)
  | startUnmap hpc ha hb hng => exact step_startUnmap h s _ _ _ hi hpc ha hb hng
  | @uAcq t u hpc hlk =>
    have hp := hi.pcs t; rw [hpc] at hp
    exact step_acq h s t u (.uHead u) hi hlk (by rw [hpc]; rfl) (by rw [hpc]; rfl) rfl hp
  | uClear hpc => exact step_uClear h s _ _ _ hi hpc
  | @uRel t u hpc =>
    have hp := hi.pcs t; rw [hpc] at hp; simp only [PcOK] at hp
    exact step_rel h s t u s.abs hi (by rw [hpc]; rfl) (by rw [hpc]; rfl)
      (fun _ _ => rfl) (fun th' hx => by rw [hp.2.1] at hx; cases hx) (fun _ => hp.2.2)
  | mHead hpc => exact step_frame h s _ _ hi (Step.mHead hpc) trivial
  | mScanEnd hpc => exact step_frame h s _ _ hi (Step.mScanEnd hpc) trivial
  | mScanTomb hpc a b => exact step_frame h s _ _ hi (Step.mScanTomb hpc a b) trivial
  | mScanUsed hpc a b => exact step_frame h s _ _ hi (Step.mScanUsed hpc a b) trivial
  | mNext hpc => exact step_frame h s _ _ hi (Step.mNext hpc) trivial
  | mAllocFail hpc => exact step_frame h s _ _ hi (Step.mAllocFail hpc) trivial
  | uHead hpc => exact step_frame h s _ _ hi (Step.uHead hpc) trivial
  | uScanHit hpc a b => exact step_frame h s _ _ hi (Step.uScanHit hpc a b) trivial
  | uScanMiss hpc a b => exact step_frame h s _ _ hi (Step.uScanMiss hpc a b) trivial
  | uNext hpc => exact step_frame h s _ _ hi (Step.uNext hpc) trivial
  | startGet hpc a => exact step_frame h s _ _ hi (Step.startGet hpc a) trivial
  | gHead hpc => exact step_frame h s _ _ hi (Step.gHead hpc) trivial
  | gScanHit hpc a b => exact step_frame h s _ _ hi (Step.gScanHit hpc a b) trivial
  | gScanMiss hpc a b => exact step_frame h s _ _ hi (Step.gScanMiss hpc a b) trivial
  | gNext hpc => exact step_frame h s _ _ hi (Step.gNext hpc) trivial
  | gThr hpc => exact step_frame h s _ _ hi (Step.gThr hpc) trivial
  | gRet hpc => exact step_frame h s _ _ hi (Step.gRet hpc) trivial

end ArgoVerif.Model.UnitMap
