import ArgoVerif.Model.HTable
/-
Proofs.HTable — the hashtable refines a finite map `Int → Option Val`.
-/
namespace ArgoVerif.Model.HTable

/-! ### chain lemmas -/

theorem chainGet_none_iff (k : Int) (c : List (Int × Val)) :
    chainGet k c = none ↔ k ∉ c.map Prod.fst := by
  induction c with
  | nil => simp [chainGet]
  | cons p r ih =>
    obtain ⟨k', v'⟩ := p
    by_cases h : k' = k
    · subst h; simp [chainGet]
    · simp only [chainGet, h, if_false, List.map_cons, List.mem_cons, not_or]
      constructor
      · intro hh; exact ⟨fun e => h e.symm, ih.mp hh⟩
      · intro hh; exact ih.mpr hh.2

theorem chainSet_get (k : Int) (v : Val) (c : List (Int × Val)) (k' : Int) :
    chainGet k' (chainSet k v c).1 = if k' = k then some v else chainGet k' c := by
  induction c with
  | nil =>
    by_cases h : k' = k
    · simp [chainSet, chainGet, h]
    · have : ¬ k = k' := fun e => h e.symm
      simp [chainSet, chainGet, h, this]
  | cons p r ih =>
    obtain ⟨k1, v1⟩ := p
    by_cases h1 : k1 = k
    · subst h1
      by_cases h : k' = k1
      · subst h; simp [chainSet, chainGet]
      · have : ¬ k1 = k' := fun e => h e.symm
        simp [chainSet, chainGet, h, this]
    · simp only [chainSet, h1, if_false, chainGet]
      by_cases h : k1 = k'
      · subst h
        have : ¬ k1 = k := h1
        simp [this]
      · simp only [h, if_false]; exact ih

theorem chainSet_snd (k : Int) (v : Val) (c : List (Int × Val)) :
    (chainSet k v c).2 = (chainGet k c).isSome := by
  induction c with
  | nil => simp [chainSet, chainGet]
  | cons p r ih =>
    obtain ⟨k1, v1⟩ := p
    by_cases h1 : k1 = k
    · simp [chainSet, chainGet, h1]
    · simp only [chainSet, h1, if_false, chainGet]; exact ih

theorem chainSet_keys (k : Int) (v : Val) (c : List (Int × Val)) :
    (chainSet k v c).1.map Prod.fst =
      if k ∈ c.map Prod.fst then c.map Prod.fst else c.map Prod.fst ++ [k] := by
  induction c with
  | nil => simp [chainSet]
  | cons p r ih =>
    obtain ⟨k1, v1⟩ := p
    by_cases h1 : k1 = k
    · subst h1; simp [chainSet]
    · have h2 : ¬ k = k1 := fun e => h1 e.symm
      simp only [chainSet, h1, if_false, List.map_cons, List.mem_cons, h2, false_or]
      rw [ih]
      split <;> simp

theorem chainDel_get (k : Int) (c : List (Int × Val)) (hnd : (c.map Prod.fst).Nodup) (k' : Int) :
    chainGet k' (chainDel k c).1 = if k' = k then none else chainGet k' c := by
  induction c with
  | nil => simp [chainDel, chainGet]
  | cons p r ih =>
    obtain ⟨k1, v1⟩ := p
    simp only [List.map_cons, List.nodup_cons] at hnd
    by_cases h1 : k1 = k
    · subst h1
      simp only [chainDel, if_true, chainGet]
      by_cases h : k' = k1
      · subst h
        simp only [if_true]
        exact (chainGet_none_iff _ _).mpr hnd.1
      · have : ¬ k1 = k' := fun e => h e.symm
        simp [h, this]
    · simp only [chainDel, h1, if_false, chainGet]
      by_cases h : k1 = k'
      · subst h
        have : ¬ k1 = k := h1
        simp [this]
      · simp only [h, if_false]; exact ih hnd.2

theorem chainDel_snd (k : Int) (c : List (Int × Val)) :
    (chainDel k c).2 = (chainGet k c).isSome := by
  induction c with
  | nil => simp [chainDel, chainGet]
  | cons p r ih =>
    obtain ⟨k1, v1⟩ := p
    by_cases h1 : k1 = k
    · simp [chainDel, chainGet, h1]
    · simp only [chainDel, h1, if_false, chainGet]; exact ih

theorem chainDel_keys_sub (k : Int) (c : List (Int × Val)) :
    ∀ x, x ∈ (chainDel k c).1.map Prod.fst → x ∈ c.map Prod.fst := by
  induction c with
  | nil => simp [chainDel]
  | cons p r ih =>
    obtain ⟨k1, v1⟩ := p
    by_cases h1 : k1 = k
    · simp only [chainDel, h1, if_true, List.map_cons, List.mem_cons]
      intro x hx; exact Or.inr hx
    · simp only [chainDel, h1, if_false, List.map_cons, List.mem_cons]
      intro x hx
      rcases hx with hx | hx
      · exact Or.inl hx
      · exact Or.inr (ih x hx)

theorem chainDel_nodup (k : Int) (c : List (Int × Val)) (hnd : (c.map Prod.fst).Nodup) :
    ((chainDel k c).1.map Prod.fst).Nodup := by
  induction c with
  | nil => simp [chainDel]
  | cons p r ih =>
    obtain ⟨k1, v1⟩ := p
    simp only [List.map_cons, List.nodup_cons] at hnd
    by_cases h1 : k1 = k
    · simp only [chainDel, h1, if_true]; exact hnd.2
    · simp only [chainDel, h1, if_false, List.map_cons, List.nodup_cons]
      exact ⟨fun hm => hnd.1 (chainDel_keys_sub k r k1 hm), ih hnd.2⟩

/-! ### bucket well-formedness -/

def Bucket.keys (bk : Bucket) : List Int :=
  (if bk.hasData then [bk.key] else []) ++ bk.chain.map Prod.fst

structure Bucket.WF (n i : Nat) (bk : Bucket) : Prop where
  nodup : bk.keys.Nodup
  home : ∀ k ∈ bk.keys, idx n k = i
  emptyChain : bk.hasData = false → bk.chain = []

theorem Bucket.get_none_of_not_mem (bk : Bucket) (k : Int) (h : k ∉ bk.keys) : bk.get k = none := by
  unfold Bucket.get
  unfold Bucket.keys at h
  cases hd : bk.hasData with
  | false => simp
  | true =>
    simp only [hd, if_true, List.cons_append, List.nil_append, List.mem_cons, not_or] at h
    have h1 : ¬ bk.key = k := fun e => h.1 e.symm
    simp only [Bool.not_true, Bool.false_eq_true, if_false, h1]
    exact (chainGet_none_iff _ _).mpr h.2

theorem Bucket.mem_keys_of_get (bk : Bucket) (k : Int) (v : Val) (h : bk.get k = some v) :
    k ∈ bk.keys := by
  apply Classical.byContradiction
  intro hn
  rw [Bucket.get_none_of_not_mem bk k hn] at h
  cases h

theorem Bucket.set_spec (n i : Nat) (bk : Bucket) (k : Int) (v : Val)
    (hw : bk.WF n i) (hk : idx n k = i) :
    (bk.set k v).1.WF n i ∧ (bk.set k v).2 = (bk.get k).isSome ∧
    ∀ k', (bk.set k v).1.get k' = if k' = k then some v else bk.get k' := by
  obtain ⟨hnd, hhome, hec⟩ := hw
  unfold Bucket.set Bucket.get
  cases hd : bk.hasData with
  | false =>
    have hc := hec hd
    simp only [Bool.not_false, if_true]
    refine ⟨⟨?_, ?_, ?_⟩, by simp, ?_⟩
    · simp [Bucket.keys, hc]
    · intro k1 hk1
      simp [Bucket.keys, hc] at hk1
      subst hk1; exact hk
    · simp
    · intro k'
      by_cases h : k' = k
      · subst h; simp
      · have : ¬ k = k' := fun e => h e.symm
        simp [h, this, hc, chainGet]
  | true =>
    simp only [Bool.not_true, Bool.false_eq_true, if_false]
    by_cases hkk : bk.key = k
    · subst hkk
      simp only [if_true]
      refine ⟨⟨?_, ?_, ?_⟩, by simp, ?_⟩
      · simpa [Bucket.keys, hd] using hnd
      · intro k1 hk1; apply hhome; simpa [Bucket.keys, hd] using hk1
      · simp [hd]
      · intro k'
        by_cases h : k' = bk.key
        · subst h; simp [hd]
        · have : ¬ bk.key = k' := fun e => h e.symm
          simp [hd, h, this]
    · simp only [hkk, if_false]
      have hks := chainSet_keys k v bk.chain
      have hgs := chainSet_get k v bk.chain
      have hss := chainSet_snd k v bk.chain
      generalize chainSet k v bk.chain = cs at hks hgs hss
      obtain ⟨c, o⟩ := cs
      simp only at hks hgs hss
      simp only [Bucket.keys, hd, if_true, List.cons_append, List.nil_append, List.nodup_cons,
        List.mem_cons] at hnd hhome
      refine ⟨⟨?_, ?_, ?_⟩, hss, ?_⟩
      · simp only [Bucket.keys, hd, if_true, List.cons_append, List.nil_append, List.nodup_cons]
        rw [hks]
        split
        · exact hnd
        · rename_i hnm
          refine ⟨?_, ?_⟩
          · simp only [List.mem_append, List.mem_singleton, not_or]
            exact ⟨hnd.1, hkk⟩
          · rw [List.nodup_append]
            refine ⟨hnd.2, by simp, ?_⟩
            intro a ha b hb
            simp only [List.mem_singleton] at hb
            subst hb
            intro e; subst e; exact hnm ha
      · intro k1 hk1
        simp only [Bucket.keys, hd, if_true, List.cons_append, List.nil_append, List.mem_cons] at hk1
        rw [hks] at hk1
        rcases hk1 with hk1 | hk1
        · exact hhome k1 (Or.inl hk1)
        · split at hk1
          · exact hhome k1 (Or.inr hk1)
          · simp only [List.mem_append, List.mem_singleton] at hk1
            rcases hk1 with hk1 | hk1
            · exact hhome k1 (Or.inr hk1)
            · subst hk1; exact hk
      · simp [hd]
      · intro k'
        simp only [hd, Bool.not_true, Bool.false_eq_true, if_false]
        by_cases h : bk.key = k'
        · have : ¬ k' = k := fun e => hkk (h.trans e)
          simp [h, this]
        · simp only [h, if_false]; exact hgs k'

theorem Bucket.delete_spec (n i : Nat) (bk : Bucket) (k : Int) (hw : bk.WF n i) :
    (bk.delete k).1.WF n i ∧
    ((bk.delete k).2 = some (bk.get k).isSome ∨ ((bk.delete k).2 = none ∧ bk.get k = none)) ∧
    ∀ k', (bk.delete k).1.get k' = if k' = k then none else bk.get k' := by
  obtain ⟨hnd, hhome, hec⟩ := hw
  unfold Bucket.delete Bucket.get
  cases hd : bk.hasData with
  | false =>
    simp only [Bool.not_false, if_true]
    refine ⟨⟨hnd, hhome, hec⟩, Or.inl (by simp), ?_⟩
    intro k'; simp [Bucket.get, hd]
  | true =>
    simp only [Bool.not_true, Bool.false_eq_true, if_false]
    simp only [Bucket.keys, hd, if_true, List.cons_append, List.nil_append, List.nodup_cons,
      List.mem_cons] at hnd hhome
    by_cases hkk : bk.key = k
    · simp only [hkk, if_true]
      cases hc : bk.chain with
      | nil =>
        simp only
        refine ⟨⟨by simp [Bucket.keys, hc], by simp [Bucket.keys, hc], by simp [hc]⟩,
          Or.inl (by simp), ?_⟩
        intro k'
        by_cases h : k' = k
        · simp [Bucket.get, h]
        · have : ¬ k = k' := fun e => h e.symm
          simp [Bucket.get, h, this, chainGet]
      | cons p r =>
        obtain ⟨k1, v1⟩ := p
        simp only [hc, List.map_cons, List.mem_cons, List.nodup_cons, not_or] at hnd hhome
        refine ⟨⟨?_, ?_, by simp [hd]⟩, Or.inl (by simp), ?_⟩
        · simp only [Bucket.keys, hd, if_true, List.cons_append, List.nil_append, List.nodup_cons]
          exact hnd.2
        · intro k2 hk2
          simp only [Bucket.keys, hd, if_true, List.cons_append, List.nil_append, List.mem_cons] at hk2
          apply hhome
          rcases hk2 with hk2 | hk2
          · exact Or.inr (Or.inl hk2)
          · exact Or.inr (Or.inr hk2)
        · intro k'
          simp only [Bucket.get, hd, Bool.not_true, Bool.false_eq_true, if_false]
          by_cases h : k' = k
          · subst h
            have h1 : ¬ k1 = k' := by
              intro e; apply hnd.1.1; rw [hkk, e]
            simp only [h1, if_false, if_true]
            apply (chainGet_none_iff _ _).mpr
            intro hm; apply hnd.1.2; rw [hkk]; exact hm
          · have h2 : ¬ k = k' := fun e => h e.symm
            simp only [h, if_false, h2, chainGet]
    · simp only [hkk, if_false]
      cases hc : bk.chain with
      | nil =>
        simp only
        refine ⟨⟨by simpa [Bucket.keys, hd, hc] using hnd, ?_, by simp [hd]⟩,
          Or.inr ⟨by simp, by simp [chainGet]⟩, ?_⟩
        · intro k1 hk1; apply hhome; simpa [Bucket.keys, hd, hc] using hk1
        · intro k'
          simp only [Bucket.get, hd, Bool.not_true, Bool.false_eq_true, if_false, hc, chainGet]
          by_cases h : k' = k
          · subst h; simp [hkk]
          · simp [h]
      | cons p r =>
        simp only
        have hndc : (bk.chain.map Prod.fst).Nodup := hnd.2
        rw [hc] at hndc
        have hdg := chainDel_get k (p :: r) hndc
        have hds := chainDel_snd k (p :: r)
        have hdk := chainDel_keys_sub k (p :: r)
        have hdn := chainDel_nodup k (p :: r) hndc
        generalize chainDel k (p :: r) = cd at hdg hds hdk hdn
        obtain ⟨c', d⟩ := cd
        simp only at hdg hds hdk hdn
        rw [hc] at hnd hhome
        refine ⟨⟨?_, ?_, by simp [hd]⟩, Or.inl (by simp [hds]), ?_⟩
        · simp only [Bucket.keys, hd, if_true, List.cons_append, List.nil_append, List.nodup_cons]
          exact ⟨fun hm => hnd.1 (hdk _ hm), hdn⟩
        · intro k2 hk2
          simp only [Bucket.keys, hd, if_true, List.cons_append, List.nil_append, List.mem_cons] at hk2
          apply hhome
          rcases hk2 with hk2 | hk2
          · exact Or.inl hk2
          · exact Or.inr (hdk _ hk2)
        · intro k'
          simp only [Bucket.get, hd, Bool.not_true, Bool.false_eq_true, if_false]
          by_cases h : bk.key = k'
          · have : ¬ k' = k := fun e => hkk (h.trans e)
            simp [h, this]
          · simp only [h, if_false]; exact hdg k'

/-! ### table level -/

def WF (h : HT) : Prop := 0 < h.n ∧ ∀ i, (h.b i).WF h.n i

theorem idx_lt (n : Nat) (hn : 0 < n) (k : Int) : idx n k < n := by
  unfold idx
  have h1 := Int.tmod_lt_of_pos k (show (0 : Int) < n by omega)
  have h2 : -(n : Int) < Int.tmod k n := by
    have := Int.lt_tmod_of_pos k (show (0 : Int) < n by omega)
    exact this
  simp only
  split <;> omega

theorem create_wf (n : Nat) (hn : 0 < n) : WF (create n) := by
  refine ⟨hn, fun i => ⟨?_, ?_, ?_⟩⟩ <;> simp [create, emptyBucket, Bucket.keys]

theorem create_get (n : Nat) (k : Int) : get (create n) k = none := by
  simp [get, create, emptyBucket, Bucket.get]

theorem get_other_bucket (h : HT) (hw : WF h) (i : Nat) (k : Int) (hne : idx h.n k ≠ i) :
    (h.b i).get k = none := by
  apply Bucket.get_none_of_not_mem
  intro hm
  exact hne ((hw.2 i).home k hm)

theorem set_spec (h : HT) (k : Int) (v : Val) (hw : WF h) :
    WF (set h k v).1 ∧ (set h k v).2 = (get h k).isSome ∧
    ∀ k', get (set h k v).1 k' = if k' = k then some v else get h k' := by
  have hb := Bucket.set_spec h.n (idx h.n k) (h.b (idx h.n k)) k v (hw.2 _) rfl
  unfold set get
  simp only
  generalize (h.b (idx h.n k)).set k v = r at hb
  obtain ⟨bk, o⟩ := r
  simp only at hb ⊢
  refine ⟨⟨hw.1, ?_⟩, hb.2.1, ?_⟩
  · intro i
    by_cases hi : i = idx h.n k
    · subst hi; simpa [updB] using hb.1
    · simpa [updB, hi] using hw.2 i
  · intro k'
    by_cases hi : idx h.n k' = idx h.n k
    · simp only [updB, hi, if_true]; exact hb.2.2 k'
    · have hne : ¬ k' = k := fun e => hi (by rw [e])
      simp [updB, hi, hne]

theorem delete_spec (h : HT) (k : Int) (hw : WF h) :
    WF (delete h k).1 ∧
    ((delete h k).2 = some (get h k).isSome ∨ ((delete h k).2 = none ∧ get h k = none)) ∧
    ∀ k', get (delete h k).1 k' = if k' = k then none else get h k' := by
  have hb := Bucket.delete_spec h.n (idx h.n k) (h.b (idx h.n k)) k (hw.2 _)
  unfold delete get
  simp only
  generalize (h.b (idx h.n k)).delete k = r at hb
  obtain ⟨bk, d⟩ := r
  simp only at hb ⊢
  refine ⟨⟨hw.1, ?_⟩, hb.2.1, ?_⟩
  · intro i
    by_cases hi : i = idx h.n k
    · subst hi; simpa [updB] using hb.1
    · simpa [updB, hi] using hw.2 i
  · intro k'
    by_cases hi : idx h.n k' = idx h.n k
    · simp only [updB, hi, if_true]; exact hb.2.2 k'
    · have hne : ¬ k' = k := fun e => hi (by rw [e])
      simp [updB, hi, hne]

end ArgoVerif.Model.HTable
