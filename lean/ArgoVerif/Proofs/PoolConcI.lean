import ArgoVerif.Proofs.PoolConcF
/- Proofs.PoolConcI — second invariant: one API-level push_many / pop_many is one atomic multi-unit operation.
`contig`: while a push call is inside its critical section the content is what it found there plus, contiguously and in
array order, the units it has pushed so far; `taken`: for a pop call the content it found is what it has taken so far
plus what is left.  Together with mutual exclusion (`Inv.csOwner`) nobody else acts on the ring in between. -/
namespace ArgoVerif.Model.PoolConc
open ArgoVerif ArgoVerif.Model.TQ
set_option maxHeartbeats 1000000

def isPushLike : Call → Bool
  | .push _ _ | .pushMany _ _ => true
  | _ => false

def unitsOf : Call → List Nat
  | .push u _ => [u]
  | .pushMany us _ => us
  | _ => []

/-- the unit linked but not yet linearised -/
def pending (s : St) (a : Actor) : List Nat := if s.pc a = .pub ∨ s.pc a = .setIn then [s.pu a] else []

/-- before the critical section of a push -/
def PrePush : Pc → Prop
  | .pmCb | .sAcq | .sSpin | .mLock => True
  | _ => False

/-- program counters of a pop-like call at which it has taken nothing yet -/
def PreGot : Pc → Prop
  | .aTop | .aTry | .aSpinE | .aSpinL | .mLock | .fChk | .wChk | .wWait | .wSleep | .wRelock | .wIdle => True
  | _ => False

structure Inv2 (s : St) : Prop where
  batch : ∀ a, isPushLike (s.cur a) = true → s.pc a ≠ .idle → unitsOf (s.cur a) = s.done a ++ pending s a ++ s.todo a
  contig : ∀ a, InCS (s.pc a) → isPushLike (s.cur a) = true →
    s.q = if headOf (s.cur a) then (s.done a).reverse ++ s.base a else s.base a ++ s.done a
  taken : ∀ a, InCS (s.pc a) → isPopLike (s.cur a) = true →
    s.base a = if tailOf (s.cur a) then s.q ++ (s.got a).reverse else s.got a ++ s.q
  fin : ∀ a, isPushLike (s.cur a) = true → (s.pc a = .sig ∨ s.pc a = .rel ∨ s.pc a = .retp) → s.todo a = []
  pre : ∀ a, isPushLike (s.cur a) = true → PrePush (s.pc a) → s.done a = [] ∧ s.todo a = unitsOf (s.cur a)
  preGot : ∀ a, isPopLike (s.cur a) = true → PreGot (s.pc a) → s.got a = []
  spinPc : ∀ a, (s.pc a = .sAcq ∨ s.pc a = .sSpin) → isPopLike (s.cur a) = false
  popSide : ∀ a, (s.pc a = .pubE ∨ s.pc a = .clrIn) → isPushLike (s.cur a) = false

theorem inv2_init : Inv2 init := by
  constructor <;> simp [init, InCS, isPushLike, isPopLike, PreGot]

theorem pushlike_not_poplike {c : Call} (h : isPushLike c = true) : isPopLike c = false := by
  cases c <;> simp_all [isPushLike, isPopLike]

theorem poplike_not_pushlike {c : Call} (h : isPopLike c = true) : isPushLike c = false := by
  cases c <;> simp_all [isPushLike, isPopLike]

theorem remove_not_pushlike {c : Call} (h : isRemove c = true) : isPushLike c = false := by
  cases c <;> simp_all [isPushLike, isRemove]

/-- **one actor steps** (second invariant) -/
theorem inv2_update {cfg : Cfg} {s s' : St} {a : Actor} (hi : Inv cfg s) (h : Inv2 s)
    (opc : ∀ b, b ≠ a → s'.pc b = s.pc b) (ocur : ∀ b, b ≠ a → s'.cur b = s.cur b) (odone : ∀ b, b ≠ a → s'.done b = s.done b)
    (obase : ∀ b, b ≠ a → s'.base b = s.base b) (otodo : ∀ b, b ≠ a → s'.todo b = s.todo b)
    (opu : ∀ b, b ≠ a → s'.pu b = s.pu b) (ogot : ∀ b, b ≠ a → s'.got b = s.got b)
    (hq : s'.q = s.q ∨ s.owner = some a)
    (a1 : isPushLike (s'.cur a) = true → s'.pc a ≠ .idle → unitsOf (s'.cur a) = s'.done a ++ pending s' a ++ s'.todo a)
    (a2 : InCS (s'.pc a) → isPushLike (s'.cur a) = true →
      s'.q = if headOf (s'.cur a) then (s'.done a).reverse ++ s'.base a else s'.base a ++ s'.done a)
    (a3 : InCS (s'.pc a) → isPopLike (s'.cur a) = true →
      s'.base a = if tailOf (s'.cur a) then s'.q ++ (s'.got a).reverse else s'.got a ++ s'.q)
    (a4 : isPushLike (s'.cur a) = true → (s'.pc a = .sig ∨ s'.pc a = .rel ∨ s'.pc a = .retp) → s'.todo a = [])
    (a5 : isPushLike (s'.cur a) = true → PrePush (s'.pc a) → s'.done a = [] ∧ s'.todo a = unitsOf (s'.cur a))
    (a6 : isPopLike (s'.cur a) = true → PreGot (s'.pc a) → s'.got a = [])
    (a7 : (s'.pc a = .sAcq ∨ s'.pc a = .sSpin) → isPopLike (s'.cur a) = false)
    (a8 : (s'.pc a = .pubE ∨ s'.pc a = .clrIn) → isPushLike (s'.cur a) = false) :
    Inv2 s' := by
  have qsame : ∀ b, b ≠ a → InCS (s.pc b) → s'.q = s.q := by
    intro b hb hcs
    cases hq with
    | inl e => exact e
    | inr e => have := hi.csOwner b hcs; rw [e] at this; exact absurd (Option.some.inj this).symm hb
  constructor
  · intro b; by_cases hb : b = a
    · subst hb; exact a1
    · have : pending s' b = pending s b := by simp [pending, opc b hb, opu b hb]
      rw [opc b hb, ocur b hb, odone b hb, otodo b hb, this]; exact h.batch b
  · intro b; by_cases hb : b = a
    · subst hb; exact a2
    · rw [opc b hb, ocur b hb, odone b hb, obase b hb]; intro hc; rw [qsame b hb hc]; exact h.contig b hc
  · intro b; by_cases hb : b = a
    · subst hb; exact a3
    · rw [opc b hb, ocur b hb, ogot b hb, obase b hb]; intro hc; rw [qsame b hb hc]; exact h.taken b hc
  · intro b; by_cases hb : b = a
    · subst hb; exact a4
    · rw [opc b hb, ocur b hb, otodo b hb]; exact h.fin b
  · intro b; by_cases hb : b = a
    · subst hb; exact a5
    · rw [opc b hb, ocur b hb, otodo b hb, odone b hb]; exact h.pre b
  · intro b; by_cases hb : b = a
    · subst hb; exact a6
    · rw [opc b hb, ocur b hb, ogot b hb]; exact h.preGot b
  · intro b; by_cases hb : b = a
    · subst hb; exact a7
    · rw [opc b hb, ocur b hb]; exact h.spinPc b
  · intro b; by_cases hb : b = a
    · subst hb; exact a8
    · rw [opc b hb, ocur b hb]; exact h.popSide b

/-- a step that only moves `a`'s program counter from `p0` to `p` -/
theorem inv2_frame {cfg : Cfg} {s s' : St} {a : Actor} {p : Pc} (hi : Inv cfg s) (h : Inv2 s)
    (hpc : s'.pc = upd s.pc a p) (hq : s'.q = s.q) (hcur : s'.cur = s.cur) (hdone : s'.done = s.done)
    (hbase : s'.base = s.base) (htodo : s'.todo = s.todo) (hpu : s'.pu = s.pu) (hgot : s'.got = s.got)
    (hnidle : s.pc a ≠ .idle)
    (c1 : (p = .pub ∨ p = .setIn) ↔ (s.pc a = .pub ∨ s.pc a = .setIn))
    (c2 : InCS p → InCS (s.pc a))
    (c3 : isPushLike (s.cur a) = true → (p = .sig ∨ p = .rel ∨ p = .retp) → s.todo a = [])
    (c4 : isPushLike (s.cur a) = true → PrePush p → PrePush (s.pc a))
    (c5 : isPopLike (s.cur a) = true → PreGot p → s.got a = [])
    (c6 : (p = .sAcq ∨ p = .sSpin) → isPopLike (s.cur a) = false)
    (c7 : (p = .pubE ∨ p = .clrIn) → isPushLike (s.cur a) = false) :
    Inv2 s' := by
  apply inv2_update hi h (a := a)
  case opc => intro b hb; simp [hpc, upd, hb]
  case ocur => intro b _; rw [hcur]
  case odone => intro b _; rw [hdone]
  case obase => intro b _; rw [hbase]
  case otodo => intro b _; rw [htodo]
  case opu => intro b _; rw [hpu]
  case ogot => intro b _; rw [hgot]
  case hq => exact Or.inl hq
  case a1 =>
    intro hp _
    have hpend : pending s' a = pending s a := by
      simp only [pending, hpc, hpu, upd, if_true]
      by_cases hc : p = .pub ∨ p = .setIn
      · simp [hc, c1.mp hc]
      · have : ¬ (s.pc a = .pub ∨ s.pc a = .setIn) := fun e => hc (c1.mpr e)
        simp [hc, this]
    rw [hcur, hdone, htodo, hpend]; rw [hcur] at hp; exact h.batch a hp hnidle
  case a2 =>
    rw [hpc, hcur, hq, hdone, hbase]; simp only [upd, if_true]
    intro hc; exact h.contig a (c2 hc)
  case a3 =>
    rw [hpc, hcur, hq, hgot, hbase]; simp only [upd, if_true]
    intro hc; exact h.taken a (c2 hc)
  case a4 => rw [hpc, hcur, htodo]; simpa [upd] using c3
  case a5 =>
    rw [hpc, hcur, htodo, hdone]; simp only [upd, if_true]
    intro hp hpp; exact h.pre a hp (c4 hp hpp)
  case a6 => rw [hpc, hcur, hgot]; simpa [upd] using c5
  case a7 => rw [hpc, hcur]; simpa [upd] using c6
  case a8 => rw [hpc, hcur]; simpa [upd] using c7

end ArgoVerif.Model.PoolConc
