import ArgoVerif.Proofs.KTableConc
import ArgoVerif.Proofs.KTableRaceT
/-
Proofs.KTableConcT — table / history invariant of the concurrent set/get model: definitions,
frame lemma and the steps that do not touch the chains.
-/
namespace ArgoVerif.Model.KTableConc
open ArgoVerif ArgoVerif.Model.KTable

/-- key ids of the chain that key id `kid` selects -/
def ks (c : Cfg) (tb : Table) (kid : Nat) : List Nat := (tb.b (idx c.size kid)).map (·.keyId)

def scanOf : Pc → Option (Nat × Nat)
  | .walk k _ _ j | .acq k _ j | .lwalk k _ _ j => some (k.id, j)
  | .gwalk kid _ j => some (kid, j)
  | _ => none

def foundOf : Pc → Option (Nat × Nat)
  | .found k _ j | .lfound k _ j => some (k.id, j)
  | .gread kid _ j => some (kid, j)
  | _ => none

def pubOf : Pc → Option (Nat × Nat)
  | .pub k _ _ j _ => some (k.id, j)
  | _ => none

def keyOfPc : Pc → Option Key
  | .walk k _ _ _ | .acq k _ _ | .lwalk k _ _ _ | .pub k _ _ _ _ | .found k _ _ | .lfound k _ _ => some k
  | _ => none

def getH0 : Pc → Option (Nat × Nat)
  | .gwalk kid h0 _ | .gread kid h0 _ => some (kid, h0)
  | _ => none

structure TInv (c : Cfg) (s : St) : Prop where
  size : s.tbl.size = c.size
  idx : ∀ i e, e ∈ s.tbl.b i → idx c.size e.keyId = i
  nodup : ∀ i, ((s.tbl.b i).map (·.keyId)).Nodup
  dtor : ∀ i e, e ∈ s.tbl.b i → e.dtor = c.kd e.keyId
  hval : ∀ i e, e ∈ s.tbl.b i → (s.hist e.keyId).getLast? = some e.val
  habs : ∀ k, k ∉ ks c s.tbl k → s.hist k = []
  kdt : ∀ a k, keyOfPc (s.pc a) = some k → k.dtor = c.kd k.id
  scan : ∀ a kid j, scanOf (s.pc a) = some (kid, j) →
    j ≤ (ks c s.tbl kid).length ∧ ∀ i, i < j → (ks c s.tbl kid)[i]? ≠ some kid
  pubc : ∀ a kid j, pubOf (s.pc a) = some (kid, j) → j = (ks c s.tbl kid).length ∧ kid ∉ ks c s.tbl kid
  found : ∀ a kid j, foundOf (s.pc a) = some (kid, j) → (ks c s.tbl kid)[j]? = some kid
  gh0 : ∀ a kid h0, getH0 (s.pc a) = some (kid, h0) → h0 ≤ (s.hist kid).length
  gret : ∀ a kid h0 r hr, s.pc a = .gret kid h0 r hr →
    (hr = 0 ∧ r = 0 ∧ h0 = 0) ∨ (h0 ≤ hr ∧ 1 ≤ hr ∧ (s.hist kid)[hr - 1]? = some r)

theorem tinv_init (c : Cfg) : TInv c (init c) := by
  constructor <;> simp [init, createOk_size, createOk_b, ks, scanOf, foundOf, pubOf, keyOfPc, getH0]

/-- steps that leave table and history alone and move only actor `a` -/
theorem tinv_frame (c : Cfg) (s s' : St) (a : Actor) (pc' : Pc) (h : TInv c s)
    (htbl : s'.tbl = s.tbl) (hhist : s'.hist = s.hist) (hpc : s'.pc = upd s.pc a pc')
    (hkdt : ∀ k, keyOfPc pc' = some k → k.dtor = c.kd k.id)
    (hscan : ∀ kid j, scanOf pc' = some (kid, j) →
      j ≤ (ks c s.tbl kid).length ∧ ∀ i, i < j → (ks c s.tbl kid)[i]? ≠ some kid)
    (hpub : ∀ kid j, pubOf pc' = some (kid, j) → j = (ks c s.tbl kid).length ∧ kid ∉ ks c s.tbl kid)
    (hfound : ∀ kid j, foundOf pc' = some (kid, j) → (ks c s.tbl kid)[j]? = some kid)
    (hgh0 : ∀ kid h0, getH0 pc' = some (kid, h0) → h0 ≤ (s.hist kid).length)
    (hgret : ∀ kid h0 r hr, pc' = .gret kid h0 r hr →
      (hr = 0 ∧ r = 0 ∧ h0 = 0) ∨ (h0 ≤ hr ∧ 1 ≤ hr ∧ (s.hist kid)[hr - 1]? = some r)) :
    TInv c s' := by
  have hp : ∀ a', a' ≠ a → s'.pc a' = s.pc a' := by intro a' ha; rw [hpc]; simp [upd, ha]
  have hpa : s'.pc a = pc' := by rw [hpc]; simp [upd]
  constructor
  · rw [htbl]; exact h.size
  · rw [htbl]; exact h.idx
  · rw [htbl]; exact h.nodup
  · rw [htbl]; exact h.dtor
  · rw [htbl, hhist]; exact h.hval
  · rw [htbl, hhist]; exact h.habs
  · intro a' k hk
    by_cases ha : a' = a
    · subst ha; rw [hpa] at hk; exact hkdt k hk
    · rw [hp a' ha] at hk; exact h.kdt a' k hk
  · intro a' kid j hk
    rw [htbl]
    by_cases ha : a' = a
    · subst ha; rw [hpa] at hk; exact hscan kid j hk
    · rw [hp a' ha] at hk; exact h.scan a' kid j hk
  · intro a' kid j hk
    rw [htbl]
    by_cases ha : a' = a
    · subst ha; rw [hpa] at hk; exact hpub kid j hk
    · rw [hp a' ha] at hk; exact h.pubc a' kid j hk
  · intro a' kid j hk
    rw [htbl]
    by_cases ha : a' = a
    · subst ha; rw [hpa] at hk; exact hfound kid j hk
    · rw [hp a' ha] at hk; exact h.found a' kid j hk
  · intro a' kid h0 hk
    rw [hhist]
    by_cases ha : a' = a
    · subst ha; rw [hpa] at hk; exact hgh0 kid h0 hk
    · rw [hp a' ha] at hk; exact h.gh0 a' kid h0 hk
  · intro a' kid h0 r hr hk
    rw [hhist]
    by_cases ha : a' = a
    · subst ha; rw [hpa] at hk; exact hgret kid h0 r hr hk
    · rw [hp a' ha] at hk; exact h.gret a' kid h0 r hr hk

theorem ks_chain (c : Cfg) (s : St) (kid : Nat) : ks c s.tbl kid = (chain c s kid).map (·.keyId) := rfl

theorem ks_setChain (c : Cfg) (s : St) (kid : Nat) (l : List Elem) (kid' : Nat) :
    ks c (setChain c s kid l) kid' =
      if idx c.size kid' = idx c.size kid then l.map (·.keyId) else ks c s.tbl kid' := by
  simp only [ks, setChain, updB]
  split <;> rfl

theorem lt_of_getElem?_some {α : Type} (l : List α) (j : Nat) (x : α) (h : l[j]? = some x) : j < l.length := by
  rcases Nat.lt_or_ge j l.length with hh | hh
  · exact hh
  · rw [List.getElem?_eq_none hh] at h; cases h

/-- advancing a walk past an element with another key -/
theorem scan_next (l : List Nat) (kid j k' : Nat) (hj : l[j]? = some k') (hne : k' ≠ kid)
    (hs : j ≤ l.length ∧ ∀ i, i < j → l[i]? ≠ some kid) :
    j + 1 ≤ l.length ∧ ∀ i, i < j + 1 → l[i]? ≠ some kid := by
  refine ⟨lt_of_getElem?_some l j k' hj, ?_⟩
  intro i hi
  rcases Nat.lt_or_ge i j with h1 | h1
  · exact hs.2 i h1
  · have : i = j := by omega
    subst this; rw [hj]; intro hx; exact hne (Option.some.inj hx)

/-- the only actor that can be about to publish: it holds the table lock or the table is private to it -/
theorem pub_unique (s : St) (hp : PInv s) (a a' : Actor) (x y : Nat × Nat)
    (h1 : pubOf (s.pc a) = some x) (h2 : pubOf (s.pc a') = some y) : a = a' := by
  cases hpa : s.pc a with
  | pub k v sf j blk =>
    cases hpa' : s.pc a' with
    | pub k' v' sf' j' blk' =>
      cases sf with
      | true =>
        have l1 := hp.lock1 a (by rw [hpa]; rfl)
        cases sf' with
        | true =>
          have l2 := hp.lock1 a' (by rw [hpa']; rfl)
          rw [l1] at l2; exact Option.some.inj l2
        | false =>
          have p2 := hp.priv1 a' (by rw [hpa']; rfl)
          apply Classical.byContradiction; intro hne
          have := hp.priv2 a' a p2 hne
          rw [hpa] at this; cases this
      | false =>
        have p1 := hp.priv1 a (by rw [hpa]; rfl)
        apply Classical.byContradiction; intro hne
        have := hp.priv2 a a' p1 (fun h => hne h.symm)
        rw [hpa'] at this; cases this
    | _ => rw [hpa'] at h2; simp [pubOf] at h2
  | _ => rw [hpa] at h1; simp [pubOf] at h1

end ArgoVerif.Model.KTableConc
