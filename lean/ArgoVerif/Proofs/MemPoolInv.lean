import ArgoVerif.Proofs.MemPoolSeg
/-
Proofs.MemPoolInv — the invariant of Model.MemPool and its preservation by the global-pool
primitives `returnBucket` and `returnPartial`.
-/
namespace ArgoVerif.Model.MemPool
open ArgoVerif

/-- geometry of carving: every carved header lies below its page's `p_mem_extra`, inside the
page's usable area; distinct carved headers of one page do not overlap; pages on
`mem_page_lifo` have room for at least one header -/
structure Geo (P : Params) (s : St) : Prop where
  pgIn : ∀ x, s.own x ≠ .unused → x.1 < s.npages ∧ x.2 + P.headerSize ≤ (s.pages x.1).extraOff
  pgSum : ∀ p, p < s.npages → (s.pages p).extraOff + (s.pages p).extraSize = P.pageSize - P.pageStruct
  pgLifo : ∀ p, p ∈ s.pageLifo → p < s.npages ∧ P.headerSize ≤ (s.pages p).extraSize
  pgLifoNd : s.pageLifo.Nodup
  sep : ∀ x y, s.own x ≠ .unused → s.own y ≠ .unused → x.1 = y.1 → x ≠ y →
          x.2 + P.headerSize ≤ y.2 ∨ y.2 + P.headerSize ≤ x.2
  offDvd : ∀ x, s.own x ≠ .unused → P.headerSize ∣ x.2
  pgDvd : ∀ p, p < s.npages → P.headerSize ∣ (s.pages p).extraOff

theorem Geo.congr {P : Params} {s s' : St} (h : Geo P s)
    (ho : ∀ x, s'.own x = .unused ↔ s.own x = .unused) (hp : s'.pages = s.pages)
    (hn : s'.npages = s.npages) (hl : s'.pageLifo = s.pageLifo) : Geo P s' := by
  constructor
  · intro x hx; rw [hp, hn]; exact h.pgIn x (by rwa [ne_eq, ← ho])
  · intro p hp'; rw [hp]; exact h.pgSum p (by rwa [← hn])
  · intro p hp'; rw [hp, hn]; exact h.pgLifo p (by rwa [← hl])
  · rw [hl]; exact h.pgLifoNd
  · intro x y hx hy; exact h.sep x y (by rwa [ne_eq, ← ho]) (by rwa [ne_eq, ← ho])
  · intro x hx; exact h.offDvd x (by rwa [ne_eq, ← ho])
  · intro p hp'; rw [hp]; exact h.pgDvd p (by rwa [← hn])

/-- The invariant.  `th`/`tn`: the bucket in flight (head, number of headers), `lo i`: buckets
`0 .. lo i - 1` of local pool `i` have already been detached by the operation in progress.
Between operations `th = none` and `lo = fun _ => 0`. -/
structure InvG (P : Params) (s : St) (th : Option Hdr) (tn : Nat) (lo : Nat → Nat) : Prop where
  lpBidx : ∀ i lp, s.lp i = some lp → lp.bidx < P.maxLocal
  lpB : ∀ i lp j, s.lp i = some lp → lo i ≤ j → j ≤ lp.bidx →
          IsBucket s.next s.own (lp.buckets j) (s.cnt (lp.buckets j)) (.loc i j) ∧
          1 ≤ s.cnt (lp.buckets j) ∧ s.cnt (lp.buckets j) ≤ P.perBucket ∧
          (j < lp.bidx → s.cnt (lp.buckets j) = P.perBucket)
  locOwn : ∀ x i j, s.own x = .loc i j → ∃ lp, s.lp i = some lp ∧ lo i ≤ j ∧ j ≤ lp.bidx
  lifoB : ∀ b, b ∈ s.lifo → IsBucket s.next s.own b P.perBucket (.lifo b)
  lifoNd : s.lifo.Nodup
  lifoOwn : ∀ x b, s.own x = .lifo b → b ∈ s.lifo
  partB : ∀ p, s.part = some p →
          IsBucket s.next s.own p (s.cnt p) .part ∧ 1 ≤ s.cnt p ∧ s.cnt p < P.perBucket
  partOwn : s.part = none → ∀ x, s.own x ≠ .part
  tmpB : ∀ h, th = some h → IsBucket s.next s.own h tn .tmp ∧ 1 ≤ tn ∧ tn ≤ P.perBucket
  tmpOwn : th = none → ∀ x, s.own x ≠ .tmp
  outOwn : ∀ x, x ∈ s.out ↔ s.own x = .out
  outNd : s.out.Nodup
  carvedOwn : ∀ x, x ∈ s.carved ↔ s.own x ≠ .unused
  carvedNd : s.carved.Nodup
  geo : Geo P s

/-- the invariant between operations -/
def Inv (P : Params) (s : St) : Prop := InvG P s none 0 (fun _ => 0)

theorem InvG.perBucket_pos {P s th tn lo} (_h : InvG P s th tn lo) (hP : P.OK) : 0 < P.perBucket := hP.perBucket_pos

/-- `lo` only matters for pools that exist -/
theorem InvG.relo {P : Params} {s : St} {th : Option Hdr} {tn : Nat} {lo lo' : Nat → Nat} (h : InvG P s th tn lo)
    (he : ∀ i lp, s.lp i = some lp → lo' i = lo i) : InvG P s th tn lo' := by
  refine { h with lpB := ?_, locOwn := ?_ }
  · intro i lp j hlp; rw [he i lp hlp]; exact h.lpB i lp j hlp
  · intro x i j hx
    obtain ⟨lp, h1, h2⟩ := h.locOwn x i j hx
    exact ⟨lp, h1, by rw [he i lp h1]; exact h2⟩

/-- the head of the bucket in flight is labelled `tmp` -/
theorem InvG.tmp_head {P : Params} {s : St} {b : Hdr} {tn : Nat} {lo : Nat → Nat} (h : InvG P s (some b) tn lo) :
    s.own b = .tmp := by
  obtain ⟨hb, h1, _⟩ := h.tmpB b rfl
  exact hb.head_own h1

theorem InvG.tmp_not_lifo {P : Params} {s : St} {b : Hdr} {tn : Nat} {lo : Nat → Nat} (h : InvG P s (some b) tn lo)
    (hP : P.OK) : b ∉ s.lifo := by
  intro hm
  have := (h.lifoB b hm).head_own hP.perBucket_pos
  rw [h.tmp_head] at this
  cases this

/-- **`ABTI_mem_pool_return_bucket`** of the (full) bucket in flight -/
theorem returnBucket_inv {P : Params} {s : St} {b : Hdr} {lo : Nat → Nat} (hP : P.OK)
    (h : InvG P s (some b) P.perBucket lo) : InvG P (returnBucket s b) none 0 lo := by
  have hb := h.tmp_head
  have hnl := h.tmp_not_lifo hP
  have hown : ∀ x o, o ≠ Owner.tmp → (∀ b', o ≠ .lifo b') → (relabel s.own .tmp (.lifo b) x = o ↔ s.own x = o) := by
    intro x o h1 h2; simp only [relabel]
    by_cases hx : s.own x = .tmp
    · simp only [hx, if_true]; constructor
      · intro e; exact absurd e.symm (h2 b)
      · intro e; exact absurd e.symm h1
    · simp only [hx, if_false]
  have hne : ∀ a o n, IsBucket s.next s.own a n o → 0 < n → o ≠ .tmp → a ≠ b := by
    intro a o n hi hn ho e; subst e
    have := hi.head_own hn; rw [hb] at this; exact ho this.symm
  constructor
  · exact h.lpBidx
  · intro i lp j hlp h1 h2
    obtain ⟨k1, k2, k3, k4⟩ := h.lpB i lp j hlp h1 h2
    have : lp.buckets j ≠ b := hne _ _ _ k1 k2 (by simp)
    simp only [returnBucket, upd, this, if_false]
    exact ⟨k1.relabel (fun _ _ => rfl) (fun x => hown x _ (by simp) (by simp)), k2, k3, k4⟩
  · intro x i j hx
    exact h.locOwn x i j ((hown x _ (by simp) (by simp)).mp hx)
  · intro b' hb'
    simp only [returnBucket, List.mem_cons] at hb' ⊢
    rcases hb' with rfl | hb'
    · refine (h.tmpB b' rfl).1.relabel (fun _ _ => rfl) ?_
      intro x; simp only [relabel]; split
      · simp_all
      · rename_i hx
        constructor
        · intro e
          have := (h.lifoB b' (h.lifoOwn x b' e)).head_own hP.perBucket_pos
          rw [hb] at this; cases this
        · intro e; exact absurd e hx
    · refine (h.lifoB b' hb').relabel (fun _ _ => rfl) ?_
      intro x; simp only [relabel]; split
      · rename_i hx
        simp only [hx]
        constructor
        · intro e; injection e with e; subst e; exact absurd hb' hnl
        · intro e; cases e
      · rfl
  · simp only [returnBucket]; exact List.nodup_cons.mpr ⟨hnl, h.lifoNd⟩
  · intro x b' hx
    simp only [returnBucket, relabel] at hx ⊢
    split at hx
    · injection hx with hx; simp [hx]
    · exact List.mem_cons_of_mem _ (h.lifoOwn x b' hx)
  · intro p hp
    obtain ⟨k1, k2, k3⟩ := h.partB p hp
    have : p ≠ b := hne _ _ _ k1 k2 (by simp)
    simp only [returnBucket, upd, this, if_false]
    exact ⟨k1.relabel (fun _ _ => rfl) (fun x => hown x _ (by simp) (by simp)), k2, k3⟩
  · intro hp x hx
    exact h.partOwn hp x ((hown x _ (by simp) (by simp)).mp hx)
  · intro h' e; cases e
  · intro _ x; simp only [returnBucket, relabel]; split <;> simp_all
  · intro x; show x ∈ s.out ↔ _; rw [h.outOwn]; exact (hown x _ (by simp) (by simp)).symm
  · exact h.outNd
  · intro x; show x ∈ s.carved ↔ _; rw [h.carvedOwn]; simp only [returnBucket, relabel]; split <;> simp_all
  · exact h.carvedNd
  · refine h.geo.congr ?_ rfl rfl rfl
    intro x; simp only [returnBucket, relabel]; split <;> simp_all

/-- the pointer surgery of `mem_pool_return_partial_bucket`: walk `k'` links from the head of
the partial bucket, cut there, and hang the other bucket behind the cut -/
theorem splice {next : Hdr → Option Hdr} {p b : Hdr} {Lp Lb : List Hdr} (k' : Nat)
    (sp : Seg next (some p) Lp none) (hk : k' < Lp.length) (ndp : Lp.Nodup)
    (sb : Seg next (some b) Lb none) (hdisj : ∀ x, x ∈ Lp → x ∉ Lb) :
    Lp.take (k' + 1) = Lp.take k' ++ [nthNext next k' p] ∧ nthNext next k' p ∈ Lp.take (k' + 1) ∧
    Seg (upd next (nthNext next k' p) (some b)) (some p) (Lp.take (k' + 1) ++ Lb) none ∧
    Seg (upd next (nthNext next k' p) (some b)) (next (nthNext next k' p)) (Lp.drop (k' + 1)) none ∧
    Seg next (next (nthNext next k' p)) (Lp.drop (k' + 1)) none := by
  cases Lp with
  | nil => simp at hk
  | cons x xs =>
    have hx : p = x := by have := sp.1; simpa using this
    subst hx
    have hget := seg_nthNext sp k' (by simpa using Nat.lt_succ_iff.mp hk)
    have htake : (p :: xs).take (k' + 1) = (p :: xs).take k' ++ [nthNext next k' p] := by
      rw [List.take_succ, hget]; rfl
    obtain ⟨m, s1, s2⟩ := seg_split_at sp (k' + 1)
    rw [htake, seg_snoc_iff] at s1
    have hnd : ((p :: xs).take (k' + 1) ++ (p :: xs).drop (k' + 1)).Nodup := by
      rw [List.take_append_drop]; exact ndp
    rw [htake] at hnd
    have hnd' := List.nodup_append.mp hnd
    have hnd1 := List.nodup_append.mp hnd'.1
    have hnotini : nthNext next k' p ∉ (p :: xs).take k' := by
      intro hm; exact hnd1.2.2 _ hm _ (by simp) rfl
    have hnotdrop : nthNext next k' p ∉ (p :: xs).drop (k' + 1) := by
      intro hm; exact hnd'.2.2 _ (by simp) _ hm rfl
    have hmemtake : nthNext next k' p ∈ (p :: xs).take (k' + 1) := by rw [htake]; simp
    have hmem : nthNext next k' p ∈ (p :: xs) := List.mem_of_mem_take hmemtake
    have hnotb : nthNext next k' p ∉ Lb := hdisj _ hmem
    refine ⟨htake, hmemtake, ?_, ?_, ?_⟩
    · rw [htake]
      refine seg_append (b := some b) ?_ ((seg_frame hnotb).mpr sb)
      exact seg_set_last (b := m) (seg_snoc_iff.mpr s1) hnotini
    · rw [seg_frame hnotdrop, s1.2]; exact s2
    · rw [s1.2]; exact s2

/-- frame for operations that only touch the partial bucket and the bucket in flight -/
theorem InvG.frame_tp {P : Params} {s s' : St} {th th' : Option Hdr} {tn tn' : Nat} {lo : Nat → Nat}
    (h : InvG P s th tn lo)
    (hlp : s'.lp = s.lp) (hlifo : s'.lifo = s.lifo) (hout : s'.out = s.out) (hcar : s'.carved = s.carved)
    (hpg : s'.pages = s.pages) (hnp : s'.npages = s.npages) (hpl : s'.pageLifo = s.pageLifo)
    (hA : ∀ x o, o ≠ Owner.tmp → o ≠ Owner.part → (s'.own x = o ↔ s.own x = o))
    (hB : ∀ x, s.own x ≠ .part → s.own x ≠ .tmp → s'.next x = s.next x ∧ s'.cnt x = s.cnt x)
    (hpartB : ∀ p, s'.part = some p →
          IsBucket s'.next s'.own p (s'.cnt p) .part ∧ 1 ≤ s'.cnt p ∧ s'.cnt p < P.perBucket)
    (hpartOwn : s'.part = none → ∀ x, s'.own x ≠ .part)
    (htmpB : ∀ b, th' = some b → IsBucket s'.next s'.own b tn' .tmp ∧ 1 ≤ tn' ∧ tn' ≤ P.perBucket)
    (htmpOwn : th' = none → ∀ x, s'.own x ≠ .tmp) : InvG P s' th' tn' lo := by
  have fr : ∀ a n o, o ≠ Owner.tmp → o ≠ Owner.part → IsBucket s.next s.own a n o → IsBucket s'.next s'.own a n o := by
    intro a n o h1 h2 hb
    refine hb.relabel (fun x hx => (hB x (by rw [hx]; exact h2) (by rw [hx]; exact h1)).1) (fun x => hA x o h1 h2)
  have frc : ∀ a n o, o ≠ Owner.tmp → o ≠ Owner.part → IsBucket s.next s.own a n o → 0 < n → s'.cnt a = s.cnt a := by
    intro a n o h1 h2 hb hn
    have := hb.head_own hn
    exact (hB a (by rw [this]; exact h2) (by rw [this]; exact h1)).2
  constructor
  · rw [hlp]; exact h.lpBidx
  · intro i lp j hlp' h1 h2
    rw [hlp] at hlp'
    obtain ⟨k1, k2, k3, k4⟩ := h.lpB i lp j hlp' h1 h2
    rw [frc _ _ _ (by simp) (by simp) k1 k2]
    exact ⟨fr _ _ _ (by simp) (by simp) k1, k2, k3, k4⟩
  · intro x i j hx; rw [hlp]; exact h.locOwn x i j ((hA x _ (by simp) (by simp)).mp hx)
  · intro b hb; rw [hlifo] at hb; exact fr _ _ _ (by simp) (by simp) (h.lifoB b hb)
  · rw [hlifo]; exact h.lifoNd
  · intro x b hx; rw [hlifo]; exact h.lifoOwn x b ((hA x _ (by simp) (by simp)).mp hx)
  · exact hpartB
  · exact hpartOwn
  · exact htmpB
  · exact htmpOwn
  · intro x; rw [hout, h.outOwn]; exact (hA x _ (by simp) (by simp)).symm
  · rw [hout]; exact h.outNd
  · intro x; rw [hcar, h.carvedOwn, ne_eq, ne_eq, hA x _ (by simp) (by simp)]
  · rw [hcar]; exact h.carvedNd
  · exact h.geo.congr (fun x => hA x _ (by simp) (by simp)) hpg hnp hpl

/-- **`mem_pool_return_partial_bucket`** of the bucket in flight (fewer than `per_bucket` headers,
its count stored in its first header): afterwards nothing is in flight and the invariant holds —
in particular the remaining partial bucket stores its true length (F4). -/
theorem returnPartial_inv {P : Params} {s : St} {b : Hdr} {tn : Nat} {lo : Nat → Nat} (hP : P.OK)
    (h : InvG P s (some b) tn lo) (hc : s.cnt b = tn) (hlt : tn < P.perBucket) :
    InvG P (returnPartial P s b) none 0 lo := by
  subst hc
  have hc : s.cnt b = s.cnt b := rfl
  obtain ⟨⟨Lb, sb, lb, ndb, mb⟩, tb1, _⟩ := h.tmpB b rfl
  have hbt := h.tmp_head
  unfold returnPartial
  cases hp : s.part with
  | none =>
    simp only
    refine h.frame_tp rfl rfl rfl rfl rfl rfl rfl ?_ ?_ ?_ ?_ ?_ ?_
    · intro x o h1 h2; simp only [relabel]; split
      · rename_i hx; simp only [hx]; constructor
        · intro e; exact absurd e.symm h2
        · intro e; exact absurd e.symm h1
      · rfl
    · intro x _ _; exact ⟨rfl, rfl⟩
    · intro p hp'
      simp only [Option.some.injEq] at hp'; subst hp'
      refine ⟨⟨Lb, sb, by rw [lb, hc], ndb, ?_⟩, by rw [hc]; exact tb1, by rw [hc]; exact hlt⟩
      intro x; rw [mb]; simp only [relabel]; split
      · simp_all
      · rename_i hx; constructor
        · intro e; exact absurd e hx
        · intro e; exact absurd e (h.partOwn hp x)
    · intro e; cases e
    · intro b' e; cases e
    · intro _ x; simp only [relabel]; split <;> simp_all
  | some p =>
    obtain ⟨⟨Lp, sp, lp_, ndp, mp⟩, p1, p2⟩ := h.partB p hp
    have hdisj : ∀ x, x ∈ Lp → x ∉ Lb := by
      intro x h1 h2; have := (mp x).mp h1; rw [(mb x).mp h2] at this; cases this
    simp only
    split
    · -- join: still not a complete bucket
      rename_i hsum
      have hk : s.cnt p - 1 < Lp.length := by omega
      obtain ⟨htake, hmem, s1, _, _⟩ := splice (s.cnt p - 1) sp hk ndp sb hdisj
      have hfull : Lp.take (s.cnt p - 1 + 1) = Lp := by
        rw [List.take_of_length_le]; omega
      rw [hfull] at s1 hmem
      have htail : s.own (nthNext s.next (s.cnt p - 1) p) = .part := (mp _).mp hmem
      have hpp : s.own p = .part := (IsBucket.head_own ⟨Lp, sp, lp_, ndp, mp⟩ p1)
      refine h.frame_tp rfl rfl rfl rfl rfl rfl rfl ?_ ?_ ?_ ?_ ?_ ?_
      · intro x o h1 h2; simp only [relabel]; split
        · rename_i hx; simp only [hx]; constructor
          · intro e; exact absurd e.symm h2
          · intro e; exact absurd e.symm h1
        · rfl
      · intro x hx _
        have h1 : x ≠ nthNext s.next (s.cnt p - 1) p := by intro e; rw [e] at hx; exact hx htail
        have h2 : x ≠ p := by intro e; rw [e] at hx; exact hx hpp
        simp [upd, h1, h2]
      · intro p' hp'
        simp only [Option.some.injEq] at hp'; subst hp'
        simp only [upd_same]
        refine ⟨⟨Lp ++ Lb, s1, by simp [lp_, lb, hc], ?_, ?_⟩, by omega, by rw [hc]; exact hsum⟩
        · exact List.nodup_append.mpr ⟨ndp, ndb, fun a ha b' hb' e => hdisj a ha (e ▸ hb')⟩
        · intro x; rw [List.mem_append, mp, mb]; simp only [relabel]; split <;> simp_all
      · intro e; cases e
      · intro b' e; cases e
      · intro _ x; simp only [relabel]; split <;> simp_all
    · -- partial_bucket + bucket make a complete bucket
      rename_i hsum
      have hk : P.perBucket - s.cnt b - 1 < Lp.length := by omega
      have hk1 : P.perBucket - s.cnt b - 1 + 1 = P.perBucket - s.cnt b := by omega
      obtain ⟨htake, hmem, s1, s2, s3⟩ := splice (P.perBucket - s.cnt b - 1) sp hk ndp sb hdisj
      rw [hk1] at htake hmem s1 s2 s3
      generalize hhdr : nthNext s.next (P.perBucket - s.cnt b - 1) p = hdr at *
      have hfirst : walk s.next (P.perBucket - s.cnt b) (some p) = Lp.take (P.perBucket - s.cnt b) :=
        seg_walk_take sp _ (by omega)
      rw [hfirst]
      have hhdrp : s.own hdr = .part := (mp _).mp (List.mem_of_mem_take hmem)
      have hpp : s.own p = .part := (IsBucket.head_own ⟨Lp, sp, lp_, ndp, mp⟩ p1)
      have hndtd : (Lp.take (P.perBucket - s.cnt b) ++ Lp.drop (P.perBucket - s.cnt b)).Nodup := by
        rw [List.take_append_drop]; exact ndp
      have hmemsplit : ∀ x, x ∈ Lp ↔ x ∈ Lp.take (P.perBucket - s.cnt b) ∨ x ∈ Lp.drop (P.perBucket - s.cnt b) := by
        intro x; rw [← List.mem_append, List.take_append_drop]
      have hdroplen : (Lp.drop (P.perBucket - s.cnt b)).length = s.cnt p + s.cnt b - P.perBucket := by
        rw [List.length_drop]; omega
      -- the state before the push, with the new partial bucket already recorded
      have key : ∀ (newPart : Option Hdr) (cnt1 : Hdr → Nat),
          (newPart = none → Lp.drop (P.perBucket - s.cnt b) = [] ∧ cnt1 = s.cnt) →
          (∀ q, newPart = some q → s.next hdr = some q ∧ cnt1 = upd s.cnt q (s.cnt p + s.cnt b - P.perBucket) ∧
              Lp.drop (P.perBucket - s.cnt b) ≠ []) →
          InvG P { s with next := upd s.next hdr (some b), cnt := cnt1, part := newPart,
                          own := fun x => if x ∈ Lp.take (P.perBucket - s.cnt b) then Owner.tmp else s.own x }
            (some p) P.perBucket lo := by
        intro newPart cnt1 hnone hsome
        have hcnt : ∀ x, s.own x ≠ .part → cnt1 x = s.cnt x := by
          intro x hx
          cases hnp : newPart with
          | none => rw [(hnone hnp).2]
          | some q =>
            obtain ⟨hq, hc1, hne⟩ := hsome q hnp
            rw [hc1]
            have hqd : q ∈ Lp.drop (P.perBucket - s.cnt b) := by
              cases hd : Lp.drop (P.perBucket - s.cnt b) with
              | nil => exact absurd hd hne
              | cons z r => rw [hd, hq] at s3; have := s3.1; simp at this; simp [this]
            have hqp : s.own q = .part := (mp q).mp ((hmemsplit q).mpr (Or.inr hqd))
            have : x ≠ q := by intro e; rw [e] at hx; exact hx hqp
            simp [upd, this]
        refine h.frame_tp rfl rfl rfl rfl rfl rfl rfl ?_ ?_ ?_ ?_ ?_ ?_
        · intro x o h1 h2; simp only; split
          · rename_i hx
            have := (mp x).mp (List.mem_of_mem_take hx)
            constructor
            · intro e; exact absurd e.symm h1
            · intro e; rw [this] at e; exact absurd e.symm h2
          · rfl
        · intro x hx _
          have h1 : x ≠ hdr := by intro e; rw [e] at hx; exact hx hhdrp
          exact ⟨by simp [upd, h1], hcnt x hx⟩
        · intro q hq
          simp only at hq
          obtain ⟨hnq, hc1, hne⟩ := hsome q hq
          simp only [hc1, upd_same]
          refine ⟨⟨Lp.drop (P.perBucket - s.cnt b), ?_, hdroplen, (List.nodup_append.mp hndtd).2.1, ?_⟩, ?_, by omega⟩
          · rw [hnq] at s2; exact s2
          · intro x; simp only; split
            · rename_i hx
              constructor
              · intro hd; exact absurd rfl ((List.nodup_append.mp hndtd).2.2 x hx x hd)
              · intro e; cases e
            · rename_i hx
              rw [← mp, hmemsplit]; simp [hx]
          · have : 0 < (Lp.drop (P.perBucket - s.cnt b)).length := List.length_pos_iff.mpr hne
            omega
        · intro hn x; simp only at hn ⊢
          split
          · simp
          · rename_i hx
            intro e
            have := (hmemsplit x).mp ((mp x).mpr e)
            rw [(hnone hn).1] at this
            simp [hx] at this
        · intro b' hb'
          simp only [Option.some.injEq] at hb'; subst hb'
          refine ⟨⟨Lp.take (P.perBucket - s.cnt b) ++ Lb, s1, ?_, ?_, ?_⟩, hP.perBucket_pos, Nat.le_refl _⟩
          · rw [List.length_append, List.length_take, lb, hc]; omega
          · exact List.nodup_append.mpr ⟨(List.nodup_append.mp hndtd).1, ndb,
              fun a ha b' hb' e => hdisj a (List.mem_of_mem_take ha) (e ▸ hb')⟩
          · intro x; rw [List.mem_append, mb]; simp only; split
            · simp_all
            · rename_i hx; simp [hx]
        · intro e; cases e
      -- now the two sub-cases of `new_partial_bucket`
      by_cases heq : s.cnt p + s.cnt b = P.perBucket
      · simp only [heq, ne_eq, not_true_eq_false, if_false]
        have hd : Lp.drop (P.perBucket - s.cnt b) = [] := by
          apply List.eq_nil_of_length_eq_zero; rw [hdroplen]; omega
        have := key none s.cnt (fun _ => ⟨hd, rfl⟩) (fun q e => by cases e)
        exact returnBucket_inv hP this
      · simp only [heq, ne_eq, not_false_eq_true, if_true]
        have hne : Lp.drop (P.perBucket - s.cnt b) ≠ [] := by
          intro e; have := congrArg List.length e; rw [hdroplen] at this; simp at this; omega
        cases hd : Lp.drop (P.perBucket - s.cnt b) with
        | nil => exact absurd hd hne
        | cons q r =>
          have hnq : s.next hdr = some q := by rw [hd] at s3; exact s3.1
          simp only [hnq]
          have := key (some q) (upd s.cnt q (s.cnt p + s.cnt b - P.perBucket))
            (fun e => by cases e) (fun q' e => by
              simp only [Option.some.injEq] at e; subst e; exact ⟨hnq, rfl, hne⟩)
          exact returnBucket_inv hP this

end ArgoVerif.Model.MemPool
