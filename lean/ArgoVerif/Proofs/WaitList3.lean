import ArgoVerif.Proofs.WaitList
/- Proofs.WaitList3 — invariant preservation for the node-state polls. -/
namespace ArgoVerif.Model.WaitList
open ArgoVerif
set_option maxHeartbeats 4000000

theorem loadState_cases (s : St) (a : Actor) (r : Bool) (s' : St) (hs : stepLoadState s a r = some s') :
    r = s.ready a ∧ (s.pc a = .xCheck ∨ s.pc a = .xSleep ∨ s.pc a = .tuPoll ∨ s.pc a = .txState ∨ s.pc a = .txSleep ∨ s.pc a = .tmo) := by
  unfold stepLoadState at hs
  split at hs
  · cases hs
  · rename_i h
    refine ⟨by simpa using h, ?_⟩
    split at hs <;> simp_all

theorem inv_stepLoadState (s s' : St) (a : Actor) (r : Bool) (h : Inv s) (hs : stepLoadState s a r = some s') : Inv s' := by
  obtain ⟨ho, hp⟩ := loadState_cases s a r s' hs
  unfold stepLoadState at hs
  rw [if_neg (by simp [ho])] at hs
  rcases hp with hp | hp | hp | hp | hp | hp <;> rw [hp] at hs <;> cases r <;>
    simp only [Bool.false_eq_true, if_false, if_true] at hs <;> close_tac h hs

end ArgoVerif.Model.WaitList
