import ArgoVerif.Model.FutexGen
namespace ArgoVerif.Model.FutexGen

theorem after_eq_iter (bits v k : Nat) (hv : v < 2 ^ bits) : after bits v k = iter bits v k := by
  induction k with
  | zero => simp [after, iter, Nat.mod_eq_of_lt hv]
  | succ k ih =>
    simp only [iter, broadcast, ← ih, after]
    rw [← Nat.add_assoc, Nat.add_mod (v + k) 1, Nat.add_mod ((v + k) % 2 ^ bits) 1, Nat.mod_mod]

/-- `(v + k) % m = v` with `v < m` forces `m ∣ k` -/
theorem add_mod_eq_self {v k m : Nat} (hv : v < m) (h : (v + k) % m = v) : k % m = 0 := by
  have hm : 0 < m := Nat.lt_of_le_of_lt (Nat.zero_le _) hv
  have h1 : (v + k) % m = (v + k % m) % m := by
    rw [Nat.add_mod, Nat.mod_eq_of_lt hv, Nat.add_mod v (k % m), Nat.mod_eq_of_lt hv, Nat.mod_mod]
  have hk : k % m < m := Nat.mod_lt _ hm
  rw [h1] at h
  by_cases hc : v + k % m < m
  · rw [Nat.mod_eq_of_lt hc] at h; omega
  · have hge : m ≤ v + k % m := Nat.le_of_not_lt hc
    have : (v + k % m) % m = v + k % m - m := by
      rw [Nat.mod_eq_sub_mod hge, Nat.mod_eq_of_lt (by omega)]
    omega

end ArgoVerif.Model.FutexGen

namespace ArgoVerif.Model.FutexGen

theorem lostWake_iff (bits v k : Nat) (hv : v < 2 ^ bits) (hk : k < 2 ^ bits) : lostWake bits v k = true ↔ k = 0 := by
  unfold lostWake sleeps after
  constructor
  · intro h
    have h' : (v + k) % 2 ^ bits = v := by simpa using h
    have := add_mod_eq_self hv h'
    rw [Nat.mod_eq_of_lt hk] at this
    exact this
  · intro h
    subst h
    simp [Nat.mod_eq_of_lt hv]

end ArgoVerif.Model.FutexGen
