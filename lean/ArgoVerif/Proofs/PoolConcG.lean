import ArgoVerif.Proofs.PoolConcF
/- Proofs.PoolConcG — the ghost observation `sawEmpty` is backed by an instant of the run at which the queue was
empty, inside the call that made it. -/
namespace ArgoVerif.Model.PoolConc
open ArgoVerif ArgoVerif.Model.TQ
set_option maxHeartbeats 1000000

def isCallOf (a : Actor) : Ev → Bool
  | .call b _ => b == a
  | _ => false

/-- one step: either the flag was already set (and the step is not a new call of `a`), or this very step observed
the empty queue while `a`'s call was in progress -/
theorem sawEmpty_step {cfg : Cfg} {s s' : St} {e : Ev} {a : Actor} (hs : step cfg s e = some s')
    (h : s'.sawEmpty a = true) :
    isCallOf a e = false ∧ (s.sawEmpty a = true ∨ (s.q = [] ∧ s.pc a ≠ .idle)) := by
  cases e with
  | call b c =>
    simp only [step, stepCall] at hs
    split at hs; · simp at hs
    split at hs; · simp at hs
    simp only [Option.some.injEq] at hs; subst hs
    by_cases hb : b = a
    · subst hb; simp [setPc, upd] at h
    · have : a ≠ b := fun e => hb e.symm
      simp [setPc, upd, this] at h; simp [isCallOf, hb, h]
  | ret b r =>
    simp only [step, stepRet] at hs
    split at hs
    · simp only [Option.some.injEq] at hs; subst hs; simp [setPc] at h; simp [isCallOf, h]
    · simp at hs
  | cbPushMany b n =>
    simp only [step, stepCbPushMany] at hs
    split at hs; · simp at hs
    simp only [Option.some.injEq] at hs; subst hs; simp [setPc] at h; simp [isCallOf, h]
  | tas b old =>
    simp only [step, stepTas] at hs
    split at hs; · simp at hs
    split at hs <;> (try (simp at hs; done)) <;> simp only [Option.some.injEq] at hs <;> subst hs <;>
      cases old <;> simp [setPc, acquire] at h <;> simp [isCallOf, h]
  | loadLock b v =>
    simp only [step, stepLoadLock] at hs
    split at hs; · simp at hs
    split at hs <;> (try (simp at hs; done)) <;> simp only [Option.some.injEq] at hs <;> subst hs <;>
      simp [setPc] at h <;> simp [isCallOf, h]
  | loadEmpty b v =>
    simp only [step, stepLoadEmpty] at hs
    split at hs; · simp at hs
    by_cases hb : b = a
    · subst hb
      split at hs <;> (try (simp at hs; done))
      case h_6 hpc =>
        split at hs; · simp at hs
        simp only [Option.some.injEq] at hs; subst hs
        cases v <;> simp_all [setPc, upd, isCallOf]
      all_goals (
        simp only [Option.some.injEq] at hs; subst hs
        cases v <;> simp_all [setPc, upd, isCallOf, emptyFail, rmFailed])
    · have hab : a ≠ b := fun e => hb e.symm
      split at hs <;> (try (simp at hs; done))
      case h_6 hpc =>
        split at hs; · simp at hs
        simp only [Option.some.injEq] at hs; subst hs
        cases v <;> simp_all [setPc, upd, isCallOf]
      all_goals (
        simp only [Option.some.injEq] at hs; subst hs
        cases v <;> simp_all [setPc, upd, isCallOf, emptyFail, rmFailed])
  | loadIn b u v =>
    simp only [step, stepLoadIn] at hs
    split at hs; · simp at hs
    split at hs <;> (try (simp at hs; done)) <;> simp only [Option.some.injEq] at hs <;> subst hs <;>
      cases v <;> simp [setPc, rmFailed] at h <;> simp [isCallOf, h]
  | clear b =>
    simp only [step, stepClear] at hs
    split at hs; · simp at hs
    simp only [Option.some.injEq] at hs; subst hs; simp [setPc, release] at h; simp [isCallOf, h]
  | mlock b =>
    simp only [step, stepMlock] at hs
    split at hs; · simp at hs
    split at hs <;> (try (simp at hs; done)) <;> simp only [Option.some.injEq] at hs <;> subst hs <;>
      simp [setPc, acquire] at h <;> simp [isCallOf, h]
  | munlock b =>
    simp only [step, stepMunlock] at hs
    split at hs; · simp at hs
    simp only [Option.some.injEq] at hs; subst hs; simp [setPc, release] at h; simp [isCallOf, h]
  | link b u hd =>
    simp only [step, stepLink] at hs
    split at hs
    · split at hs; · simp at hs
      simp only [Option.some.injEq] at hs; subst hs; simp [setPc] at h; simp [isCallOf, h]
    · simp at hs
  | take b r hd =>
    simp only [step, stepTake] at hs
    split at hs; · simp at hs
    next hg =>
    split at hs
    next hq =>
      simp only [Option.some.injEq] at hs; subst hs
      by_cases hb : b = a
      · subst hb; have : s.pc b = .csPop := by simp_all
        simp [isCallOf, hq, this]
      · have hab : a ≠ b := fun e => hb e.symm
        simp [setPc, upd, hab] at h; simp [isCallOf, h]
    · simp only [Option.some.injEq] at hs; subst hs; simp [setPc] at h; simp [isCallOf, h]
  | unlink b u =>
    simp only [step, stepUnlink] at hs
    split at hs; · simp at hs
    simp only [Option.some.injEq] at hs; subst hs; simp [setPc] at h; simp [isCallOf, h]
  | rmFail b =>
    simp only [step, stepRmFail] at hs
    split at hs; · simp at hs
    split at hs
    · simp only [Option.some.injEq] at hs; subst hs; simp [setPc, rmFailed] at h; simp [isCallOf, h]
    · simp at hs
  | storeEmpty b v =>
    simp only [step, stepStoreEmpty] at hs
    split at hs; · simp at hs
    split at hs <;> (try (simp at hs; done)) <;> split at hs <;> (try (simp at hs; done)) <;>
      simp only [Option.some.injEq] at hs <;> subst hs <;> simp [setPc] at h <;> simp [isCallOf, h]
  | storeIn b u v =>
    simp only [step, stepStoreIn] at hs
    split at hs; · simp at hs
    split at hs <;> (try (simp at hs; done)) <;> split at hs <;> (try (simp at hs; done)) <;>
      simp only [Option.some.injEq] at hs <;> subst hs <;> simp [setPc] at h <;> simp [isCallOf, h]
  | signal b =>
    simp only [step, stepSignal] at hs
    split at hs; · simp at hs
    simp only [Option.some.injEq] at hs; subst hs; simp [setPc] at h; simp [isCallOf, h]
  | condWait b =>
    simp only [step, stepCondWait] at hs
    split at hs; · simp at hs
    simp only [Option.some.injEq] at hs; subst hs; simp [setPc, release] at h; simp [isCallOf, h]
  | wake b =>
    simp only [step, stepWake] at hs
    split at hs; · simp at hs
    simp only [Option.some.injEq] at hs; subst hs; simp [setPc] at h; simp [isCallOf, h]


/-- `a`'s current call has seen an instant at which the queue was empty: the run splits into a prefix ending in a
state with `q = []` in which `a`'s call is already in progress, and a rest in which `a` starts no new call -/
def EmptyInstant (cfg : Cfg) (tr : List Ev) (a : Actor) : Prop :=
  ∃ tr1 tr2 s1, tr = tr1 ++ tr2 ∧ (machine cfg).run init tr1 = some s1 ∧ s1.q = [] ∧ s1.pc a ≠ .idle ∧
    ∀ e ∈ tr2, isCallOf a e = false

theorem list_snoc_ind {α : Type} {P : List α → Prop} (h0 : P []) (hs : ∀ l x, P l → P (l ++ [x])) : ∀ l, P l := by
  intro l
  have : ∀ r : List α, P r.reverse := by
    intro r
    induction r with
    | nil => simpa using h0
    | cons x r ih => simpa using hs _ x ih
  simpa using this l.reverse

theorem sawEmpty_witness {cfg : Cfg} (tr : List Ev) : ∀ {s : St} {a : Actor},
    (machine cfg).run init tr = some s → s.sawEmpty a = true → EmptyInstant cfg tr a := by
  induction tr using list_snoc_ind with
  | h0 =>
    intro s a hr hse
    simp only [Machine.run, Option.some.injEq] at hr
    have : s = init := hr.symm
    subst this
    simp [machine, init] at hse
  | hs tr e ih =>
    intro s a hr hse
    obtain ⟨s0, hr0, hst⟩ := run_snoc hr
    obtain ⟨hnc, hcase⟩ := sawEmpty_step hst hse
    cases hcase with
    | inl h0 =>
      obtain ⟨tr1, tr2, s1, e1, e2, e3, e4, e5⟩ := ih hr0 h0
      refine ⟨tr1, tr2 ++ [e], s1, by rw [e1, List.append_assoc], e2, e3, e4, ?_⟩
      intro x hx
      rcases List.mem_append.mp hx with hx | hx
      · exact e5 x hx
      · simp at hx; subst hx; exact hnc
    | inr h0 =>
      refine ⟨tr, [e], s0, rfl, hr0, h0.1, h0.2, ?_⟩
      intro x hx; simp at hx; subst hx; exact hnc

end ArgoVerif.Model.PoolConc
