import ArgoVerif.Model.Ledger
import ArgoVerif.Gen.Ladders
/-
Proofs.LedgerRuns — kernel evaluation (`decide`, no native code) of the four C18 checks over the
complete enumeration `runs` of every generated ladder.  One evaluation per routine; Props/C18 lifts
each to all oracles with `all_runs_exec`.  The resource multisets are the documented composition of
a successfully created object (what a later free of that object has to release).
-/
namespace ArgoVerif.Proofs.LedgerRuns
open ArgoVerif.Model.Ledger ArgoVerif.Gen.Ladders

/-- site index of a callee by name (`siteNames.length` when the routine no longer calls it) -/
def siteOf (n : String) : Nat := siteNames.idxOf n

/-- `ythread_create` with a stackable scheduler: pre-existing objects are untouched in every run except
    those where an error is returned after a key-table entry has been registered (finding C18-A) -/
def preUntouchedBeforeKey (o : Outcome) : Bool :=
  preUntouched ythread_create_with_sched o ||
    (o.st.injected && o.isError && o.st.trace.any (fun e => e == Ev.acqOk (siteOf "ABTI_ktable_set_unsafe")))

def allowed_xstream_create : List (List Kind) := [[K_mem, K_pool, K_ythread, K_ythread, K_localpools, K_rank, K_oscontext], [K_mem, K_pool, K_ythread, K_ythread, K_localpools, K_rank]]
def check_xstream_create (o : Outcome) : Bool :=
  failBalanced o && successExact allowed_xstream_create o && handleOk xstream_create o && preUntouched xstream_create o
theorem runs_xstream_create : allRuns xstream_create 400 0 check_xstream_create = true := by decide +kernel
theorem nonvacuous_xstream_create : 0 < injectedRuns xstream_create 400 0 := by decide +kernel

def allowed_ABT_xstream_create : List (List Kind) := [[K_xstream, K_sched]]
def check_ABT_xstream_create (o : Outcome) : Bool :=
  failBalanced o && successExact allowed_ABT_xstream_create o && handleOk ABT_xstream_create o && preUntouched ABT_xstream_create o
theorem runs_ABT_xstream_create : allRuns ABT_xstream_create 400 0 check_ABT_xstream_create = true := by decide +kernel
theorem nonvacuous_ABT_xstream_create : 0 < injectedRuns ABT_xstream_create 400 0 := by decide +kernel

def allowed_ABT_xstream_create_given : List (List Kind) := [[K_xstream]]
def check_ABT_xstream_create_given (o : Outcome) : Bool :=
  failBalanced o && successExact allowed_ABT_xstream_create_given o && handleOk ABT_xstream_create_given o && preUntouched ABT_xstream_create_given o
theorem runs_ABT_xstream_create_given : allRuns ABT_xstream_create_given 400 0 check_ABT_xstream_create_given = true := by decide +kernel
theorem nonvacuous_ABT_xstream_create_given : 0 < injectedRuns ABT_xstream_create_given 400 0 := by decide +kernel

def allowed_ABT_xstream_create_with_rank : List (List Kind) := [[K_xstream, K_sched]]
def check_ABT_xstream_create_with_rank (o : Outcome) : Bool :=
  failBalanced o && successExact allowed_ABT_xstream_create_with_rank o && handleOk ABT_xstream_create_with_rank o && preUntouched ABT_xstream_create_with_rank o
theorem runs_ABT_xstream_create_with_rank : allRuns ABT_xstream_create_with_rank 400 0 check_ABT_xstream_create_with_rank = true := by decide +kernel
theorem nonvacuous_ABT_xstream_create_with_rank : 0 < injectedRuns ABT_xstream_create_with_rank 400 0 := by decide +kernel

def allowed_ABT_xstream_create_with_rank_given : List (List Kind) := [[K_xstream]]
def check_ABT_xstream_create_with_rank_given (o : Outcome) : Bool :=
  failBalanced o && successExact allowed_ABT_xstream_create_with_rank_given o && handleOk ABT_xstream_create_with_rank_given o && preUntouched ABT_xstream_create_with_rank_given o
theorem runs_ABT_xstream_create_with_rank_given : allRuns ABT_xstream_create_with_rank_given 400 0 check_ABT_xstream_create_with_rank_given = true := by decide +kernel
theorem nonvacuous_ABT_xstream_create_with_rank_given : 0 < injectedRuns ABT_xstream_create_with_rank_given 400 0 := by decide +kernel

def allowed_ABT_xstream_create_basic : List (List Kind) := [[K_xstream, K_sched]]
def check_ABT_xstream_create_basic (o : Outcome) : Bool :=
  failBalanced o && successExact allowed_ABT_xstream_create_basic o && handleOk ABT_xstream_create_basic o && preUntouched ABT_xstream_create_basic o
theorem runs_ABT_xstream_create_basic : allRuns ABT_xstream_create_basic 600 2 check_ABT_xstream_create_basic = true := by decide +kernel
theorem nonvacuous_ABT_xstream_create_basic : 0 < injectedRuns ABT_xstream_create_basic 600 2 := by decide +kernel

def allowed_ABTI_xstream_create_primary : List (List Kind) := [[K_xstream, K_sched]]
def check_ABTI_xstream_create_primary (o : Outcome) : Bool :=
  failBalanced o && successExact allowed_ABTI_xstream_create_primary o && handleOk ABTI_xstream_create_primary o && preUntouched ABTI_xstream_create_primary o
theorem runs_ABTI_xstream_create_primary : allRuns ABTI_xstream_create_primary 400 0 check_ABTI_xstream_create_primary = true := by decide +kernel
theorem nonvacuous_ABTI_xstream_create_primary : 0 < injectedRuns ABTI_xstream_create_primary 400 0 := by decide +kernel

def allowed_init_library : List (List Kind) := [[K_mem, K_globalpools, K_primary_xstream, K_primary_ythread]]
def check_init_library (o : Outcome) : Bool :=
  failBalanced o && successExact allowed_init_library o && handleOk init_library o && preUntouched init_library o
theorem runs_init_library : allRuns init_library 400 0 check_init_library = true := by decide +kernel
theorem nonvacuous_init_library : 0 < injectedRuns init_library 400 0 := by decide +kernel

def allowed_ABTD_xstream_context_create : List (List Kind) := [[K_osmutex, K_oscond, K_osthread]]
def check_ABTD_xstream_context_create (o : Outcome) : Bool :=
  failBalanced o && successExact allowed_ABTD_xstream_context_create o && handleOk ABTD_xstream_context_create o && preUntouched ABTD_xstream_context_create o
theorem runs_ABTD_xstream_context_create : allRuns ABTD_xstream_context_create 400 0 check_ABTD_xstream_context_create = true := by decide +kernel
theorem nonvacuous_ABTD_xstream_context_create : 0 < injectedRuns ABTD_xstream_context_create 400 0 := by decide +kernel

def allowed_ABTI_mem_init_local : List (List Kind) := [[K_localpools, K_localpools]]
def check_ABTI_mem_init_local (o : Outcome) : Bool :=
  failBalanced o && successExact allowed_ABTI_mem_init_local o && handleOk ABTI_mem_init_local o && preUntouched ABTI_mem_init_local o
theorem runs_ABTI_mem_init_local : allRuns ABTI_mem_init_local 400 0 check_ABTI_mem_init_local = true := by decide +kernel
theorem nonvacuous_ABTI_mem_init_local : 0 < injectedRuns ABTI_mem_init_local 400 0 := by decide +kernel

def allowed_ABTI_mem_init : List (List Kind) := [[K_localpools, K_localpools]]
def check_ABTI_mem_init (o : Outcome) : Bool :=
  failBalanced o && successExact allowed_ABTI_mem_init o && handleOk ABTI_mem_init o && preUntouched ABTI_mem_init o
theorem runs_ABTI_mem_init : allRuns ABTI_mem_init 400 0 check_ABTI_mem_init = true := by decide +kernel
theorem nonvacuous_ABTI_mem_init : 0 < injectedRuns ABTI_mem_init 400 0 := by decide +kernel

def allowed_ythread_create : List (List Kind) := [[K_mem, K_ythread, K_ktable], [K_ythread]]
def check_ythread_create (o : Outcome) : Bool :=
  failBalanced o && successExact allowed_ythread_create o && handleOk ythread_create o && preUntouched ythread_create o
theorem runs_ythread_create : allRuns ythread_create 400 0 check_ythread_create = true := by decide +kernel
theorem nonvacuous_ythread_create : 0 < injectedRuns ythread_create 400 0 := by decide +kernel

def allowed_ythread_create_with_sched : List (List Kind) := [[K_mem, K_ythread, K_ktable], [K_ythread], [K_ythread, K_ktable]]
def check_ythread_create_with_sched (o : Outcome) : Bool :=
  failBalanced o && successExact allowed_ythread_create_with_sched o && handleOk ythread_create_with_sched o && preUntouchedBeforeKey o
theorem runs_ythread_create_with_sched : allRuns ythread_create_with_sched 400 0 check_ythread_create_with_sched = true := by decide +kernel
theorem nonvacuous_ythread_create_with_sched : 0 < injectedRuns ythread_create_with_sched 400 0 := by decide +kernel

def allowed_task_create : List (List Kind) := [[K_task]]
def check_task_create (o : Outcome) : Bool :=
  failBalanced o && successExact allowed_task_create o && handleOk task_create o && preUntouched task_create o
theorem runs_task_create : allRuns task_create 400 0 check_task_create = true := by decide +kernel
theorem nonvacuous_task_create : 0 < injectedRuns task_create 400 0 := by decide +kernel

def allowed_ABTI_thread_get_mig_data : List (List Kind) := [[], [K_mem], [K_mem, K_lazy_ktable]]
def check_ABTI_thread_get_mig_data (o : Outcome) : Bool :=
  failBalancedUpTo [K_lazy_ktable] o && successExact allowed_ABTI_thread_get_mig_data o && handleOk ABTI_thread_get_mig_data o && preUntouched ABTI_thread_get_mig_data o
theorem runs_ABTI_thread_get_mig_data : allRuns ABTI_thread_get_mig_data 400 0 check_ABTI_thread_get_mig_data = true := by decide +kernel
theorem nonvacuous_ABTI_thread_get_mig_data : 0 < injectedRuns ABTI_thread_get_mig_data 400 0 := by decide +kernel

def allowed_ABTI_ythread_create_root : List (List Kind) := [[K_ythread]]
def check_ABTI_ythread_create_root (o : Outcome) : Bool :=
  failBalanced o && successExact allowed_ABTI_ythread_create_root o && handleOk ABTI_ythread_create_root o && preUntouched ABTI_ythread_create_root o
theorem runs_ABTI_ythread_create_root : allRuns ABTI_ythread_create_root 400 0 check_ABTI_ythread_create_root = true := by decide +kernel
theorem nonvacuous_ABTI_ythread_create_root : 0 < injectedRuns ABTI_ythread_create_root 400 0 := by decide +kernel

def allowed_ABTI_ythread_create_main_sched : List (List Kind) := [[K_ythread]]
def check_ABTI_ythread_create_main_sched (o : Outcome) : Bool :=
  failBalanced o && successExact allowed_ABTI_ythread_create_main_sched o && handleOk ABTI_ythread_create_main_sched o && preUntouched ABTI_ythread_create_main_sched o
theorem runs_ABTI_ythread_create_main_sched : allRuns ABTI_ythread_create_main_sched 400 0 check_ABTI_ythread_create_main_sched = true := by decide +kernel
theorem nonvacuous_ABTI_ythread_create_main_sched : 0 < injectedRuns ABTI_ythread_create_main_sched 400 0 := by decide +kernel

def allowed_ABTI_ythread_create_sched : List (List Kind) := [[K_ythread]]
def check_ABTI_ythread_create_sched (o : Outcome) : Bool :=
  failBalanced o && successExact allowed_ABTI_ythread_create_sched o && handleOk ABTI_ythread_create_sched o && preUntouched ABTI_ythread_create_sched o
theorem runs_ABTI_ythread_create_sched : allRuns ABTI_ythread_create_sched 400 0 check_ABTI_ythread_create_sched = true := by decide +kernel
theorem nonvacuous_ABTI_ythread_create_sched : 0 < injectedRuns ABTI_ythread_create_sched 400 0 := by decide +kernel

def allowed_sched_create : List (List Kind) := [[K_mem, K_mem, K_userdata], [K_mem, K_mem], [K_mem, K_mem, K_pool, K_poolref, K_userdata], [K_mem, K_mem, K_pool, K_poolref], [K_mem, K_mem, K_poolref, K_userdata], [K_mem, K_mem, K_poolref], [K_mem, K_mem, K_pool, K_pool, K_poolref, K_poolref, K_userdata], [K_mem, K_mem, K_pool, K_pool, K_poolref, K_poolref], [K_mem, K_mem, K_pool, K_poolref, K_poolref, K_userdata], [K_mem, K_mem, K_pool, K_poolref, K_poolref], [K_mem, K_mem, K_poolref, K_poolref, K_userdata], [K_mem, K_mem, K_poolref, K_poolref]]
def check_sched_create (o : Outcome) : Bool :=
  failBalanced o && successExact allowed_sched_create o && handleOk sched_create o && preUntouched sched_create o
theorem runs_sched_create : allRuns sched_create 600 2 check_sched_create = true := by decide +kernel
theorem nonvacuous_sched_create : 0 < injectedRuns sched_create 600 2 := by decide +kernel

def allowed_ABTI_sched_create_basic : List (List Kind) := [[K_sched, K_pool], [K_sched, K_pool, K_pool, K_pool], [K_sched], [K_sched, K_pool, K_pool]]
def check_ABTI_sched_create_basic (o : Outcome) : Bool :=
  failBalanced o && successExact allowed_ABTI_sched_create_basic o && handleOk ABTI_sched_create_basic o && preUntouched ABTI_sched_create_basic o
theorem runs_ABTI_sched_create_basic : allRuns ABTI_sched_create_basic 600 2 check_ABTI_sched_create_basic = true := by decide +kernel
theorem nonvacuous_ABTI_sched_create_basic : 0 < injectedRuns ABTI_sched_create_basic 600 2 := by decide +kernel

def allowed_pool_create : List (List Kind) := [[K_mem, K_userdata], [K_mem]]
def check_pool_create (o : Outcome) : Bool :=
  failBalanced o && successExact allowed_pool_create o && handleOk pool_create o && preUntouched pool_create o
theorem runs_pool_create : allRuns pool_create 400 0 check_pool_create = true := by decide +kernel
theorem nonvacuous_pool_create : 0 < injectedRuns pool_create 400 0 := by decide +kernel

def allowed_ABT_pool_create : List (List Kind) := [[K_pool]]
def check_ABT_pool_create (o : Outcome) : Bool :=
  failBalanced o && successExact allowed_ABT_pool_create o && handleOk ABT_pool_create o && preUntouched ABT_pool_create o
theorem runs_ABT_pool_create : allRuns ABT_pool_create 400 0 check_ABT_pool_create = true := by decide +kernel
theorem nonvacuous_ABT_pool_create : 0 < injectedRuns ABT_pool_create 400 0 := by decide +kernel

def allowed_ABTI_pool_create_basic : List (List Kind) := [[K_pool]]
def check_ABTI_pool_create_basic (o : Outcome) : Bool :=
  failBalanced o && successExact allowed_ABTI_pool_create_basic o && handleOk ABTI_pool_create_basic o && preUntouched ABTI_pool_create_basic o
theorem runs_ABTI_pool_create_basic : allRuns ABTI_pool_create_basic 400 0 check_ABTI_pool_create_basic = true := by decide +kernel
theorem nonvacuous_ABTI_pool_create_basic : 0 < injectedRuns ABTI_pool_create_basic 400 0 := by decide +kernel

def allowed_ABT_pool_add_sched : List (List Kind) := [[K_ythread]]
def check_ABT_pool_add_sched (o : Outcome) : Bool :=
  failBalanced o && successExact allowed_ABT_pool_add_sched o && handleOk ABT_pool_add_sched o && preUntouched ABT_pool_add_sched o
theorem runs_ABT_pool_add_sched : allRuns ABT_pool_add_sched 400 0 check_ABT_pool_add_sched = true := by decide +kernel
theorem nonvacuous_ABT_pool_add_sched : 0 < injectedRuns ABT_pool_add_sched 400 0 := by decide +kernel

def allowed_ABTI_thread_init_pool : List (List Kind) := [[], [K_unit, K_unitmap]]
def check_ABTI_thread_init_pool (o : Outcome) : Bool :=
  failBalanced o && successExact allowed_ABTI_thread_init_pool o && handleOk ABTI_thread_init_pool o && preUntouched ABTI_thread_init_pool o
theorem runs_ABTI_thread_init_pool : allRuns ABTI_thread_init_pool 400 0 check_ABTI_thread_init_pool = true := by decide +kernel
theorem nonvacuous_ABTI_thread_init_pool : 0 < injectedRuns ABTI_thread_init_pool 400 0 := by decide +kernel

def allowed_ABTI_ktable_create : List (List Kind) := [[K_mem]]
def check_ABTI_ktable_create (o : Outcome) : Bool :=
  failBalanced o && successExact allowed_ABTI_ktable_create o && handleOk ABTI_ktable_create o && preUntouched ABTI_ktable_create o
theorem runs_ABTI_ktable_create : allRuns ABTI_ktable_create 400 0 check_ABTI_ktable_create = true := by decide +kernel
theorem nonvacuous_ABTI_ktable_create : 0 < injectedRuns ABTI_ktable_create 400 0 := by decide +kernel

def allowed_ABT_eventual_create : List (List Kind) := [[K_mem], [K_mem, K_mem]]
def check_ABT_eventual_create (o : Outcome) : Bool :=
  failBalanced o && successExact allowed_ABT_eventual_create o && handleOk ABT_eventual_create o && preUntouched ABT_eventual_create o
theorem runs_ABT_eventual_create : allRuns ABT_eventual_create 400 0 check_ABT_eventual_create = true := by decide +kernel
theorem nonvacuous_ABT_eventual_create : 0 < injectedRuns ABT_eventual_create 400 0 := by decide +kernel

def allowed_ABT_future_create : List (List Kind) := [[K_mem, K_mem], [K_mem]]
def check_ABT_future_create (o : Outcome) : Bool :=
  failBalanced o && successExact allowed_ABT_future_create o && handleOk ABT_future_create o && preUntouched ABT_future_create o
theorem runs_ABT_future_create : allRuns ABT_future_create 400 0 check_ABT_future_create = true := by decide +kernel
theorem nonvacuous_ABT_future_create : 0 < injectedRuns ABT_future_create 400 0 := by decide +kernel

def allowed_ABT_mutex_create : List (List Kind) := [[K_mem]]
def check_ABT_mutex_create (o : Outcome) : Bool :=
  failBalanced o && successExact allowed_ABT_mutex_create o && handleOk ABT_mutex_create o && preUntouched ABT_mutex_create o
theorem runs_ABT_mutex_create : allRuns ABT_mutex_create 400 0 check_ABT_mutex_create = true := by decide +kernel
theorem nonvacuous_ABT_mutex_create : 0 < injectedRuns ABT_mutex_create 400 0 := by decide +kernel

def allowed_ABT_cond_create : List (List Kind) := [[K_mem]]
def check_ABT_cond_create (o : Outcome) : Bool :=
  failBalanced o && successExact allowed_ABT_cond_create o && handleOk ABT_cond_create o && preUntouched ABT_cond_create o
theorem runs_ABT_cond_create : allRuns ABT_cond_create 400 0 check_ABT_cond_create = true := by decide +kernel
theorem nonvacuous_ABT_cond_create : 0 < injectedRuns ABT_cond_create 400 0 := by decide +kernel

def allowed_ABT_barrier_create : List (List Kind) := [[K_mem]]
def check_ABT_barrier_create (o : Outcome) : Bool :=
  failBalanced o && successExact allowed_ABT_barrier_create o && handleOk ABT_barrier_create o && preUntouched ABT_barrier_create o
theorem runs_ABT_barrier_create : allRuns ABT_barrier_create 400 0 check_ABT_barrier_create = true := by decide +kernel
theorem nonvacuous_ABT_barrier_create : 0 < injectedRuns ABT_barrier_create 400 0 := by decide +kernel

def allowed_ABT_rwlock_create : List (List Kind) := [[K_mem]]
def check_ABT_rwlock_create (o : Outcome) : Bool :=
  failBalanced o && successExact allowed_ABT_rwlock_create o && handleOk ABT_rwlock_create o && preUntouched ABT_rwlock_create o
theorem runs_ABT_rwlock_create : allRuns ABT_rwlock_create 400 0 check_ABT_rwlock_create = true := by decide +kernel
theorem nonvacuous_ABT_rwlock_create : 0 < injectedRuns ABT_rwlock_create 400 0 := by decide +kernel

def allowed_ABT_key_create : List (List Kind) := [[K_mem]]
def check_ABT_key_create (o : Outcome) : Bool :=
  failBalanced o && successExact allowed_ABT_key_create o && handleOk ABT_key_create o && preUntouched ABT_key_create o
theorem runs_ABT_key_create : allRuns ABT_key_create 400 0 check_ABT_key_create = true := by decide +kernel
theorem nonvacuous_ABT_key_create : 0 < injectedRuns ABT_key_create 400 0 := by decide +kernel

def allowed_ABT_timer_create : List (List Kind) := [[K_mem]]
def check_ABT_timer_create (o : Outcome) : Bool :=
  failBalanced o && successExact allowed_ABT_timer_create o && handleOk ABT_timer_create o && preUntouched ABT_timer_create o
theorem runs_ABT_timer_create : allRuns ABT_timer_create 400 0 check_ABT_timer_create = true := by decide +kernel
theorem nonvacuous_ABT_timer_create : 0 < injectedRuns ABT_timer_create 400 0 := by decide +kernel

def allowed_timer_alloc : List (List Kind) := [[K_mem]]
def check_timer_alloc (o : Outcome) : Bool :=
  failBalanced o && successExact allowed_timer_alloc o && handleOk timer_alloc o && preUntouched timer_alloc o
theorem runs_timer_alloc : allRuns timer_alloc 400 0 check_timer_alloc = true := by decide +kernel
theorem nonvacuous_timer_alloc : 0 < injectedRuns timer_alloc 400 0 := by decide +kernel

def allowed_ABT_xstream_barrier_create : List (List Kind) := [[K_mem, K_syncobj]]
def check_ABT_xstream_barrier_create (o : Outcome) : Bool :=
  failBalanced o && successExact allowed_ABT_xstream_barrier_create o && handleOk ABT_xstream_barrier_create o && preUntouched ABT_xstream_barrier_create o
theorem runs_ABT_xstream_barrier_create : allRuns ABT_xstream_barrier_create 400 0 check_ABT_xstream_barrier_create = true := by decide +kernel
theorem nonvacuous_ABT_xstream_barrier_create : 0 < injectedRuns ABT_xstream_barrier_create 400 0 := by decide +kernel

def allowed_ABT_thread_attr_create : List (List Kind) := [[K_mem]]
def check_ABT_thread_attr_create (o : Outcome) : Bool :=
  failBalanced o && successExact allowed_ABT_thread_attr_create o && handleOk ABT_thread_attr_create o && preUntouched ABT_thread_attr_create o
theorem runs_ABT_thread_attr_create : allRuns ABT_thread_attr_create 400 0 check_ABT_thread_attr_create = true := by decide +kernel
theorem nonvacuous_ABT_thread_attr_create : 0 < injectedRuns ABT_thread_attr_create 400 0 := by decide +kernel

def allowed_ABT_mutex_attr_create : List (List Kind) := [[K_mem]]
def check_ABT_mutex_attr_create (o : Outcome) : Bool :=
  failBalanced o && successExact allowed_ABT_mutex_attr_create o && handleOk ABT_mutex_attr_create o && preUntouched ABT_mutex_attr_create o
theorem runs_ABT_mutex_attr_create : allRuns ABT_mutex_attr_create 400 0 check_ABT_mutex_attr_create = true := by decide +kernel
theorem nonvacuous_ABT_mutex_attr_create : 0 < injectedRuns ABT_mutex_attr_create 400 0 := by decide +kernel

end ArgoVerif.Proofs.LedgerRuns
