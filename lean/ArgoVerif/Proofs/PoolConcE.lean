import ArgoVerif.Proofs.PoolConcD
/- Proofs.PoolConcE — invariant preservation: take (hook 26) and unlink (hook 27). -/
namespace ArgoVerif.Model.PoolConc
open ArgoVerif ArgoVerif.Model.TQ
set_option maxHeartbeats 1000000

theorem inv_take {cfg : Cfg} {s s' : St} {a : Actor} {r : Nat} {hd : Bool} (h : Inv cfg s)
    (hs : stepTake cfg s a r hd = some s') : Inv cfg s' := by
  unfold stepTake at hs
  split at hs
  · simp at hs
  next hg =>
  have hpc : s.pc a = .csPop := by simp_all
  have hown : s.owner = some a := by simp_all
  have hidle : s.pc a ≠ .idle := by simp [hpc]
  have hpl : isPopLike (s.cur a) = true := (h.typed a).2.1 (by simp [hpc, PopPc])
  have hnr := poplike_not_remove hpl
  have hlag : s.lagF ≠ some a := by
    intro e; have := h.lagPc a e; simp [hpc] at this
  have hspec := specRun_snoc h.lin (spec_pop s.q (tailOf (s.cur a)))
  split at hs
  next hq =>
    -- the queue is empty: NULL
    simp only [Option.some.injEq] at hs; subst hs
    have hrest : takeRest s.q (tailOf (s.cur a)) = s.q := by simp [hq, takeRest]
    rw [hrest] at hspec
    apply inv_update h (a := a)
    case opc | ocur | ocnt | opu | ogot | orc | ose | osa => intro b hb; simp [setPc, upd, hb]
    case hown => intro b hb e; simpa [setPc] using e
    case hq => exact Or.inl rfl
    case hlag => exact Or.inl rfl
    case hflag => exact Or.inl rfl
    case g1 => simpa [setPc] using h.lockOwner
    case g2 => exact h.flagQ
    case g3 => exact h.lagQ
    case g4 => simpa [setPc] using hspec
    case g5 => exact h.inQ
    case a1 => intro _; simpa [setPc] using hown
    case a2 => intro hsh _; simpa [setPc] using hown
    case a4 => simpa [setPc, upd] using fun e => absurd e hlag
    case a7 => exact h.rmNZ a
    case a9 => intro _ _; exact h.cntGot a hpl hidle
    case a12 => intro _ _; exact Or.inr (by simp [setPc, upd])
    case a13 => simp [setPc, hnr]
    all_goals (rcases leave_cases cfg (s.cur a) with e | e <;> simp [setPc, upd, e, Wanting, Typed, PushPc, PopPc, RmPc])
  next hq =>
    simp only [Option.some.injEq] at hs; subst hs
    have hgood := h.good
    have hnotin := taken_not_in_rest hgood hq (tailOf (s.cur a))
    have hfl : s.flag = false := by
      cases hf : s.flag
      · rfl
      · exact absurd (h.flagQ hf) hq
    have hcp := h.cntPos a hpl (by simp [hpc, Wanting])
    have hcg := h.cntGot a hpl hidle
    have hsub : ∀ y, y ∈ takeRest s.q (tailOf (s.cur a)) → y ∈ s.q := fun y hy => rest_subset (tailOf (s.cur a)) hy
    generalize hrest : takeRest s.q (tailOf (s.cur a)) = rest at *
    generalize hx : takeUnit s.q (tailOf (s.cur a)) = x at *
    apply inv_update h (a := a)
    case opc | ocur | ocnt | opu | ogot | orc | ose | osa => intro b hb; simp [setPc, upd, hb]
    case hown => intro b hb e; simpa [setPc] using e
    case hq => exact Or.inr hown
    case hlag =>
      by_cases hr : rest = []
      · exact Or.inr ⟨hown, Or.inr (by simp [setPc, hr])⟩
      · exact Or.inl (by simp [setPc, hr])
    case hflag => exact Or.inl rfl
    case g1 => simpa [setPc] using h.lockOwner
    case g2 => intro hf; simp [setPc, hfl] at hf
    case g3 => intro _ hr; simp only [setPc] at hr ⊢; simp [hr]
    case g4 => simpa [setPc] using hspec
    case g5 => intro y hy; exact h.inQ y (hsub y (by simpa [setPc] using hy))
    case a1 => intro _; simpa [setPc] using hown
    case a2 => intro hsh _; simpa [setPc] using hown
    case a3 => by_cases hr : rest = [] <;> simp [setPc, upd, hr]
    case a4 =>
      by_cases hr : rest = []
      · simp [setPc, upd, hr]
      · simpa [setPc, upd, hr] using fun e => absurd e hlag
    case a5 => by_cases hr : rest = [] <;> simp [setPc, upd, hr]
    case a6 => intro _; simpa [setPc, upd] using hnotin
    case a7 => exact h.rmNZ a
    case a8 => by_cases hr : rest = [] <;> simp [setPc, upd, hr, Typed, PushPc, PopPc, RmPc]
    case a9 =>
      intro _ _
      simp only [setPc, upd, if_true, List.length_append, List.length_cons, List.length_nil]
      omega
    case a10 => by_cases hr : rest = [] <;> simp [setPc, upd, hr, Wanting]
    case a11 => intro _ _; simp [setPc, upd]
    case a12 => by_cases hr : rest = [] <;> simp [setPc, upd, hr]
    case a13 => simp [setPc, hnr]
    case a14 => by_cases hr : rest = [] <;> simp [setPc, upd, hr]

theorem inv_unlink {cfg : Cfg} {s s' : St} {a : Actor} {u : Nat} (h : Inv cfg s)
    (hs : stepUnlink s a u = some s') : Inv cfg s' := by
  unfold stepUnlink at hs
  split at hs
  · simp at hs
  next hg =>
  simp only [Option.some.injEq] at hs; subst hs
  have hpc : s.pc a = .csRm := by simp_all
  have hown : s.owner = some a := by simp_all
  have hcur : s.cur a = .remove u := by simp_all
  have hq : s.q ≠ [] := by simp_all
  have hmem : u ∈ s.q := by simp_all
  have hidle : s.pc a ≠ .idle := by simp [hpc]
  have hrm : isRemove (s.cur a) = true := by simp [hcur, isRemove]
  have hnp := remove_not_poplike hrm
  have hu0 : u ≠ 0 := by have := h.rmNZ a hrm; simpa [hcur, removeArg] using this
  have hlag : s.lagF ≠ some a := by
    intro e; have := h.lagPc a e; simp [hpc] at this
  have hfl : s.flag = false := by
    cases hf : s.flag
    · rfl
    · exact absurd (h.flagQ hf) hq
  have hspec := specRun_snoc h.lin (spec_remove_ok hu0 hmem)
  have hnotin : u ∉ s.q.erase u := fun hm => ((List.Nodup.mem_erase_iff h.good.1).mp hm).1 rfl
  apply inv_update h (a := a)
  case opc | ocur | ocnt | opu | ogot | orc | ose | osa => intro b hb; simp [setPc, upd, hb]
  case hown => intro b hb e; simpa [setPc] using e
  case hq => exact Or.inr hown
  case hlag =>
    by_cases hr : s.q.erase u = []
    · exact Or.inr ⟨hown, Or.inr (by simp [setPc, hr])⟩
    · exact Or.inl (by simp [setPc, hr])
  case hflag => exact Or.inl rfl
  case g1 => simpa [setPc] using h.lockOwner
  case g2 => intro hf; simp [setPc, hfl] at hf
  case g3 => intro _ hr; simp only [setPc] at hr ⊢; simp [hr]
  case g4 => simpa [setPc] using hspec
  case g5 => intro y hy; exact h.inQ y (List.mem_of_mem_erase (by simpa [setPc] using hy))
  case a1 => intro _; simpa [setPc] using hown
  case a2 => intro hsh _; simpa [setPc] using hown
  case a3 => by_cases hr : s.q.erase u = [] <;> simp [setPc, upd, hr]
  case a4 =>
    by_cases hr : s.q.erase u = []
    · simp [setPc, upd, hr]
    · simpa [setPc, upd, hr] using fun e => absurd e hlag
  case a5 => by_cases hr : s.q.erase u = [] <;> simp [setPc, upd, hr]
  case a6 => intro _; simpa [setPc, upd] using hnotin
  case a7 => exact h.rmNZ a
  case a8 => by_cases hr : s.q.erase u = [] <;> simp [setPc, upd, hr, Typed, PushPc, PopPc, RmPc]
  case a9 => simp [setPc, hnp]
  case a10 => simp [setPc, hnp]
  case a11 => simp [setPc, hnp]
  case a12 => simp [setPc, hnp]
  case a13 => intro _ _; exact Or.inl (by simp [setPc, upd])
  case a14 => by_cases hr : s.q.erase u = [] <;> simp [setPc, upd, hr]

end ArgoVerif.Model.PoolConc
