import ArgoVerif.Proofs.PopWaitC
/- Proofs.PopWaitC4 — timing invariant: the `is_empty` load that returns 0 (pool seen non-empty). -/
namespace ArgoVerif.Model.PopWait
open ArgoVerif
set_option maxHeartbeats 2000000

theorem invC_loadEmpty_false (k : Kind) (s s' : St) (a : Actor) (hA : InvA k s) (h : InvC k s)
    (hs : stepLoadEmpty s a false = some s') : InvC k (bump s' (some a)) := by
  unfold stepLoadEmpty at hs
  split at hs
  · cases hs
  · simp only [Bool.false_eq_true, if_false] at hs
    (repeat' (split at hs)) <;> pointwise hA h a hs

end ArgoVerif.Model.PopWait
