import ArgoVerif.Proofs.PopWaitC
/- Proofs.PopWaitC4 — timing invariant: the `is_empty` load and the lock release. -/
namespace ArgoVerif.Model.PopWait
open ArgoVerif
set_option maxHeartbeats 2000000

theorem invC_loadEmpty (k : Kind) (s s' : St) (a : Actor) (v : Bool) (hA : InvA k s) (h : InvC k s)
    (hs : stepLoadEmpty s a v = some s') : InvC k (bump s' (some a)) := by
  unfold stepLoadEmpty at hs
  split at hs
  · cases hs
  · rename_i hv
    have hv : v = s.flag := by simpa using hv
    cases v
    · simp only [Bool.false_eq_true, if_false] at hs
      (repeat' (split at hs)) <;> pointwise hA h a hs
    · have hq : s.q = [] := hA.flagIff.mp hv.symm
      simp only [if_true, hq, decide_true, afterEmpty] at hs
      (repeat' (split at hs)) <;> pointwise hA h a hs

end ArgoVerif.Model.PopWait
