import ArgoVerif.Proofs.Eventual
/- Proofs.Eventual2 — invariant preservation for lock acquisition and release (split for build parallelism). -/
namespace ArgoVerif.Model.Eventual
open ArgoVerif
set_option maxHeartbeats 4000000

theorem inv_stepAcq_t (s s' : St) (a : Actor) (h : Inv s) (hs : stepAcq s a true = some s') : Inv s' := by
  unfold stepAcq at hs
  simp only [if_true] at hs
  (repeat' (split at hs)) <;> first | (cases hs; done) | (cases hs; exact h)

theorem acq_f_free (s s' : St) (a : Actor) (hs : stepAcq s a false = some s') : s.lock = none := by
  unfold stepAcq at hs
  split at hs
  · cases hs
  · cases hl : s.lock <;> simp_all

/-- what a successful lock acquisition does, by the caller's program counter -/
theorem acq_f_cases (s s' : St) (a : Actor) (hs : stepAcq s a false = some s') :
    (s.pc a = .setCalled ∧ s.ready = true ∧ s' = lockAs s a .setErrCS) ∨
    (s.pc a = .setCalled ∧ s.ready = false ∧ s' = doSet s a) ∨
    (s.pc a = .waitCalled ∧ s.ready = true ∧ s' = lockAs s a .passCS) ∨
    (s.pc a = .waitCalled ∧ s.ready = false ∧ s' = setPc { s with lock := some a } a .waitCS) ∨
    (s.pc a = .testCalled ∧ s.ready = true ∧ s' = lockAs s a .testCS1) ∨
    (s.pc a = .testCalled ∧ s.ready = false ∧ s' = lockAs s a .testCS0) ∨
    (s.pc a = .resetCalled ∧ s' = setPc { s with lock := some a, ready := false, epoch := s.epoch + 1 } a .resetCS) ∨
    (s.pc a = .freeCalled ∧ s.q = [] ∧ s' = setPc { s with lock := some a } a .freeCS) ∨
    (s.pc a = .waiting ∧ s.kind a ≠ .ult ∧ s' = setPc { s with lock := some a } a .reW) ∨
    (s.pc a = .woken ∧ s.kind a ≠ .ult ∧ s' = setPc { s with lock := some a } a .reR) := by
  unfold stepAcq at hs
  simp only [Bool.false_eq_true, if_false] at hs
  split at hs
  · cases hs
  · cases hr : s.ready <;> (split at hs) <;> simp_all

theorem inv_stepAcq_f (s s' : St) (a : Actor) (h : Inv s) (hs : stepAcq s a false = some s') : Inv s' := by
  have hl := acq_f_free s s' a hs
  have hq : s.ready = true → s.q = [] := by
    intro hr
    cases hq : s.q with
    | nil => rfl
    | cons x t => have := (h.noLost (by rw [hq]; simp) hr).1; exact absurd hl this
  rcases acq_f_cases s s' a hs with ⟨hp, hr, rfl⟩ | ⟨hp, hr, rfl⟩ | ⟨hp, hr, rfl⟩ | ⟨hp, hr, rfl⟩ | ⟨hp, hr, rfl⟩ |
      ⟨hp, hr, rfl⟩ | ⟨hp, rfl⟩ | ⟨hp, hq0, rfl⟩ | ⟨hp, hk, rfl⟩ | ⟨hp, hk, rfl⟩ <;> constructor <;> inv_tac h

theorem chk_some (s s' : St) (r e : Bool) (hs : chk s r e = some s') : s' = s ∧ r = s.ready ∧ e = s.q.isEmpty := by
  unfold chk at hs
  split at hs
  · cases hs; simp_all
  · cases hs

theorem inv_stepRel (s s' : St) (a : Actor) (r e : Bool) (h : Inv s) (hs : stepRel s a r e = some s') : Inv s' := by
  unfold stepRel at hs
  (repeat' (split at hs)) <;>
    first
    | (cases hs; done)
    | (have hc := (chk_some _ _ _ _ hs).1; subst hc; constructor <;> inv_tac h)

/-! what a return step tells about the returning actor -/
theorem ret_wait_ok (s s' : St) (a : Actor) (r : Bool) (v : Val) (hs : stepRet s a .wait .ok r v = some s') :
    (s.pc a = .woken ∨ s.pc a = .waitDone) ∧ v = s.value := by
  unfold stepRet at hs
  split at hs <;> simp_all

theorem ret_test_true (s s' : St) (a : Actor) (v : Val) (hs : stepRet s a .test .ok true v = some s') :
    s.pc a = .testDone1 ∧ v = s.value := by
  unfold stepRet at hs
  split at hs <;> simp_all

theorem ret_set (s s' : St) (a : Actor) (rc : Rc) (r : Bool) (v : Val) (hs : stepRet s a .set rc r v = some s') :
    ((s.pc a = .setOkDone ∧ rc = .ok) ∨ (s.pc a = .setErrDone ∧ rc = .errEventual)) ∧ v = s.value ∧
    s' = setPc s a .idle := by
  unfold stepRet at hs
  split at hs <;> simp_all

end ArgoVerif.Model.Eventual
