import ArgoVerif.Proofs.PopWaitC
/- Proofs.PopWaitC5 — timing invariant: the pop inside the critical section and the clock reads. -/
namespace ArgoVerif.Model.PopWait
open ArgoVerif
set_option maxHeartbeats 2000000

theorem invC_take (k : Kind) (s s' : St) (a : Actor) (r : Option Nat) (hA : InvA k s) (h : InvC k s) (hs : stepTake s a r = some s') :
    InvC k (bump s' (some a)) := by
  obtain ⟨p, hp, hcase⟩ := take_cases s s' a r hs
  rcases hcase with ⟨_, _, rfl⟩ | ⟨x, rest, _, _, rfl⟩ <;>
    (intro b
     by_cases hb : b = a
     · subst hb
       rcases hp with ⟨e, rfl⟩ | ⟨e, rfl⟩ | ⟨e, rfl⟩ <;> acting hA h b
     · other h b hb)

end ArgoVerif.Model.PopWait
