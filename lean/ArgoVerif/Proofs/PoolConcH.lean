import ArgoVerif.Proofs.PoolConcG
/- Proofs.PoolConcH — what the individual events do to the linearisation history (read off the definitions),
and that every ring access is made by the lock owner. -/
namespace ArgoVerif.Model.PoolConc
open ArgoVerif ArgoVerif.Model.TQ
set_option maxHeartbeats 1000000

/-- every event that reads or writes the ring is guarded by lock ownership and happens inside the critical section -/
theorem mutation_owner {cfg : Cfg} {s s' : St} {e : Ev} (hm : isMutation e = true) (hs : step cfg s e = some s') :
    s.owner = some (actorOf e) ∧ InCS (s.pc (actorOf e)) := by
  cases e <;> simp [isMutation] at hm
  case link a u hd =>
    simp only [step, stepLink] at hs
    split at hs
    next rest hpc htodo =>
      split at hs; · simp at hs
      next hg => simp_all [actorOf, InCS]
    · simp at hs
  case take a r hd =>
    simp only [step, stepTake] at hs
    split at hs; · simp at hs
    next hg => simp_all [actorOf, InCS]
  case unlink a u =>
    simp only [step, stepUnlink] at hs
    split at hs; · simp at hs
    next hg => simp_all [actorOf, InCS]
  case rmFail a =>
    simp only [step, stepRmFail] at hs
    split at hs; · simp at hs
    next hg => simp_all [actorOf, InCS]
  case storeEmpty a v =>
    simp only [step, stepStoreEmpty] at hs
    split at hs; · simp at hs
    next hg =>
    split at hs <;> (try (simp at hs; done)) <;> simp_all [actorOf, InCS]
  case storeIn a u v =>
    simp only [step, stepStoreIn] at hs
    split at hs; · simp at hs
    next hg =>
    split at hs <;> (try (simp at hs; done)) <;> simp_all [actorOf, InCS]

theorem takeUnit_mem {q : List Nat} (hq : q ≠ []) (tl : Bool) : takeUnit q tl ∈ q := by
  unfold takeUnit
  cases tl with
  | false =>
    cases q with
    | nil => exact absurd rfl hq
    | cons x r => simp
  | true =>
    have hl : q.getLast? = some (q.getLast hq) := List.getLast?_eq_some_getLast hq
    simp [hl]

/-- hook 26 is the linearisation point of a pop: it appends the deque operation with the unit it selected (0 = NULL) to
the history, and that unit (if any) to what the call will return -/
theorem take_linearized {cfg : Cfg} {s s' : St} {a : Actor} {r : Nat} {hd : Bool} (hi : Inv cfg s)
    (hs : step cfg s (.take a r hd) = some s') :
    s'.linOps = s.linOps ++ [popOp (tailOf (s.cur a))] ∧ s'.linOuts = s.linOuts ++ [.popped r] ∧
    s'.got a = s.got a ++ (if r = 0 then [] else [r]) ∧ (r = 0 ↔ s.q = []) := by
  simp only [step, stepTake] at hs
  split at hs; · simp at hs
  next hg =>
  have hr : r = takeUnit s.q (tailOf (s.cur a)) := by simp_all
  split at hs
  next hq =>
    simp only [Option.some.injEq] at hs; subst hs
    have h0 : takeUnit [] (tailOf (s.cur a)) = 0 := by cases tailOf (s.cur a) <;> simp [takeUnit]
    have : r = 0 := by rw [hr, hq, h0]
    simp [setPc, this, hq, h0]
  next hq =>
    simp only [Option.some.injEq] at hs; subst hs
    have hne : r ≠ 0 := by
      intro e; have := takeUnit_mem hq (tailOf (s.cur a)); rw [← hr, e] at this; exact hi.good.2 this
    simp [setPc, upd, hne, hq, ← hr]

/-- a push is linearised at its last atomic step (`is_in_pool := 1`) -/
theorem push_linearized {cfg : Cfg} {s s' : St} {a : Actor} {u : Nat} (hs : step cfg s (.storeIn a u true) = some s') :
    s'.linOps = s.linOps ++ [pushOp u (headOf (s.cur a))] ∧ s'.linOuts = s.linOuts ++ [.unit] ∧
    s'.q = (if headOf (s.cur a) then u :: s.q else s.q ++ [u]) := by
  simp only [step, stepStoreIn] at hs
  split at hs; · simp at hs
  split at hs <;> (try (simp at hs; done))
  split at hs; · simp at hs
  simp only [Option.some.injEq] at hs; subst hs; simp [setPc]

/-- hook 27 is the linearisation point of a successful remove -/
theorem remove_linearized {cfg : Cfg} {s s' : St} {a : Actor} {u : Nat} (hs : step cfg s (.unlink a u) = some s') :
    s'.linOps = s.linOps ++ [.remove u] ∧ s'.linOuts = s.linOuts ++ [.rc .success] ∧ s'.rcOk a = true ∧
    s.cur a = .remove u := by
  simp only [step, stepUnlink] at hs
  split at hs; · simp at hs
  next hg =>
  simp only [Option.some.injEq] at hs; subst hs
  simp_all [setPc, upd]

/-- what a call returns is what its linearisation steps recorded -/
theorem ret_recorded {cfg : Cfg} {s s' : St} {a : Actor} {r : Res} (hs : step cfg s (.ret a r) = some s') :
    r = resultOf s a := by
  simp only [step, stepRet] at hs
  split at hs
  next hg => exact hg.2
  · simp at hs

end ArgoVerif.Model.PoolConc
