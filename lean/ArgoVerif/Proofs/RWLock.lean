import ArgoVerif.Model.RWLock
/-
Proofs.RWLock — the inductive invariant of Model.RWLock and its preservation by `call`.  Proofs.RWLock2 has ret / mutexLock / mutexUnlock /
enq, Proofs.RWLock5 sleep / wake, Proofs.RWLock3 update, Proofs.RWLock4 deadlock freedom.
-/
namespace ArgoVerif.Model.RWLock
open ArgoVerif
set_option maxHeartbeats 4000000

/-- program counters at which the actor holds the internal mutex -/
def InM : Pc → Prop
  | .rTest | .wTest | .uUpd | .rUnlock | .wUnlock | .uBcast => True
  | _ => False

/-- asleep in the cond wait-list -/
def Asleep : Pc → Prop
  | .rSleep | .wSleep => True
  | _ => False

/-- program counters a reader holder can be at: idle, inside a (nested) rdlock that has not slept, inside unlock -/
def RdOk : Pc → Prop
  | .idle | .rLock | .rTest | .rUnlock | .rDone | .uLock | .uUpd | .uBcast | .uDone => True
  | _ => False

/-- program counters the writer holder can be at: finishing wrlock, idle, starting unlock -/
def WrOk : Pc → Prop
  | .wUnlock | .wDone | .idle | .uLock | .uUpd => True
  | _ => False

/-- an unlocker is between its counter update and the end of its broadcast (it holds the mutex) -/
def Bcasting (o : Option Actor) (pc : Actor → Pc) : Prop :=
  o ≠ none ∧ ∀ b, o = some b → pc b = .uBcast

structure Inv (s : St) : Prop where
  mhIff : ∀ a, s.mholder = some a ↔ InM (s.pc a)
  qIff : ∀ a, a ∈ s.q ↔ Asleep (s.pc a)
  nodup : s.q.Nodup
  wfIff : s.writeFlag = true ↔ s.writer ≠ none
  rcLen : s.readerCount = (s.readers.length : Int)
  excl : s.writer ≠ none → s.readers = []
  writerPc : ∀ a, s.writer = some a → WrOk (s.pc a)
  readerPc : ∀ a, a ∈ s.readers → RdOk (s.pc a)
  wHolds : ∀ a, (s.pc a = .wUnlock ∨ s.pc a = .wDone) → s.writer = some a
  rHolds : ∀ a, (s.pc a = .rUnlock ∨ s.pc a = .rDone) → a ∈ s.readers
  uHolds : ∀ a, (s.pc a = .uLock ∨ s.pc a = .uUpd) → (a ∈ s.readers ∨ s.writer = some a)
  rSleepOk : ∀ a, s.pc a = .rSleep → s.writeFlag = true ∨ Bcasting s.mholder s.pc
  wSleepOk : ∀ a, s.pc a = .wSleep → s.writeFlag = true ∨ s.readerCount ≠ 0 ∨ Bcasting s.mholder s.pc
  taskPc : ∀ a, s.kind a = .tasklet → (s.pc a = .idle ∨ s.pc a = .rRejected ∨ s.pc a = .wRejected)
  taskNoHold : ∀ a, s.kind a = .tasklet → a ∉ s.readers ∧ s.writer ≠ some a

theorem inv_init (k : Actor → Kind) : Inv (init k) := by
  constructor <;> simp [init, InM, Asleep, RdOk, WrOk, Bcasting]

macro "inv_tac" h:ident : tactic => `(tactic|
  (have := ($h).mhIff; have := ($h).qIff; have := ($h).nodup; have := ($h).wfIff; have := ($h).rcLen
   have := ($h).excl; have := ($h).writerPc; have := ($h).readerPc; have := ($h).wHolds; have := ($h).rHolds
   have := ($h).uHolds; have := ($h).rSleepOk; have := ($h).wSleepOk; have := ($h).taskPc; have := ($h).taskNoHold
   try simp only [setPc, takeM, dropM] at *
   grind [upd, InM, Asleep, RdOk, WrOk, Bcasting, wokenPc]))

macro "close_tac" h:ident hs:ident : tactic => `(tactic|
  first
  | (cases $hs:ident; done)
  | (cases $hs:ident; constructor <;> inv_tac $h))

theorem inv_stepCall_rdlock (s s' : St) (a : Actor) (h : Inv s) (hs : stepCall s a .rdlock = some s') : Inv s' := by
  unfold stepCall at hs
  (repeat' (split at hs)) <;> close_tac h hs

theorem inv_stepCall_wrlock (s s' : St) (a : Actor) (h : Inv s) (hs : stepCall s a .wrlock = some s') : Inv s' := by
  unfold stepCall at hs
  (repeat' (split at hs)) <;> close_tac h hs

theorem inv_stepCall_unlock (s s' : St) (a : Actor) (h : Inv s) (hs : stepCall s a .unlock = some s') : Inv s' := by
  unfold stepCall at hs
  (repeat' (split at hs)) <;> close_tac h hs

theorem inv_stepCall (s s' : St) (a : Actor) (op : Op) (h : Inv s) (hs : stepCall s a op = some s') : Inv s' := by
  cases op
  · exact inv_stepCall_rdlock s s' a h hs
  · exact inv_stepCall_wrlock s s' a h hs
  · exact inv_stepCall_unlock s s' a h hs

end ArgoVerif.Model.RWLock
