import ArgoVerif.Model.Rank
/-
Proofs.Rank — the pointer-level stream list refines "sorted list of live streams".
Generic singly-linked segment lemmas (`Seg`), used twice: forward along `p_next` and
backward along `p_prev` over the reversed node list.
-/
namespace ArgoVerif.Model.Rank

/-! ### segments -/

/-- `Seg f a xs b`: following `f` from `a` visits exactly the (non-NULL) nodes `xs`, then reaches `b` -/
def Seg (f : Ptr → Ptr) : Ptr → List Ptr → Ptr → Prop
  | a, [], b => a = b
  | a, x :: xs, b => a = x ∧ x ≠ 0 ∧ Seg f (f x) xs b

theorem seg_start {f : Ptr → Ptr} {a b : Ptr} {xs : List Ptr} (h : Seg f a xs b) : a = xs.headD b := by
  cases xs with
  | nil => exact h
  | cons x xs => exact h.1

theorem seg_nonzero {f : Ptr → Ptr} {a b : Ptr} {xs : List Ptr} (h : Seg f a xs b) : ∀ x ∈ xs, x ≠ 0 := by
  induction xs generalizing a with
  | nil => simp
  | cons x xs ih =>
    intro y hy
    simp only [List.mem_cons] at hy
    rcases hy with hy | hy
    · subst hy; exact h.2.1
    · exact ih h.2.2 y hy

theorem seg_frame {f g : Ptr → Ptr} {a b : Ptr} {xs : List Ptr} (h : Seg f a xs b)
    (hfg : ∀ x ∈ xs, g x = f x) : Seg g a xs b := by
  induction xs generalizing a with
  | nil => exact h
  | cons x xs ih =>
    refine ⟨h.1, h.2.1, ?_⟩
    rw [hfg x (by simp)]
    exact ih h.2.2 (fun y hy => hfg y (by simp [hy]))

theorem seg_append {f : Ptr → Ptr} {a b : Ptr} {l1 l2 : List Ptr} :
    Seg f a (l1 ++ l2) b ↔ Seg f a l1 (l2.headD b) ∧ Seg f (l2.headD b) l2 b := by
  induction l1 generalizing a with
  | nil =>
    simp only [List.nil_append, Seg]
    constructor
    · intro h; exact ⟨seg_start h, by rw [← seg_start h]; exact h⟩
    · intro h; rw [h.1]; exact h.2
  | cons x l1 ih =>
    simp only [List.cons_append, Seg, ih]
    constructor
    · intro h; exact ⟨⟨h.1, h.2.1, h.2.2.1⟩, h.2.2.2⟩
    · intro h; exact ⟨h.1.1, h.1.2.1, h.1.2.2, h.2⟩

/-- insert `p` between `l1` and `l2`: only `g p` and `g (last l1)` differ from `f` -/
theorem seg_insert {f g : Ptr → Ptr} {a b p : Ptr} {l1 l2 : List Ptr}
    (h : Seg f a (l1 ++ l2) b) (hp0 : p ≠ 0) (hnd : (l1 ++ l2).Nodup)
    (hgp : g p = l2.headD b)
    (hlast : ∀ z, l1.getLast? = some z → g z = p)
    (hrest : ∀ x ∈ l1 ++ l2, l1.getLast? ≠ some x → g x = f x) :
    Seg g ((l1 ++ [p]).headD 0) (l1 ++ p :: l2) b := by
  induction l1 generalizing a with
  | nil =>
    simp only [List.nil_append] at h hrest ⊢
    refine ⟨rfl, hp0, ?_⟩
    rw [hgp, ← seg_start h]
    exact seg_frame h (fun x hx => hrest x hx (by simp))
  | cons x l1 ih =>
    simp only [List.cons_append, Seg] at h ⊢
    simp only [List.cons_append, List.nodup_cons] at hnd
    refine ⟨by simp, h.2.1, ?_⟩
    cases l1 with
    | nil =>
      simp only [List.nil_append] at h hnd ⊢
      have hgx : g x = p := hlast x (by simp)
      rw [hgx]
      refine ⟨rfl, hp0, ?_⟩
      rw [hgp, ← seg_start h.2.2]
      refine seg_frame h.2.2 (fun y hy => hrest y (by simp [hy]) ?_)
      simp only [List.getLast?_singleton, ne_eq, Option.some.injEq]
      intro e; subst e; exact hnd.1 hy
    | cons y l1 =>
      have hgx : g x = f x := by
        apply hrest x (by simp)
        simp only [List.getLast?_cons_cons]
        intro e
        have : x ∈ (y :: l1) := List.mem_of_getLast? e
        exact hnd.1 (List.mem_append_left _ this)
      rw [hgx]
      have := ih (a := f x) h.2.2 hnd.2
        (fun z hz => hlast z (by simpa [List.getLast?_cons_cons] using hz))
        (fun z hz hne => hrest z (List.mem_cons_of_mem x hz) (by simpa [List.getLast?_cons_cons] using hne))
      have hfx : f x = y := by have h2 := seg_start h.2.2; simpa using h2
      rw [hfx]
      simpa using this

/-- unlink `p` from between `l1` and `l2`: only `g (last l1)` differs from `f` -/
theorem seg_remove {f g : Ptr → Ptr} {a b p : Ptr} {l1 l2 : List Ptr}
    (h : Seg f a (l1 ++ p :: l2) b) (hnd : (l1 ++ p :: l2).Nodup)
    (hlast : ∀ z, l1.getLast? = some z → g z = f p)
    (hrest : ∀ x ∈ l1 ++ l2, l1.getLast? ≠ some x → g x = f x) :
    Seg g ((l1 ++ [f p]).headD 0) (l1 ++ l2) b := by
  induction l1 generalizing a with
  | nil =>
    simp only [List.nil_append, Seg] at h hrest ⊢
    simp only [List.nil_append, List.cons_append, List.headD_cons]
    exact seg_frame h.2.2 (fun x hx => hrest x hx (by simp))
  | cons x l1 ih =>
    simp only [List.cons_append, Seg] at h ⊢
    simp only [List.cons_append, List.nodup_cons] at hnd
    refine ⟨by simp, h.2.1, ?_⟩
    cases l1 with
    | nil =>
      simp only [List.nil_append, Seg] at h hnd ⊢
      have hgx : g x = f p := hlast x (by simp)
      rw [hgx]
      refine seg_frame h.2.2.2.2 (fun y hy => hrest y (by simp [hy]) ?_)
      simp only [List.getLast?_singleton, ne_eq, Option.some.injEq]
      intro e; subst e; exact hnd.1 (by simp [hy])
    | cons y l1 =>
      have hgx : g x = f x := by
        apply hrest x (by simp)
        simp only [List.getLast?_cons_cons]
        intro e
        have : x ∈ (y :: l1) := List.mem_of_getLast? e
        exact hnd.1 (List.mem_append_left _ this)
      rw [hgx]
      have := ih (a := f x) h.2.2 hnd.2
        (fun z hz => hlast z (by simpa [List.getLast?_cons_cons] using hz))
        (fun z hz hne => hrest z (List.mem_cons_of_mem x hz) (by simpa [List.getLast?_cons_cons] using hne))
      have hfx : f x = y := by have h2 := seg_start h.2.2; simpa using h2
      rw [hfx]
      simpa using this

/-! ### small list facts -/

theorem headD_reverse (l : List Ptr) (d : Ptr) : l.reverse.headD d = l.getLastD d := by
  simp [List.headD_eq_head?_getD, List.getLastD_eq_getLast?]

theorem getLastD_append_cons (l1 l2 : List Ptr) (x d : Ptr) :
    (l1 ++ x :: l2).getLastD d = (x :: l2).getLastD d := by
  simp only [List.getLastD_eq_getLast?, List.getLast?_append]
  cases h : (x :: l2).getLast? with
  | none => simp at h
  | some v => simp

theorem nodup_reverse' {l : List Ptr} (h : l.Nodup) : l.reverse.Nodup := by
  unfold List.Nodup at *
  rw [List.pairwise_reverse]
  exact h.imp (fun hab => fun e => hab e.symm)

/-- strictly increasing ranks along the list -/
def Sorted (rk : Ptr → Int) (xs : List Ptr) : Prop := xs.Pairwise (fun a b => rk a < rk b)

theorem Sorted.nodup {rk : Ptr → Int} {xs : List Ptr} (h : Sorted rk xs) : xs.Nodup := by
  unfold Sorted at h
  unfold List.Nodup
  exact h.imp (fun hab => fun e => by subst e; omega)

theorem Sorted.congr {rk rk' : Ptr → Int} {xs : List Ptr} (h : Sorted rk xs)
    (he : ∀ x ∈ xs, rk' x = rk x) : Sorted rk' xs := by
  unfold Sorted at *
  induction xs with
  | nil => exact List.Pairwise.nil
  | cons x xs ih =>
    rw [List.pairwise_cons] at h ⊢
    refine ⟨fun y hy => ?_, ih h.2 (fun y hy => he y (by simp [hy]))⟩
    rw [he x (by simp), he y (by simp [hy])]
    exact h.1 y hy

/-! ### the loops -/

theorem walk_seg {f : Ptr → Ptr} : ∀ (xs : List Ptr) (a : Ptr) (n : Nat),
    Seg f a xs 0 → xs.length ≤ n → walk f n a = xs := by
  intro xs
  induction xs with
  | nil =>
    intro a n h _
    simp only [Seg] at h
    subst h
    cases n <;> simp [walk]
  | cons x xs ih =>
    intro a n h hn
    obtain ⟨h1, h2, h3⟩ := h
    subst h1
    cases n with
    | zero => simp at hn
    | succ n =>
      simp only [walk, h2, if_false]
      rw [ih _ _ h3 (by simpa using hn)]

theorem findLoop_spec (s : St) (r : Int) : ∀ (xs : List Ptr) (a : Ptr) (n : Nat),
    Seg s.next a xs 0 → Sorted s.rank xs → xs.length < n →
    findLoop s r n a = some (decide (r ∈ xs.map s.rank)) := by
  intro xs
  induction xs with
  | nil =>
    intro a n h _ hn
    simp only [Seg] at h
    subst h
    cases n with
    | zero => simp at hn
    | succ n => simp [findLoop]
  | cons x xs ih =>
    intro a n h hs hn
    obtain ⟨h1, h2, h3⟩ := h
    subst h1
    unfold Sorted at hs
    rw [List.pairwise_cons] at hs
    cases n with
    | zero => simp at hn
    | succ n =>
      simp only [findLoop, h2, if_false]
      by_cases he : s.rank a = r
      · simp [he]
      · simp only [he, if_false]
        by_cases hg : s.rank a > r
        · simp only [hg, if_true, List.map_cons, List.mem_cons]
          have : ¬ (r = s.rank a ∨ r ∈ xs.map s.rank) := by
            intro hh
            rcases hh with hh | hh
            · exact he hh.symm
            · simp only [List.mem_map] at hh
              obtain ⟨y, hy, hyr⟩ := hh
              have := hs.1 y hy
              omega
          exact congrArg some (decide_eq_false this).symm
        · simp only [hg, if_false]
          rw [ih _ _ h3 hs.2 (by simpa using hn)]
          have hne : ¬ r = s.rank a := fun e => he e.symm
          simp [hne]

/-- what the `rank == -1` loop computes, on the list of ranks -/
def mexFrom : Int → List Int → Int
  | r, [] => r
  | r, q :: qs => if q = r then mexFrom (r + 1) qs else r

theorem mexLoop_spec (s : St) : ∀ (xs : List Ptr) (a : Ptr) (n : Nat) (r : Int),
    Seg s.next a xs 0 → xs.length < n →
    mexLoop s n r a = some (mexFrom r (xs.map s.rank)) := by
  intro xs
  induction xs with
  | nil =>
    intro a n r h hn
    simp only [Seg] at h
    subst h
    cases n with
    | zero => simp at hn
    | succ n => simp [mexLoop, mexFrom]
  | cons x xs ih =>
    intro a n r h hn
    obtain ⟨h1, h2, h3⟩ := h
    subst h1
    cases n with
    | zero => simp at hn
    | succ n =>
      simp only [mexLoop, h2, if_false, List.map_cons, mexFrom]
      by_cases he : s.rank a = r
      · simp only [he, if_true]
        exact ih _ _ _ h3 (by simpa using hn)
      · simp [he]

/-- `mexFrom r` on a strictly increasing list bounded below by `r` is the least value ≥ r not in it -/
theorem mexFrom_spec : ∀ (qs : List Int) (r : Int), qs.Pairwise (· < ·) → (∀ q ∈ qs, r ≤ q) →
    r ≤ mexFrom r qs ∧ mexFrom r qs ∉ qs ∧ ∀ k, r ≤ k → k < mexFrom r qs → k ∈ qs := by
  intro qs
  induction qs with
  | nil => intro r _ _; simp [mexFrom]
  | cons q qs ih =>
    intro r hp hlb
    rw [List.pairwise_cons] at hp
    by_cases he : q = r
    · subst he
      simp only [mexFrom, if_true]
      have := ih (q + 1) hp.2 (fun q' hq' => by have := hp.1 q' hq'; omega)
      refine ⟨by omega, ?_, ?_⟩
      · simp only [List.mem_cons, not_or]
        exact ⟨by omega, this.2.1⟩
      · intro k hk1 hk2
        by_cases hk : k = q
        · simp [hk]
        · exact List.mem_cons_of_mem _ (this.2.2 k (by omega) hk2)
    · simp only [mexFrom, he, if_false]
      have hq := hlb q (by simp)
      refine ⟨by omega, ?_, fun k h1 h2 => by omega⟩
      simp only [List.mem_cons, not_or]
      refine ⟨fun e => he e.symm, fun hm => ?_⟩
      have := hp.1 r hm
      omega

theorem addLoop_spec (s : St) (r : Int) : ∀ (xs : List Ptr) (a pp : Ptr) (n : Nat),
    Seg s.next a xs 0 → Sorted s.rank xs → (∀ y ∈ xs, s.rank y ≠ r) → xs.length < n →
    ∃ l1 l2, xs = l1 ++ l2 ∧ (∀ y ∈ l1, s.rank y < r) ∧ (∀ y ∈ l2, r < s.rank y) ∧
      addLoop s r n pp a = some (l1.getLastD pp, l2.headD 0) := by
  intro xs
  induction xs with
  | nil =>
    intro a pp n h _ _ hn
    simp only [Seg] at h
    subst h
    cases n with
    | zero => simp at hn
    | succ n => exact ⟨[], [], by simp, by simp, by simp, by simp [addLoop]⟩
  | cons x xs ih =>
    intro a pp n h hs hne hn
    obtain ⟨h1, h2, h3⟩ := h
    subst h1
    have hs' := hs
    unfold Sorted at hs'
    rw [List.pairwise_cons] at hs'
    cases n with
    | zero => simp at hn
    | succ n =>
      have hxa : ¬ s.rank a = r := hne a (by simp)
      by_cases hg : s.rank a > r
      · refine ⟨[], a :: xs, by simp, by simp, ?_, by simp [addLoop, h2, hxa, hg]⟩
        intro y hy
        simp only [List.mem_cons] at hy
        rcases hy with hy | hy
        · subst hy; omega
        · have := hs'.1 y hy; omega
      · obtain ⟨l1, l2, e, hl1, hl2, hl⟩ := ih (s.next a) a n h3 hs'.2
          (fun y hy => hne y (by simp [hy])) (by simpa using hn)
        refine ⟨a :: l1, l2, by simp [e], ?_, hl2, ?_⟩
        · intro y hy
          simp only [List.mem_cons] at hy
          rcases hy with hy | hy
          · subst hy; omega
          · exact hl1 y hy
        · simp only [addLoop, h2, if_false, hxa, hg]
          rw [hl]
          cases l1 <;> simp [List.getLastD]

/-! ### doubly linked list = forward segment along `p_next` + backward segment along `p_prev` -/

structure DL (nx pv : Ptr → Ptr) (hd : Ptr) (xs : List Ptr) : Prop where
  fwd : Seg nx hd xs 0
  bwd : Seg pv (xs.getLastD 0) xs.reverse 0

theorem dl_insert {nx pv nx' pv' : Ptr → Ptr} {hd hd' p : Ptr} {l1 l2 : List Ptr}
    (h : DL nx pv hd (l1 ++ l2)) (hp0 : p ≠ 0) (hnd : (l1 ++ l2).Nodup)
    (hnp : nx' p = l2.headD 0) (hpp : pv' p = l1.getLastD 0)
    (hnl : ∀ z, l1.getLast? = some z → nx' z = p)
    (hpl : ∀ z, l2.head? = some z → pv' z = p)
    (hnr : ∀ y ∈ l1 ++ l2, l1.getLast? ≠ some y → nx' y = nx y)
    (hpr : ∀ y ∈ l1 ++ l2, l2.head? ≠ some y → pv' y = pv y)
    (hhd : hd' = (l1 ++ [p]).headD 0) :
    DL nx' pv' hd' (l1 ++ p :: l2) := by
  constructor
  · rw [hhd]
    exact seg_insert h.fwd hp0 hnd hnp hnl hnr
  · have hb := h.bwd
    rw [List.reverse_append] at hb
    have hnd' : (l2.reverse ++ l1.reverse).Nodup := by
      rw [← List.reverse_append]; exact nodup_reverse' hnd
    have := seg_insert (g := pv') (p := p) hb hp0 hnd'
      (by rw [hpp, headD_reverse])
      (fun z hz => hpl z (by rwa [List.getLast?_reverse] at hz))
      (fun y hy hne => hpr y (by simp at hy ⊢; exact hy.symm) (by rwa [List.getLast?_reverse] at hne))
    have e1 : (l1 ++ p :: l2).reverse = l2.reverse ++ p :: l1.reverse := by simp
    have e2 : (l1 ++ p :: l2).getLastD 0 = (l2.reverse ++ [p]).headD 0 := by
      rw [getLastD_append_cons]
      have : l2.reverse ++ [p] = (p :: l2).reverse := by simp
      rw [this, headD_reverse]
    rw [e1, e2]
    exact this

theorem dl_remove {nx pv nx' pv' : Ptr → Ptr} {hd hd' p : Ptr} {l1 l2 : List Ptr}
    (h : DL nx pv hd (l1 ++ p :: l2)) (hnd : (l1 ++ p :: l2).Nodup)
    (hnl : ∀ z, l1.getLast? = some z → nx' z = nx p)
    (hpl : ∀ z, l2.head? = some z → pv' z = pv p)
    (hnr : ∀ y ∈ l1 ++ l2, l1.getLast? ≠ some y → nx' y = nx y)
    (hpr : ∀ y ∈ l1 ++ l2, l2.head? ≠ some y → pv' y = pv y)
    (hhd : hd' = (l1 ++ [nx p]).headD 0) :
    DL nx' pv' hd' (l1 ++ l2) := by
  constructor
  · rw [hhd]
    exact seg_remove h.fwd hnd hnl hnr
  · have hb := h.bwd
    have e0 : (l1 ++ p :: l2).reverse = l2.reverse ++ p :: l1.reverse := by simp
    rw [e0] at hb
    have hnd' : (l2.reverse ++ p :: l1.reverse).Nodup := by
      rw [← e0]; exact nodup_reverse' hnd
    have := seg_remove (g := pv') hb hnd'
      (fun z hz => hpl z (by rwa [List.getLast?_reverse] at hz))
      (fun y hy hne => hpr y (by simp at hy ⊢; exact hy.symm) (by rwa [List.getLast?_reverse] at hne))
    rw [List.reverse_append]
    -- start pointer of the backward walk: last of l1 ++ l2
    have hpvp : pv p = l1.getLastD 0 := by
      have h2 := (seg_append.mp hb).2
      have h3 := h2.2.2
      have := seg_start h3
      rw [this, headD_reverse]
    have e2 : (l1 ++ l2).getLastD 0 = (l2.reverse ++ [pv p]).headD 0 := by
      cases l2 with
      | nil => simp [hpvp]
      | cons y l2 =>
        rw [getLastD_append_cons]
        have : (y :: l2).reverse ++ [pv p] = (pv p :: y :: l2).reverse := by simp
        rw [this, headD_reverse]
        simp [List.getLastD_eq_getLast?, List.getLast?_cons_cons]
    rw [e2]
    exact this

theorem dl_prev_of_split {nx pv : Ptr → Ptr} {hd x : Ptr} {l1 l2 : List Ptr}
    (h : DL nx pv hd (l1 ++ x :: l2)) : pv x = l1.getLastD 0 := by
  have hb := h.bwd
  have e0 : (l1 ++ x :: l2).reverse = l2.reverse ++ x :: l1.reverse := by simp
  rw [e0] at hb
  have h3 := (seg_append.mp hb).2.2.2
  rw [seg_start h3, headD_reverse]

theorem dl_next_of_split {nx pv : Ptr → Ptr} {hd x : Ptr} {l1 l2 : List Ptr}
    (h : DL nx pv hd (l1 ++ x :: l2)) : nx x = l2.headD 0 := by
  have h3 := (seg_append.mp h.fwd).2.2.2
  exact seg_start h3

theorem getLastD_concat (l : List Ptr) (z d : Ptr) : (l ++ [z]).getLastD d = z := by
  simp [List.getLastD_eq_getLast?]

theorem headD_concat_append (l m : List Ptr) (z d : Ptr) :
    (l ++ [z] ++ m).headD d = (l ++ [z]).headD d := by
  cases l <;> simp

/-- `xstream_add_xstream_list` inserts `p` at its rank position and keeps the list doubly linked,
provided that — if `p` goes in front of the current head — `p->p_prev` is already NULL
(the C code does not write it on that path). -/
theorem addList_spec (s : St) (p : Ptr) (xs : List Ptr)
    (hdl : DL s.next s.prev s.head xs) (hs : Sorted s.rank xs) (hp0 : p ≠ 0) (hpx : p ∉ xs)
    (hne : ∀ y ∈ xs, s.rank y ≠ s.rank p) (hlen : xs.length < fuel s)
    (hstale : ∀ x, xs.head? = some x → s.rank p < s.rank x → s.prev p = 0) :
    ∃ s' l1 l2, addList s p = some s' ∧ xs = l1 ++ l2 ∧
      (∀ y ∈ l1, s.rank y < s.rank p) ∧ (∀ y ∈ l2, s.rank p < s.rank y) ∧
      DL s'.next s'.prev s'.head (l1 ++ p :: l2) ∧
      s'.rank = s.rank ∧ s'.num = s.num ∧ s'.term = s.term := by
  obtain ⟨l1, l2, e, hl1, hl2, hloop⟩ :=
    addLoop_spec s (s.rank p) xs s.head s.head (fuel s) hdl.fwd hs hne hlen
  subst e
  have hnd := hs.nodup
  have hnz := seg_nonzero hdl.fwd
  unfold addList
  rw [hloop]
  cases l2 with
  | nil =>
    rcases List.eq_nil_or_concat l1 with rfl | ⟨l1', z, rfl⟩
    · -- empty list
      have hh : s.head = 0 := by simpa [Seg] using hdl.fwd
      simp only [List.headD_nil, List.getLastD_nil, hh, if_true, ne_eq, not_true_eq_false, if_false]
      refine ⟨_, [], [], rfl, rfl, hl1, hl2, ?_, rfl, rfl, rfl⟩
      exact dl_insert (l1 := []) (l2 := []) hdl hp0 hnd (by simp) (by simp) (by simp) (by simp)
          (by simp) (by simp) (by simp)
    · -- append after the last node z
      rw [List.concat_eq_append] at *
      have hz0 : z ≠ 0 := hnz z (by simp)
      have hzp : z ≠ p := fun e => hpx (by simp [e])
      simp only [List.headD_nil, getLastD_concat, if_true, ne_eq, hz0, not_false_eq_true]
      refine ⟨_, l1' ++ [z], [], rfl, rfl, hl1, hl2, ?_, rfl, rfl, rfl⟩
      refine dl_insert (l1 := l1' ++ [z]) (l2 := []) hdl hp0 hnd
          (by simp) (by simp [getLastD_concat]) ?_ (by simp) ?_ ?_ ?_
      · intro z' hz'
        simp only [List.getLast?_concat, Option.some.injEq] at hz'
        subst hz'
        simp [upd, hzp]
      · intro y hy hne'
        simp only [List.getLast?_concat, ne_eq, Option.some.injEq] at hne'
        have : y ≠ p := fun e => hpx (by simpa [e] using hy)
        have hyz : y ≠ z := fun e => hne' e.symm
        simp [upd, this, hyz]
      · intro y hy _
        have : y ≠ p := fun e => hpx (by simpa [e] using hy)
        simp [upd, this]
      · have := seg_start hdl.fwd
        simp only
        rw [this]
        cases l1' <;> simp
  | cons x l2' =>
    have hx0 : x ≠ 0 := hnz x (by simp)
    have hxp : x ≠ p := fun e => hpx (by simp [e])
    have hpvx := dl_prev_of_split hdl
    rcases List.eq_nil_or_concat l1 with rfl | ⟨l1', z, rfl⟩
    · -- in front of the head: new->p_prev is not written
      have hh : s.head = x := by simpa using seg_start hdl.fwd
      have hpv0 : s.prev x = 0 := by simpa using hpvx
      have hpp0 : s.prev p = 0 := hstale x (by simp) (hl2 x (by simp))
      simp only [List.headD_cons, hx0, if_false, hpv0, ne_eq, not_true_eq_false, hh]
      refine ⟨_, [], x :: l2', rfl, rfl, hl1, hl2, ?_, rfl, rfl, rfl⟩
      refine dl_insert (l1 := []) (l2 := x :: l2') hdl hp0 hnd
          (by simp) ?_ (by simp) ?_ ?_ ?_ (by simp)
      · have : p ≠ x := fun e => hxp e.symm
        simp [upd, this, hpp0]
      · intro z hz
        simp only [List.head?_cons, Option.some.injEq] at hz
        subst hz
        simp [upd]
      · intro y hy _
        have : y ≠ p := fun e => hpx (by simpa [e] using hy)
        simp [upd, this]
      · intro y hy hne'
        simp only [List.head?_cons, ne_eq, Option.some.injEq] at hne'
        have hyx : y ≠ x := fun e => hne' e.symm
        simp [upd, hyx]
    · -- in the middle: between z and x
      rw [List.concat_eq_append] at *
      have hz0 : z ≠ 0 := hnz z (by simp)
      have hzp : z ≠ p := fun e => hpx (by simp [e])
      have hpvz : s.prev x = z := by simpa [getLastD_concat] using hpvx
      simp only [List.headD_cons, hx0, if_false, hpvz, ne_eq, hz0, not_false_eq_true, if_true]
      refine ⟨_, l1' ++ [z], x :: l2', rfl, rfl, hl1, hl2, ?_, rfl, rfl, rfl⟩
      refine dl_insert (l1 := l1' ++ [z]) (l2 := x :: l2') hdl hp0 hnd
          (by simp) ?_ ?_ ?_ ?_ ?_ ?_
      · have : p ≠ x := fun e => hxp e.symm
        simp [upd, this, getLastD_concat]
      · intro z' hz'
        simp only [List.getLast?_concat, Option.some.injEq] at hz'
        subst hz'
        simp [upd, hzp]
      · intro z' hz'
        simp only [List.head?_cons, Option.some.injEq] at hz'
        subst hz'
        simp [upd]
      · intro y hy hne'
        simp only [List.getLast?_concat, ne_eq, Option.some.injEq] at hne'
        have : y ≠ p := fun e => hpx (by simpa [e] using hy)
        have hyz : y ≠ z := fun e => hne' e.symm
        simp [upd, this, hyz]
      · intro y hy hne'
        simp only [List.head?_cons, ne_eq, Option.some.injEq] at hne'
        have : y ≠ p := fun e => hpx (by simpa [e] using hy)
        have hyx : y ≠ x := fun e => hne' e.symm
        simp [upd, this, hyx]
      · have := seg_start hdl.fwd
        simp only
        rw [this]
        cases l1' <;> simp

/-- `xstream_remove_xstream_list` unlinks `p`; `p` keeps its own (now stale) `p_prev`/`p_next` -/
theorem removeList_spec (s : St) (p : Ptr) (l1 l2 : List Ptr)
    (hdl : DL s.next s.prev s.head (l1 ++ p :: l2)) (hnd : (l1 ++ p :: l2).Nodup) :
    ∃ s', removeList s p = some s' ∧ DL s'.next s'.prev s'.head (l1 ++ l2) ∧
      s'.rank = s.rank ∧ s'.num = s.num ∧ s'.term = s.term ∧ s'.prev p = s.prev p := by
  have hnz := seg_nonzero hdl.fwd
  have hp0 : p ≠ 0 := hnz p (by simp)
  have hpv := dl_prev_of_split hdl
  have hnx := dl_next_of_split hdl
  have hpl1 : p ∉ l1 := by
    intro hm
    have := (List.nodup_append.mp hnd).2.2 p hm p (by simp)
    exact this rfl
  have hpl2 : p ∉ l2 := by
    have := (List.nodup_append.mp hnd).2.1
    simp only [List.nodup_cons] at this
    exact this.1
  unfold removeList
  rcases List.eq_nil_or_concat l1 with rfl | ⟨l1', z, rfl⟩
  · have hh : s.head = p := by simpa using seg_start hdl.fwd
    have hpv0 : s.prev p = 0 := by simpa using hpv
    cases l2 with
    | nil =>
      have hn0 : s.next p = 0 := by simpa using hnx
      simp only [hpv0, if_true, hh, ne_eq, not_true_eq_false, if_false, hn0]
      refine ⟨_, rfl, ?_, rfl, rfl, rfl, hpv0⟩
      exact dl_remove (l1 := []) (l2 := []) hdl hnd (by simp) (by simp) (by simp) (by simp) (by simp [hn0])
    | cons y l2' =>
      have hy0 : y ≠ 0 := hnz y (by simp)
      have hny : s.next p = y := by simpa using hnx
      have hyp : y ≠ p := fun e => hpl2 (by simp [e])
      simp only [hpv0, if_true, hh, ne_eq, not_true_eq_false, if_false, hny, hy0, not_false_eq_true]
      refine ⟨_, rfl, ?_, rfl, rfl, rfl, ?_⟩
      · refine dl_remove (l1 := []) (l2 := y :: l2') hdl hnd (by simp) ?_ (by simp) ?_ (by simp [hny])
        · intro z hz
          simp only [List.head?_cons, Option.some.injEq] at hz
          subst hz
          simp [upd, hpv0]
        · intro w hw hne'
          simp only [List.head?_cons, ne_eq, Option.some.injEq] at hne'
          have : w ≠ y := fun e => hne' e.symm
          simp [upd, this]
      · have : p ≠ y := fun e => hyp e.symm
        simp [upd, this, hpv0]
  · rw [List.concat_eq_append] at *
    have hz0 : z ≠ 0 := hnz z (by simp)
    have hzp : z ≠ p := fun e => hpl1 (by simp [e])
    have hpvz : s.prev p = z := by simpa [getLastD_concat] using hpv
    have hhd : s.head = (l1' ++ [z] ++ [s.next p]).headD 0 := by
      rw [seg_start hdl.fwd]
      cases l1' <;> simp
    cases l2 with
    | nil =>
      have hn0 : s.next p = 0 := by simpa using hnx
      have hpz : p ≠ z := fun e => hzp e.symm
      simp only [hpvz, hz0, if_false, hn0, upd, hpz, ne_eq, not_true_eq_false]
      refine ⟨_, rfl, ?_, rfl, rfl, rfl, hpvz⟩
      refine dl_remove (l1 := l1' ++ [z]) (l2 := []) hdl hnd ?_ (by simp) ?_ (by simp) (by simpa [hn0] using hhd)
      · intro z' hz'
        simp only [List.getLast?_concat, Option.some.injEq] at hz'
        subst hz'
        simp [hn0]
      · intro w hw hne'
        simp only [List.getLast?_concat, ne_eq, Option.some.injEq] at hne'
        have : w ≠ z := fun e => hne' e.symm
        simp [this]
    | cons y l2' =>
      have hy0 : y ≠ 0 := hnz y (by simp)
      have hny : s.next p = y := by simpa using hnx
      have hyp : y ≠ p := fun e => hpl2 (by simp [e])
      have hpz : p ≠ z := fun e => hzp e.symm
      simp only [hpvz, hz0, if_false, hny, upd, hpz, ne_eq, hy0, not_false_eq_true, if_true]
      refine ⟨_, rfl, ?_, rfl, rfl, rfl, ?_⟩
      · refine dl_remove (l1 := l1' ++ [z]) (l2 := y :: l2') hdl hnd ?_ ?_ ?_ ?_ (by simpa [hny] using hhd)
        · intro z' hz'
          simp only [List.getLast?_concat, Option.some.injEq] at hz'
          subst hz'
          simp [hny]
        · intro z' hz'
          simp only [List.head?_cons, Option.some.injEq] at hz'
          subst hz'
          simp [hpvz]
        · intro w hw hne'
          simp only [List.getLast?_concat, ne_eq, Option.some.injEq] at hne'
          have : w ≠ z := fun e => hne' e.symm
          simp [this]
        · intro w hw hne'
          simp only [List.head?_cons, ne_eq, Option.some.injEq] at hne'
          have : w ≠ y := fun e => hne' e.symm
          simp [this]
      · have : p ≠ y := fun e => hyp e.symm
        simp [this, hpvz]

theorem DL.frame {nx pv nx' pv' : Ptr → Ptr} {hd : Ptr} {xs : List Ptr} (h : DL nx pv hd xs)
    (hn : ∀ x ∈ xs, nx' x = nx x) (hp : ∀ x ∈ xs, pv' x = pv x) : DL nx' pv' hd xs :=
  ⟨seg_frame h.fwd hn, seg_frame h.bwd (fun x hx => hp x (by simpa using hx))⟩

/-! ### the representation invariant -/

/-- `xs` = the live streams in list order: doubly linked through `p_next`/`p_prev`, strictly
sorted by rank, counted by `num_xstreams`, headed by the primary stream holding rank 0 -/
structure R (s : St) (xs : List Ptr) : Prop where
  dl : DL s.next s.prev s.head xs
  sorted : Sorted s.rank xs
  num : s.num = xs.length
  prim : xs.head? = some primaryId
  prim0 : s.rank primaryId = 0

theorem R.live_eq {s : St} {xs : List Ptr} (h : R s xs) : live s = xs := by
  unfold live fuel
  apply walk_seg xs s.head _ h.dl.fwd
  rw [h.num]; simp

theorem R.prim_mem {s : St} {xs : List Ptr} (h : R s xs) : primaryId ∈ xs := by
  have := h.prim
  cases xs with
  | nil => simp at this
  | cons x xs => simp at this; simp [this]

theorem R.rank_pos {s : St} {xs : List Ptr} (h : R s xs) :
    ∀ y ∈ xs, y ≠ primaryId → 0 < s.rank y := by
  intro y hy hne
  have hp := h.prim
  have hs := h.sorted
  cases xs with
  | nil => simp at hy
  | cons x xs =>
    simp only [List.head?_cons, Option.some.injEq] at hp
    subst hp
    unfold Sorted at hs
    rw [List.pairwise_cons] at hs
    simp only [List.mem_cons] at hy
    rcases hy with hy | hy
    · exact absurd hy hne
    · have := hs.1 y hy
      rw [h.prim0] at this
      exact this

theorem R.rank_nonneg {s : St} {xs : List Ptr} (h : R s xs) : ∀ y ∈ xs, 0 ≤ s.rank y := by
  intro y hy
  by_cases hne : y = primaryId
  · rw [hne, h.prim0]; exact Int.le_refl 0
  · have := h.rank_pos y hy hne; omega

theorem R.nonzero {s : St} {xs : List Ptr} (h : R s xs) : ∀ y ∈ xs, y ≠ 0 := seg_nonzero h.dl.fwd

theorem sorted_insert {rk : Ptr → Int} {l1 l2 : List Ptr} {p : Ptr} (hs : Sorted rk (l1 ++ l2))
    (h1 : ∀ y ∈ l1, rk y < rk p) (h2 : ∀ y ∈ l2, rk p < rk y) : Sorted rk (l1 ++ p :: l2) := by
  unfold Sorted at *
  rw [List.pairwise_append] at hs ⊢
  refine ⟨hs.1, ?_, ?_⟩
  · rw [List.pairwise_cons]; exact ⟨h2, hs.2.1⟩
  · intro a ha b hb
    simp only [List.mem_cons] at hb
    rcases hb with hb | hb
    · subst hb; exact h1 a ha
    · exact hs.2.2 a ha b hb

theorem sorted_remove {rk : Ptr → Int} {l1 l2 : List Ptr} {p : Ptr} (hs : Sorted rk (l1 ++ p :: l2)) :
    Sorted rk (l1 ++ l2) := by
  unfold Sorted at *
  rw [List.pairwise_append] at hs ⊢
  rw [List.pairwise_cons] at hs
  exact ⟨hs.1, hs.2.1.2, fun a ha b hb => hs.2.2 a ha b (by simp [hb])⟩

/-- tail of `xstream_set_new_rank`: a fresh descriptor `p` with a positive unused rank `r` -/
theorem grant_spec (s : St) (xs : List Ptr) (p : Ptr) (r : Int) (h : R s xs)
    (hp0 : p ≠ 0) (hpx : p ∉ xs) (hr : 0 < r) (hru : ∀ y ∈ xs, s.rank y ≠ r) :
    ∃ s' l1 l2, grant s p r = some (s', true) ∧ xs = l1 ++ l2 ∧ R s' (l1 ++ p :: l2) ∧
      s'.rank = upd s.rank p r ∧ s'.term = s.term := by
  have hpp : p ≠ primaryId := fun e => hpx (e ▸ h.prim_mem)
  let s1 : St := { s with rank := upd s.rank p r }
  have hrk : ∀ y ∈ xs, s1.rank y = s.rank y := by
    intro y hy
    have : y ≠ p := fun e => hpx (e ▸ hy)
    simp [s1, upd, this]
  have hrp : s1.rank p = r := by simp [s1, upd]
  obtain ⟨s2, l1, l2, hadd, e, hl1, hl2, hdl, hrank, hnum, hterm⟩ :=
    addList_spec s1 p xs h.dl (h.sorted.congr hrk) hp0 hpx
      (by intro y hy; rw [hrk y hy, hrp]; exact hru y hy)
      (by show xs.length < s.num.toNat + 1; rw [h.num]; simp)
      (by
        intro x hx hlt
        rw [h.prim] at hx
        simp only [Option.some.injEq] at hx
        subst hx
        rw [hrp, hrk _ h.prim_mem, h.prim0] at hlt
        omega)
  refine ⟨{ s2 with num := s2.num + 1 }, l1, l2, ?_, e, ?_, ?_, ?_⟩
  · unfold grant
    show (match addList s1 p with | none => none | some s2 => some ({ s2 with num := s2.num + 1 }, true)) = _
    rw [hadd]
  · refine ⟨hdl, ?_, ?_, ?_, ?_⟩
    · show Sorted s2.rank _
      rw [hrank]
      exact sorted_insert (e ▸ h.sorted.congr hrk) hl1 hl2
    · show s2.num + 1 = _
      rw [hnum]
      show s.num + 1 = _
      rw [h.num, e]; simp; omega
    · -- the primary stays first: it cannot be in l2 (its rank 0 is below r)
      have hp := h.prim
      rw [e] at hp
      cases l1 with
      | nil =>
        exfalso
        simp only [List.nil_append] at hp
        have hm : primaryId ∈ l2 := List.mem_of_mem_head? hp
        have := hl2 _ hm
        rw [hrp, hrk _ h.prim_mem, h.prim0] at this
        omega
      | cons a l1 => simpa using hp
    · show s2.rank primaryId = 0
      rw [hrank, hrk _ h.prim_mem, h.prim0]
  · show s2.rank = _
    rw [hrank]
  · show s2.term = _
    rw [hterm]

theorem R.ranks_pairwise {s : St} {xs : List Ptr} (h : R s xs) :
    (xs.map s.rank).Pairwise (· < ·) := by
  rw [List.pairwise_map]; exact h.sorted

theorem R.zero_mem_ranks {s : St} {xs : List Ptr} (h : R s xs) : (0 : Int) ∈ xs.map s.rank := by
  rw [List.mem_map]; exact ⟨primaryId, h.prim_mem, h.prim0⟩

theorem R.ranks_nonneg {s : St} {xs : List Ptr} (h : R s xs) : ∀ q ∈ xs.map s.rank, (0 : Int) ≤ q := by
  intro q hq
  rw [List.mem_map] at hq
  obtain ⟨y, hy, e⟩ := hq
  rw [← e]; exact h.rank_nonneg y hy

theorem not_mem_ranks {s : St} {xs : List Ptr} {r : Int} (h : r ∉ xs.map s.rank) :
    ∀ y ∈ xs, s.rank y ≠ r := by
  intro y hy e
  exact h (List.mem_map.mpr ⟨y, hy, e⟩)

/-- `xstream_set_new_rank(…, -1)`: grants the least non-negative rank not in the list -/
theorem setNewRank_auto (s : St) (xs : List Ptr) (p : Ptr) (h : R s xs) (hp0 : p ≠ 0) (hpx : p ∉ xs) :
    ∃ s' l1 l2 r, setNewRank s p (-1) = some (s', true) ∧ xs = l1 ++ l2 ∧ R s' (l1 ++ p :: l2) ∧
      s'.rank = upd s.rank p r ∧ s'.term = s.term ∧
      0 ≤ r ∧ r ∉ xs.map s.rank ∧ ∀ k, 0 ≤ k → k < r → k ∈ xs.map s.rank := by
  have hm := mexLoop_spec s xs s.head (fuel s) 0 h.dl.fwd (by unfold fuel; rw [h.num]; simp)
  have hsp := mexFrom_spec (xs.map s.rank) 0 h.ranks_pairwise h.ranks_nonneg
  generalize mexFrom 0 (xs.map s.rank) = r at hm hsp
  have hr0 : r ≠ 0 := fun e => hsp.2.1 (e ▸ h.zero_mem_ranks)
  obtain ⟨s', l1, l2, hg, e, hR, hrk, htm⟩ :=
    grant_spec s xs p r h hp0 hpx (by omega) (not_mem_ranks hsp.2.1)
  refine ⟨s', l1, l2, r, ?_, e, hR, hrk, htm, hsp.1, hsp.2.1, hsp.2.2⟩
  unfold setNewRank
  simp only [if_true]
  rw [hm]
  exact hg

/-- `xstream_set_new_rank(…, r)`, `r ≥ 0`: refused iff a node with rank `r` is in the list -/
theorem setNewRank_exact (s : St) (xs : List Ptr) (p : Ptr) (r : Int) (h : R s xs) (hp0 : p ≠ 0)
    (hpx : p ∉ xs) (hr : 0 ≤ r) :
    (r ∈ xs.map s.rank → setNewRank s p r = some (s, false)) ∧
    (r ∉ xs.map s.rank → ∃ s' l1 l2, setNewRank s p r = some (s', true) ∧ xs = l1 ++ l2 ∧
      R s' (l1 ++ p :: l2) ∧ s'.rank = upd s.rank p r ∧ s'.term = s.term) := by
  have hf := findLoop_spec s r xs s.head (fuel s) h.dl.fwd h.sorted (by unfold fuel; rw [h.num]; simp)
  have hne : ¬ r = -1 := by omega
  constructor
  · intro hin
    unfold setNewRank
    simp only [hne, if_false]
    rw [hf]
    simp [hin]
  · intro hnin
    have hr0 : r ≠ 0 := fun e => hnin (e ▸ h.zero_mem_ranks)
    obtain ⟨s', l1, l2, hg, e, hR, hrk, htm⟩ :=
      grant_spec s xs p r h hp0 hpx (by omega) (not_mem_ranks hnin)
    refine ⟨s', l1, l2, ?_, e, hR, hrk, htm⟩
    unfold setNewRank
    simp only [hne, if_false]
    rw [hf]
    simp only [hnin, decide_false]
    exact hg

/-- resetting the fields of a descriptor that is not in the list changes nothing -/
theorem R.reset {s : St} {xs : List Ptr} (h : R s xs) {p : Ptr} (hpx : p ∉ xs) :
    R { s with prev := upd s.prev p 0, next := upd s.next p 0 } xs := by
  refine ⟨h.dl.frame ?_ ?_, h.sorted, h.num, h.prim, h.prim0⟩
  · intro x hx
    have : x ≠ p := fun e => hpx (e ▸ hx)
    simp [upd, this]
  · intro x hx
    have : x ≠ p := fun e => hpx (e ▸ hx)
    simp [upd, this]

theorem R.term_irrel {s : St} {xs : List Ptr} (h : R s xs) (t : Ptr → Bool) : R { s with term := t } xs :=
  ⟨h.dl, h.sorted, h.num, h.prim, h.prim0⟩

/-- `xstream_return_rank`: unlinks a live non-primary stream and decrements the counter -/
theorem returnRank_spec (s : St) (xs : List Ptr) (p : Ptr) (h : R s xs) (hpx : p ∈ xs)
    (hpp : p ≠ primaryId) :
    ∃ s' l1 l2, returnRank s p = some s' ∧ xs = l1 ++ p :: l2 ∧ R s' (l1 ++ l2) ∧
      s'.rank = s.rank ∧ s'.term = s.term := by
  obtain ⟨l1, l2, e⟩ := List.append_of_mem hpx
  subst e
  obtain ⟨s1, hrm, hdl, hrk, hnum, htm, _⟩ := removeList_spec s p l1 l2 h.dl h.sorted.nodup
  refine ⟨{ s1 with num := s1.num - 1 }, l1, l2, ?_, rfl, ?_, hrk, htm⟩
  · unfold returnRank; rw [hrm]
  · refine ⟨hdl, ?_, ?_, ?_, ?_⟩
    · show Sorted s1.rank _
      rw [hrk]; exact sorted_remove h.sorted
    · show s1.num - 1 = _
      rw [hnum, h.num]; simp; omega
    · have hp := h.prim
      cases l1 with
      | nil => simp at hp; exact absurd hp hpp
      | cons a l1 => simpa using hp
    · show s1.rank primaryId = 0
      rw [hrk]; exact h.prim0

/-- `xstream_change_rank` to an unused rank `r > 0` of a live non-primary stream -/
theorem changeRank_move (s : St) (xs : List Ptr) (p : Ptr) (r : Int) (h : R s xs) (hpx : p ∈ xs)
    (hpp : p ≠ primaryId) (hr : 0 ≤ r) (hne : s.rank p ≠ r) (hnin : r ∉ xs.map s.rank) :
    ∃ s' l1 l2 m1 m2, changeRank s p r = some (s', true) ∧ xs = l1 ++ p :: l2 ∧
      l1 ++ l2 = m1 ++ m2 ∧ R s' (m1 ++ p :: m2) ∧ s'.rank = upd s.rank p r ∧ s'.term = s.term := by
  have hf := findLoop_spec s r xs s.head (fuel s) h.dl.fwd h.sorted (by unfold fuel; rw [h.num]; simp)
  have hr0 : r ≠ 0 := fun e => hnin (e ▸ h.zero_mem_ranks)
  obtain ⟨l1, l2, e⟩ := List.append_of_mem hpx
  subst e
  have hnd := h.sorted.nodup
  obtain ⟨s1, hrm, hdl1, hrk1, hnum1, htm1, _⟩ := removeList_spec s p l1 l2 h.dl hnd
  have hp0 : p ≠ 0 := h.nonzero p hpx
  have hpl : p ∉ l1 ++ l2 := by
    intro hm
    rw [List.mem_append] at hm
    have h1 := (List.nodup_append.mp hnd)
    rcases hm with hm | hm
    · exact h1.2.2 p hm p (by simp) rfl
    · have := h1.2.1; simp only [List.nodup_cons] at this; exact this.1 hm
  -- the primary is still the head of l1 ++ l2
  have hprim : (l1 ++ l2).head? = some primaryId := by
    have hp := h.prim
    cases l1 with
    | nil => simp at hp; exact absurd hp hpp
    | cons a l1 => simpa using hp
  have hprim_mem : primaryId ∈ l1 ++ l2 := List.mem_of_mem_head? hprim
  let s2 : St := { s1 with rank := upd s1.rank p r }
  have hrk2 : ∀ y ∈ l1 ++ l2, s2.rank y = s.rank y := by
    intro y hy
    have : y ≠ p := fun e => hpl (e ▸ hy)
    simp [s2, upd, this, hrk1]
  have hrp : s2.rank p = r := by simp [s2, upd]
  have hsorted1 : Sorted s.rank (l1 ++ l2) := sorted_remove h.sorted
  obtain ⟨s3, m1, m2, hadd, e, hm1, hm2, hdl3, hrank3, hnum3, hterm3⟩ :=
    addList_spec s2 p (l1 ++ l2) hdl1 (hsorted1.congr hrk2) hp0 hpl
      (by
        intro y hy
        rw [hrk2 y hy, hrp]
        exact not_mem_ranks hnin y (by simp at hy ⊢; rcases hy with hy | hy <;> simp [hy]))
      (by
        show (l1 ++ l2).length < s1.num.toNat + 1
        rw [hnum1, h.num]; simp; omega)
      (by
        intro x hx hlt
        rw [hprim] at hx
        simp only [Option.some.injEq] at hx
        subst hx
        rw [hrp, hrk2 _ hprim_mem, h.prim0] at hlt
        omega)
  refine ⟨s3, l1, l2, m1, m2, ?_, rfl, e, ?_, ?_, ?_⟩
  · unfold changeRank
    simp only [hne, if_false]
    rw [hf]
    simp only [hnin, decide_false]
    rw [hrm]
    show (match addList s2 p with | none => none | some s3 => some (s3, true)) = _
    rw [hadd]
  · refine ⟨hdl3, ?_, ?_, ?_, ?_⟩
    · rw [hrank3]
      exact sorted_insert (e ▸ hsorted1.congr hrk2) hm1 hm2
    · rw [hnum3]
      show s1.num = _
      rw [hnum1, h.num]
      have : (m1 ++ m2).length = (l1 ++ l2).length := by rw [e]
      simp at this ⊢; omega
    · rw [e] at hprim hprim_mem
      cases m1 with
      | nil =>
        exfalso
        simp only [List.nil_append] at hprim
        have hm : primaryId ∈ m2 := List.mem_of_mem_head? hprim
        have := hm2 _ hm
        rw [hrp, hrk2 _ (e ▸ hprim_mem), h.prim0] at this
        omega
      | cons a m1 => simpa using hprim
    · rw [hrank3, hrk2 _ hprim_mem, h.prim0]
  · rw [hrank3]
    show upd s1.rank p r = _
    rw [hrk1]
  · rw [hterm3]
    show s1.term = _
    rw [htm1]

/-! ### API level: well-formedness over the list the model itself walks -/

/-- the invariant, with the node list read off the heap (no existential) -/
def WF (s : St) : Prop := R s (live s)

theorem R.wf {s : St} {xs : List Ptr} (h : R s xs) : WF s := by
  unfold WF; rw [h.live_eq]; exact h

theorem init_R : R init [primaryId] := by
  refine ⟨⟨?_, ?_⟩, ?_, ?_, ?_, ?_⟩
  · exact ⟨rfl, by decide, rfl⟩
  · exact ⟨rfl, by decide, rfl⟩
  · simp [Sorted]
  · rfl
  · rfl
  · rfl

theorem init_wf : WF init := init_R.wf

theorem ranks_eq {s : St} (h : WF s) : ranks s = (live s).map s.rank := rfl

theorem mem_insert_iff {l1 l2 : List Ptr} {p q : Ptr} : q ∈ l1 ++ p :: l2 ↔ q = p ∨ q ∈ l1 ++ l2 := by
  simp only [List.mem_append, List.mem_cons]
  constructor
  · rintro (h | h | h)
    · exact Or.inr (Or.inl h)
    · exact Or.inl h
    · exact Or.inr (Or.inr h)
  · rintro (h | h | h)
    · exact Or.inr (Or.inl h)
    · exact Or.inl h
    · exact Or.inr (Or.inr h)

/-- facts about a successful creation, shared by the auto and the exact path -/
structure Created (s s' : St) (p : Ptr) (r : Int) : Prop where
  wf : WF s'
  mem : ∀ q, q ∈ live s' ↔ q = p ∨ q ∈ live s
  rank : s'.rank = upd s.rank p r
  len : (live s').length = (live s).length + 1
  term : s'.term = upd s.term p false

theorem created_of {s s1 s' : St} {xs l1 l2 : List Ptr} {p : Ptr} {r : Int}
    (hl : live s = xs) (e : xs = l1 ++ l2) (hR : R s1 (l1 ++ p :: l2))
    (hrk : s1.rank = upd s.rank p r) (htm : s1.term = s.term)
    (hs' : s' = { s1 with term := upd s1.term p false }) : Created s s' p r := by
  have hR' : R s' (l1 ++ p :: l2) := by rw [hs']; exact hR.term_irrel _
  refine ⟨hR'.wf, ?_, ?_, ?_, ?_⟩
  · intro q; rw [hR'.live_eq, hl, e]; exact mem_insert_iff
  · rw [hs']; exact hrk
  · rw [hR'.live_eq, hl, e]; simp; omega
  · rw [hs']; show upd s1.term p false = _; rw [htm]

theorem create_spec (s : St) (p : Ptr) (h : WF s) (hp0 : p ≠ 0) (hpx : p ∉ live s) :
    ∃ s' r, apiStep s (.create p) = some (s', .okRank r) ∧ Created s s' p r ∧
      0 ≤ r ∧ r ∉ ranks s ∧ ∀ k, 0 ≤ k → k < r → k ∈ ranks s := by
  have hR0 : R s (live s) := h
  have hR := hR0.reset hpx
  obtain ⟨s1, l1, l2, r, hset, e, hR1, hrk, htm, h0, hnin, hall⟩ :=
    setNewRank_auto _ (live s) p hR hp0 hpx
  refine ⟨{ s1 with term := upd s1.term p false }, r, ?_, created_of rfl e hR1 hrk htm rfl, h0, hnin, hall⟩
  unfold apiStep xstreamCreate
  simp only
  rw [hset]
  simp only [Option.some.injEq, Prod.mk.injEq, true_and]
  have : s1.rank p = r := by rw [hrk]; simp [upd]
  simp [this]

theorem createw_spec (s : St) (p : Ptr) (r : Int) (h : WF s) (hp0 : p ≠ 0) (hpx : p ∉ live s)
    (hr : 0 ≤ r) :
    (r ∈ ranks s → ∃ s', apiStep s (.createWithRank p r) = some (s', .errRank) ∧
        live s' = live s ∧ s'.rank = s.rank ∧ s'.num = s.num ∧ s'.term = s.term ∧ WF s') ∧
    (r ∉ ranks s → ∃ s', apiStep s (.createWithRank p r) = some (s', .okRank r) ∧ Created s s' p r) := by
  have hR0 : R s (live s) := h
  have hR := hR0.reset hpx
  have hx := setNewRank_exact _ (live s) p r hR hp0 hpx hr
  have hnr : ¬ r < 0 := by omega
  constructor
  · intro hin
    have := hx.1 hin
    refine ⟨_, ?_, hR.live_eq, rfl, rfl, rfl, hR.wf⟩
    unfold apiStep xstreamCreate
    simp only [hnr, if_false]
    rw [this]
  · intro hnin
    obtain ⟨s1, l1, l2, hset, e, hR1, hrk, htm⟩ := hx.2 hnin
    refine ⟨{ s1 with term := upd s1.term p false }, ?_, created_of rfl e hR1 hrk htm rfl⟩
    unfold apiStep xstreamCreate
    simp only [hnr, if_false]
    rw [hset]
    simp only [Option.some.injEq, Prod.mk.injEq, true_and]
    have : s1.rank p = r := by rw [hrk]; simp [upd]
    simp [this]

theorem setrank_spec (s : St) (p : Ptr) (r : Int) (h : WF s) (hpx : p ∈ live s)
    (hpp : p ≠ primaryId) (hr : 0 ≤ r) :
    (s.rank p = r → apiStep s (.setRank p r) = some (s, .ok)) ∧
    (s.rank p ≠ r → r ∈ ranks s → apiStep s (.setRank p r) = some (s, .errRank)) ∧
    (s.rank p ≠ r → r ∉ ranks s → ∃ s', apiStep s (.setRank p r) = some (s', .ok) ∧ WF s' ∧
        (∀ q, q ∈ live s' ↔ q ∈ live s) ∧ s'.rank = upd s.rank p r ∧
        (live s').length = (live s).length ∧ s'.term = s.term) := by
  have hR : R s (live s) := h
  have hp0 : p ≠ 0 := hR.nonzero p hpx
  have hnr : ¬ r < 0 := by omega
  refine ⟨?_, ?_, ?_⟩
  · intro he
    unfold apiStep changeRank
    simp [hp0, hpp, hnr, he]
  · intro hne hin
    have hf := findLoop_spec s r (live s) s.head (fuel s) hR.dl.fwd hR.sorted
      (by unfold fuel; rw [hR.num]; simp)
    unfold apiStep changeRank
    simp only [hp0, hpp, hnr, if_false, hne]
    rw [hf]
    have : r ∈ (live s).map s.rank := hin
    simp [this]
  · intro hne hnin
    obtain ⟨s', l1, l2, m1, m2, hch, e1, e2, hR', hrk, htm⟩ :=
      changeRank_move s (live s) p r hR hpx hpp hr hne hnin
    refine ⟨s', ?_, hR'.wf, ?_, hrk, ?_, htm⟩
    · unfold apiStep
      simp only [hp0, hpp, hnr, if_false]
      rw [hch]
    · intro q
      rw [hR'.live_eq, e1, mem_insert_iff, mem_insert_iff, e2]
    · rw [hR'.live_eq, e1]
      have : (m1 ++ m2).length = (l1 ++ l2).length := by rw [e2]
      simp at this ⊢; omega

theorem free_spec (s : St) (p : Ptr) (h : WF s) (hpx : p ∈ live s) (hpp : p ≠ primaryId) :
    ∃ s', apiStep s (.free p) = some (s', .ok) ∧ WF s' ∧
      (∀ q, q ∈ live s' ↔ q ∈ live s ∧ q ≠ p) ∧ s'.rank = s.rank ∧
      (live s').length + 1 = (live s).length := by
  have hR : R s (live s) := h
  have hp0 : p ≠ 0 := hR.nonzero p hpx
  obtain ⟨s', l1, l2, hret, e, hR', hrk, htm⟩ :=
    returnRank_spec _ (live s) p (hR.term_irrel (upd s.term p true)) hpx hpp
  refine ⟨s', ?_, hR'.wf, ?_, hrk, ?_⟩
  · unfold apiStep
    simp only [hp0, hpp, if_false]
    rw [hret]
  · intro q
    rw [hR'.live_eq, e, mem_insert_iff]
    have hnd := hR.sorted.nodup
    rw [e] at hnd
    have hpl : p ∉ l1 ++ l2 := by
      intro hm
      rw [List.mem_append] at hm
      have h1 := (List.nodup_append.mp hnd)
      rcases hm with hm | hm
      · exact h1.2.2 p hm p (by simp) rfl
      · have := h1.2.1; simp only [List.nodup_cons] at this; exact this.1 hm
    constructor
    · intro hq; exact ⟨Or.inr hq, fun e => hpl (e ▸ hq)⟩
    · rintro ⟨hq | hq, hne⟩
      · exact absurd hq hne
      · exact hq
  · rw [hR'.live_eq, e]; simp; omega

/-! ### the abstract view used by Props.C17 -/

/-- the abstract specification: a finite partial map "live stream ↦ its rank" -/
abbrev Spec := Ptr → Option Int

def used (m : Spec) (r : Int) : Prop := ∃ q, m q = some r

/-- what the stream list denotes -/
def absMap (s : St) : Spec := fun q => if q ∈ live s then some (s.rank q) else none

theorem used_abs {s : St} {r : Int} : used (absMap s) r ↔ r ∈ ranks s := by
  unfold used absMap ranks
  simp only [List.mem_map]
  constructor
  · rintro ⟨q, hq⟩
    by_cases h : q ∈ live s
    · simp only [h, if_true, Option.some.injEq] at hq; exact ⟨q, h, hq⟩
    · simp [h] at hq
  · rintro ⟨q, h, hq⟩
    exact ⟨q, by simp [h, hq]⟩


end ArgoVerif.Model.Rank
