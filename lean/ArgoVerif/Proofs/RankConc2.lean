import ArgoVerif.Proofs.RankConc
/-
Proofs.RankConc2 — the inductive invariant of Model.RankConc (all interleavings, any number of
actors) and its preservation, one lemma per event kind.
-/
namespace ArgoVerif.Model.RankConc
open ArgoVerif ArgoVerif.Model.Rank

structure Inv (s : St) : Prop where
  /-- the shared list is well formed at every step (also in the middle of a critical section) -/
  wf : WF s.g
  /-- the calls linearised so far, run atomically by Model.Rank, give the shared state and the results -/
  hist : runOps Rank.init (s.hist.map Prod.fst) = some (s.g, s.hist.map Prod.snd)
  act : ∀ a, s.pc a ≠ .idle ↔ a ∈ s.active
  /-- descriptors / handles of in-flight calls are pairwise different -/
  excl : ∀ a b, a ≠ b → s.pc a ≠ .idle → s.pc b ≠ .idle → target (s.op a) ≠ 0 →
    target (s.op a) ≠ target (s.op b)
  /-- the lock word names exactly the actor inside the critical section -/
  own : ∀ a, s.lock = some a ↔ inCrit (s.pc a) = true
  alw : ∀ a, s.pc a ≠ .idle → allowed (s.op a) = true
  /-- the API contract still holds for every call that has not taken effect -/
  pre : ∀ a, preLin (s.pc a) = true → Pre s.g (s.op a) = true
  need : ∀ a, wantsLock (s.pc a) = true → lockFree s.g (s.op a) = false
  /-- what a successful scan found is still true (nobody else writes while the lock is held) -/
  chk : ∀ a, s.pc a = .chkOk → ChkFact s.g (s.op a) (s.loc a)
  lin : ∀ a, postLin (s.pc a) = true → (s.op a, s.res a) ∈ s.hist

theorem pre_frame (g g' : G) (op : Op) (hal : allowed op = true) (hp : Pre g op = true)
    (hm : target op ≠ 0 → (target op ∈ live g' ↔ target op ∈ live g)) : Pre g' op = true := by
  cases op with
  | create p =>
    simp only [Pre, Bool.and_eq_true, decide_eq_true_eq, Bool.not_eq_true', List.contains_eq_mem,
      decide_eq_false_iff_not, target] at hp hm ⊢
    exact ⟨hp.1, fun h => hp.2 ((hm hp.1).mp h)⟩
  | createWithRank p r =>
    simp only [Pre, Bool.and_eq_true, decide_eq_true_eq, Bool.not_eq_true', List.contains_eq_mem,
      decide_eq_false_iff_not, target] at hp hm ⊢
    exact ⟨hp.1, fun h => hp.2 ((hm hp.1).mp h)⟩
  | setRank p r =>
    simp only [Pre, Bool.or_eq_true, decide_eq_true_eq, List.contains_eq_mem, target] at hp hm ⊢
    by_cases h0 : p = 0
    · exact Or.inl h0
    · rcases hp with h | h
      · exact absurd h h0
      · exact Or.inr ((hm h0).mpr h)
  | free p =>
    simp only [Pre, Bool.or_eq_true, decide_eq_true_eq, List.contains_eq_mem, target] at hp hm ⊢
    by_cases h0 : p = 0
    · exact Or.inl h0
    · rcases hp with h | h
      · exact absurd h h0
      · exact Or.inr ((hm h0).mpr h)
  | getNum => rfl
  | join p => simp [allowed] at hal
  | revive p => simp [allowed] at hal
  | getRank p => simp [allowed] at hal

theorem need_frame (g g' : G) (op : Op) (hn : lockFree g op = false)
    (hm : target op ≠ 0 → g'.rank (target op) = g.rank (target op)) : lockFree g' op = false := by
  cases op with
  | setRank p r =>
    simp only [lockFree, Bool.or_eq_false_iff, decide_eq_false_iff_not, target] at hn hm ⊢
    obtain ⟨⟨⟨h1, h2⟩, h3⟩, h4⟩ := hn
    exact ⟨⟨⟨h1, h2⟩, h3⟩, by rw [hm h1]; exact h4⟩
  | create p => exact hn
  | createWithRank p r => exact hn
  | free p => exact hn
  | getNum => exact hn
  | join p => exact hn
  | revive p => exact hn
  | getRank p => exact hn

theorem preLin_ne_idle {p : Pc} (h : preLin p = true) : p ≠ .idle := by
  intro e; subst e; simp [preLin] at h

theorem postLin_ne_idle {p : Pc} (h : postLin p = true) : p ≠ .idle := by
  intro e; subst e; simp [postLin] at h

theorem wantsLock_preLin {p : Pc} (h : wantsLock p = true) : preLin p = true := by
  cases p <;> simp_all [wantsLock, preLin]

theorem postLin_not_preLin {p : Pc} (h : postLin p = true) : preLin p = false := by
  cases p <;> simp_all [postLin, preLin]

/-- **a call takes effect**: the acting actor's call is one atomic `Model.Rank` step of the shared
state; either the actor holds the lock or the call does not write at all -/
theorem inv_lin (s : St) (a : Actor) (g' : G) (o : Out) (np : Pc) (h : Inv s)
    (hpl : preLin (s.pc a) = true) (hnp : postLin np = true) (hcr : inCrit np = inCrit (s.pc a))
    (hst : Rank.step s.g (s.op a) = some (g', o)) (hlk : s.lock = some a ∨ g' = s.g) :
    Inv (linearize s a g' o np) := by
  have hai : s.pc a ≠ .idle := preLin_ne_idle hpl
  have hfr := step_frame s.g g' (s.op a) o h.wf (h.alw a hai) hst
  have hnpi : np ≠ .idle := postLin_ne_idle hnp
  have hidle : ∀ x, (upd s.pc a np) x ≠ .idle ↔ s.pc x ≠ .idle := by
    intro x
    by_cases hx : x = a
    · subst hx; simp [hnpi, hai]
    · simp [upd, hx]
  refine ⟨hfr.1, ?_, ?_, ?_, ?_, ?_, ?_, ?_, ?_, ?_⟩
  · show runOps Rank.init ((s.hist ++ [(s.op a, o)]).map Prod.fst) = some (g', (s.hist ++ [(s.op a, o)]).map Prod.snd)
    simp only [List.map_append, List.map_cons, List.map_nil]
    exact runOps_snoc _ _ _ _ _ _ _ h.hist hst
  · intro b
    show (upd s.pc a np) b ≠ .idle ↔ b ∈ s.active
    rw [hidle b]; exact h.act b
  · intro x y hxy hx hy
    exact h.excl x y hxy ((hidle x).mp hx) ((hidle y).mp hy)
  · intro b
    show s.lock = some b ↔ inCrit ((upd s.pc a np) b) = true
    by_cases hb : b = a
    · subst hb; simp only [upd_same]; rw [hcr]; exact h.own b
    · simp only [upd, hb, if_false]; exact h.own b
  · intro b hb
    exact h.alw b ((hidle b).mp hb)
  · intro b hb
    show Pre g' (s.op b) = true
    have hb' : preLin ((upd s.pc a np) b) = true := hb
    by_cases hba : b = a
    · subst hba; simp only [upd_same] at hb'; rw [postLin_not_preLin hnp] at hb'; simp at hb'
    · simp only [upd, hba, if_false] at hb'
      have hbi := preLin_ne_idle hb'
      apply pre_frame s.g g' (s.op b) (h.alw b hbi) (h.pre b hb')
      intro ht
      exact hfr.2.1 _ (h.excl b a hba hbi hai ht)
  · intro b hb
    show lockFree g' (s.op b) = false
    have hb' : wantsLock ((upd s.pc a np) b) = true := hb
    by_cases hba : b = a
    · subst hba; simp only [upd_same] at hb'
      have := wantsLock_preLin hb'; rw [postLin_not_preLin hnp] at this; simp at this
    · simp only [upd, hba, if_false] at hb'
      have hbi := preLin_ne_idle (wantsLock_preLin hb')
      apply need_frame s.g g' (s.op b) (h.need b hb')
      intro ht
      exact hfr.2.2 _ (h.excl b a hba hbi hai ht)
  · intro b hb
    show ChkFact g' (s.op b) (s.loc b)
    have hb' : (upd s.pc a np) b = .chkOk := hb
    by_cases hba : b = a
    · subst hba; simp only [upd_same] at hb'; subst hb'; simp [postLin] at hnp
    · simp only [upd, hba, if_false] at hb'
      have hlb : s.lock = some b := (h.own b).mpr (by rw [hb']; rfl)
      rcases hlk with hl | hl
      · rw [hl] at hlb; exact absurd (Option.some.inj hlb).symm hba
      · rw [hl]; exact h.chk b hb'
  · intro b hb
    show (s.op b, (upd s.res a o) b) ∈ s.hist ++ [(s.op a, o)]
    have hb' : postLin ((upd s.pc a np) b) = true := hb
    by_cases hba : b = a
    · subst hba; simp
    · simp only [upd, hba, if_false] at hb' ⊢
      exact List.mem_append_left _ (h.lin b hb')

/-- **a local step** of actor `a`: shared state, history, the calls and results stay; only `a`'s
program counter (and the lock word / `a`'s local) change -/
theorem inv_local (s s' : St) (a : Actor) (np : Pc) (h : Inv s)
    (hg : s'.g = s.g) (hh : s'.hist = s.hist) (hop : s'.op = s.op) (hres : s'.res = s.res)
    (hact : s'.active = s.active) (hpc : s'.pc = upd s.pc a np)
    (hloc : ∀ b, b ≠ a → s'.loc b = s.loc b)
    (hai : s.pc a ≠ .idle) (hnpi : np ≠ .idle)
    (hown : ∀ b, s'.lock = some b ↔ inCrit (upd s.pc a np b) = true)
    (hpre : preLin np = true → preLin (s.pc a) = true)
    (hneed : wantsLock np = true → lockFree s.g (s.op a) = false)
    (hchk : np = .chkOk → ChkFact s.g (s.op a) (s'.loc a))
    (hlin : postLin np = true → postLin (s.pc a) = true) : Inv s' := by
  have hidle : ∀ x, (upd s.pc a np) x ≠ .idle ↔ s.pc x ≠ .idle := by
    intro x
    by_cases hx : x = a
    · subst hx; simp [hnpi, hai]
    · simp [upd, hx]
  refine ⟨by rw [hg]; exact h.wf, by rw [hh, hg]; exact h.hist, ?_, ?_, ?_, ?_, ?_, ?_, ?_, ?_⟩
  · intro b; rw [hpc, hact, hidle b]; exact h.act b
  · intro x y hxy hx hy
    rw [hpc] at hx hy; rw [hop]
    exact h.excl x y hxy ((hidle x).mp hx) ((hidle y).mp hy)
  · intro b; rw [hpc]; exact hown b
  · intro b hb; rw [hpc] at hb; rw [hop]; exact h.alw b ((hidle b).mp hb)
  · intro b hb
    rw [hpc] at hb; rw [hg, hop]
    by_cases hba : b = a
    · subst hba; simp only [upd_same] at hb; exact h.pre b (hpre hb)
    · simp only [upd, hba, if_false] at hb; exact h.pre b hb
  · intro b hb
    rw [hpc] at hb; rw [hg, hop]
    by_cases hba : b = a
    · subst hba; simp only [upd_same] at hb; exact hneed hb
    · simp only [upd, hba, if_false] at hb; exact h.need b hb
  · intro b hb
    rw [hpc] at hb; rw [hg, hop]
    by_cases hba : b = a
    · subst hba; simp only [upd_same] at hb; exact hchk hb
    · simp only [upd, hba, if_false] at hb; rw [hloc b hba]; exact h.chk b hb
  · intro b hb
    rw [hpc] at hb; rw [hop, hres, hh]
    by_cases hba : b = a
    · subst hba; simp only [upd_same] at hb; exact h.lin b (hlin hb)
    · simp only [upd, hba, if_false] at hb; exact h.lin b hb

theorem inv_init : Inv init := by
  refine ⟨init_wf, rfl, ?_, ?_, ?_, ?_, ?_, ?_, ?_, ?_⟩
  · intro a; simp [init]
  · intro a b _ ha; simp [init] at ha
  · intro a; simp [init, inCrit]
  · intro a ha; simp [init] at ha
  · intro a ha; simp [init, preLin] at ha
  · intro a ha; simp [init, wantsLock] at ha
  · intro a ha; simp [init] at ha
  · intro a ha; simp [init, postLin] at ha

end ArgoVerif.Model.RankConc
