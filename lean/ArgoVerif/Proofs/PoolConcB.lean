import ArgoVerif.Proofs.PoolConcA
/- Proofs.PoolConcB — invariant preservation: call, return, failing guards of remove, emptiness loads. -/
namespace ArgoVerif.Model.PoolConc
open ArgoVerif ArgoVerif.Model.TQ
set_option maxHeartbeats 1000000

/-- a guard of remove fails: ABT_ERR_POOL, linearised at the observation (the unit is not in the queue then) -/
theorem inv_rmFailed {cfg : Cfg} {s : St} {a : Actor} {p : Pc} (h : Inv cfg s)
    (hpc : s.pc a = .rChkE ∨ s.pc a = .rChkIn ∨ s.pc a = .csRm)
    (habs : s.q = [] ∨ removeArg (s.cur a) ∉ s.q)
    (hp : p = .retp ∨ (p = .rel ∧ s.owner = some a)) :
    Inv cfg (setPc (rmFailed s a) a p) := by
  have hrm : isRemove (s.cur a) = true := (h.typed a).2.2 (by rcases hpc with e | e | e <;> simp [e, RmPc])
  have hnp := remove_not_poplike hrm
  have hidle : s.pc a ≠ .idle := by rcases hpc with e | e | e <;> simp [e]
  have hlag : s.lagF ≠ some a := by
    intro e; have := h.lagPc a e
    rcases hpc with e' | e' | e' <;> simp [e'] at this
  apply inv_update h (a := a)
  case opc | ocur | ocnt | opu | ogot | orc | ose | osa => intro b hb; simp [setPc, rmFailed, upd, hb]
  case hown => intro b hb e; simpa [setPc, rmFailed] using e
  case hq => exact Or.inl rfl
  case hlag => exact Or.inl rfl
  case g1 => simpa [setPc, rmFailed] using h.lockOwner
  case g2 => exact h.flagQ
  case g3 => exact h.lagQ
  case g4 =>
    have := specRun_snoc h.lin (spec_remove_fail (h.rmNZ a hrm) habs)
    simpa [setPc, rmFailed] using this
  case g5 => exact h.inQ
  case a1 => rcases hp with hp | hp <;> simp [setPc, rmFailed, upd, hp, InCS]
  case a2 => intro hsh _; simpa [setPc, rmFailed] using h.privOwner hsh a hidle
  case a3 => rcases hp with hp | hp <;> simp [setPc, rmFailed, upd, hp]
  case a4 => simpa [setPc, rmFailed, upd] using fun e => absurd e hlag
  case a5 => rcases hp with hp | hp <;> simp [setPc, rmFailed, upd, hp]
  case a6 => rcases hp with hp | hp <;> simp [setPc, rmFailed, upd, hp]
  case a7 => exact h.rmNZ a
  case a8 => rcases hp with hp | hp <;> simp [setPc, rmFailed, upd, hp, Typed, PushPc, PopPc, RmPc]
  case a14 => rcases hp with hp | hp <;> simp [setPc, rmFailed, upd, hp]
  case hflag => exact Or.inl rfl
  case a9 => simp [setPc, rmFailed, hnp]
  case a10 => simp [setPc, rmFailed, hnp]
  case a11 => simp [setPc, rmFailed, hnp]
  case a12 => simp [setPc, rmFailed, hnp]
  case a13 =>
    intro _ _
    refine Or.inr ?_
    simp only [setPc, rmFailed, upd, if_true, decide_eq_true_eq]
    cases habs with
    | inl e => simp [e]
    | inr e => exact e

theorem inv_rmFail {cfg : Cfg} {s s' : St} {a : Actor} (h : Inv cfg s)
    (hs : stepRmFail cfg s a = some s') : Inv cfg s' := by
  unfold stepRmFail at hs
  split at hs
  · simp at hs
  next hg =>
  have hpc : s.pc a = .csRm := by simp_all
  have hown : s.owner = some a := by simp_all
  split at hs
  next hc =>
    simp only [Option.some.injEq] at hs; subst hs
    refine inv_rmFailed h (Or.inr (Or.inr hpc)) ?_ ?_
    · cases hc with
      | inl e => exact Or.inl e
      | inr e => exact Or.inr (fun hm => by have := h.inQ _ hm; simp [e] at this)
    · unfold leave; split
      · exact Or.inr ⟨rfl, hown⟩
      · exact Or.inl rfl
  · simp at hs

theorem inv_loadIn {cfg : Cfg} {s s' : St} {a : Actor} {u : Nat} {v : Bool} (h : Inv cfg s)
    (hs : stepLoadIn s a u v = some s') : Inv cfg s' := by
  unfold stepLoadIn at hs
  split at hs
  · simp at hs
  next hg =>
  have hv : v = s.inPool u := by simp_all
  have hcur : s.cur a = .remove u := by simp_all
  split at hs <;> (try (simp at hs; done))
  next hpc =>
  simp only [Option.some.injEq] at hs; subst hs
  cases v
  · refine inv_rmFailed h (Or.inr (Or.inl hpc)) (Or.inr ?_) (Or.inl rfl)
    intro hm; have := h.inQ _ hm; simp [hcur, removeArg] at this; simp [this] at hv
  · facts h a
    (frame h a) <;> simp_all [setPc, InCS, Wanting, isPopLike, isRemove, Typed, PushPc, PopPc, RmPc]

theorem inv_loadEmpty {cfg : Cfg} {s s' : St} {a : Actor} {v : Bool} (h : Inv cfg s)
    (hs : stepLoadEmpty s a v = some s') : Inv cfg s' := by
  unfold stepLoadEmpty at hs
  split at hs
  · simp at hs
  next hg =>
  have hv : v = s.flag := by simp_all
  have hqe : v = true → s.q = [] := fun e => h.flagQ (by rw [← hv]; exact e)
  split at hs <;> (try (simp at hs; done))
  case h_5 hpc =>
    -- FIFO_WAIT remove: `!is_empty` pre-check
    simp only [Option.some.injEq] at hs; subst hs
    cases v
    · facts h a
      (frame h a) <;> simp_all [setPc, InCS, Wanting, Typed, PushPc, PopPc, RmPc]
    · exact inv_rmFailed h (Or.inl hpc) (Or.inl (hqe rfl)) (Or.inl rfl)
  case h_6 hpc =>
    split at hs
    · simp at hs
    next hown =>
    simp only [Option.some.injEq] at hs; subst hs
    facts h a
    cases v
    · (frame h a) <;> simp_all [setPc, InCS, Wanting, Typed, PushPc, PopPc, RmPc]
    · have := hqe rfl
      (frame h a) <;> simp_all [setPc, InCS, Wanting, upd, Typed, PushPc, PopPc, RmPc]
  all_goals (
    simp only [Option.some.injEq] at hs; subst hs
    facts h a
    cases v
    · (frame h a) <;> simp_all [setPc, InCS, Wanting, Typed, PushPc, PopPc, RmPc]
    · have := hqe rfl
      have hpl : isPopLike (s.cur a) = true := by simp_all [Typed, PopPc]
      have hnr := poplike_not_remove hpl
      unfold emptyFail
      cases hpw : isPopWait (s.cur a) <;>
        ((frame h a) <;> simp_all [setPc, InCS, Wanting, upd, Typed, PushPc, PopPc, RmPc]))

end ArgoVerif.Model.PoolConc
