import ArgoVerif.Proofs.MemPool
/-
Proofs.MemPoolPlace — the vocabulary of the C15 mem-pool theorems (`Place`, `At`, `ChainOK`) and its
link to the ghost owner map of the invariant.
-/
namespace ArgoVerif.Model.MemPool
open ArgoVerif

/-- a place where a carved header can be -/
inductive Place
  | out                   -- handed out (a live descriptor / stack)
  | loc (i j : Nat)       -- `buckets[j]` of local pool `i`
  | lifo (b : Hdr)        -- the bucket on the global `bucket_lifo` whose first header is `b`
  | part                  -- the global `partial_bucket`
deriving DecidableEq

/-- `h` is at place `w`, read off the *real* state: chains are followed along `p_next` for as many
steps as the count stored in the first header says (`per_bucket` steps for a bucket on the LIFO,
whose count field is overwritten by the LIFO link) -/
def At (P : Params) (s : St) : Place → Hdr → Prop
  | .out, h => h ∈ s.out
  | .loc i j, h => ∃ lp, s.lp i = some lp ∧ j ≤ lp.bidx ∧ h ∈ bucketChain s (lp.buckets j)
  | .lifo b, h => b ∈ s.lifo ∧ h ∈ walk s.next P.perBucket (some b)
  | .part, h => ∃ p, s.part = some p ∧ h ∈ bucketChain s p

/-- a chain stores its true length, is NULL-terminated exactly there and visits no header twice -/
def ChainOK (s : St) (b : Hdr) (n : Nat) : Prop :=
  let c := walk s.next n (some b)
  c.length = n ∧ c.Nodup ∧ Seg s.next (some b) c none

def placeOf : Owner → Option Place
  | .out => some .out
  | .loc i j => some (.loc i j)
  | .lifo b => some (.lifo b)
  | .part => some .part
  | _ => none

theorem bucket_walk {next : Hdr → Option Hdr} {own : Hdr → Owner} {a : Hdr} {n : Nat} {o : Owner}
    (h : IsBucket next own a n o) :
    (∀ x, x ∈ walk next n (some a) ↔ own x = o) ∧
    (walk next n (some a)).length = n ∧ (walk next n (some a)).Nodup ∧ Seg next (some a) (walk next n (some a)) none := by
  obtain ⟨L, e, hs, hl, hnd, hm⟩ := h.walk_eq
  rw [e]; exact ⟨hm, hl, hnd, hs⟩

theorem at_own {P : Params} {s : St} (h : Inv P s) {w : Place} {x : Hdr} (ha : At P s w x) :
    placeOf (s.own x) = some w := by
  cases w with
  | out => simp only [At] at ha; rw [(h.outOwn x).mp ha]; rfl
  | loc i j =>
    obtain ⟨lp, h1, h2, h3⟩ := ha
    have := (bucket_walk (h.lpB i lp j h1 (Nat.zero_le _) h2).1).1 x
    rw [this.mp h3]; rfl
  | lifo b =>
    obtain ⟨h1, h2⟩ := ha
    have := (bucket_walk (h.lifoB b h1)).1 x
    rw [this.mp h2]; rfl
  | part =>
    obtain ⟨p, h1, h2⟩ := ha
    have := (bucket_walk (h.partB p h1).1).1 x
    rw [this.mp h2]; rfl

end ArgoVerif.Model.MemPool
