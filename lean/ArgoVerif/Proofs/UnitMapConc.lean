import ArgoVerif.Model.UnitMap
/-
Proofs.UnitMapConc — inductive invariant of the interleaving model of
map / unmap / lock-free get (Model.UnitMap part 2): definitions and the frame
lemmas.  Step preservation is in UnitMapConc2/3, the theorem in Props/C14.
-/
namespace ArgoVerif.Model.UnitMap
open ArgoVerif

/-- bucket whose lock a caller holds -/
def holds (h : Nat → Nat) : Pc → Option Nat
  | .mHead u _ | .mScan u _ _ | .mNext u _ _ | .mSetUnit u _ _ | .mSetThr u _ _ | .mAlloc u _
  | .mPub u _ _ | .mRel u _ _ | .uHead u | .uScan u _ | .uNext u _ | .uClear u _ | .uRel u => some (h u)
  | _ => none

/-- heap shape and ghost bookkeeping, independent of program counters -/
structure GInv (h : Nat → Nat) (s : CSt) : Prop where
  nid : 1 ≤ s.nextId
  pub_lt : ∀ e, s.pub e = true → 1 ≤ e ∧ e < s.nextId
  head_pub : ∀ b, s.head b ≠ 0 → s.pub (s.head b) = true ∧ s.bkt (s.head b) = b
  head_max : ∀ e, s.pub e = true → e ≤ s.head (s.bkt e)
  next_pub : ∀ e, s.pub e = true → (s.cell e).next ≠ 0 →
    s.pub (s.cell e).next = true ∧ s.bkt (s.cell e).next = s.bkt e ∧ (s.cell e).next < e
  next_max : ∀ e e', s.pub e = true → s.pub e' = true → s.bkt e' = s.bkt e → e' < e → e' ≤ (s.cell e).next
  wh_ok : ∀ u, s.wh u ≠ 0 → s.pub (s.wh u) = true ∧ (s.cell (s.wh u)).unit = u ∧ s.bkt (s.wh u) = h u ∧ u ≠ 0
  uniq : ∀ e, s.pub e = true → (s.cell e).unit ≠ 0 → s.wh (s.cell e).unit = e
  abs_ok : ∀ u th, s.abs u = some th → s.wh u ≠ 0 ∧ (s.cell (s.wh u)).thr = th ∧ s.busy u = false
  free_ok : ∀ u, s.abs u = none → s.busy u = false → s.wh u = 0

/-- what must hold for a caller at a given program point -/
def PcOK (h : Nat → Nat) (s : CSt) : Pc → Prop
  | .idle => True
  | .mAcq u _ => u ≠ 0 ∧ s.busy u = true ∧ s.abs u = none ∧ s.wh u = 0
  | .mHead u _ => u ≠ 0 ∧ s.busy u = true ∧ s.abs u = none ∧ s.wh u = 0
  | .mScan u _ cur => u ≠ 0 ∧ s.busy u = true ∧ s.abs u = none ∧ s.wh u = 0 ∧
      (cur ≠ 0 → s.pub cur = true ∧ s.bkt cur = h u)
  | .mNext u _ cur => u ≠ 0 ∧ s.busy u = true ∧ s.abs u = none ∧ s.wh u = 0 ∧ s.pub cur = true ∧ s.bkt cur = h u
  | .mSetUnit u _ cur => u ≠ 0 ∧ s.busy u = true ∧ s.abs u = none ∧ s.wh u = 0 ∧ s.pub cur = true ∧ s.bkt cur = h u ∧
      (s.cell cur).unit = 0
  | .mSetThr u _ cur => s.busy u = true ∧ s.abs u = none ∧ s.wh u = cur ∧ cur ≠ 0
  | .mAlloc u _ => u ≠ 0 ∧ s.busy u = true ∧ s.abs u = none ∧ s.wh u = 0
  | .mPub u th new => u ≠ 0 ∧ s.busy u = true ∧ s.abs u = none ∧ s.wh u = 0 ∧ s.pub new = false ∧ 1 ≤ new ∧
      new < s.nextId ∧ s.cell new = ⟨u, th, s.head (h u)⟩ ∧ s.bkt new = h u ∧
      (∀ e, s.pub e = true → s.bkt e = h u → e < new)
  | .mRel u th true => s.busy u = true ∧ s.abs u = none ∧ s.wh u ≠ 0 ∧ (s.cell (s.wh u)).thr = th
  | .mRel u _ false => s.busy u = true ∧ s.abs u = none ∧ s.wh u = 0
  | .uAcq u => s.busy u = true ∧ s.abs u = none ∧ s.wh u ≠ 0
  | .uHead u => s.busy u = true ∧ s.abs u = none ∧ s.wh u ≠ 0
  | .uScan u cur => s.busy u = true ∧ s.abs u = none ∧ s.wh u ≠ 0 ∧ s.wh u ≤ cur ∧
      (cur ≠ 0 → s.pub cur = true ∧ s.bkt cur = h u)
  | .uNext u cur => s.busy u = true ∧ s.abs u = none ∧ s.wh u ≠ 0 ∧ s.wh u < cur ∧ s.pub cur = true ∧
      s.bkt cur = h u
  | .uClear u cur => s.busy u = true ∧ s.abs u = none ∧ s.wh u ≠ 0 ∧ s.wh u = cur
  | .uRel u => s.busy u = true ∧ s.abs u = none ∧ s.wh u = 0
  | .gHead u th => s.abs u = some th
  | .gScan u th cur => s.abs u = some th ∧ s.wh u ≤ cur ∧ s.pub cur = true ∧ s.bkt cur = h u
  | .gNext u th cur => s.abs u = some th ∧ s.wh u < cur ∧ s.pub cur = true ∧ s.bkt cur = h u
  | .gThr u th cur => s.abs u = some th ∧ s.wh u = cur
  | .gDone _ th r => r = th

structure Inv (h : Nat → Nat) (s : CSt) : Prop where
  g : GInv h s
  pcs : ∀ t, PcOK h s (s.pc t)
  busy2 : ∀ t t' u, opUnit (s.pc t) = some u → opUnit (s.pc t') = some u → t = t'
  lock1 : ∀ t b, holds h (s.pc t) = some b → s.lock b = some t
  lock2 : ∀ t b, s.lock b = some t → holds h (s.pc t) = some b

theorem inv_init (h : Nat → Nat) : Inv h CSt.init := by
  constructor
  · constructor <;> simp [CSt.init]
  · intro t; simp [CSt.init, PcOK]
  · intro t t' u; simp [CSt.init, opUnit]
  · intro t b; simp [CSt.init, holds]
  · intro t b; simp [CSt.init]

/-- a caller in a map/unmap of `u` has `busy u` and `abs u = none` -/
theorem pcok_busy (h : Nat → Nat) (s : CSt) (pc : Pc) (u : Nat) (hp : PcOK h s pc) (ho : opUnit pc = some u) :
    s.busy u = true ∧ s.abs u = none := by
  cases pc with
  | mRel u' th ok => cases ok <;> simp_all [PcOK, opUnit]
  | _ => simp_all [PcOK, opUnit]

/-- steps that only move caller `t` to `pc'` keeping the unit it operates on and the lock it holds -/
theorem inv_frame (h : Nat → Nat) (s : CSt) (t : Nat) (pc' : Pc) (hi : Inv h s)
    (hop : opUnit pc' = opUnit (s.pc t)) (hh : holds h pc' = holds h (s.pc t))
    (hok : PcOK h s pc') : Inv h { s with pc := upd s.pc t pc' } := by
  refine ⟨⟨hi.g.nid, hi.g.pub_lt, hi.g.head_pub, hi.g.head_max, hi.g.next_pub, hi.g.next_max, hi.g.wh_ok,
    hi.g.uniq, hi.g.abs_ok, hi.g.free_ok⟩, ?_, ?_, ?_, ?_⟩
  · intro t'
    by_cases ht : t' = t
    · subst ht; simp only [upd_same]; exact hok
    · simp only [upd, ht, if_false]; exact hi.pcs t'
  · intro t1 t2 u h1 h2
    have e1 : opUnit (upd s.pc t pc' t1) = opUnit (s.pc t1) := by
      by_cases ht : t1 = t
      · subst ht; simp only [upd_same]; exact hop
      · simp only [upd, ht, if_false]
    have e2 : opUnit (upd s.pc t pc' t2) = opUnit (s.pc t2) := by
      by_cases ht : t2 = t
      · subst ht; simp only [upd_same]; exact hop
      · simp only [upd, ht, if_false]
    simp only at h1 h2
    rw [e1] at h1; rw [e2] at h2
    exact hi.busy2 t1 t2 u h1 h2
  · intro t1 b h1
    have e1 : holds h (upd s.pc t pc' t1) = holds h (s.pc t1) := by
      by_cases ht : t1 = t
      · subst ht; simp only [upd_same]; exact hh
      · simp only [upd, ht, if_false]
    simp only at h1
    rw [e1] at h1
    exact hi.lock1 t1 b h1
  · intro t1 b h1
    have e1 : holds h (upd s.pc t pc' t1) = holds h (s.pc t1) := by
      by_cases ht : t1 = t
      · subst ht; simp only [upd_same]; exact hh
      · simp only [upd, ht, if_false]
    simp only
    rw [e1]
    exact hi.lock2 t1 b h1

end ArgoVerif.Model.UnitMap
