import ArgoVerif.Proofs.UnitMapConc
/-
Proofs.UnitMapConc2 — preservation of `Inv` by the steps that only move one caller.
-/
namespace ArgoVerif.Model.UnitMap
open ArgoVerif

theorem step_frame (h : Nat → Nat) (s : CSt) (e : Nat × Act) (s' : CSt) (hi : Inv h s) (hs : Step h s e s')
    (hkind : match e.2 with
      | .mHead | .mScanEnd | .mScanTomb | .mScanUsed | .mNext | .mAllocFail | .uHead | .uScanHit | .uScanMiss
      | .uNext | .startGet _ | .gHead | .gScanHit | .gScanMiss | .gNext | .gThr | .gRet => True
      | _ => False) : Inv h s' := by
  cases hs with
  | @mHead t u th hpc =>
    have hp := hi.pcs t; rw [hpc] at hp; simp only [PcOK] at hp
    have hl := hi.lock1 t (h u) (by rw [hpc]; rfl)
    refine inv_frame h s t _ hi (by rw [hpc]; rfl) (by rw [hpc]; rfl) ?_
    simp only [PcOK]
    have := hi.g.head_pub (h u)
    grind
  | @mScanEnd t u th hpc =>
    have hp := hi.pcs t; rw [hpc] at hp; simp only [PcOK] at hp
    refine inv_frame h s t _ hi (by rw [hpc]; rfl) (by rw [hpc]; rfl) ?_
    simp only [PcOK]; grind
  | @mScanTomb t u th cur hpc hc hu =>
    have hp := hi.pcs t; rw [hpc] at hp; simp only [PcOK] at hp
    refine inv_frame h s t _ hi (by rw [hpc]; rfl) (by rw [hpc]; rfl) ?_
    simp only [PcOK]; grind
  | @mScanUsed t u th cur hpc hc hu =>
    have hp := hi.pcs t; rw [hpc] at hp; simp only [PcOK] at hp
    refine inv_frame h s t _ hi (by rw [hpc]; rfl) (by rw [hpc]; rfl) ?_
    simp only [PcOK]; grind
  | @mNext t u th cur hpc =>
    have hp := hi.pcs t; rw [hpc] at hp; simp only [PcOK] at hp
    refine inv_frame h s t _ hi (by rw [hpc]; rfl) (by rw [hpc]; rfl) ?_
    simp only [PcOK]
    have := hi.g.next_pub cur
    grind
  | @mAllocFail t u th hpc =>
    have hp := hi.pcs t; rw [hpc] at hp; simp only [PcOK] at hp
    refine inv_frame h s t _ hi (by rw [hpc]; rfl) (by rw [hpc]; rfl) ?_
    simp only [PcOK]; grind
  | @uHead t u hpc =>
    have hp := hi.pcs t; rw [hpc] at hp; simp only [PcOK] at hp
    refine inv_frame h s t _ hi (by rw [hpc]; rfl) (by rw [hpc]; rfl) ?_
    simp only [PcOK]
    have := hi.g.head_pub (h u)
    have := hi.g.wh_ok u
    have := hi.g.head_max (s.wh u)
    grind
  | @uScanHit t u cur hpc hc hu =>
    have hp := hi.pcs t; rw [hpc] at hp; simp only [PcOK] at hp
    refine inv_frame h s t _ hi (by rw [hpc]; rfl) (by rw [hpc]; rfl) ?_
    simp only [PcOK]
    have := hi.g.uniq cur
    have := hi.g.wh_ok u
    grind
  | @uScanMiss t u cur hpc hc hu =>
    have hp := hi.pcs t; rw [hpc] at hp; simp only [PcOK] at hp
    refine inv_frame h s t _ hi (by rw [hpc]; rfl) (by rw [hpc]; rfl) ?_
    simp only [PcOK]
    have := hi.g.wh_ok u
    grind
  | @uNext t u cur hpc =>
    have hp := hi.pcs t; rw [hpc] at hp; simp only [PcOK] at hp
    refine inv_frame h s t _ hi (by rw [hpc]; rfl) (by rw [hpc]; rfl) ?_
    simp only [PcOK]
    have := hi.g.next_pub cur
    have := hi.g.wh_ok u
    have := hi.g.next_max cur (s.wh u)
    have := hi.g.pub_lt (s.wh u)
    grind
  | @startGet t u th hpc ha =>
    refine inv_frame h s t _ hi (by rw [hpc]; rfl) (by rw [hpc]; rfl) ?_
    simp only [PcOK]; exact ha
  | @gHead t u th hpc =>
    have hp := hi.pcs t; rw [hpc] at hp; simp only [PcOK] at hp
    refine inv_frame h s t _ hi (by rw [hpc]; rfl) (by rw [hpc]; rfl) ?_
    simp only [PcOK]
    have := hi.g.abs_ok u th
    have := hi.g.head_pub (h u)
    have := hi.g.wh_ok u
    have := hi.g.head_max (s.wh u)
    have := hi.g.pub_lt (s.wh u)
    grind
  | @gScanHit t u th cur hpc hc hu =>
    have hp := hi.pcs t; rw [hpc] at hp; simp only [PcOK] at hp
    refine inv_frame h s t _ hi (by rw [hpc]; rfl) (by rw [hpc]; rfl) ?_
    simp only [PcOK]
    have := hi.g.abs_ok u th
    have := hi.g.uniq cur
    have := hi.g.wh_ok u
    grind
  | @gScanMiss t u th cur hpc hc hu =>
    have hp := hi.pcs t; rw [hpc] at hp; simp only [PcOK] at hp
    refine inv_frame h s t _ hi (by rw [hpc]; rfl) (by rw [hpc]; rfl) ?_
    simp only [PcOK]
    have := hi.g.abs_ok u th
    have := hi.g.wh_ok u
    grind
  | @gNext t u th cur hpc =>
    have hp := hi.pcs t; rw [hpc] at hp; simp only [PcOK] at hp
    refine inv_frame h s t _ hi (by rw [hpc]; rfl) (by rw [hpc]; rfl) ?_
    simp only [PcOK]
    have := hi.g.abs_ok u th
    have := hi.g.next_pub cur
    have := hi.g.wh_ok u
    have := hi.g.next_max cur (s.wh u)
    have := hi.g.pub_lt (s.wh u)
    grind
  | @gThr t u th cur hpc =>
    have hp := hi.pcs t; rw [hpc] at hp; simp only [PcOK] at hp
    refine inv_frame h s t _ hi (by rw [hpc]; rfl) (by rw [hpc]; rfl) ?_
    simp only [PcOK]
    have := hi.g.abs_ok u th
    grind
  | @gRet t u th r hpc =>
    refine inv_frame h s t _ hi (by rw [hpc]; rfl) (by rw [hpc]; rfl) ?_
    simp only [PcOK]
  | _ => simp at hkind

end ArgoVerif.Model.UnitMap
