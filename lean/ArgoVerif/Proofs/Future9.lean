import ArgoVerif.Proofs.Future
/- Proofs.Future9 — invariant preservation: API calls (split for build parallelism). -/
namespace ArgoVerif.Model.Future
open ArgoVerif
set_option maxHeartbeats 4000000

/-- program counters a call starts at -/
def Entry : Pc → Prop
  | .setCalled | .rejected | .waitCalled | .testCalled | .resetCalled | .freeCalled => True
  | .idle | .setCS | .setErrCS | .setErrDone | .setCbCS | .setCbRun | .setStCS | .setBcCS | .setRelCS | .setDone | .waitLdCS
  | .waitCS | .waitEnq | .waiting | .reW | .woken | .reR | .passCS | .waitDone | .testDone0 | .testDone1 | .resetCS | .resetStCS
  | .resetDone | .freeCS | .freed => False

/-- frame lemma for calls -/
theorem inv_enter (s : St) (a : Actor) (p : Pc) (g : Actor → Val) (h : Inv s) (h0 : s.pc a = .idle) (h1 : Entry p)
    (h2 : s.kind a = .task → p ≠ .waitCalled) : Inv (setPc { s with arg := g } a p) := by
  cases p <;> first | (simp [Entry] at h1; done) | (constructor <;> inv_tac h)

theorem inv_stepCall (s s' : St) (a : Actor) (op : Op) (v : Val) (h : Inv s) (hs : stepCall s a op v = some s') : Inv s' := by
  unfold stepCall at hs
  split at hs
  · cases hs
  · rename_i h0
    have h0 : s.pc a = .idle := by simpa using h0
    cases op <;> simp only [] at hs <;> cases hs
    · exact inv_enter s a _ _ h h0 trivial (by simp)
    · by_cases hk : s.kind a = .task
      · simpa [hk] using inv_enter s a .rejected s.arg h h0 trivial (by simp)
      · simpa [hk] using inv_enter s a .waitCalled s.arg h h0 trivial (by simp [hk])
    · exact inv_enter s a .testCalled s.arg h h0 trivial (by simp)
    · exact inv_enter s a .resetCalled s.arg h h0 trivial (by simp)
    · exact inv_enter s a .freeCalled s.arg h h0 trivial (by simp)

end ArgoVerif.Model.Future
