import ArgoVerif.Proofs.Future
/- Proofs.Future9 — invariant preservation: API calls, part 1 (split for build parallelism). -/
namespace ArgoVerif.Model.Future
open ArgoVerif
set_option maxHeartbeats 4000000

/-- frame lemma for calls (set, wait) -/
theorem inv_enter_a (s : St) (a : Actor) (p : Pc) (g : Actor → Val) (h : Inv s) (h0 : s.pc a = .idle)
    (h1 : p = .setCalled ∨ p = .rejected ∨ p = .waitCalled)
    (h2 : s.kind a = .task → p ≠ .waitCalled) : Inv (setPc { s with arg := g } a p) := by
  rcases h1 with rfl | rfl | rfl <;> constructor <;> inv_tac h

end ArgoVerif.Model.Future
