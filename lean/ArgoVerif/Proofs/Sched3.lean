import ArgoVerif.Proofs.Sched2
/- Proofs.Sched3 — remaining steps. -/
namespace ArgoVerif.Model.Sched
open ArgoVerif
set_option maxHeartbeats 8000000

theorem inv_stepSetSt (s s' : St) (u : UnitId) (v : USt) (h : Inv s) (hs : stepSetSt s u v = some s') : Inv s' := by
  unfold stepSetSt at hs
  cases v <;> cases hl : s.loc u <;> simp only [hl] at hs <;> (repeat' (split at hs)) <;> close_tac h hs

theorem inv_stepRun (s s' : St) (e : EsId) (u : UnitId) (h : Inv s) (hs : stepRun s e u = some s') : Inv s' := by
  unfold stepRun at hs
  cases hl : s.loc u <;> simp only [hl] at hs <;> (repeat' (split at hs)) <;> close_tac h hs

theorem inv_stepIncB (s s' : St) (u : UnitId) (p : PoolId) (h : Inv s) (hs : stepIncB s u p = some s') : Inv s' := by
  unfold stepIncB at hs
  cases hl : s.loc u <;> simp only [hl] at hs <;> (repeat' (split at hs)) <;> close_tac h hs

theorem inv_stepDecB (s s' : St) (u : UnitId) (p : PoolId) (h : Inv s) (hs : stepDecB s u p = some s') : Inv s' := by
  unfold stepDecB at hs
  split at hs
  · rename_i hg
    have e1 := cntP_erase s.owedL u p
    have e2 := cntU_erase s.owedL u p
    have e3 := cntU_pos_of_mem s.owedL u p hg
    have e4 : ∀ v q, (v, q) ∈ s.owedL.erase (u, p) → (v, q) ∈ s.owedL := fun v q hm => List.mem_of_mem_erase hm
    have e5 : ∀ v q, (v, q) ∈ s.owedL → (v, q) ≠ (u, p) → (v, q) ∈ s.owedL.erase (u, p) :=
      fun v q hm hne => (List.mem_erase_of_ne hne).mpr hm
    have e6 := cntUP_erase s.owedL u p u p hg
    have e7 := cntUP_pos_iff (s.owedL.erase (u, p)) u p
    (repeat' (split at hs)) <;> close_tac h hs
  · cases hs

theorem inv_stepFinish (s s' : St) (e : EsId) (u : UnitId) (h : Inv s) (hs : stepFinish s e u = some s') : Inv s' := by
  unfold stepFinish at hs
  split at hs
  · cases hs; exact h
  · cases hs

theorem inv_stepTerminate (s s' : St) (u : UnitId) (h : Inv s) (hs : stepTerminate s u = some s') : Inv s' := by
  unfold stepTerminate at hs
  split at hs
  · cases hs
  · cases hl : s.loc u <;> simp only [hl] at hs <;> (repeat' (split at hs)) <;> close_tac h hs

theorem inv_stepReqSet (s s' : St) (u : UnitId) (r : Req) (h : Inv s) (hs : stepReqSet s u r = some s') : Inv s' := by
  cases r <;> simp only [stepReqSet] at hs <;> cases hs <;> exact ⟨h.nbCount, h.unitCount, h.chargedMem, h.blockedCharged,
    h.stBlockedLoc, h.runningSt, h.termLoc, h.startsLe, h.termRan, h.doneTerm, h.resumedBlocked, h.cancTerm⟩

theorem inv_stepReqClr (s s' : St) (u : UnitId) (r : Req) (h : Inv s) (hs : stepReqClr s u r = some s') : Inv s' := by
  cases r <;> simp only [stepReqClr] at hs <;> cases hs <;> exact ⟨h.nbCount, h.unitCount, h.chargedMem, h.blockedCharged,
    h.stBlockedLoc, h.runningSt, h.termLoc, h.startsLe, h.termRan, h.doneTerm, h.resumedBlocked, h.cancTerm⟩

theorem inv_stepMigrate (s s' : St) (u : UnitId) (p : PoolId) (h : Inv s) (hs : stepMigrate s u p = some s') : Inv s' := by
  unfold stepMigrate at hs
  cases hl : s.loc u <;> simp only [hl] at hs <;> (repeat' (split at hs)) <;> close_tac h hs

theorem inv_stepJoinRet (s s' : St) (j u : UnitId) (h : Inv s) (hs : stepJoinRet s j u = some s') : Inv s' := by
  unfold stepJoinRet at hs
  split at hs
  · cases hs; exact h
  · cases hs

theorem inv_stepXferB (s s' : St) (f t : UnitId) (h : Inv s) (hs : stepXferB s f t = some s') : Inv s' := by
  unfold stepXferB at hs
  cases hl : s.loc t <;> simp only [hl] at hs <;> (repeat' (split at hs)) <;>
  (first
   | (cases hs; done)
   | (rename_i hg
      have e1 := cntP_erase s.owedL f (s.pool t)
      have e2 := cntU_erase s.owedL f (s.pool t)
      have e3 := cntU_pos_of_mem s.owedL f (s.pool t) hg.2.2.2.2.1
      have e4 : ∀ v q, (v, q) ∈ s.owedL.erase (f, s.pool t) → (v, q) ∈ s.owedL := fun v q hm => List.mem_of_mem_erase hm
      have e5 : ∀ v q, (v, q) ∈ s.owedL → (v, q) ≠ (f, s.pool t) → (v, q) ∈ s.owedL.erase (f, s.pool t) :=
        fun v q hm hne => (List.mem_erase_of_ne hne).mpr hm
      close_tac h hs))

theorem inv_step (s s' : St) (e : Ev) (h : Inv s) (hs : step s e = some s') : Inv s' := by
  cases e with
  | create u p => exact inv_stepCreate s s' u p h hs
  | push p u => exact inv_stepPush s s' p u h hs
  | pop e p u => exact inv_stepPop s s' e p u h hs
  | setSt u v => exact inv_stepSetSt s s' u v h hs
  | run e u => exact inv_stepRun s s' e u h hs
  | userStart u => exact inv_stepUserStart s s' u h hs
  | userEnd u => exact inv_stepUserEnd s s' u h hs
  | cb e u k => exact inv_stepCb s s' e u k h hs
  | incB u p => exact inv_stepIncB s s' u p h hs
  | decB u p => exact inv_stepDecB s s' u p h hs
  | resume u => exact inv_stepResume s s' u h hs
  | finish e u => exact inv_stepFinish s s' e u h hs
  | terminate u => exact inv_stepTerminate s s' u h hs
  | free u => exact inv_stepFree s s' u h hs
  | reqSet u r => exact inv_stepReqSet s s' u r h hs
  | reqClr u r => exact inv_stepReqClr s s' u r h hs
  | migrate u p => exact inv_stepMigrate s s' u p h hs
  | joinRet j u => exact inv_stepJoinRet s s' j u h hs
  | xferB f t => exact inv_stepXferB s s' f t h hs

theorem inv_reachable (s : St) (h : machine.Reachable s) : Inv s :=
  Machine.invariant_reachable machine Inv inv_init (fun s e s' hi hs => inv_step s s' e hi hs) s h

end ArgoVerif.Model.Sched
