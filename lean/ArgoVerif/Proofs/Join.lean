import ArgoVerif.Model.Join
/- Proofs.Join — inductive invariant of the join hand-shake. -/
namespace ArgoVerif.Model.Join
open ArgoVerif
set_option maxHeartbeats 2000000

def JSusp : JPc → Prop | .blocked | .xsleep => True | _ => False
def JPublishing : JPc → Prop | .blk | .lnk | .xlnk => True | _ => False
def TBefore : TPc → Prop | .run | .ldl | .fo | .spin | .res => True | _ => False

structure Inv (s : St) : Prop where
  wonExcl : ¬ (s.jWon = true ∧ s.tWon = true)
  reqIff : s.reqJoin = true ↔ (s.jWon = true ∨ s.tWon = true)
  publishing : JPublishing s.jpc → (s.jWon = true ∧ s.link = false ∧ s.resumes = 0 ∧ TBefore s.tpc ∧ s.tpc ≠ .res)
  suspended : JSusp s.jpc → (s.jWon = true ∧ s.link = true ∧ s.jBlocked = true ∧ s.resumes = 0 ∧ TBefore s.tpc)
  linkWon : s.link = true → s.jWon = true
  resFound : s.tpc = .res → (s.link = true ∧ JSusp s.jpc)
  resumesLe : s.resumes ≤ 1
  resumedAfter : s.resumes = 1 → (s.jWon = true ∧ (s.tpc = .term ∨ s.tpc = .done) ∧ ¬ JSusp s.jpc ∧ ¬ JPublishing s.jpc)
  doneTerm : s.jpc = .done → s.term = true
  termIff : s.term = true ↔ s.tpc = .done
  tWonNoBlock : s.tWon = true → (¬ JSusp s.jpc ∧ ¬ JPublishing s.jpc ∧ s.link = false)
  termAfterWon : (s.tpc = .term ∨ s.tpc = .done) → s.jWon = true → s.resumes = 1
  blkFlag : s.jpc = .lnk → s.jBlocked = true
  spinWon : s.tpc = .spin → s.jWon = true
  notStarted : (s.jpc = .idle ∨ s.jpc = .chk ∨ s.jpc = .fo ∨ s.jpc = .xfo) → s.term = false → s.jWon = false
  tPastReq : s.reqJoin = false → (s.tpc = .run ∨ s.tpc = .ldl ∨ s.tpc = .fo)
  tBeforeResumes : TBefore s.tpc → s.resumes = 0
  linkSusp : s.link = true → s.resumes = 0 → JSusp s.jpc
  tNotWon : (s.tpc = .run ∨ s.tpc = .ldl ∨ s.tpc = .fo) → s.tWon = false
  pastWon : (s.jpc = .ylp ∨ s.jpc = .xbusy ∨ s.jpc = .done) → s.jWon = true → s.resumes = 1

theorem inv_init : Inv init := by
  constructor <;> simp [init, JSusp, JPublishing, TBefore]

theorem inv_step (s s' : St) (e : Ev) (h : Inv s) (hs : step s e = some s') : Inv s' := by
  have h1 := h.wonExcl; have h2 := h.reqIff; have h3 := h.publishing; have h4 := h.suspended; have h5 := h.linkWon
  have h6 := h.resFound; have h7 := h.resumesLe; have h8 := h.resumedAfter; have h9 := h.doneTerm; have h10 := h.termIff
  have h11 := h.tWonNoBlock; have h12 := h.termAfterWon; have h13 := h.blkFlag; have h14 := h.spinWon; have h15 := h.notStarted; have h16 := h.tNotWon; have h17 := h.tPastReq; have h18 := h.tBeforeResumes; have h19 := h.linkSusp; have h20 := h.pastWon
  cases e <;> simp only [step] at hs <;> (repeat' (split at hs)) <;>
    (first
     | (cases hs; done)
     | (cases hs; constructor <;> grind [JSusp, JPublishing, TBefore]))

theorem inv_reachable (s : St) (h : machine.Reachable s) : Inv s :=
  Machine.invariant_reachable machine Inv inv_init (fun s e s' hi hs => inv_step s s' e hi hs) s h

end ArgoVerif.Model.Join
