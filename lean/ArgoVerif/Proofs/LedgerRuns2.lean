import ArgoVerif.Model.Ledger
import ArgoVerif.Gen.Ladders
/-
Proofs.LedgerRuns2 — kernel evaluation (`decide`, no native code) of the C18 checks over the complete
enumeration `runs` of the generated ladders that CHANGE visible state of pre-existing objects on their way:
main-scheduler replacement (`p_sched->used`, `p_xstream->p_main_sched`) and re-association of an existing
work unit with another pool (`p_thread->unit`).  Their successful execution consumes a pre-existing resource
by design (the replaced automatic scheduler, the unit of the old pool), so the fourth check is
`preUntouchedOnError`; `noBadRelease` and `stateRolledBack` are checked explicitly.
-/
namespace ArgoVerif.Proofs.LedgerRuns2
open ArgoVerif.Model.Ledger ArgoVerif.Gen.Ladders

/-- the six checks of a state-changing ladder -/
def check6 (p : Prog) (allowed : List (List Kind)) (o : Outcome) : Bool :=
  failBalanced o && successExact allowed o && handleOk p o && preUntouchedOnError p o && noBadRelease o &&
    stateRolledBack p o

theorem and6 {a b c d e f : Bool} (h : (a && b && c && d && e && f) = true) :
    a = true ∧ b = true ∧ c = true ∧ d = true ∧ e = true ∧ f = true := by
  simp only [Bool.and_eq_true] at h
  exact ⟨h.1.1.1.1.1, h.1.1.1.1.2, h.1.1.1.2, h.1.1.2, h.1.2, h.2⟩

def allowed_xstream_update_main_sched : List (List Kind) := [[]]
theorem runs_xstream_update_main_sched :
    allRuns xstream_update_main_sched 400 0 (check6 xstream_update_main_sched allowed_xstream_update_main_sched) = true := by
  decide +kernel
theorem nonvacuous_xstream_update_main_sched : 0 < injectedRuns xstream_update_main_sched 400 0 := by decide +kernel

def allowed_xstream_update_main_sched_first : List (List Kind) := [[]]
theorem runs_xstream_update_main_sched_first :
    allRuns xstream_update_main_sched_first 400 0
      (check6 xstream_update_main_sched_first allowed_xstream_update_main_sched_first) = true := by
  decide +kernel

def allowed_ABT_xstream_set_main_sched : List (List Kind) := [[K_sched]]
theorem runs_ABT_xstream_set_main_sched :
    allRuns ABT_xstream_set_main_sched 400 0 (check6 ABT_xstream_set_main_sched allowed_ABT_xstream_set_main_sched) = true := by
  decide +kernel
theorem nonvacuous_ABT_xstream_set_main_sched : 0 < injectedRuns ABT_xstream_set_main_sched 400 0 := by decide +kernel

def allowed_ABT_xstream_set_main_sched_given : List (List Kind) := [[]]
theorem runs_ABT_xstream_set_main_sched_given :
    allRuns ABT_xstream_set_main_sched_given 400 0
      (check6 ABT_xstream_set_main_sched_given allowed_ABT_xstream_set_main_sched_given) = true := by
  decide +kernel
theorem nonvacuous_ABT_xstream_set_main_sched_given : 0 < injectedRuns ABT_xstream_set_main_sched_given 400 0 := by
  decide +kernel

def allowed_ABT_xstream_set_main_sched_basic : List (List Kind) := [[K_sched]]
theorem runs_ABT_xstream_set_main_sched_basic :
    allRuns ABT_xstream_set_main_sched_basic 600 2
      (check6 ABT_xstream_set_main_sched_basic allowed_ABT_xstream_set_main_sched_basic) = true := by
  decide +kernel
theorem nonvacuous_ABT_xstream_set_main_sched_basic : 0 < injectedRuns ABT_xstream_set_main_sched_basic 600 2 := by
  decide +kernel

def allowed_ABTI_thread_set_associated_pool : List (List Kind) := [[], [K_unit, K_unitmap]]
theorem runs_ABTI_thread_set_associated_pool :
    allRuns ABTI_thread_set_associated_pool 400 0
      (check6 ABTI_thread_set_associated_pool allowed_ABTI_thread_set_associated_pool) = true := by
  decide +kernel
theorem nonvacuous_ABTI_thread_set_associated_pool : 0 < injectedRuns ABTI_thread_set_associated_pool 400 0 := by
  decide +kernel

end ArgoVerif.Proofs.LedgerRuns2
