import ArgoVerif.Proofs.RWLock
/- Proofs.RWLock5 — invariant preservation for sleep (cond wait entered) and wake (the unlocker's broadcast). -/
namespace ArgoVerif.Model.RWLock
open ArgoVerif
set_option maxHeartbeats 4000000

theorem inv_stepSleep (s s' : St) (a : Actor) (h : Inv s) (hs : stepSleep s a = some s') : Inv s' := by
  unfold stepSleep at hs
  (repeat' (split at hs)) <;> close_tac h hs

theorem inv_stepWake (s s' : St) (a n : Actor) (h : Inv s) (hs : stepWake s a n = some s') : Inv s' := by
  unfold stepWake at hs
  split at hs
  · rename_i hd tl hpc hq
    split at hs
    · rename_i hn
      have hmem : n ∈ s.q := by rw [hq, hn]; simp
      have hnd : n ∉ tl ∧ tl.Nodup := by
        have := h.nodup; rw [hq, hn] at this; exact List.nodup_cons.mp this
      have hsl : Asleep (s.pc n) := (h.qIff n).mp hmem
      have htl : ∀ x, x ∈ tl ↔ (x ∈ s.q ∧ x ≠ n) := by
        intro x; rw [hq, hn]; simp only [List.mem_cons]; grind
      have hw : (s.pc n = .rSleep ∧ wokenPc (s.pc n) = .rWoken) ∨ (s.pc n = .wSleep ∧ wokenPc (s.pc n) = .wWoken) := by
        generalize s.pc n = p at hsl
        cases p <;> simp [Asleep, wokenPc] at hsl ⊢
      close_tac h hs
    · cases hs
  · cases hs

end ArgoVerif.Model.RWLock
