import ArgoVerif.Proofs.PoolConcK
/- Proofs.PoolConcL — preservation of the second invariant: call, callback entry, link. -/
namespace ArgoVerif.Model.PoolConc
open ArgoVerif ArgoVerif.Model.TQ
set_option maxHeartbeats 1000000

theorem pushlike_of_not {c : Call} (h1 : isPopLike c = false) (h2 : isRemove c = false) : isPushLike c = true := by
  cases c <;> simp_all [isPushLike, isPopLike, isRemove]

theorem todoInit_eq (c : Call) :
    (match c with | .push u _ => [u] | .pushMany us _ => us | _ => []) = unitsOf c := by
  cases c <;> rfl

theorem inv2_call {cfg : Cfg} {s s' : St} {a : Actor} {c : Call} (hi : Inv cfg s) (h : Inv2 s)
    (hs : stepCall cfg s a c = some s') : Inv2 s' := by
  unfold stepCall at hs
  split at hs
  · simp at hs
  split at hs
  · simp at hs
  simp only [Option.some.injEq] at hs; subst hs
  obtain ⟨b1, b2, b3, b4, b5, b6, b7, b8, b9, bE, bC, b10, b11⟩ := bodyPc_kind cfg c
  apply inv2_update hi h (a := a)
  case opc | ocur | odone | obase | otodo | opu | ogot => intro b hb; simp [setPc, upd, hb]
  case hq => exact Or.inl rfl
  all_goals simp only [setPc, upd, if_true, todoInit_eq, pending]
  case a1 =>
    intro hp _
    rcases entryPc_cases cfg c with e | e
    · simp [e.1]; cases c <;> rfl
    · simp [e, b5, b6]; cases c <;> rfl
  case a2 => intro _ _; simp
  case a3 => intro _ _; simp
  case a4 =>
    intro hp hc
    rcases entryPc_cases cfg c with e | e
    · simp [e.1] at hc
    · rw [e] at hc
      rcases b1 hp with k | k | k
      · rcases hc with hc | hc | hc <;> simp [hc, PrePush] at k
      · rcases hc with hc | hc | hc <;> simp [hc] at k
      · have k2 := k.2; cases c <;> simp_all [unitsOf]
  case a5 => intro _ _; simp; cases c <;> rfl
  case a6 => intro _ _; trivial
  case a7 =>
    intro hc
    rcases entryPc_cases cfg c with e | e
    · simp [e.1] at hc
    · rw [e] at hc
      cases hc with
      | inl hc => exact b10 hc
      | inr hc => exact absurd hc b9
  case a8 =>
    intro hc
    rcases entryPc_cases cfg c with e | e
    · simp [e.1] at hc
    · rw [e] at hc
      cases hc with
      | inl hc => exact absurd hc bE
      | inr hc => exact absurd hc bC

theorem inv2_cbPushMany {cfg : Cfg} {s s' : St} {a : Actor} {n : Nat} (hi : Inv cfg s) (h : Inv2 s)
    (hs : stepCbPushMany cfg s a n = some s') : Inv2 s' := by
  unfold stepCbPushMany at hs
  split at hs
  · simp at hs
  next hg =>
  simp only [Option.some.injEq] at hs; subst hs
  have hpc : s.pc a = .pmCb := by simp_all
  obtain ⟨hnp, hnr⟩ := (hi.typed a).1 (by simp [hpc, PushPc])
  have hp := pushlike_of_not hnp hnr
  obtain ⟨hd, ht⟩ := h.pre a hp (by simp [hpc, PrePush])
  obtain ⟨b1, b2, b3, b4, b5, b6, b7, b8, b9, bE, bC, b10, b11⟩ := bodyPc_kind cfg (s.cur a)
  apply inv2_update hi h (a := a)
  case opc | ocur | odone | obase | otodo | opu | ogot => intro b hb; simp [setPc, upd, hb]
  case hq => exact Or.inl rfl
  all_goals simp only [setPc, upd, if_true, pending]
  case a1 => intro _ _; simp [b5, b6, hd, ht]
  case a2 => intro _ _; simp [hd]
  case a3 => intro _ hpl; simp [hnp] at hpl
  case a4 =>
    intro _ hc
    rcases b1 hp with k | k | k
    · rcases hc with hc | hc | hc <;> simp [hc, PrePush] at k
    · rcases hc with hc | hc | hc <;> simp [hc] at k
    · rw [ht]; exact k.2
  case a5 => intro _ _; exact ⟨hd, ht⟩
  case a6 => intro hpl; simp [hnp] at hpl
  case a7 => intro _; exact hnp
  case a8 => intro hc; cases hc with
    | inl hc => exact absurd hc bE
    | inr hc => exact absurd hc bC

theorem inv2_link {cfg : Cfg} {s s' : St} {a : Actor} {u : Nat} {hd : Bool} (hi : Inv cfg s) (h : Inv2 s)
    (hs : stepLink s a u hd = some s') : Inv2 s' := by
  unfold stepLink at hs
  split at hs
  next rest hpc htodo =>
    split at hs
    · simp at hs
    next hg =>
    simp only [Option.some.injEq] at hs; subst hs
    have hu : u = (s.todo a).head?.getD 0 := by simp [htodo]; simp_all
    obtain ⟨hnp, hnr⟩ := (hi.typed a).1 (by simp [hpc, PushPc])
    have hp := pushlike_of_not hnp hnr
    have hb := h.batch a hp (by simp [hpc])
    have hc := h.contig a (by simp [hpc, InCS]) hp
    have hu' : ∃ u', s.todo a = u' :: rest ∧ u' = u := ⟨_, htodo, by simp_all⟩
    obtain ⟨u', ht, rfl⟩ := hu'
    apply inv2_update hi h (a := a)
    case opc | ocur | odone | obase | otodo | opu | ogot => intro b hb; simp [setPc, upd, hb]
    case hq => exact Or.inl rfl
    all_goals simp only [setPc, upd, if_true, pending]
    case a1 =>
      intro _ _
      simp only [pending, hpc, ht] at hb
      by_cases hq : s.q = [] <;> simp [hq, hb]
    case a2 => intro _ _; exact hc
    case a3 => intro _ hpl; simp [hnp] at hpl
    case a4 => by_cases hq : s.q = [] <;> simp [hq]
    case a5 => by_cases hq : s.q = [] <;> simp [hq, PrePush]
    case a6 => intro hpl; simp [hnp] at hpl
    case a7 => by_cases hq : s.q = [] <;> simp [hq]
    case a8 => by_cases hq : s.q = [] <;> simp [hq]
  · simp at hs

end ArgoVerif.Model.PoolConc
