import ArgoVerif.Model.StackGeom
/-
Proofs.StackGeom — arithmetic facts about `ABTU_roundup_size`, the initial stack pointer and
the provenance functions of Model.StackGeom.
-/
namespace ArgoVerif.Model.StackGeom
open ArgoVerif.Gen

theorem CL_eq : CL = 64 := rfl
theorem YT_eq : YT = 128 := rfl
theorem DESC_eq : DESC = 128 := rfl

/-- `roundup(v, 64)`: the least multiple of 64 that is `≥ v` -/
theorem roundup64 (v : Int) : v ≤ roundup v CL ∧ roundup v CL < v + 64 ∧ roundup v CL % 64 = 0 := by
  simp only [roundup, CL_eq]; omega

theorem roundup64_of_mult (v : Int) (h : v % 64 = 0) : roundup v CL = v := by
  simp only [roundup, CL_eq]; omega

theorem roundup64_fix_iff (v : Int) : roundup v CL = v ↔ v % 64 = 0 := by
  simp only [roundup, CL_eq]; constructor <;> intro h <;> omega

/-- the mask form used by the C code for powers of two, `(v + 63) & ~63`, is `v + 63 - (v + 63) % 64` -/
theorem roundup64_mask (v : Int) : roundup v CL = (v + 63) - (v + 63) % 64 := by
  simp only [roundup, CL_eq]
  have : v + 64 - 1 = v + 63 := by omega
  rw [this]; omega

theorem usableTop_spec (top : Int) : usableTop top ≤ top ∧ top - usableTop top ≤ 15 ∧ usableTop top % 16 = 0 := by
  simp only [usableTop]; omega

theorem initialRsp_spec (top : Int) :
    initialRsp top = usableTop top - 8 ∧ initialRsp top + 8 ≤ top ∧ top - 23 ≤ initialRsp top ∧
    (initialRsp top + 8) % 16 = 0 := by
  refine ⟨rfl, ?_, ?_, ?_⟩ <;> (simp only [initialRsp]; omega)

end ArgoVerif.Model.StackGeom
