import ArgoVerif.Proofs.Future
/- Proofs.Future6 — the ghost list `vals` (values of this epoch's successful sets, in order) is what the array holds. -/
namespace ArgoVerif.Model.Future
open ArgoVerif
set_option maxHeartbeats 4000000

/-- compartment i of the array holds the value of the (i+1)-th successful set of the epoch -/
def Fill (s : St) : Prop := ∀ i, i < s.vals.length → s.vals[i]? = some (s.arr i)

theorem fill_init (k : Actor → Kind) (n : Nat) (c : Bool) : Fill (init k n c) := by
  intro i hi; simp [init] at hi

theorem fill_same (s s' : St) (hv : s'.vals = s.vals) (ha : s'.arr = s.arr) (h : Fill s) : Fill s' := by
  intro i hi; rw [hv] at hi ⊢; rw [ha]; exact h i hi

theorem fill_store (s : St) (a : Actor) (h : Fill s) (hl : s.vals.length = s.counter) : Fill (store s a) := by
  intro i hi
  simp only [store, setPc, List.length_append, List.length_singleton] at hi ⊢
  by_cases hc : i < s.vals.length
  · rw [List.getElem?_append_left hc, h i hc]
    have : i ≠ s.counter := by omega
    simp [upd, this]
  · have hi' : i = s.vals.length := by omega
    subst hi'
    simp [upd, hl]

theorem fill_ldCnt (s s' : St) (a : Actor) (v : Nat) (hi : Inv s) (h : Fill s) (hs : stepLdCnt s a v = some s') : Fill s' := by
  unfold stepLdCnt at hs
  split at hs
  · cases hs
  · split at hs
    · rename_i hp
      split at hs
      · cases hs; exact fill_same _ _ rfl rfl h
      · cases hs
        exact fill_store s a h (hi.valsHeld a (by rw [hp]; trivial) (by rw [hp]; simp [Staged]))
    · split at hs <;> cases hs <;> exact fill_same _ _ rfl rfl h
    · cases hs

theorem fill_stCnt (s s' : St) (a : Actor) (v : Nat) (h : Fill s) (hs : stepStCnt s a v = some s') : Fill s' := by
  unfold stepStCnt at hs
  split at hs
  · split at hs
    · cases hs; exact fill_same _ _ rfl rfl h
    · cases hs
  · split at hs
    · cases hs; intro i hi; simp [setPc] at hi
    · cases hs
  · cases hs

theorem fill_step (s s' : St) (e : Ev) (hi : Inv s) (h : Fill s) (hs : step s e = some s') : Fill s' := by
  cases e with
  | ldCnt a v => exact fill_ldCnt s s' a v hi h hs
  | stCnt a v => exact fill_stCnt s s' a v h hs
  | call a op v =>
    simp only [step, stepCall] at hs
    split at hs
    · cases hs
    · cases op <;> simp only [] at hs <;> cases hs <;> exact fill_same _ _ rfl rfl h
  | ret a op rc r =>
    simp only [step, stepRet] at hs
    (repeat' (split at hs)) <;> first | (cases hs; done) | (cases hs; exact fill_same _ _ rfl rfl h)
  | acq a old =>
    simp only [step, stepAcq] at hs
    (repeat' (split at hs)) <;> first | (cases hs; done) | (cases hs; exact fill_same _ _ rfl rfl h)
  | cbBegin a =>
    simp only [step, stepCbBegin] at hs
    split at hs <;> first | (cases hs; done) | (cases hs; exact fill_same _ _ rfl rfl h)
  | cb a vs =>
    simp only [step, stepCb] at hs
    split at hs <;> first | (cases hs; done) | (cases hs; exact fill_same _ _ rfl rfl h)
  | enq a =>
    simp only [step, stepEnq] at hs
    split at hs <;> first | (cases hs; done) | (cases hs; exact fill_same _ _ rfl rfl h)
  | wake a n =>
    simp only [step, stepWake] at hs
    (repeat' (split at hs)) <;> first | (cases hs; done) | (cases hs; exact fill_same _ _ rfl rfl h)
  | rel a c n e =>
    simp only [step, stepRel, chk] at hs
    (repeat' (split at hs)) <;> first | (cases hs; done) | (cases hs; exact fill_same _ _ rfl rfl h)
  | tload a v =>
    simp only [step, stepTload] at hs
    (repeat' (split at hs)) <;> first | (cases hs; done) | (cases hs; exact fill_same _ _ rfl rfl h)
  | obsCnt v => simp only [step] at hs; split at hs <;> first | (cases hs; done) | (cases hs; exact h)
  | obsLock v => simp only [step] at hs; split at hs <;> first | (cases hs; done) | (cases hs; exact h)
  | arr vs => simp only [step] at hs; split at hs <;> first | (cases hs; done) | (cases hs; exact h)

/-- when the list is complete it is exactly what a reader of array[0..n) sees -/
theorem fill_full (s : St) (h : Fill s) (m : Nat) (hl : s.vals.length = m) : (List.range m).map s.arr = s.vals := by
  apply List.ext_getElem?
  intro i
  by_cases hi : i < m
  · rw [h i (by omega)]
    simp [hi]
  · have h1 : s.vals.length ≤ i := by omega
    simp [List.getElem?_eq_none h1, hi]

/-! what a return step tells about the returning actor -/
theorem ret_wait_ok (s s' : St) (a : Actor) (r : Bool) (hs : stepRet s a .wait .ok r = some s') :
    s.pc a = .woken ∨ s.pc a = .waitDone := by
  unfold stepRet at hs
  split at hs <;> simp_all

theorem ret_test_true (s s' : St) (a : Actor) (hs : stepRet s a .test .ok true = some s') : s.pc a = .testDone1 := by
  unfold stepRet at hs
  split at hs <;> simp_all

end ArgoVerif.Model.Future
