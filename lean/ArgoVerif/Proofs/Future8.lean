import ArgoVerif.Proofs.Future5
import ArgoVerif.Proofs.Future7
/- Proofs.Future8 — lock release: all cases. -/
namespace ArgoVerif.Model.Future
open ArgoVerif

theorem inv_stepRel (s s' : St) (a : Actor) (c n : Nat) (e : Bool) (h : Inv s) (hs : stepRel s a c n e = some s') : Inv s' := by
  cases hp : s.pc a
  case setBcCS => exact inv_stepRel_a s s' a c n e h hs (by simp [hp])
  case setRelCS => exact inv_stepRel_a s s' a c n e h hs (by simp [hp])
  case setErrCS => exact inv_stepRel_a s s' a c n e h hs (by simp [hp])
  case waitEnq => exact inv_stepRel_a s s' a c n e h hs (by simp [hp])
  case reW => exact inv_stepRel_b s s' a c n e h hs (by simp [hp])
  case reR => exact inv_stepRel_b s s' a c n e h hs (by simp [hp])
  case passCS => exact inv_stepRel_b s s' a c n e h hs (by simp [hp])
  case resetStCS => exact inv_stepRel_b s s' a c n e h hs (by simp [hp])
  all_goals (simp [stepRel, hp] at hs)

end ArgoVerif.Model.Future
