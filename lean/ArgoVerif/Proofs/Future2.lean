import ArgoVerif.Proofs.Future
/- Proofs.Future2 — invariant preservation: enqueue, callback, test load, wake (split for build parallelism). -/
namespace ArgoVerif.Model.Future
open ArgoVerif
set_option maxHeartbeats 4000000

theorem inv_stepEnq (s s' : St) (a : Actor) (h : Inv s) (hs : stepEnq s a = some s') : Inv s' := by
  unfold stepEnq at hs
  split at hs <;> close_tac h hs

theorem inv_stepCbBegin (s s' : St) (a : Actor) (h : Inv s) (hs : stepCbBegin s a = some s') : Inv s' := by
  unfold stepCbBegin at hs
  split at hs <;> close_tac h hs

theorem inv_stepCb (s s' : St) (a : Actor) (vs : List Val) (h : Inv s) (hs : stepCb s a vs = some s') : Inv s' := by
  unfold stepCb at hs
  split at hs <;> close_tac h hs

theorem inv_stepTload (s s' : St) (a : Actor) (v : Nat) (h : Inv s) (hs : stepTload s a v = some s') : Inv s' := by
  unfold stepTload at hs
  (repeat' (split at hs)) <;> close_tac h hs

theorem wake_cases (s s' : St) (a n : Actor) (hs : stepWake s a n = some s') :
    s.pc a = .setBcCS ∧ ∃ t, s.q = n :: t ∧ s' = setPc { s with q := t, relEpoch := upd s.relEpoch n s.epoch } n .woken := by
  unfold stepWake at hs
  split at hs
  · rename_i hd tl hpc hq
    split at hs
    · rename_i hn; subst hn; cases hs; exact ⟨hpc, tl, hq, rfl⟩
    · cases hs
  · cases hs

theorem inv_stepWake (s s' : St) (a n : Actor) (h : Inv s) (hs : stepWake s a n = some s') : Inv s' := by
  obtain ⟨hpc, t, hq, rfl⟩ := wake_cases s s' a n hs
  have hm : n ∈ s.q := by rw [hq]; simp
  have hin := (h.inQ n).mp hm
  have hiw := inQ_inWait _ hin
  have hnc := inQ_needs _ hin
  have hnt : n ∉ t := by have := h.nodup; rw [hq] at this; exact (List.nodup_cons.mp this).1
  have htn : t.Nodup := by have := h.nodup; rw [hq] at this; exact (List.nodup_cons.mp this).2
  have hmem : ∀ b, b ∈ s.q ↔ (b = n ∨ b ∈ t) := by intro b; rw [hq]; simp
  constructor <;> inv_tac h

end ArgoVerif.Model.Future
