import ArgoVerif.Model.Env
import ArgoVerif.Proofs.Atoi
/-
Proofs.Env — clamping, `roundup_pow2_*`, `ABTU_roundup_*` and the generic
"row of the table is well formed ⇒ its setting is in range and correctly rounded".
-/
namespace ArgoVerif.Proofs.Env
open ArgoVerif.Model.Env ArgoVerif.Model.Atoi ArgoVerif.Gen.EnvTable
open ArgoVerif.Props.C20Spec (RndPost RndChain)

/-! ### clamp -/

theorem clamp_bounds (mn mx v : Int) (h : mn ≤ mx) : mn ≤ clamp mn mx v ∧ clamp mn mx v ≤ mx := by
  unfold clamp; simp only; split <;> split <;> omega

theorem clamp_id (mn mx v : Int) (h1 : mn ≤ v) (h2 : v ≤ mx) : clamp mn mx v = v := by
  unfold clamp; simp only; split <;> split <;> omega

theorem clamp_mono_lo (mn mx v lo : Int) (h : lo ≤ mn) : lo ≤ clamp mn mx v := by
  unfold clamp; simp only; split <;> split <;> omega

/-! ### roundup_pow2 -/

theorem findShift_spec (x f i : Nat) :
    i ≤ findShift x f i ∧ findShift x f i ≤ i + f ∧
    (x < 2 ^ (i + f) → x < 2 ^ findShift x f i) ∧
    (∀ k, i ≤ k → k < findShift x f i → 2 ^ k ≤ x) := by
  induction f generalizing i with
  | zero => simp [findShift]; intro k h1 h2; omega
  | succ f ih =>
    unfold findShift
    by_cases h : x >>> i = 0
    · simp only [h, if_true]
      refine ⟨Nat.le_refl _, by omega, ?_, fun k h1 h2 => by omega⟩
      intro _
      rw [Nat.shiftRight_eq_div_pow, Nat.div_eq_zero_iff] at h
      rcases h with h | h
      · exact absurd h (Nat.pos_iff_ne_zero.mp (Nat.two_pow_pos i))
      · exact h
    · simp only [h, if_false]
      obtain ⟨h1, h2, h3, h4⟩ := ih (i + 1)
      refine ⟨by omega, by omega, ?_, ?_⟩
      · intro hx; apply h3; rw [show i + 1 + f = i + (f + 1) by omega]; exact hx
      · intro k hk1 hk2
        by_cases hki : k = i
        · subst hki
          rw [Nat.shiftRight_eq_div_pow, Nat.div_eq_zero_iff] at h
          have := Nat.two_pow_pos k
          omega
        · exact h4 k (by omega) hk2

/-- `roundup_pow2_*` on a `bits`-wide unsigned type, for `0 < v ≤ 2^(bits-1)`: the
result is `2^k` with `k ≤ bits-1`, at least `v`, and less than `2*v` -/
theorem roundupPow2_spec (bits v : Nat) (hb : 1 ≤ bits) (h0 : 0 < v) (hv : v ≤ 2 ^ (bits - 1)) :
    ∃ k, k ≤ bits - 1 ∧ roundupPow2 bits v = 2 ^ k ∧ v ≤ 2 ^ k ∧ 2 ^ k < 2 * v := by
  unfold roundupPow2
  rw [if_neg (by omega), Nat.one_shiftLeft]
  obtain ⟨_, h2, h3, h4⟩ := findShift_spec (v - 1) (bits - 1) 0
  refine ⟨_, by omega, rfl, ?_, ?_⟩
  · have := h3 (by simp; omega); omega
  · generalize findShift (v - 1) (bits - 1) 0 = j at *
    cases j with
    | zero => simp; omega
    | succ j =>
      have := h4 j (by omega) (by omega)
      rw [Nat.pow_succ]; omega

/-! ### ABTU_roundup -/

theorem and_mask (bits k t : Nat) (hk : k ≤ bits) (ht : t < 2 ^ bits) :
    t &&& (2 ^ bits - 1 - (2 ^ k - 1)) = t / 2 ^ k * 2 ^ k := by
  have hm : 2 ^ bits - 1 - (2 ^ k - 1) = (2 ^ (bits - k) - 1) * 2 ^ k := by
    have h1 : 2 ^ bits = 2 ^ (bits - k) * 2 ^ k := by rw [← Nat.pow_add]; congr 1; omega
    have h2 := Nat.two_pow_pos k
    have h3 := Nat.two_pow_pos (bits - k)
    rw [Nat.sub_mul, ← h1]; omega
  rw [hm]
  apply Nat.eq_of_testBit_eq
  intro i
  rw [Nat.testBit_and, Nat.testBit_mul_two_pow, Nat.testBit_mul_two_pow, Nat.testBit_two_pow_sub_one,
    Nat.testBit_div_two_pow]
  by_cases hki : k ≤ i
  · simp only [hki, decide_true, Bool.true_and]
    rw [show i - k + k = i by omega]
    by_cases hib : i < bits
    · have : i - k < bits - k := by omega
      simp [this]
    · have h1 : t.testBit i = false := by
        apply Nat.testBit_lt_two_pow
        exact Nat.lt_of_lt_of_le ht (Nat.pow_le_pow_right (by omega) (by omega))
      simp [h1]
  · simp [hki]

theorem roundupMultiple_spec (bits v m : Nat) (hm0 : 0 < m)
    (hm : m = 2 ^ m.log2 ∨ m &&& (m - 1) ≠ 0) (hk : m.log2 ≤ bits) (hv : v + m - 1 < 2 ^ bits) :
    roundupMultiple bits v m = (v + m - 1) / m * m := by
  unfold roundupMultiple
  simp only
  rw [Nat.mod_eq_of_lt hv]
  by_cases hp : m &&& (m - 1) = 0
  · rw [if_pos hp]
    rcases hm with hm | hm
    · generalize m.log2 = k at hm hk
      subst hm
      exact and_mask bits k _ hk hv
    · exact absurd hp hm
  · rw [if_neg hp]
    apply Nat.mod_eq_of_lt
    exact Nat.lt_of_le_of_lt (Nat.div_mul_le_self _ _) hv

theorem roundup_facts (v m : Nat) (hm0 : 0 < m) :
    (v + m - 1) / m * m % m = 0 ∧ v ≤ (v + m - 1) / m * m ∧ (v + m - 1) / m * m < v + m := by
  have e1 := Nat.div_add_mod (v + m - 1) m
  have e2 := Nat.mod_lt (v + m - 1) hm0
  refine ⟨Nat.mul_mod_left _ _, ?_, ?_⟩ <;>
  · rw [Nat.mul_comm]
    generalize m * ((v + m - 1) / m) = q at *
    generalize (v + m - 1) % m = r at *
    omega

/-! ### a row of the table -/

/-- largest value of the C type of a kind -/
def typeMax : Kind → Int
  | .bool => 1 | .int => cIntMax | .uint32 => cUint32Max | .uint64 => cUint64Max | .size => cSizeMax

/-- side conditions of the rounding wrappers, given `lo ≤ value ≤ hi` -/
def rndOk (bits : Nat) : List Rnd → (lo hi : Int) → Bool
  | [], _, _ => true
  | .pow2 :: rs, lo, hi =>
    decide (1 ≤ bits) && decide (1 ≤ lo) && decide (hi ≤ 2 ^ (bits - 1)) && rndOk bits rs lo (2 ^ (bits - 1))
  | .multiple m :: rs, lo, hi =>
    decide (0 ≤ lo) && decide (0 < m) && (decide (m = 2 ^ m.log2) || decide (m &&& (m - 1) ≠ 0)) &&
      decide (m.log2 ≤ bits) && decide (hi + m - 1 < 2 ^ bits) &&
      rndOk bits rs lo (((hi.toNat + m - 1) / m * m : Nat) : Int)

theorem chain_ok (bits : Nat) (rs : List Rnd) (lo hi v : Int) (h : rndOk bits rs lo hi = true)
    (h1 : lo ≤ v) (h2 : v ≤ hi) : RndChain rs v (rs.foldl (applyRnd bits) v) := by
  induction rs generalizing lo hi v with
  | nil => simp [RndChain]
  | cons r rs ih =>
    cases r with
    | pow2 =>
      simp only [rndOk, Bool.and_eq_true, decide_eq_true_eq] at h
      obtain ⟨⟨⟨hb, hlo⟩, hhi⟩, hrest⟩ := h
      have hv0 : 0 < v.toNat := by omega
      have hvle : v.toNat ≤ 2 ^ (bits - 1) := by
        have : ((2 ^ (bits - 1) : Nat) : Int) = 2 ^ (bits - 1) := by norm_cast
        omega
      obtain ⟨k, hk, he, hle, hlt⟩ := roundupPow2_spec bits v.toNat hb hv0 hvle
      simp only [List.foldl_cons, RndChain]
      refine ⟨(roundupPow2 bits v.toNat : Int), ⟨⟨k, by rw [he]; norm_cast⟩, ?_, ?_⟩, ?_⟩
      · rw [he]; omega
      · rw [he]; omega
      · apply ih lo (2 ^ (bits - 1)) _ hrest
        · rw [he]; omega
        · rw [he]
          have : (2:Nat) ^ k ≤ 2 ^ (bits - 1) := Nat.pow_le_pow_right (by omega) hk
          have h' : (((2 ^ k : Nat)) : Int) ≤ ((2 ^ (bits - 1) : Nat) : Int) := by exact_mod_cast this
          simpa using h'
    | multiple m =>
      simp only [rndOk, Bool.and_eq_true, Bool.or_eq_true, decide_eq_true_eq] at h
      obtain ⟨⟨⟨⟨⟨hlo, hm0⟩, hm⟩, hk⟩, hhi⟩, hrest⟩ := h
      have hvb : v.toNat + m - 1 < 2 ^ bits := by
        have : ((2 ^ bits : Nat) : Int) = 2 ^ bits := by norm_cast
        omega
      have he := roundupMultiple_spec bits v.toNat m hm0 hm hk hvb
      obtain ⟨f1, f2, f3⟩ := roundup_facts v.toNat m hm0
      simp only [List.foldl_cons, RndChain]
      refine ⟨(roundupMultiple bits v.toNat m : Int), ⟨?_, ?_, ?_⟩, ?_⟩
      · rw [he]; exact_mod_cast f1
      · rw [he]; omega
      · rw [he]; omega
      · apply ih lo _ _ hrest
        · rw [he]; omega
        · rw [he]
          have : (v.toNat + m - 1) / m ≤ (hi.toNat + m - 1) / m := Nat.div_le_div_right (by omega)
          exact_mod_cast Nat.mul_le_mul_right m this

/-- statically known lower bound of a row (an unsigned row with a run-dependent
minimum is at least 0) -/
def lo0 (e : Entry) : Int := match e.min with | .const v => v | .dyn _ => 0

/-- numeric side conditions on one row of the generated table (all decidable):
bool rows have no wrappers; numeric rows have a constant maximum inside the type,
`min ≤ max` and `min ≤ default ≤ max` when these are constants, non-negative
minimum for unsigned kinds, and the wrappers cannot overflow on `[lo0, max]` -/
def rowOk (e : Entry) : Bool :=
  match e.kind with
  | .bool => e.rnd.isEmpty && e.min == .const 0 && e.max == .const 1
  | k =>
    (match e.max with
     | .const mx =>
       decide (mx ≤ typeMax k) && rndOk (bitsOf k) e.rnd (lo0 e) mx &&
       (match e.min with
        | .const mn => decide (mn ≤ mx) && (k == .int || decide (0 ≤ mn)) &&
          (match e.dflt with | .const d => decide (mn ≤ d ∧ d ≤ mx) | .dyn _ => true)
        | .dyn _ => k != .int)
     | .dyn _ => false)

theorem table_rows_ok : ∀ e ∈ table, rowOk e = true := by decide

/-- the value returned by the `load_env_*` call of a numeric row is `clamp` of
something -/
theorem rawOf_num (e : Entry) (E : Environ) (ρ : String → Int) (hk : e.kind ≠ .bool) :
    ∃ x, rawOf e E ρ = clamp (valGet ρ e.min) (valGet ρ e.max) x := by
  unfold rawOf loadEnvNum
  cases hkk : e.kind with
  | bool => exact absurd hkk hk
  | _ =>
    simp only
    split
    · exact ⟨_, rfl⟩
    · split <;> exact ⟨_, rfl⟩

theorem row_clamped (e : Entry) (hok : rowOk e = true) (E : Environ) (ρ : String → Int)
    (hdyn : ∀ x, e.min = .dyn x → 0 ≤ ρ x ∧ ρ x ≤ valGet ρ e.max) :
    valGet ρ e.min ≤ rawOf e E ρ ∧ rawOf e E ρ ≤ valGet ρ e.max ∧
    RndChain e.rnd (rawOf e E ρ) (settingOf e E ρ) := by
  by_cases hk : e.kind = .bool
  · unfold rowOk at hok; rw [hk] at hok
    simp only [Bool.and_eq_true, List.isEmpty_iff, beq_iff_eq] at hok
    obtain ⟨⟨hr, hmin⟩, hmax⟩ := hok
    have hraw : rawOf e E ρ = 0 ∨ rawOf e E ρ = 1 := by
      unfold rawOf; rw [hk]; simp only; split <;> simp
    unfold settingOf
    rw [hr, hmin, hmax]
    simp only [valGet, List.foldl_nil, RndChain]
    exact ⟨by omega, by omega, trivial⟩
  · obtain ⟨x, hx⟩ := rawOf_num e E ρ hk
    unfold rowOk at hok
    have hok' : (match e.max with
     | .const mx =>
       decide (mx ≤ typeMax e.kind) && rndOk (bitsOf e.kind) e.rnd (lo0 e) mx &&
       (match e.min with
        | .const mn => decide (mn ≤ mx) && (e.kind == .int || decide (0 ≤ mn)) &&
          (match e.dflt with | .const d => decide (mn ≤ d ∧ d ≤ mx) | .dyn _ => true)
        | .dyn _ => e.kind != .int)
     | .dyn _ => false) = true := by
      cases hkk : e.kind <;> simp only [hkk] at hok hk ⊢ <;> first | exact hok | exact absurd trivial hk
    cases hmx : e.max with
    | dyn _ => rw [hmx] at hok'; cases hok'
    | const mx =>
      rw [hmx] at hok'
      simp only [Bool.and_eq_true, decide_eq_true_eq] at hok'
      obtain ⟨⟨_, hrnd⟩, hmn⟩ := hok'
      have hb : lo0 e ≤ valGet ρ e.min ∧ valGet ρ e.min ≤ mx := by
        cases hmin : e.min with
        | const mn =>
          rw [hmin] at hmn
          simp only [Bool.and_eq_true, decide_eq_true_eq] at hmn
          simp only [lo0, hmin, valGet]; omega
        | dyn y =>
          have := hdyn y hmin
          rw [hmx] at this
          simp only [lo0, hmin, valGet] at this ⊢; omega
      have hc := clamp_bounds (valGet ρ e.min) mx x hb.2
      have hvm : valGet ρ (Val.const mx) = mx := rfl
      rw [hmx, hvm] at hx
      rw [hvm]
      refine ⟨by rw [hx]; exact hc.1, by rw [hx]; exact hc.2, ?_⟩
      unfold settingOf
      exact chain_ok _ _ (lo0 e) mx _ hrnd (by rw [hx]; omega) (by rw [hx]; exact hc.2)

/-- unset, or set to something `ABTU_ato*` rejects ⇒ the clamped default; when the
default and the bounds are constants of the tree (checked by `rowOk`) that is the
default itself -/
theorem row_default (e : Entry) (E : Environ) (ρ : String → Int) (hk : e.kind ≠ .bool)
    (hun : getAbtEnv E e.names = none ∨
      ∃ s c, getAbtEnv E e.names = some s ∧ convOf e.kind s = .err c) :
    rawOf e E ρ = clamp (valGet ρ e.min) (valGet ρ e.max) (valGet ρ e.dflt) := by
  unfold rawOf loadEnvNum
  cases hkk : e.kind with
  | bool => exact absurd hkk hk
  | _ =>
    simp only
    rcases hun with h | ⟨s, c, h, hc⟩
    · rw [h]
    · rw [h]; simp only; rw [hkk] at hc; rw [hc]

theorem row_default_const (e : Entry) (hok : rowOk e = true) (ρ : String → Int) (hk : e.kind ≠ .bool)
    (d mn : Int) (hd : e.dflt = .const d) (hmn : e.min = .const mn) :
    clamp (valGet ρ e.min) (valGet ρ e.max) (valGet ρ e.dflt) = d := by
  unfold rowOk at hok
  cases hmx : e.max with
  | dyn _ => cases hkk : e.kind <;> simp [hkk, hmx] at hok hk
  | const mx =>
    have : mn ≤ d ∧ d ≤ mx := by
      cases hkk : e.kind <;> simp [hkk, hmx, hd, hmn] at hok hk <;> omega
    simp only [hd, hmn, valGet]
    exact clamp_id _ _ _ this.1 this.2

theorem conv_err_of_unparsable (k : Kind) (s : List Byte) (h0 : (0 : Byte) ∈ s)
    (hn : ArgoVerif.Props.C20Spec.numberOf s = none) : convOf k s = .err errInvArg := by
  cases k with
  | bool => rfl
  | int => simp only [convOf]; rw [Atoi.abtuAtoi_eq s h0]; simp [ArgoVerif.Props.C20Spec.expected, hn, Atoi.ofExpected]
  | uint32 => simp only [convOf]; rw [Atoi.abtuAtoui32_eq s h0]; simp [ArgoVerif.Props.C20Spec.expected, hn, Atoi.ofExpected]
  | uint64 => simp only [convOf]; rw [Atoi.abtuAtoui64_eq s h0]; simp [ArgoVerif.Props.C20Spec.expected, hn, Atoi.ofExpected]
  | size => simp only [convOf]; rw [Atoi.abtuAtosz_eq s h0]; simp [ArgoVerif.Props.C20Spec.expected, hn, Atoi.ofExpected]

end ArgoVerif.Proofs.Env
