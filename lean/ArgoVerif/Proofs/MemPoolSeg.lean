import ArgoVerif.Model.MemPool
/-
Proofs.MemPoolSeg — singly linked chains over `next : α → Option α` (NULL = none), the
executable traversals of Model.MemPool (`walk`, `nthNext`, `linkRun`, `hdrRun`) related to
them, and the bucket predicate `IsBucket` with its frame / relabel lemma.
(Core.Heap has the same lemmas for `Nat → Nat` heaps with 0 = NULL; header ids here are pairs.)
-/
set_option linter.unusedSectionVars false
namespace ArgoVerif.Model.MemPool
open ArgoVerif

section Seg
variable {α : Type} [DecidableEq α]

/-- following `next` from `a` visits exactly `xs` and arrives at `b` -/
def Seg (next : α → Option α) : Option α → List α → Option α → Prop
  | a, [], b => a = b
  | a, x :: xs, b => a = some x ∧ Seg next (next x) xs b

@[simp] theorem seg_nil {next : α → Option α} {a b : Option α} : Seg next a [] b ↔ a = b := Iff.rfl

@[simp] theorem seg_cons {next : α → Option α} {a b : Option α} {x : α} {xs : List α} :
    Seg next a (x :: xs) b ↔ a = some x ∧ Seg next (next x) xs b := Iff.rfl

theorem seg_congr {next next' : α → Option α} {a b : Option α} {xs : List α}
    (hag : ∀ x ∈ xs, next' x = next x) : Seg next' a xs b ↔ Seg next a xs b := by
  induction xs generalizing a with
  | nil => simp
  | cons y ys ih =>
    have hy : next' y = next y := hag y (by simp)
    have ih' := @ih (next y) (fun x hx => hag x (by simp [hx]))
    simp only [seg_cons, hy, ih']

theorem seg_frame {next : α → Option α} {a b v : Option α} {t : α} {xs : List α} (h : t ∉ xs) :
    Seg (upd next t v) a xs b ↔ Seg next a xs b := by
  apply seg_congr
  intro x hx
  have : x ≠ t := fun e => h (e ▸ hx)
  simp [upd, this]

theorem seg_append_iff {next : α → Option α} {a c : Option α} {xs ys : List α} :
    Seg next a (xs ++ ys) c ↔ ∃ b, Seg next a xs b ∧ Seg next b ys c := by
  induction xs generalizing a with
  | nil => simp
  | cons y r ih =>
    simp only [List.cons_append, seg_cons, ih]
    constructor
    · rintro ⟨h1, b, h3, h4⟩; exact ⟨b, ⟨h1, h3⟩, h4⟩
    · rintro ⟨b, ⟨h1, h3⟩, h4⟩; exact ⟨h1, b, h3, h4⟩

theorem seg_append {next : α → Option α} {a b c : Option α} {xs ys : List α}
    (h1 : Seg next a xs b) (h2 : Seg next b ys c) : Seg next a (xs ++ ys) c :=
  seg_append_iff.mpr ⟨b, h1, h2⟩

theorem seg_snoc_iff {next : α → Option α} {a b : Option α} {u : α} {xs : List α} :
    Seg next a (xs ++ [u]) b ↔ Seg next a xs (some u) ∧ next u = b := by
  simp only [seg_append_iff, seg_cons, seg_nil]
  constructor
  · rintro ⟨m, h1, h2, h3⟩; subst h2; exact ⟨h1, h3⟩
  · rintro ⟨h1, h2⟩; exact ⟨some u, h1, rfl, h2⟩

/-- redirect the last link of a chain (the last node is not among the earlier ones) -/
theorem seg_set_last {next : α → Option α} {a b b' : Option α} {t : α} {xs : List α}
    (h : Seg next a (xs ++ [t]) b) (hn : t ∉ xs) : Seg (upd next t b') a (xs ++ [t]) b' := by
  rw [seg_snoc_iff] at h ⊢
  exact ⟨(seg_frame hn).mpr h.1, by simp⟩

theorem seg_head {next : α → Option α} {a b : Option α} {x : α} {xs : List α}
    (h : Seg next a (x :: xs) b) : a = some x := h.1

/-- a chain that reaches NULL never revisits a node -/
theorem seg_none_nodup {next : α → Option α} {a : Option α} {xs : List α}
    (h : Seg next a xs none) : xs.Nodup := by
  induction xs generalizing a with
  | nil => simp
  | cons y r ih =>
    obtain ⟨_, hr⟩ := h
    refine List.nodup_cons.mpr ⟨?_, ih hr⟩
    intro hm
    -- y occurs again in r: the chain from next y through r to none would have to be its own proper suffix
    obtain ⟨as, bs, rfl⟩ := List.append_of_mem hm
    -- Seg (next y) (as ++ y :: bs) none; so Seg (next y) bs none too, lengths differ
    have h1 : ∃ m, Seg next (next y) as m ∧ Seg next m (y :: bs) none := seg_append_iff.mp hr
    obtain ⟨m, _, h3⟩ := h1
    have h4 : Seg next (next y) bs none := h3.2
    -- determinism: both `as ++ y :: bs` and `bs` are chains from `next y` to none
    have hlen : ∀ (l1 l2 : List α) (c : Option α), Seg next c l1 none → Seg next c l2 none → l1.length = l2.length := by
      intro l1
      induction l1 with
      | nil => intro l2 c h1 h2; cases l2 with
        | nil => rfl
        | cons z _ => simp at h1; subst h1; simp at h2
      | cons z l1 ih1 => intro l2 c h1 h2; cases l2 with
        | nil => simp at h2; subst h2; simp at h1
        | cons w l2 =>
          obtain ⟨e1, r1⟩ := h1
          obtain ⟨e2, r2⟩ := h2
          have : z = w := by simpa [e1] using e2
          subst this
          simp [ih1 l2 _ r1 r2]
    have := hlen _ _ _ hr h4
    simp at this
    omega

/-- the executable traversal recovers the chain -/
theorem seg_walk {next : Hdr → Option Hdr} {a b : Option Hdr} {xs : List Hdr} (h : Seg next a xs b) :
    walk next xs.length a = xs := by
  induction xs generalizing a with
  | nil => simp [walk]
  | cons y r ih =>
    obtain ⟨rfl, hr⟩ := h
    simp [walk, ih hr]

theorem seg_walk_take {next : Hdr → Option Hdr} {a b : Option Hdr} {xs : List Hdr} (h : Seg next a xs b)
    (k : Nat) (hk : k ≤ xs.length) : walk next k a = xs.take k := by
  induction xs generalizing a k with
  | nil => simp at hk; subst hk; simp [walk]
  | cons y r ih =>
    obtain ⟨rfl, hr⟩ := h
    cases k with
    | zero => simp [walk]
    | succ k => simp [walk, ih hr k (by simpa using hk)]

/-- `nthNext k` from the head of a chain is its `k`-th node -/
theorem seg_nthNext {next : Hdr → Option Hdr} {b : Option Hdr} {x : Hdr} {xs : List Hdr}
    (h : Seg next (some x) (x :: xs) b) (k : Nat) (hk : k ≤ xs.length) :
    (x :: xs)[k]? = some (nthNext next k x) := by
  induction k generalizing x xs with
  | zero => simp [nthNext]
  | succ k ih =>
    cases xs with
    | nil => simp at hk
    | cons y r =>
      obtain ⟨_, hr⟩ := h
      have hy : next x = some y := hr.1
      have := ih (x := y) (xs := r) ⟨rfl, hr.2⟩ (by simpa using hk)
      simp only [nthNext, hy, Option.getD_some]
      simpa using this

/-- split a chain at position `k` -/
theorem seg_split_at {next : α → Option α} {a c : Option α} {xs : List α} (h : Seg next a xs c) (k : Nat) :
    ∃ m, Seg next a (xs.take k) m ∧ Seg next m (xs.drop k) c := by
  have : Seg next a (xs.take k ++ xs.drop k) c := by simpa using h
  exact seg_append_iff.mp this

end Seg

/-! ### carving runs -/

theorem hdrRun_length (p hs k off : Nat) : (hdrRun p hs k off).length = k := by
  induction k generalizing off with
  | zero => rfl
  | succ k ih => simp [hdrRun, ih]

theorem mem_hdrRun {p hs k off : Nat} {x : Hdr} (hx : x ∈ hdrRun p hs k off) :
    x.1 = p ∧ off ≤ x.2 ∧ x.2 + hs ≤ off + hs * k := by
  induction k generalizing off with
  | zero => simp [hdrRun] at hx
  | succ k ih =>
    simp only [hdrRun, List.mem_cons] at hx
    rcases hx with rfl | hx
    · refine ⟨rfl, Nat.le_refl _, ?_⟩
      simp only [Nat.mul_succ]; omega
    · have := ih hx
      refine ⟨this.1, by omega, ?_⟩
      simp only [Nat.mul_succ]; omega

theorem hdrRun_dvd {p hs k off : Nat} {x : Hdr} (hd : hs ∣ off) (hx : x ∈ hdrRun p hs k off) : hs ∣ x.2 := by
  induction k generalizing off with
  | zero => simp [hdrRun] at hx
  | succ k ih =>
    simp only [hdrRun, List.mem_cons] at hx
    rcases hx with rfl | hx
    · exact hd
    · exact ih (Nat.dvd_add hd (Nat.dvd_refl hs)) hx

/-- distinct headers of one run do not overlap -/
theorem hdrRun_sep {p hs k off : Nat} :
    (hdrRun p hs k off).Pairwise (fun x y => x.2 + hs ≤ y.2) := by
  induction k generalizing off with
  | zero => simp [hdrRun]
  | succ k ih =>
    simp only [hdrRun, List.pairwise_cons]
    refine ⟨?_, ih⟩
    intro y hy
    have := mem_hdrRun hy
    simp; omega

theorem hdrRun_nodup {p hs k off : Nat} (hpos : 0 < hs) : (hdrRun p hs k off).Nodup := by
  have := hdrRun_sep (p := p) (hs := hs) (k := k) (off := off)
  refine this.imp ?_
  intro a b hab e
  subst e; omega

/-- the inner linking loop: starting with `prev` already linked to `head0`, after `k` more headers
the chain from the last one runs down through the run to whatever `prev` pointed to -/
theorem linkRun_spec (hs : Nat) (hpos : 0 < hs) (k : Nat) (next : Hdr → Option Hdr) (p off : Nat) :
    let r := linkRun hs k next (p, off)
    r.2 = (p, off + hs * k) ∧
    (∀ x, x ∉ hdrRun p hs k (off + hs) → r.1 x = next x) ∧
    Seg r.1 (some r.2) ((hdrRun p hs k (off + hs)).reverse) (some (p, off)) := by
  induction k generalizing next off with
  | zero => simp [linkRun, hdrRun]
  | succ k ih =>
    simp only [linkRun]
    have := ih (upd next (p, off + hs) (some (p, off))) (off + hs)
    obtain ⟨h1, h2, h3⟩ := this
    refine ⟨?_, ?_, ?_⟩
    · rw [h1]; simp only [Nat.mul_succ]; congr 1; omega
    · intro x hx
      simp only [hdrRun, List.mem_cons, not_or] at hx
      rw [h2 x hx.2]
      simp [upd, hx.1]
    · simp only [hdrRun, List.reverse_cons]
      rw [seg_snoc_iff]
      refine ⟨h3, ?_⟩
      have hnot : (p, off + hs) ∉ hdrRun p hs k (off + hs + hs) := by
        intro hm; have := mem_hdrRun hm; simp at this; omega
      rw [h2 _ hnot]; simp

/-! ### buckets -/

/-- the chain from `a` has exactly `n` nodes, ends in NULL, visits no node twice, and its nodes
are exactly the headers labelled `o` -/
def IsBucket (next : Hdr → Option Hdr) (own : Hdr → Owner) (a : Hdr) (n : Nat) (o : Owner) : Prop :=
  ∃ L, Seg next (some a) L none ∧ L.length = n ∧ L.Nodup ∧ ∀ x, x ∈ L ↔ own x = o

/-- frame + relabel: the chain is untouched and its members are exactly the headers that carry
the (possibly new) label -/
theorem IsBucket.relabel {next next' : Hdr → Option Hdr} {own own' : Hdr → Owner} {a : Hdr} {n : Nat} {o o' : Owner}
    (h : IsBucket next own a n o) (hn : ∀ x, own x = o → next' x = next x)
    (ho : ∀ x, own' x = o' ↔ own x = o) : IsBucket next' own' a n o' := by
  obtain ⟨L, hs, hl, hnd, hm⟩ := h
  refine ⟨L, ?_, hl, hnd, fun x => by rw [hm, ho]⟩
  exact (seg_congr (fun x hx => hn x ((hm x).mp hx))).mpr hs

theorem IsBucket.head_own {next : Hdr → Option Hdr} {own : Hdr → Owner} {a : Hdr} {n : Nat} {o : Owner}
    (h : IsBucket next own a n o) (hn : 0 < n) : own a = o := by
  obtain ⟨L, hs, hl, _, hm⟩ := h
  cases L with
  | nil => simp at hl; omega
  | cons x r =>
    have : some a = some x := hs.1
    have e : a = x := by simpa using this
    exact (hm a).mp (by simp [e])

/-- two buckets with the same label and start are the same chain: same length -/
theorem IsBucket.walk_eq {next : Hdr → Option Hdr} {own : Hdr → Owner} {a : Hdr} {n : Nat} {o : Owner}
    (h : IsBucket next own a n o) : ∃ L, walk next n (some a) = L ∧ Seg next (some a) L none ∧ L.length = n ∧
      L.Nodup ∧ ∀ x, x ∈ L ↔ own x = o := by
  obtain ⟨L, hs, hl, hnd, hm⟩ := h
  exact ⟨L, by rw [← hl]; exact seg_walk hs, hs, hl, hnd, hm⟩

end ArgoVerif.Model.MemPool
