import ArgoVerif.Gen.EnvTable
/-
Model.Affinity — `src/arch/abtd_affinity_parser.c`: `consume_int`, `consume_pint`,
`consume_symbol`, `parse_es_id_list`, `parse_list`, `id_list_add`, `list_add`.

Memory model of the string: `affinity_str + index` is represented by the list of
bytes from that address to the end of the object (`*(str + index)` = head,
`index++` = tail; the numeric index is `object length - remaining length`, which is
what the driver prints).  A function that "does not update `*p_index`" on failure
simply leaves the caller with the list it had, which is how the C backtracks from
`consume_int` to `consume_symbol('{')`.  A read when the list is empty is a read
outside the object: outcome `oob`.  `uint32_t index` is assumed not to wrap
(strings shorter than 4 GiB).

Kept from the C code:
 * `consume_int`: flags 'n' (nothing yet) / 's' (sign seen) / 'v' (digit seen);
   branch order `-`, `+`, whitespace (only in state 'n'), digit, else.  A sign
   after a digit ends the number; whitespace after a sign is an error; the value
   is accumulated *unsigned* in `int val` with the guard
   `val > (INT_MAX - digit) / 10  ⇒  return 0` (the upstream-style repair) and
   multiplied by the sign at the end.  `int` arithmetic is made explicit: every
   `int` operation whose mathematical result is outside `[INT_MIN, INT_MAX]`
   yields the outcome `ub` (signed overflow is undefined behaviour) — theorem
   `aff_no_int_overflow` shows it is unreachable.
 * on success `*p_index` points AT the character that ended the number.
 * `consume_symbol`: skips whitespace, succeeds on the symbol (index behind it),
   fails on anything else — in particular on the NUL unless the symbol is `'\0'`.
 * `parse_es_id_list` / `parse_list`: the two `while (1)` loops with their
   `continue` on `,`; the optional `":" <num> [":" <stride>]` part is textually
   identical in both and is one function (`parseNumStride`) here; the
   `num >= MAX_NUM_ELEMS` test comes after it, before the expansion.
 * `id_list_add`: `ids[n + i] = id + stride * i` with `uint32_t i`: by the usual
   arithmetic conversions the `int` operands are converted to `unsigned`, the sum
   is computed modulo 2^32 and converted back to `int` on assignment
   (implementation-defined, two's complement on every supported ABI).  Modelled as
   exactly that (`toU32`, `ofU32`): wrap-around, not UB.  Same in `list_add`.
 * `list_add`: the base list itself is element 0, copies shifted by `stride * i`
   follow for `i = 1 .. num-1`.
Not modelled: allocation failure (`ABT_ERR_MEM`), and the `uint32_t` element
counters `p_id_list->num + num` (they wrap only beyond 2^32 elements = 16 GiB of
ids; list lengths are unbounded naturals here).
-/
namespace ArgoVerif.Model.Affinity
open ArgoVerif.Gen.EnvTable

abbrev Byte := UInt8

/-- `is_whitespace` -/
def isWhitespace (c : Byte) : Bool := c == 32 || c == 9 || c == 13 || c == 10
/-- `'0' <= c && c <= '9'` -/
def isDigit (c : Byte) : Bool := decide (48 ≤ c.toNat) && decide (c.toNat ≤ 57)

/-- outcome of a consume_/parse_ function: success with a value and the remaining
memory (`str + new index`), failure (return 0 / ABT_ERR_OTHER), a read outside the
object, signed overflow, or loop fuel exhausted (shown unreachable) -/
inductive R (α : Type) where
  | ok (v : α) (rest : List Byte)
  | fail
  | oob
  | ub
  | fuel
deriving Repr, DecidableEq

def R.bind {α β : Type} (r : R α) (f : α → List Byte → R β) : R β :=
  match r with
  | .ok v rest => f v rest
  | .fail => .fail
  | .oob => .oob
  | .ub => .ub
  | .fuel => .fuel

/-- a C `int` result: `ub` unless the mathematical value is representable -/
def inInt (x : Int) : Bool := decide (cIntMin ≤ x) && decide (x ≤ cIntMax)

inductive Flag where
  | n | s | v
deriving Repr, DecidableEq

/-- the loop of `consume_int` -/
def consumeIntLoop : List Byte → (val valSign : Int) → Flag → R Int
  | [], _, _, _ => .oob
  | c :: rest, val, sg, flag =>
    if flag != .v && c == 45 then
      if inInt (-sg) then consumeIntLoop rest val (-sg) .s else .ub
    else if flag != .v && c == 43 then consumeIntLoop rest val sg .s
    else if flag == .n && isWhitespace c then consumeIntLoop rest val sg flag
    else if isDigit c then
      let digit : Int := (c.toNat - 48 : Nat)
      if val > (cIntMax - digit) / 10 then .fail
      else if inInt (val * 10) && inInt (val * 10 + digit) then consumeIntLoop rest (val * 10 + digit) sg .v
      else .ub
    else if flag == .v then
      if inInt (val * sg) then .ok (val * sg) (c :: rest) else .ub
    else .fail

def consumeInt (s : List Byte) : R Int := consumeIntLoop s 0 1 .n

/-- `consume_pint`: `consume_int(...) && val > 0` -/
def consumePint (s : List Byte) : R Int :=
  (consumeInt s).bind fun v rest => if v > 0 then .ok v rest else .fail

def consumeSymbol (symbol : Byte) : List Byte → R Unit
  | [] => .oob
  | c :: rest =>
    if c == symbol then .ok () rest
    else if isWhitespace c then consumeSymbol symbol rest
    else .fail

/-- conversion `int → unsigned` -/
def toU32 (x : Int) : Int := x % 4294967296
/-- conversion `unsigned → int` (two's complement) -/
def ofU32 (u : Int) : Int := if u ≥ 2147483648 then u - 4294967296 else u
/-- `id + stride * i` with `uint32_t i`, stored into an `int` -/
def strideAdd (id stride : Int) (i : Nat) : Int :=
  ofU32 ((toU32 id + (toU32 stride * (i : Int)) % 4294967296) % 4294967296)

/-- `id_list_add`: `for (i = 0; i < num; i++) ids[n + i] = id + stride * i;`
(`num` is a positive `int` converted to `uint32_t`) -/
def idListAdd (ids : List Int) (id num stride : Int) : List Int :=
  ids ++ (List.range num.toNat).map fun i => strideAdd id stride i

/-- `list_add`: slot 0 is the base list itself, then
`for (i = 1; i < num; i++) { copy of base with ids[j] = base[j] + stride * i }` -/
def listAdd (l : List (List Int)) (base : List Int) (num stride : Int) : List (List Int) :=
  l ++ [base] ++ (List.range (num.toNat - 1)).map fun k => base.map fun x => strideAdd x stride (k + 1)

/-- the optional `":" <num> [":" <stride>]` (defaults 1, 1) followed by the
`num >= MAX_NUM_ELEMS` test -/
def parseNumStride (s : List Byte) : R (Int × Int) :=
  let r : R (Int × Int) :=
    match consumeSymbol 58 s with
    | .ok () s1 =>
      (consumePint s1).bind fun num s2 =>
        match consumeSymbol 58 s2 with
        | .ok () s3 => (consumeInt s3).bind fun stride s4 => .ok (num, stride) s4
        | .fail => .ok (num, 1) s2
        | .oob => .oob | .ub => .ub | .fuel => .fuel
    | .fail => .ok (1, 1) s
    | .oob => .oob | .ub => .ub | .fuel => .fuel
  r.bind fun p rest => if p.1 ≥ (maxNumElems : Int) then .fail else .ok p rest

/-- the `while (1)` inside the braces of `parse_es_id_list` -/
def parseIdIntervals : (fuel : Nat) → List Byte → List Int → R (List Int)
  | 0, _, _ => .fuel
  | f + 1, s, ids =>
    (consumeInt s).bind fun id s1 =>
      (parseNumStride s1).bind fun p s2 =>
        let ids' := idListAdd ids id p.1 p.2
        match consumeSymbol 44 s2 with
        | .ok () s3 => parseIdIntervals f s3 ids'
        | .fail => (consumeSymbol 125 s2).bind fun _ s4 => .ok ids' s4
        | .oob => .oob | .ub => .ub | .fuel => .fuel

def parseEsIdList (fuel : Nat) (s : List Byte) : R (List Int) :=
  match consumeInt s with
  | .ok val rest => .ok (idListAdd [] val 1 1) rest
  | .fail => (consumeSymbol 123 s).bind fun _ s1 => parseIdIntervals fuel s1 []
  | .oob => .oob | .ub => .ub | .fuel => .fuel

/-- the `while (1)` of `parse_list` -/
def parseIntervals : (fuel : Nat) → List Byte → List (List Int) → R (List (List Int))
  | 0, _, _ => .fuel
  | f + 1, s, l =>
    (parseEsIdList (f + 1) s).bind fun idl s1 =>
      (parseNumStride s1).bind fun p s2 =>
        let l' := listAdd l idl p.1 p.2
        match consumeSymbol 44 s2 with
        | .ok () s3 => parseIntervals f s3 l'
        | .fail => (consumeSymbol 0 s2).bind fun _ s4 => .ok l' s4
        | .oob => .oob | .ub => .ub | .fuel => .fuel

/-- `parse_list` (non-NULL string): the CPU-id lists, or failure -/
def parseList (str : List Byte) : R (List (List Int)) := parseIntervals (str.length + 1) str []

end ArgoVerif.Model.Affinity
