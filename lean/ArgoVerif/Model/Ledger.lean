/-
Model.Ledger — resource-ledger interpreter for the goto-programs that
tools/laddergen.py generates from the allocation/cleanup ladders of /repo
(`Gen/Ladders.lean`).  No copy of any ladder lives here: this file only gives
the programs a meaning.

A program is a flat list of instructions (branch targets are indices).  The
state is a variable store, the list of live resources (identifier × kind), and a
few flags.  Three things are not determined by the program text and are supplied
from outside:
  * which acquisition fails            (`Oracle.failAt`, the n-th *fallible* acquisition executed),
  * the value of every opaque condition (`Oracle.env atom index`; `index` is the current value of a
    loop variable for conditions such as `pools[p] == ABT_POOL_NULL`, so that the allocation loop and
    the clean-up loop see the same answer),
  * the value of the loop-bound parameter (`Oracle.param`, e.g. `num_pools`).
`exec` runs a program under one oracle.  `runs` enumerates every execution with
at most one failing acquisition, every resolution of the opaque conditions met
on the way and every parameter value up to a bound; `Proofs/Ledger.lean` proves
`exec … ∈ runs …`, so a property checked on the finite list `runs` holds for
every oracle.
-/
namespace ArgoVerif.Model.Ledger

abbrev Var := Nat
abbrev Kind := Nat
abbrev Site := Nat

inductive Val where
  | undef
  | null
  | int (n : Int)
  | res (id : Nat)
deriving DecidableEq, Repr, Inhabited

inductive Cmp where
  | eq | ne | lt | le | gt | ge
deriving DecidableEq, Repr

def Cmp.eval : Cmp → Int → Int → Bool
  | .eq, a, b => a == b
  | .ne, a, b => a != b
  | .lt, a, b => decide (a < b)
  | .le, a, b => decide (a ≤ b)
  | .gt, a, b => decide (a > b)
  | .ge, a, b => decide (a ≥ b)

/-- a variable, or an array element selected by the current value of an index variable -/
structure Ref where
  base : Var
  idx : Option Var
deriving DecidableEq, Repr

inductive Cond where
  | cmp (op : Cmp) (v : Ref) (k : Int)   -- integer variable against a constant
  | cmpv (op : Cmp) (v w : Ref)          -- integer variable against integer variable
  | held (v : Ref)                       -- pointer variable is non-NULL
  | env (atom : Nat) (idx : Option Var)  -- opaque condition (decided by the oracle)
  | tt
deriving DecidableEq, Repr

inductive Instr where
  /-- call of an acquiring callee.  success: `dst := fresh resource of kind`, `err := 0`;
      failure (only if `fallible`): `err := 1`, `dst` untouched (`dst := NULL` when the callee
      returns the pointer, i.e. `err = none`) -/
  | acq (site : Site) (kind : Kind) (dst : Ref) (err : Option Ref) (fallible : Bool)
  /-- call of a callee that may fail for lack of memory but whose allocations are owned by an
      already existing object (nothing new enters the ledger): `err := 0` / `err := 1` -/
  | fallible (site : Site) (err : Ref)
  /-- call of a releasing callee on the resource held by `src`.  `lax`: NULL / never-assigned is a no-op -/
  | rel (site : Site) (src : Ref) (lax : Bool)
  /-- ownership of the resource held by `src` passes to the resource held by `owner` (a value stored
      under a key whose destructor frees it): releasing the owner releases it too -/
  | give (src owner : Ref) (tag : Nat)
  /-- the value stored under key `tag` in `owner` is overwritten by NULL: `owner` no longer owns it -/
  | ungive (owner : Ref) (tag : Nat)
  /-- marks the C call of a classified callee (one per call; used by the sequence tie only) -/
  | mark (site : Site)
  | seti (dst : Ref) (n : Int)
  | copy (dst src : Ref)
  | setnull (dst : Ref)
  /-- result of a non-allocating callee that may report an error: 0 or 1, chosen by the oracle -/
  | havoc (dst : Ref) (atom : Nat)
  | addi (dst : Ref) (n : Int)
  | br (c : Cond) (neg : Bool) (tgt : Nat)
  | jmp (tgt : Nat)
  | ret (v : Option Ref) (n : Int)
deriving DecidableEq, Repr

structure Prog where
  name : String
  code : List Instr
  /-- variables that hold a pre-existing (caller-owned) resource on entry -/
  pres : List Var
  /-- output handles (`*pp_new… = …`); never assigned on entry -/
  outs : List Var
  /-- fields of pre-existing objects the routine writes: (variable, value on entry) -/
  tracked : List (Var × Int)
  /-- pointer fields of pre-existing objects (`p_xstream->p_main_sched`, `p_thread->unit`): the variable and its
      value on entry (`some i`: the i-th pre-existing resource, `none`: NULL).  A routine that reports an
      error must leave them as they were. -/
  fields : List (Var × Option Nat)
  /-- array parameters whose `param` elements may each hold a pre-existing resource (`pools[]`) -/
  preArrays : List Var
  /-- loop-bound parameter (e.g. `num_pools`) -/
  param : Option Var
deriving Repr

inductive Fault where
  | doubleRelease (site : Site)
  | releaseUnassigned (site : Site)
  | badPc (pc : Nat)
deriving DecidableEq, Repr

inductive Ev where
  | acqOk (site : Site)
  | acqFail (site : Site)
  | rel (site : Site)
  | call (site : Site)
deriving DecidableEq, Repr

structure St where
  pc : Nat
  vars : List ((Var × Nat) × Val)
  live : List (Nat × Kind)
  owned : List (Nat × Nat × Nat)   -- (owner, owned, key tag)
  next : Nat
  base : Nat                 -- resources with id < base existed before the call
  injected : Bool            -- an acquisition has been made to fail
  relPre : Bool              -- a pre-existing resource has been released
  fault : Option Fault
  trace : List Ev            -- most recent first
deriving Repr

structure Outcome where
  ret : Val
  st : St
  timeout : Bool
deriving Repr

inductive StepR where
  | next (s : St)
  | done (o : Outcome)

/-- what the current instruction needs from outside -/
inductive Need where
  | none
  | env (atom : Nat) (idx : Nat)
  | fail
deriving DecidableEq, Repr

def lookup (vs : List ((Var × Nat) × Val)) (k : Var × Nat) : Val :=
  match vs with
  | [] => .undef
  | (k', v) :: r => if k' = k then v else lookup r k

def store (vs : List ((Var × Nat) × Val)) (k : Var × Nat) (v : Val) : List ((Var × Nat) × Val) :=
  match vs with
  | [] => [(k, v)]
  | (k', v') :: r => if k' = k then (k, v) :: r else (k', v') :: store r k v

def intOf : Val → Int
  | .int n => n
  | _ => 0

/-- slot of a reference: arrays use index value + 1, scalars use 0 -/
def slot (s : St) (r : Ref) : Var × Nat :=
  match r.idx with
  | none => (r.base, 0)
  | some i => (r.base, (intOf (lookup s.vars (i, 0))).toNat + 1)

def rd (s : St) (r : Ref) : Val := lookup s.vars (slot s r)
def wr (s : St) (r : Ref) (v : Val) : St := { s with vars := store s.vars (slot s r) v }

def idxVal (s : St) : Option Var → Nat
  | none => 0
  | some i => (intOf (lookup s.vars (i, 0))).toNat + 1

def isLive (live : List (Nat × Kind)) (id : Nat) : Bool := live.any (fun p => p.1 == id)
def dropRes (live : List (Nat × Kind)) (id : Nat) : List (Nat × Kind) := live.filter (fun p => p.1 != id)

/-- resources released together with `id` -/
def ownedBy (ow : List (Nat × Nat × Nat)) (id : Nat) : List Nat := (ow.filter (fun p => p.1 == id)).map (·.2.1)
def dropAll (live : List (Nat × Kind)) (ids : List Nat) : List (Nat × Kind) :=
  live.filter (fun p => !ids.contains p.1)

def evalCond (s : St) (c : Cond) (b : Bool) : Bool :=
  match c with
  | .cmp op v k => op.eval (intOf (rd s v)) k
  | .cmpv op v w => op.eval (intOf (rd s v)) (intOf (rd s w))
  | .held v => match rd s v with
    | .res _ => true
    | .int n => n != 0
    | _ => false
  | .env _ _ => b
  | .tt => true

def need (p : Prog) (s : St) : Need :=
  match p.code[s.pc]? with
  | some (.acq _ _ _ _ true) => .fail
  | some (.fallible _ _) => .fail
  | some (.br (.env a i) _ _) => .env a (idxVal s i)
  | some (.havoc _ a) => .env a 0
  | _ => .none

def finish (s : St) (v : Val) : StepR := .done { ret := v, st := s, timeout := false }

/-- one instruction; `b` is the decision announced by `need` (ignored when none is needed) -/
def step (p : Prog) (s : St) (b : Bool) : StepR :=
  match p.code[s.pc]? with
  | none => finish { s with fault := some (.badPc s.pc) } .undef
  | some i =>
    let s1 := { s with pc := s.pc + 1 }
    match i with
    | .acq site kind dst err fallible =>
      if fallible && b then
        let s2 := { s1 with injected := true, trace := .acqFail site :: s1.trace }
        match err with
        | some e => .next (wr s2 e (.int 1))
        | none => .next (wr s2 dst .null)
      else
        let s2 := { s1 with live := (s1.next, kind) :: s1.live, next := s1.next + 1,
                            trace := .acqOk site :: s1.trace }
        let s3 := wr s2 dst (.res s1.next)
        match err with
        | some e => .next (wr s3 e (.int 0))
        | none => .next s3
    | .fallible site err =>
      if b then .next (wr { s1 with injected := true, trace := .acqFail site :: s1.trace } err (.int 1))
      else .next (wr { s1 with trace := .acqOk site :: s1.trace } err (.int 0))
    | .rel site src lax =>
      match rd s src with
      | .res id =>
        if isLive s.live id then
          let gone := id :: ownedBy s1.owned id
          .next { s1 with live := dropAll s1.live gone,
                          relPre := s1.relPre || gone.any (fun g => decide (g < s1.base)),
                          trace := .rel site :: s1.trace }
        else
          finish { s1 with fault := some (.doubleRelease site), trace := .rel site :: s1.trace } .undef
      | .null => if lax then .next s1
                 else finish { s1 with fault := some (.releaseUnassigned site) } .undef
      | .int _ => if lax then .next s1
                  else finish { s1 with fault := some (.releaseUnassigned site) } .undef
      | .undef => if lax then .next s1
                  else finish { s1 with fault := some (.releaseUnassigned site) } .undef
    | .give src owner tag =>
      match rd s src, rd s owner with
      | .res a, .res b => .next { s1 with owned := (b, a, tag) :: s1.owned }
      | _, _ => .next s1
    | .ungive owner tag =>
      match rd s owner with
      | .res b => .next { s1 with owned := s1.owned.filter (fun p => !(p.1 == b && p.2.2 == tag)) }
      | _ => .next s1
    | .mark site => .next { s1 with trace := .call site :: s1.trace }
    | .seti dst n => .next (wr s1 dst (.int n))
    | .copy dst src => .next (wr s1 dst (rd s src))
    | .setnull dst => .next (wr s1 dst .null)
    | .havoc dst _ => .next (wr s1 dst (.int (if b then 1 else 0)))
    | .addi dst n => .next (wr s1 dst (.int (intOf (rd s dst) + n)))
    | .br c neg tgt => if (evalCond s c b) != neg then .next { s with pc := tgt } else .next s1
    | .jmp tgt => .next { s with pc := tgt }
    | .ret v n =>
      match v with
      | some r => finish s1 (rd s r)
      | none => finish s1 (.int n)

/-- entry state: pre-existing resources get identifiers 0,1,…; tracked fields their entry values;
    the parameter its value -/
def initVars (pres : List Var) (n : Nat) : List ((Var × Nat) × Val) :=
  match pres with
  | [] => []
  | v :: r => ((v, 0), .res n) :: initVars r (n + 1)

/-- elements 0..cnt-1 of array `a` hold pre-existing resources n, n+1, … -/
def initArr (a : Var) (cnt n : Nat) : List ((Var × Nat) × Val) :=
  (List.range cnt).map (fun i => ((a, i + 1), Val.res (n + i)))

def initArrs (as : List Var) (cnt n : Nat) : List ((Var × Nat) × Val) :=
  match as with
  | [] => []
  | a :: r => initArr a cnt n ++ initArrs r cnt (n + cnt)

def init (p : Prog) (pv0 : Nat) : St :=
  let pv := match p.param with
    | none => 0
    | some _ => pv0
  let npre := p.pres.length + p.preArrays.length * pv
  let vs := initVars p.pres 0 ++ initArrs p.preArrays pv p.pres.length ++
            p.tracked.map (fun t => ((t.1, 0), Val.int t.2))
  let vs := match p.param with
    | none => vs
    | some v => ((v, 0), Val.int pv) :: vs
  { pc := 0, vars := vs, live := (List.range npre).map (fun i => (i, 0)), owned := [], next := npre, base := npre,
    injected := false, relPre := false, fault := none, trace := [] }

structure Oracle where
  env : Nat → Nat → Bool
  failAt : Option Nat
  param : Nat

def timeoutOf (s : St) : Outcome := { ret := .undef, st := s, timeout := true }

/-- deterministic execution under an oracle; `n` counts the fallible acquisitions executed so far -/
def execFrom (p : Prog) (o : Oracle) : Nat → St → Nat → Outcome
  | 0, s, _ => timeoutOf s
  | f + 1, s, n =>
    match need p s with
    | .none => match step p s false with
      | .done r => r
      | .next s' => execFrom p o f s' n
    | .env a i => match step p s (o.env a i) with
      | .done r => r
      | .next s' => execFrom p o f s' n
    | .fail => match step p s (decide (o.failAt = some n)) with
      | .done r => r
      | .next s' => execFrom p o f s' (n + 1)

def exec (p : Prog) (fuel : Nat) (o : Oracle) : Outcome := execFrom p o fuel (init p o.param) 0

abbrev Memo := List ((Nat × Nat) × Bool)

def memoGet (m : Memo) (k : Nat × Nat) : Option Bool :=
  match m with
  | [] => none
  | (k', v) :: r => if k' = k then some v else memoGet r k

/-- every execution from `s` with the decisions in `m` fixed and, iff `budget`, at most one more failure -/
def runsFrom (p : Prog) : Nat → St → Memo → Bool → List Outcome
  | 0, s, _, _ => [timeoutOf s]
  | f + 1, s, m, budget =>
    match need p s with
    | .none => match step p s false with
      | .done r => [r]
      | .next s' => runsFrom p f s' m budget
    | .env a i =>
      match memoGet m (a, i) with
      | some v => match step p s v with
        | .done r => [r]
        | .next s' => runsFrom p f s' m budget
      | none =>
        (match step p s true with
          | .done r => [r]
          | .next s' => runsFrom p f s' (((a, i), true) :: m) budget) ++
        (match step p s false with
          | .done r => [r]
          | .next s' => runsFrom p f s' (((a, i), false) :: m) budget)
    | .fail =>
      if budget then
        (match step p s true with
          | .done r => [r]
          | .next s' => runsFrom p f s' m false) ++
        (match step p s false with
          | .done r => [r]
          | .next s' => runsFrom p f s' m true)
      else
        match step p s false with
        | .done r => [r]
        | .next s' => runsFrom p f s' m false

/-- parameter values 0..bound (just 0 when the program has no parameter) -/
def paramVals (p : Prog) (bound : Nat) : List Nat :=
  match p.param with
  | none => [0]
  | some _ => List.range (bound + 1)

def runs (p : Prog) (fuel bound : Nat) : List Outcome :=
  (paramVals p bound).flatMap (fun pv => runsFrom p fuel (init p pv) [] true)

/-! ### what is checked on an outcome -/

def Outcome.newLive (o : Outcome) : List (Nat × Kind) := o.st.live.filter (fun r => decide (o.st.base ≤ r.1))
def Outcome.preLive (o : Outcome) : List (Nat × Kind) := o.st.live.filter (fun r => decide (r.1 < o.st.base))
def Outcome.isError (o : Outcome) : Bool := match o.ret with
  | .int n => n != 0
  | _ => false
def Outcome.isSuccess (o : Outcome) : Bool := o.ret == .int 0
def Outcome.clean (o : Outcome) : Bool := !o.timeout && o.st.fault.isNone

def kindsOf (l : List (Nat × Kind)) : List Kind := l.map (·.2)

/-- insertion sort (multiset comparison of kind lists) -/
def insertK (k : Kind) : List Kind → List Kind
  | [] => [k]
  | x :: r => if k ≤ x then k :: x :: r else x :: insertK k r
def sortK : List Kind → List Kind
  | [] => []
  | x :: r => insertK x (sortK r)

/-- an injected failure: terminates, no fault, error code returned, nothing acquired by the call is left -/
def failBalanced (o : Outcome) : Bool :=
  !o.st.injected || (o.clean && o.isError && o.newLive.isEmpty)

/-- `failBalanced` up to resources of the listed *cache* kinds (a lazily created container that stays
    attached to a pre-existing object and is freed with it) -/
def failBalancedUpTo (cache : List Kind) (o : Outcome) : Bool :=
  !o.st.injected || (o.clean && o.isError && (o.newLive.filter (fun r => !cache.contains r.2)).isEmpty)

/-- like `failBalanced`, for routines that are *designed* to absorb a failure (fallback chain,
    optional warning buffer): an injected failure either ends in a balanced error or in a complete success -/
def failBalancedOrAbsorbed (allowed : List (List Kind)) (o : Outcome) : Bool :=
  !o.st.injected ||
    (o.clean && ((o.isError && o.newLive.isEmpty) ||
                 (o.isSuccess && allowed.any (fun a => sortK a == sortK (kindsOf o.newLive)))))

/-- without injected failure: terminates, no fault; success leaves exactly one of the documented
    resource multisets; an error (argument validation, failing user callback…) leaves nothing -/
def successExact (allowed : List (List Kind)) (o : Outcome) : Bool :=
  o.st.injected ||
    (o.clean && (o.isSuccess || o.isError) &&
      (!o.isSuccess || allowed.any (fun a => sortK a == sortK (kindsOf o.newLive))) &&
      (!o.isError || o.newLive.isEmpty))

/-- on error every output handle is untouched or NULL; on success it is a live resource
    (never a released or never-acquired one) -/
def handleOk (p : Prog) (o : Outcome) : Bool :=
  p.outs.all (fun v =>
    match lookup o.st.vars (v, 0) with
    | .undef => !o.isSuccess
    | .null => !o.isSuccess
    | .res id => o.isSuccess && isLive o.st.live id
    | .int _ => false)

/-- visible state of pre-existing objects is as on entry: every tracked integer field (`p_sched->used`) has its
    entry value — whether it was never written or written and rolled back — and every tracked pointer field
    (`p_xstream->p_main_sched`, `p_thread->unit`) designates what it designated on entry -/
def stateAsOnEntry (p : Prog) (o : Outcome) : Bool :=
  p.tracked.all (fun t => lookup o.st.vars (t.1, 0) == .int t.2) &&
  p.fields.all (fun f => lookup o.st.vars (f.1, 0) == (match f.2 with
    | some i => Val.res i
    | none => Val.null))

/-- pre-existing resources are never released and are all still live; tracked fields of
    pre-existing objects have their entry value again when the routine reports an error -/
def preUntouched (p : Prog) (o : Outcome) : Bool :=
  !o.st.relPre && o.preLive.length == o.st.base &&
    (o.isSuccess || stateAsOnEntry p o)

/-- `preUntouched` for routines whose *successful* execution consumes a pre-existing resource by design
    (replacing a main scheduler frees the old automatic one, re-associating a unit frees its old pool unit):
    nothing of that may happen on a path that ends in an error -/
def preUntouchedOnError (p : Prog) (o : Outcome) : Bool :=
  o.isSuccess || preUntouched p o

/-- when an error is reported the visible state is as on entry (never written, or written and rolled back) -/
def stateRolledBack (p : Prog) (o : Outcome) : Bool :=
  o.isSuccess || stateAsOnEntry p o

/-- no resource is released twice and no never-assigned pointer is released — in particular a resource whose
    ownership was handed to another resource's destructor (`give`: migration data stored in a key table) is
    not released again after its owner has been released -/
def noBadRelease (o : Outcome) : Bool :=
  match o.st.fault with
  | some (.doubleRelease _) => false
  | some (.releaseUnassigned _) => false
  | _ => true

def allRuns (p : Prog) (fuel bound : Nat) (chk : Outcome → Bool) : Bool := (runs p fuel bound).all chk

/-- number of executions with an injected failure (non-vacuity of the ∀k statements) -/
def injectedRuns (p : Prog) (fuel bound : Nat) : Nat := ((runs p fuel bound).filter (·.st.injected)).length

end ArgoVerif.Model.Ledger
