import ArgoVerif.Core.LTS
/-
Model.MemOwner — who may touch a *local* memory pool (ABTI_mem_pool_local_pool embedded in an execution stream).

`Model.MemPool` treats every ABTI_mem_pool_alloc / ABTI_mem_pool_free on a local pool as one atomic step.  The C code
has no lock around a local pool: the step is atomic only because of a usage discipline —

  * the pool embedded in execution stream x is used by the OS thread that currently runs as x, or
  * while no OS thread runs as x (x is being created, or has been joined) by the single thread that creates / frees x
    (the root ULT of a new stream is allocated from, and finally returned to, the new stream's own pool);
  * the two pools embedded in the global structure are used under their spinlocks.

This file states that discipline as a specification automaton over the events the hooked runtime reports
(`ABTI_VERIF_EVENT` 80 / 81 with the identity of the calling thread's stream); T3 validates every controlled-scheduler
trace of the work-unit scenarios against it.
-/
namespace ArgoVerif.Model.MemOwner
open ArgoVerif

abbrev ES := Nat

inductive Ev
  /-- alloc/free on the local pool embedded in stream `x`, by a thread running as `by` (none: no stream);
      `alive`: some OS thread is currently running as `x` -/
  | use (x : ES) (by_ : Option ES) (alive : Bool)
  /-- alloc/free on one of the global (external) pools; `locked`: its spinlock is held -/
  | useExt (locked : Bool)
deriving Repr

structure St where
  uses : ES → Nat          -- ghost: accepted uses per pool
  foreign : ES → Nat       -- ghost: accepted uses by a thread that does not run as x
  ext : Nat

def init : St := { uses := fun _ => 0, foreign := fun _ => 0, ext := 0 }

def step (s : St) : Ev → Option St
  | .use x b alive =>
    if b = some x then some { s with uses := upd s.uses x (s.uses x + 1) }
    else if alive = false then
      some { s with uses := upd s.uses x (s.uses x + 1), foreign := upd s.foreign x (s.foreign x + 1) }
    else none
  | .useExt locked => if locked then some { s with ext := s.ext + 1 } else none

def machine : Machine St Ev := { init := init, step := step }

end ArgoVerif.Model.MemOwner
