import ArgoVerif.Core.Heap
/-
Model.WLPtr — the *pointer-level* wait-list of abti_waitlist.h (`ABTI_waitlist { p_head, p_tail }`,
nodes `ABTI_thread { p_prev, p_next }`), with the asymmetry the code has:

  * `ABTI_waitlist_wait_and_unlock` (untimed enqueue) writes `node.p_next = NULL`, the old tail's
    `p_next` and `p_tail` — never any `p_prev`;
  * `ABTI_waitlist_wait_timedout_and_unlock` (timed enqueue) additionally writes the *new* node's
    `p_prev` (old tail, or NULL when the list was empty);
  * `ABTI_waitlist_signal` pops the head: `head.p_next = NULL; p_head = next; if (!next) p_tail = NULL`
    — no `p_prev` is touched, so the new head's `p_prev` becomes stale;
  * `ABTI_waitlist_broadcast` walks the list clearing every `p_next`, then `p_head = p_tail = NULL`;
  * the timed-out removal uses `p_head == &node` as head test, else `node.p_prev->p_next = node.p_next`
    and `node.p_next->p_prev = node.p_prev` (the C condition `thread.type == EXT` is about the removed
    dummy itself: always true) or `p_tail = node.p_prev` when the node was the last one.

Nodes are `Nat` addresses, 0 = NULL.  `timed n` is a ghost bit: "node `n` was enqueued by the timed
function" (it is the function that is running on that node, not a heap field).

`ptrStep` is total and purely pointer-level (it executes the C statements whatever the heap looks
like); the C code's *preconditions* are the guards of `specStep` on the abstract list:
a node that is enqueued is a valid object that is not queued (a blocked ULT's descriptor or a dummy on
the waiter's stack); a node removes itself only while it is still queued (Model.WaitList proves that
the timeout path runs `rm` only then: `Props.C19.timed_out_consumes_no_signal`) and only the timed
function contains the removal code.
-/
namespace ArgoVerif.Model.WLPtr
open ArgoVerif ArgoVerif.Heap

structure St where
  next : Nat → Nat
  prev : Nat → Nat
  timed : Nat → Bool     -- ghost: enqueued by the timed wait
  head : Nat
  tail : Nat

inductive Op
  | enqUntimed (n : Nat)
  | enqTimed (n : Nat)
  | popHead
  | broadcast
  | removeTimed (n : Nat)
deriving Repr, DecidableEq

def init : St := { next := fun _ => 0, prev := fun _ => 0, timed := fun _ => false, head := 0, tail := 0 }

/-- `thread.p_next = NULL; if (!p_head) p_head = &thread; else p_tail->p_next = &thread; p_tail = &thread;` -/
def enqUntimed (s : St) (n : Nat) : St :=
  let next1 := upd s.next n 0
  if s.head = 0 then
    { s with next := next1, head := n, tail := n, timed := upd s.timed n false }
  else
    { s with next := upd next1 s.tail n, tail := n, timed := upd s.timed n false }

/-- the same, plus `thread.p_prev = NULL` (empty list) / `thread.p_prev = p_tail` -/
def enqTimed (s : St) (n : Nat) : St :=
  let next1 := upd s.next n 0
  if s.head = 0 then
    { s with next := next1, prev := upd s.prev n 0, head := n, tail := n, timed := upd s.timed n true }
  else
    { s with next := upd next1 s.tail n, prev := upd s.prev n s.tail, tail := n, timed := upd s.timed n true }

/-- `ABTI_waitlist_signal` (no-op on the empty list) -/
def popHead (s : St) : St :=
  if s.head = 0 then s
  else
    let nx := s.next s.head
    { s with next := upd s.next s.head 0, head := nx, tail := if nx = 0 then 0 else s.tail }

/-- the `do { p_next = p->p_next; p->p_next = NULL; p = p_next; } while (p);` loop of broadcast with a
step budget; returns the heap and the final `p` (0 = the loop has terminated) -/
def clearLoop (next : Nat → Nat) : Nat → Nat → (Nat → Nat) × Nat
  | p, 0 => (next, p)
  | p, k + 1 =>
    let nx := next p
    let next' := upd next p 0
    if nx = 0 then (next', 0) else clearLoop next' nx k

/-- `ABTI_waitlist_broadcast` (no-op on the empty list); `fuel` bounds the loop -/
def broadcast (fuel : Nat) (s : St) : St :=
  if s.head = 0 then s
  else { s with next := (clearLoop s.next s.head fuel).1, head := 0, tail := 0 }

/-- the removal code of the timeout path, statement by statement -/
def removeTimed (s : St) (n : Nat) : St :=
  if s.head = n then
    { s with head := s.next n, tail := if s.next n = 0 then 0 else s.tail }
  else
    let p := s.prev n
    let next' := upd s.next p (s.next n)
    if s.next n ≠ 0 then { s with next := next', prev := upd s.prev (s.next n) p }
    else { s with next := next', tail := p }

def ptrStep (fuel : Nat) (s : St) : Op → St
  | .enqUntimed n => enqUntimed s n
  | .enqTimed n => enqTimed s n
  | .popHead => popHead s
  | .broadcast => broadcast fuel s
  | .removeTimed n => removeTimed s n

/-- what each operation means on the abstract FIFO, guarded by the C code's preconditions -/
def specStep (timed : Nat → Bool) (xs : List Nat) : Op → Option (List Nat)
  | .enqUntimed n => if n ≠ 0 ∧ n ∉ xs then some (xs ++ [n]) else none
  | .enqTimed n => if n ≠ 0 ∧ n ∉ xs then some (xs ++ [n]) else none
  | .popHead => some xs.tail
  | .broadcast => some []
  | .removeTimed n => if n ∈ xs ∧ timed n = true then some (xs.erase n) else none

/-- pointer structure together with the abstract list it is claimed to represent -/
structure M where
  s : St
  xs : List Nat

def step (m : M) (op : Op) : Option M :=
  match specStep m.s.timed m.xs op with
  | none => none
  | some xs' => some { s := ptrStep m.xs.length m.s op, xs := xs' }

def machine : Machine M Op := { init := { s := init, xs := [] }, step := step }

/-- last element, or `p` for the empty list -/
def lastD : Nat → List Nat → Nat
  | p, [] => p
  | _, x :: xs => lastD x xs

/-- along `xs` (whose predecessor node is `p`): every *timed* node's `prev` is its predecessor -/
def Chain (prev : Nat → Nat) (timed : Nat → Bool) : Nat → List Nat → Prop
  | _, [] => True
  | p, x :: xs => (timed x = true → prev x = p) ∧ Chain prev timed x xs

instance Chain.dec (prev : Nat → Nat) (timed : Nat → Bool) : (p : Nat) → (xs : List Nat) → Decidable (Chain prev timed p xs)
  | _, [] => inferInstanceAs (Decidable True)
  | p, x :: xs =>
    have := Chain.dec prev timed x xs
    inferInstanceAs (Decidable ((timed x = true → prev x = p) ∧ Chain prev timed x xs))

/-- the invariant the removal code relies on: every non-head timed node's `p_prev` is its true
predecessor (nothing is claimed about the head's `p_prev` nor about untimed nodes) -/
def PrevOk (s : St) : List Nat → Prop
  | [] => True
  | x :: xs => Chain s.prev s.timed x xs

instance (s : St) : (xs : List Nat) → Decidable (PrevOk s xs)
  | [] => inferInstanceAs (Decidable True)
  | x :: xs => inferInstanceAs (Decidable (Chain s.prev s.timed x xs))

/-- **representation**: following `p_next` from `p_head` visits exactly `xs` and ends at NULL, `p_tail`
is the last node (NULL for the empty list), no node is queued twice, and `PrevOk` -/
def Rep (s : St) (xs : List Nat) : Prop :=
  Seg s.next s.head xs 0 ∧ s.tail = lastD 0 xs ∧ xs.Nodup ∧ PrevOk s xs

instance (s : St) (xs : List Nat) : Decidable (Rep s xs) := inferInstanceAs (Decidable (_ ∧ _ ∧ _ ∧ _))

end ArgoVerif.Model.WLPtr
