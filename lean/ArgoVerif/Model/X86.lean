/-
Model.X86 — the fragment of x86-64 (SysV, AT&T syntax in the source) that
`src/arch/fcontext/fcontext_x86_64_sysv_elf_gas.S` uses.  Core Lean only.

* registers and addresses are `Int` (no truncated subtraction, no wrap-around:
  see ASSUMPTIONS in checks/c02_asm.py);
* memory is separated by access width: `mem` (64-bit: push/pop/movq),
  `mem32` (stmxcsr/ldmxcsr), `mem16` (fnstcw/fldcw).  This is sound for a program
  as long as no location is accessed with two different widths; `noMixedWidth`
  is the decidable check of that, proved for every generated routine in Props.C02;
* an indirect `callq *%r` leaves the routine for an external C function.  Its
  effect is the parameter `Env.cb`; what the SysV ABI promises about it is the
  predicate `AbiEnv`, which theorems take as an explicit hypothesis;
* `jmpq *%r` / `ret` end a routine: they set `pc`.  The lists are straight-line,
  `terminated` checks that a control transfer occurs exactly at the end.

The instruction lists themselves are generated from the source by tools/asmgen.py
(ArgoVerif/Gen/Fcontext.lean); the semantics below is compared with the CPU by
harness/fctx_native (checks/c02_asm.py).
-/
namespace ArgoVerif.Model.X86

inductive Reg
  | rax | rbx | rcx | rdx | rsi | rdi | rbp | rsp
  | r8 | r9 | r10 | r11 | r12 | r13 | r14 | r15
  deriving DecidableEq, Repr, Inhabited

/-- the instruction forms that occur; operands in AT&T order (source first) -/
inductive Instr
  | push (r : Reg)                                  -- pushq %r
  | pop (r : Reg)                                   -- popq %r
  | lea (disp : Int) (base : Reg) (dst : Reg)       -- leaq disp(%base), %dst
  | movRR (src dst : Reg)                           -- movq %src, %dst
  | movRM (src : Reg) (disp : Int) (base : Reg)     -- movq %src, disp(%base)   (store)
  | movMR (disp : Int) (base : Reg) (dst : Reg)     -- movq disp(%base), %dst   (load)
  | andI (imm : Int) (dst : Reg)                    -- andq $imm, %dst   (imm = -(2^k) only)
  | stmxcsr (disp : Int) (base : Reg)               -- 32-bit store of MXCSR
  | ldmxcsr (disp : Int) (base : Reg)               -- 32-bit load of MXCSR
  | fnstcw (disp : Int) (base : Reg)                -- 16-bit store of the x87 control word
  | fldcw (disp : Int) (base : Reg)                 -- 16-bit load of the x87 control word
  | callInd (r : Reg)                               -- callq *%r   (external C function)
  | jmpInd (r : Reg)                                -- jmpq *%r    (leaves the routine)
  | ret                                             -- ret         (leaves the routine)
  deriving DecidableEq, Repr, Inhabited

/-- what was observable when an external function was called (ghost, newest first) -/
structure CallRec where
  target : Int          -- address called
  arg : Int             -- %rdi
  sp : Int              -- %rsp at the `callq` instruction (before the return address is pushed)
  mem : Int → Int       -- 64-bit memory at that moment (to state "the context was already saved")
  mem32 : Int → Int
  mem16 : Int → Int

structure St where
  reg : Reg → Int
  mem : Int → Int       -- 64-bit accesses, keyed by address
  mem32 : Int → Int     -- 32-bit accesses
  mem16 : Int → Int     -- 16-bit accesses
  mxcsr : Int
  fpucw : Int
  pc : Option Int       -- `some a` once control has left the routine for address `a`
  calls : List CallRec  -- ghost: external calls made so far, newest first

/-- the environment of a routine: external functions and the return address `callq` pushes -/
structure Env where
  /-- `cb target s`: `s` is the state at the callee's first instruction (return address
  already pushed); the result is the state just after the callee's `ret`. -/
  cb : Int → St → St
  /-- the value `callq` pushes (address of the next instruction; opaque to the model) -/
  retAddr : Int

def setReg (s : St) (r : Reg) (v : Int) : St :=
  { s with reg := fun x => if x = r then v else s.reg x }
def setMem (s : St) (a v : Int) : St :=
  { s with mem := fun x => if x = a then v else s.mem x }
def setMem32 (s : St) (a v : Int) : St :=
  { s with mem32 := fun x => if x = a then v else s.mem32 x }
def setMem16 (s : St) (a v : Int) : St :=
  { s with mem16 := fun x => if x = a then v else s.mem16 x }

/-- `andq $imm` for `imm = -(2^k)`: clear the low k bits = round down to a multiple of 2^k.
(Any other immediate is rejected by asmgen and by `immOk`.) -/
def andNegPow2 (x imm : Int) : Int := x - x % (-imm)

def exec (env : Env) (s : St) : Instr → St
  | .push r => let sp := s.reg .rsp - 8; setMem (setReg s .rsp sp) sp (s.reg r)
  | .pop r => let sp := s.reg .rsp; setReg (setReg s .rsp (sp + 8)) r (s.mem sp)
  | .lea d b r => setReg s r (s.reg b + d)
  | .movRR a b => setReg s b (s.reg a)
  | .movRM a d b => setMem s (s.reg b + d) (s.reg a)
  | .movMR d b r => setReg s r (s.mem (s.reg b + d))
  | .andI imm r => setReg s r (andNegPow2 (s.reg r) imm)
  | .stmxcsr d b => setMem32 s (s.reg b + d) s.mxcsr
  | .ldmxcsr d b => { s with mxcsr := s.mem32 (s.reg b + d) }
  | .fnstcw d b => setMem16 s (s.reg b + d) s.fpucw
  | .fldcw d b => { s with fpucw := s.mem16 (s.reg b + d) }
  | .callInd r =>
      let sp := s.reg .rsp - 8
      let s1 := { s with calls := { target := s.reg r, arg := s.reg .rdi, sp := s.reg .rsp,
                                    mem := s.mem, mem32 := s.mem32, mem16 := s.mem16 } :: s.calls }
      env.cb (s.reg r) (setMem (setReg s1 .rsp sp) sp env.retAddr)
  | .jmpInd r => { s with pc := some (s.reg r) }
  | .ret => let sp := s.reg .rsp; { setReg s .rsp (sp + 8) with pc := some (s.mem sp) }

def run (env : Env) (s : St) : List Instr → St
  | [] => s
  | i :: is => run env (exec env s i) is

/-! ### what the SysV ABI promises about an external function -/

def calleeSaved : List Reg := [.rbx, .rbp, .r12, .r13, .r14, .r15]

/-- `AbiEnv env n`: every external function returns to its caller (`rsp` = entry `rsp` + 8),
preserves the callee-saved registers, the MXCSR control bits and the x87 control word
(SysV x86-64 psABI §3.2.1, §3.2.3), does not write the `n` bytes of its caller's frame at
and above the return address slot, and does not touch the model's ghost fields. -/
structure AbiEnv (env : Env) (n : Int) : Prop where
  rsp : ∀ t s, (env.cb t s).reg .rsp = s.reg .rsp + 8
  rbx : ∀ t s, (env.cb t s).reg .rbx = s.reg .rbx
  rbp : ∀ t s, (env.cb t s).reg .rbp = s.reg .rbp
  r12 : ∀ t s, (env.cb t s).reg .r12 = s.reg .r12
  r13 : ∀ t s, (env.cb t s).reg .r13 = s.reg .r13
  r14 : ∀ t s, (env.cb t s).reg .r14 = s.reg .r14
  r15 : ∀ t s, (env.cb t s).reg .r15 = s.reg .r15
  mxcsr : ∀ t s, (env.cb t s).mxcsr = s.mxcsr
  fpucw : ∀ t s, (env.cb t s).fpucw = s.fpucw
  frame : ∀ t s a, s.reg .rsp + 8 ≤ a → a < s.reg .rsp + 8 + n → (env.cb t s).mem a = s.mem a
  frame32 : ∀ t s a, s.reg .rsp + 8 ≤ a → a < s.reg .rsp + 8 + n → (env.cb t s).mem32 a = s.mem32 a
  frame16 : ∀ t s a, s.reg .rsp + 8 ≤ a → a < s.reg .rsp + 8 + n → (env.cb t s).mem16 a = s.mem16 a
  pc : ∀ t s, (env.cb t s).pc = s.pc
  calls : ∀ t s, (env.cb t s).calls = s.calls

/-! ### two concrete environments (non-vacuity examples, `driver x86`) -/

/-- the most benign external function: returns immediately -/
def retEnv : Env where
  cb := fun _ s => setReg s .rsp (s.reg .rsp + 8)
  retAddr := 0xCA11

/-- what the recording callback of harness/fctx_native.S does: overwrites every caller-saved
register with a fixed junk value, scribbles over the six words below its return address,
returns.  (Same function as `Driver.X86` uses; constants must match FCTX_JUNK_* there.) -/
def junkRegs : List (Reg × Int) :=
  [(.rax, 0xA0A0), (.rcx, 0xA1A1), (.rdx, 0xA2A2), (.rsi, 0xA3A3), (.rdi, 0xA4A4),
   (.r8, 0xA5A5), (.r9, 0xA6A6), (.r10, 0xA7A7), (.r11, 0xA8A8)]

def junkReg (r : Reg) : Option Int := (junkRegs.find? (·.1 = r)).map (·.2)

def trashCb (s : St) : St :=
  let sp := s.reg .rsp
  { s with
    reg := fun r => if r = .rsp then sp + 8 else match junkReg r with | some v => v | none => s.reg r
    mem := fun a => if sp - 48 ≤ a ∧ a < sp ∧ (sp - a) % 8 = 0 then 0xD000 + (sp - a) / 8 else s.mem a }

def trashEnv : Env where
  cb := fun _ s => trashCb s
  retAddr := 0xCA11

/-! ### decidable side conditions on instruction lists -/

def isPow2Neg (imm : Int) : Bool := imm ∈ [-2, -4, -8, -16, -32, -64, -128, -256, -512, -1024, -2048, -4096]

/-- every `andq` immediate has the form the model gives a meaning to -/
def immOk : List Instr → Bool
  | [] => true
  | .andI imm _ :: is => isPow2Neg imm && immOk is
  | _ :: is => immOk is

def isExit : Instr → Bool
  | .jmpInd _ | .ret => true
  | _ => false

/-- control leaves the routine at its last instruction and nowhere else -/
def terminated : List Instr → Bool
  | [] => false
  | [i] => isExit i
  | i :: is => !isExit i && terminated is

/-- an access relative to the current symbolic `rsp` base: byte offset and width -/
structure Acc where
  off : Int
  width : Int
  deriving DecidableEq, Repr

def Acc.clash (a b : Acc) : Bool :=
  a.width ≠ b.width && a.off < b.off + b.width && b.off < a.off + a.width

def clashAny (a : Acc) (as : List Acc) : Bool := as.any (Acc.clash a)

/-- One step of the symbolic walk.  State: `off = some k` means `rsp = base + k` for the
current base (the value `rsp` had at entry, or the value last assigned to it from another
register or from memory); `none` = unknown; `seen` = accesses made relative to the current
base.  The step fails (`none`) when
* two accesses of different width overlap relative to the same base, or
* a 32-bit or 16-bit access goes through a register other than `rsp` (all other bases are
  context words, which the routines access as 64-bit words only), or
* `rsp` is used as a memory base while its offset is unknown.
A new base starts whenever `rsp` is assigned from another register or from memory; theorems
state explicitly (hypotheses) that distinct bases / context words do not overlap. -/
def mwAcc (st : Option Int × List Acc) (d w : Int) : Option (Option Int × List Acc) :=
  match st.1 with
  | some o => let a : Acc := ⟨o + d, w⟩; if clashAny a st.2 then none else some (st.1, a :: st.2)
  | none => none

def mwFresh : Option (Option Int × List Acc) := some (some 0, [])

def mwStep (st : Option Int × List Acc) : Instr → Option (Option Int × List Acc)
  | .push _ => (mwAcc st (-8) 8).map fun st' => (st'.1.map (· - 8), st'.2)
  | .pop r => (mwAcc st 0 8).bind fun st' => if r = .rsp then mwFresh else some (st'.1.map (· + 8), st'.2)
  | .lea d b r =>
      if r = .rsp then (if b = .rsp then some (st.1.map (· + d), st.2) else mwFresh) else some st
  | .movRR _ b => if b = .rsp then mwFresh else some st
  | .movRM _ d b => if b = .rsp then mwAcc st d 8 else some st
  | .movMR d b r =>
      if b = .rsp then (mwAcc st d 8).bind fun st' => if r = .rsp then mwFresh else some st'
      else if r = .rsp then mwFresh else some st
  | .andI _ r => if r = .rsp then mwFresh else some st
  | .stmxcsr d b | .ldmxcsr d b => if b = .rsp then mwAcc st d 4 else none
  | .fnstcw d b | .fldcw d b => if b = .rsp then mwAcc st d 2 else none
  | .callInd _ => mwAcc st (-8) 8
  | .jmpInd _ => some st
  | .ret => (mwAcc st 0 8).map fun st' => (st'.1.map (· + 8), st'.2)

def noMixedWidthAux (st : Option Int × List Acc) : List Instr → Bool
  | [] => true
  | i :: is => match mwStep st i with
    | some st' => noMixedWidthAux st' is
    | none => false

def noMixedWidth (p : List Instr) : Bool := noMixedWidthAux (some 0, []) p

/-! ### small structural queries used to state theorems about generated lists -/

/-- base register of the first `movq %rsp, (%b)` -/
def storeBase : List Instr → Option Reg
  | [] => none
  | .movRM .rsp 0 b :: _ => some b
  | _ :: is => storeBase is

/-- base register of the first `movq (%b), %rsp` -/
def loadBase : List Instr → Option Reg
  | [] => none
  | .movMR 0 b .rsp :: _ => some b
  | _ :: is => loadBase is

def isCall : Instr → Bool
  | .callInd _ => true
  | _ => false

def hasCall (p : List Instr) : Bool := p.any isCall

end ArgoVerif.Model.X86
