import ArgoVerif.Core.LTS
/-
Model.Stop — when may a scheduler stop, and who else consumes its pools.

Three pieces of src/sched/sched.c, src/stream.c, src/include/abti_pool.h that decide C06 (and the
"no unit is lost at the stop of a main scheduler" half of C01) and that Model.Sched does not contain:

(a) the pure decisions, computed exactly as the C code computes them
      `hasUnit`      ABTI_sched_has_unit     (scan over ALL pools of the scheduler; per pool: not empty,
                                              or blocked units that only this scheduler can get back:
                                              PRIV counts num_blocked, the shared access modes count it
                                              only when num_scheds == 1, any other access value counts nothing)
      `hasToStop`    ABTI_sched_has_to_stop  (EXIT; FINISH|REPLACE with the double check; the IN_POOL case).
                                              The two request loads and the two scans are separate
                                              snapshots (`r0 v1 r1 v2`): other streams push / request in between.
      `mainLoopBreaks` the exit test of thread_main_sched_func
      `checkEvents`  ABTI_xstream_check_events (request word of the stream's main-scheduler ULT ->
                                              finish / exit request of the scheduler that is running)
(b) `Acc`: accounting of pool consumers.  `num_scheds` of every pool as scheduler objects are created over
    pools (sched_create: ABTI_pool_retain per entry), freed (ABTI_sched_free: ABTI_pool_release per entry, an
    automatic pool is freed when the count reaches 0, a user-owned pool is kept), discarded
    (ABTI_sched_discard_and_free: freed only if the scheduler is automatic), used as / replaced as main
    scheduler of a stream, for any sequence of these; and the request word of every scheduler object along the
    same events (join / free set FINISH, a same-stream replacement sets REPLACE on the old scheduler, revive and
    every attachment as main scheduler clear the word — the repair of F14).
(c) `XS`: one stream's request plumbing: join / cancel requests, schedulers calling check_events, the
    replacement of the main scheduler (the main-scheduler ULT and its request word survive it, the new
    scheduler starts with a cleared request word).
-/
namespace ArgoVerif.Model.Stop
open ArgoVerif

/-! ### (a) decisions -/

/-- `ABT_pool_access`; `invalid` = any other value of the field (the `default:` arm) -/
inductive Access where
  | priv | spsc | mpsc | spmc | mpmc | invalid
deriving DecidableEq, Repr, Inhabited

def Access.shared : Access → Bool
  | .spsc | .mpsc | .spmc | .mpmc => true
  | _ => false

/-- `ABTI_sched_used` -/
inductive Used where
  | notUsed | main | inPool
deriving DecidableEq, Repr, Inhabited

/-- what one iteration of the scan reads from a pool -/
structure PoolView where
  size : Nat          -- ABTI_pool_is_empty ⇔ size = 0
  numBlocked : Int    -- ABTI_pool.num_blocked (int32)
  access : Access
  numScheds : Int     -- ABTI_pool.num_scheds (int32)
deriving DecidableEq, Repr

/-- one iteration of the loop of ABTI_sched_has_unit: `true` = the function returns ABT_TRUE here -/
def poolHasUnit (p : PoolView) : Bool :=
  if p.size ≠ 0 then true
  else match p.access with
    | .priv => decide (p.numBlocked ≠ 0)
    | .spsc | .mpsc | .spmc | .mpmc => decide (p.numScheds = 1) && decide (p.numBlocked ≠ 0)
    | .invalid => false

/-- ABTI_sched_has_unit: `for (p = 0; p < num_pools; p++)`, every iteration either returns TRUE or goes on -/
def hasUnit : List PoolView → Bool
  | [] => false
  | p :: ps => if poolHasUnit p then true else hasUnit ps

/-- "blocked units of this pool can only come back to this scheduler", as the code decides it -/
def PoolView.soleConsumer (p : PoolView) : Prop :=
  p.access = .priv ∨ (p.access.shared = true ∧ p.numScheds = 1)

/-- `ABTI_sched.request` (bits ABTI_SCHED_REQ_FINISH / EXIT / REPLACE) -/
structure SchedReq where
  finish : Bool := false
  exit : Bool := false
  replace : Bool := false
deriving DecidableEq, Repr

/-- `ABTI_thread.request` of a main-scheduler ULT (bits ABTI_THREAD_REQ_JOIN / CANCEL; MIGRATE is not read) -/
structure ThreadReq where
  join : Bool := false
  cancel : Bool := false
deriving DecidableEq, Repr

/-- ABTI_sched_has_to_stop.  `r0` = first load of the request (EXIT test), `v1` = first scan, `r1` = second load
(FINISH | REPLACE test), `v2` = second scan ("check join request"). -/
def hasToStop (r0 : SchedReq) (v1 : List PoolView) (r1 : SchedReq) (v2 : List PoolView) (used : Used) : Bool :=
  if r0.exit then true
  else if !hasUnit v1 then
    if r1.finish || r1.replace then !hasUnit v2
    else decide (used = .inPool)
  else false

/-- the same on a quiescent state (nothing changes between the loads) -/
def hasToStopQ (r : SchedReq) (v : List PoolView) (used : Used) : Bool := hasToStop r v r v used

/-- thread_main_sched_func after `run` returned (and after a possible replacement): leave the loop? -/
def mainLoopBreaks (ult : ThreadReq) (r : SchedReq) (v : List PoolView) : Bool :=
  if ult.cancel then true else r.finish && !hasUnit v

/-- ABTI_sched_finish / ABTI_sched_exit: fetch_or of one bit -/
def schedFinish (r : SchedReq) : SchedReq := { r with finish := true }
def schedExit (r : SchedReq) : SchedReq := { r with exit := true }

/-- ABTI_xstream_check_events(p_xstream, p_sched): `ult` is the request word of
`p_xstream->p_main_sched->p_ythread`, the result is the request word of `p_sched` (the scheduler that runs) -/
def checkEvents (ult : ThreadReq) (running : SchedReq) : SchedReq :=
  let r := if ult.join then schedFinish running else running
  if ult.cancel then schedExit r else r

/-! ### (b) pool-consumer accounting -/

abbrev PoolId := Nat
abbrev SchedId := Nat
abbrev StreamId := Nat

structure SchedRec where
  id : SchedId
  pools : List PoolId     -- p_sched->pools[0 .. num_pools)
  automatic : Bool        -- p_sched->automatic
  used : Used
deriving DecidableEq, Repr

structure Acc where
  pools : List (PoolId × Bool)       -- live pool objects with their `automatic` flag
  ns : PoolId → Int                  -- ABTI_pool.num_scheds
  scheds : List SchedRec             -- live scheduler objects
  main : List (StreamId × SchedId)   -- live streams, p_xstream->p_main_sched
  req : SchedId → SchedReq           -- ABTI_sched.request of every scheduler object
  joined : StreamId → Bool           -- the stream was joined and not revived (it does not run)
  stale : SchedId → Bool             -- p_replace_sched / p_replace_waiter still set although the replacement was carried out

def poolLive (pools : List (PoolId × Bool)) (p : PoolId) : Bool := pools.any (fun q => q.1 == p)
def poolAuto (pools : List (PoolId × Bool)) (p : PoolId) : Bool := pools.any (fun q => q.1 == p && q.2)
def dropPool (pools : List (PoolId × Bool)) (p : PoolId) : List (PoolId × Bool) := pools.filter (fun q => q.1 != p)

def Acc.sched? (s : Acc) (k : SchedId) : Option SchedRec := s.scheds.find? (fun r => r.id == k)
def Acc.main? (s : Acc) (x : StreamId) : Option SchedId := (s.main.find? (fun m => m.1 == x)).map (·.2)

/-- number of entries `p` in the pool arrays of all live schedulers -/
def occ : List SchedRec → PoolId → Nat
  | [], _ => 0
  | r :: rs, p => r.pools.count p + occ rs p

/-- sched_create: `for (p...) ABTI_pool_retain(pool_list[p])` -/
def retainAll (ns : PoolId → Int) : List PoolId → PoolId → Int
  | [] => ns
  | p :: ps => retainAll (upd ns p (ns p + 1)) ps

/-- the loop of ABTI_sched_free (force_free = ABT_FALSE): release every entry; an automatic pool whose count
reaches 0 is freed on the spot -/
def releaseAll (pools : List (PoolId × Bool)) (ns : PoolId → Int) :
    List PoolId → List (PoolId × Bool) × (PoolId → Int)
  | [] => (pools, ns)
  | p :: ps =>
    let n := ns p - 1
    releaseAll (if poolAuto pools p && n == 0 then dropPool pools p else pools) (upd ns p n) ps

def setUsed (scheds : List SchedRec) (k : SchedId) (u : Used) : List SchedRec :=
  scheds.map (fun r => if r.id = k then { r with used := u } else r)

/-- ABTI_sched_free -/
def freeSched (s : Acc) (r : SchedRec) : Acc :=
  let res := releaseAll s.pools s.ns r.pools
  { s with pools := res.1, ns := res.2, scheds := s.scheds.erase r }

/-- ABTI_sched_discard_and_free(force_free = ABT_FALSE): `used = NOT_USED`; freed only if automatic -/
def discard (s : Acc) (r : SchedRec) : Acc :=
  if r.automatic then freeSched s r else { s with scheds := setUsed s.scheds r.id .notUsed }

inductive AEv where
  | poolCreate (p : PoolId) (automatic : Bool)          -- ABT_pool_create(_basic) / pools made inside create_basic
  | poolFree (p : PoolId)                               -- ABT_pool_free by the owner (no scheduler has it)
  | schedCreate (k : SchedId) (ps : List PoolId) (automatic : Bool)   -- sched_create over existing pools
  | schedFree (k : SchedId)                             -- ABT_sched_free (requires NOT_USED)
  | streamCreate (x : StreamId) (k : SchedId)           -- xstream_create: k becomes the main scheduler
  | replace (x : StreamId) (k : SchedId)                -- main-scheduler replacement completed
  | streamFree (x : StreamId)                           -- ABT_xstream_free: join, main scheduler discarded
  | join (x : StreamId)                                 -- ABT_xstream_join
  | revive (x : StreamId)                               -- ABT_xstream_revive
  | stackPush (k : SchedId)                             -- ABT_pool_add_sched: used = IN_POOL
  | stackDone (k : SchedId)                             -- stacked scheduler terminated: discarded
deriving DecidableEq, Repr

def astep (s : Acc) : AEv → Option Acc
  | .poolCreate p a =>
    if poolLive s.pools p then none
    else some { s with pools := (p, a) :: s.pools, ns := upd s.ns p 0 }
  | .poolFree p =>
    if poolLive s.pools p && occ s.scheds p == 0 then some { s with pools := dropPool s.pools p } else none
  | .schedCreate k ps a =>
    if (s.sched? k).isSome || !(ps.all (poolLive s.pools)) then none
    else some { s with ns := retainAll s.ns ps, scheds := ⟨k, ps, a, .notUsed⟩ :: s.scheds,
                       req := upd s.req k {}, stale := upd s.stale k false }
  | .schedFree k =>
    match s.sched? k with
    | some r => if r.used = .notUsed then some (freeSched s r) else none
    | none => none
  | .streamCreate x k =>
    match s.main? x, s.sched? k with
    | none, some r =>
      -- xstream_init_main_sched: the request word is cleared before `used = MAIN` (a reused scheduler brings nothing along)
      if r.used = .notUsed then
        some { s with scheds := setUsed s.scheds k .main, main := (x, k) :: s.main, req := upd s.req k {},
                      joined := upd s.joined x false }
      else none
    | _, _ => none
  | .replace x k =>
    match s.main? x, s.sched? k with
    | some o, some r =>
      -- a running stream replaces through the REPLACE request of its current scheduler o (callback: REPLACE on o;
      -- thread_main_sched_func: p_replace_sched / p_replace_waiter of o reset, request of k cleared, k main, o discarded);
      -- a joined stream is changed directly (xstream_update_main_sched, second branch: request of k cleared, o keeps
      -- what it has).  A running stream whose scheduler still remembered an already executed replacement would take the
      -- "overwrite" branch on a dangling pointer: not a behaviour of this model, and by `replace_done_forgets_pending`
      -- no reachable state has such a scheduler.
      let waiting := !s.joined x
      if r.used = .notUsed && !(waiting && s.stale o) then
        let reqO : SchedReq := if waiting then { s.req o with replace := true } else s.req o
        let s1 : Acc := { s with scheds := setUsed s.scheds k .main,
                                 main := (x, k) :: s.main.filter (fun m => m.1 != x),
                                 req := upd (upd s.req o reqO) k {},
                                 stale := if waiting then upd s.stale o false else s.stale }
        match s1.sched? o with
        | some ro => some (discard s1 ro)
        | none => none
      else none
    | _, _ => none
  | .join x =>
    -- xstream_join: ABTI_sched_finish(main scheduler), then wait
    match s.main? x with
    | some o => some { s with req := upd s.req o (schedFinish (s.req o)), joined := upd s.joined x true }
    | none => none
  | .revive x =>
    -- ABT_xstream_revive: request of the main scheduler cleared
    match s.main? x with
    | some o => if s.joined x then some { s with req := upd s.req o {}, joined := upd s.joined x false } else none
    | none => none
  | .streamFree x =>
    match s.main? x with
    | some o =>
      match s.sched? o with
      -- ABT_xstream_free = xstream_join (FINISH on the main scheduler) + ABTI_xstream_free
      | some ro => some (discard { s with main := s.main.filter (fun m => m.1 != x),
                                          req := upd s.req o (schedFinish (s.req o)) } ro)
      | none => none
    | none => none
  | .stackPush k =>
    match s.sched? k with
    | some r => if r.used = .notUsed then some { s with scheds := setUsed s.scheds k .inPool } else none
    | none => none
  | .stackDone k =>
    match s.sched? k with
    | some r => if r.used = .inPool then some (discard s r) else none
    | none => none

def ainit : Acc :=
  { pools := [], ns := fun _ => 0, scheds := [], main := [], req := fun _ => {}, joined := fun _ => false,
    stale := fun _ => false }
def amachine : Machine Acc AEv := { init := ainit, step := astep }

/-! ### (c) one stream: requests, check_events, replacement of the main scheduler -/

structure XS where
  main : SchedId                 -- p_xstream->p_main_sched
  req : SchedId → SchedReq       -- request word of every scheduler object
  ult : ThreadReq                -- request word of the main-scheduler ULT (the ULT is handed to the new scheduler)
  pending : Option SchedId       -- p_main_sched->p_replace_sched
  joinReq : Bool                 -- ghost: ABT_xstream_join / free was called
  cancelReq : Bool               -- ghost: ABT_xstream_cancel / exit was called

inductive XEv where
  | join                         -- xstream_join: ABTI_sched_finish(main) ; thread_join: REQ_JOIN on the main ULT
  | cancel                       -- ABT_xstream_cancel / exit: REQ_CANCEL on the main ULT
  | apiFinish (k : SchedId)      -- ABT_sched_finish
  | apiExit (k : SchedId)        -- ABT_sched_exit
  | checkEvents (k : SchedId)    -- scheduler k, running on this stream, calls ABTI_xstream_check_events
  | setMain (k : SchedId)        -- replacement callback: k becomes the pending replacement, REPLACE on main
  | replace                      -- thread_main_sched_func honours REPLACE
deriving DecidableEq, Repr

def xstep (s : XS) : XEv → Option XS
  | .join => some { s with req := upd s.req s.main (schedFinish (s.req s.main)),
                           ult := { s.ult with join := true }, joinReq := true }
  | .cancel => some { s with ult := { s.ult with cancel := true }, cancelReq := true }
  | .apiFinish k => some { s with req := upd s.req k (schedFinish (s.req k)) }
  | .apiExit k => some { s with req := upd s.req k (schedExit (s.req k)) }
  | .checkEvents k => some { s with req := upd s.req k (checkEvents s.ult (s.req k)) }
  | .setMain k =>
    if k = s.main then none
    else some { s with pending := some k, req := upd s.req s.main { s.req s.main with replace := true } }
  | .replace =>
    match s.pending with
    | some k =>
      -- thread_main_sched_func: the new scheduler's request word is cleared before it becomes the main scheduler
      if (s.req s.main).replace then some { s with main := k, pending := none, req := upd s.req k {} } else none
    | none => none

/-- a stream whose schedulers carry arbitrary (possibly stale) request words -/
def xinit (m : SchedId) (req : SchedId → SchedReq) : XS :=
  { main := m, req := req, ult := {}, pending := none, joinReq := false, cancelReq := false }

def xmachine (m : SchedId) (req : SchedId → SchedReq) : Machine XS XEv := { init := xinit m req, step := xstep }

end ArgoVerif.Model.Stop
