import ArgoVerif.Core.LTS
/-
Model.Eventual — ABT_eventual (src/eventual.c) as a labelled transition system at the granularity
call → critical section under `p_eventual->lock` → (wait) → return.

  set(v, nbytes):  nbytes > capacity → ABT_ERR_INV_EVENTUAL, nothing touched (`setbig`)
                   acquire; if (!ready) { if (value) memcpy(value, v); ready = TRUE;      (all right after the
                                          broadcast (`wake` per node); release }           test-and-set: `acq`)
                            else { release; return ABT_ERR_EVENTUAL }
  wait:            tasklet (1.x API) → ABT_ERR_EVENTUAL before touching anything
                   acquire; if (!ready) { enqueue (`enq`); wait_and_unlock releases (`rel`) ... woken } else release
                   *value = p_eventual->value; return
  test:            acquire; flag = ready (+ value pointer); release; *is_ready = flag
  reset:           acquire; ready = FALSE; release
  free:            acquire (and never release: "we do not have to unlock it because the entire structure is freed
                   here"); free(value); free(p_eventual)            — the caller stays at `freed` for good

A `Val` is the content of the value buffer (the bytes as a number; 0 for a 0-byte eventual whose buffer
pointer is NULL).  Sets are modelled with exactly `nbytes` bytes (partial copies are not).  `ret` carries
what the caller observes: the error code, for test the flag, and the buffer content it reads at return.
`rel` carries the snapshot of the object taken when the lock word is cleared (ready, wait-list empty?).

Ghost: `epoch` = number of resets, `sets k` = successful sets in epoch k, `setVal k` = the value that set
stored, `relEpoch a` = epoch in which a's current call made its observation under the lock / was woken.
-/
namespace ArgoVerif.Model.Eventual
open ArgoVerif

abbrev Actor := Nat
abbrev Val := Nat

inductive Kind | ult | task | ext
deriving DecidableEq, Repr

inductive Rc | ok | errEventual | errInvEventual
deriving DecidableEq, Repr

inductive Op | set | setbig | wait | test | reset | free
deriving DecidableEq, Repr

inductive Pc
  | idle
  | rejected     -- tasklet inside ABT_eventual_wait
  | bigRej       -- set with too many bytes
  | setCalled | setOkCS | setErrCS | setOkDone | setErrDone
  | waitCalled
  | waitCS       -- lock held, found not ready: about to enqueue
  | waitEnq      -- lock held, enqueued
  | waiting | reW | woken | reR
  | passCS       -- lock held, found ready
  | waitDone
  | testCalled | testCS0 | testCS1 | testDone0 | testDone1
  | resetCalled | resetCS | resetDone
  | freeCalled   -- ABT_eventual_free: about to acquire the lock
  | freeCS       -- lock held (for ever), the memory is being released
  | freed        -- ABT_eventual_free has returned; the object is gone, the lock word stays taken
deriving DecidableEq, Repr

inductive Ev
  | call (a : Actor) (op : Op) (v : Val)
  | ret (a : Actor) (op : Op) (rc : Rc) (ready : Bool) (v : Val)
  | acq (a : Actor) (old : Bool)
  | enq (a : Actor)
  | wake (a : Actor) (n : Actor)
  | rel (a : Actor) (ready : Bool) (empty : Bool)
  | obsLock (v : Bool)
  | obs (ready : Bool)     -- snapshot taken inside a critical section (at the futex-word store of the broadcast)
deriving Repr

structure St where
  kind : Actor → Kind
  nbytes : Nat
  ready : Bool
  value : Val
  lock : Option Actor
  q : List Actor
  pc : Actor → Pc
  arg : Actor → Val           -- value passed by the actor's current set
  epoch : Nat                 -- ghost
  sets : Nat → Nat            -- ghost
  setVal : Nat → Val          -- ghost
  relEpoch : Actor → Nat      -- ghost

def init (kind : Actor → Kind) (nbytes : Nat) (v0 : Val) : St :=
  { kind, nbytes, ready := false, value := v0, lock := none, q := [], pc := fun _ => .idle, arg := fun _ => 0,
    epoch := 0, sets := fun _ => 0, setVal := fun _ => 0, relEpoch := fun _ => 0 }

def setPc (s : St) (a : Actor) (p : Pc) : St := { s with pc := upd s.pc a p }

def stepCall (s : St) (a : Actor) (op : Op) (v : Val) : Option St :=
  if s.pc a ≠ .idle then none else
  match op with
  | .set => some (setPc { s with arg := upd s.arg a v } a .setCalled)
  | .setbig => some (setPc s a .bigRej)
  | .wait => some (setPc s a (if s.kind a = .task then .rejected else .waitCalled))
  | .test => some (setPc s a .testCalled)
  | .reset => some (setPc s a .resetCalled)
  | .free => some (setPc s a .freeCalled)

def stepRet (s : St) (a : Actor) (op : Op) (rc : Rc) (r : Bool) (v : Val) : Option St :=
  match s.pc a, op, rc with
  | .setOkDone, .set, .ok => if v = s.value then some (setPc s a .idle) else none
  | .setErrDone, .set, .errEventual => if v = s.value then some (setPc s a .idle) else none
  | .bigRej, .setbig, .errInvEventual => if v = s.value then some (setPc s a .idle) else none
  | .rejected, .wait, .errEventual => some (setPc s a .idle)
  | .woken, .wait, .ok => if v = s.value then some (setPc s a .idle) else none
  | .waitDone, .wait, .ok => if v = s.value then some (setPc s a .idle) else none
  | .testDone0, .test, .ok => if r = false then some (setPc s a .idle) else none
  | .testDone1, .test, .ok => if r = true ∧ v = s.value then some (setPc s a .idle) else none
  | .resetDone, .reset, .ok => some (setPc s a .idle)
  | .freeCS, .free, .ok => some (setPc s a .freed)
  | _, _, _ => none

/-- the winning set: copy, mark ready (both plain stores right after the lock was taken) -/
def doSet (s : St) (a : Actor) : St :=
  setPc { s with lock := some a, ready := true, value := if s.nbytes = 0 then s.value else s.arg a,
                 sets := upd s.sets s.epoch (s.sets s.epoch + 1), setVal := upd s.setVal s.epoch (s.arg a),
                 relEpoch := upd s.relEpoch a s.epoch } a .setOkCS

def lockAs (s : St) (a : Actor) (p : Pc) : St :=
  setPc { s with lock := some a, relEpoch := upd s.relEpoch a s.epoch } a p

def stepAcq (s : St) (a : Actor) (old : Bool) : Option St :=
  if old ≠ s.lock.isSome then none else
  if old then
    (if s.pc a = .setCalled ∨ s.pc a = .waitCalled ∨ s.pc a = .testCalled ∨ s.pc a = .resetCalled ∨
        s.pc a = .freeCalled ∨ ((s.pc a = .waiting ∨ s.pc a = .woken) ∧ s.kind a ≠ .ult) then some s else none)
  else
    match s.pc a with
    | .setCalled => some (if s.ready then lockAs s a .setErrCS else doSet s a)
    | .waitCalled => some (if s.ready then lockAs s a .passCS else setPc { s with lock := some a } a .waitCS)
    | .testCalled => some (lockAs s a (if s.ready then .testCS1 else .testCS0))
    | .resetCalled => some (setPc { s with lock := some a, ready := false, epoch := s.epoch + 1 } a .resetCS)
    | .freeCalled => if s.q = [] then some (setPc { s with lock := some a } a .freeCS) else none   -- UB assertion: nobody queued
    | .waiting => if s.kind a = .ult then none else some (setPc { s with lock := some a } a .reW)
    | .woken => if s.kind a = .ult then none else some (setPc { s with lock := some a } a .reR)
    | _ => none

def stepEnq (s : St) (a : Actor) : Option St :=
  if s.pc a = .waitCS then some (setPc { s with q := s.q ++ [a] } a .waitEnq) else none

def stepWake (s : St) (a n : Actor) : Option St :=
  match s.pc a, s.q with
  | .setOkCS, h :: t =>
    if h = n then some (setPc { s with q := t, relEpoch := upd s.relEpoch n s.epoch } n .woken) else none
  | _, _ => none

def chk (s : St) (r e : Bool) : Option St :=
  if r = s.ready ∧ e = s.q.isEmpty then some s else none

def unlockAs (s : St) (a : Actor) (p : Pc) : St := setPc { s with lock := none } a p

def stepRel (s : St) (a : Actor) (r e : Bool) : Option St :=
  match s.pc a with
  | .setOkCS => if s.q = [] then chk (unlockAs s a .setOkDone) r e else none   -- the broadcast emptied the list
  | .setErrCS => chk (unlockAs s a .setErrDone) r e
  | .waitEnq => chk (unlockAs s a .waiting) r e
  | .reW => chk (unlockAs s a .waiting) r e
  | .reR => chk (unlockAs s a .woken) r e
  | .passCS => chk (unlockAs s a .waitDone) r e
  | .testCS0 => chk (unlockAs s a .testDone0) r e
  | .testCS1 => chk (unlockAs s a .testDone1) r e
  | .resetCS => chk (unlockAs s a .resetDone) r e
  | _ => none

def step (s : St) : Ev → Option St
  | .call a op v => stepCall s a op v
  | .ret a op rc r v => stepRet s a op rc r v
  | .acq a old => stepAcq s a old
  | .enq a => stepEnq s a
  | .wake a n => stepWake s a n
  | .rel a r e => stepRel s a r e
  | .obsLock v => if v = s.lock.isSome then some s else none
  | .obs r => if r = s.ready then some s else none

def machine (kind : Actor → Kind) (nbytes : Nat) (v0 : Val) : Machine St Ev :=
  { init := init kind nbytes v0, step := step }

end ArgoVerif.Model.Eventual
