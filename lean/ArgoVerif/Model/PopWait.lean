import ArgoVerif.Core.LTS
/-
Model.PopWait — blocking pops of the built-in pools, as an interleaving LTS over one pool.

  kind `poll`  = FIFO and RANDWS (`fifo.c`, `randws.c`): spinlock + `is_empty` flag
      push:          ABTD_spinlock_acquire { tas; while (is_locked); } ; push_tail ; release
      pop:           thread_queue_acquire_spinlock_if_not_empty ; pop ; release          (non-blocking)
      pop_wait(t):   loop { if (acquire_if_not_empty == 0) { pop; release; if (unit) return unit; }
                            if (start == 0) start = now(); else if (now() - start > t) return NULL;
                            nanosleep(100 ns) }
      pop_timedwait(abs): loop { (same attempt) ; nanosleep(100 ns); if (now() > abs) return NULL }
      acquire_if_not_empty: if (is_empty) return 1;
                            while (try_acquire fails) { for (;;) { if (is_empty) return 1; if (!is_locked) break; } }
  kind `fwait` = FIFO_WAIT (`fifo_wait.c`): pthread mutex + condition variable
      push:          lock ; push_tail ; pthread_cond_signal ; unlock
      pop:           if (!is_empty) { lock ; pop ; unlock }                                 (non-blocking)
      pop_wait(t):   lock ; if (is_empty) { clock_gettime ; ts += t ; pthread_cond_timedwait(ts) } ; pop ; unlock
      pop_timedwait(abs): lock ; if (is_empty) pthread_cond_timedwait(abs) ; pop ; unlock

Queue contents are abstract (a list of unit ids, as the deque of Model.TQ / Props.C07): inside a critical section
the plain writes to the ring (`p_head`, `p_tail`, links, `num_threads`) are invisible to every other actor — nobody
reads them without the lock — so the model performs them together with the section's first atomic store
(`is_empty := 0/1` when emptiness changes, else `is_in_pool := 1/0`): event `link` / `take`.  The `is_empty` flag,
the lock word, the mutex owner, the condition variable's waiters and the clock are explicit.

Time is in nanoseconds.  `clock a v` is a clock read returning `v` (reads never go backwards), `advance v` lets time
pass, a `nanosleep(100)` that starts after a read of `v` ends no earlier than `v + 100`.
Ghost fields (never read by a guard that decides control flow): `owner`, `pushed`, `taken`, `reads`, `steps`,
`sawItems`, `emptyAtPoll`, `lastRead`, `base`, `woken`.
-/
namespace ArgoVerif.Model.PopWait
open ArgoVerif

abbrev Actor := Nat

inductive Kind | poll | fwait
deriving DecidableEq, Repr

inductive Call
  | push (u : Nat)
  | pop (tail : Bool)
  | popWait (t : Nat) (tail : Bool)
  | popTimedwait (abs : Nat)
deriving DecidableEq, Repr

inductive Pc
  | idle | retp
  | psAcq | psSpin | psCs | psRel
  | aTop | aTry | aSpinE | aSpinL | aCs | aRel
  | wTime | wSleep | tSleep | tTime
  | fpLock | fpCs | fpSig | fpUnl
  | fnCheck | fnLock | fnCs | fnUnl
  | fwLock | fwCheck | fwClock | fwWait | fwSleep | fwRelock | fwCs | fwUnl
deriving DecidableEq, Repr

inductive Ev
  | call (a : Actor) (c : Call)
  | ret (a : Actor) (r : Option Nat)
  | advance (v : Nat)
  | tas (a : Actor) (old : Bool)
  | loadLock (a : Actor) (v : Bool)
  | loadEmpty (a : Actor) (v : Bool)
  | clear (a : Actor)
  | link (a : Actor)
  | take (a : Actor) (r : Option Nat)
  | clock (a : Actor) (v : Nat)
  | sleepDone (a : Actor)
  | mlock (a : Actor)
  | munlock (a : Actor)
  | condWait (a : Actor) (dl : Nat)
  | signal (a : Actor) (w : Option Actor)
  | timeout (a : Actor)
  | spurious (a : Actor)
deriving Repr

structure St where
  q : List Nat                  -- queue contents, head first
  flag : Bool                   -- `is_empty`
  lock : Bool                   -- spinlock word / "mutex is held"
  owner : Option Actor          -- ghost: who holds it
  now : Nat                     -- ns
  pc : Actor → Pc
  cur : Actor → Call            -- the call in progress
  got : Actor → Option Nat      -- unit popped in this call
  start : Actor → Option Nat    -- pop_wait's `time_start` (none = 0.0, not taken yet)
  wake : Actor → Nat            -- end of the running nanosleep / deadline of the cond wait
  waiters : List Actor          -- asleep on the condition variable
  woken : List Actor            -- ghost: signalled, has not looked at the queue again yet
  pushed : List Nat             -- ghost: units linked so far
  taken : List Nat              -- ghost: units unlinked by a pop so far
  reads : Actor → Nat           -- ghost: clock reads of the call in progress
  steps : Actor → Nat           -- ghost: atomic steps of the call in progress
  sawItems : Actor → Bool       -- ghost: the call has read `is_empty = 0`
  emptyAtPoll : Actor → Bool    -- ghost: `q = []` held at the call's latest emptiness observation
  lastRead : Actor → Nat        -- ghost: value of the latest clock read
  base : Actor → Nat            -- ghost: the clock when the call began

def init : St :=
  { q := [], flag := true, lock := false, owner := none, now := 0, pc := fun _ => .idle, cur := fun _ => .pop false,
    got := fun _ => none, start := fun _ => none, wake := fun _ => 0, waiters := [], woken := [], pushed := [], taken := [],
    reads := fun _ => 0, steps := fun _ => 0, sawItems := fun _ => false, emptyAtPoll := fun _ => false, lastRead := fun _ => 0,
    base := fun _ => 0 }

def setPc (s : St) (a : Actor) (p : Pc) : St := { s with pc := upd s.pc a p }
def takeL (s : St) (a : Actor) (p : Pc) : St := setPc { s with lock := true, owner := some a } a p
def dropL (s : St) (a : Actor) (p : Pc) : St := setPc { s with lock := false, owner := none } a p

def stepCall (k : Kind) (s : St) (a : Actor) (c : Call) : Option St :=
  if s.pc a ≠ .idle then none else
  let p : Pc := match k, c with
    | .poll, .push _ => .psAcq
    | .poll, _ => .aTop
    | .fwait, .push _ => .fpLock
    | .fwait, .pop _ => .fnCheck
    | .fwait, _ => .fwLock
  some (setPc { s with cur := upd s.cur a c, got := upd s.got a none, start := upd s.start a none,
                       reads := upd s.reads a 0, steps := upd s.steps a 0, sawItems := upd s.sawItems a false,
                       emptyAtPoll := upd s.emptyAtPoll a false, base := upd s.base a s.now } a p)

def stepRet (s : St) (a : Actor) (r : Option Nat) : Option St :=
  if s.pc a = .retp ∧ r = s.got a then some (setPc { s with got := upd s.got a none } a .idle) else none

def stepAdvance (s : St) (v : Nat) : Option St :=
  if v < s.now then none else some { s with now := v }

def stepTas (s : St) (a : Actor) (old : Bool) : Option St :=
  if old ≠ s.lock then none else
  match s.pc a with
  | .psAcq => some (if old then setPc s a .psSpin else takeL s a .psCs)
  | .aTry => some (if old then setPc s a .aSpinE else takeL s a .aCs)
  | _ => none

def stepLoadLock (s : St) (a : Actor) (v : Bool) : Option St :=
  if v ≠ s.lock then none else
  match s.pc a with
  | .psSpin => some (setPc s a (if v then .psSpin else .psAcq))
  | .aSpinL => some (setPc s a (if v then .aSpinE else .aTry))
  | _ => none

/-- the attempt found nothing (`is_empty` read as 1, or the pop under the lock returned NULL); `e` records whether
the queue was empty at that observation -/
def afterEmpty (s : St) (a : Actor) (e : Bool) : Option St :=
  let s1 := { s with emptyAtPoll := upd s.emptyAtPoll a e }
  match s.cur a with
  | .pop _ => some (setPc { s1 with got := upd s.got a none } a .retp)
  | .popWait _ _ => some (setPc s1 a .wTime)
  | .popTimedwait _ => some (setPc { s1 with wake := upd s.wake a (s.now + 100) } a .tSleep)
  | .push _ => none

def stepLoadEmpty (s : St) (a : Actor) (v : Bool) : Option St :=
  if v ≠ s.flag then none else
  match s.pc a with
  | .aTop =>
    if v then afterEmpty s a (decide (s.q = []))
    else some (setPc { s with sawItems := upd s.sawItems a true } a .aTry)
  | .aSpinE => if v then afterEmpty s a (decide (s.q = [])) else some (setPc s a .aSpinL)
  | .fnCheck =>
    if v then some (setPc { s with got := upd s.got a none, emptyAtPoll := upd s.emptyAtPoll a (decide (s.q = [])) } a .retp)
    else some (setPc s a .fnLock)
  | .fwCheck =>
    if v then
      match s.cur a with
      | .popWait _ _ => some (setPc { s with emptyAtPoll := upd s.emptyAtPoll a (decide (s.q = [])) } a .fwClock)
      | .popTimedwait abs =>
        some (setPc { s with emptyAtPoll := upd s.emptyAtPoll a (decide (s.q = [])), wake := upd s.wake a abs } a .fwWait)
      | _ => none
    else some (setPc s a .fwCs)
  | _ => none

def stepClear (s : St) (a : Actor) : Option St :=
  match s.pc a with
  | .psRel => some (dropL s a .retp)
  | .aRel =>
    match s.got a with
    | some _ => some (dropL s a .retp)
    | none => afterEmpty { s with lock := false, owner := none } a (s.emptyAtPoll a)
  | _ => none

def linkQ (s : St) (u : Nat) : St := { s with q := s.q ++ [u], flag := false, pushed := s.pushed ++ [u] }

def stepLink (s : St) (a : Actor) : Option St :=
  match s.pc a, s.cur a with
  | .psCs, .push u => some (setPc (linkQ s u) a .psRel)
  | .fpCs, .push u => some (setPc (linkQ s u) a .fpSig)
  | _, _ => none

def tailOf : Call → Bool
  | .pop t => t
  | .popWait _ t => t
  | _ => false

/-- `thread_queue_pop_head` / `thread_queue_pop_tail` on the abstract contents -/
def takeFrom (q : List Nat) (tail : Bool) : Option (Nat × List Nat) :=
  if tail then
    match q.getLast? with
    | some x => some (x, q.dropLast)
    | none => none
  else
    match q with
    | x :: r => some (x, r)
    | [] => none

def stepTake (s : St) (a : Actor) (r : Option Nat) : Option St :=
  let np : Option Pc := match s.pc a with
    | .aCs => some .aRel
    | .fnCs => some .fnUnl
    | .fwCs => some .fwUnl
    | _ => none
  match np with
  | none => none
  | some p =>
    match takeFrom s.q (tailOf (s.cur a)) with
    | none =>
      if r = none then
        some (setPc { s with got := upd s.got a none, emptyAtPoll := upd s.emptyAtPoll a true, woken := s.woken.erase a } a p)
      else none
    | some (x, rest) =>
      if r = some x then
        some (setPc { s with q := rest, flag := if rest = [] then true else s.flag, taken := s.taken ++ [x],
                             got := upd s.got a (some x), woken := s.woken.erase a } a p)
      else none

def stepClock (s : St) (a : Actor) (v : Nat) : Option St :=
  if v < s.now then none else
  let s1 := { s with now := v, reads := upd s.reads a (s.reads a + 1), lastRead := upd s.lastRead a v }
  match s.pc a, s.cur a with
  | .wTime, .popWait t _ =>
    match s.start a with
    | none => some (setPc { s1 with start := upd s.start a (some v), wake := upd s.wake a (v + 100) } a .wSleep)
    | some s0 =>
      if s0 + t < v then some (setPc { s1 with got := upd s.got a none } a .retp)
      else some (setPc { s1 with wake := upd s.wake a (v + 100) } a .wSleep)
  | .tTime, .popTimedwait abs =>
    if abs < v then some (setPc { s1 with got := upd s.got a none } a .retp) else some (setPc s1 a .aTop)
  | .fwClock, .popWait t _ => some (setPc { s1 with wake := upd s.wake a (v + t) } a .fwWait)
  | _, _ => none

def stepSleepDone (s : St) (a : Actor) : Option St :=
  if s.now < s.wake a then none else
  match s.pc a with
  | .wSleep => some (setPc s a .aTop)
  | .tSleep => some (setPc s a .tTime)
  | _ => none

def stepMlock (s : St) (a : Actor) : Option St :=
  if s.lock then none else
  match s.pc a with
  | .fpLock => some (takeL s a .fpCs)
  | .fnLock => some (takeL s a .fnCs)
  | .fwLock => some (takeL s a .fwCheck)
  | .fwRelock => some (takeL s a .fwCs)
  | _ => none

def stepMunlock (s : St) (a : Actor) : Option St :=
  match s.pc a with
  | .fpUnl => some (dropL s a .retp)
  | .fnUnl => some (dropL s a .retp)
  | .fwUnl => some (dropL s a .retp)
  | _ => none

/-- `pthread_cond_timedwait` begins: atomically releases the mutex and joins the waiters.  `dl` is the deadline the
call was really given: the budget/absolute time converted to a `timespec`, which truncates by less than 1 ns -/
def stepCondWait (s : St) (a : Actor) (dl : Nat) : Option St :=
  if s.pc a = .fwWait ∧ dl ≤ s.wake a ∧ s.wake a ≤ dl + 1 then
    some (dropL { s with wake := upd s.wake a dl, waiters := s.waiters ++ [a] } a .fwSleep)
  else none

/-- `pthread_cond_signal` under the mutex: wakes one waiter if there is one -/
def stepSignal (s : St) (a : Actor) (w : Option Actor) : Option St :=
  if s.pc a ≠ .fpSig then none else
  match w with
  | none => if s.waiters = [] then some (setPc s a .fpUnl) else none
  | some w =>
    if w ∈ s.waiters then
      some (setPc (setPc { s with waiters := s.waiters.erase w, woken := s.woken ++ [w] } w .fwRelock) a .fpUnl)
    else none

def stepTimeout (s : St) (a : Actor) : Option St :=
  if s.pc a = .fwSleep ∧ s.wake a ≤ s.now then
    some (setPc { s with waiters := s.waiters.erase a } a .fwRelock)
  else none

/-- POSIX permits spurious wake-ups of a condition wait -/
def stepSpurious (s : St) (a : Actor) : Option St :=
  if s.pc a = .fwSleep then some (setPc { s with waiters := s.waiters.erase a } a .fwRelock) else none

/-- the transition relation without the step counter -/
def step0 (k : Kind) (s : St) : Ev → Option St
  | .call a c => stepCall k s a c
  | .ret a r => stepRet s a r
  | .advance v => stepAdvance s v
  | .tas a old => stepTas s a old
  | .loadLock a v => stepLoadLock s a v
  | .loadEmpty a v => stepLoadEmpty s a v
  | .clear a => stepClear s a
  | .link a => stepLink s a
  | .take a r => stepTake s a r
  | .clock a v => stepClock s a v
  | .sleepDone a => stepSleepDone s a
  | .mlock a => stepMlock s a
  | .munlock a => stepMunlock s a
  | .condWait a dl => stepCondWait s a dl
  | .signal a w => stepSignal s a w
  | .timeout a => stepTimeout s a
  | .spurious a => stepSpurious s a

/-- the actor whose own atomic step an event is (calls, returns and the passing of time do not count) -/
def actorOf : Ev → Option Actor
  | .call _ _ | .ret _ _ | .advance _ => none
  | .tas a _ | .loadLock a _ | .loadEmpty a _ | .clear a | .link a | .take a _ | .clock a _ | .sleepDone a
  | .mlock a | .munlock a | .condWait a _ | .signal a _ | .timeout a | .spurious a => some a

def bump (s : St) : Option Actor → St
  | none => s
  | some a => { s with steps := upd s.steps a (s.steps a + 1) }

def step (k : Kind) (s : St) (e : Ev) : Option St := (step0 k s e).map (fun s' => bump s' (actorOf e))

def machine (k : Kind) : Machine St Ev := { init := init, step := step k }

end ArgoVerif.Model.PopWait
