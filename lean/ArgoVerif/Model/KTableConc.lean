import ArgoVerif.Model.KTable
/-
Model.KTableConc — concurrent `ABTI_ktable_set` / `ABTI_ktable_get` on ONE existing key
table (src/include/abti_key.h), any number of actors, all interleavings.  (The lazy
creation NULL → LOCKED → table is Model.KTable part 2.)

`ABTI_ktable_set_impl(p_ktable, p_key, value, is_safe)`:

    idx = key_id & (size-1);  pp_elem = &p_elems[idx];
    p_elem = acquire_load(pp_elem);
    while (p_elem) {                                   -- lock-free walk
        if (p_elem->key_id == key_id) { p_elem->value = value; return OK; }
        pp_elem = &p_elem->p_next;  p_elem = acquire_load(pp_elem);
    }
    if (is_safe) spinlock_acquire(&p_ktable->lock);
    p_elem = acquire_load(pp_elem);                    -- "the list might have been extended":
    while (p_elem) {                                   --  re-walk from the remembered link
        if (p_elem->key_id == key_id) { if (is_safe) release(lock); p_elem->value = value; return OK; }
        pp_elem = &p_elem->p_next;  p_elem = acquire_load(pp_elem);
    }
    p_elem = alloc_elem();  (on failure: if (is_safe) release(lock); return error)
    init *p_elem (f_destructor, key_id, value, p_next = NULL);
    release_store(pp_elem, p_elem);                    -- publish at the tail
    if (is_safe) release(lock);
    return OK;

`is_safe` is true for `ABTI_ktable_set` (ABT_key_set, ABT_self_set_specific,
ABT_thread_set_specific, migration data) and false for `ABTI_ktable_set_unsafe`, which
`ythread_create` uses on a table no other work unit can reach yet.  `ABTI_ktable_get` is the
lock-free walk followed by a plain read of `value`.

Granularity: one transition per atomic operation of the C code — an acquire-load of a chain
link (folded with the comparison of the loaded element's immutable `key_id`), the spinlock
acquire, the release-store that publishes, the lock release — plus the two plain accesses
to `value` (`storeVal`, `readVal`) as transitions of their own.  A chain is the list of its
elements in link order; link `j` of a chain is the bucket head (`j = 0`) or the `p_next` of
element `j-1`; an element is identified by (bucket, position).  The publishing store writes
link `j`: it replaces whatever followed (`take j ++ [new]`), exactly what a store to a
non-tail `pp_elem` would do.

Ghost state: `hist k` — every value stored under key id `k`, oldest first (the abstract map
is its last entry); `priv` — the actor running the non-safe variant on a private table.
-/
namespace ArgoVerif.Model.KTableConc
open ArgoVerif ArgoVerif.Model.KTable

abbrev Actor := Nat

structure Cfg where
  g : Geom
  size : Nat
  kd : Nat → Nat        -- destructor registered for a key id (ABT_key_create hands out each id once)

inductive Pc where
  | idle
  | walk (k : Key) (v : Val) (safe : Bool) (j : Nat)   -- lock-free walk: about to load link j
  | found (k : Key) (v : Val) (j : Nat)                -- key found at element j, no lock held: about to write `value`
  | acq (k : Key) (v : Val) (j : Nat)                  -- link j was NULL: about to acquire the table lock
  | lwalk (k : Key) (v : Val) (safe : Bool) (j : Nat)  -- exclusive: about to (re)load link j
  | lfound (k : Key) (v : Val) (j : Nat)               -- lock held, key found at element j: about to release
  | pub (k : Key) (v : Val) (safe : Bool) (j : Nat) (blk : Nat)  -- element built: about to release-store link j
  | unlock                                             -- published: about to release the lock
  | failRel                                            -- allocation failed: about to release the lock
  | setDone (ok : Bool)                                -- about to return
  | gwalk (kid : Nat) (h0 : Nat) (j : Nat)             -- get: about to load link j; h0 ghost: |hist kid| at call
  | gread (kid : Nat) (h0 : Nat) (j : Nat)             -- get: key found at element j: about to read `value`
  | gret (kid : Nat) (h0 : Nat) (r : Val) (hr : Nat)   -- get: about to return r; hr ghost: |hist kid| at the read (0: not found)
deriving Repr, DecidableEq

inductive Ev where
  | startSet (a : Actor) (k : Key) (v : Val) (safe : Bool)
  | load (a : Actor) (b j : Nat) (nonnull : Bool)   -- acquire-load of link j of bucket b and what it returned
  | storeVal (a : Actor)                            -- `p_elem->value = value`
  | acquire (a : Actor)
  | release (a : Actor)
  | allocFail (a : Actor)                           -- `ABTI_ktable_alloc_elem` failed
  | storeLink (a : Actor) (b j : Nat)               -- release-store of the new element into link j of bucket b
  | endSet (a : Actor) (ok : Bool)
  | startGet (a : Actor) (kid : Nat)
  | readVal (a : Actor)                             -- `p_elem->value` read by get
  | endGet (a : Actor) (r : Val)
  | free                                            -- `thread_free` → `ABTI_ktable_free` (no access in progress)
deriving Repr

structure St where
  tbl : Table
  lock : Option Actor
  priv : Option Actor
  live : Bool
  pc : Actor → Pc
  hist : Nat → List Val
  known : List Actor          -- ghost: actors that ever started an operation (all others are idle)

def init (c : Cfg) : St :=
  { tbl := createOk c.g c.size, lock := none, priv := none, live := true, pc := fun _ => .idle,
    hist := fun _ => [], known := [] }

def addKnown (l : List Actor) (a : Actor) : List Actor := if a ∈ l then l else a :: l

def chain (c : Cfg) (s : St) (kid : Nat) : List Elem := s.tbl.b (idx c.size kid)

def setChain (c : Cfg) (s : St) (kid : Nat) (l : List Elem) : Table :=
  { s.tbl with b := updB s.tbl.b (idx c.size kid) l }

def mkElem (k : Key) (v : Val) (blk : Nat) : Elem := { dtor := k.dtor, keyId := k.id, val := v, blk := blk }

/-- the abstract map: last value stored under a key id, `0` (NULL) if none -/
def absVal (s : St) (kid : Nat) : Val := (s.hist kid).getLast?.getD 0

inductive Step (c : Cfg) : St → Ev → St → Prop where
  | startSafe {s a k v} : s.pc a = .idle → s.live = true → s.priv = none → k.dtor = c.kd k.id →
      Step c s (.startSet a k v true) { s with known := addKnown s.known a, pc := upd s.pc a (.walk k v true 0) }
  /-- the non-safe variant runs only while nobody else can reach the table -/
  | startUnsafe {s a k v} : (∀ a', s.pc a' = .idle) → s.live = true → s.priv = none → k.dtor = c.kd k.id →
      Step c s (.startSet a k v false)
        { s with priv := some a, known := addKnown s.known a, pc := upd s.pc a (.walk k v false 0) }
  | walkNext {s a k v sf j e} : s.pc a = .walk k v sf j → (chain c s k.id)[j]? = some e → e.keyId ≠ k.id →
      Step c s (.load a (idx c.size k.id) j true) { s with pc := upd s.pc a (.walk k v sf (j + 1)) }
  | walkFound {s a k v sf j e} : s.pc a = .walk k v sf j → (chain c s k.id)[j]? = some e → e.keyId = k.id →
      Step c s (.load a (idx c.size k.id) j true) { s with pc := upd s.pc a (.found k v j) }
  | walkEndSafe {s a k v j} : s.pc a = .walk k v true j → (chain c s k.id)[j]? = none →
      Step c s (.load a (idx c.size k.id) j false) { s with pc := upd s.pc a (.acq k v j) }
  | walkEndUnsafe {s a k v j} : s.pc a = .walk k v false j → (chain c s k.id)[j]? = none →
      Step c s (.load a (idx c.size k.id) j false) { s with pc := upd s.pc a (.lwalk k v false j) }
  | acquire {s a k v j} : s.pc a = .acq k v j → s.lock = none →
      Step c s (.acquire a) { s with lock := some a, pc := upd s.pc a (.lwalk k v true j) }
  | lwalkNext {s a k v sf j e} : s.pc a = .lwalk k v sf j → (chain c s k.id)[j]? = some e → e.keyId ≠ k.id →
      Step c s (.load a (idx c.size k.id) j true) { s with pc := upd s.pc a (.lwalk k v sf (j + 1)) }
  | lwalkFoundSafe {s a k v j e} : s.pc a = .lwalk k v true j → (chain c s k.id)[j]? = some e → e.keyId = k.id →
      Step c s (.load a (idx c.size k.id) j true) { s with pc := upd s.pc a (.lfound k v j) }
  | lwalkFoundUnsafe {s a k v j e} : s.pc a = .lwalk k v false j → (chain c s k.id)[j]? = some e → e.keyId = k.id →
      Step c s (.load a (idx c.size k.id) j true) { s with pc := upd s.pc a (.found k v j) }
  /-- end of the re-walk: allocate + initialise the (still private) element -/
  | lwalkEnd {s a k v sf j tb blk} : s.pc a = .lwalk k v sf j → (chain c s k.id)[j]? = none →
      allocElem c.g s.tbl true = some (tb, blk) →
      Step c s (.load a (idx c.size k.id) j false) { s with tbl := tb, pc := upd s.pc a (.pub k v sf j blk) }
  | allocFailSafe {s a k v j} : s.pc a = .lwalk k v true j → (chain c s k.id)[j]? = none →
      allocElem c.g s.tbl false = none →
      Step c s (.allocFail a) { s with pc := upd s.pc a .failRel }
  | allocFailUnsafe {s a k v j} : s.pc a = .lwalk k v false j → (chain c s k.id)[j]? = none →
      allocElem c.g s.tbl false = none →
      Step c s (.allocFail a) { s with pc := upd s.pc a (.setDone false) }
  | releaseFound {s a k v j} : s.pc a = .lfound k v j →
      Step c s (.release a) { s with lock := none, pc := upd s.pc a (.found k v j) }
  | releaseFail {s a} : s.pc a = .failRel →
      Step c s (.release a) { s with lock := none, pc := upd s.pc a (.setDone false) }
  | publishSafe {s a k v j blk} : s.pc a = .pub k v true j blk →
      Step c s (.storeLink a (idx c.size k.id) j)
        { s with tbl := setChain c s k.id ((chain c s k.id).take j ++ [mkElem k v blk]),
                 hist := upd s.hist k.id (s.hist k.id ++ [v]), pc := upd s.pc a .unlock }
  | publishUnsafe {s a k v j blk} : s.pc a = .pub k v false j blk →
      Step c s (.storeLink a (idx c.size k.id) j)
        { s with tbl := setChain c s k.id ((chain c s k.id).take j ++ [mkElem k v blk]),
                 hist := upd s.hist k.id (s.hist k.id ++ [v]), pc := upd s.pc a (.setDone true) }
  | unlock {s a} : s.pc a = .unlock →
      Step c s (.release a) { s with lock := none, pc := upd s.pc a (.setDone true) }
  | storeVal {s a k v j e} : s.pc a = .found k v j → (chain c s k.id)[j]? = some e →
      Step c s (.storeVal a)
        { s with tbl := setChain c s k.id ((chain c s k.id).set j { e with val := v }),
                 hist := upd s.hist k.id (s.hist k.id ++ [v]), pc := upd s.pc a (.setDone true) }
  | endSet {s a ok} : s.pc a = .setDone ok →
      Step c s (.endSet a ok)
        { s with priv := if s.priv = some a then none else s.priv, pc := upd s.pc a .idle }
  | startGet {s a kid} : s.pc a = .idle → s.live = true → s.priv = none →
      Step c s (.startGet a kid)
        { s with known := addKnown s.known a, pc := upd s.pc a (.gwalk kid (s.hist kid).length 0) }
  | gNext {s a kid h0 j e} : s.pc a = .gwalk kid h0 j → (chain c s kid)[j]? = some e → e.keyId ≠ kid →
      Step c s (.load a (idx c.size kid) j true) { s with pc := upd s.pc a (.gwalk kid h0 (j + 1)) }
  | gFound {s a kid h0 j e} : s.pc a = .gwalk kid h0 j → (chain c s kid)[j]? = some e → e.keyId = kid →
      Step c s (.load a (idx c.size kid) j true) { s with pc := upd s.pc a (.gread kid h0 j) }
  | gEnd {s a kid h0 j} : s.pc a = .gwalk kid h0 j → (chain c s kid)[j]? = none →
      Step c s (.load a (idx c.size kid) j false) { s with pc := upd s.pc a (.gret kid h0 0 0) }
  | readVal {s a kid h0 j e} : s.pc a = .gread kid h0 j → (chain c s kid)[j]? = some e →
      Step c s (.readVal a) { s with pc := upd s.pc a (.gret kid h0 e.val (s.hist kid).length) }
  | endGet {s a kid h0 r hr} : s.pc a = .gret kid h0 r hr →
      Step c s (.endGet a r) { s with pc := upd s.pc a .idle }
  | free {s} : (∀ a, s.pc a = .idle) → s.live = true →
      Step c s .free { s with live := false }

/-! ### executable version (the driver validates observed traces with it)

`exec` is `Step` made deterministic by the event's parameters ("every actor is idle" is decided
over `known`: every actor outside it never started anything), plus ONE extra guard: the
publishing store must hit the tail link (`j = length`).  The model itself never violates that
guard (`Proofs.KTableConc.pub_at_tail`), so `exec` accepts exactly the runs of `Step`; an
observed trace that stores a new element into a non-tail link is rejected. -/

def exec (c : Cfg) (s : St) : Ev → Option St
  | .startSet a k v true =>
    if s.pc a = .idle ∧ s.live = true ∧ s.priv = none ∧ k.dtor = c.kd k.id then
      some { s with known := addKnown s.known a, pc := upd s.pc a (.walk k v true 0) } else none
  | .startSet a k v false =>
    if s.known.all (fun a' => s.pc a' = .idle) ∧ s.live = true ∧ s.priv = none ∧ k.dtor = c.kd k.id then
      some { s with priv := some a, known := addKnown s.known a, pc := upd s.pc a (.walk k v false 0) } else none
  | .load a b j nn =>
    match s.pc a with
    | .walk k v sf j' =>
      if b = idx c.size k.id ∧ j = j' then
        match (chain c s k.id)[j]?, nn with
        | some e, true =>
          if e.keyId = k.id then some { s with pc := upd s.pc a (.found k v j) }
          else some { s with pc := upd s.pc a (.walk k v sf (j + 1)) }
        | none, false =>
          if sf then some { s with pc := upd s.pc a (.acq k v j) }
          else some { s with pc := upd s.pc a (.lwalk k v false j) }
        | _, _ => none
      else none
    | .lwalk k v sf j' =>
      if b = idx c.size k.id ∧ j = j' then
        match (chain c s k.id)[j]?, nn with
        | some e, true =>
          if e.keyId = k.id then
            (if sf then some { s with pc := upd s.pc a (.lfound k v j) }
             else some { s with pc := upd s.pc a (.found k v j) })
          else some { s with pc := upd s.pc a (.lwalk k v sf (j + 1)) }
        | none, false =>
          match allocElem c.g s.tbl true with
          | some (tb, blk) => some { s with tbl := tb, pc := upd s.pc a (.pub k v sf j blk) }
          | none => none
        | _, _ => none
      else none
    | .gwalk kid h0 j' =>
      if b = idx c.size kid ∧ j = j' then
        match (chain c s kid)[j]?, nn with
        | some e, true =>
          if e.keyId = kid then some { s with pc := upd s.pc a (.gread kid h0 j) }
          else some { s with pc := upd s.pc a (.gwalk kid h0 (j + 1)) }
        | none, false => some { s with pc := upd s.pc a (.gret kid h0 0 0) }
        | _, _ => none
      else none
    | _ => none
  | .storeVal a =>
    match s.pc a with
    | .found k v j =>
      match (chain c s k.id)[j]? with
      | some e =>
        some { s with tbl := setChain c s k.id ((chain c s k.id).set j { e with val := v }),
                      hist := upd s.hist k.id (s.hist k.id ++ [v]), pc := upd s.pc a (.setDone true) }
      | none => none
    | _ => none
  | .acquire a =>
    match s.pc a, s.lock with
    | .acq k v j, none => some { s with lock := some a, pc := upd s.pc a (.lwalk k v true j) }
    | _, _ => none
  | .release a =>
    match s.pc a with
    | .lfound k v j => some { s with lock := none, pc := upd s.pc a (.found k v j) }
    | .failRel => some { s with lock := none, pc := upd s.pc a (.setDone false) }
    | .unlock => some { s with lock := none, pc := upd s.pc a (.setDone true) }
    | _ => none
  | .allocFail a =>
    match s.pc a with
    | .lwalk k v sf j =>
      match (chain c s k.id)[j]?, allocElem c.g s.tbl false with
      | none, none =>
        if sf then some { s with pc := upd s.pc a .failRel }
        else some { s with pc := upd s.pc a (.setDone false) }
      | _, _ => none
    | _ => none
  | .storeLink a b j =>
    match s.pc a with
    | .pub k v sf j' blk =>
      if b = idx c.size k.id ∧ j = j' ∧ j = (chain c s k.id).length then
        some { s with tbl := setChain c s k.id ((chain c s k.id).take j ++ [mkElem k v blk]),
                      hist := upd s.hist k.id (s.hist k.id ++ [v]),
                      pc := upd s.pc a (if sf then .unlock else .setDone true) }
      else none
    | _ => none
  | .endSet a ok =>
    if s.pc a = .setDone ok then
      some { s with priv := if s.priv = some a then none else s.priv, pc := upd s.pc a .idle }
    else none
  | .startGet a kid =>
    if s.pc a = .idle ∧ s.live = true ∧ s.priv = none then
      some { s with known := addKnown s.known a, pc := upd s.pc a (.gwalk kid (s.hist kid).length 0) } else none
  | .readVal a =>
    match s.pc a with
    | .gread kid h0 j =>
      match (chain c s kid)[j]? with
      | some e => some { s with pc := upd s.pc a (.gret kid h0 e.val (s.hist kid).length) }
      | none => none
    | _ => none
  | .endGet a r =>
    match s.pc a with
    | .gret kid h0 r' hr => if r = r' then some { s with pc := upd s.pc a .idle } else none
    | _ => none
  | .free =>
    if s.known.all (fun a' => s.pc a' = .idle) ∧ s.live = true then some { s with live := false } else none

/-- the interleaving machine over the actor-local events (`Core.LTS.Machine`) -/
def machine (c : Cfg) : Machine St Ev := { init := init c, step := exec c }

end ArgoVerif.Model.KTableConc
