import ArgoVerif.Core.LTS
import ArgoVerif.Gen.Consts
/-
Model.MemPoolConc — the GLOBAL memory pool (src/mem/mem_pool.c, src/include/abti_mem_pool.h) used
by several callers at the same time, and its tear-down.  Interleaving LTS, one transition per
atomic step of the C code.  (Model.MemPool is the sequential, pointer-level model of the same
code: there every alloc/free with the take/return calls inside is one step.)

Actors.  Actor `a` owns the local pool `loc a` (an execution stream, or an external thread under
`mem_pool_*_lock`: exclusive use of a local pool is Model.MemOwner).  A call of
`ABTI_mem_pool_init_local_pool / alloc / free / destroy_local_pool` by `a` starts with a `call…`
event, performs the shared-memory steps below interleaved with everybody else's, and ends with a
`ret…` event.  Statements that touch only the caller's local pool or memory the caller owns
exclusively (a popped bucket, a popped or fresh page, the headers being linked) are folded into the
adjacent transition of the same actor.

`ABTI_mem_pool_take_bucket`:
    pop bucket_lifo                                   -- popBucket a (some b): fast path, returns b
                                                      -- popBucket a none: "allocate headers by myself"
    while (1) {
      pop mem_page_lifo                               -- popPage a (some p) / popPage a none
      else ABTU_alloc_largepage                       -- allocPage a true / allocPage a false
           on failure: num_headers != 0 → mem_pool_return_partial_bucket(p_head); return error
      num_provided = min(mem_extra_size / header_size, per_bucket - num_headers);
      ABTI_ASSERT(num_provided != 0); p_mem_extra += …; mem_extra_size -= …;
      mem_extra_size >= header_size ? push mem_page_lifo     -- pushPage a p
                                    : CAS-push p_mem_page_empty  -- pushEmpty a p
      link the new headers upwards in front of p_head; num_headers += num_provided;
      if (num_headers == per_bucket) return p_head;
    }
`ABTI_mem_pool_return_bucket`:  push bucket_lifo      -- pushBucket a (first header)
`mem_pool_return_partial_bucket(b)`:
    spinlock_acquire(partial_bucket_lock)             -- lockPart a   (the merge is computed here: until the
                                                      --   release nobody else reads or writes partial_bucket)
    partial_bucket == NULL: partial_bucket = b
    |partial| + |b| < per_bucket: partial ++ b
    else: first (per_bucket - |b|) headers of partial ++ b is a full bucket:
          ABTI_mem_pool_return_bucket(it)             -- pushBucket a …  (under the lock)
          partial_bucket = the rest (NULL if none)
    spinlock_release                                  -- unlockPart a
`ABTI_mem_pool_destroy_local_pool`: return_bucket(buckets[i]) for i < bucket_index (one pushBucket
    each), then the current bucket: full → return_bucket, else return_partial_bucket.
`ABTI_mem_pool_free` when every local bucket is full: return_bucket(buckets[0]), shift.
`ABTI_mem_pool_destroy_global_pool` ("All local pools must be released in advance"):
    while (pop_unsafe(mem_page_lifo)) ABTU_free_largepage(page)   -- relLifo p … , lifoEmpty
    for (p = p_mem_page_empty; p; p = p->p_next_empty_page) ABTU_free_largepage(p)  -- relEmpty p …
                                                      -- destroyEnd
  It neither reads `bucket_lifo` nor `partial_bucket`: every header lives inside a page.

Abstraction.
  * a header is `(page, slot)`: page = index in order of allocation (`ABTU_alloc_largepage` returns
    pairwise distinct regions), slot = index of the `header_size` segment inside the page; a fresh
    page provides `slots = (page_size - sizeof(ABTI_mem_pool_page)) / header_size` headers and
    `used p` of them have been carved (`p_mem_extra`, `mem_extra_size`): `mem_extra_size /
    header_size = slots - used`, `mem_extra_size >= header_size ⇔ used < slots`.
  * a bucket is the list of its headers in `p_next` order (first header first); the `p_next` /
    `num_headers` fields themselves are Model.MemPool's business (T2).
  * the two `ABTI_sync_lifo`s are their sequential specification (a `List`, top first), justified by
    `lifo_linearizable` (Model.SyncLifo): each push/pop is one step at its linearization point (the
    successful CAS; for an empty pop the load of NULL).  `p_mem_page_empty` is a push-only
    CAS-retry list: one step at the successful CAS.  During tear-down `emptyPages` is the part of
    that list the second loop has not visited yet.
  * local pool: `full` = `buckets[0 .. bucket_index-1]`, `cur` = `buckets[bucket_index]`.

Ghost state (used to state the property, not in the C code): `out` (blocks handed out), `released`
(ledger of pages given back through `ABTU_free_largepage`), `own` / `pown` (where a header / a page
currently is), `known` (actors that ever called; all others are idle).
-/
namespace ArgoVerif.Model.MemPoolConc
open ArgoVerif

abbrev Actor := Nat
/-- header id: (page index, slot index) -/
abbrev Hdr := Nat × Nat
/-- a chain of headers in `p_next` order -/
abbrev Bucket := List Hdr

structure Params where
  perBucket : Nat     -- num_headers_per_bucket
  slots : Nat         -- headers a fresh page provides
  maxLocal : Nat      -- ABT_MEM_POOL_MAX_LOCAL_BUCKETS
deriving Repr

/-- what the C code assumes about its parameters (`ABTI_ASSERT(num_provided != 0)` on a fresh page) -/
structure Params.OK (P : Params) : Prop where
  perBucket_pos : 0 < P.perBucket
  slots_pos : 0 < P.slots
  maxLocal_pos : 0 < P.maxLocal

/-- the model is written for one bucket taken / returned at a time, as in this tree -/
example : Gen.Consts.memPoolNumTakeBuckets = 1 ∧ Gen.Consts.memPoolNumReturnBuckets = 1 := by decide

structure LPool where
  full : List Bucket    -- buckets[0 .. bucket_index - 1]
  cur : Bucket          -- buckets[bucket_index]
deriving Repr, DecidableEq

/-- who called `take_bucket` -/
inductive Purpose | init | alloc
deriving Repr, DecidableEq

/-- who called `mem_pool_return_partial_bucket` -/
inductive Cont | afterTake (pu : Purpose) | afterDestroy
deriving Repr, DecidableEq

inductive Pc
  | idle
  | take (pu : Purpose)                              -- in take_bucket: about to pop bucket_lifo
  | carving (pu : Purpose) (acc : Bucket)            -- loop head: about to pop mem_page_lifo (`p_head` chain = acc)
  | needPage (pu : Purpose) (acc : Bucket)           -- mem_page_lifo was empty: about to call ABTU_alloc_largepage
  | havePage (pu : Purpose) (acc : Bucket) (p : Nat) -- owns page p: about to carve it and publish it again
  | got (pu : Purpose) (b : Bucket)                  -- take_bucket returns bucket b
  | takeFailed (pu : Purpose)                        -- take_bucket returns ABT_ERR_MEM
  | retPart (k : Cont) (b : Bucket)                  -- in return_partial_bucket(b): about to acquire the lock
  | partPush (k : Cont) (b : Bucket)                 -- lock held: about to push the completed bucket b
  | partUnlock (k : Cont)                            -- lock held: about to release it
  | freeRet (b : Bucket)                             -- free: about to push buckets[0]
  | destroying (f : List Bucket) (c : Bucket)        -- destroy_local: buckets still to be returned
  | doneAlloc (h : Hdr)
  | doneFree
  | doneDestroy
deriving Repr, DecidableEq

/-- headers in flight inside the call of an actor -/
def heldHdrs : Pc → List Hdr
  | .carving _ acc => acc
  | .needPage _ acc => acc
  | .havePage _ acc _ => acc
  | .got _ b => b
  | .retPart _ b => b
  | .partPush _ b => b
  | .freeRet b => b
  | .destroying f c => f.flatten ++ c
  | _ => []

/-- the page an actor has popped / obtained and not yet published again -/
def heldPage : Pc → Option Nat
  | .havePage _ _ p => some p
  | _ => none

/-- inside the critical section of `partial_bucket_lock` -/
def inCS : Pc → Bool
  | .partPush _ _ => true
  | .partUnlock _ => true
  | _ => false

inductive Phase | live | drain | walk | dead
deriving Repr, DecidableEq

/-- ghost: where a header is -/
inductive Place
  | uncarved | lifo | part | loc (a : Actor) | held (a : Actor) | out
deriving Repr, DecidableEq

/-- ghost: where a page is -/
inductive PPlace
  | unalloc | lifo | empty | held (a : Actor) | released
deriving Repr, DecidableEq

inductive Ev
  | callInit (a : Actor)
  | callAlloc (a : Actor)
  | callFree (a : Actor) (h : Hdr)
  | callDestroy (a : Actor)
  | popBucket (a : Actor) (r : Option Hdr)      -- pop of bucket_lifo: first header of the bucket / empty
  | popPage (a : Actor) (r : Option Nat)        -- pop of mem_page_lifo
  | allocPage (a : Actor) (ok : Bool)           -- ABTU_alloc_largepage
  | pushPage (a : Actor) (p : Nat)              -- carve, then push the page on mem_page_lifo
  | pushEmpty (a : Actor) (p : Nat)             -- carve, then push the page on the empty-page list
  | lockPart (a : Actor)
  | unlockPart (a : Actor)
  | pushBucket (a : Actor) (hd : Option Hdr)    -- ABTI_mem_pool_return_bucket
  | retInit (a : Actor) (ok : Bool)
  | retAlloc (a : Actor) (r : Option Hdr)
  | retFree (a : Actor)
  | retDestroy (a : Actor)
  | destroyStart                                -- ABTI_mem_pool_destroy_global_pool is called
  | relLifo (p : Nat)                           -- pop_unsafe(mem_page_lifo) = p; ABTU_free_largepage(p)
  | lifoEmpty                                   -- pop_unsafe(mem_page_lifo) = NULL
  | relEmpty (p : Nat)                          -- next page of the empty-page list; ABTU_free_largepage(p)
  | destroyEnd                                  -- end of the list: destroy_global_pool returns
deriving Repr, DecidableEq

structure St where
  npages : Nat                -- pages obtained from ABTU_alloc_largepage so far
  used : Nat → Nat            -- carved slots of a page
  bucketLifo : List Bucket    -- bucket_lifo, top first
  pageLifo : List Nat         -- mem_page_lifo, top first
  emptyPages : List Nat       -- p_mem_page_empty list, newest first
  part : Bucket               -- partial_bucket ([] = NULL)
  partLock : Option Actor     -- partial_bucket_lock
  loc : Actor → Option LPool
  pc : Actor → Pc
  phase : Phase
  out : List Hdr              -- ghost
  released : List Nat         -- ghost
  known : List Actor          -- ghost
  own : Hdr → Place           -- ghost
  pown : Nat → PPlace         -- ghost

def init : St :=
  { npages := 0, used := fun _ => 0, bucketLifo := [], pageLifo := [], emptyPages := [], part := [],
    partLock := none, loc := fun _ => none, pc := fun _ => .idle, phase := .live, out := [], released := [],
    known := [], own := fun _ => .uncarved, pown := fun _ => .unalloc }

def addKnown (l : List Actor) (a : Actor) : List Actor := if a ∈ l then l else a :: l

/-- ghost relabelling of a list of headers -/
def setOwn (own : Hdr → Place) (B : List Hdr) (w : Place) : Hdr → Place :=
  fun x => if x ∈ B then w else own x

/-- the `np` headers carved from page `p` starting at slot `u`, in chain order: the loop links
`p_cur->p_next = p_prev` upwards, so the highest header comes first -/
def carved (p u : Nat) : Nat → Bucket
  | 0 => []
  | np + 1 => (p, u + np) :: carved p u np

/-- `num_provided` -/
def numProvided (P : Params) (s : St) (p : Nat) (acc : Bucket) : Nat :=
  min (P.slots - s.used p) (P.perBucket - acc.length)

/-- where `take_bucket` continues after a page has been carved -/
def afterCarve (P : Params) (pu : Purpose) (acc : Bucket) : Pc :=
  if acc.length = P.perBucket then .got pu acc else .carving pu acc

/-- `destroy_local_pool` after the full buckets below `bucket_index` are gone: the current bucket goes
to `return_bucket` if it is full, else to `return_partial_bucket` -/
def dnext (P : Params) (f : List Bucket) (c : Bucket) : Pc :=
  if f = [] ∧ c.length ≠ P.perBucket then .retPart .afterDestroy c else .destroying f c

def contPc : Cont → Pc
  | .afterTake pu => .takeFailed pu
  | .afterDestroy => .doneDestroy

inductive Step (P : Params) : St → Ev → St → Prop where
  /- ---- init_local_pool ---- -/
  | callInit {s a} : s.phase = .live → s.pc a = .idle → s.loc a = none →
      Step P s (.callInit a) { s with known := addKnown s.known a, pc := upd s.pc a (.take .init) }
  | retInitOk {s a b} : s.pc a = .got .init b → s.loc a = none →
      Step P s (.retInit a true)
        { s with loc := upd s.loc a (some ⟨[], b⟩), own := setOwn s.own b (.loc a), pc := upd s.pc a .idle }
  | retInitFail {s a} : s.pc a = .takeFailed .init →
      Step P s (.retInit a false) { s with pc := upd s.pc a .idle }
  /- ---- alloc ---- -/
  /-- more than one header in the current bucket -/
  | callAllocPop {s a f h h2 c} : s.phase = .live → s.pc a = .idle → s.loc a = some ⟨f, h :: h2 :: c⟩ →
      Step P s (.callAlloc a)
        { s with known := addKnown s.known a, loc := upd s.loc a (some ⟨f, h2 :: c⟩), out := h :: s.out,
                 own := setOwn s.own [h] .out, pc := upd s.pc a (.doneAlloc h) }
  /-- last header of the current bucket, `bucket_index > 0` -/
  | callAllocPrev {s a f b h} : s.phase = .live → s.pc a = .idle → s.loc a = some ⟨f ++ [b], [h]⟩ →
      Step P s (.callAlloc a)
        { s with known := addKnown s.known a, loc := upd s.loc a (some ⟨f, b⟩), out := h :: s.out,
                 own := setOwn s.own [h] .out, pc := upd s.pc a (.doneAlloc h) }
  /-- last header of the pool: take a bucket from the global pool first -/
  | callAllocTake {s a h} : s.phase = .live → s.pc a = .idle → s.loc a = some ⟨[], [h]⟩ →
      Step P s (.callAlloc a) { s with known := addKnown s.known a, pc := upd s.pc a (.take .alloc) }
  | retAllocTake {s a b h} : s.pc a = .got .alloc b → s.loc a = some ⟨[], [h]⟩ →
      Step P s (.retAlloc a (some h))
        { s with loc := upd s.loc a (some ⟨[], b⟩), out := h :: s.out,
                 own := setOwn (setOwn s.own b (.loc a)) [h] .out, pc := upd s.pc a .idle }
  | retAllocFail {s a} : s.pc a = .takeFailed .alloc →
      Step P s (.retAlloc a none) { s with pc := upd s.pc a .idle }
  | retAllocDone {s a h} : s.pc a = .doneAlloc h →
      Step P s (.retAlloc a (some h)) { s with pc := upd s.pc a .idle }
  /- ---- take_bucket ---- -/
  | popBucketSome {s a pu b rest} : s.pc a = .take pu → s.bucketLifo = b :: rest →
      Step P s (.popBucket a b.head?)
        { s with bucketLifo := rest, own := setOwn s.own b (.held a), pc := upd s.pc a (.got pu b) }
  | popBucketNone {s a pu} : s.pc a = .take pu → s.bucketLifo = [] →
      Step P s (.popBucket a none) { s with pc := upd s.pc a (.carving pu []) }
  | popPageSome {s a pu acc p rest} : s.pc a = .carving pu acc → s.pageLifo = p :: rest →
      Step P s (.popPage a (some p))
        { s with pageLifo := rest, pown := upd s.pown p (.held a), pc := upd s.pc a (.havePage pu acc p) }
  | popPageNone {s a pu acc} : s.pc a = .carving pu acc → s.pageLifo = [] →
      Step P s (.popPage a none) { s with pc := upd s.pc a (.needPage pu acc) }
  | allocOk {s a pu acc} : s.pc a = .needPage pu acc →
      Step P s (.allocPage a true)
        { s with npages := s.npages + 1, used := upd s.used s.npages 0, pown := upd s.pown s.npages (.held a),
                 pc := upd s.pc a (.havePage pu acc s.npages) }
  | allocFailEmpty {s a pu} : s.pc a = .needPage pu [] →
      Step P s (.allocPage a false) { s with pc := upd s.pc a (.takeFailed pu) }
  | allocFailPart {s a pu x acc} : s.pc a = .needPage pu (x :: acc) →
      Step P s (.allocPage a false) { s with pc := upd s.pc a (.retPart (.afterTake pu) (x :: acc)) }
  /-- the page still has room: back on `mem_page_lifo` -/
  | carveLifo {s a pu acc p} : s.pc a = .havePage pu acc p → numProvided P s p acc ≠ 0 →
      s.used p + numProvided P s p acc < P.slots →
      Step P s (.pushPage a p)
        { s with used := upd s.used p (s.used p + numProvided P s p acc), pageLifo := p :: s.pageLifo,
                 pown := upd s.pown p .lifo,
                 own := setOwn s.own (carved p (s.used p) (numProvided P s p acc)) (.held a),
                 pc := upd s.pc a (afterCarve P pu (carved p (s.used p) (numProvided P s p acc) ++ acc)) }
  /-- the page is used up: on the list of empty pages -/
  | carveEmpty {s a pu acc p} : s.pc a = .havePage pu acc p → numProvided P s p acc ≠ 0 →
      ¬ s.used p + numProvided P s p acc < P.slots →
      Step P s (.pushEmpty a p)
        { s with used := upd s.used p (s.used p + numProvided P s p acc), emptyPages := p :: s.emptyPages,
                 pown := upd s.pown p .empty,
                 own := setOwn s.own (carved p (s.used p) (numProvided P s p acc)) (.held a),
                 pc := upd s.pc a (afterCarve P pu (carved p (s.used p) (numProvided P s p acc) ++ acc)) }
  /- ---- return_partial_bucket ---- -/
  | lockPartEmpty {s a k b} : s.pc a = .retPart k b → s.partLock = none → s.part = [] →
      Step P s (.lockPart a)
        { s with partLock := some a, part := b, own := setOwn s.own b .part, pc := upd s.pc a (.partUnlock k) }
  | lockPartSmall {s a k b} : s.pc a = .retPart k b → s.partLock = none → s.part ≠ [] →
      s.part.length + b.length < P.perBucket →
      Step P s (.lockPart a)
        { s with partLock := some a, part := s.part ++ b, own := setOwn s.own b .part,
                 pc := upd s.pc a (.partUnlock k) }
  | lockPartFull {s a k b} : s.pc a = .retPart k b → s.partLock = none → s.part ≠ [] →
      ¬ s.part.length + b.length < P.perBucket →
      Step P s (.lockPart a)
        { s with partLock := some a, part := s.part.drop (P.perBucket - b.length),
                 own := setOwn s.own (s.part.take (P.perBucket - b.length)) (.held a),
                 pc := upd s.pc a (.partPush k (s.part.take (P.perBucket - b.length) ++ b)) }
  | pushBucketPart {s a k b} : s.pc a = .partPush k b →
      Step P s (.pushBucket a b.head?)
        { s with bucketLifo := b :: s.bucketLifo, own := setOwn s.own b .lifo, pc := upd s.pc a (.partUnlock k) }
  | unlockPart {s a k} : s.pc a = .partUnlock k →
      Step P s (.unlockPart a) { s with partLock := none, pc := upd s.pc a (contPc k) }
  /- ---- free ---- -/
  | callFreePush {s a h f c} : s.phase = .live → s.pc a = .idle → h ∈ s.out → s.loc a = some ⟨f, c⟩ →
      c.length ≠ P.perBucket →
      Step P s (.callFree a h)
        { s with known := addKnown s.known a, loc := upd s.loc a (some ⟨f, h :: c⟩), out := s.out.erase h,
                 own := setOwn s.own [h] (.loc a), pc := upd s.pc a .doneFree }
  | callFreeNew {s a h f c} : s.phase = .live → s.pc a = .idle → h ∈ s.out → s.loc a = some ⟨f, c⟩ →
      c.length = P.perBucket → f.length + 1 ≠ P.maxLocal →
      Step P s (.callFree a h)
        { s with known := addKnown s.known a, loc := upd s.loc a (some ⟨f ++ [c], [h]⟩), out := s.out.erase h,
                 own := setOwn s.own [h] (.loc a), pc := upd s.pc a .doneFree }
  /-- every local bucket is full: `buckets[0]` goes back to the global pool, the others shift down -/
  | callFreeRet {s a h f c b0 rest} : s.phase = .live → s.pc a = .idle → h ∈ s.out → s.loc a = some ⟨f, c⟩ →
      c.length = P.perBucket → f.length + 1 = P.maxLocal → f ++ [c] = b0 :: rest →
      Step P s (.callFree a h)
        { s with known := addKnown s.known a, loc := upd s.loc a (some ⟨rest, [h]⟩), out := s.out.erase h,
                 own := setOwn (setOwn s.own b0 (.held a)) [h] (.loc a), pc := upd s.pc a (.freeRet b0) }
  | pushBucketFree {s a b} : s.pc a = .freeRet b →
      Step P s (.pushBucket a b.head?)
        { s with bucketLifo := b :: s.bucketLifo, own := setOwn s.own b .lifo, pc := upd s.pc a .doneFree }
  | retFree {s a} : s.pc a = .doneFree →
      Step P s (.retFree a) { s with pc := upd s.pc a .idle }
  /- ---- destroy_local_pool ---- -/
  | callDestroy {s a f c} : s.phase = .live → s.pc a = .idle → s.loc a = some ⟨f, c⟩ →
      Step P s (.callDestroy a)
        { s with known := addKnown s.known a, loc := upd s.loc a none,
                 own := setOwn s.own (f.flatten ++ c) (.held a), pc := upd s.pc a (dnext P f c) }
  | pushBucketDestroy {s a b f c} : s.pc a = .destroying (b :: f) c →
      Step P s (.pushBucket a b.head?)
        { s with bucketLifo := b :: s.bucketLifo, own := setOwn s.own b .lifo, pc := upd s.pc a (dnext P f c) }
  | pushBucketLast {s a c} : s.pc a = .destroying [] c →
      Step P s (.pushBucket a c.head?)
        { s with bucketLifo := c :: s.bucketLifo, own := setOwn s.own c .lifo, pc := upd s.pc a .doneDestroy }
  | retDestroy {s a} : s.pc a = .doneDestroy →
      Step P s (.retDestroy a) { s with pc := upd s.pc a .idle }
  /- ---- destroy_global_pool ---- -/
  | destroyStart {s} : s.phase = .live → (∀ a, s.pc a = .idle) → (∀ a, s.loc a = none) →
      Step P s .destroyStart { s with phase := .drain }
  | relLifo {s p rest} : s.phase = .drain → s.pageLifo = p :: rest →
      Step P s (.relLifo p)
        { s with pageLifo := rest, released := p :: s.released, pown := upd s.pown p .released }
  | lifoEmpty {s} : s.phase = .drain → s.pageLifo = [] →
      Step P s .lifoEmpty { s with phase := .walk }
  | relEmpty {s p rest} : s.phase = .walk → s.emptyPages = p :: rest →
      Step P s (.relEmpty p)
        { s with emptyPages := rest, released := p :: s.released, pown := upd s.pown p .released }
  | destroyEnd {s} : s.phase = .walk → s.emptyPages = [] →
      Step P s .destroyEnd { s with phase := .dead }

/-! ### executable version (the driver validates projected traces with it)

`exec` is `Step` made deterministic by the event's parameters; "every actor is idle / has no local
pool" is decided over `known` (every actor outside it never called anything). -/

def pushB (s : St) (a : Actor) (b : Bucket) (pc' : Pc) : St :=
  { s with bucketLifo := b :: s.bucketLifo, own := setOwn s.own b .lifo, pc := upd s.pc a pc' }

def exec (P : Params) (s : St) : Ev → Option St
  | .callInit a =>
    if s.phase = .live ∧ s.pc a = .idle ∧ s.loc a = none then
      some { s with known := addKnown s.known a, pc := upd s.pc a (.take .init) } else none
  | .retInit a ok =>
    match s.pc a, ok with
    | .got .init b, true =>
      if s.loc a = none then
        some { s with loc := upd s.loc a (some ⟨[], b⟩), own := setOwn s.own b (.loc a), pc := upd s.pc a .idle }
      else none
    | .takeFailed .init, false => some { s with pc := upd s.pc a .idle }
    | _, _ => none
  | .callAlloc a =>
    if s.phase = .live ∧ s.pc a = .idle then
      match s.loc a with
      | some ⟨f, h :: h2 :: c⟩ =>
        some { s with known := addKnown s.known a, loc := upd s.loc a (some ⟨f, h2 :: c⟩), out := h :: s.out,
                      own := setOwn s.own [h] .out, pc := upd s.pc a (.doneAlloc h) }
      | some ⟨f, [h]⟩ =>
        match f.getLast? with
        | some b =>
          some { s with known := addKnown s.known a, loc := upd s.loc a (some ⟨f.dropLast, b⟩), out := h :: s.out,
                        own := setOwn s.own [h] .out, pc := upd s.pc a (.doneAlloc h) }
        | none => some { s with known := addKnown s.known a, pc := upd s.pc a (.take .alloc) }
      | _ => none
    else none
  | .retAlloc a r =>
    match s.pc a with
    | .got .alloc b =>
      match s.loc a with
      | some ⟨[], [h]⟩ =>
        if r = some h then
          some { s with loc := upd s.loc a (some ⟨[], b⟩), out := h :: s.out,
                        own := setOwn (setOwn s.own b (.loc a)) [h] .out, pc := upd s.pc a .idle }
        else none
      | _ => none
    | .takeFailed .alloc => if r = none then some { s with pc := upd s.pc a .idle } else none
    | .doneAlloc h => if r = some h then some { s with pc := upd s.pc a .idle } else none
    | _ => none
  | .popBucket a r =>
    match s.pc a with
    | .take pu =>
      match s.bucketLifo with
      | b :: rest =>
        if r = b.head? then
          some { s with bucketLifo := rest, own := setOwn s.own b (.held a), pc := upd s.pc a (.got pu b) }
        else none
      | [] => if r = none then some { s with pc := upd s.pc a (.carving pu []) } else none
    | _ => none
  | .popPage a r =>
    match s.pc a with
    | .carving pu acc =>
      match s.pageLifo with
      | p :: rest =>
        if r = some p then
          some { s with pageLifo := rest, pown := upd s.pown p (.held a), pc := upd s.pc a (.havePage pu acc p) }
        else none
      | [] => if r = none then some { s with pc := upd s.pc a (.needPage pu acc) } else none
    | _ => none
  | .allocPage a ok =>
    match s.pc a with
    | .needPage pu acc =>
      if ok then
        some { s with npages := s.npages + 1, used := upd s.used s.npages 0, pown := upd s.pown s.npages (.held a),
                      pc := upd s.pc a (.havePage pu acc s.npages) }
      else
        match acc with
        | [] => some { s with pc := upd s.pc a (.takeFailed pu) }
        | x :: acc' => some { s with pc := upd s.pc a (.retPart (.afterTake pu) (x :: acc')) }
    | _ => none
  | .pushPage a p =>
    match s.pc a with
    | .havePage pu acc p' =>
      if p = p' ∧ numProvided P s p acc ≠ 0 ∧ s.used p + numProvided P s p acc < P.slots then
        some { s with used := upd s.used p (s.used p + numProvided P s p acc), pageLifo := p :: s.pageLifo,
                      pown := upd s.pown p .lifo,
                      own := setOwn s.own (carved p (s.used p) (numProvided P s p acc)) (.held a),
                      pc := upd s.pc a (afterCarve P pu (carved p (s.used p) (numProvided P s p acc) ++ acc)) }
      else none
    | _ => none
  | .pushEmpty a p =>
    match s.pc a with
    | .havePage pu acc p' =>
      if p = p' ∧ numProvided P s p acc ≠ 0 ∧ ¬ s.used p + numProvided P s p acc < P.slots then
        some { s with used := upd s.used p (s.used p + numProvided P s p acc), emptyPages := p :: s.emptyPages,
                      pown := upd s.pown p .empty,
                      own := setOwn s.own (carved p (s.used p) (numProvided P s p acc)) (.held a),
                      pc := upd s.pc a (afterCarve P pu (carved p (s.used p) (numProvided P s p acc) ++ acc)) }
      else none
    | _ => none
  | .lockPart a =>
    match s.pc a with
    | .retPart k b =>
      if s.partLock = none then
        if s.part = [] then
          some { s with partLock := some a, part := b, own := setOwn s.own b .part, pc := upd s.pc a (.partUnlock k) }
        else if s.part.length + b.length < P.perBucket then
          some { s with partLock := some a, part := s.part ++ b, own := setOwn s.own b .part,
                        pc := upd s.pc a (.partUnlock k) }
        else
          some { s with partLock := some a, part := s.part.drop (P.perBucket - b.length),
                        own := setOwn s.own (s.part.take (P.perBucket - b.length)) (.held a),
                        pc := upd s.pc a (.partPush k (s.part.take (P.perBucket - b.length) ++ b)) }
      else none
    | _ => none
  | .unlockPart a =>
    match s.pc a with
    | .partUnlock k => some { s with partLock := none, pc := upd s.pc a (contPc k) }
    | _ => none
  | .pushBucket a hd =>
    match s.pc a with
    | .partPush k b => if hd = b.head? then some (pushB s a b (.partUnlock k)) else none
    | .freeRet b => if hd = b.head? then some (pushB s a b .doneFree) else none
    | .destroying (b :: f) c => if hd = b.head? then some (pushB s a b (dnext P f c)) else none
    | .destroying [] c => if hd = c.head? then some (pushB s a c .doneDestroy) else none
    | _ => none
  | .callFree a h =>
    if s.phase = .live ∧ s.pc a = .idle ∧ h ∈ s.out then
      match s.loc a with
      | some ⟨f, c⟩ =>
        if c.length ≠ P.perBucket then
          some { s with known := addKnown s.known a, loc := upd s.loc a (some ⟨f, h :: c⟩), out := s.out.erase h,
                        own := setOwn s.own [h] (.loc a), pc := upd s.pc a .doneFree }
        else if f.length + 1 ≠ P.maxLocal then
          some { s with known := addKnown s.known a, loc := upd s.loc a (some ⟨f ++ [c], [h]⟩), out := s.out.erase h,
                        own := setOwn s.own [h] (.loc a), pc := upd s.pc a .doneFree }
        else
          match f ++ [c] with
          | b0 :: rest =>
            some { s with known := addKnown s.known a, loc := upd s.loc a (some ⟨rest, [h]⟩), out := s.out.erase h,
                          own := setOwn (setOwn s.own b0 (.held a)) [h] (.loc a), pc := upd s.pc a (.freeRet b0) }
          | [] => none
      | none => none
    else none
  | .retFree a =>
    match s.pc a with
    | .doneFree => some { s with pc := upd s.pc a .idle }
    | _ => none
  | .callDestroy a =>
    if s.phase = .live ∧ s.pc a = .idle then
      match s.loc a with
      | some ⟨f, c⟩ =>
        some { s with known := addKnown s.known a, loc := upd s.loc a none,
                      own := setOwn s.own (f.flatten ++ c) (.held a), pc := upd s.pc a (dnext P f c) }
      | none => none
    else none
  | .retDestroy a =>
    match s.pc a with
    | .doneDestroy => some { s with pc := upd s.pc a .idle }
    | _ => none
  | .destroyStart =>
    if s.phase = .live ∧ s.known.all (fun a => s.pc a = .idle) ∧ s.known.all (fun a => s.loc a = none) then
      some { s with phase := .drain } else none
  | .relLifo p =>
    match s.phase, s.pageLifo with
    | .drain, p' :: rest =>
      if p = p' then some { s with pageLifo := rest, released := p :: s.released, pown := upd s.pown p .released }
      else none
    | _, _ => none
  | .lifoEmpty =>
    match s.phase, s.pageLifo with
    | .drain, [] => some { s with phase := .walk }
    | _, _ => none
  | .relEmpty p =>
    match s.phase, s.emptyPages with
    | .walk, p' :: rest =>
      if p = p' then some { s with emptyPages := rest, released := p :: s.released, pown := upd s.pown p .released }
      else none
    | _, _ => none
  | .destroyEnd =>
    match s.phase, s.emptyPages with
    | .walk, [] => some { s with phase := .dead }
    | _, _ => none

/-- the interleaving machine over the observable events (`Core.LTS.Machine`) -/
def machine (P : Params) : Machine St Ev := { init := init, step := exec P }

end ArgoVerif.Model.MemPoolConc
