import ArgoVerif.Core.LTS
/-
Model.Rank — the global list of execution streams and their ranks
(src/stream.c: `xstream_set_new_rank`, `xstream_change_rank`, `xstream_return_rank`,
`xstream_add_xstream_list`, `xstream_remove_xstream_list`; the API entry points
`ABT_xstream_create[_with_rank]`, `ABT_xstream_set_rank`, `ABT_xstream_join`,
`ABT_xstream_revive`, `ABT_xstream_free`, `ABT_xstream_get_rank`, `ABT_xstream_get_num`).

Pointer level: a heap of stream descriptors addressed by `Ptr` (0 = NULL) with the
fields `rank`, `p_prev`, `p_next`; the globals `p_xstream_head` and `num_xstreams`.
Every C statement that touches these is one record update, in the C order, so that
stale fields (a removed node keeps its `p_prev`/`p_next`) are stale in the model too.

Each function runs under `xstream_list_lock`, i.e. atomically: concurrent callers are
the interleavings of whole operations, which is what `runOps` quantifies over.  That this
is a faithful account of concurrent callers is not assumed: `Model.RankConc` has the lock
protocol (test_and_set, scan, update, release as separate steps of interleaved actors) and
`Props.C17.Conc.conc_refines_atomic` proves the refinement to `runOps`.

`Option`: `none` = the C code would fail an `ABTI_ASSERT` or walk more than
`num_xstreams + 1` nodes (a cycle / a list longer than its counter), or an API
precondition whose violation is undefined behaviour does not hold (a handle that is
neither NULL nor live; `malloc` returning an address that is still in the list).
`Props.C17.rank_never_faults` shows the first two never happen.
-/
namespace ArgoVerif.Model.Rank

abbrev Ptr := Nat

/-- the primary execution stream's descriptor (created by `ABT_init`, type PRIMARY) -/
def primaryId : Ptr := 1

structure St where
  head : Ptr            -- p_global->p_xstream_head
  num : Int             -- p_global->num_xstreams
  rank : Ptr → Int      -- p_xstream->rank
  prev : Ptr → Ptr      -- p_xstream->p_prev
  next : Ptr → Ptr      -- p_xstream->p_next
  term : Ptr → Bool     -- main scheduler ULT terminated (stream joined, not revived)

/-- loop bound: a well-formed list has `num_xstreams` nodes -/
def fuel (s : St) : Nat := s.num.toNat + 1

/-- nodes reached from `x` by `p_next` (what a forward walk of the list visits) -/
def walk (next : Ptr → Ptr) : Nat → Ptr → List Ptr
  | 0, _ => []
  | f + 1, x => if x = 0 then [] else x :: walk next f (next x)

/-- the streams in the global list, in list order -/
def live (s : St) : List Ptr := walk s.next (fuel s) s.head

/-- ranks in list order -/
def ranks (s : St) : List Int := (live s).map s.rank

/-- the `while (p_xstream)` loop of `xstream_add_xstream_list`:
returns `(p_prev_xstream, p_xstream)` at loop exit -/
def addLoop (s : St) (rank : Int) : Nat → Ptr → Ptr → Option (Ptr × Ptr)
  | 0, _, _ => none
  | f + 1, pp, x =>
    if x = 0 then some (pp, x)
    else if s.rank x = rank then none            -- ABTI_ASSERT(p_xstream->rank != rank)
    else if s.rank x > rank then some (pp, x)    -- break
    else addLoop s rank f x (s.next x)

/-- `xstream_add_xstream_list(p_global, p_newxstream)` -/
def addList (s : St) (p : Ptr) : Option St :=
  match addLoop s (s.rank p) (fuel s) s.head s.head with
  | none => none
  | some (pp, x) =>
    if x = 0 then
      if pp ≠ 0 then
        let s1 := { s with next := upd s.next pp p }    -- p_prev_xstream->p_next = p_newxstream
        let s2 := { s1 with prev := upd s1.prev p pp }  -- p_newxstream->p_prev = p_prev_xstream
        some { s2 with next := upd s2.next p 0 }        -- p_newxstream->p_next = NULL
      else if s.head ≠ 0 then none                      -- ABTI_ASSERT(p_xstream_head == NULL)
      else
        let s1 := { s with prev := upd s.prev p 0 }
        let s2 := { s1 with next := upd s1.next p 0 }
        some { s2 with head := p }
    else
      -- inserted before p_xstream = x
      let s2? : Option St :=
        if s.prev x ≠ 0 then
          let s1 := { s with next := upd s.next (s.prev x) p }   -- p_xstream->p_prev->p_next = new
          some { s1 with prev := upd s1.prev p (s1.prev x) }     -- new->p_prev = p_xstream->p_prev
        else if s.head ≠ x then none                             -- ABTI_ASSERT(head == p_xstream)
        else some { s with head := p }                           -- (new->p_prev is NOT written)
      match s2? with
      | none => none
      | some s2 =>
        let s3 := { s2 with prev := upd s2.prev x p }            -- p_xstream->p_prev = new
        some { s3 with next := upd s3.next p x }                 -- new->p_next = p_xstream

/-- `xstream_remove_xstream_list(p_global, p_xstream)`; the node keeps its own fields -/
def removeList (s : St) (p : Ptr) : Option St :=
  let s1? : Option St :=
    if s.prev p = 0 then
      if s.head ≠ p then none                                    -- ABTI_ASSERT(head == p_xstream)
      else some { s with head := s.next p }
    else some { s with next := upd s.next (s.prev p) (s.next p) }
  match s1? with
  | none => none
  | some s1 =>
    if s1.next p ≠ 0 then some { s1 with prev := upd s1.prev (s1.next p) (s1.prev p) }
    else some s1

/-- `rank == -1` branch of `xstream_set_new_rank`: count up from 0 along the list -/
def mexLoop (s : St) : Nat → Int → Ptr → Option Int
  | 0, _, _ => none
  | f + 1, r, x =>
    if x = 0 then some r
    else if s.rank x = r then mexLoop s f (r + 1) (s.next x)
    else some r

/-- "Check if a certain rank is available" loop (set_new_rank and change_rank):
`some true` = a node with this rank was found -/
def findLoop (s : St) (rank : Int) : Nat → Ptr → Option Bool
  | 0, _ => none
  | f + 1, x =>
    if x = 0 then some false
    else if s.rank x = rank then some true
    else if s.rank x > rank then some false
    else findLoop s rank f (s.next x)

/-- tail of `xstream_set_new_rank` once the rank is chosen -/
def grant (s : St) (p : Ptr) (rank : Int) : Option (St × Bool) :=
  let s1 := { s with rank := upd s.rank p rank }                 -- p_newxstream->rank = rank
  match addList s1 p with
  | none => none
  | some s2 => some ({ s2 with num := s2.num + 1 }, true)        -- num_xstreams++

/-- `xstream_set_new_rank(p_global, p_newxstream, rank)`; Bool = ABT_TRUE/ABT_FALSE -/
def setNewRank (s : St) (p : Ptr) (rank : Int) : Option (St × Bool) :=
  if rank = -1 then
    match mexLoop s (fuel s) 0 s.head with
    | none => none
    | some r => grant s p r
  else
    match findLoop s rank (fuel s) s.head with
    | none => none
    | some true => some (s, false)
    | some false => grant s p rank

/-- `xstream_change_rank(p_global, p_xstream, rank)` -/
def changeRank (s : St) (p : Ptr) (rank : Int) : Option (St × Bool) :=
  if s.rank p = rank then some (s, true)
  else
    match findLoop s rank (fuel s) s.head with
    | none => none
    | some true => some (s, false)
    | some false =>
      match removeList s p with
      | none => none
      | some s1 =>
        let s2 := { s1 with rank := upd s1.rank p rank }         -- p_xstream->rank = rank
        match addList s2 p with
        | none => none
        | some s3 => some (s3, true)

/-- `xstream_return_rank(p_global, p_xstream)` -/
def returnRank (s : St) (p : Ptr) : Option St :=
  match removeList s p with
  | none => none
  | some s1 => some { s1 with num := s1.num - 1 }

/-- `xstream_create` as far as the list is concerned: the fresh descriptor gets
`p_prev = p_next = NULL`, then `xstream_set_new_rank`; state RUNNING on success -/
def xstreamCreate (s : St) (p : Ptr) (rank : Int) : Option (St × Bool) :=
  let s1 := { s with prev := upd s.prev p 0 }
  let s2 := { s1 with next := upd s1.next p 0 }
  match setNewRank s2 p rank with
  | none => none
  | some (s3, true) => some ({ s3 with term := upd s3.term p false }, true)
  | some (s3, false) => some (s3, false)

/-! ### API level -/

inductive Op where
  | create (p : Ptr)                       -- ABT_xstream_create; `p` = address malloc returns
  | createWithRank (p : Ptr) (r : Int)     -- ABT_xstream_create_with_rank
  | setRank (p : Ptr) (r : Int)            -- ABT_xstream_set_rank
  | join (p : Ptr)
  | revive (p : Ptr)
  | free (p : Ptr)
  | getRank (p : Ptr)
  | getNum
deriving Repr, DecidableEq

inductive Out where
  | ok                       -- ABT_SUCCESS
  | okRank (r : Int)         -- ABT_SUCCESS and the rank granted / read
  | okNum (n : Int)
  | errXstream               -- ABT_ERR_INV_XSTREAM
  | errRank                  -- ABT_ERR_INV_XSTREAM_RANK
deriving Repr, DecidableEq

/-- preconditions whose violation is undefined behaviour (not an error return):
`malloc` returns an address not in use; a handle is NULL or a live stream -/
def Pre (s : St) : Op → Bool
  | .create p => p ≠ 0 && !(live s).contains p
  | .createWithRank p _ => p ≠ 0 && !(live s).contains p
  | .setRank p _ => p = 0 || (live s).contains p
  | .join p => p = 0 || (live s).contains p
  | .revive p => p = 0 || (live s).contains p
  | .free p => p = 0 || (live s).contains p
  | .getRank p => p = 0 || (live s).contains p
  | .getNum => true

/-- one API call (the caller is the primary ULT or an external thread: never running
on the target stream unless the target is the primary stream) -/
def apiStep (s : St) : Op → Option (St × Out)
  | .create p =>
    match xstreamCreate s p (-1) with
    | none => none
    | some (s', true) => some (s', .okRank (s'.rank p))
    | some (s', false) => some (s', .errRank)
  | .createWithRank p r =>
    if r < 0 then some (s, .errRank)                 -- ABTI_CHECK_TRUE(rank >= 0, ...)
    else match xstreamCreate s p r with
      | none => none
      | some (s', true) => some (s', .okRank (s'.rank p))
      | some (s', false) => some (s', .errRank)
  | .setRank p r =>
    if p = 0 then some (s, .errXstream)              -- ABTI_CHECK_NULL_XSTREAM_PTR
    else if p = primaryId then some (s, .errXstream) -- type != PRIMARY
    else if r < 0 then some (s, .errRank)
    else match changeRank s p r with
      | none => none
      | some (s', true) => some (s', .ok)
      | some (s', false) => some (s', .errRank)
  | .join p =>
    if p = 0 then some (s, .errXstream)
    else if p = primaryId then some (s, .errXstream)
    else some ({ s with term := upd s.term p true }, .ok)
  | .revive p =>
    if p = 0 then some (s, .errXstream)
    else if !s.term p then some (s, .errXstream)     -- main scheduler ULT not TERMINATED
    else some ({ s with term := upd s.term p false }, .ok)
  | .free p =>
    if p = 0 then some (s, .errXstream)
    else if p = primaryId then some (s, .errXstream)
    else match returnRank { s with term := upd s.term p true } p with   -- xstream_join; ABTI_xstream_free
      | none => none
      | some s' => some (s', .ok)
  | .getRank p =>
    if p = 0 then some (s, .errXstream) else some (s, .okRank (s.rank p))
  | .getNum => some (s, .okNum s.num)

def step (s : St) (op : Op) : Option (St × Out) :=
  if Pre s op then apiStep s op else none

def runOps (s : St) : List Op → Option (St × List Out)
  | [] => some (s, [])
  | op :: ops =>
    match step s op with
    | none => none
    | some (s1, o) =>
      match runOps s1 ops with
      | none => none
      | some (s2, os) => some (s2, o :: os)

/-- before `ABT_init`: empty list -/
def empty : St :=
  { head := 0, num := 0, rank := fun _ => 0, prev := fun _ => 0, next := fun _ => 0, term := fun _ => false }

/-- after `ABT_init`: `ABTI_xstream_create_primary` = `xstream_create(..., rank = -1)` on the
empty list -/
def init : St :=
  match xstreamCreate empty primaryId (-1) with
  | some (s, _) => s
  | none => empty

/-- backward walk: from the last node of the forward walk along `p_prev` -/
def liveBack (s : St) : List Ptr :=
  match (live s).getLast? with
  | none => []
  | some l => walk s.prev (fuel s) l

/-- canonical dump, as harness/api_ranks.c prints it -/
def dump (s : St) : String :=
  " | F:" ++ String.join ((live s).map fun p => s!" {s.rank p}") ++
  " | B:" ++ String.join ((liveBack s).map fun p => s!" {s.rank p}") ++
  s!" | n={s.num}"

end ArgoVerif.Model.Rank
