import ArgoVerif.Core.LTS
/-
Model.KTable — work-unit-local storage (src/include/abti_key.h, src/key.c).

One `ABTI_ktable` per work unit, created lazily by the first set:
`p_thread->p_keytable` goes NULL → LOCKED → table (CAS / release-store).  The
table has `size` bucket heads (`p_elems[key_id & (size-1)]`); every bucket is a
singly linked chain of `ABTI_ktelem {f_destructor, key_id, value, p_next}` that
is only ever extended at its tail (under `p_ktable->lock`); a set on a key that
is already present overwrites `value` in place.  Element storage is carved from
the block that holds the table (`p_extra_mem` / `extra_mem_size`) and, when that
is exhausted, from further blocks pushed on the `p_used_mem` list.
`ABTI_ktable_free` walks bucket 0..size-1, each chain in link order, calls
`f_destructor(value)` when both are non-NULL, then releases every block of
`p_used_mem`.

Representation: a chain is the list of its elements in `p_next` order; blocks
are numbered in allocation order (ghost ids) so that "freed once" can be stated.
`Val = Nat` with `0 = NULL`; destructor identity is a `Nat` with `0 = NULL`.

Part 1 is the sequential semantics (what one caller at a time observes; this
is what the differential driver executes).  Part 2 is an interleaving model of
concurrent `ABTI_ktable_set` calls on one slot at the granularity of the atomic
operations of the C code.
-/
namespace ArgoVerif.Model.KTable

abbrev Val := Nat

/-- `ABTI_key` : `id` from the global counter `g_key_id` (starts at
`ABTI_KEY_ID_END_`; smaller ids are the runtime's predefined keys), and the
destructor (`0` = NULL) -/
structure Key where
  id : Nat
  dtor : Nat
deriving Repr, DecidableEq

/-- `ABTI_ktelem`; `blk` is ghost: the block its storage was carved from -/
structure Elem where
  dtor : Nat
  keyId : Nat
  val : Val
  blk : Nat
deriving Repr, DecidableEq

inductive BlkKind where
  | mempool   -- ABTI_mem_alloc_desc / ABTI_mem_free_desc
  | malloc    -- ABTU_malloc / ABTU_free
deriving Repr, DecidableEq

/-- layout constants (instantiated from `Gen.Consts` by the driver and the tie) -/
structure Geom where
  descSize : Nat   -- ABTI_KTABLE_DESC_SIZE
  hdr : Nat        -- offsetof(ABTI_ktable, p_elems)
  slot : Nat       -- sizeof(ABTD_atomic_ptr)
  align : Nat      -- ABTU_MAX_ALIGNMENT
  elem : Nat       -- sizeof(ABTI_ktelem) rounded up to ABTU_MAX_ALIGNMENT
deriving Repr

structure Table where
  size : Nat
  b : Nat → List Elem
  used : List (Nat × BlkKind)     -- `p_used_mem` list, most recent block first
  extra : Nat                     -- `extra_mem_size`
  extraBlk : Nat                  -- ghost: block `p_extra_mem` points into
  nblk : Nat                      -- ghost: blocks obtained so far (= next block id)
  ledger : List (Nat × BlkKind)   -- ghost: every block obtained from an allocator, oldest first

def roundup (v m : Nat) : Nat := ((v + m - 1) / m) * m

def tableBytes (g : Geom) (size : Nat) : Nat := roundup (g.hdr + g.slot * size) g.align

/-- the table `ABTI_ktable_create` builds when its allocation succeeds -/
def createOk (g : Geom) (size : Nat) : Table :=
  let tb := tableBytes g size
  if tb ≤ g.descSize then
    { size := size, b := fun _ => [], used := [(0, .mempool)], extra := g.descSize - tb,
      extraBlk := 0, nblk := 1, ledger := [(0, .mempool)] }
  else
    { size := size, b := fun _ => [], used := [(0, .malloc)], extra := 0,
      extraBlk := 0, nblk := 1, ledger := [(0, .malloc)] }

/-- `ABTI_ktable_create`; `mem = false`: the allocator fails -/
def create (g : Geom) (size : Nat) (mem : Bool) : Option Table :=
  if mem then some (createOk g size) else none

/-- `ABTI_ktable_alloc_elem` for one element: new table state and the block the
storage comes from; `none` = a needed allocation failed.  The third branch (element
larger than a descriptor) leaves `p_extra_mem`/`extra_mem_size` untouched, as the C code. -/
def allocElem (g : Geom) (t : Table) (mem : Bool) : Option (Table × Nat) :=
  if g.elem ≤ t.extra then
    some ({ t with extra := t.extra - g.elem }, t.extraBlk)
  else if !mem then none
  else if g.elem ≤ g.descSize then
    some ({ t with used := (t.nblk, .mempool) :: t.used, ledger := t.ledger ++ [(t.nblk, .mempool)],
                   nblk := t.nblk + 1, extra := g.descSize - g.elem, extraBlk := t.nblk }, t.nblk)
  else
    some ({ t with used := (t.nblk, .malloc) :: t.used, ledger := t.ledger ++ [(t.nblk, .malloc)],
                   nblk := t.nblk + 1 }, t.nblk)

/-- `ABTI_ktable_get_idx`: `key_id & (size - 1)` -/
def idx (size keyId : Nat) : Nat := keyId &&& (size - 1)

def updB (f : Nat → List Elem) (i : Nat) (c : List Elem) : Nat → List Elem :=
  fun j => if j = i then c else f j

/-- overwrite `value` of the first element with this key id -/
def chainUpd (kid : Nat) (v : Val) : List Elem → List Elem
  | [] => []
  | e :: r => if e.keyId = kid then { e with val := v } :: r else e :: chainUpd kid v r

def chainHas (kid : Nat) (c : List Elem) : Bool := c.any (fun e => e.keyId == kid)

def chainGet (kid : Nat) : List Elem → Val
  | [] => 0
  | e :: r => if e.keyId = kid then e.val else chainGet kid r

/-- `ABTI_ktable_set_impl` as seen by one caller at a time.  Bool = ABT_SUCCESS -/
def setImpl (g : Geom) (t : Table) (k : Key) (v : Val) (mem : Bool) : Table × Bool :=
  let i := idx t.size k.id
  if chainHas k.id (t.b i) then
    ({ t with b := updB t.b i (chainUpd k.id v (t.b i)) }, true)
  else
    match allocElem g t mem with
    | none => (t, false)
    | some (t', blk) =>
      ({ t' with b := updB t'.b i (t'.b i ++ [{ dtor := k.dtor, keyId := k.id, val := v, blk := blk }]) }, true)

/-- lookup part of `ABTI_ktable_get` on a valid table -/
def tget (t : Table) (kid : Nat) : Val := chainGet kid (t.b (idx t.size kid))

/-- a work unit's `p_keytable` between operations: NULL or a table -/
abbrev Slot := Option Table

/-- `ABTI_ktable_set` / `ABTI_ktable_set_unsafe` without concurrency.
`memT`: table allocation succeeds, `memE`: element-block allocation succeeds.
When the table is created but the element allocation fails the (empty) table stays. -/
def slotSet (g : Geom) (size : Nat) (s : Slot) (k : Key) (v : Val) (memT memE : Bool) : Slot × Bool :=
  match s with
  | some t => let (t', ok) := setImpl g t k v memE; (some t', ok)
  | none =>
    match create g size memT with
    | none => (none, false)
    | some t => let (t', ok) := setImpl g t k v memE; (some t', ok)

/-- `ABTI_ktable_get` -/
def slotGet (s : Slot) (kid : Nat) : Val :=
  match s with
  | some t => tget t kid
  | none => 0

/-- one destructor invocation; `keyId` is ghost (the C destructor receives only `val`) -/
structure DCall where
  keyId : Nat
  dtor : Nat
  val : Val
deriving Repr, DecidableEq

def chainCalls : List Elem → List DCall
  | [] => []
  | e :: r =>
    if e.dtor ≠ 0 ∧ e.val ≠ 0 then { keyId := e.keyId, dtor := e.dtor, val := e.val } :: chainCalls r
    else chainCalls r

def callsFrom (t : Table) : Nat → Nat → List DCall
  | _, 0 => []
  | i, n + 1 => chainCalls (t.b i) ++ callsFrom t (i + 1) n

/-- destructor calls of `ABTI_ktable_free`, in call order (bucket 0.., chain order) -/
def freeCalls (t : Table) : List DCall := callsFrom t 0 t.size

/-- blocks released by `ABTI_ktable_free`, in release order, with the deallocator used -/
def freeBlocks (t : Table) : List (Nat × BlkKind) := t.used

/-- `thread_free`: key-table part.  (`thread_revive` does not touch `p_keytable`.) -/
def slotFree (s : Slot) : List DCall × List (Nat × BlkKind) :=
  match s with
  | some t => (freeCalls t, freeBlocks t)
  | none => ([], [])

/-- `ABTD_env_key_table_size`: `roundup_pow2_uint32(clamp(ABT_KEY_TABLE_SIZE, 1, UINT32_MAX))`;
the loop of `roundup_pow2_uint32` stops at bit 31, so the result is one of 2^0 … 2^31 -/
def roundupPow2 (v : Nat) : Nat :=
  if v = 0 then 0 else
  let rec go (i fuel : Nat) : Nat :=
    match fuel with
    | 0 => i
    | f + 1 => if (v - 1) >>> i = 0 then i else go (i + 1) f
  1 <<< go 0 31

def loaderSize (env : Nat) : Nat := roundupPow2 (max 1 (min env 4294967295))

/-! ### operations of one work unit's slot (refinement theorem, driver) -/

inductive Op where
  | set (k : Key) (v : Val) (memT memE : Bool)
  | get (kid : Nat)
  | revive     -- `thread_revive`: does not access `p_keytable`
  | free       -- `thread_free`: `ABTI_ktable_free` if the slot is non-NULL; the descriptor is
               -- released and a later work unit starts with `p_keytable = NULL`
deriving Repr

inductive Out where
  | setR (ok : Bool)
  | getR (v : Val)
  | reviveR
  | freeR (calls : List DCall) (blocks : List (Nat × BlkKind))
deriving Repr, DecidableEq

def step (g : Geom) (size : Nat) (s : Slot) : Op → Slot × Out
  | .set k v mT mE => let (s', ok) := slotSet g size s k v mT mE; (s', .setR ok)
  | .get kid => (s, .getR (slotGet s kid))
  | .revive => (s, .reviveR)
  | .free => (none, .freeR (slotFree s).1 (slotFree s).2)

def runOps (g : Geom) (size : Nat) (s : Slot) : List Op → Slot × List Out
  | [] => (s, [])
  | op :: ops =>
    let (s1, o) := step g size s op
    let (s2, os) := runOps g size s1 ops
    (s2, o :: os)

/-! ### many work units -/

abbrev Sys := Nat → Slot

def updS (f : Sys) (u : Nat) (s : Slot) : Sys := fun x => if x = u then s else f x

def sysStep (g : Geom) (size : Nat) (S : Sys) (u : Nat) (op : Op) : Sys × Out :=
  let (s', o) := step g size (S u) op
  (updS S u s', o)

def sysRun (g : Geom) (size : Nat) (S : Sys) : List (Nat × Op) → Sys × List Out
  | [] => (S, [])
  | (u, op) :: ops =>
    let (S1, o) := sysStep g size S u op
    let (S2, os) := sysRun g size S1 ops
    (S2, o :: os)

/-! ### canonical dumps for the differential driver -/

def Elem.dump (e : Elem) : String := s!"{e.keyId}={e.val}"

def dumpChain (c : List Elem) : String := " ".intercalate (c.map Elem.dump)

def BlkKind.tag : BlkKind → String
  | .mempool => "P"
  | .malloc => "M"

def dumpBlocks (t : Table) : String := String.join (t.used.map fun (_, k) => k.tag)

/-! ## Part 2: concurrent `ABTI_ktable_set` on one slot

`n` callers, caller `t` executes `ABTI_ktable_set(pp_ktable, key t, val t)` once.
Shared: the slot word, the (unique) table object, its spinlock.  One transition =
one atomic operation of the C code (acquire-load / weak CAS / release-store of the
slot; acquire-load of a chain link together with the comparison of the loaded
element's immutable `key_id`; store of `value`; spinlock acquire/release; the
release-store that publishes a new element).  Allocation + initialisation of a
private element is folded into the transition that decides to append. -/

inductive SlotV where
  | null | locked | valid
deriving Repr, DecidableEq

inductive Pc where
  | start                    -- about to acquire-load `*pp_ktable`
  | cas                      -- about to CAS(NULL → LOCKED)
  | creating                 -- owns LOCKED: about to create the table and release-store it
  | reload                   -- CAS failed: about to acquire-load the slot
  | spin                     -- saw LOCKED: pause, about to load again
  | walk (j : Nat)           -- set_impl without lock: about to load link j (0 = bucket head)
  | store (j : Nat)          -- key found at element j: about to write `value` (lock not held)
  | acq (j : Nat)            -- link j was NULL: about to acquire `p_ktable->lock`
  | lwalk (j : Nat)          -- lock held: about to load link j
  | lrel (j : Nat)           -- lock held, key found at element j: about to release the lock
  | pub (j : Nat) (blk : Nat) -- lock held, tail at link j, element built: about to release-store link j
  | unlock                   -- element published: about to release the lock
  | unlockFail               -- element allocation failed: about to release the lock
  | done (ok : Bool)
  | crashed                  -- `ABTI_ktable_set_impl(NULL)`: NULL dereference
deriving Repr, DecidableEq

inductive Act where
  | loadValid | loadInvalid | casOk | casFail | create | createFail
  | reloadNull | reloadLocked | reloadValid | spinLocked | spinValid | spinNull
  | walkNext | walkFound | walkEnd | store | acquire
  | lwalkNext | lwalkFound | lwalkEnd | lwalkEndFail | lrel | publish | unlock | unlockFail
deriving Repr, DecidableEq

structure Params where
  g : Geom
  size : Nat
  n : Nat
  key : Nat → Key
  val : Nat → Val
  faults : Bool       -- may allocations fail?

structure CSt where
  slot : SlotV
  tbl : Table          -- the table object (meaningful once created)
  created : Nat        -- ghost: successful `ABTI_ktable_create` calls
  lock : Option Nat    -- `p_ktable->lock` holder
  pc : Nat → Pc
  lastw : Nat → Nat    -- ghost: key id → caller whose value store was the latest

def emptyTable : Table :=
  { size := 0, b := fun _ => [], used := [], extra := 0, extraBlk := 0, nblk := 0, ledger := [] }

def CSt.init : CSt :=
  { slot := .null, tbl := emptyTable, created := 0, lock := none, pc := fun _ => .start, lastw := fun _ => 0 }

/-- the chain caller `t` works on -/
def CSt.ch (P : Params) (s : CSt) (t : Nat) : List Elem := s.tbl.b (idx P.size (P.key t).id)

def CSt.setCh (P : Params) (s : CSt) (t : Nat) (c : List Elem) : Table :=
  { s.tbl with b := updB s.tbl.b (idx P.size (P.key t).id) c }

def newElem (P : Params) (t : Nat) (blk : Nat) : Elem :=
  { dtor := (P.key t).dtor, keyId := (P.key t).id, val := P.val t, blk := blk }

inductive Step (P : Params) : CSt → Nat × Act → CSt → Prop where
  | loadValid {s t} : t < P.n → s.pc t = .start → s.slot = .valid →
      Step P s (t, .loadValid) { s with pc := upd s.pc t (.walk 0) }
  | loadInvalid {s t} : t < P.n → s.pc t = .start → s.slot ≠ .valid →
      Step P s (t, .loadInvalid) { s with pc := upd s.pc t .cas }
  | casOk {s t} : t < P.n → s.pc t = .cas → s.slot = .null →
      Step P s (t, .casOk) { s with slot := .locked, pc := upd s.pc t .creating }
  /-- weak CAS: fails when the slot is not NULL, and may fail spuriously -/
  | casFail {s t} : t < P.n → s.pc t = .cas →
      Step P s (t, .casFail) { s with pc := upd s.pc t .reload }
  | create {s t} : t < P.n → s.pc t = .creating →
      Step P s (t, .create)
        { s with slot := .valid, tbl := createOk P.g P.size, created := s.created + 1,
                 pc := upd s.pc t (.walk 0) }
  | createFail {s t} : t < P.n → s.pc t = .creating → P.faults = true →
      Step P s (t, .createFail) { s with slot := .null, pc := upd s.pc t (.done false) }
  | reloadNull {s t} : t < P.n → s.pc t = .reload → s.slot = .null →
      Step P s (t, .reloadNull) { s with pc := upd s.pc t .cas }
  | reloadLocked {s t} : t < P.n → s.pc t = .reload → s.slot = .locked →
      Step P s (t, .reloadLocked) { s with pc := upd s.pc t .spin }
  | reloadValid {s t} : t < P.n → s.pc t = .reload → s.slot = .valid →
      Step P s (t, .reloadValid) { s with pc := upd s.pc t (.walk 0) }
  | spinLocked {s t} : t < P.n → s.pc t = .spin → s.slot = .locked →
      Step P s (t, .spinLocked) s
  | spinValid {s t} : t < P.n → s.pc t = .spin → s.slot = .valid →
      Step P s (t, .spinValid) { s with pc := upd s.pc t (.walk 0) }
  /-- the spin loop exits on anything that is not LOCKED and then uses the pointer -/
  | spinNull {s t} : t < P.n → s.pc t = .spin → s.slot = .null →
      Step P s (t, .spinNull) { s with pc := upd s.pc t .crashed }
  | walkNext {s t j e} : t < P.n → s.pc t = .walk j → (s.ch P t)[j]? = some e → e.keyId ≠ (P.key t).id →
      Step P s (t, .walkNext) { s with pc := upd s.pc t (.walk (j + 1)) }
  | walkFound {s t j e} : t < P.n → s.pc t = .walk j → (s.ch P t)[j]? = some e → e.keyId = (P.key t).id →
      Step P s (t, .walkFound) { s with pc := upd s.pc t (.store j) }
  | walkEnd {s t j} : t < P.n → s.pc t = .walk j → (s.ch P t)[j]? = none →
      Step P s (t, .walkEnd) { s with pc := upd s.pc t (.acq j) }
  | store {s t j e} : t < P.n → s.pc t = .store j → (s.ch P t)[j]? = some e →
      Step P s (t, .store)
        { s with tbl := s.setCh P t ((s.ch P t).set j { e with val := P.val t }),
                 lastw := upd s.lastw (P.key t).id t, pc := upd s.pc t (.done true) }
  | acquire {s t j} : t < P.n → s.pc t = .acq j → s.lock = none →
      Step P s (t, .acquire) { s with lock := some t, pc := upd s.pc t (.lwalk j) }
  | lwalkNext {s t j e} : t < P.n → s.pc t = .lwalk j → (s.ch P t)[j]? = some e → e.keyId ≠ (P.key t).id →
      Step P s (t, .lwalkNext) { s with pc := upd s.pc t (.lwalk (j + 1)) }
  | lwalkFound {s t j e} : t < P.n → s.pc t = .lwalk j → (s.ch P t)[j]? = some e → e.keyId = (P.key t).id →
      Step P s (t, .lwalkFound) { s with pc := upd s.pc t (.lrel j) }
  | lwalkEnd {s t j tb blk} : t < P.n → s.pc t = .lwalk j → (s.ch P t)[j]? = none →
      allocElem P.g s.tbl true = some (tb, blk) →
      Step P s (t, .lwalkEnd) { s with tbl := tb, pc := upd s.pc t (.pub j blk) }
  | lwalkEndFail {s t j} : t < P.n → s.pc t = .lwalk j → (s.ch P t)[j]? = none →
      allocElem P.g s.tbl false = none → P.faults = true →
      Step P s (t, .lwalkEndFail) { s with pc := upd s.pc t .unlockFail }
  | lrel {s t j} : t < P.n → s.pc t = .lrel j →
      Step P s (t, .lrel) { s with lock := none, pc := upd s.pc t (.store j) }
  | publish {s t j blk} : t < P.n → s.pc t = .pub j blk →
      Step P s (t, .publish)
        { s with tbl := s.setCh P t (s.ch P t ++ [newElem P t blk]),
                 lastw := upd s.lastw (P.key t).id t, pc := upd s.pc t .unlock }
  | unlock {s t} : t < P.n → s.pc t = .unlock →
      Step P s (t, .unlock) { s with lock := none, pc := upd s.pc t (.done true) }
  | unlockFail {s t} : t < P.n → s.pc t = .unlockFail →
      Step P s (t, .unlockFail) { s with lock := none, pc := upd s.pc t (.done false) }

/-- executable version of `Step` (sound w.r.t. it: `Proofs.KTableRaceT.exec_sound`); used to
replay concrete interleavings -/
def exec (P : Params) (s : CSt) (ev : Nat × Act) : Option CSt :=
  let t := ev.1
  if ¬ t < P.n then none else
  match ev.2, s.pc t with
  | .loadValid, .start => if s.slot = .valid then some { s with pc := upd s.pc t (.walk 0) } else none
  | .loadInvalid, .start => if s.slot ≠ .valid then some { s with pc := upd s.pc t .cas } else none
  | .casOk, .cas => if s.slot = .null then some { s with slot := .locked, pc := upd s.pc t .creating } else none
  | .casFail, .cas => some { s with pc := upd s.pc t .reload }
  | .create, .creating =>
    some { s with slot := .valid, tbl := createOk P.g P.size, created := s.created + 1, pc := upd s.pc t (.walk 0) }
  | .createFail, .creating =>
    if P.faults = true then some { s with slot := .null, pc := upd s.pc t (.done false) } else none
  | .reloadNull, .reload => if s.slot = .null then some { s with pc := upd s.pc t .cas } else none
  | .reloadLocked, .reload => if s.slot = .locked then some { s with pc := upd s.pc t .spin } else none
  | .reloadValid, .reload => if s.slot = .valid then some { s with pc := upd s.pc t (.walk 0) } else none
  | .spinLocked, .spin => if s.slot = .locked then some s else none
  | .spinValid, .spin => if s.slot = .valid then some { s with pc := upd s.pc t (.walk 0) } else none
  | .spinNull, .spin => if s.slot = .null then some { s with pc := upd s.pc t .crashed } else none
  | .walkNext, .walk j =>
    match (s.ch P t)[j]? with
    | some e => if e.keyId ≠ (P.key t).id then some { s with pc := upd s.pc t (.walk (j + 1)) } else none
    | none => none
  | .walkFound, .walk j =>
    match (s.ch P t)[j]? with
    | some e => if e.keyId = (P.key t).id then some { s with pc := upd s.pc t (.store j) } else none
    | none => none
  | .walkEnd, .walk j =>
    match (s.ch P t)[j]? with
    | some _ => none
    | none => some { s with pc := upd s.pc t (.acq j) }
  | .store, .store j =>
    match (s.ch P t)[j]? with
    | some e =>
      some { s with tbl := s.setCh P t ((s.ch P t).set j { e with val := P.val t }),
                    lastw := upd s.lastw (P.key t).id t, pc := upd s.pc t (.done true) }
    | none => none
  | .acquire, .acq j =>
    match s.lock with
    | none => some { s with lock := some t, pc := upd s.pc t (.lwalk j) }
    | some _ => none
  | .lwalkNext, .lwalk j =>
    match (s.ch P t)[j]? with
    | some e => if e.keyId ≠ (P.key t).id then some { s with pc := upd s.pc t (.lwalk (j + 1)) } else none
    | none => none
  | .lwalkFound, .lwalk j =>
    match (s.ch P t)[j]? with
    | some e => if e.keyId = (P.key t).id then some { s with pc := upd s.pc t (.lrel j) } else none
    | none => none
  | .lwalkEnd, .lwalk j =>
    match (s.ch P t)[j]?, allocElem P.g s.tbl true with
    | none, some (tb, blk) => some { s with tbl := tb, pc := upd s.pc t (.pub j blk) }
    | _, _ => none
  | .lwalkEndFail, .lwalk j =>
    match (s.ch P t)[j]?, allocElem P.g s.tbl false with
    | none, none => if P.faults = true then some { s with pc := upd s.pc t .unlockFail } else none
    | _, _ => none
  | .lrel, .lrel j => some { s with lock := none, pc := upd s.pc t (.store j) }
  | .publish, .pub j blk =>
    some { s with tbl := s.setCh P t (s.ch P t ++ [newElem P t blk]),
                  lastw := upd s.lastw (P.key t).id t, pc := upd s.pc t .unlock }
  | .unlock, .unlock => some { s with lock := none, pc := upd s.pc t (.done true) }
  | .unlockFail, .unlockFail => some { s with lock := none, pc := upd s.pc t (.done false) }
  | _, _ => none

def execTrace (P : Params) : CSt → List (Nat × Act) → Option CSt
  | s, [] => some s
  | s, e :: es => match exec P s e with
    | none => none
    | some s' => execTrace P s' es

end ArgoVerif.Model.KTable
