import ArgoVerif.Model.Rank
/-
Model.RankConc — concurrent callers of the rank / stream-list API of src/stream.c at the
granularity of the lock protocol.  `Model.Rank` runs every API call as ONE atomic function and
*assumes* that the C functions hold `p_global->xstream_list_lock` from the first read of the list
to the last write.  This model does not assume it: an actor (an external pthread or a ULT on some
execution stream) walks through

    call                      ABT_xstream_create / _create_with_rank / _set_rank / _free / _get_num
    pre                       argument checks and unlocked reads before the lock
                              (rank < 0, NULL / primary handle, `p_xstream->rank == rank` in
                              xstream_change_rank, the plain read of num_xstreams in get_num);
                              the call completes here if it never takes the lock
    joined                    (free only) the join part of ABT_xstream_free has completed: the target stream's
                              work is done (state TERMINATED) and its native thread is parked
    tas old                   ABTD_spinlock_acquire: test_and_set on xstream_list_lock.val
    spinLoad v                  inner loop `while (ABTD_spinlock_is_locked(p_lock))`
    check                     the list scan done under the lock: "find an unused rank from 0"
                              (rank == -1) / "check if a certain rank is available"
                              (xstream_set_new_rank, xstream_change_rank)
    insert | move | remove    the list update done under the lock: set rank + add_xstream_list +
                              num_xstreams++ / remove + set rank + add (re-sort) /
                              remove_xstream_list + num_xstreams--
    clear                     ABTD_spinlock_release
    ret out                   the value returned to the caller

in any interleaving with any number of other actors.  The shared state is the pointer-level list
of `Model.Rank` itself (`g`), and the scan / update steps are `Model.Rank`'s own loop and list
functions (`findLoop`, `mexLoop`, `grant`, `removeList`, `addList`, `returnRank`), so that what a
critical section computes is by construction what the atomic model computes — provided nothing
happens in between, which is what has to be proved (Props.C17, part 4).

An `insert`/`move` is only a step of an actor whose `check` succeeded *in the same lock hold*
(pc `chkOk`; `clear` is not enabled at `chkOk`).  Code that validates a rank in one critical
section and inserts in another (check/act split) therefore produces traces that are not runs of
this model (`Props.C17.conc_rejects_check_act_split`).

Private memory: `xstream_create` writes `p_prev = p_next = NULL` into the freshly allocated
descriptor before it takes the lock.  Nobody else can see the descriptor until it is linked, so
the writes are performed here at the step that first depends on them (`privInit` inside
`check` / `insert`).

The API contract that makes the calls well defined (hypotheses of `call`):
  * malloc returns an address that is neither in the list nor in use by another in-flight call;
  * a non-NULL handle passed to set_rank / free denotes a live stream and is not used by another
    in-flight call (a stream freed or re-ranked while someone else operates on the same handle is
    a use-after-free / data race on `p_xstream->rank` in C, not an error return).
`running` says which streams exist as executing entities: from the insertion of a created stream until the
join part of its `ABT_xstream_free` has completed.  A free reaches the lock only through `joined`
(pc `joining`), so the rank leaves the list only after the stream stopped; code that returns the rank
before the join produces traces that are not runs (`Props.C17.Conc.conc_rejects_remove_before_join`).
Allocation failures inside create (C18) are not modelled: a creation that got its rank completes.
`hist` is a ghost field: the (call, result) pairs in the order of their linearisation steps.
-/
namespace ArgoVerif.Model.RankConc
open ArgoVerif
open ArgoVerif.Model.Rank (Ptr Op Out primaryId)

abbrev Actor := Nat
abbrev G := ArgoVerif.Model.Rank.St

inductive Pc
  | idle      -- not inside an API call
  | start     -- called, nothing done yet
  | joining   -- (free) inside xstream_join: waiting for the target stream to stop
  | want      -- about to test_and_set the list lock
  | spin      -- test_and_set failed: inner read loop
  | locked    -- holds the lock, nothing done yet
  | chkOk     -- holds the lock, scan done: the rank `loc` may be taken
  | chkFail   -- holds the lock, scan done: rank refused (result decided)
  | mutated   -- holds the lock, list updated (result decided)
  | done      -- lock released / never needed; result decided, not yet returned
deriving DecidableEq, Repr

inductive Ev
  | call (a : Actor) (op : Op)
  | pre (a : Actor)
  | joined (a : Actor)
  | tas (a : Actor) (old : Bool)
  | spinLoad (a : Actor) (v : Bool)
  | check (a : Actor)
  | insert (a : Actor)
  | move (a : Actor)
  | remove (a : Actor)
  | clear (a : Actor)
  | ret (a : Actor) (o : Out)
deriving Repr

structure St where
  g : G                         -- p_global->p_xstream_head, num_xstreams, the descriptors
  lock : Option Actor           -- xstream_list_lock.val (isSome) + ghost: who holds it
  pc : Actor → Pc
  op : Actor → Op               -- the call in flight
  loc : Actor → Int             -- local `rank` after the scan
  res : Actor → Out             -- decided result
  running : Ptr → Bool          -- the stream executes work units / is being joined (not yet stopped)
  active : List Actor           -- ghost: actors inside a call
  hist : List (Op × Out)        -- ghost: linearisation order

/-- the descriptor / handle a call works on (0 = none) -/
def target : Op → Ptr
  | .create p => p
  | .createWithRank p _ => p
  | .setRank p _ => p
  | .free p => p
  | .join p => p
  | .revive p => p
  | .getRank p => p
  | .getNum => 0

/-- the calls this model covers -/
def allowed : Op → Bool
  | .create _ => true
  | .createWithRank _ _ => true
  | .setRank _ _ => true
  | .free _ => true
  | .getNum => true
  | _ => false

/-- the call returns without ever taking `xstream_list_lock` -/
def lockFree (g : G) : Op → Bool
  | .create _ => false
  | .createWithRank _ r => decide (r < 0)
  | .setRank p r => decide (p = 0) || decide (p = primaryId) || decide (r < 0) || decide (g.rank p = r)
  | .free p => decide (p = 0) || decide (p = primaryId)
  | _ => true

/-- `p_newxstream->p_prev = NULL; p_newxstream->p_next = NULL;` (xstream_create, before the lock) -/
def privInit (g : G) (p : Ptr) : G :=
  let s1 : G := { g with prev := upd g.prev p 0 }
  { s1 with next := upd s1.next p 0 }

def inCrit : Pc → Bool
  | .locked | .chkOk | .chkFail | .mutated => true
  | _ => false

/-- the call has not taken effect yet -/
def preLin : Pc → Bool
  | .start | .joining | .want | .spin | .locked | .chkOk => true
  | _ => false

/-- the call has taken effect, its result is decided -/
def postLin : Pc → Bool
  | .chkFail | .mutated | .done => true
  | _ => false

def wantsLock : Pc → Bool
  | .joining | .want | .spin | .locked | .chkOk => true
  | _ => false

/-- after the argument checks: a free first joins the stream, everybody else goes for the lock -/
def afterPre : Op → Pc
  | .free _ => .joining
  | _ => .want

/-- between the completed join and the list removal -/
def afterJoin : Pc → Bool
  | .want | .spin | .locked => true
  | _ => false

def setPc (s : St) (a : Actor) (p : Pc) : St := { s with pc := upd s.pc a p }

/-- the call of `a` takes effect: shared state `g'`, result `o` -/
def linearize (s : St) (a : Actor) (g' : G) (o : Out) (p : Pc) : St :=
  { s with g := g', res := upd s.res a o, hist := s.hist ++ [(s.op a, o)], pc := upd s.pc a p }

def stepCall (s : St) (a : Actor) (op : Op) : Option St :=
  if s.pc a = .idle ∧ allowed op = true ∧ Rank.Pre s.g op = true ∧
      (target op = 0 ∨ s.active.all (fun b => decide (target (s.op b) ≠ target op)) = true) then
    some { s with pc := upd s.pc a .start, op := upd s.op a op, active := a :: s.active }
  else none

def stepPre (s : St) (a : Actor) : Option St :=
  if s.pc a = .start then
    if lockFree s.g (s.op a) = true then
      match Rank.apiStep s.g (s.op a) with
      | some (g', o) => some (linearize s a g' o .done)
      | none => none
    else some (setPc s a (afterPre (s.op a)))
  else none

/-- `xstream_join` inside `ABT_xstream_free` returns: the main scheduler has terminated, the stream stored
TERMINATED and its native thread waits in `ABTD_xstream_context` -/
def stepJoined (s : St) (a : Actor) : Option St :=
  if s.pc a = .joining then
    match s.op a with
    | .free p => some { s with running := upd s.running p false, pc := upd s.pc a .want }
    | _ => none
  else none

def stepTas (s : St) (a : Actor) (old : Bool) : Option St :=
  if s.pc a = .want ∧ old = s.lock.isSome then
    if old then some (setPc s a .spin)
    else some { s with lock := some a, pc := upd s.pc a .locked }
  else none

def stepSpinLoad (s : St) (a : Actor) (v : Bool) : Option St :=
  if s.pc a = .spin ∧ v = s.lock.isSome then
    if v then some s else some (setPc s a .want)
  else none

def stepCheck (s : St) (a : Actor) : Option St :=
  if s.pc a = .locked ∧ s.lock = some a then
    match s.op a with
    | .create p =>
      let g1 := privInit s.g p
      match Rank.mexLoop g1 (Rank.fuel g1) 0 g1.head with           -- "Find an unused rank from 0."
      | some r => some { s with loc := upd s.loc a r, pc := upd s.pc a .chkOk }
      | none => none
    | .createWithRank p r =>
      let g1 := privInit s.g p
      match Rank.findLoop g1 r (Rank.fuel g1) g1.head with          -- "Check if a certain rank is available"
      | some true => some (linearize s a g1 .errRank .chkFail)      -- release + return ABT_FALSE follow
      | some false => some { s with loc := upd s.loc a r, pc := upd s.pc a .chkOk }
      | none => none
    | .setRank _ r =>
      match Rank.findLoop s.g r (Rank.fuel s.g) s.g.head with       -- xstream_change_rank's scan
      | some true => some (linearize s a s.g .errRank .chkFail)
      | some false => some { s with loc := upd s.loc a r, pc := upd s.pc a .chkOk }
      | none => none
    | _ => none
  else none

/-- tail of `xstream_set_new_rank` + `state = RUNNING` of `xstream_create` -/
def insertAt (g : G) (p : Ptr) (r : Int) : Option G :=
  match Rank.grant (privInit g p) p r with
  | some (g2, _) => some { g2 with term := upd g2.term p false }
  | none => none

def stepInsert (s : St) (a : Actor) : Option St :=
  if s.pc a = .chkOk ∧ s.lock = some a then
    match s.op a with
    | .create p =>
      match insertAt s.g p (s.loc a) with
      | some g' => some { linearize s a g' (.okRank (g'.rank p)) .mutated with running := upd s.running p true }
      | none => none
    | .createWithRank p _ =>
      match insertAt s.g p (s.loc a) with
      | some g' => some { linearize s a g' (.okRank (g'.rank p)) .mutated with running := upd s.running p true }
      | none => none
    | _ => none
  else none

/-- tail of `xstream_change_rank`: remove, set the rank, add again -/
def moveTo (g : G) (p : Ptr) (r : Int) : Option G :=
  match Rank.removeList g p with
  | none => none
  | some s1 =>
    let s2 : G := { s1 with rank := upd s1.rank p r }
    Rank.addList s2 p

def stepMove (s : St) (a : Actor) : Option St :=
  if s.pc a = .chkOk ∧ s.lock = some a then
    match s.op a with
    | .setRank p r =>
      match moveTo s.g p r with
      | some g' => some (linearize s a g' .ok .mutated)
      | none => none
    | _ => none
  else none

/-- `xstream_return_rank` (ABT_xstream_free joined the stream before: `term`) -/
def stepRemove (s : St) (a : Actor) : Option St :=
  if s.pc a = .locked ∧ s.lock = some a then
    match s.op a with
    | .free p =>
      match Rank.returnRank { s.g with term := upd s.g.term p true } p with
      | some g' => some (linearize s a g' .ok .mutated)
      | none => none
    | _ => none
  else none

def stepClear (s : St) (a : Actor) : Option St :=
  if (s.pc a = .chkFail ∨ s.pc a = .mutated) ∧ s.lock = some a then
    some { s with lock := none, pc := upd s.pc a .done }
  else none

def stepRet (s : St) (a : Actor) (o : Out) : Option St :=
  if s.pc a = .done ∧ s.res a = o then
    some { s with pc := upd s.pc a .idle, active := s.active.filter (fun b => decide (b ≠ a)) }
  else none

def step (s : St) : Ev → Option St
  | .call a op => stepCall s a op
  | .pre a => stepPre s a
  | .joined a => stepJoined s a
  | .tas a old => stepTas s a old
  | .spinLoad a v => stepSpinLoad s a v
  | .check a => stepCheck s a
  | .insert a => stepInsert s a
  | .move a => stepMove s a
  | .remove a => stepRemove s a
  | .clear a => stepClear s a
  | .ret a o => stepRet s a o

/-- after `ABT_init`: the primary stream (rank 0) is the only one, nobody inside a call -/
def init : St :=
  { g := Rank.init, lock := none, pc := fun _ => .idle, op := fun _ => .getNum, loc := fun _ => 0,
    res := fun _ => .ok, running := fun p => decide (p = primaryId), active := [], hist := [] }

def machine : Machine St Ev := { init := init, step := step }

end ArgoVerif.Model.RankConc
