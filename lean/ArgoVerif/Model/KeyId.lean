import ArgoVerif.Core.LTS
/-
Model.KeyId — allocation of key ids by `ABT_key_create` (src/key.c):

    p_newkey->id = ABTD_atomic_fetch_add_uint32(&g_key_id, 1);

`g_key_id` is a process-wide counter that starts at `ABTI_KEY_ID_END_`; the ids below it belong
to the runtime's static keys (`g_thread_sched_key`, `g_thread_mig_data_key` in thread.c).  Any
number of callers on any streams; one transition per atomic operation: the fetch-and-add is ONE
event carrying the value it observed.  The counter is a `Nat` (the 32-bit wrap after 2^32 − 2
creations is an assumption of the property check).  Ghost: ids handed out (`issued`) and ids
already returned to a caller (`returned`).
-/
namespace ArgoVerif.Model.KeyId
open ArgoVerif

abbrev Actor := Nat

inductive Pc where
  | idle
  | alloc             -- inside ABT_key_create, about to fetch-and-add
  | got (id : Nat)    -- id taken, about to return it
deriving Repr, DecidableEq

inductive Ev where
  | call (a : Actor)
  | fetchAdd (a : Actor) (old : Nat)   -- the atomic read-modify-write and the value it read
  | ret (a : Actor) (id : Nat)
deriving Repr

structure St where
  start : Nat
  g : Nat
  pc : Actor → Pc
  issued : List Nat
  returned : List Nat

def init (start : Nat) : St := { start := start, g := start, pc := fun _ => .idle, issued := [], returned := [] }

def exec (s : St) : Ev → Option St
  | .call a => if s.pc a = .idle then some { s with pc := upd s.pc a .alloc } else none
  | .fetchAdd a old =>
    if s.pc a = .alloc ∧ old = s.g then
      some { s with g := s.g + 1, pc := upd s.pc a (.got old), issued := old :: s.issued }
    else none
  | .ret a id =>
    if s.pc a = .got id then some { s with pc := upd s.pc a .idle, returned := id :: s.returned } else none

def machine (start : Nat) : Machine St Ev := { init := init start, step := exec }

/-- what the code would be with the read-modify-write split into a load and a store (NOT the model
of the code; used for the rejected example): `tmp` is the value a caller loaded -/
inductive SplitEv where
  | load (a : Actor)
  | store (a : Actor)

structure SplitSt where
  g : Nat
  tmp : Actor → Option Nat
  ids : List Nat

def splitExec (s : SplitSt) : SplitEv → SplitSt
  | .load a => { s with tmp := upd s.tmp a (some s.g) }
  | .store a => match s.tmp a with
    | some v => { s with g := v + 1, ids := v :: s.ids, tmp := upd s.tmp a none }
    | none => s

end ArgoVerif.Model.KeyId
