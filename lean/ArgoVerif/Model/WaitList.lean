import ArgoVerif.Core.LTS
/-
Model.WaitList — the "spinlock L + wait-list" protocol of abti_waitlist.h shared by
ABT_cond, ABT_barrier, ABT_eventual, ABT_future (and, with its own lock word, ABT_mutex),
at the granularity of its atomic steps, for any number of actors and all interleavings.

  critical section:   acquire L (tas until success) ... clear L
  wait_and_unlock, ULT:        enqueue -> [scheduler ctx] store BLOCKED -> clear L -> (woken)
  wait_and_unlock, non-ULT:    enqueue -> loop { if READY {clear L; break}
                                                 clear L; futex sleep; if READY break; acquire L }
  wait_timedout_and_unlock, ULT:     enqueue(timed) -> clear L -> loop { if READY return false;
                                        if now >= deadline { acquire L; goto timeout }; yield }
  wait_timedout_and_unlock, non-ULT: enqueue(timed) -> loop { if now >= deadline goto timeout;
                                        if READY {clear L; return false}
                                        clear L; futex timed sleep; if READY return false; acquire L }
  timeout (L held):   if READY -> not timed out; else unlink own node; clear L
  signal:             dequeue head; store READY          (under L)
  broadcast:          for each node from the head: dequeue; store READY   (under L)

Nodes are identified with their waiting actor (an actor waits on one list at a time).
`timeCheck a expired` carries the outcome of the comparison `now >= deadline`.
-/
namespace ArgoVerif.Model.WaitList
open ArgoVerif

abbrev Actor := Nat

inductive Pc
  | idle | acq | inCs | wkStore
  | uSusp | uRelL | uWait
  | xCheck | xRelL | xSleep | xReacq | xReadyRel
  | tuRel | tuPoll | tuTime | tuAcq
  | txTop | txState | txRel | txSleep | txReacq | txReadyRel
  | tmo | tmoRm | tmoRel
deriving DecidableEq, Repr

inductive Ev
  | begin (a : Actor)                       -- the client starts a critical section (about to spin on L)
  | tasL (a : Actor) (old : Bool)
  | clearL (a : Actor)
  | obsL (v : Bool)
  | enq (a : Actor) (timed : Bool)
  | storeBlocked (a : Actor)
  | loadState (a : Actor) (ready : Bool)
  | deq (a : Actor) (n : Actor)
  | storeReady (a : Actor) (n : Actor)
  | timeCheck (a : Actor) (expired : Bool)
  | rm (a : Actor)                          -- timed-out waiter unlinks its own node
deriving Repr

structure St where
  isUlt : Actor → Bool
  l : Bool                      -- the object's spinlock
  lOwner : Option Actor         -- ghost
  q : List Actor                -- wait-list, head first
  pending : Option Actor        -- dequeued, READY not yet stored
  ready : Actor → Bool          -- node state READY
  timedOut : Actor → Bool       -- result of the actor's last timed wait
  pc : Actor → Pc

def init (isUlt : Actor → Bool) : St :=
  { isUlt, l := false, lOwner := none, q := [], pending := none, ready := fun _ => false,
    timedOut := fun _ => false, pc := fun _ => .idle }

def setPc (s : St) (a : Actor) (p : Pc) : St := { s with pc := upd s.pc a p }
def takeL (s : St) (a : Actor) (p : Pc) : St := setPc { s with l := true, lOwner := some a } a p
def dropL (s : St) (a : Actor) (p : Pc) : St := setPc { s with l := false, lOwner := none } a p

def stepBegin (s : St) (a : Actor) : Option St :=
  if s.pc a = .idle then some (setPc s a .acq) else none

def stepTasL (s : St) (a : Actor) (old : Bool) : Option St :=
  if old ≠ s.l then none else
  match s.pc a with
  | .acq => some (if old then s else takeL s a .inCs)
  | .xReacq => some (if old then s else takeL s a .xCheck)
  | .tuAcq => some (if old then s else takeL s a .tmo)
  | .txReacq => some (if old then s else takeL s a .txTop)
  | _ => none

def stepClearL (s : St) (a : Actor) : Option St :=
  match s.pc a with
  | .inCs => some (dropL s a .idle)
  | .uRelL => some (dropL s a .uWait)
  | .xRelL => some (dropL s a .xSleep)
  | .xReadyRel => some (dropL s a .idle)
  | .tuRel => some (dropL s a .tuPoll)
  | .txRel => some (dropL s a .txSleep)
  | .txReadyRel => some (dropL { s with timedOut := upd s.timedOut a false } a .idle)
  | .tmoRel => some (dropL s a .idle)
  | _ => none

def stepEnq (s : St) (a : Actor) (timed : Bool) : Option St :=
  if s.pc a = .inCs then
    let p : Pc := match timed, s.isUlt a with
      | false, true => .uSusp
      | false, false => .xCheck
      | true, true => .tuRel
      | true, false => .txTop
    some (setPc { s with q := s.q ++ [a], ready := upd s.ready a false } a p)
  else none

def stepStoreBlocked (s : St) (a : Actor) : Option St :=
  if s.pc a = .uSusp then some (setPc s a .uRelL) else none

def stepLoadState (s : St) (a : Actor) (r : Bool) : Option St :=
  if r ≠ s.ready a then none else
  match s.pc a with
  | .xCheck => some (setPc s a (if r then .xReadyRel else .xRelL))
  | .xSleep => some (setPc s a (if r then .idle else .xReacq))
  | .tuPoll => some (if r then setPc { s with timedOut := upd s.timedOut a false } a .idle else setPc s a .tuTime)
  | .txState => some (setPc s a (if r then .txReadyRel else .txRel))
  | .txSleep => some (if r then setPc { s with timedOut := upd s.timedOut a false } a .idle else setPc s a .txReacq)
  | .tmo => some (if r then setPc { s with timedOut := upd s.timedOut a false } a .tmoRel else setPc s a .tmoRm)
  | _ => none

def stepTimeCheck (s : St) (a : Actor) (expired : Bool) : Option St :=
  match s.pc a with
  | .tuTime => some (setPc s a (if expired then .tuAcq else .tuPoll))
  | .txTop => some (setPc s a (if expired then .tmo else .txState))
  | _ => none

def stepRm (s : St) (a : Actor) : Option St :=
  if s.pc a = .tmoRm then
    some (setPc { s with q := s.q.erase a, timedOut := upd s.timedOut a true } a .tmoRel)
  else none

def stepDeq (s : St) (a n : Actor) : Option St :=
  match s.pc a, s.q with
  | .inCs, h :: t => if h = n then some (setPc { s with q := t, pending := some n } a .wkStore) else none
  | _, _ => none

/-- the waker's READY store: a ULT waiter becomes runnable again (its `wait` call continues), any
other waiter discovers it by polling its node -/
def stepStoreReady (s : St) (a n : Actor) : Option St :=
  if s.pc a = .wkStore ∧ s.pending = some n then
    let s1 := { s with pending := none, ready := upd s.ready n true }
    let s2 := if s.pc n = .uWait then setPc s1 n .idle else s1
    some (setPc s2 a .inCs)
  else none

def step (s : St) : Ev → Option St
  | .begin a => stepBegin s a
  | .tasL a old => stepTasL s a old
  | .clearL a => stepClearL s a
  | .obsL v => if v = s.l then some s else none
  | .enq a t => stepEnq s a t
  | .storeBlocked a => stepStoreBlocked s a
  | .loadState a r => stepLoadState s a r
  | .deq a n => stepDeq s a n
  | .storeReady a n => stepStoreReady s a n
  | .timeCheck a e => stepTimeCheck s a e
  | .rm a => stepRm s a

def machine (isUlt : Actor → Bool) : Machine St Ev := { init := init isUlt, step := step }

end ArgoVerif.Model.WaitList
