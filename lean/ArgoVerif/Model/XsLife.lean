import ArgoVerif.Model.XsCtx
/-
Model.XsLife — the life of ONE secondary execution stream as stream.c / thread.c drive it, on top of the native-thread
context of Model.XsCtx (abtd_stream.c), at the granularity of the steps other threads can observe.

Shared words (all atomic in C, except the context which is lock protected):
  pub              p_xstream->state                          RUNNING / TERMINATED
  fin, ext         p_main_sched->request                     ABTI_SCHED_REQ_FINISH / _EXIT
  jreq, creq       p_main_sched->p_ythread->thread.request   ABTI_THREAD_REQ_JOIN / _CANCEL
  mterm            p_main_sched->p_ythread->thread.state == TERMINATED
  rootq            the main scheduler's ULT sits in the root pool (pushed by create / ABTI_thread_revive)
  x                ABTD_xstream_context: state word, state_lock, the native thread T and the caller C of
                   ABTD_xstream_context_join / _revive / _free  (Model.XsCtx.Ctl, stepped by Model.XsCtx.cstep)
  pending          work units in the stream's pools

Actors.
  N  the native thread.  Inside `thread_f` = xstream_launch_root_ythread (x.tpc = run) it runs
       thread_root_func:        ABTI_ASSERT(state == RUNNING); pop the main scheduler's ULT;            nRoot c
                                ABTI_ythread_schedule: CANCEL already requested -> terminate it unrun
       the scheduler's run():   pops and runs work units (one of them may call ABT_xstream_exit)       nRun / nRunExit
                                ABTI_xstream_check_events: r = load(thread.request)                   nLoadReq
                                  if (r & JOIN) fetch_or(sched.request, FINISH)                       nSetFin
                                  if (r & CANCEL) fetch_or(sched.request, EXIT)                       nSetExit
                                ABTI_sched_has_to_stop: EXIT, or FINISH with empty pools               nStop
       thread_main_sched_func:  CANCEL -> break; FINISH && !has_unit -> break; else run() again        nMsf
       ABTI_thread_terminate of the main scheduler: thread.state := TERMINATED                         nMTerm
       thread_root_func:        loop ends; state := TERMINATED (release)                               nPubTerm
     then `thread_f` returns (`ctx .ret`) and the thread parks in xstream_context_thread_func (Model.XsCtx, actor T).
  C  the life-cycle caller: ABT_xstream_join / ABT_xstream_revive / ABT_xstream_free, one call at a time (the API's
     contract: "only one caller can be blocked on the same xstream by join / free", revive "revives the stream that has
     been terminated by ABT_xstream_join"); any thread (ULT or external) may make the next call.
       xstream_join:  fetch_or(sched.request, FINISH)                                                  jFin
                      ABTI_thread_join(main scheduler): load state; if not TERMINATED:                 jLoadM
                        fetch_or(thread.request, JOIN), suspend / futex-wait, re-load until TERMINATED  jSetJ, jLoadM
                      ABTD_xstream_context_join                                                        ctx (call join) ..
                      ABTI_ASSERT(state == TERMINATED)                                                 jPub
       ABT_xstream_revive: ABTI_CHECK_TRUE(main scheduler TERMINATED)                                  rLoadM
                      sched.request := 0                                                               rReset
                      ABTI_thread_revive: thread.state := READY; thread.request := 0; push to root pool  rReady rClear rPush
                      state := RUNNING                                                                 rPub
                      ABTD_xstream_context_revive                                                      ctx (call revive) ..
       ABT_xstream_free = xstream_join, ABTI_xstream_free ... ABTD_xstream_context_free                ctx (call free) ..
  anybody, any time: ABT_xstream_cancel (fetch_or(thread.request, CANCEL); the API requires a running stream),
     ABT_xstream_get_state (acquire load of state), pushing a work unit to the stream's pool.

Not modelled: main-scheduler replacement (Model.Replace), ranks (Model.Rank), the join hand-shake below "wait until the
main scheduler is TERMINATED" (Model.Join), what ABTI_xstream_free releases besides the context.
-/
namespace ArgoVerif.Model.XsLife
open ArgoVerif ArgoVerif.Model.XsCtx

/-- where N is inside `thread_f` -/
inductive NPc where
  | out                    -- not inside thread_f (x.tpc ≠ run)
  | root                   -- thread_root_func entered
  | sched                  -- scheduler loop, between work units
  | chk (j c : Bool)       -- ABTI_xstream_check_events after its load: FINISH / EXIT still to be posted
  | msf                    -- run() returned: thread_main_sched_func's tests
  | mend                   -- main scheduler function returned: ABTI_thread_terminate
  | rootEnd                -- root loop saw TERMINATED
  | fin                    -- state TERMINATED published; thread_root_func / thread_f return
deriving DecidableEq, Repr

/-- where the life-cycle caller is in stream.c -/
inductive LPc where
  | idle
  | jFin | jTj | jSetJ | jWaitM | jCtx | jPub | jRet
  | rChk | rReset | rReady | rClear | rPush | rPub | rCtx | rRet
  | fCtx | fRet | freed
deriving DecidableEq, Repr

inductive Op where
  | join | revive | free
deriving DecidableEq, Repr

inductive Ev where
  | call (op : Op)
  | ret (op : Op)
  | jFin
  | jLoadM (t : Bool)
  | jSetJ
  | jPub
  | rLoadM (t : Bool)
  | rReset | rReady | rClear | rPush | rPub
  | ctx (e : XsCtx.Ev)              -- a step of abtd_stream.c (either actor)
  | cancel
  | getState (t : Bool)
  | push
  | nRoot (c : Bool)
  | nLoadReq (j c : Bool)
  | nSetFin | nSetExit
  | nRun | nRunExit
  | nStop
  | nMsf (brk : Bool)
  | nMTerm | nPubTerm
deriving DecidableEq, Repr

structure St where
  x : Ctl
  pub : Bool               -- state == TERMINATED
  fin : Bool
  ext : Bool
  jreq : Bool
  creq : Bool
  mterm : Bool
  rootq : Bool
  npc : NPc
  lpc : LPc
  inFree : Bool            -- the join in progress is the one inside ABT_xstream_free
  pending : Nat
  ran : Nat                -- ghost: work units run
  pushed : Nat             -- ghost
  cause : Bool             -- ghost: a join / free / cancel / exit was issued since the stream was created / revived
  fault : Bool             -- an ABTI_ASSERT of stream.c / thread.c failed, or revive returned ABT_ERR_INV_XSTREAM
deriving DecidableEq, Repr

/-- stream.c's side conditions for a context event -/
def ctxGuard (s : St) : XsCtx.Ev → Bool
  | .call .join => s.lpc = .jCtx
  | .call .revive => s.lpc = .rCtx
  | .call .free => s.lpc = .fCtx
  | .ret => s.npc = .fin
  | _ => true

/-- `thread_f` is (re)entered by this context step: the start-up assertion of a new native thread, or the unlock
that ends xstream_context_thread_func's wait loop with `restart` -/
def restartEv (c : Ctl) (e : XsCtx.Ev) : Bool :=
  (e = .tau .T && c.tpc = .start) || (e = .unlock .T && c.tpc = .unlock true)

/-- what a context event means for the native thread's place in stream.c: (re)entering thread_f, leaving it -/
def gNpc (s : St) (e : XsCtx.Ev) : NPc :=
  if restartEv s.x e then .root else if e = .ret then .out else s.npc

/-- ... and for the life-cycle caller: ABTD_xstream_context_join / _revive / _free return -/
def gLpc (s : St) (e : XsCtx.Ev) : LPc :=
  match e, s.x.cpc with
  | .unlock .C, .jUnlock => .jPub
  | .unlock .C, .rUnlock => .rRet
  | .pjoin, _ => .fRet
  | _, _ => s.lpc

def ctxGlue (s : St) (c' : Ctl) (e : XsCtx.Ev) : St := { s with x := c', npc := gNpc s e, lpc := gLpc s e }

def step (s : St) : Ev → Option St
  -- ---------------------------------------------------------------- life-cycle caller
  | .call .join => if s.lpc = .idle then some { s with lpc := .jFin, inFree := false, cause := true } else none
  | .call .free => if s.lpc = .idle then some { s with lpc := .jFin, inFree := true, cause := true } else none
  | .call .revive =>   -- the contract: after a completed join
    if s.lpc = .idle ∧ s.x.cpc = .idle true then some { s with lpc := .rChk } else none
  | .jFin => if s.lpc = .jFin then some { s with fin := true, lpc := .jTj } else none
  | .jLoadM t =>
    if t ≠ s.mterm then none else
    match s.lpc with
    | .jTj => some { s with lpc := if t then .jCtx else .jSetJ }
    | .jWaitM => some { s with lpc := if t then .jCtx else .jWaitM }
    | _ => none
  | .jSetJ => if s.lpc = .jSetJ then some { s with jreq := true, lpc := .jWaitM } else none
  | .jPub =>   -- ABTI_ASSERT(state == TERMINATED)
    if s.lpc = .jPub then some { s with fault := s.fault || !s.pub, lpc := if s.inFree then .fCtx else .jRet } else none
  | .ret .join => if s.lpc = .jRet then some { s with lpc := .idle } else none
  | .rLoadM t =>   -- ABTI_CHECK_TRUE(state of the main scheduler == TERMINATED, ABT_ERR_INV_XSTREAM)
    if t ≠ s.mterm then none else
    if s.lpc = .rChk then
      (if t then some { s with lpc := .rReset } else some { s with fault := true, lpc := .idle })
    else none
  | .rReset => if s.lpc = .rReset then some { s with fin := false, ext := false, lpc := .rReady } else none
  | .rReady =>   -- ABTI_thread_revive: ABTI_ASSERT(state == TERMINATED); state := READY
    if s.lpc = .rReady then some { s with fault := s.fault || !s.mterm, mterm := false, lpc := .rClear } else none
  | .rClear => if s.lpc = .rClear then some { s with jreq := false, creq := false, lpc := .rPush } else none
  | .rPush => if s.lpc = .rPush then some { s with rootq := true, lpc := .rPub } else none
  | .rPub => if s.lpc = .rPub then some { s with pub := false, cause := false, lpc := .rCtx } else none
  | .ret .revive => if s.lpc = .rRet then some { s with lpc := .idle } else none
  | .ret .free => if s.lpc = .fRet then some { s with lpc := .freed } else none
  -- ---------------------------------------------------------------- abtd_stream.c
  | .ctx e =>
    if ctxGuard s e then
      match cstep s.x e with
      | some (c', _) => some (ctxGlue s c' e)
      | none => none
    else none
  -- ---------------------------------------------------------------- anybody
  | .cancel =>   -- the API requires a running stream
    if s.pub = false ∧ s.lpc ≠ .freed then some { s with creq := true, cause := true } else none
  | .getState t => if t = s.pub ∧ s.lpc ≠ .freed then some s else none
  | .push => if s.lpc ≠ .freed then some { s with pending := s.pending + 1, pushed := s.pushed + 1 } else none
  -- ---------------------------------------------------------------- native thread inside thread_f
  | .nRoot c =>   -- ABTI_ASSERT(state == RUNNING); the root pool hands out the main scheduler's ULT; ABTI_ythread_schedule
    -- looks at its CANCEL request first: a ULT cancelled before it ever ran is terminated on the spot
    if s.npc = .root ∧ s.rootq = true ∧ c = s.creq then
      some { s with fault := s.fault || s.pub, rootq := false, npc := if c then .mend else .sched }
    else none
  | .nLoadReq j c =>
    if s.npc = .sched ∧ j = s.jreq ∧ c = s.creq then some { s with npc := if j || c then .chk j c else .sched } else none
  | .nSetFin =>
    match s.npc with
    | .chk true c => some { s with fin := true, npc := if c then .chk false true else .sched }
    | _ => none
  | .nSetExit =>
    match s.npc with
    | .chk false true => some { s with ext := true, npc := .sched }
    | _ => none
  | .nRun =>
    if s.npc = .sched ∧ 0 < s.pending then some { s with pending := s.pending - 1, ran := s.ran + 1 } else none
  | .nRunExit =>   -- the unit calls ABT_xstream_exit: fetch_or(thread.request, CANCEL), then terminates
    if s.npc = .sched ∧ 0 < s.pending then
      some { s with pending := s.pending - 1, ran := s.ran + 1, creq := true, cause := true }
    else none
  | .nStop =>   -- ABTI_sched_has_to_stop
    if s.npc = .sched ∧ (s.ext = true ∨ (s.fin = true ∧ s.pending = 0)) then some { s with npc := .msf } else none
  | .nMsf brk =>
    if s.npc = .msf ∧ brk = (s.creq || (s.fin && s.pending == 0)) then some { s with npc := if brk then .mend else .sched }
    else none
  | .nMTerm => if s.npc = .mend then some { s with mterm := true, npc := .rootEnd } else none
  | .nPubTerm => if s.npc = .rootEnd then some { s with pub := true, npc := .fin } else none

/-- right after xstream_create: context created (native thread not yet scheduled), main scheduler in the root pool -/
def init : St :=
  { x := XsCtx.init.c, pub := false, fin := false, ext := false, jreq := false, creq := false, mterm := false,
    rootq := true, npc := .out, lpc := .idle, inFree := false, pending := 0, ran := 0, pushed := 0, cause := false,
    fault := false }

def machine : Machine St Ev := { init := init, step := step }

/-- steps of the native thread (used to state that the stream makes progress on its own) -/
def isNative : Ev → Bool
  | .ctx e => actorOf e = .T
  | .nRoot _ | .nLoadReq _ _ | .nSetFin | .nSetExit | .nRun | .nRunExit | .nStop | .nMsf _ | .nMTerm | .nPubTerm => true
  | _ => false

end ArgoVerif.Model.XsLife
