import ArgoVerif.Model.UnitMap
/-
Model.Assoc — association of a work unit with a pool (src/include/abti_unit.h):
`ABTI_thread_init_pool`, `ABTI_thread_set_associated_pool`,
`ABTI_unit_set_associated_pool`, `ABTI_thread_unset_associated_pool`, and the
calls they make to a user pool's `create_unit` / `free_unit` (for the legacy
`ABT_pool_def` these are the wrappers around `u_create_from_thread` / `u_free`)
and to the unit→thread table (Model.UnitMap).

A work unit's `unit` field is `ABT_UNIT_NULL` (no association; set by unset when error
checks are enabled), the built-in handle `p_thread | 1`, or a handle returned by a user
pool.  `ABTI_unit_is_builtin` tests bit 0: in this build `ABT_UNIT_NULL` is `0x7`, so a
NULL unit is taken for a built-in handle (`nullBuiltin = true`); with `ABT_NULL == 1` it
is `NULL` and taken for a user handle.  Both are outside the contract of the operations
below (a work unit without association is only created or freed).
Every call of `create_unit` / `free_unit` and every hand-over of a unit to a user
pool function is logged (newest first).  What the user's `create_unit` returns and
whether the table's `malloc` succeeds are inputs of each operation.
`none` results model the abort of the process (the table's assertions).
-/
namespace ArgoVerif.Model.Assoc
open ArgoVerif.Model.UnitMap

inductive URef where
  | null
  | builtin (t : Nat)
  | user (u : UInt64)
deriving Repr, DecidableEq

structure Thr where
  unit : URef
  pool : Option Nat
deriving Repr, DecidableEq

inductive Ev where
  /-- `p_create_unit(pool p, thread t)` returned `u` (`nul` = ABT_UNIT_NULL); `m`: how many
  elements of the unit table hold `u` at that instant -/
  | create (p t : Nat) (u : UInt64) (m : Nat)
  /-- `p_free_unit(pool p, u)`; `n`: how many elements of the unit table hold `u` at the instant of
  the call (the handle may be recycled by the pool from here on) -/
  | free (p : Nat) (u : UInt64) (n : Nat)
  | use (p : Nat) (u : UInt64)        -- `u` handed to a function of user pool `p` (push, remove, is_in_pool, …)
deriving Repr, DecidableEq

inductive Rc where
  | ok | other | mem                  -- ABT_SUCCESS, ABT_ERR_OTHER (create_unit returned NULL), ABT_ERR_MEM
deriving Repr, DecidableEq

structure St where
  thr : Nat → Thr
  map : UM
  isBuiltin : Nat → Bool
  nullBuiltin : Bool          -- bit 0 of `ABT_UNIT_NULL`
  log : List Ev

def St.init (exp : Nat) (nul : UInt64) (isBuiltin : Nat → Bool) : St :=
  { thr := fun _ => ⟨.null, none⟩, map := empty exp nul, isBuiltin := isBuiltin,
    nullBuiltin := nul &&& 1 != 0, log := [] }

/-- number of elements of the unit table that hold handle `u` (they can only be in `u`'s bucket) -/
def tblCount (m : UM) (u : UInt64) : Nat := ((m.b (hashIndex m.exp u)).filter (fun e => e.unit == u)).length

def updT (f : Nat → Thr) (t : Nat) (v : Thr) : Nat → Thr := fun x => if x = t then v else f x

/-- the common sequence `create_unit; if NULL fail; map; if failed free_unit, fail` -/
def newUserUnit (s : St) (t p : Nat) (nu : UInt64) (mem : Bool) : St × Rc :=
  let s1 := { s with log := .create p t nu (tblCount s.map nu) :: s.log }
  if nu = s.map.nul then (s1, .other)
  else match mapThread s1.map nu t mem with
    | none => ({ s1 with log := .free p nu (tblCount s1.map nu) :: s1.log }, .mem)
    | some m' => ({ s1 with map := m' }, .ok)

/-- the four non-trivial cases shared by `ABTI_thread_set_associated_pool` (unit read from
the descriptor) and `ABTI_unit_set_associated_pool` (unit given by the caller) -/
def setAssocCore (s : St) (t : Nat) (unit : URef) (p : Nat) (nu : UInt64) (mem : Bool) : Option (St × Rc) :=
  match unit with
  | .builtin _ =>
    if s.isBuiltin p then
      some ({ s with thr := updT s.thr t { (s.thr t) with pool := some p } }, .ok)
    else
      let (s1, rc) := newUserUnit s t p nu mem
      if rc = .ok then some ({ s1 with thr := updT s1.thr t ⟨.user nu, some p⟩ }, .ok) else some (s1, rc)
  | .null =>
    -- outside the contract.  `nullBuiltin`: taken for the built-in handle of a bogus descriptor
    -- (the pool is recorded, the unit stays NULL); otherwise the code would unmap ABT_UNIT_NULL
    if s.nullBuiltin && s.isBuiltin p then
      some ({ s with thr := updT s.thr t { (s.thr t) with pool := some p } }, .ok)
    else none
  | .user u =>
    match (s.thr t).pool with
    | none => none     -- `p_thread->p_pool` is NULL: dereferenced for `free_unit`
    | some oldp =>
      if s.isBuiltin p then
        match unmapThread s.map u with
        | none => none
        | some m' =>
          some ({ s with map := m', log := .free oldp u (tblCount m' u) :: s.log, thr := updT s.thr t ⟨.builtin t, some p⟩ }, .ok)
      else if oldp = p then some (s, .ok)
      else
        let (s1, rc) := newUserUnit s t p nu mem
        if rc = .ok then
          match unmapThread s1.map u with
          | none => none
          | some m' =>
            some ({ s1 with map := m', log := .free oldp u (tblCount m' u) :: s1.log, thr := updT s1.thr t ⟨.user nu, some p⟩ }, .ok)
        else some (s1, rc)

/-- `ABTI_thread_set_associated_pool` -/
def setAssoc (s : St) (t p : Nat) (nu : UInt64) (mem : Bool) : Option (St × Rc) :=
  setAssocCore s t (s.thr t).unit p nu mem

/-- `ABTI_unit_get_thread` -/
def unitThread (s : St) : URef → Option Nat
  | .builtin t => some t
  | .user u => getThread s.map u
  | .null => none

/-- `ABTI_unit_set_associated_pool` (ABT_pool_push, ABT_xstream_run_unit) -/
def unitSetAssoc (s : St) (unit : URef) (p : Nat) (nu : UInt64) (mem : Bool) : Option (St × Rc) :=
  match unitThread s unit with
  | none => none
  | some t => setAssocCore s t unit p nu mem

/-- `ABTI_thread_init_pool` -/
def initPool (s : St) (t p : Nat) (nu : UInt64) (mem : Bool) : St × Rc :=
  if s.isBuiltin p then ({ s with thr := updT s.thr t ⟨.builtin t, some p⟩ }, .ok)
  else
    let (s1, rc) := newUserUnit s t p nu mem
    if rc = .ok then ({ s1 with thr := updT s1.thr t ⟨.user nu, some p⟩ }, .ok) else (s1, rc)

/-- `ABTI_thread_unset_associated_pool` (error checks enabled: fields are cleared) -/
def unsetAssoc (s : St) (t : Nat) : Option St :=
  match (s.thr t).unit with
  | .builtin _ => some { s with thr := updT s.thr t ⟨.null, none⟩ }
  | .null => if s.nullBuiltin then some s else none
  | .user u =>
    match (s.thr t).pool, unmapThread s.map u with
    | some oldp, some m' =>
      some { s with map := m', log := .free oldp u (tblCount m' u) :: s.log, thr := updT s.thr t ⟨.null, none⟩ }
    | _, _ => none

/-- `ABTI_pool_push(p_thread->p_pool, p_thread->unit)` and friends: the unit handed to the pool
is the one stored in the descriptor at that moment -/
def poolUse (s : St) (t : Nat) : St :=
  match (s.thr t).unit, (s.thr t).pool with
  | .user u, some p => { s with log := .use p u :: s.log }
  | _, _ => s

/-! ## batch operations of the pool API (`ABT_pool_pop_threads`, the adapter over a legacy `ABT_pool_def`) -/
/-- what a pop of at most `m` units does to the content `q` of a FIFO-ordered pool: (units handed out, units that stay) -/
def popManySplit (q : List Nat) (m : Nat) : List Nat × List Nat := (q.take m, q.drop m)

/-- the adapter over a legacy definition: call the user's `p_pop` (which hands out the head) until the buffer of `m` slots is
full or the pool reports empty; returns (units stored in the buffer, units left in the pool, calls of `p_pop`) -/
def popManyLoop (q : List Nat) : Nat → List Nat × List Nat × Nat
  | 0 => ([], q, 0)
  | m + 1 =>
    match q with
    | [] => ([], [], 1)                       -- the call that finds the pool empty
    | t :: rest =>
      let (got, left, calls) := popManyLoop rest m
      (t :: got, left, calls + 1)

inductive Op where
  | init (t p : Nat) (nu : UInt64) (mem : Bool)
  | setPool (t p : Nat) (nu : UInt64) (mem : Bool)
  | unitSetPool (unit : URef) (p : Nat) (nu : UInt64) (mem : Bool)
  | unset (t : Nat)
  | use (t : Nat)
  | lookup (unit : URef)
deriving Repr

inductive Out where
  | rc (r : Rc)
  | done
  | thread (t : Nat)
deriving Repr, DecidableEq

def step (s : St) : Op → Option (St × Out)
  | .init t p nu mem => let (s', r) := initPool s t p nu mem; some (s', .rc r)
  | .setPool t p nu mem => (setAssoc s t p nu mem).map fun (s', r) => (s', .rc r)
  | .unitSetPool u p nu mem => (unitSetAssoc s u p nu mem).map fun (s', r) => (s', .rc r)
  | .unset t => (unsetAssoc s t).map fun s' => (s', .done)
  | .use t => some (poolUse s t, .done)
  | .lookup u => (unitThread s u).map fun t => (s, .thread t)

def runOps (s : St) : List Op → Option (St × List Out)
  | [] => some (s, [])
  | op :: ops =>
    match step s op with
    | none => none
    | some (s1, o) =>
      match runOps s1 ops with
      | none => none
      | some (s2, os) => some (s2, o :: os)

/-! ### reading the event log (newest first) -/

/-- is unit `u` of pool `p` live (created, not yet freed) after this log? -/
def liveL (z : UInt64) : List Ev → UInt64 → Nat → Bool
  | [], _, _ => false
  | .create p' _ u' _ :: r, u, p => if u' = u ∧ p' = p ∧ u ≠ z then true else liveL z r u p
  | .free p' u' _ :: r, u, p => if u' = u ∧ p' = p then false else liveL z r u p
  | .use _ _ :: r, u, p => liveL z r u p

/-- every `create_unit` result is a unit that is not live, every `free_unit` and every use
concerns a live unit -/
def LogOK (z : UInt64) : List Ev → Prop
  | [] => True
  | .create p _ u _ :: r => (u ≠ z → liveL z r u p = false) ∧ LogOK z r
  | .free p u _ :: r => liveL z r u p = true ∧ LogOK z r
  | .use p u :: r => liveL z r u p = true ∧ LogOK z r

def creates : List Ev → UInt64 → Nat → Nat
  | [], _, _ => 0
  | .create p' _ u' _ :: r, u, p => (if u' = u ∧ p' = p then 1 else 0) + creates r u p
  | _ :: r, u, p => creates r u p

def frees : List Ev → UInt64 → Nat → Nat
  | [], _, _ => 0
  | .free p' u' _ :: r, u, p => (if u' = u ∧ p' = p then 1 else 0) + frees r u p
  | _ :: r, u, p => frees r u p

/-- `create_unit` calls, over all pools, that returned handle `u` -/
def crT : List Ev → UInt64 → Nat
  | [], _ => 0
  | .create _ _ u' _ :: r, u => (if u' = u then 1 else 0) + crT r u
  | _ :: r, u => crT r u

/-- `free_unit` calls, over all pools, for handle `u` -/
def frT : List Ev → UInt64 → Nat
  | [], _ => 0
  | .free _ u' _ :: r, u => (if u' = u then 1 else 0) + frT r u
  | _ :: r, u => frT r u

/-- order of the user callbacks relative to the table operations, read off the recorded table
multiplicities: when `create_unit` returns `u`, and when `free_unit` is called with `u`, the unit
table holds `u` exactly as often as there are *other* outstanding units with that handle (units
created and not yet passed to `free_unit`; more than zero only when pools share a handle for one
work unit).  In particular the unit being created is not mapped yet and the unit being freed is
not mapped any more: a handle the pool may recycle is never still in the table. -/
def CountOK (z : UInt64) : List Ev → Prop
  | [] => True
  | .create _ _ u m :: r => (u ≠ z → m + frT r u = crT r u) ∧ CountOK z r
  | .free _ u n :: r => n + 1 + frT r u = crT r u ∧ CountOK z r
  | .use _ _ :: r => CountOK z r

end ArgoVerif.Model.Assoc
