/-
Model.MigRules — the decision a migration request makes before it records anything
(thread.c `ABT_thread_migrate_to_pool`, `ABT_thread_migrate_to_sched`, `ABT_thread_migrate_to_xstream`):

    not migratable                          -> ABT_ERR_INV_THREAD
    a main-scheduler ULT                    -> ABT_ERR_INV_THREAD
    to_pool p:    p is the unit's pool      -> ABT_ERR_MIGRATION_TARGET
    to_sched s /  the unit's pool is any
    to_xstream x: pool of s / of x's main
                  scheduler                 -> ABT_ERR_MIGRATION_TARGET
    otherwise the request is recorded for the pool `ABTI_sched_get_migration_pool` picks (the first pool of a predefined
    scheduler); a scheduler without pools gives ABT_ERR_MIGRATION_NA.
-/
namespace ArgoVerif.Model.MigRules

inductive Target
  | pool (p : Nat)
  | sched (pools : List Nat)        -- the pools of the named scheduler / of the named stream's main scheduler
deriving Repr

structure WUnit where
  pool : Nat
  migratable : Bool
  mainSched : Bool

inductive Rc | ok | invThread | migrationTarget | migrationNa
deriving DecidableEq, Repr

/-- the pool a recorded request names -/
def chosen : Target → Option Nat
  | .pool p => some p
  | .sched ps => ps.head?

def request (u : WUnit) (t : Target) : Rc :=
  if !u.migratable then .invThread
  else if u.mainSched then .invThread
  else match t with
    | .pool p => if p = u.pool then .migrationTarget else .ok
    | .sched ps => if u.pool ∈ ps then .migrationTarget else (if ps.isEmpty then .migrationNa else .ok)

end ArgoVerif.Model.MigRules
