import ArgoVerif.Model.HTable
import ArgoVerif.Gen.EnvTable
/-
Model.Config — `ABT_sched_config` (src/sched/sched_config.c) and `ABT_pool_config`
(src/pool/pool_config.c): typed elements stored by value in an `ABTU_hashtable`
(Model.HTable) keyed by the user's `int` index / key.

Kept from the C code:
 * an element is `{ type tag; union { int; double; void * } }`, built by
   `memset 0` + the two field stores and copied by value in and out of the table:
   modelled as (type, bit pattern) and stored in the table as one number (`enc`),
   the bit pattern being the 32-bit two's-complement pattern of the `int`, the IEEE
   bits of the `double`, or the address.
 * `*_config_create_element_typed`: `switch (type)` over the three tags, anything
   else is `ABT_ERR_INV_ARG` (nothing stored).
 * `ABT_*_config_set(idx, type, val)`: `val == NULL` deletes the key (the `type`
   argument is ignored and the call succeeds even if the key is absent), otherwise
   build the element, then `ABTU_hashtable_set` (overwrites, also with another type).
 * `ABT_*_config_get`: `ABT_ERR_INV_ARG` iff the key is absent; otherwise the stored
   type and the stored bits (written with the width of the *stored* type).
 * `ABT_sched_config_create(&c, var1, val1, …, ABT_sched_config_var_end)`: reads
   (var, value) pairs until a var whose `idx` equals `ABT_sched_config_var_end.idx`
   (-1) — whatever its type; a var with an invalid type makes the call fail with
   `ABT_ERR_INV_ARG` (table freed); later pairs overwrite earlier ones.
   `ABT_pool_config_create` takes no pairs.
 * `ABT_sched_config_read(c, num_vars, p0, p1, …)`: for idx = 0 .. num_vars-1, if
   `p_idx != NULL` and idx is present, store the element through the pointer (with
   the stored type's width); always succeeds.  The predefined variables have the
   negative indices -2, -3, -4 (pool: -2) and are read by `ABTI_*_config_read`.
 * table size `SCHED_CONFIG_HTABLE_SIZE` / `POOL_CONFIG_HTABLE_SIZE` from the tree.
-/
namespace ArgoVerif.Model.Config
open ArgoVerif.Model ArgoVerif.Gen.EnvTable

inductive Ty where
  | int | double | ptr
deriving DecidableEq, Repr

inductive Kind where
  | sched | pool
deriving DecidableEq, Repr

/-- the `switch (type)` of `*_config_create_element_typed` / of the varargs loop -/
def tyOfTag (k : Kind) (tag : Int) : Option Ty :=
  match k with
  | .sched =>
    if tag = schedConfigInt then some .int else if tag = schedConfigDouble then some .double
    else if tag = schedConfigPtr then some .ptr else none
  | .pool =>
    if tag = poolConfigInt then some .int else if tag = poolConfigDouble then some .double
    else if tag = poolConfigPtr then some .ptr else none

def tagOf (k : Kind) : Ty → Int
  | .int => (match k with | .sched => schedConfigInt | .pool => poolConfigInt)
  | .double => (match k with | .sched => schedConfigDouble | .pool => poolConfigDouble)
  | .ptr => (match k with | .sched => schedConfigPtr | .pool => poolConfigPtr)

structure Elem where
  ty : Ty
  bits : Nat
deriving DecidableEq, Repr

def Ty.code : Ty → Nat
  | .int => 0 | .double => 1 | .ptr => 2
def Ty.ofCode (n : Nat) : Ty := if n = 0 then .int else if n = 1 then .double else .ptr

/-- the element as the table stores it (one value) -/
def enc (e : Elem) : HTable.Val := 3 * e.bits + e.ty.code
def dec (v : HTable.Val) : Elem := ⟨Ty.ofCode (v % 3), v / 3⟩

structure Config where
  kind : Kind
  table : HTable.HT

def tableSize : Kind → Nat
  | .sched => schedConfigHtableSize | .pool => poolConfigHtableSize

/-- `ABT_pool_config_create`, and `ABT_sched_config_create` before its varargs loop -/
def createEmpty (k : Kind) : Config := ⟨k, HTable.create (tableSize k)⟩

/-- `ABT_*_config_set`: returns the error code -/
def set (c : Config) (idx : Int) (tag : Int) (val : Option Nat) : Config × Int :=
  match val with
  | none => ({ c with table := (HTable.delete c.table idx).1 }, errSuccess)
  | some bits =>
    match tyOfTag c.kind tag with
    | none => (c, errInvArg)
    | some ty => ({ c with table := (HTable.set c.table idx (enc ⟨ty, bits⟩)).1 }, errSuccess)

/-- `ABT_*_config_get` / `ABTI_*_config_read`: `none` = ABT_ERR_INV_ARG -/
def get (c : Config) (idx : Int) : Option Elem := (HTable.get c.table idx).map dec

/-- `ABT_sched_config_read(c, num_vars, ptrs…)`: what is stored through each pointer
(`none`: pointer NULL or index absent — the pointee is untouched) -/
def read (c : Config) (ptrs : List Bool) : List (Option Elem) :=
  ptrs.zipIdx.map fun (nonNull, i) => if nonNull then get c (i : Int) else none

/-- the varargs loop of `ABT_sched_config_create`: pairs (idx, type tag, value bits) -/
def createLoop (c : Config) : List (Int × Int × Nat) → Option Config
  | [] => some c      -- the caller's list ran out: the C would read past the arguments (UB); not generated
  | (idx, tag, bits) :: rest =>
    if idx = schedConfigVarEndIdx then some c
    else
      match tyOfTag .sched tag with
      | none => none                                   -- ABT_ERR_INV_ARG, everything freed
      | some ty => createLoop { c with table := (HTable.set c.table idx (enc ⟨ty, bits⟩)).1 } rest

def schedCreate (args : List (Int × Int × Nat)) : Option Config := createLoop (createEmpty .sched) args

/-- operations of the line protocol / of the theorem -/
inductive Op where
  | set (idx tag : Int) (val : Option Nat)
  | get (idx : Int)
  | read (ptrs : List Bool)
deriving Repr

inductive Out where
  | err (code : Int)
  | got (r : Option Elem)
  | readR (r : List (Option Elem))
deriving Repr, DecidableEq

def step (c : Config) : Op → Config × Out
  | .set idx tag val => let (c', e) := set c idx tag val; (c', .err e)
  | .get idx => (c, .got (get c idx))
  | .read ptrs => (c, .readR (read c ptrs))

def runOps (c : Config) : List Op → Config × List Out
  | [] => (c, [])
  | op :: ops => let (c1, o) := step c op; let (c2, os) := runOps c1 ops; (c2, o :: os)

end ArgoVerif.Model.Config
