import ArgoVerif.Core.LTS
/-
Model.RWLock — ABT_rwlock (src/rwlock.c; struct ABTI_rwlock = { ABTI_mutex mutex; ABTI_cond cond;
size_t reader_count; int write_flag }) as an interleaving transition system for any number of callers.

The code (API 1.x build, `ABT_CONFIG_ENABLE_VER_20_API` off):

  rdlock:  if the caller is a tasklet: return ABT_ERR_RWLOCK          (before anything is touched)
           lock(mutex); while (write_flag) cond_wait(cond, mutex);
           reader_count++; unlock(mutex)
  wrlock:  tasklet check as above
           lock(mutex); while (write_flag || reader_count) cond_wait(cond, mutex);
           write_flag = 1; unlock(mutex)
  unlock:  lock(mutex); if (write_flag) write_flag = 0; else reader_count--;      (no owner is recorded:
           cond_broadcast(cond); unlock(mutex)                                     the flag alone decides)

Granularity and what justifies it
  * the internal mutex is one atomic acquire (`mutexLock a`, enabled only when free) and one atomic release
    (`mutexUnlock a`).  Justified by C04 `Props.C04.mutex_excl` (at most one caller is between its successful
    test-and-set of the lock word and the clearing of it) and `mutex_no_lost_wakeup_safety` /
    `mutex_broadcast_wakes_all` (a blocked locker of the mutex is woken by every unlock, so "enabled when free" is
    the right abstraction of ABTI_mutex_lock).  The embedded ABTI_mutex is additionally validated against
    Model.Mutex itself on every T3 trace (vlib/t3_rw.py).
  * `reader_count` and `write_flag` are plain memory read and written only by the holder of the mutex; the loop test
    and the statements after the loop are therefore one silent step `update a` (enabled only when the loop predicate
    is false) or the step `sleep a` (enabled only when it is true).
  * `sleep a` = ABTI_cond_wait up to the point where the caller is in the wait-list: "release the mutex and enter the
    wait-list atomically".  Justified by C05 `Props.C05.cond_atomic_release_wait`: from the mutex release inside wait
    until the enqueue the waiter holds the cond lock, and a broadcaster needs that lock, so no broadcast falls in
    between.  `enq a` is the observation of the real enqueue (E 50); it changes nothing.
  * a sleeper continues only after a broadcaster dequeued it (`wake b n`; b is inside ABTI_cond_broadcast): C05
    `cond_no_spurious` (a wait returns only after READY was stored into the node by a signal/broadcast) and
    `cond_waiter_queued_until_woken`; it then re-acquires the mutex (`cond_returns_holding_mutex`) and re-evaluates
    its predicate (pc `rWoken`/`wWoken` → `mutexLock` → `rTest`/`wTest`).
  * the broadcast wakes the whole list, head first, inside the unlocker's mutex critical section: the unlocker can
    release the mutex only with an empty list (C05 `cond_signal_broadcast_exact`).
  * the ABT_ERR_INV_MUTEX branch of ABTI_cond_wait (`abt_errno != ABT_SUCCESS` in the loops) needs a condition
    variable already bound to a different mutex (C05 `cond_wrong_mutex_rejected`); the rwlock's private cond is only
    ever used with the rwlock's own mutex, so the branch is dead and not modelled.

Ghost state: `readers` (multiset of callers holding as readers, one entry per successful rdlock: a reader may
lock again as a reader) and `writer`.  They are updated where the code updates the counters, and — for unlock —
*as the code decides* (by `write_flag`), not by who the caller is; `Props.C10.rw_unlock_matches` shows the two agree.

Client discipline (API contract, encoded as guards of `call`): unlock is called by a holder; a holder does not call
wrlock and the writer does not call rdlock (self-deadlock of the caller otherwise).
-/
namespace ArgoVerif.Model.RWLock
open ArgoVerif

abbrev Actor := Nat

inductive Kind | ult | ext | tasklet
deriving DecidableEq, Repr

inductive Op | rdlock | wrlock | unlock
deriving DecidableEq, Repr

inductive Rc | ok | err
deriving DecidableEq, Repr

inductive Pc
  | idle
  | rRejected | wRejected                                   -- tasklet: ABTI_CHECK_TRUE failed, about to return ERR_RWLOCK
  | rLock | rTest | rSleep | rWoken | rUnlock | rDone       -- rdlock
  | wLock | wTest | wSleep | wWoken | wUnlock | wDone       -- wrlock
  | uLock | uUpd | uBcast | uDone                           -- unlock
deriving DecidableEq, Repr

inductive Ev
  | call (a : Actor) (op : Op)
  | ret (a : Actor) (op : Op) (rc : Rc)
  | mutexLock (a : Actor)
  | mutexUnlock (a : Actor)
  | sleep (a : Actor)                 -- cond_wait: release the mutex + enter the wait-list
  | enq (a : Actor)                   -- observation: the real enqueue on the cond wait-list
  | update (a : Actor)                -- loop predicate false; the plain statements that follow the loop
  | wake (a : Actor) (n : Actor)      -- broadcaster a dequeues (and readies) n
  | snap (rc : Int) (wf : Bool)       -- observation of the two plain fields while the mutex is free / being released
deriving Repr

structure St where
  kind : Actor → Kind
  mholder : Option Actor       -- who holds the internal mutex
  readerCount : Int            -- reader_count (size_t; never decremented at 0 under the invariant)
  writeFlag : Bool             -- write_flag
  q : List Actor               -- the cond wait-list, head first
  pc : Actor → Pc
  readers : List Actor         -- ghost: reader holders (with multiplicity)
  writer : Option Actor        -- ghost: the writer holder

def init (kind : Actor → Kind) : St :=
  { kind, mholder := none, readerCount := 0, writeFlag := false, q := [], pc := fun _ => .idle,
    readers := [], writer := none }

def setPc (s : St) (a : Actor) (p : Pc) : St := { s with pc := upd s.pc a p }

def stepCall (s : St) (a : Actor) : Op → Option St
  | .rdlock =>
    if s.pc a ≠ .idle then none
    else if s.kind a = .tasklet then some (setPc s a .rRejected)
    else if s.writer = some a then none
    else some (setPc s a .rLock)
  | .wrlock =>
    if s.pc a ≠ .idle then none
    else if s.kind a = .tasklet then some (setPc s a .wRejected)
    else if a ∈ s.readers ∨ s.writer = some a then none
    else some (setPc s a .wLock)
  | .unlock =>
    if s.pc a ≠ .idle then none
    else if a ∈ s.readers ∨ s.writer = some a then some (setPc s a .uLock)
    else none

def stepRet (s : St) (a : Actor) (op : Op) (rc : Rc) : Option St :=
  match s.pc a, op, rc with
  | .rRejected, .rdlock, .err => some (setPc s a .idle)
  | .wRejected, .wrlock, .err => some (setPc s a .idle)
  | .rDone, .rdlock, .ok => some (setPc s a .idle)
  | .wDone, .wrlock, .ok => some (setPc s a .idle)
  | .uDone, .unlock, .ok => some (setPc s a .idle)
  | _, _, _ => none

def takeM (s : St) (a : Actor) (p : Pc) : St := setPc { s with mholder := some a } a p
def dropM (s : St) (a : Actor) (p : Pc) : St := setPc { s with mholder := none } a p

def stepMutexLock (s : St) (a : Actor) : Option St :=
  if s.mholder ≠ none then none else
  match s.pc a with
  | .rLock | .rWoken => some (takeM s a .rTest)
  | .wLock | .wWoken => some (takeM s a .wTest)
  | .uLock => some (takeM s a .uUpd)
  | _ => none

/-- `while (write_flag) cond_wait` / `while (write_flag || reader_count) cond_wait`: predicate true -/
def stepSleep (s : St) (a : Actor) : Option St :=
  match s.pc a with
  | .rTest => if s.writeFlag = true then some (dropM { s with q := s.q ++ [a] } a .rSleep) else none
  | .wTest => if s.writeFlag = true ∨ s.readerCount ≠ 0 then some (dropM { s with q := s.q ++ [a] } a .wSleep) else none
  | _ => none

/-- predicate false (lockers) / the if-else of unlock: the plain statements executed under the mutex -/
def stepUpdate (s : St) (a : Actor) : Option St :=
  match s.pc a with
  | .rTest =>
    if s.writeFlag = false then
      some (setPc { s with readerCount := s.readerCount + 1, readers := a :: s.readers } a .rUnlock)
    else none
  | .wTest =>
    if s.writeFlag = false ∧ s.readerCount = 0 then
      some (setPc { s with writeFlag := true, writer := some a } a .wUnlock)
    else none
  | .uUpd =>
    some (setPc { s with writeFlag := false,
                         readerCount := if s.writeFlag = true then s.readerCount else s.readerCount - 1,
                         writer := if s.writeFlag = true then none else s.writer,
                         readers := if s.writeFlag = true then s.readers else s.readers.erase a } a .uBcast)
  | _ => none

def wokenPc : Pc → Pc
  | .rSleep => .rWoken
  | .wSleep => .wWoken
  | p => p

/-- ABTI_cond_broadcast: the unlocker dequeues the head of the wait-list and makes it READY -/
def stepWake (s : St) (a n : Actor) : Option St :=
  match s.pc a, s.q with
  | .uBcast, h :: t => if h = n then some { s with q := t, pc := upd s.pc n (wokenPc (s.pc n)) } else none
  | _, _ => none

def stepMutexUnlock (s : St) (a : Actor) : Option St :=
  match s.pc a with
  | .rUnlock => some (dropM s a .rDone)
  | .wUnlock => some (dropM s a .wDone)
  | .uBcast => if s.q = [] then some (dropM s a .uDone) else none    -- the broadcast loop ends with an empty list
  | _ => none

def stepEnq (s : St) (a : Actor) : Option St :=
  if (s.pc a = .rSleep ∨ s.pc a = .wSleep) ∧ a ∈ s.q then some s else none

def step (s : St) : Ev → Option St
  | .call a op => stepCall s a op
  | .ret a op rc => stepRet s a op rc
  | .mutexLock a => stepMutexLock s a
  | .mutexUnlock a => stepMutexUnlock s a
  | .sleep a => stepSleep s a
  | .enq a => stepEnq s a
  | .update a => stepUpdate s a
  | .wake a n => stepWake s a n
  | .snap rc wf => if rc = s.readerCount ∧ wf = s.writeFlag then some s else none

def machine (kind : Actor → Kind) : Machine St Ev := { init := init kind, step := step }

/-! ### executable enabledness (for `rw_deadlock_free`) -/

/-- the progress events actor `a` could perform next: everything except observations and new lock calls; a holder's
`call unlock` counts as progress (hypothesis of the property: the current holders unlock) -/
def candidates (s : St) (a : Actor) : List Ev :=
  [.ret a .rdlock .err, .ret a .wrlock .err, .ret a .rdlock .ok, .ret a .wrlock .ok, .ret a .unlock .ok,
   .mutexLock a, .sleep a, .update a, .mutexUnlock a, .call a .unlock] ++
  (match s.q with | n :: _ => [Ev.wake a n] | [] => [])

def enabledFor (s : St) (a : Actor) : Bool := (candidates s a).any fun e => (step s e).isSome

/-- inside a call, or holding the lock -/
def active (s : St) (a : Actor) : Bool := decide (s.pc a ≠ .idle) || decide (a ∈ s.readers) || decide (s.writer = some a)

def enabled (s : St) (acts : List Actor) : Bool := acts.any fun a => active s a && enabledFor s a

end ArgoVerif.Model.RWLock
