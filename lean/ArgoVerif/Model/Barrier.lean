import ArgoVerif.Core.LTS
/-
Model.Barrier — ABT_barrier (src/barrier.c) as a labelled transition system at the granularity
call → critical section(s) under `p_barrier->lock` → (wait) → return, and ABT_xstream_barrier
(src/stream_barrier.c, pthread_barrier build) in the namespace `XBarrier` below.

  ABT_barrier_wait:
      tasklet caller (1.x API): return ABT_ERR_BARRIER before touching the barrier
      acquire lock
      counter++                                     (plain store right after the test-and-set: event `acq`)
      if counter < num_waiters:  enqueue self (`enq`); wait_and_unlock releases the lock (`rel`) ... woken ... return
      else: broadcast { for each node from the head: dequeue + make READY (`wake`) }; counter = 0; release (`rel`)
  ABT_barrier_reinit(n): n = 0 -> ABT_ERR_INV_ARG, nothing changes;  otherwise num_waiters = n
      (no lock; documented precondition: nobody is waiting, counter = 0)

The wait-list sub-protocol (BLOCKED/READY stores, futex, suspension) belongs to Model.WaitList; here a
waiter is `waiting` after the critical section that enqueued it and `woken` once a broadcaster
dequeued it.  A non-ULT waiter may re-take and release the lock inside its wait loop (`reW`, `reR`).
`rel` carries the snapshot of the object taken when the lock word is cleared (counter, num_waiters,
wait-list empty?): it must equal the model state.

The futex generation word of the wait-list (`waitlist.futex.val`, Linux-futex build) is part of the model because
the barrier is re-initialised while slow waiters are still leaving: a non-ULT waiter samples the word under the lock
before it sleeps (`fsamp`: `original_val` of ABTD_futex_wait_and_unlock) and sleeps `while (val == original_val)`;
a broadcast that dequeued at least one non-ULT waiter (`wny` = the local `wakeup_nonyieldable`) increments the word
before the lock is released (`fbump`); nothing else ever writes it — in particular not ABT_barrier_reinit.  `obsF` is
any other load of the word.

Ghost state: `round` (number of completed rounds = counter resets), `entered k` (calls counted into
round k), `need k` (num_waiters in effect for round k), `roundOf a` (round of a's current call).
-/
namespace ArgoVerif.Model.Barrier
open ArgoVerif

abbrev Actor := Nat

inductive Kind | ult | task | ext
deriving DecidableEq, Repr

inductive Rc | ok | errBarrier | errInvArg
deriving DecidableEq, Repr

inductive Pc
  | idle
  | rejected   -- tasklet inside ABT_barrier_wait: will return ABT_ERR_BARRIER
  | called     -- about to acquire the lock
  | csWait     -- lock held, counter incremented, counter < num_waiters: about to enqueue
  | csEnq      -- lock held, enqueued: wait_and_unlock releases the lock next
  | waiting    -- enqueued, lock released, not yet woken
  | reW        -- non-ULT waiter holding the lock again inside its wait loop, not woken
  | woken      -- dequeued by the last arrival
  | reR        -- non-ULT waiter holding the lock again although already woken
  | csLast     -- lock held, counter = num_waiters: broadcasting, then reset + release
  | done       -- the last arrival after its release
deriving DecidableEq, Repr

inductive Ev
  | call (a : Actor)
  | ret (a : Actor) (rc : Rc)
  | acq (a : Actor) (old : Bool)
  | enq (a : Actor)
  | wake (a : Actor) (n : Actor)
  | rel (a : Actor) (counter : Nat) (nw : Nat) (empty : Bool)
  | reinit (n : Nat) (rc : Rc)
  | obsLock (v : Bool)
  | obs (counter : Nat) (nw : Nat)      -- snapshot taken inside a critical section (at the futex-word store of the broadcast)
  | fsamp (a : Actor) (v : Nat)         -- non-ULT waiter, lock held: original_val = load(futex.val)
  | fbump (a : Actor) (v : Nat)         -- broadcaster: futex.val = current_val + 1 (then FUTEX_WAKE)
  | obsF (v : Nat)                      -- any other load of futex.val (the sleeper's re-check, the broadcaster's read)
deriving Repr

structure St where
  kind : Actor → Kind
  nw : Nat                    -- num_waiters
  counter : Nat
  lock : Option Actor         -- lock word set ⇔ isSome; ghost: who holds it
  q : List Actor              -- wait-list, head first
  pc : Actor → Pc
  round : Nat                 -- ghost
  entered : Nat → Nat         -- ghost
  need : Nat → Nat            -- ghost
  roundOf : Actor → Nat       -- ghost
  fval : Nat                  -- waitlist.futex.val (generation counter of the futex)
  samp : Actor → Nat          -- the value a non-ULT waiter sampled before it went to sleep
  wny : Bool                  -- wakeup_nonyieldable of the broadcast in progress: an increment of fval is due

def init (kind : Actor → Kind) (nw : Nat) : St :=
  { kind, nw, counter := 0, lock := none, q := [], pc := fun _ => .idle, round := 0,
    entered := fun _ => 0, need := fun _ => 0, roundOf := fun _ => 0, fval := 0, samp := fun _ => 0, wny := false }

def setPc (s : St) (a : Actor) (p : Pc) : St := { s with pc := upd s.pc a p }

def stepCall (s : St) (a : Actor) : Option St :=
  if s.pc a = .idle then
    some (setPc s a (if s.kind a = .task then .rejected else .called))
  else none

def stepRet (s : St) (a : Actor) (rc : Rc) : Option St :=
  match s.pc a, rc with
  | .rejected, .errBarrier => some (setPc s a .idle)
  | .woken, .ok => some (setPc s a .idle)
  | .done, .ok => some (setPc s a .idle)
  | _, _ => none

/-- entry into the barrier: the test-and-set succeeded, `counter++` follows immediately -/
def enter (s : St) (a : Actor) : St :=
  let c := s.counter + 1
  setPc { s with lock := some a, counter := c, roundOf := upd s.roundOf a s.round,
                 entered := upd s.entered s.round (s.entered s.round + 1),
                 need := upd s.need s.round s.nw }
    a (if c < s.nw then .csWait else .csLast)

def stepAcq (s : St) (a : Actor) (old : Bool) : Option St :=
  if old ≠ s.lock.isSome then none else
  if old then
    -- a failed test-and-set: the caller keeps spinning
    (if s.pc a = .called ∨ ((s.pc a = .waiting ∨ s.pc a = .woken) ∧ s.kind a ≠ .ult) then some s else none)
  else
    match s.pc a with
    | .called => some (enter s a)
    | .waiting => if s.kind a = .ult then none else some (setPc { s with lock := some a } a .reW)
    | .woken => if s.kind a = .ult then none else some (setPc { s with lock := some a } a .reR)
    | _ => none

def stepEnq (s : St) (a : Actor) : Option St :=
  if s.pc a = .csWait then some (setPc { s with q := s.q ++ [a] } a .csEnq) else none

def stepWake (s : St) (a n : Actor) : Option St :=
  match s.pc a, s.q with
  | .csLast, h :: t =>
    if h = n then some (setPc { s with q := t, wny := if s.kind n = .ult then s.wny else true } n .woken) else none
  | _, _ => none

/-- the state a critical section leaves behind must equal the snapshot taken at the lock release -/
def chk (s : St) (c nw : Nat) (e : Bool) : Option St :=
  if c = s.counter ∧ nw = s.nw ∧ e = s.q.isEmpty then some s else none

def stepRel (s : St) (a : Actor) (c nw : Nat) (e : Bool) : Option St :=
  match s.pc a with
  | .csEnq => chk (setPc { s with lock := none } a .waiting) c nw e
  | .reW => chk (setPc { s with lock := none } a .waiting) c nw e
  | .reR => chk (setPc { s with lock := none } a .woken) c nw e
  | .csLast =>
    -- the broadcast loop ran until the list was empty (and bumped the futex word if it had to); then `counter = 0`,
    -- then the release
    if s.q = [] ∧ s.wny = false then chk (setPc { s with lock := none, counter := 0, round := s.round + 1 } a .done) c nw e
    else none
  | _ => none

def stepReinit (s : St) (n : Nat) (rc : Rc) : Option St :=
  if n = 0 then (if rc = .errInvArg then some s else none)
  else if rc = .ok ∧ s.counter = 0 then some { s with nw := n } else none

def stepFsamp (s : St) (a : Actor) (v : Nat) : Option St :=
  if (s.pc a = .csEnq ∨ s.pc a = .reW) ∧ s.kind a ≠ .ult ∧ v = s.fval then some { s with samp := upd s.samp a v } else none

def stepFbump (s : St) (a : Actor) (v : Nat) : Option St :=
  if s.pc a = .csLast ∧ s.q = [] ∧ s.wny = true ∧ v = s.fval + 1 then some { s with fval := v, wny := false } else none

def step (s : St) : Ev → Option St
  | .call a => stepCall s a
  | .ret a rc => stepRet s a rc
  | .acq a old => stepAcq s a old
  | .enq a => stepEnq s a
  | .wake a n => stepWake s a n
  | .rel a c nw e => stepRel s a c nw e
  | .reinit n rc => stepReinit s n rc
  | .obsLock v => if v = s.lock.isSome then some s else none
  | .obs c nw => if c = s.counter ∧ nw = s.nw then some s else none
  | .fsamp a v => stepFsamp s a v
  | .fbump a v => stepFbump s a v
  | .obsF v => if v = s.fval then some s else none

def machine (kind : Actor → Kind) (nw : Nat) : Machine St Ev :=
  { init := init kind nw, step := step }

end ArgoVerif.Model.Barrier

/-
XBarrier — ABT_xstream_barrier_wait in the HAVE_PTHREAD_BARRIER_INIT build:

    if (p_barrier->num_waiters > 1) pthread_barrier_wait(&p_barrier->bar);   return ABT_SUCCESS;

TRUSTED: pthread_barrier_wait on a barrier initialised with count = num_waiters blocks its callers
until `count` of them are inside and then releases exactly those (POSIX).  That primitive is the
`arrived` list below; the model adds the guard around it.  (The sense-reversal implementation is
compiled out in this build and not claimed.)
-/
namespace ArgoVerif.Model.XBarrier
open ArgoVerif

abbrev Actor := Nat

inductive Pc | idle | skipped | inPrim | released
deriving DecidableEq, Repr

inductive Ev
  | call (a : Actor)
  | ret (a : Actor)
deriving Repr

structure St where
  nw : Nat                    -- num_waiters given to create (= count of the pthread barrier)
  arrived : List Actor        -- trusted primitive: callers blocked inside pthread_barrier_wait
  pc : Actor → Pc
  round : Nat                 -- ghost: completed rounds
  entered : Nat → Nat         -- ghost: calls counted into round k
  roundOf : Actor → Nat       -- ghost

def init (nw : Nat) : St :=
  { nw, arrived := [], pc := fun _ => .idle, round := 0, entered := fun _ => 0, roundOf := fun _ => 0 }

def stepCall (s : St) (a : Actor) : Option St :=
  if s.pc a ≠ .idle then none else
  let s1 := { s with roundOf := upd s.roundOf a s.round, entered := upd s.entered s.round (s.entered s.round + 1) }
  if 1 < s.nw then
    -- pthread_barrier_wait
    if s.arrived.length + 1 < s.nw then
      some { s1 with arrived := s.arrived ++ [a], pc := upd s.pc a .inPrim }
    else
      some { s1 with arrived := [], round := s.round + 1,
                     pc := fun x => if x = a ∨ x ∈ s.arrived then .released else s.pc x }
  else
    -- the guard: no primitive call at all; the call is a complete round of its own
    some { s1 with round := s.round + 1, pc := upd s.pc a .skipped }

def stepRet (s : St) (a : Actor) : Option St :=
  if s.pc a = .released ∨ s.pc a = .skipped then some { s with pc := upd s.pc a .idle } else none

def step (s : St) : Ev → Option St
  | .call a => stepCall s a
  | .ret a => stepRet s a

def machine (nw : Nat) : Machine St Ev := { init := init nw, step := step }

end ArgoVerif.Model.XBarrier
