import ArgoVerif.Core.LTS
/-
Model.Join — the join hand-shake between one joiner J and one target ULT T at the granularity of its atomic steps
(thread.c `thread_join`, `thread_join_futexwait`; abti_ythread.h `ABTI_ythread_atomic_get_joiner`, `ABTI_ythread_exit`;
ythread.c `ABTI_ythread_callback_suspend_join`).

  joiner (ULT):   if state(T) == TERMINATED return
                  old = fetch_or(T.request, JOIN)
                  if old & JOIN:  yield-loop until state(T) == TERMINATED           (T is already on its way out)
                  else:           suspend_join: [scheduler ctx] store BLOCKED(J); store T.link := J     (in this order)
                                  ... resumed by T ... ; yield-loop until state(T) == TERMINATED
  joiner (other): if state(T) == TERMINATED return
                  old = fetch_or(T.request, JOIN); if !(old & JOIN) { store T.link := dummy(futex); sleep on the futex }
                  busy-wait until state(T) == TERMINATED
  target exit:    l = load(T.link)
                  if l == NULL: old = fetch_or(T.request, JOIN)
                                if !(old & JOIN): no joiner
                                else: spin until load(T.link) != NULL
                  joiner found: resume it (ULT: direct jump or resume_and_push; other: futex store + wake)
                  ... exit callback ...: store state(T) := TERMINATED

The joiner may also arrive when T has long terminated.  One joiner per target (the API's contract).
-/
namespace ArgoVerif.Model.Join
open ArgoVerif

inductive JPc
  | idle | chk | fo | blk | lnk | blocked | ylp | done       -- ULT joiner
  | xfo | xlnk | xsleep | xbusy                              -- external thread / tasklet joiner
deriving DecidableEq, Repr

inductive TPc
  | run | ldl | fo | spin | res | term | done
deriving DecidableEq, Repr

inductive Ev
  | jCall (ult : Bool)
  | jLoadState (terminated : Bool)
  | jFetchOr (old : Bool)
  | jStoreBlocked
  | jStoreLink
  | jRet
  | tExit                    -- the target's function has returned / it calls exit: get_joiner starts
  | tLoadLink (set : Bool)
  | tFetchOr (old : Bool)
  | tResume                  -- the target resumes the joiner (ULT: READY/RUNNING store + push or jump; other: futex store)
  | tStoreTerminated
deriving Repr

structure St where
  jUlt : Bool
  reqJoin : Bool             -- ABTI_THREAD_REQ_JOIN bit of T.request
  link : Bool                -- T.ctx.p_link != NULL
  term : Bool                -- state(T) == TERMINATED
  jBlocked : Bool            -- state(J) == BLOCKED (ULT joiner) / sleeping on its futex (other)
  resumes : Nat              -- ghost: how often T resumed J
  found : Bool               -- ghost: get_joiner returned a joiner
  jWon : Bool                -- ghost: the joiner's fetch_or found the bit clear (it will block and publish the link)
  tWon : Bool                -- ghost: the target's fetch_or found the bit clear (there is no joiner to wake)
  jpc : JPc
  tpc : TPc

def init : St :=
  { jUlt := true, reqJoin := false, link := false, term := false, jBlocked := false, resumes := 0, found := false,
    jWon := false, tWon := false, jpc := .idle, tpc := .run }

def step (s : St) : Ev → Option St
  | .jCall ult =>
    if s.jpc = .idle then some { s with jUlt := ult, jpc := .chk } else none
  | .jLoadState t =>
    if t ≠ s.term then none else
    match s.jpc with
    | .chk => some { s with jpc := if t then .done else (if s.jUlt then .fo else .xfo) }
    | .ylp => some { s with jpc := if t then .done else .ylp }
    | .xbusy => some { s with jpc := if t then .done else .xbusy }
    | _ => none
  | .jFetchOr old =>
    if old ≠ s.reqJoin then none else
    match s.jpc with
    | .fo => some { s with reqJoin := true, jWon := s.jWon || !old, jpc := if old then .ylp else .blk }
    | .xfo => some { s with reqJoin := true, jWon := s.jWon || !old, jpc := if old then .xbusy else .xlnk }
    | _ => none
  | .jStoreBlocked =>
    if s.jpc = .blk then some { s with jBlocked := true, jpc := .lnk } else none
  | .jStoreLink =>
    match s.jpc with
    | .lnk => some { s with link := true, jpc := .blocked }
    | .xlnk => some { s with link := true, jBlocked := true, jpc := .xsleep }
    | _ => none
  | .jRet => if s.jpc = .done then some { s with jpc := .idle } else none
  | .tExit => if s.tpc = .run then some { s with tpc := .ldl } else none
  | .tLoadLink set =>
    if set ≠ s.link then none else
    match s.tpc with
    | .ldl => some { s with tpc := if set then .res else .fo, found := set }
    | .spin => some { s with tpc := if set then .res else .spin, found := set }
    | _ => none
  | .tFetchOr old =>
    if old ≠ s.reqJoin then none else
    if s.tpc = .fo then some { s with reqJoin := true, tWon := s.tWon || !old, tpc := if old then .spin else .term } else none
  | .tResume =>
    -- the joiner found through the link is resumed: it must be completely suspended
    if s.tpc = .res ∧ s.jBlocked = true ∧ (s.jpc = .blocked ∨ s.jpc = .xsleep) then
      some { s with jBlocked := false, resumes := s.resumes + 1, tpc := .term,
                    jpc := if s.jpc = .blocked then .ylp else .xbusy }
    else none
  | .tStoreTerminated =>
    if s.tpc = .term then some { s with term := true, tpc := .done } else none

def machine : Machine St Ev := { init := init, step := step }

/-- some step other than a repeated poll is possible (deadlock-freedom is stated with this) -/
def canProgress (s : St) : Bool :=
  (s.tpc ≠ .done) || (s.jpc = .done) || (s.jpc = .chk) || (s.jpc = .fo) || (s.jpc = .xfo) || (s.jpc = .blk) ||
  (s.jpc = .lnk) || (s.jpc = .xlnk) || ((s.jpc = .ylp || s.jpc = .xbusy) && s.term)

end ArgoVerif.Model.Join
