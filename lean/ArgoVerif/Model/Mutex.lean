import ArgoVerif.Core.LTS
/-
Model.Mutex — ABT_mutex (src/include/abti_mutex.h + the wait-list of abti_waitlist.h) as a
labelled transition system at the granularity of its atomic steps.

One actor = one caller (a ULT, a tasklet or an external thread).  An actor's program
counter follows the C control flow:

  lock:    while (tas lock) { acquire W; if (!tas lock) { clear W; break; }
                              enqueue; wait_and_unlock(W) }
  wait_and_unlock, ULT:   enqueue -> (switch to scheduler) store BLOCKED -> clear W -> ... woken -> retry
  wait_and_unlock, other: enqueue -> loop { if state==READY {clear W; break}
                                             clear W; futex sleep; if state==READY break; acquire W }
  trylock: tas lock
  spinlock: acquire lock (tas until success)
  unlock:  acquire W; clear lock; broadcast { for each node from the head: dequeue, store READY }; clear W
  recursive: owner/nesting fields, no atomic step when the owner re-locks / un-nests

`W` is `waiter_lock`.  Steps that belong to other models (pool push, blocked counters,
context switch) are not events here.  Loads are observations: `obsLock`, `obsW`.
-/
namespace ArgoVerif.Model.Mutex
open ArgoVerif

abbrev Actor := Nat

inductive Op | lock | trylock | spinlock | unlock
deriving DecidableEq, Repr

inductive Pc
  | idle | cs
  | lTry | lAcqW | lRetry | lGotRelW | lEnq | lSusp | lRelW | lWait
  | xCheck | xSleepRelW | xSleep | xReacqW | xReadyRelW
  | lDone
  | tTry | tOk | tFail | tTryHeld | tFailHeld
  | sTry
  | rNest | rUnnest
  | uAcqW | uRelLock | uBcast | uStore | uRelW | uDone
deriving DecidableEq, Repr

inductive Ev
  | call (a : Actor) (op : Op)
  | ret (a : Actor) (op : Op) (ok : Bool)
  | tasLock (a : Actor) (old : Bool)
  | clearLock (a : Actor)
  | tasW (a : Actor) (old : Bool)
  | clearW (a : Actor)
  | enq (a : Actor)
  | storeBlocked (a : Actor)
  | loadState (a : Actor) (ready : Bool)
  | deq (a : Actor) (n : Actor)
  | storeReady (a : Actor) (n : Actor)
  | obsLock (v : Bool)
  | obsW (v : Bool)
deriving Repr

structure St where
  recursive : Bool
  isUlt : Actor → Bool
  lockW : Bool                 -- p_mutex->lock
  wl : Bool                    -- p_mutex->waiter_lock
  wlOwner : Option Actor       -- ghost: on whose behalf W is held
  holder : Option Actor        -- ghost: who holds the mutex
  owner : Option Actor         -- owner_id (recursive mutexes)
  nest : Nat                   -- nesting_cnt
  q : List Actor               -- wait-list, head first
  pending : Option Actor       -- node dequeued by the broadcaster, READY not yet stored
  ready : Actor → Bool         -- wait-list node state READY (non-ULT waiters poll it)
  pc : Actor → Pc

def init (recursive : Bool) (isUlt : Actor → Bool) : St :=
  { recursive, isUlt, lockW := false, wl := false, wlOwner := none, holder := none, owner := none,
    nest := 0, q := [], pending := none, ready := fun _ => false, pc := fun _ => .idle }

def setPc (s : St) (a : Actor) (p : Pc) : St := { s with pc := upd s.pc a p }

/-! one small function per event kind -/

def stepCall (s : St) (a : Actor) : Op → Option St
  | .lock =>
    if s.pc a = .idle then some (setPc s a .lTry)
    else if s.pc a = .cs ∧ s.recursive = true ∧ s.owner = some a then some (setPc s a .rNest)
    else none
  | .trylock =>
    if s.pc a = .idle then some (setPc s a .tTry)
    else if s.pc a = .cs ∧ s.recursive = true ∧ s.owner = some a then some (setPc s a .rNest)
    else if s.pc a = .cs ∧ s.recursive = false then some (setPc s a .tTryHeld)
    else none
  | .spinlock =>
    if s.pc a = .idle then some (setPc s a .sTry)
    else if s.pc a = .cs ∧ s.recursive = true ∧ s.owner = some a then some (setPc s a .rNest)
    else none
  | .unlock =>
    if s.pc a = .cs then
      if s.recursive = true ∧ s.nest > 0 then some (setPc s a .rUnnest)
      else some (setPc { s with owner := none } a .uAcqW)
    else none

def stepRet (s : St) (a : Actor) (op : Op) (ok : Bool) : Option St :=
  match s.pc a, op, ok with
  | .lDone, .lock, true => some (setPc { s with owner := if s.recursive then some a else s.owner } a .cs)
  | .lDone, .spinlock, true => some (setPc { s with owner := if s.recursive then some a else s.owner } a .cs)
  | .tOk, .trylock, true => some (setPc { s with owner := if s.recursive then some a else s.owner } a .cs)
  | .tFail, .trylock, false => some (setPc s a .idle)
  | .tFailHeld, .trylock, false => some (setPc s a .cs)
  | .rNest, .lock, true => some (setPc { s with nest := s.nest + 1 } a .cs)
  | .rNest, .trylock, true => some (setPc { s with nest := s.nest + 1 } a .cs)
  | .rNest, .spinlock, true => some (setPc { s with nest := s.nest + 1 } a .cs)
  | .rUnnest, .unlock, true => some (setPc { s with nest := s.nest - 1 } a .cs)
  | .uDone, .unlock, true => some (setPc s a .idle)
  | _, _, _ => none

def acquire (s : St) (a : Actor) (p : Pc) : St :=
  setPc { s with lockW := true, holder := some a } a p

def stepTasLock (s : St) (a : Actor) (old : Bool) : Option St :=
  if old ≠ s.lockW then none else
  match s.pc a with
  | .lTry => some (if old then setPc s a .lAcqW else acquire s a .lDone)
  | .lRetry => some (if old then setPc s a .lEnq else acquire s a .lGotRelW)
  | .tTry => some (if old then setPc s a .tFail else acquire s a .tOk)
  | .tTryHeld => some (if old then setPc s a .tFailHeld else acquire s a .tOk)
  | .sTry => some (if old then s else acquire s a .lDone)
  | _ => none

def stepClearLock (s : St) (a : Actor) : Option St :=
  if s.pc a = .uRelLock then some (setPc { s with lockW := false, holder := none } a .uBcast) else none

def takeW (s : St) (a : Actor) (p : Pc) : St :=
  setPc { s with wl := true, wlOwner := some a } a p

def stepTasW (s : St) (a : Actor) (old : Bool) : Option St :=
  if old ≠ s.wl then none else
  match s.pc a with
  | .lAcqW => some (if old then s else takeW s a .lRetry)
  | .xReacqW => some (if old then s else takeW s a .xCheck)
  | .uAcqW => some (if old then s else takeW s a .uRelLock)
  | _ => none

def dropW (s : St) (a : Actor) (p : Pc) : St :=
  setPc { s with wl := false, wlOwner := none } a p

def stepClearW (s : St) (a : Actor) : Option St :=
  match s.pc a with
  | .lGotRelW => some (dropW s a .lDone)
  | .lRelW => some (dropW s a .lWait)
  | .xSleepRelW => some (dropW s a .xSleep)
  | .xReadyRelW => some (dropW s a .lTry)
  | .uRelW => some (dropW s a .uDone)
  | _ => none

def stepEnq (s : St) (a : Actor) : Option St :=
  if s.pc a = .lEnq then
    some (setPc { s with q := s.q ++ [a], ready := upd s.ready a false } a (if s.isUlt a then .lSusp else .xCheck))
  else none

def stepStoreBlocked (s : St) (a : Actor) : Option St :=
  if s.pc a = .lSusp then some (setPc s a .lRelW) else none

def stepLoadState (s : St) (a : Actor) (r : Bool) : Option St :=
  if r ≠ s.ready a then none else
  match s.pc a with
  | .xCheck => some (setPc s a (if r then .xReadyRelW else .xSleepRelW))
  | .xSleep => some (setPc s a (if r then .lTry else .xReacqW))
  | _ => none

def stepDeq (s : St) (a n : Actor) : Option St :=
  match s.pc a, s.q with
  | .uBcast, h :: t => if h = n then some (setPc { s with q := t, pending := some n } a .uStore) else none
  | _, _ => none

def stepStoreReady (s : St) (a n : Actor) : Option St :=
  if s.pc a = .uStore ∧ s.pending = some n then
    let s1 := { s with pending := none, ready := upd s.ready n true }
    let s2 := if s.isUlt n then setPc s1 n .lTry else s1
    some (setPc s2 a .uBcast)
  else none

/-- the broadcast loop ends when the list is empty: then W is released -/
def bcastDone (s : St) (a : Actor) : Option St :=
  if s.pc a = .uBcast ∧ s.q = [] then some (setPc s a .uRelW) else none

def step (s : St) : Ev → Option St
  | .call a op => stepCall s a op
  | .ret a op ok => stepRet s a op ok
  | .tasLock a old => stepTasLock s a old
  | .clearLock a => stepClearLock s a
  | .tasW a old => stepTasW s a old
  | .clearW a =>
    -- the broadcaster leaves its loop silently when the list is empty
    match bcastDone s a with
    | some s' => stepClearW s' a
    | none => stepClearW s a
  | .enq a => stepEnq s a
  | .storeBlocked a => stepStoreBlocked s a
  | .loadState a r => stepLoadState s a r
  | .deq a n => stepDeq s a n
  | .storeReady a n => stepStoreReady s a n
  | .obsLock v => if v = s.lockW then some s else none
  | .obsW v => if v = s.wl then some s else none

def machine (recursive : Bool) (isUlt : Actor → Bool) : Machine St Ev :=
  { init := init recursive isUlt, step := step }

end ArgoVerif.Model.Mutex
