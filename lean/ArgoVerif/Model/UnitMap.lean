import ArgoVerif.Core.LTS
/-
Model.UnitMap — the unit → work-unit map for user-defined pools (src/unit.c).

`p_global->unit_to_thread_entires[ABTI_UNIT_HASH_TABLE_SIZE]`: per bucket a
spinlock and a singly linked list of `unit_to_thread {unit, p_thread, p_next}`.
* `unit_map_thread`: under the bucket lock, reuse the first element whose `unit`
  is `ABT_UNIT_NULL` (a tombstone left by an unmap), else malloc a new element
  and release-store it as the new list head.  No check that the unit is absent.
* `unit_unmap_thread`: under the lock, find the first element with this unit
  and store `ABT_UNIT_NULL` into it (elements are never unlinked or freed before
  finalize).  Asserts that it finds one.
* `unit_get_thread_from_user_defined_unit`: lock-free: acquire-load the head,
  walk `p_next`, return `p_thread` of the first element whose `unit` matches.
  Asserts that it finds one.

Part 1: sequential semantics on `UInt64` unit handles with the real hash
function (this is what the differential driver runs).  A chain is the list of
its elements in `p_next` order, head first.  `none` results model the abort of
the process (failed `ABTI_ASSERT` / NULL dereference).
Part 2: interleaving model of map / unmap / lock-free get on a heap of list
cells, one transition per load/store of a cell field or lock operation.
-/
namespace ArgoVerif.Model.UnitMap

/-- `unit_get_hash_index` for `ABTI_UNIT_HASH_TABLE_SIZE_EXP = exp` (`size_t` arithmetic wraps) -/
def hashIndex (exp : Nat) (v : UInt64) : Nat :=
  let b0 := v >>> 3
  let b1 := if exp ≤ 14 then b0 + (v >>> (UInt64.ofNat (exp + 3))) else b0
  let b2 := if exp ≤ 9 then b1 + (v >>> (UInt64.ofNat (exp * 2 + 3))) else b1
  (b2 &&& ((1 : UInt64) <<< (UInt64.ofNat exp) - 1)).toNat

/-- `unit_to_thread` without its link; `unit = nul` (the value of `ABT_UNIT_NULL`, `0x7` in
this build, `NULL` in others; a field of the table) marks a tombstone -/
structure Entry where
  unit : UInt64
  thr : Nat
deriving Repr, DecidableEq

structure UM where
  exp : Nat
  nul : UInt64
  b : Nat → List Entry

def empty (exp : Nat) (nul : UInt64) : UM := { exp := exp, nul := nul, b := fun _ => [] }

def updB (f : Nat → List Entry) (i : Nat) (c : List Entry) : Nat → List Entry :=
  fun j => if j = i then c else f j

/-- overwrite the first tombstone; `none` when there is none -/
def chainReuse (z : UInt64) (u : UInt64) (th : Nat) : List Entry → Option (List Entry)
  | [] => none
  | e :: r =>
    if e.unit = z then some ({ unit := u, thr := th } :: r)
    else match chainReuse z u th r with
      | some r' => some (e :: r')
      | none => none

/-- `unit_map_thread`; outer `none`: ABT_ERR_MEM (needed a new element, malloc failed) -/
def mapThread (m : UM) (u : UInt64) (th : Nat) (mem : Bool) : Option UM :=
  let i := hashIndex m.exp u
  match chainReuse m.nul u th (m.b i) with
  | some c => some { m with b := updB m.b i c }
  | none => if mem then some { m with b := updB m.b i ({ unit := u, thr := th } :: m.b i) } else none

/-- tombstone the first element holding `u`; `none` = not found (assertion failure) -/
def chainClear (z : UInt64) (u : UInt64) : List Entry → Option (List Entry)
  | [] => none
  | e :: r =>
    if e.unit = u then some ({ e with unit := z } :: r)
    else match chainClear z u r with
      | some r' => some (e :: r')
      | none => none

/-- `unit_unmap_thread`; `none` = abort -/
def unmapThread (m : UM) (u : UInt64) : Option UM :=
  let i := hashIndex m.exp u
  match chainClear m.nul u (m.b i) with
  | some c => some { m with b := updB m.b i c }
  | none => none

def chainGet (u : UInt64) : List Entry → Option Nat
  | [] => none
  | e :: r => if e.unit = u then some e.thr else chainGet u r

/-- `unit_get_thread_from_user_defined_unit`; `none` = abort -/
def getThread (m : UM) (u : UInt64) : Option Nat := chainGet u (m.b (hashIndex m.exp u))

inductive Op where
  | map (u : UInt64) (th : Nat) (mem : Bool)
  | unmap (u : UInt64)
  | get (u : UInt64)
deriving Repr

inductive Out where
  | mapR (ok : Bool)
  | unmapR
  | getR (th : Nat)
  | abort
deriving Repr, DecidableEq

/-- after an abort the process is gone: the state is kept only to make `step` total -/
def step (m : UM) : Op → UM × Out
  | .map u th mem => match mapThread m u th mem with
    | some m' => (m', .mapR true)
    | none => (m, .mapR false)
  | .unmap u => match unmapThread m u with
    | some m' => (m', .unmapR)
    | none => (m, .abort)
  | .get u => match getThread m u with
    | some th => (m, .getR th)
    | none => (m, .abort)

def runOps (m : UM) : List Op → UM × List Out
  | [] => (m, [])
  | op :: ops =>
    let (m1, o) := step m op
    let (m2, os) := runOps m1 ops
    (m2, o :: os)

def Entry.dump (z : UInt64) (e : Entry) : String := if e.unit = z then "-" else s!"{e.unit}>{e.thr}"

/-! ## Part 2: interleaving model (lock-free get against map / unmap)

Heap of list cells addressed by ids ≥ 1 (`0` = NULL), allocated with increasing ids.
Units are `Nat` (`0` = `ABT_UNIT_NULL`) and the bucket function `h` is arbitrary: the
result does not depend on the hash.  Callers are arbitrary many; each repeatedly
starts one of `map(u, th)`, `unmap(u)`, `get(u)` subject to the client contract of
`unit.c`, which is part of the transition guards:
* `map(u, ·)` only for a non-NULL unit that is neither mapped nor being (un)mapped
  (units handed out by a pool's `create_unit` are distinct while live);
* `unmap(u)` only for a mapped unit, not while another map/unmap/get of `u` runs
  (the unit is freed by the one caller that ends its association);
* `get(u)` only for a unit whose `map` has completed and whose `unmap` has not begun.
Ghost fields record the abstract map and where each unit currently sits. -/

structure Cell where
  unit : Nat
  thr : Nat
  next : Nat
deriving Repr, DecidableEq

inductive Pc where
  | idle
  | mAcq (u th : Nat)              -- about to acquire the bucket lock
  | mHead (u th : Nat)             -- about to load the list head
  | mScan (u th cur : Nat)         -- about to load `cur->unit` (cur = 0: end of list)
  | mNext (u th cur : Nat)         -- about to load `cur->p_next`
  | mSetUnit (u th cur : Nat)      -- tombstone found: about to store `cur->unit = u`
  | mSetThr (u th cur : Nat)       -- about to store `cur->p_thread = th`
  | mAlloc (u th : Nat)            -- about to re-load the head and malloc + initialise a cell
  | mPub (u th new : Nat)          -- about to release-store the head
  | mRel (u th : Nat) (ok : Bool)  -- about to release the lock and return
  | uAcq (u : Nat)
  | uHead (u : Nat)
  | uScan (u cur : Nat)            -- about to load `cur->unit`
  | uNext (u cur : Nat)            -- about to load `cur->p_next`
  | uClear (u cur : Nat)           -- about to store `cur->unit = ABT_UNIT_NULL`
  | uRel (u : Nat)
  | gHead (u th : Nat)             -- about to acquire-load the head; `th` is ghost (expected answer)
  | gScan (u th cur : Nat)         -- about to load `cur->unit`
  | gNext (u th cur : Nat)         -- about to load `cur->p_next`
  | gThr (u th cur : Nat)          -- matched: about to load `cur->p_thread`
  | gDone (u th r : Nat)           -- returned `r`
deriving Repr, DecidableEq

/-- the unit a caller is mapping or unmapping -/
def opUnit : Pc → Option Nat
  | .mAcq u _ | .mHead u _ | .mScan u _ _ | .mNext u _ _ | .mSetUnit u _ _ | .mSetThr u _ _
  | .mAlloc u _ | .mPub u _ _ | .mRel u _ _ | .uAcq u | .uHead u | .uScan u _ | .uNext u _
  | .uClear u _ | .uRel u => some u
  | _ => none

/-- the unit a caller is looking up -/
def getUnit : Pc → Option Nat
  | .gHead u _ | .gScan u _ _ | .gNext u _ _ | .gThr u _ _ | .gDone u _ _ => some u
  | _ => none

structure CSt where
  head : Nat → Nat
  cell : Nat → Cell
  nextId : Nat
  lock : Nat → Option Nat
  pc : Nat → Pc
  -- ghost
  pub : Nat → Bool            -- cell is linked into a bucket list
  bkt : Nat → Nat             -- bucket a cell was allocated for
  abs : Nat → Option Nat      -- abstract map: completed `map`, `unmap` not begun
  busy : Nat → Bool           -- a map/unmap of this unit is in flight
  wh : Nat → Nat              -- linked cell whose `unit` field currently holds this unit (0 = none)

def CSt.init : CSt :=
  { head := fun _ => 0, cell := fun _ => ⟨0, 0, 0⟩, nextId := 1, lock := fun _ => none, pc := fun _ => .idle,
    pub := fun _ => false, bkt := fun _ => 0, abs := fun _ => none, busy := fun _ => false, wh := fun _ => 0 }

inductive Act where
  | startMap (u th : Nat) | mAcq | mHead | mScanEnd | mScanTomb | mScanUsed | mNext | mSetUnit | mSetThr
  | mAllocOk | mAllocFail | mPub | mRel
  | startUnmap (u : Nat) | uAcq | uHead | uScanHit | uScanMiss | uNext | uClear | uRel
  | startGet (u : Nat) | gHead | gScanHit | gScanMiss | gNext | gThr | gRet
deriving Repr, DecidableEq

inductive Step (h : Nat → Nat) : CSt → Nat × Act → CSt → Prop where
  | startMap {s t u th} : s.pc t = .idle → u ≠ 0 → s.abs u = none → s.busy u = false →
      Step h s (t, .startMap u th) { s with busy := upd s.busy u true, pc := upd s.pc t (.mAcq u th) }
  | mAcq {s t u th} : s.pc t = .mAcq u th → s.lock (h u) = none →
      Step h s (t, .mAcq) { s with lock := upd s.lock (h u) (some t), pc := upd s.pc t (.mHead u th) }
  | mHead {s t u th} : s.pc t = .mHead u th →
      Step h s (t, .mHead) { s with pc := upd s.pc t (.mScan u th (s.head (h u))) }
  | mScanEnd {s t u th} : s.pc t = .mScan u th 0 →
      Step h s (t, .mScanEnd) { s with pc := upd s.pc t (.mAlloc u th) }
  | mScanTomb {s t u th cur} : s.pc t = .mScan u th cur → cur ≠ 0 → (s.cell cur).unit = 0 →
      Step h s (t, .mScanTomb) { s with pc := upd s.pc t (.mSetUnit u th cur) }
  | mScanUsed {s t u th cur} : s.pc t = .mScan u th cur → cur ≠ 0 → (s.cell cur).unit ≠ 0 →
      Step h s (t, .mScanUsed) { s with pc := upd s.pc t (.mNext u th cur) }
  | mNext {s t u th cur} : s.pc t = .mNext u th cur →
      Step h s (t, .mNext) { s with pc := upd s.pc t (.mScan u th (s.cell cur).next) }
  | mSetUnit {s t u th cur} : s.pc t = .mSetUnit u th cur →
      Step h s (t, .mSetUnit)
        { s with cell := upd s.cell cur { s.cell cur with unit := u }, wh := upd s.wh u cur,
                 pc := upd s.pc t (.mSetThr u th cur) }
  | mSetThr {s t u th cur} : s.pc t = .mSetThr u th cur →
      Step h s (t, .mSetThr)
        { s with cell := upd s.cell cur { s.cell cur with thr := th }, pc := upd s.pc t (.mRel u th true) }
  /-- malloc + the three stores into the still private cell -/
  | mAllocOk {s t u th} : s.pc t = .mAlloc u th →
      Step h s (t, .mAllocOk)
        { s with cell := upd s.cell s.nextId ⟨u, th, s.head (h u)⟩, bkt := upd s.bkt s.nextId (h u),
                 nextId := s.nextId + 1, pc := upd s.pc t (.mPub u th s.nextId) }
  | mAllocFail {s t u th} : s.pc t = .mAlloc u th →
      Step h s (t, .mAllocFail) { s with pc := upd s.pc t (.mRel u th false) }
  | mPub {s t u th new} : s.pc t = .mPub u th new →
      Step h s (t, .mPub)
        { s with head := upd s.head (h u) new, pub := upd s.pub new true, wh := upd s.wh u new,
                 pc := upd s.pc t (.mRel u th true) }
  | mRel {s t u th ok} : s.pc t = .mRel u th ok →
      Step h s (t, .mRel)
        { s with lock := upd s.lock (h u) none, busy := upd s.busy u false,
                 abs := if ok then upd s.abs u (some th) else s.abs, pc := upd s.pc t .idle }
  | startUnmap {s t u th} : s.pc t = .idle → s.abs u = some th → s.busy u = false →
      (∀ t', getUnit (s.pc t') ≠ some u) →
      Step h s (t, .startUnmap u)
        { s with abs := upd s.abs u none, busy := upd s.busy u true, pc := upd s.pc t (.uAcq u) }
  | uAcq {s t u} : s.pc t = .uAcq u → s.lock (h u) = none →
      Step h s (t, .uAcq) { s with lock := upd s.lock (h u) (some t), pc := upd s.pc t (.uHead u) }
  | uHead {s t u} : s.pc t = .uHead u →
      Step h s (t, .uHead) { s with pc := upd s.pc t (.uScan u (s.head (h u))) }
  | uScanHit {s t u cur} : s.pc t = .uScan u cur → cur ≠ 0 → (s.cell cur).unit = u →
      Step h s (t, .uScanHit) { s with pc := upd s.pc t (.uClear u cur) }
  | uScanMiss {s t u cur} : s.pc t = .uScan u cur → cur ≠ 0 → (s.cell cur).unit ≠ u →
      Step h s (t, .uScanMiss) { s with pc := upd s.pc t (.uNext u cur) }
  | uNext {s t u cur} : s.pc t = .uNext u cur →
      Step h s (t, .uNext) { s with pc := upd s.pc t (.uScan u (s.cell cur).next) }
  | uClear {s t u cur} : s.pc t = .uClear u cur →
      Step h s (t, .uClear)
        { s with cell := upd s.cell cur { s.cell cur with unit := 0 }, wh := upd s.wh u 0,
                 pc := upd s.pc t (.uRel u) }
  | uRel {s t u} : s.pc t = .uRel u →
      Step h s (t, .uRel)
        { s with lock := upd s.lock (h u) none, busy := upd s.busy u false, pc := upd s.pc t .idle }
  | startGet {s t u th} : s.pc t = .idle → s.abs u = some th →
      Step h s (t, .startGet u) { s with pc := upd s.pc t (.gHead u th) }
  | gHead {s t u th} : s.pc t = .gHead u th →
      Step h s (t, .gHead) { s with pc := upd s.pc t (.gScan u th (s.head (h u))) }
  | gScanHit {s t u th cur} : s.pc t = .gScan u th cur → cur ≠ 0 → (s.cell cur).unit = u →
      Step h s (t, .gScanHit) { s with pc := upd s.pc t (.gThr u th cur) }
  | gScanMiss {s t u th cur} : s.pc t = .gScan u th cur → cur ≠ 0 → (s.cell cur).unit ≠ u →
      Step h s (t, .gScanMiss) { s with pc := upd s.pc t (.gNext u th cur) }
  | gNext {s t u th cur} : s.pc t = .gNext u th cur →
      Step h s (t, .gNext) { s with pc := upd s.pc t (.gScan u th (s.cell cur).next) }
  | gThr {s t u th cur} : s.pc t = .gThr u th cur →
      Step h s (t, .gThr) { s with pc := upd s.pc t (.gDone u th (s.cell cur).thr) }
  | gRet {s t u th r} : s.pc t = .gDone u th r →
      Step h s (t, .gRet) { s with pc := upd s.pc t .idle }

/-- a lookup is stuck (the C code dereferences NULL / fails its assertion) when it
reaches the end of the list -/
def stuck (s : CSt) (t : Nat) : Prop :=
  (∃ u th, s.pc t = .gScan u th 0) ∨ (∃ u, s.pc t = .uScan u 0)

end ArgoVerif.Model.UnitMap
