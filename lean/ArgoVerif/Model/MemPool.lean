import ArgoVerif.Core.LTS
import ArgoVerif.Gen.Consts
/-
Model.MemPool — the memory pool behind work-unit descriptors and ULT stacks
(src/include/abti_mem_pool.h `ABTI_mem_pool_alloc/free`, src/mem/mem_pool.c
`ABTI_mem_pool_init_local_pool / destroy_local_pool / take_bucket / return_bucket`,
`mem_pool_return_partial_bucket`), at the level of header chains.

What is kept from the C code
  * a *header* is the unit handed out; it is carved out of a *page* obtained from
    `ABTU_alloc_largepage`.  A header is identified by `(page, off)`: the index of its page
    (in order of allocation) and the byte offset of its memory segment from `p_page->mem`
    (the `ABTI_mem_pool_header` struct itself sits `header_offset` bytes into the segment;
    that constant shift plays no role in the chain structure and is not part of the id).
  * per header the two fields the code reads and writes: `p_next` (`next`, `none` = NULL) and
    `bucket_info.num_headers` (`cnt`).  `bucket_info` is a union with the LIFO link: pushing a
    bucket on `bucket_lifo` overwrites `num_headers` of its first header (modelled as a write
    of 0; nothing may depend on that value and the invariant does not constrain it).
  * a local pool: `bucket_index`, `buckets[ABT_MEM_POOL_MAX_LOCAL_BUCKETS]` (heads of chains;
    the number of headers of a bucket is stored in its *first* header).
  * the global pool: `bucket_lifo` (stack of full buckets), `mem_page_lifo` (pages with unused
    room), the push-only list of empty pages, `partial_bucket` (guarded by a spinlock in C).
  * `take_bucket` carving: `num_provided = min(mem_extra_size / header_size, per_bucket - got)`,
    `ABTI_ASSERT(num_provided != 0)`, `p_mem_extra += header_size * num_provided`, page goes
    back to `mem_page_lifo` iff `mem_extra_size >= header_size`, else to the empty-page list;
    headers of one page are linked upwards (`p_cur->p_next = p_prev`), the bucket head is the
    highest header of the last page; allocation failure returns what was carved so far through
    `mem_pool_return_partial_bucket`.
  * constants `ABT_MEM_POOL_NUM_TAKE_BUCKETS = ABT_MEM_POOL_NUM_RETURN_BUCKETS = 1`
    (guarded below against Gen.Consts); `ABT_MEM_POOL_MAX_LOCAL_BUCKETS` is the parameter
    `maxLocal`.

Semantics: *sequential* — every operation (`alloc`, `free`, `init_local`, `destroy_local`,
with the `take_bucket` / `return_bucket` / `return_partial_bucket` calls inside it) is one
atomic transition.  In the C code a local pool is used by one execution stream at a time (or
under `mem_pool_*_lock` for external threads), `partial_bucket` is guarded by
`partial_bucket_lock`, and the only truly concurrent objects are the two `ABTI_sync_lifo`s,
whose linearizability is the subject of Model.SyncLifo; here they are their sequential
specification (a `List`, top first).

Ghost state (not in the C code, used to state the property): `out` (headers handed out and not
yet freed), `carved` (all headers ever carved), `own` (for every header, where it currently
is).  `Owner.tmp` labels the one bucket that is "in flight" inside an operation (taken from
the global pool and not yet attached to a local pool, or detached and not yet pushed).
-/
namespace ArgoVerif.Model.MemPool
open ArgoVerif

/-- header id: (page index, byte offset of the header's segment inside the page) -/
abbrev Hdr := Nat × Nat

structure Params where
  perBucket : Nat     -- num_headers_per_bucket
  headerSize : Nat    -- header_size (segment size, includes the payload)
  pageSize : Nat      -- page_size
  pageStruct : Nat    -- sizeof(ABTI_mem_pool_page), placed at the end of every page
  maxLocal : Nat      -- ABT_MEM_POOL_MAX_LOCAL_BUCKETS
deriving Repr

/-- what the C code assumes / asserts about its parameters: at least one header per bucket,
a positive header size, at least one header fits into a fresh page (`ABTI_ASSERT(num_provided
!= 0)`), at least one local bucket slot -/
structure Params.OK (P : Params) : Prop where
  perBucket_pos : 0 < P.perBucket
  headerSize_pos : 0 < P.headerSize
  fits : P.pageStruct + P.headerSize ≤ P.pageSize
  maxLocal_pos : 0 < P.maxLocal

instance (P : Params) : Decidable P.OK :=
  if h : 0 < P.perBucket ∧ 0 < P.headerSize ∧ P.pageStruct + P.headerSize ≤ P.pageSize ∧ 0 < P.maxLocal
  then isTrue ⟨h.1, h.2.1, h.2.2.1, h.2.2.2⟩
  else isFalse (fun k => h ⟨k.1, k.2, k.3, k.4⟩)

/-- the model is written for one bucket taken / returned at a time, as in this tree -/
example : Gen.Consts.memPoolNumTakeBuckets = 1 ∧ Gen.Consts.memPoolNumReturnBuckets = 1 := by decide

/-- ghost: where a header currently is -/
inductive Owner
  | unused                 -- not carved (yet)
  | out                    -- handed out by `alloc`, not yet freed
  | loc (i j : Nat)        -- in `buckets[j]` of local pool `i`
  | lifo (b : Hdr)         -- in the bucket with first header `b` on the global `bucket_lifo`
  | part                   -- in `partial_bucket`
  | tmp                    -- in the bucket in flight inside the current operation
deriving DecidableEq, Repr

structure Page where
  extraOff : Nat           -- p_mem_extra - mem
  extraSize : Nat          -- mem_extra_size
deriving Repr

structure LPool where
  bidx : Nat               -- bucket_index
  buckets : Nat → Hdr      -- buckets[]

structure St where
  next : Hdr → Option Hdr  -- p_next
  cnt : Hdr → Nat          -- bucket_info.num_headers
  lifo : List Hdr          -- bucket_lifo: first headers of full buckets, top first
  pages : Nat → Page
  npages : Nat             -- pages obtained from ABTU_alloc_largepage so far
  pageLifo : List Nat      -- mem_page_lifo, top first
  emptyPages : List Nat    -- p_mem_page_empty list, newest first
  part : Option Hdr        -- partial_bucket
  lp : Nat → Option LPool  -- local pools (none: not initialised / destroyed)
  pagesLeft : Nat          -- environment: how many more ABTU_alloc_largepage calls succeed
  out : List Hdr           -- ghost
  carved : List Hdr        -- ghost
  own : Hdr → Owner        -- ghost

def init (budget : Nat) : St :=
  { next := fun _ => none, cnt := fun _ => 0, lifo := [], pages := fun _ => ⟨0, 0⟩, npages := 0,
    pageLifo := [], emptyPages := [], part := none, lp := fun _ => none, pagesLeft := budget,
    out := [], carved := [], own := fun _ => .unused }

/-- ghost relabelling of a whole chain -/
def relabel (own : Hdr → Owner) (o o' : Owner) : Hdr → Owner :=
  fun x => if own x = o then o' else own x

/-- follow `p_next` `k` times (`for (i = 1; i < …; i++) h = h->p_next`); a NULL link would be a
crash in C, the model stays where it is (cannot happen in reachable states) -/
def nthNext (next : Hdr → Option Hdr) : Nat → Hdr → Hdr
  | 0, h => h
  | k + 1, h => nthNext next k ((next h).getD h)

/-- the first `k` headers of the chain starting at `a` (fewer if it ends earlier) -/
def walk (next : Hdr → Option Hdr) : Nat → Option Hdr → List Hdr
  | 0, _ => []
  | _ + 1, none => []
  | k + 1, some h => h :: walk next k (next h)

/-- `ABTI_mem_pool_return_bucket`: push on `bucket_lifo`; the LIFO link overwrites `num_headers`
of the first header.  Ghost: the bucket in flight is now the LIFO bucket `b`. -/
def returnBucket (s : St) (b : Hdr) : St :=
  { s with lifo := b :: s.lifo, cnt := upd s.cnt b 0, own := relabel s.own .tmp (.lifo b) }

/-- `mem_pool_return_partial_bucket` (as repaired: the remaining partial bucket holds
`(partial + bucket) - per_bucket` headers).  `b` is the bucket in flight. -/
def returnPartial (P : Params) (s : St) (b : Hdr) : St :=
  match s.part with
  | none => { s with part := some b, own := relabel s.own .tmp .part }
  | some p =>
    let np := s.cnt p
    let nb := s.cnt b
    if np + nb < P.perBucket then
      -- connect partial_bucket + bucket: still not a complete bucket
      let tail := nthNext s.next (np - 1) p
      { s with next := upd s.next tail (some b), cnt := upd s.cnt p (np + nb),
               own := relabel s.own .tmp .part }
    else
      -- the first (per_bucket - nb) headers of partial_bucket + bucket make a complete bucket
      let hdr := nthNext s.next (P.perBucket - nb - 1) p
      let first := walk s.next (P.perBucket - nb) (some p)
      let newPart : Option Hdr := if np + nb ≠ P.perBucket then s.next hdr else none
      let cnt1 := match newPart with
        | some q => upd s.cnt q (np + nb - P.perBucket)
        | none => s.cnt
      let s1 := { s with next := upd s.next hdr (some b), cnt := cnt1,
                         own := fun x => if x ∈ first then .tmp else s.own x }
      let s2 := returnBucket s1 p
      { s2 with part := newPart }

/-- the `k` header ids `(p, off), (p, off + hs), …` -/
def hdrRun (p hs : Nat) : Nat → Nat → List Hdr
  | 0, _ => []
  | k + 1, off => (p, off) :: hdrRun p hs k (off + hs)

/-- `for (i = 1; i < num_provided; i++) { p_cur = p_prev + header_size; p_cur->p_next = p_prev;
p_prev = p_cur; }` -/
def linkRun (hs : Nat) : Nat → (Hdr → Option Hdr) → Hdr → (Hdr → Option Hdr) × Hdr
  | 0, next, prev => (next, prev)
  | k + 1, next, prev =>
    let cur : Hdr := (prev.1, prev.2 + hs)
    linkRun hs k (upd next cur (some prev)) cur

/-- pop `mem_page_lifo`, else `ABTU_alloc_largepage` (fails when the budget is exhausted) -/
def pickPage (P : Params) (s : St) : Option (St × Nat) :=
  match s.pageLifo with
  | p :: rest => some ({ s with pageLifo := rest }, p)
  | [] =>
    if s.pagesLeft = 0 then none
    else some ({ s with npages := s.npages + 1, pagesLeft := s.pagesLeft - 1,
                        pages := upd s.pages s.npages ⟨0, P.pageSize - P.pageStruct⟩ }, s.npages)

/-- one iteration of the carving loop after the page `p` has been chosen and
`num_provided = np` computed: advance `p_mem_extra`, put the page back on `mem_page_lifo` or on
the empty-page list, link the `np` new headers upwards in front of `head`.  Returns the new
`p_head`. -/
def carvePage (P : Params) (s : St) (p np : Nat) (head : Option Hdr) : St × Hdr :=
  let pg := s.pages p
  let memExtra := pg.extraOff
  let pg' : Page := ⟨pg.extraOff + P.headerSize * np, pg.extraSize - P.headerSize * np⟩
  let s := { s with pages := upd s.pages p pg' }
  let s := if P.headerSize ≤ pg'.extraSize then { s with pageLifo := p :: s.pageLifo }
           else { s with emptyPages := p :: s.emptyPages }
  let tail : Hdr := (p, memExtra)
  let r := linkRun P.headerSize (np - 1) (upd s.next tail head) tail
  let new := hdrRun p P.headerSize np memExtra
  ({ s with next := r.1, carved := s.carved ++ new,
            own := fun x => if x ∈ new then .tmp else s.own x }, r.2)

/-- the `while (1)` loop of `ABTI_mem_pool_take_bucket` ("allocate headers by myself").
`head`/`n` are `p_head`/`num_headers`.  Outer `none`: `ABTI_ASSERT(num_provided != 0)` fails.
Inner `none`: `ABT_ERR_MEM` (what was carved so far went to `partial_bucket`). -/
def carve (P : Params) : Nat → St → Option Hdr → Nat → Option (St × Option Hdr)
  | 0, _, _, _ => none
  | fuel + 1, s, head, n =>
    match pickPage P s with
    | none =>
      match head with
      | some h => some (returnPartial P { s with cnt := upd s.cnt h n } h, none)
      | none => some (s, none)
    | some (s, p) =>
      let np := min ((s.pages p).extraSize / P.headerSize) (P.perBucket - n)
      if np = 0 then none
      else
        let r := carvePage P s p np head
        if n + np = P.perBucket then
          some ({ r.1 with cnt := upd r.1.cnt r.2 P.perBucket }, some r.2)
        else carve P fuel r.1 (some r.2) (n + np)

/-- `ABTI_mem_pool_take_bucket`.  On success the bucket is in flight (`Owner.tmp`). -/
def takeBucket (P : Params) (s : St) : Option (St × Option Hdr) :=
  match s.lifo with
  | b :: rest =>
    some ({ s with lifo := rest, cnt := upd s.cnt b P.perBucket,
                   own := relabel s.own (.lifo b) .tmp }, some b)
  | [] => carve P P.perBucket s none 0

/-- `ABTI_mem_pool_init_local_pool`.  Outer `none`: precondition violated (slot in use) or
assertion failure.  `false`: `ABT_ERR_MEM`. -/
def initLocal (P : Params) (s : St) (i : Nat) : Option (St × Bool) :=
  match s.lp i with
  | some _ => none
  | none =>
    match takeBucket P s with
    | none => none
    | some (s1, none) => some (s1, false)
    | some (s1, some b) =>
      some ({ s1 with lp := upd s1.lp i (some ⟨0, fun _ => b⟩),
                      own := relabel s1.own .tmp (.loc i 0) }, true)

/-- `ABTI_mem_pool_alloc`.  Outer `none`: pool not initialised, `ABTI_ASSERT(n >= 1)` fails, or a
NULL `p_next` would be dereferenced.  Inner `none`: `ABT_ERR_MEM`. -/
def alloc (P : Params) (s : St) (i : Nat) : Option (St × Option Hdr) :=
  match s.lp i with
  | none => none
  | some lp =>
    let cur := lp.buckets lp.bidx
    let n := s.cnt cur
    if n = 0 then none
    else if n = 1 then
      if lp.bidx = 0 then
        match takeBucket P s with
        | none => none
        | some (s1, none) => some (s1, none)
        | some (s1, some b) =>
          some ({ s1 with lp := upd s1.lp i (some { lp with buckets := upd lp.buckets 0 b, bidx := 0 }),
                          own := upd (relabel s1.own .tmp (.loc i 0)) cur .out,
                          out := cur :: s1.out }, some cur)
      else
        some ({ s with lp := upd s.lp i (some { lp with bidx := lp.bidx - 1 }),
                       own := upd s.own cur .out, out := cur :: s.out }, some cur)
    else
      match s.next cur with
      | none => none
      | some nx =>
        some ({ s with cnt := upd s.cnt nx (n - 1),
                       lp := upd s.lp i (some { lp with buckets := upd lp.buckets lp.bidx nx }),
                       own := upd s.own cur .out, out := cur :: s.out }, some cur)

/-- ghost: `buckets[j] = buckets[j+1]` renumbers the owners of pool `i` -/
def shiftOwn (i : Nat) (own : Hdr → Owner) : Hdr → Owner :=
  fun x => match own x with
    | .loc i' j => if i' = i then .loc i (j - 1) else .loc i' j
    | o => o

/-- `ABTI_mem_pool_free` exactly as written: no check whatsoever on `h`. -/
def freeRaw (P : Params) (s : St) (i : Nat) (h : Hdr) : Option St :=
  match s.lp i with
  | none => none
  | some lp =>
    let cur := lp.buckets lp.bidx
    if s.cnt cur = P.perBucket then
      if lp.bidx + 1 = P.maxLocal then
        -- all buckets are full: return buckets[0], shift the others down
        let s1 := returnBucket { s with own := relabel s.own (.loc i 0) .tmp } (lp.buckets 0)
        let bk : Nat → Hdr := fun j =>
          if j = P.maxLocal - 1 then h else if j + 1 < P.maxLocal then lp.buckets (j + 1) else lp.buckets j
        some { s1 with next := upd s1.next h none, cnt := upd s1.cnt h 1,
                       lp := upd s1.lp i (some ⟨P.maxLocal - 1, bk⟩),
                       own := upd (shiftOwn i s1.own) h (.loc i (P.maxLocal - 1)),
                       out := s1.out.erase h }
      else
        some { s with next := upd s.next h none, cnt := upd s.cnt h 1,
                      lp := upd s.lp i (some ⟨lp.bidx + 1, upd lp.buckets (lp.bidx + 1) h⟩),
                      own := upd s.own h (.loc i (lp.bidx + 1)),
                      out := s.out.erase h }
    else
      some { s with next := upd s.next h (some cur), cnt := upd s.cnt h (s.cnt cur + 1),
                    lp := upd s.lp i (some { lp with buckets := upd lp.buckets lp.bidx h }),
                    own := upd s.own h (.loc i lp.bidx),
                    out := s.out.erase h }

/-- `free` with its (unchecked, caller-side) precondition made explicit: `h` was handed out by
`alloc` and has not been freed since.  A double free or a foreign pointer is *not* a
transition of the model. -/
def free (P : Params) (s : St) (i : Nat) (h : Hdr) : Option St :=
  if h ∈ s.out then freeRaw P s i h else none

/-- `for (i = 0; i < bucket_index; i++) return_bucket(buckets[i])` -/
def retRange (s : St) (i : Nat) (lp : LPool) : Nat → St
  | 0 => s
  | n + 1 =>
    let s1 := retRange s i lp n
    returnBucket { s1 with own := relabel s1.own (.loc i n) .tmp } (lp.buckets n)

/-- `ABTI_mem_pool_destroy_local_pool` -/
def destroyLocal (P : Params) (s : St) (i : Nat) : Option St :=
  match s.lp i with
  | none => none
  | some lp =>
    let s1 := retRange s i lp lp.bidx
    let cur := lp.buckets lp.bidx
    let s2 := { s1 with own := relabel s1.own (.loc i lp.bidx) .tmp }
    let s3 := if s2.cnt cur = P.perBucket then returnBucket s2 cur else returnPartial P s2 cur
    some { s3 with lp := upd s3.lp i none }

inductive Op
  | initLocal (i : Nat)
  | alloc (i : Nat)
  | free (i : Nat) (h : Hdr)
  | destroyLocal (i : Nat)
  | budget (n : Nat)        -- environment: from now on `n` more page allocations succeed
deriving Repr, DecidableEq

inductive Res
  | unit
  | ok (b : Bool)           -- init_local: success / ABT_ERR_MEM
  | mem (h : Option Hdr)    -- alloc: pointer / ABT_ERR_MEM
deriving Repr, DecidableEq

/-- one atomic operation with its result; `none`: not a behaviour (precondition or C assertion) -/
def stepO (P : Params) (s : St) : Op → Option (St × Res)
  | .initLocal i => (initLocal P s i).map fun r => (r.1, .ok r.2)
  | .alloc i => (alloc P s i).map fun r => (r.1, .mem r.2)
  | .free i h => (free P s i h).map fun s' => (s', .unit)
  | .destroyLocal i => (destroyLocal P s i).map fun s' => (s', .unit)
  | .budget n => some ({ s with pagesLeft := n }, .unit)

def machine (P : Params) (budget : Nat) : Machine St Op :=
  { init := init budget, step := fun s op => (stepO P s op).map (·.1) }

/-- what the white-box driver prints for a bucket: the first `cnt` headers of its chain -/
def bucketChain (s : St) (b : Hdr) : List Hdr := walk s.next (s.cnt b) (some b)

end ArgoVerif.Model.MemPool
