import ArgoVerif.Core.LTS
/-
Model.Sched — the life of work units (ULTs and tasklets) as the runtime's scheduling code moves
them around: creation, pools (bags: *any* unit of a pool may be popped, so every pool kind and
every scheduler policy is an instance), run slices, yields, suspension / resumption with the
per-pool blocked counter, migration, termination, join and free.

One event = one observable step of the implementation (runtime event hook or atomic store):

  create u p            ABTI_event_thread_create         unit u associated with pool p, READY
  push p u              ABTI_pool_push                   u enters pool p
  pop e p u / remove    ABTI_pool_pop / _remove          execution stream e takes u out of p
  setSt u v             store to thread.state
  run e u               ABTI_event_thread_run            a run slice of u starts on e
  userStart / userEnd   the work-unit function is entered / returns (scenario program)
  cb e u k              context-switch callback entered: u has switched away from e (context saved)
  incB u p / decB u p   fetch_add / fetch_sub on p.num_blocked on behalf of u
  resume u              ABTI_event_ythread_resume        somebody resumes the blocked u
  finish e u            ABTI_event_thread_finish
  terminate u           ABTI_thread_terminate
  free u                ABTI_event_thread_free
  reqSet / reqClr u r   fetch_or / fetch_and on thread.request
  migrate u p           the associated pool changes while a MIGRATE request is handled
  joinRet j u           ABT_thread_join / free returns to the joiner

`step` accepts exactly the orders the scheduling code may produce; the property theorems are
consequences of its guards and of the inductive invariants in Proofs/Sched.lean.
-/
namespace ArgoVerif.Model.Sched
open ArgoVerif

abbrev UnitId := Nat
abbrev PoolId := Nat
abbrev EsId := Nat

inductive Loc
  | none | fresh | inPool (p : PoolId) | held (e : EsId) | running (e : EsId) | cb (e : EsId)
  | blocked | done | freed
  | reviving                       -- thread_revive has stored READY into a terminated unit; its revive event follows
deriving DecidableEq, Repr

inductive USt | ready | running | blocked | terminated
deriving DecidableEq, Repr

inductive Req | join | cancel | migrate
deriving DecidableEq, Repr

/-- kinds of context-switch callbacks (ythread.c) -/
inductive CbKind | yield | suspend | exit | orphan
deriving DecidableEq, Repr

inductive Ev
  | create (u : UnitId) (p : PoolId)
  | push (p : PoolId) (u : UnitId)
  | pop (e : EsId) (p : PoolId) (u : UnitId)
  | setSt (u : UnitId) (v : USt)
  | run (e : EsId) (u : UnitId)
  | userStart (u : UnitId)
  | userEnd (u : UnitId)
  | cb (e : EsId) (u : UnitId) (k : CbKind)
  | incB (u : UnitId) (p : PoolId)
  | decB (u : UnitId) (p : PoolId)
  | resume (u : UnitId)
  | finish (e : EsId) (u : UnitId)
  | terminate (u : UnitId)
  | free (u : UnitId)
  | reqSet (u : UnitId) (r : Req)
  | reqClr (u : UnitId) (r : Req)
  | migrate (u : UnitId) (p : PoolId)
  | joinRet (j : UnitId) (u : UnitId)
  | xferB (frm : UnitId) (to : UnitId)   -- resume_suspend_to within one pool: the blocked count passes from the resumed unit to the suspending one
deriving Repr

structure St where
  loc : UnitId → Loc
  st : UnitId → USt
  pool : UnitId → PoolId            -- p_pool
  nb : PoolId → Int                 -- num_blocked
  owedL : List (UnitId × PoolId)    -- ghost: (u, p) once for every increment of p.num_blocked made on behalf of u
                                    -- and not yet undone (a resumer's decrement may lag behind u's next suspension)
  charged : UnitId → Bool           -- ghost: u's current suspension / yield_to credit has been counted and not yet uncounted
  chargedPool : UnitId → PoolId     -- ghost: the pool that was charged
  lag : UnitId → Nat                -- ghost: resumptions of u whose decrement has not happened yet
  reqJoin : UnitId → Bool
  reqCancel : UnitId → Bool
  reqMig : UnitId → Bool
  resumed : UnitId → Bool           -- ghost: a resume was issued for the blocked u
  cbk : UnitId → CbKind             -- kind of the pending callback while loc = cb
  starts : UnitId → Nat             -- ghost: function entries in this creation/revival epoch
  ends : UnitId → Nat
  cancelled : UnitId → Bool         -- ghost: terminated by a cancellation before/without finishing
  terminating : UnitId → Bool       -- ghost: ABTI_thread_terminate has been entered for u

def init : St :=
  { loc := fun _ => .none, st := fun _ => .ready, pool := fun _ => 0, nb := fun _ => 0,
    owedL := [], charged := fun _ => false, chargedPool := fun _ => 0, lag := fun _ => 0, reqJoin := fun _ => false, reqCancel := fun _ => false, reqMig := fun _ => false,
    resumed := fun _ => false, cbk := fun _ => .yield, starts := fun _ => 0, ends := fun _ => 0,
    cancelled := fun _ => false, terminating := fun _ => false }

def setLoc (s : St) (u : UnitId) (l : Loc) : St := { s with loc := upd s.loc u l }

/-- creation or revival: a new epoch of u -/
def stepCreate (s : St) (u : UnitId) (p : PoolId) : Option St :=
  if s.loc u = .none ∨ s.loc u = .freed ∨ s.loc u = .reviving then
    some { s with loc := upd s.loc u .fresh, st := upd s.st u .ready, pool := upd s.pool u p,
                  reqJoin := upd s.reqJoin u false, reqCancel := upd s.reqCancel u false,
                  reqMig := upd s.reqMig u false, resumed := upd s.resumed u false,
                  starts := upd s.starts u 0, ends := upd s.ends u 0, cancelled := upd s.cancelled u false,
                  terminating := upd s.terminating u false }
  else none

/-- a unit may be pushed only from a place where nobody else can reach it, READY, to its own pool -/
def pushable : Loc → Bool
  | .fresh | .held _ | .cb _ | .blocked => true
  | _ => false

def isCb : Loc → Bool
  | .cb _ => true
  | _ => false

def stepPush (s : St) (p : PoolId) (u : UnitId) : Option St :=
  -- a resumed unit is pushed while it is still counted as blocked: the decrement follows the push, so at every
  -- instant the unit is accounted for by `size + num_blocked` of its pool
  if pushable (s.loc u) = true ∧ s.st u = .ready ∧ s.pool u = p ∧
      (s.loc u = .blocked → (s.resumed u = true ∧ s.charged u = true ∧ s.chargedPool u = p)) then
    -- once pushed the unit may be popped, run and be counted again while the decrement that belongs to this push
    -- (resumer: after the push; `ABT_thread_yield_to` callback: after the re-push of the caller) is still to come:
    -- the credit becomes a lagging one
    some { s with loc := upd s.loc u (.inPool p), resumed := upd s.resumed u false,
                  charged := upd s.charged u (if s.loc u = .blocked ∨ isCb (s.loc u) = true then false else s.charged u),
                  lag := upd s.lag u (if (s.loc u = .blocked ∨ isCb (s.loc u) = true) ∧ s.charged u = true then s.lag u + 1 else s.lag u) }
  else none

def stepPop (s : St) (e : EsId) (p : PoolId) (u : UnitId) : Option St :=
  if s.loc u = .inPool p then some (setLoc s u (.held e)) else none

/-- stores to `thread.state` and where they may happen -/
def stepSetSt (s : St) (u : UnitId) (v : USt) : Option St :=
  match v with
  | .ready =>
    -- yield / migration re-push (the unit is in nobody's reach) or resumption of a blocked unit
    if (match s.loc u with | .cb _ | .held _ | .fresh => true | .blocked => s.resumed u | _ => false) = true then
      some { s with st := upd s.st u .ready }
    else if s.loc u = .done ∧ s.st u = .terminated then
      -- thread_revive: the only way out of TERMINATED; the unit is in nobody's reach until its revive event
      some { s with st := upd s.st u .ready, loc := upd s.loc u .reviving }
    else none
  | .running =>
    -- a scheduler that popped it, or a directed switch to a fresh / resumed unit
    if (match s.loc u with | .held _ | .fresh => true | .blocked => s.resumed u | _ => false) = true ∧ s.st u ≠ .running then
      some { s with st := upd s.st u .running }
    else none
  | .blocked =>
    -- last step of a suspension callback: the context is saved and the blocked counter already counts u
    if (match s.loc u with | .cb _ => true | _ => false) = true ∧ s.cbk u = .suspend ∧ s.st u = .running ∧ s.charged u = true ∧
        s.chargedPool u = s.pool u then
      some { s with st := upd s.st u .blocked, loc := upd s.loc u .blocked, resumed := upd s.resumed u false }
    else none
  | .terminated =>
    if (match s.loc u with | .cb _ | .held _ | .running _ => true | _ => false) = true ∧ s.terminating u = true then
      some { s with st := upd s.st u .terminated, loc := upd s.loc u .done }
    else none

def stepRun (s : St) (e : EsId) (u : UnitId) : Option St :=
  if s.st u = .running ∧ (match s.loc u with | .held _ | .fresh => true | .blocked => s.resumed u | _ => false) = true then
    some { s with loc := upd s.loc u (.running e), resumed := upd s.resumed u false,
                  charged := upd s.charged u (if s.loc u = .blocked then false else s.charged u),
                  lag := upd s.lag u (if s.loc u = .blocked ∧ s.charged u = true then s.lag u + 1 else s.lag u) }
  else none

def stepUserStart (s : St) (u : UnitId) : Option St :=
  match s.loc u with
  | .running _ => if s.starts u = 0 then some { s with starts := upd s.starts u 1 } else none
  | _ => none

def stepUserEnd (s : St) (u : UnitId) : Option St :=
  match s.loc u with
  | .running _ => if s.starts u = 1 ∧ s.ends u = 0 then some { s with ends := upd s.ends u 1 } else none
  | _ => none

def stepCb (s : St) (e : EsId) (u : UnitId) (k : CbKind) : Option St :=
  if s.loc u = .running e then some { s with loc := upd s.loc u (.cb e), cbk := upd s.cbk u k } else none

def stepIncB (s : St) (u : UnitId) (p : PoolId) : Option St :=
  if s.pool u = p ∧ s.charged u = false ∧ (match s.loc u with | .cb _ | .running _ => true | _ => false) = true then
    some { s with nb := upd s.nb p (s.nb p + 1), owedL := (u, p) :: s.owedL, charged := upd s.charged u true,
                  chargedPool := upd s.chargedPool u p }
  else none

/-- occurrences of the pair (u, p) -/
def cntUP : List (UnitId × PoolId) → UnitId → PoolId → Nat
  | [], _, _ => 0
  | (v, q) :: l, u, p => cntUP l u p + (if v = u ∧ q = p then 1 else 0)

/-- a decrement on behalf of u: either the lagging decrement of an earlier resumption (the pair that counts u's
current suspension stays), or the one that un-counts u's current suspension / yield_to credit -/
def stepDecB (s : St) (u : UnitId) (p : PoolId) : Option St :=
  if (u, p) ∈ s.owedL then
    if s.lag u > 0 ∧ (¬ (s.charged u = true ∧ s.chargedPool u = p) ∨ cntUP s.owedL u p ≥ 2) then
      some { s with nb := upd s.nb p (s.nb p - 1), owedL := s.owedL.erase (u, p), lag := upd s.lag u (s.lag u - 1) }
    else if s.charged u = true ∧ s.chargedPool u = p ∧ (s.loc u ≠ .blocked ∨ s.resumed u = true) then
      some { s with nb := upd s.nb p (s.nb p - 1), owedL := s.owedL.erase (u, p), charged := upd s.charged u false }
    else none
  else none

/-- `ABTI_ythread_callback_resume_suspend_to` when both units use the same pool: no counter update at all; the
increment that counted the resumed unit now counts the caller, which is about to store BLOCKED -/
def stepXferB (s : St) (frm to : UnitId) : Option St :=
  -- `frm` has just been resumed by `to` (its own decrement is still outstanding: a lagging credit); `to` is in its
  -- suspension callback and has not been counted
  if frm ≠ to ∧ s.lag frm > 0 ∧ s.charged frm = false ∧ s.charged to = false ∧ (frm, s.pool to) ∈ s.owedL ∧
      (match s.loc to with | .cb _ => true | _ => false) = true then
    some { s with owedL := (to, s.pool to) :: s.owedL.erase (frm, s.pool to),
                  lag := upd s.lag frm (s.lag frm - 1),
                  charged := upd s.charged to true,
                  chargedPool := upd s.chargedPool to (s.pool to) }
  else none

def stepResume (s : St) (u : UnitId) : Option St :=
  if s.loc u = .blocked ∧ s.st u = .blocked ∧ s.resumed u = false then some { s with resumed := upd s.resumed u true }
  else none

def stepFinish (s : St) (e : EsId) (u : UnitId) : Option St :=
  if s.loc u = .running e then some s else none

/-- ABTI_thread_terminate is reached from the exit callback, after a tasklet's function, or for a cancelled unit -/
def stepTerminate (s : St) (u : UnitId) : Option St :=
  if s.terminating u = true then none else
  match s.loc u with
  | .cb _ => if (s.cbk u = .exit ∧ s.starts u = 1) ∨ s.reqCancel u = true then
      some { s with cancelled := upd s.cancelled u (if s.cbk u = .exit ∧ s.starts u = 1 then false else true),
                    terminating := upd s.terminating u true } else none
  | .running _ =>                                   -- tasklet: function returned on the scheduler's stack
    if s.starts u = 1 then some { s with terminating := upd s.terminating u true } else none
  | .held _ => if s.reqCancel u = true then
      some { s with cancelled := upd s.cancelled u true, terminating := upd s.terminating u true } else none
  | _ => none

def stepFree (s : St) (u : UnitId) : Option St :=
  if s.loc u = .done then some (setLoc s u .freed) else none

def stepReqSet (s : St) (u : UnitId) : Req → Option St
  | .join => some { s with reqJoin := upd s.reqJoin u true }
  | .cancel => some { s with reqCancel := upd s.reqCancel u true }
  | .migrate => some { s with reqMig := upd s.reqMig u true }

def stepReqClr (s : St) (u : UnitId) : Req → Option St
  | .join => some { s with reqJoin := upd s.reqJoin u false }
  | .cancel => some { s with reqCancel := upd s.reqCancel u false }
  | .migrate => some { s with reqMig := upd s.reqMig u false }

/-- the associated pool changes only while a migration request is handled, at a scheduling point of u -/
def stepMigrate (s : St) (u : UnitId) (p : PoolId) : Option St :=
  if s.reqMig u = true ∧ (match s.loc u with | .cb _ | .held _ => true | _ => false) = true then
    some { s with pool := upd s.pool u p }
  else none

/-- join / free return to the joiner only when the target's state is TERMINATED -/
def stepJoinRet (s : St) (_j u : UnitId) : Option St :=
  if s.st u = .terminated ∧ (s.loc u = .done ∨ s.loc u = .freed) then some s else none

def step (s : St) : Ev → Option St
  | .create u p => stepCreate s u p
  | .push p u => stepPush s p u
  | .pop e p u => stepPop s e p u
  | .setSt u v => stepSetSt s u v
  | .run e u => stepRun s e u
  | .userStart u => stepUserStart s u
  | .userEnd u => stepUserEnd s u
  | .cb e u k => stepCb s e u k
  | .incB u p => stepIncB s u p
  | .decB u p => stepDecB s u p
  | .resume u => stepResume s u
  | .finish e u => stepFinish s e u
  | .terminate u => stepTerminate s u
  | .free u => stepFree s u
  | .reqSet u r => stepReqSet s u r
  | .reqClr u r => stepReqClr s u r
  | .migrate u p => stepMigrate s u p
  | .joinRet j u => stepJoinRet s j u
  | .xferB f t => stepXferB s f t

def machine : Machine St Ev := { init := init, step := step }

end ArgoVerif.Model.Sched
