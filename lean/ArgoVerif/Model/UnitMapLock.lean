import ArgoVerif.Core.LTS
/-
Model.UnitMapLock — lock discipline of the unit → work-unit table (src/unit.c): every table
operation (`unit_map_thread`, `unit_unmap_thread`) takes the spinlock of ONE bucket, works on that
bucket's list and releases it; a re-association between two user pools is a map followed by an
unmap, i.e. two critical sections, never nested.  (The lock-free lookup takes no lock.)

This is the projection of Model.UnitMap part 2 onto the bucket locks, as an executable machine
for validating observed traces (spinlock test-and-set / clear on
`p_global->unit_to_thread_entires[b].lock`): `acquire a b` — a successful test-and-set;
`spin a b` — a failed one (the caller waits); `release a b` — the clear.
-/
namespace ArgoVerif.Model.UnitMapLock
open ArgoVerif

abbrev Actor := Nat

inductive Ev where
  | acquire (a : Actor) (b : Nat)
  | spin (a : Actor) (b : Nat)
  | release (a : Actor) (b : Nat)
deriving Repr

structure St where
  lock : Nat → Option Actor     -- bucket → holder
  held : Actor → Option Nat     -- actor → the bucket whose lock it holds

def init : St := { lock := fun _ => none, held := fun _ => none }

def exec (s : St) : Ev → Option St
  | .acquire a b =>
    if s.held a = none ∧ s.lock b = none then
      some { lock := upd s.lock b (some a), held := upd s.held a (some b) } else none
  /- waiting for a bucket lock is allowed only while holding none -/
  | .spin a b => if s.held a = none ∧ s.lock b ≠ none then some s else none
  | .release a b =>
    if s.held a = some b ∧ s.lock b = some a then
      some { lock := upd s.lock b none, held := upd s.held a none } else none

def machine : Machine St Ev := { init := init, step := exec }

end ArgoVerif.Model.UnitMapLock
