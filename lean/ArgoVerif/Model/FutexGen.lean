/-
Model.FutexGen — the generation word of `ABTD_futex_multiple` (arch/abtd_futex.c, Linux futex variant).

  waiter (under the caller's lock):  g0 := load(val); release(lock);
                                     do { FUTEX_WAIT(&val, g0) }           -- the kernel sleeps only if *(&val) == g0
                                     while (load(val) == g0)
  waker:                             val := val + 1; FUTEX_WAKE(&val, all)

Every sleeper has sampled the word under the lock that also protects the wait list, so a wake-up that concerns it is a
broadcast that comes after its sample.  The waiter may be delayed for any number k of broadcasts between the sample and the
kernel's comparison (or between being woken and re-reading the word): it must then not go (back) to sleep, because nobody is
going to wake it again — it is on no list any more.  The word has `bits` bits; the stores are `val + 1` on that width.
-/
namespace ArgoVerif.Model.FutexGen

/-- one `ABTD_futex_broadcast` on a word of `bits` bits -/
def broadcast (bits : Nat) (v : Nat) : Nat := (v + 1) % 2 ^ bits

/-- the word after `k` broadcasts, one at a time -/
def iter (bits : Nat) (v : Nat) : Nat → Nat
  | 0 => v
  | k + 1 => broadcast bits (iter bits v k)

/-- the word after `k` broadcasts in closed form (`Proofs.FutexGen.after_eq_iter`: the same as `iter` for a word in range) -/
def after (bits : Nat) (v k : Nat) : Nat := (v + k) % 2 ^ bits

/-- the kernel's decision in FUTEX_WAIT and the waiter's `while` test: stay asleep / go back to sleep -/
def sleeps (sample cur : Nat) : Bool := cur == sample

/-- the waiter sampled `v`, then `k` broadcasts happened, then the comparison is made -/
def lostWake (bits v k : Nat) : Bool := sleeps v (after bits v k)

end ArgoVerif.Model.FutexGen
