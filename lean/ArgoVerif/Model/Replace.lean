import ArgoVerif.Core.LTS
/-
Model.Replace — replacing the main scheduler of the stream the caller runs on
(src/stream.c `xstream_update_main_sched`, third branch; src/ythread.c
`ABTI_ythread_callback_suspend_replace_sched`; src/thread.c `thread_main_sched_func`).

One execution stream.  Schedulers are identified by `RId`; scheduler `x` serves exactly the
pool `x` (its `pools[0]`; the other pools of a multi-pool scheduler play no role in the
protocol).  A pool's content is the set of ULTs that are `ready` and associated with it.

    request u x   ULT u (running) calls ABT_xstream_set_main_sched[_basic] with the unused
                  scheduler x:   if u is associated with the current scheduler's pool it is
                  re-associated with pool x;  if a replacement y is already pending it is
                  discarded and freed and its waiter is resumed by pushing it to the pool it is
                  associated with (the "overwrite" branch);  x / u become the pending
                  replacement / waiter;  u suspends, REQ_REPLACE is set, the main scheduler runs.
    run u         the main scheduler pops ready ULT u from its pool and runs it
    yield u       the running ULT yields (pushed back to its associated pool)
    finish u      the running ULT terminates
    replace       the main scheduler found its pool empty with REQ_REPLACE set
                  (ABTI_sched_has_to_stop), returned from run(); thread_main_sched_func installs
                  the pending scheduler, frees the old one and resumes the waiter (push to the
                  pool it is associated with)

`automatic` = pools were created by the runtime (num_pools = 0) and are freed with their
scheduler; a push to a freed pool sets `uaf`.
-/
namespace ArgoVerif.Model.Replace

abbrev RId := Nat

inductive UStat where
  | running | ready | blocked | done
deriving DecidableEq, Repr

structure St where
  ults : List RId            -- the ULTs of this stream
  cur : RId                  -- p_xstream->p_main_sched
  freed : RId → Bool         -- scheduler freed (ABTI_sched_discard_and_free)
  rsched : RId → Option RId   -- p_sched->p_replace_sched
  rwaiter : RId → Option RId  -- p_sched->p_replace_waiter
  ustat : RId → UStat
  upool : RId → RId           -- p_ythread->thread.p_pool
  onSched : Bool            -- the main scheduler's own ULT is running
  automatic : Bool
  uaf : Bool                -- a work unit was pushed to a freed pool

inductive Ev where
  | request (u x : RId)
  | run (u : RId)
  | yield (u : RId)
  | finish (u : RId)
  | replace
deriving DecidableEq, Repr

/-- `ABTI_ythread_resume_and_push(p_waiter)`: push to the pool the waiter is associated with -/
def resumePush (s : St) (w : RId) : St :=
  { s with ustat := upd s.ustat w .ready,
           uaf := s.uaf || (s.automatic && s.freed (s.upool w)) }

def step (s : St) : Ev → Option St
  | .request u x =>
    -- the caller runs on this stream; x is a scheduler that is not in use
    if s.onSched = false ∧ s.ustat u = .running ∧ u ∈ s.ults ∧
       x ≠ s.cur ∧ s.freed x = false ∧ s.rsched x = none ∧ s.rwaiter x = none then
      -- for (p...) if (p_ythread->thread.p_pool == main_sched->pools[p]) set_associated_pool(new pools[0])
      let s1 := if s.upool u = s.cur then { s with upool := upd s.upool u x } else s
      -- if (p_main_sched->p_replace_sched) { discard_and_free; resume_and_push(p_waiter) }
      let s2 := match s1.rsched s1.cur, s1.rwaiter s1.cur with
        | some y, some w =>
          let s' := { s1 with freed := upd s1.freed y true,
                              rsched := upd s1.rsched s1.cur none, rwaiter := upd s1.rwaiter s1.cur none }
          resumePush s' w
        | _, _ => s1
      -- p_replace_sched = p_sched; p_replace_waiter = p_ythread; suspend
      some { s2 with rsched := upd s2.rsched s2.cur (some x), rwaiter := upd s2.rwaiter s2.cur (some u),
                     ustat := upd s2.ustat u .blocked, onSched := true }
    else none
  | .run u =>
    if s.onSched = true ∧ u ∈ s.ults ∧ s.ustat u = .ready ∧ s.upool u = s.cur then
      some { s with ustat := upd s.ustat u .running, onSched := false }
    else none
  | .yield u =>
    if s.onSched = false ∧ u ∈ s.ults ∧ s.ustat u = .running then
      some { s with ustat := upd s.ustat u .ready, onSched := true }
    else none
  | .finish u =>
    if s.onSched = false ∧ u ∈ s.ults ∧ s.ustat u = .running then
      some { s with ustat := upd s.ustat u .done, onSched := true }
    else none
  | .replace =>
    -- ABTI_sched_has_to_stop: REQ_REPLACE and no unit in the scheduler's pool
    if s.onSched = true ∧ s.ults.all (fun u => !(s.ustat u = .ready ∧ s.upool u = s.cur)) then
      match s.rsched s.cur, s.rwaiter s.cur with
      | some x, some w =>
        let s1 := { s with cur := x, freed := upd s.freed s.cur true }
        some (resumePush s1 w)
      | _, _ => none
    else none

def run (s : St) : List Ev → Option St
  | [] => some s
  | e :: es => match step s e with
    | none => none
    | some s' => run s' es

/-- the hypothesis of the partial theorem: no replacement is requested while one is pending -/
def stepNO (s : St) (e : Ev) : Option St :=
  match e with
  | .request _ _ => if (s.rsched s.cur).isSome then none else step s e
  | _ => step s e

def runNO (s : St) : List Ev → Option St
  | [] => some s
  | e :: es => match stepNO s e with
    | none => none
    | some s' => runNO s' es

/-- a stream whose main scheduler is `0`, ULT `0` running, the other listed ULTs ready in pool 0 -/
def init (ults : List RId) (automatic : Bool) : St :=
  { ults := ults, cur := 0, freed := fun _ => false, rsched := fun _ => none, rwaiter := fun _ => none,
    ustat := fun u => if u = 0 then .running else .ready, upool := fun _ => 0,
    onSched := false, automatic := automatic, uaf := false }

end ArgoVerif.Model.Replace
